package main

import (
	"fmt"
	"sort"
	"sync"

	"github.com/shopspring/decimal"
)

// ---------- helpers over the canonical JSON of outcomes ----------

type jOutcomeView struct {
	stage string
	ts    uint64
	defs  map[uint32]any // id -> def JSON
	va    map[uint32]uint64
	aggs  map[[2]uint32]any
}

func viewOutcome(v any) *jOutcomeView {
	m := jObj(v)
	if m == nil {
		return nil
	}
	o := &jOutcomeView{stage: jStr(m["stage"]), ts: jU64(m["ts"]), defs: map[uint32]any{}, va: map[uint32]uint64{}, aggs: map[[2]uint32]any{}}
	for _, e := range jArr(m["defs"]) {
		o.defs[jU32(jget(e, "id"))] = jget(e, "def")
	}
	for _, e := range jArr(m["va"]) {
		o.va[jU32(jget(e, "id"))] = jU64(jget(e, "va"))
	}
	for _, e := range jArr(m["aggs"]) {
		o.aggs[[2]uint32{jU32(jget(e, "sid")), jU32(jget(e, "agg"))}] = jget(e, "v")
	}
	return o
}

func canon(v any) string { return string(marshal(v)) }

// codecView applies what the outcome codec round trip does to a hand-built previous outcome
// (version 0 keeps validity starts to whole seconds) so that monitors compare like with like.
func codecView(o *jOutcomeView, version uint32) *jOutcomeView {
	if version != 0 {
		return o
	}
	c := *o
	c.va = map[uint32]uint64{}
	for k, v := range o.va {
		c.va[k] = v / 1e9 * 1e9
	}
	return &c
}

type voteCount struct {
	rm         map[uint32]int
	upd        map[string]int // id|canonical def -> votes
	retire     int
	validRR    bool
	rrVA       map[uint32]uint64
	counted    []int // indices of observations that were counted
	timestamps []uint64
}

// countVotes re-counts the votes of one round from the op's observation list, independently of the
// implementation: undecodable observations are skipped; an observation carrying an attestation
// while no valid one has been seen yet is skipped entirely when the attestation does not verify.
func countVotes(obs []any, attestations any) voteCount {
	table := map[string]any{}
	for _, e := range jArr(attestations) {
		table[jStr(jget(e, "bytes"))] = jget(e, "rr")
	}
	vc := voteCount{rm: map[uint32]int{}, upd: map[string]int{}}
	for i, o := range obs {
		m := jObj(o)
		if jBool(m["invalid"]) {
			continue
		}
		if a := jStr(m["attested"]); a != "" && !vc.validRR {
			rr, ok := table[a]
			if !ok {
				continue
			}
			vc.validRR = true
			vc.rrVA = map[uint32]uint64{}
			for _, e := range jArr(jget(rr, "va")) {
				vc.rrVA[jU32(jget(e, "id"))] = jU64(jget(e, "va"))
			}
		}
		vc.counted = append(vc.counted, i)
		vc.timestamps = append(vc.timestamps, jU64(m["ts"]))
		if jBool(m["retire"]) {
			vc.retire++
		}
		for _, id := range jArr(m["removes"]) {
			vc.rm[jU32(id)]++
		}
		for _, u := range jArr(m["updates"]) {
			vc.upd[jStr(jget(u, "id"))+"|"+canon(jget(u, "def"))]++
		}
	}
	return vc
}

var stageRank = map[string]int{"staging": 0, "production": 1, "retired": 2}

// ---------- per-step checks (prev -> cur with the round's observations) ----------

type stepCtx struct {
	prop    string
	op      J
	res     any
	f       int
	version uint32
	hasPred bool
	viol    *[]Violation
}

func (c *stepCtx) bad(sig, d string) {
	*c.viol = append(*c.viol, Violation{Sig: c.prop + "/" + sig, Desc: d, Op: c.op, Res: c.res})
}

// C05 + C06 on one transition
func checkTransition(c *stepCtx, prev, cur *jOutcomeView, vc voteCount) {
	pr, pok := stageRank[prev.stage]
	cr, cok := stageRank[cur.stage]
	if c.prop == "C05" {
		if pok != cok || (pok && cr < pr) || (!pok && cur.stage != prev.stage) {
			c.bad("stage-regressed", fmt.Sprintf("stage went from %q to %q", prev.stage, cur.stage))
		}
		if prev.stage == "retired" {
			if cur.stage != "retired" {
				c.bad("unretired", "a retired instance left the retired stage")
			}
			if canon(sortedDefs(prev.defs)) != canon(sortedDefs(cur.defs)) {
				c.bad("retired-defs-changed", "channel set changed after retirement")
			}
			for id, v := range prev.va {
				if cv, ok := cur.va[id]; !ok || cv != v {
					c.bad("retired-va-changed", fmt.Sprintf("validity start of channel %d changed after retirement", id))
				}
			}
		}
	}
	if c.prop == "C06" {
		if prev.stage == "retired" && (cur.stage != prev.stage || canon(sortedDefs(prev.defs)) != canon(sortedDefs(cur.defs))) {
			c.bad("retired-changed-by-votes", "votes changed a retired instance")
		}
		if prev.stage != cur.stage {
			switch {
			case prev.stage == "staging" && cur.stage == "production":
				if !vc.validRR {
					c.bad("promoted-without-attestation", "promoted without a verified attestation")
				}
			case prev.stage == "production" && cur.stage == "retired":
				if vc.retire <= c.f {
					c.bad("retired-without-votes", fmt.Sprintf("retired with %d votes, f=%d", vc.retire, c.f))
				}
			case prev.stage == "staging" && cur.stage == "retired":
				if !vc.validRR || vc.retire <= c.f {
					c.bad("retired-without-votes", "staging->retired needs promotion and > f retire votes")
				}
			default:
				c.bad("unexpected-stage-change", fmt.Sprintf("stage %q -> %q", prev.stage, cur.stage))
			}
		}
		ids := map[uint32]bool{}
		for id := range prev.defs {
			ids[id] = true
		}
		for id := range cur.defs {
			ids[id] = true
		}
		for id := range ids {
			pd, pin := prev.defs[id]
			cd, cin := cur.defs[id]
			if pin && cin && canon(pd) == canon(cd) {
				continue
			}
			if cin {
				if v := vc.upd[fmt.Sprint(id)+"|"+canon(cd)]; v <= c.f {
					c.bad("update-without-votes", fmt.Sprintf("channel %d added/replaced with %d votes for exactly that definition, f=%d", id, v, c.f))
				}
			} else if v := vc.rm[id]; v <= c.f {
				c.bad("removal-without-votes", fmt.Sprintf("channel %d removed with %d votes, f=%d", id, v, c.f))
			}
		}
	}
}

func sortedDefs(m map[uint32]any) []any {
	ids := make([]uint32, 0, len(m))
	for id := range m {
		ids = append(ids, id)
	}
	sort.Slice(ids, func(i, j int) bool { return ids[i] < ids[j] })
	out := make([]any, len(ids))
	for i, id := range ids {
		out[i] = []any{id, m[id]}
	}
	return out
}

// checkReports: C05 report-side clauses on one round
func checkReports(c *stepCtx, cur *jOutcomeView, reports []any) {
	nRet, nChan := 0, 0
	for _, r := range reports {
		m := jObj(r)
		if jStr(m["kind"]) == "retirement" {
			nRet++
			got := map[uint32]uint64{}
			for _, e := range jArr(m["va"]) {
				got[jU32(jget(e, "id"))] = jU64(jget(e, "va"))
			}
			if fmt.Sprint(got) != fmt.Sprint(cur.va) {
				c.bad("retirement-report-va", "retirement report does not carry the outcome's validity starts")
			}
			continue
		}
		nChan++
		if jBool(m["specimen"]) != (cur.stage != "production") {
			c.bad("specimen-flag", fmt.Sprintf("specimen=%v in stage %q", jBool(m["specimen"]), cur.stage))
		}
		if jStr(m["stage"]) != cur.stage {
			c.bad("report-info-stage", "report info carries a different stage than the outcome")
		}
	}
	if cur.stage == "retired" && (nRet != 1 || nChan != 0) {
		c.bad("retired-reports", fmt.Sprintf("retired round produced %d retirement and %d channel reports", nRet, nChan))
	}
	if cur.stage != "retired" && nRet != 0 {
		c.bad("retirement-report-while-live", "retirement report from a non-retired instance")
	}
}

// chain state for C03
type chainState struct {
	last  map[uint32]uint64 // channel -> obsTs of its last report
	pairs int
	// rounds since the channel's last report in which no report came out while the outcome lacked an aggregate
	// for one of the channel's streams (the report would have had a missing value: real codecs refuse it)
	unencodable map[uint32][]uint64
	lastOn      map[uint32]uint64 // channel -> observationsTimestamp (seconds) of its last report as encoded by the real codec
}

func secondsRes(format uint32) bool { return format == 1 || format == 4 }

func checkChain(c *stepCtx, st *chainState, prev, cur *jOutcomeView, vc voteCount, reports []any) {
	// a removal vote > f, a promotion, or retirement ends the run of rounds the property speaks about
	if prev.stage != cur.stage {
		st.last = map[uint32]uint64{}
		st.lastOn = nil
	}
	for id, v := range vc.rm {
		if v > c.f {
			delete(st.last, id)
			delete(st.lastOn, id)
		}
	}
	for id := range st.last {
		if _, ok := cur.defs[id]; !ok {
			delete(st.last, id)
			delete(st.lastOn, id)
		}
	}
	for _, r := range reports {
		m := jObj(r)
		if jStr(m["kind"]) != "channel" {
			continue
		}
		id := jU32(m["channel"])
		va, ts := jU64(m["validAfter"]), jU64(m["obsTs"])
		if !(va < ts) {
			c.bad("empty-or-negative-window", fmt.Sprintf("channel %d: validAfter %d !< observation timestamp %d", id, va, ts))
		}
		format := jU32(m["format"])
		if (c.version == 0 || secondsRes(format)) && !(va/1e9 < ts/1e9) {
			c.bad("same-second-window", fmt.Sprintf("channel %d: start and end in the same second (%d, %d)", id, va, ts))
		}
		if lt, ok := st.last[id]; ok {
			want := lt
			if c.version == 0 {
				want = lt / 1e9 * 1e9
			}
			st.pairs++
			if va != want {
				lost := false
				for _, t := range st.unencodable[id] {
					if va == t || (c.version == 0 && va == t/1e9*1e9) {
						lost = true
					}
				}
				if lost {
					// known finding F4: the validity start advanced over a round whose report could not be encoded
					c.bad("window-lost-after-unencodable-report", fmt.Sprintf("channel %d: report starts at %d, the end of a round in which the channel was due but its report lacked a value and was not produced; the previous report ended at %d, so [%d, %d] is never reported", id, va, want, want, va))
				} else {
					c.bad("chain-broken", fmt.Sprintf("channel %d: report starts at %d but the previous report ended at %d", id, va, want))
				}
			}
		}
		st.last[id] = ts
		delete(st.unencodable, id)
		if on := jObj(m["_onchain"]); on != nil {
			// the window the real codec wrote: [validFromTimestamp, observationsTimestamp] in seconds
			vf, end := jU64(on["validFrom"]), jU64(on["obsTs"])
			if vf > end {
				c.bad("onchain-window-empty", fmt.Sprintf("channel %d: the encoded report is valid from second %d but observed at second %d", id, vf, end))
			}
			if st.lastOn == nil {
				st.lastOn = map[uint32]uint64{}
			}
			if le, ok := st.lastOn[id]; ok && vf != le+1 {
				c.bad("onchain-windows-not-adjacent", fmt.Sprintf("channel %d: the encoded report is valid from second %d but the previous encoded report ended at second %d", id, vf, le))
			}
			st.lastOn[id] = end
		}
	}
	if st.unencodable == nil {
		st.unencodable = map[uint32][]uint64{}
	}
	reported := map[uint32]bool{}
	for _, r := range reports {
		if m := jObj(r); jStr(m["kind"]) == "channel" {
			reported[jU32(m["channel"])] = true
		}
	}
	for id, d := range cur.defs {
		if reported[id] {
			continue
		}
		if _, ok := st.last[id]; !ok {
			continue
		}
		for _, s := range jArr(jget(d, "streams")) {
			if _, ok := cur.aggs[[2]uint32{jU32(jget(s, "sid")), jU32(jget(s, "agg"))}]; !ok {
				st.unencodable[id] = append(st.unencodable[id], cur.ts)
				break
			}
		}
	}
	for id := range st.unencodable {
		if _, ok := st.last[id]; !ok {
			delete(st.unencodable, id)
		}
	}
}

// C15 seen from outside the aggregator: a mode aggregate in the outcome of a round, and a value published for a
// (stream, mode) pair in a report of that round, was reported — as exactly that value — by more than f of the
// observations the round counted.  Timestamped values are exempt: they may be carried forward from earlier rounds (C18).
func checkModeAgreed(c *stepCtx, cur *jOutcomeView, obs []any, counted []int, reports []any) (checked int) {
	const aggMode = 2
	supporters := func(sid uint32, v any) int {
		want := canon(v)
		n := 0
		for _, i := range counted {
			for _, e := range jArr(jObj(obs[i])["values"]) {
				if jU32(jget(e, "sid")) == sid && canon(jget(e, "v")) == want {
					n++
					break
				}
			}
		}
		return n
	}
	for k, v := range cur.aggs {
		if k[1] != aggMode || jStr(jObj(v)["t"]) == "tsv" {
			continue
		}
		checked++
		if n := supporters(k[0], v); n <= c.f {
			c.bad("mode-aggregate-not-agreed", fmt.Sprintf("the outcome holds a mode aggregate for stream %d that only %d of the counted observations of the round reported (need %d)", k[0], n, c.f+1))
		}
	}
	for _, r := range reports {
		m := jObj(r)
		if jStr(m["kind"]) != "channel" {
			continue
		}
		def, ok := cur.defs[jU32(m["channel"])]
		if !ok {
			continue
		}
		streams := jArr(jget(def, "streams"))
		vals := jArr(m["values"])
		for i, st := range streams {
			if i >= len(vals) || jU32(jget(st, "agg")) != aggMode || vals[i] == nil || jStr(jObj(vals[i])["t"]) == "tsv" {
				continue
			}
			checked++
			sid := jU32(jget(st, "sid"))
			if n := supporters(sid, vals[i]); n <= c.f {
				c.bad("published-mode-value-not-agreed", fmt.Sprintf("channel %d publishes, for the mode of stream %d, a value that only %d of the counted observations of the round reported (need %d)", jU32(m["channel"]), sid, n, c.f+1))
			}
		}
	}
	return
}

// C18 on one transition
func checkTSV(c *stepCtx, prev, cur *jOutcomeView, obs []any, counted []int) (checked int) {
	referenced := map[[2]uint32]bool{}
	for _, d := range cur.defs {
		for _, s := range jArr(jget(d, "streams")) {
			referenced[[2]uint32{jU32(jget(s, "sid")), jU32(jget(s, "agg"))}] = true
		}
	}
	for k := range cur.aggs {
		if !referenced[k] {
			c.bad("unreferenced-aggregate-kept", fmt.Sprintf("aggregate for stream %d aggregator %d kept although no channel references it", k[0], k[1]))
		}
	}
	for k, pv := range prev.aggs {
		pm := jObj(pv)
		if jStr(pm["t"]) != "tsv" || !referenced[k] {
			continue
		}
		cv, ok := cur.aggs[k]
		if !ok {
			c.bad("timestamped-aggregate-dropped", fmt.Sprintf("timestamped aggregate for stream %d aggregator %d disappeared", k[0], k[1]))
			continue
		}
		cm := jObj(cv)
		if jStr(cm["t"]) == "tsv" {
			checked++
			if jU64(cm["at"]) < jU64(pm["at"]) {
				c.bad("observed-at-decreased", fmt.Sprintf("stream %d aggregator %d: observed-at went from %s to %s", k[0], k[1], jStr(pm["at"]), jStr(cm["at"])))
			}
		} else {
			// the timestamped aggregate was replaced by a value of another type: legitimate only as a fresh
			// aggregate, which needs more than f counted observations of that type for the stream
			n := 0
			for _, i := range counted {
				for _, e := range jArr(jObj(obs[i])["values"]) {
					// (the median of quotes is the decimal benchmark: both kinds can back a decimal aggregate)
					vt := jStr(jObj(jget(e, "v"))["t"])
					if jU32(jget(e, "sid")) == k[0] && (vt == jStr(cm["t"]) || (jStr(cm["t"]) == "dec" && vt == "quote")) {
						n++
					}
				}
			}
			if n <= c.f {
				c.bad("timestamped-aggregate-replaced", fmt.Sprintf("stream %d aggregator %d: the timestamped aggregate was replaced by a %s value although only %d counted observation(s) carry a value of that type (f = %d)", k[0], k[1], jStr(cm["t"]), n, c.f))
			}
		}
	}
	return
}

// C02 at outcome level: the outcome timestamp and decimal median aggregates lie within the range
// of the counted honest observers whenever those outnumber the counted faulty ones.
func checkHonestRange(c *stepCtx, cur *jOutcomeView, obs []any, honest []any, vc voteCount) (checked int) {
	hs := map[int]bool{}
	for _, i := range honest {
		hs[jInt(i)] = true
	}
	var hts []uint64
	nb := 0
	for _, i := range vc.counted {
		if hs[i] {
			hts = append(hts, jU64(jObj(obs[i])["ts"]))
		} else {
			nb++
		}
	}
	if len(hts) > nb {
		checked++
		lo, hi := hts[0], hts[0]
		for _, t := range hts {
			if t < lo {
				lo = t
			}
			if t > hi {
				hi = t
			}
		}
		if cur.ts < lo || cur.ts > hi {
			c.bad("timestamp-out-of-honest-range", fmt.Sprintf("outcome timestamp %d outside honest range [%d,%d]", cur.ts, lo, hi))
		}
	}
	// per stream median (aggregator 1) over decimals / quote benchmarks
	for k, v := range cur.aggs {
		if k[1] != 1 || jStr(jObj(v)["t"]) != "dec" {
			continue
		}
		var hv []decimal.Decimal
		nbv := 0
		for _, i := range vc.counted {
			for _, e := range jArr(jObj(obs[i])["values"]) {
				if jU32(jget(e, "sid")) != k[0] {
					continue
				}
				sv := jObj(jget(e, "v"))
				if hs[i] {
					switch jStr(sv["t"]) {
					case "dec":
						hv = append(hv, jDec(sv["d"]))
					case "quote":
						hv = append(hv, jDec(sv["bm"]))
					}
				} else {
					nbv++
				}
			}
		}
		if len(hv) > nbv && len(hv) > 0 {
			checked++
			lo, hi := hv[0], hv[0]
			for _, d := range hv {
				if d.Cmp(lo) < 0 {
					lo = d
				}
				if d.Cmp(hi) > 0 {
					hi = d
				}
			}
			got := jDec(jObj(v)["d"])
			if got.Cmp(lo) < 0 || got.Cmp(hi) > 0 {
				c.bad("aggregate-out-of-honest-range", fmt.Sprintf("median of stream %d outside the honest range", k[0]))
			}
		}
	}
	return
}

// ---------- the monitor shared by C01/C02/C03/C05/C06/C18 over llo.outcome and llo.history ----------

func lloMonitor(prop string) Monitor {
	return func(op J, res any) (viol []Violation, nontrivial bool) {
		name := jStr(op["op"])
		if name != "llo.outcome" && name != "llo.history" {
			return
		}
		cfg := jCfg(op["cfg"])
		c := &stepCtx{prop: prop, op: op, res: res, f: cfg.F, version: cfg.Version, hasPred: cfg.HasPred, viol: &viol}
		r := jObj(res)
		if r["panic"] != nil {
			c.bad("panic", "plugin callback panicked")
			return
		}
		if prop == "C01" {
			nontrivial = checkDeterminism(c, op, res)
			return
		}
		switch name {
		case "llo.outcome":
			cur := viewOutcome(r["ok"])
			if cur == nil {
				return
			}
			seq := jU64(op["seqNr"])
			if seq <= 1 {
				if prop == "C05" {
					want := "production"
					if cfg.HasPred {
						want = "staging"
					}
					if cur.stage != want || len(cur.defs) != 0 || len(cur.va) != 0 {
						c.bad("initial-outcome", "initial outcome has the wrong stage or is not empty")
					}
					nontrivial = true
				}
				return
			}
			prev := codecView(viewOutcome(op["prev"]), cfg.Version)
			vc := countVotes(jArr(op["obs"]), op["attestations"])
			switch prop {
			case "C05", "C06":
				checkTransition(c, prev, cur, vc)
				nontrivial = len(vc.rm)+len(vc.upd)+vc.retire > 0 || vc.validRR
			case "C18":
				nontrivial = checkTSV(c, prev, cur, jArr(op["obs"]), vc.counted) > 0
			case "C15":
				nontrivial = checkModeAgreed(c, cur, jArr(op["obs"]), vc.counted, nil) > 0
			case "C02":
				nontrivial = checkHonestRange(c, cur, jArr(op["obs"]), jArr(op["honest"]), vc) > 0
			}
		case "llo.history":
			rounds := jArr(op["rounds"])
			outs := jArr(r["ok"])
			if len(outs) != len(rounds) {
				return
			}
			var prev *jOutcomeView
			st := &chainState{last: map[uint32]uint64{}}
			tsv := 0
			for i, o := range outs {
				om := jObj(o)
				if om["panic"] != nil {
					c.bad("panic", "plugin callback panicked")
					continue
				}
				cur := viewOutcome(om["outcome"])
				if cur == nil {
					continue
				}
				vc := countVotes(jArr(jget(rounds[i], "obs")), op["attestations"])
				reports := jArr(om["reports"])
				if prev == nil {
					// the state before the first round is the initial outcome
					stage := "production"
					if cfg.HasPred {
						stage = "staging"
					}
					prev = &jOutcomeView{stage: stage, defs: map[uint32]any{}, va: map[uint32]uint64{}, aggs: map[[2]uint32]any{}}
				}
				switch prop {
				case "C05":
					checkTransition(c, prev, cur, vc)
					checkReports(c, cur, reports)
					nontrivial = true
				case "C06":
					checkTransition(c, prev, cur, vc)
					nontrivial = nontrivial || len(vc.rm)+len(vc.upd)+vc.retire > 0 || vc.validRR
				case "C03":
					checkChain(c, st, prev, cur, vc, reports)
				case "C18":
					tsv += checkTSV(c, prev, cur, jArr(jget(rounds[i], "obs")), vc.counted)
				case "C15":
					if checkModeAgreed(c, cur, jArr(jget(rounds[i], "obs")), vc.counted, reports) > 0 {
						nontrivial = true
					}
				case "C02":
					if checkHonestRange(c, cur, jArr(jget(rounds[i], "obs")), jArr(jget(rounds[i], "honest")), vc) > 0 {
						nontrivial = true
					}
				}
				prev = cur
			}
			if prop == "C03" {
				nontrivial = st.pairs > 0
			}
			if prop == "C18" {
				nontrivial = tsv > 0
			}
		}
		return
	}
}

// checkDeterminism re-evaluates the op several times on fresh plugin instances, concurrently, and
// compares the raw bytes returned by Outcome()/Reports().
func checkDeterminism(c *stepCtx, op J, res any) bool {
	k := 6
	results := make([]string, k)
	var wg sync.WaitGroup
	for i := 0; i < k; i++ {
		wg.Add(1)
		go func(i int) {
			defer wg.Done()
			defer func() {
				if r := recover(); r != nil {
					results[i] = "panic"
				}
			}()
			results[i] = rawBytesOf(normalise(runOp(op)))
		}(i)
	}
	wg.Wait()
	want := rawBytesOf(res)
	for _, r := range results {
		if r != want {
			c.bad("nondeterministic", "repeated evaluation of the same input gave different bytes")
			break
		}
	}
	// node-local settings (verbose logging, telemetry channels) are not part of the consensus inputs: a node
	// that has them switched the other way must compute the same bytes
	if cfg := jObj(op["cfg"]); cfg != nil {
		for _, variant := range []string{"verbose", "telemetry"} {
			cp := J{}
			for k, v := range op {
				cp[k] = v
			}
			if variant == "verbose" {
				c2 := J{}
				for k, v := range cfg {
					c2[k] = v
				}
				c2["verbose"] = !jBool(cfg["verbose"])
				cp["cfg"] = c2
			} else {
				cp["telemetry"] = !jBool(op["telemetry"])
			}
			got := func() (s string) {
				defer func() {
					if r := recover(); r != nil {
						s = "panic"
					}
				}()
				return rawBytesOf(normalise(runOp(cp)))
			}()
			if got != want {
				c.bad("node-local-setting-changes-result", "the same input gives different bytes on a node with "+variant+" switched the other way")
			}
		}
	}
	return want != ""
}

// rawBytesOf collects the "_bytes" fields (raw outcome / report bytes) of a result in order
func rawBytesOf(res any) string {
	var out string
	var walk func(v any)
	walk = func(v any) {
		switch t := v.(type) {
		case map[string]any:
			if b, ok := t["_bytes"]; ok {
				out += jStr(b) + ";"
			}
			if e, ok := t["err"]; ok {
				out += "err:" + jStr(e) + ";"
			}
			keys := make([]string, 0, len(t))
			for k := range t {
				keys = append(keys, k)
			}
			sort.Strings(keys)
			for _, k := range keys {
				if k != "_bytes" {
					walk(t[k])
				}
			}
		case []any:
			for _, x := range t {
				walk(x)
			}
		}
	}
	walk(res)
	return out
}

func init() {
	for _, p := range []string{"C01", "C03", "C05", "C06", "C18", "C15"} {
		RegMonitor(p, lloMonitor(p))
	}
	RegGen("C15", "plus llo.outcome / llo.history ops (worlds with discrete values, streams used with several aggregators by different channels): every mode aggregate of an outcome and every value a report publishes for a (stream, mode) pair was reported identically by more than f counted observations of that round", func(g *G) {
		genOutcomeCases(g, g.N(200, 3000), "outcome")
		genHistoryCases(g, g.N(60, 1000), g.N(6, 10), "history")
	})
	RegMonitor("C02", lloMonitor("C02"))
	RegGen("C02", "plus llo.outcome / llo.history ops with labelled honest observers (outcome timestamp and per-stream medians within the honest range)", func(g *G) {
		genOutcomeCases(g, g.N(200, 3000), "outcome")
		genHistoryCases(g, g.N(60, 1000), g.N(6, 10), "history")
	})
}
