package main

// C20 — rpc/mtls: ops calling the REAL VerifyPeerCertificate closure with real certificates
// (compared with the Lean decision function), plus the independent monitor of the decision table.
// The TLS handshake matrix and the Replace ∥ verify ∥ Keys stress live in mtls_tls.go.

import (
	"crypto"
	"crypto/ecdsa"
	"crypto/ed25519"
	"crypto/elliptic"
	"crypto/rand"
	"crypto/rsa"
	"crypto/sha256"
	"crypto/x509"
	"encoding/binary"
	"fmt"
	"math/big"
	"sync"

	"github.com/smartcontractkit/chainlink-data-streams/rpc/mtls"
)

// mtlsKey returns the kid-th Ed25519 key pair of a fixed pool (deterministic, so that replays are exact).
func mtlsKey(kid int) (ed25519.PublicKey, ed25519.PrivateKey) {
	var b [8]byte
	binary.BigEndian.PutUint64(b[:], uint64(kid))
	seed := sha256.Sum256(append([]byte("dsv-mtls-key-pool/"), b[:]...))
	priv := ed25519.NewKeyFromSeed(seed[:])
	return priv.Public().(ed25519.PublicKey), priv
}

var (
	mtlsOnce     sync.Once
	mtlsECDSAKey *ecdsa.PrivateKey
	mtlsRSAKey   *rsa.PrivateKey
)

func mtlsOtherKeys() (*ecdsa.PrivateKey, *rsa.PrivateKey) {
	mtlsOnce.Do(func() {
		var err error
		if mtlsECDSAKey, err = ecdsa.GenerateKey(elliptic.P256(), rand.Reader); err != nil {
			panic(err)
		}
		if mtlsRSAKey, err = rsa.GenerateKey(rand.Reader, 2048); err != nil {
			panic(err)
		}
	})
	return mtlsECDSAKey, mtlsRSAKey
}

// mtlsSelfSigned builds the same minimal certificate the package builds (serial 0, nothing else).
func mtlsSelfSigned(signer crypto.Signer) []byte {
	tmpl := x509.Certificate{SerialNumber: big.NewInt(0)}
	der, err := x509.CreateCertificate(rand.Reader, &tmpl, &tmpl, signer.Public(), signer)
	if err != nil {
		panic(err)
	}
	return der
}

// mtlsCertOfShape builds the DER bytes for a certificate shape of an op.
func mtlsCertOfShape(c any) []byte {
	shape := jStr(jget(c, "shape"))
	switch shape {
	case "ed25519":
		pub, priv := mtlsKey(jInt(jget(c, "kid")))
		if hexs(pub) != jStr(jget(c, "key")) {
			panic("op key does not match key pool")
		}
		return mtlsSelfSigned(priv)
	case "ed25519-foreign":
		// subject key kid, signed by a different pool key (not self-signed)
		pub, _ := mtlsKey(jInt(jget(c, "kid")))
		if hexs(pub) != jStr(jget(c, "key")) {
			panic("op key does not match key pool")
		}
		_, issuer := mtlsKey(jInt(jget(c, "kid")) + 1000)
		tmpl := x509.Certificate{SerialNumber: big.NewInt(1)}
		parent := x509.Certificate{SerialNumber: big.NewInt(2)}
		der, err := x509.CreateCertificate(rand.Reader, &tmpl, &parent, pub, issuer)
		if err != nil {
			panic(err)
		}
		return der
	case "ecdsa":
		k, _ := mtlsOtherKeys()
		return mtlsSelfSigned(k)
	case "rsa":
		_, k := mtlsOtherKeys()
		return mtlsSelfSigned(k)
	case "garbage":
		return []byte{0x30, 0x82, 0x01, 0x00, 0xde, 0xad, 0xbe, 0xef, 0x00, 0x01, 0x02}
	case "empty":
		return []byte{}
	case "truncated":
		_, priv := mtlsKey(0)
		der := mtlsSelfSigned(priv)
		return der[:len(der)/2]
	case "trailing":
		_, priv := mtlsKey(0)
		return append(mtlsSelfSigned(priv), 0x00)
	}
	panic("unknown certificate shape " + shape)
}

func mtlsVerifyErrClass(err error) string {
	return errClass(err,
		[2]string{"required exactly one", "cert-count"},
		[2]string{"requires an ed25519 public key", "not-ed25519"},
		[2]string{"invalid ed25519 public key", "invalid-key"},
		[2]string{"unknown public key", "unknown-key"},
		[2]string{"x509:", "parse"},
		[2]string{"asn1:", "parse"})
}

func init() {
	// op mtls.verify : {"keys":["hex"…], "certs":[{"shape":…,"kid":n,"key":"hex"}…]}
	RegOp("mtls.verify", func(in J) any {
		in = normalise(in).(map[string]any)
		var keys []ed25519.PublicKey
		for _, k := range jArr(in["keys"]) {
			keys = append(keys, ed25519.PublicKey(jBytes(k)))
		}
		pk, err := mtls.ValidPublicKeysFromEd25519(keys...)
		if err != nil {
			return resErr(errClass(err, [2]string{"no public keys", "no-keys"}, [2]string{"invalid key length", "key-length"}), err)
		}
		var raw [][]byte
		for _, c := range jArr(in["certs"]) {
			raw = append(raw, mtlsCertOfShape(c))
		}
		if err := pk.VerifyPeerCertificate()(raw, nil); err != nil {
			return resErr(mtlsVerifyErrClass(err), err)
		}
		return resOK(true)
	})
	RegGen("C20", "mtls.verify: allow-lists (1–4 pool keys, duplicates, empty, wrong-length keys) × certificate lists "+
		"(0,1,2,3 certificates; Ed25519 listed/unlisted self-signed and foreign-signed, ECDSA, RSA, garbage/empty/truncated/trailing DER) "+
		"built as real DER and checked by the real callback; non-trivial = the allow-list is constructible; distinct = different op line", genC20Verify)
	RegMonitor("C20", monC20Verify)
}

func mtlsCertJ(shape string, kid int) J {
	switch shape {
	case "ed25519", "ed25519-foreign":
		pub, _ := mtlsKey(kid)
		return J{"shape": shape, "kid": S(kid), "key": hexs(pub)}
	}
	return J{"shape": shape}
}

func genC20Verify(g *G) {
	keyHex := func(kids ...int) []any {
		out := []any{}
		for _, k := range kids {
			p, _ := mtlsKey(k)
			out = append(out, hexs(p))
		}
		return out
	}
	lists := [][]any{keyHex(0), keyHex(0, 1, 2), keyHex(0, 0), keyHex(3, 2, 1, 0), keyHex(7)}
	certLists := [][]J{
		{},
		{mtlsCertJ("ed25519", 0)}, {mtlsCertJ("ed25519", 2)}, {mtlsCertJ("ed25519", 5)}, {mtlsCertJ("ed25519", 7)},
		{mtlsCertJ("ed25519-foreign", 0)}, {mtlsCertJ("ed25519-foreign", 5)},
		{mtlsCertJ("ecdsa", 0)}, {mtlsCertJ("rsa", 0)},
		{mtlsCertJ("garbage", 0)}, {mtlsCertJ("empty", 0)}, {mtlsCertJ("truncated", 0)}, {mtlsCertJ("trailing", 0)},
		{mtlsCertJ("ed25519", 0), mtlsCertJ("ed25519", 0)}, {mtlsCertJ("ed25519", 0), mtlsCertJ("ed25519", 1)},
		{mtlsCertJ("ed25519", 0), mtlsCertJ("garbage", 0)}, {mtlsCertJ("garbage", 0), mtlsCertJ("ed25519", 0)},
		{mtlsCertJ("ed25519", 5), mtlsCertJ("ed25519", 0)},
		{mtlsCertJ("ed25519", 0), mtlsCertJ("ed25519", 1), mtlsCertJ("ed25519", 2)},
		{mtlsCertJ("ecdsa", 0), mtlsCertJ("rsa", 0)},
	}
	tagOf := func(cs []J) string {
		switch len(cs) {
		case 0:
			return "certs-0"
		case 1:
			return "certs-1-" + jStr(cs[0]["shape"])
		}
		return fmt.Sprintf("certs-%d", len(cs))
	}
	asAny := func(cs []J) []any {
		out := []any{}
		for _, c := range cs {
			out = append(out, c)
		}
		return out
	}
	for _, l := range lists {
		for _, cs := range certLists {
			g.Emit(J{"op": "mtls.verify", "keys": l, "certs": asAny(cs)}, "verify", tagOf(cs))
		}
	}
	// allow-lists that must be refused at construction
	p0, _ := mtlsKey(0)
	bad := [][]any{{}, {hexs(p0[:31])}, {hexs(p0), hexs(append(append([]byte{}, p0...), 0))}, {""}, {hexs(p0), ""}}
	for _, l := range bad {
		for _, cs := range certLists[:3] {
			g.Emit(J{"op": "mtls.verify", "keys": l, "certs": asAny(cs)}, "verify", "bad-allow-list")
		}
	}
	// random structured cases
	shapes := []string{"ed25519", "ed25519", "ed25519", "ed25519-foreign", "ecdsa", "rsa", "garbage", "empty", "truncated", "trailing"}
	for i := 0; i < g.N(150, 3000); i++ {
		n := 1 + g.R.Intn(4)
		var kids []int
		for j := 0; j < n; j++ {
			kids = append(kids, g.R.Intn(6))
		}
		nc := []int{1, 1, 1, 1, 1, 1, 0, 2, 2, 3}[g.R.Intn(10)]
		var cs []J
		for j := 0; j < nc; j++ {
			cs = append(cs, mtlsCertJ(shapes[g.R.Intn(len(shapes))], g.R.Intn(8)))
		}
		g.Emit(J{"op": "mtls.verify", "keys": keyHex(kids...), "certs": asAny(cs)}, "verify", "random", tagOf(cs))
	}
}

// monC20Verify: direct transcription of "admitted exactly when the peer presents exactly one
// certificate with an Ed25519 key that is in the allow-list".
func monC20Verify(op J, res any) (viol []Violation, nontrivial bool) {
	if jStr(op["op"]) != "mtls.verify" {
		return nil, false
	}
	r := jObj(res)
	bad := func(sig, d string) { viol = append(viol, Violation{Sig: "C20/" + sig, Desc: d, Op: op, Res: res}) }
	if r["panic"] != nil {
		bad("verify-panic", "VerifyPeerCertificate / ValidPublicKeysFromEd25519 panicked")
		return
	}
	keys := jArr(op["keys"])
	constructible := len(keys) > 0
	for _, k := range keys {
		if len(jStr(k)) != 64 {
			constructible = false
		}
	}
	if !constructible {
		if r["ok"] != nil || (jStr(r["err"]) != "no-keys" && jStr(r["err"]) != "key-length") {
			bad("bad-allow-list-accepted", "an empty or malformed allow-list was not refused at construction")
		}
		return viol, false
	}
	nontrivial = true
	certs := jArr(op["certs"])
	want := false
	if len(certs) == 1 {
		c := jObj(certs[0])
		sh := jStr(c["shape"])
		if sh == "ed25519" || sh == "ed25519-foreign" {
			for _, k := range keys {
				if jStr(k) == jStr(c["key"]) {
					want = true
				}
			}
		}
	}
	got := r["ok"] != nil
	if got && !want {
		bad("verify-wrong-accept", fmt.Sprintf("peer admitted although it does not present exactly one allow-listed Ed25519 certificate (%d certificates)", len(certs)))
	}
	if !got && want {
		bad("verify-wrong-reject", "peer with exactly one allow-listed Ed25519 certificate rejected: "+jStr(r["err"]))
	}
	return
}
