package main

// C08 — Mercury consensus values are byzantine-robust: generators and monitor for the exported
// GetConsensus* functions (ops mercury.consensus.*).  The report-level part (values seen by the
// codec) is in mercury_gen.go / mercury_mon.go and is registered for C08 as well.

import (
	"fmt"
	"math/big"
	"sort"
)

var (
	mercBigMaxInt192 = new(big.Int).Sub(new(big.Int).Lsh(big.NewInt(1), 191), big.NewInt(1))
	mercBigMinInt192 = new(big.Int).Neg(new(big.Int).Lsh(big.NewInt(1), 191))
)

var mercMedianOps = []string{"benchmark", "bid", "ask", "linkfee", "nativefee"}

func mercIsFeeOp(name string) bool {
	return name == "mercury.consensus.linkfee" || name == "mercury.consensus.nativefee"
}

func mercRndPrice(g *G) *big.Int {
	switch g.R.Intn(12) {
	case 0:
		return new(big.Int).Set(mercBigMaxInt192)
	case 1:
		return new(big.Int).Set(mercBigMinInt192)
	case 2:
		return big.NewInt(0)
	case 3:
		return big.NewInt(-1)
	case 4:
		b := new(big.Int).Rand(g.R, new(big.Int).Lsh(big.NewInt(1), uint(1+g.R.Intn(190))))
		if g.R.Intn(2) == 0 {
			b.Neg(b)
		}
		return b
	default:
		return big.NewInt(int64(g.R.Intn(41) - 10))
	}
}

// mercLabelled emits vals = shuffle(honest ++ faulty) with the honest index set
func mercLabelled(g *G, honest, faulty []J) (vals []any, hidx []any) {
	type lv struct {
		v J
		h bool
	}
	var l []lv
	for _, v := range honest {
		l = append(l, lv{v, true})
	}
	for _, v := range faulty {
		l = append(l, lv{v, false})
	}
	g.R.Shuffle(len(l), func(i, j int) { l[i], l[j] = l[j], l[i] })
	hidx = []any{}
	for i, e := range l {
		vals = append(vals, e.v)
		if e.h {
			hidx = append(hidx, i)
		}
	}
	return
}

func genC08Consensus(g *G) {
	val := func(v *big.Int, ok bool) J { return J{"v": v.String(), "ok": ok} }
	// ---- medians with an honest / faulty split
	for i := 0; i < g.N(1200, 20000); i++ {
		f := 1 + g.R.Intn(3)
		b := g.R.Intn(f + 1)
		n := 2*f + 1 + g.R.Intn(f+1)
		if g.R.Intn(10) == 0 {
			n = 1 + g.R.Intn(2*f+1) // fewer than 2f+1: starvation paths
			if b >= n {
				b = n - 1
			}
		}
		h := n - b
		opn := mercMedianOps[g.R.Intn(len(mercMedianOps))]
		center := mercRndPrice(g)
		var honest, faulty []J
		for k := 0; k < h; k++ {
			v := new(big.Int).Add(center, big.NewInt(int64(g.R.Intn(7)-3)))
			if v.Cmp(mercBigMaxInt192) > 0 {
				v.Set(mercBigMaxInt192)
			}
			honest = append(honest, val(v, g.R.Intn(8) != 0))
		}
		for k := 0; k < b; k++ {
			faulty = append(faulty, val(mercRndPrice(g), g.R.Intn(4) != 0))
		}
		vals, hidx := mercLabelled(g, honest, faulty)
		g.Emit(J{"op": "mercury.consensus." + opn, "f": f, "vals": vals, "honest": hidx}, "median", opn, "f="+S(f))
	}
	// ---- machine-word edges: every value fits a signed 32/64/128-bit word but the difference between a correct
	// and an opposite-signed faulty value does not, for some of the correct values only (a comparator that
	// subtracts in a machine word is then not even transitive); all list orders matter, so many shuffles
	for i := 0; i < g.N(800, 10000); i++ {
		f := 1 + g.R.Intn(3)
		b := 1 + g.R.Intn(f)
		n := 2*f + 1 + g.R.Intn(f+1)
		h := n - b
		w := []uint{31, 63, 63, 63, 127}[g.R.Intn(5)]
		half := new(big.Int).Lsh(big.NewInt(1), w) // 2^(word-1)
		lo := new(big.Int).Rand(g.R, new(big.Int).Rsh(half, 1))
		lo.Add(lo, new(big.Int).Rsh(half, 3))
		spread := new(big.Int).Rsh(half, uint(3+g.R.Intn(8)))
		sign := int64(1)
		if g.R.Intn(2) == 0 {
			sign = -1
		}
		mk := func(v *big.Int) *big.Int { return new(big.Int).Mul(v, big.NewInt(sign)) }
		var honest, faulty []J
		for k := 0; k < h; k++ {
			honest = append(honest, val(mk(new(big.Int).Add(lo, new(big.Int).Rand(g.R, spread))), true))
		}
		for k := 0; k < b; k++ {
			t := new(big.Int).Add(lo, new(big.Int).Rand(g.R, spread)) // the threshold lies inside the correct spread
			fv := new(big.Int).Sub(t, half)
			if g.R.Intn(4) == 0 {
				fv.Sub(fv, half) // far outside: the difference wraps all the way round
			}
			faulty = append(faulty, val(mk(fv), true))
		}
		opn := []string{"benchmark", "bid", "ask"}[g.R.Intn(3)] // fees skip negative values
		vals, hidx := mercLabelled(g, honest, faulty)
		g.Emit(J{"op": "mercury.consensus." + opn, "f": f, "vals": vals, "honest": hidx}, "median", "machine-word-edge", opn, "f="+S(f))
	}
	// ---- timestamps
	for i := 0; i < g.N(400, 5000); i++ {
		f := 1 + g.R.Intn(3)
		b := g.R.Intn(f + 1)
		h := 2*f + 1 - b + g.R.Intn(f+1)
		base := uint32(g.R.Uint32())
		switch g.R.Intn(5) {
		case 0:
			base = 0
		case 1:
			base = ^uint32(0) - uint32(g.R.Intn(4))
		}
		var ts []any
		var l []struct {
			t uint32
			h bool
		}
		for k := 0; k < h; k++ {
			t := base + uint32(g.R.Intn(3))
			if t < base {
				t = ^uint32(0)
			}
			l = append(l, struct {
				t uint32
				h bool
			}{t, true})
		}
		for k := 0; k < b; k++ {
			t := g.R.Uint32()
			switch g.R.Intn(3) {
			case 0:
				t = 0
			case 1:
				t = ^uint32(0)
			}
			l = append(l, struct {
				t uint32
				h bool
			}{t, false})
		}
		g.R.Shuffle(len(l), func(i, j int) { l[i], l[j] = l[j], l[i] })
		hidx := []any{}
		for i, e := range l {
			ts = append(ts, S(e.t))
			if e.h {
				hidx = append(hidx, i)
			}
		}
		g.Emit(J{"op": "mercury.consensus.timestamp", "ts": ts, "honest": hidx}, "median", "timestamp")
	}
	// ---- exhaustive order types: every sequence over {0..n-1}^n (all weak orders of n values),
	// faulty positions = the last b entries for every b < n-b
	maxN := g.N(4, 6)
	for n := 1; n <= maxN; n++ {
		seq := make([]int, n)
		var rec func(k int)
		rec = func(k int) {
			if k == n {
				for b := 0; 2*b < n; b++ {
					var vals, hidx []any
					hidx = []any{}
					for i, x := range seq {
						vals = append(vals, val(big.NewInt(int64(x)), true))
						if i < n-b {
							hidx = append(hidx, i)
						}
					}
					f := b
					if f == 0 {
						f = 1
					}
					g.Emit(J{"op": "mercury.consensus.benchmark", "f": f, "vals": vals, "honest": hidx}, "order-types")
				}
				return
			}
			for x := 0; x < n; x++ {
				seq[k] = x
				rec(k + 1)
			}
		}
		rec(0)
	}
	// ---- exactly f / f+1 valid values (threshold), even and odd lengths (median index)
	for f := 0; f <= 3; f++ {
		for _, k := range []int{f, f + 1, f + 2} {
			for _, opn := range mercMedianOps {
				var vals []any
				for i := 0; i < k; i++ {
					vals = append(vals, val(big.NewInt(int64(10*i+1)), true))
				}
				for i := 0; i < f; i++ {
					vals = append(vals, val(big.NewInt(-5), false))
				}
				all := []any{}
				for i := 0; i < k; i++ {
					all = append(all, i)
				}
				g.Emit(J{"op": "mercury.consensus." + opn, "f": f, "vals": vals, "honest": all}, "threshold")
			}
		}
	}
	// negative fees are skipped: f+1 valid flags but only f non-negative
	for f := 1; f <= 3; f++ {
		var vals []any
		for i := 0; i < f; i++ {
			vals = append(vals, val(big.NewInt(int64(i)), true))
		}
		vals = append(vals, val(big.NewInt(-1), true))
		g.Emit(J{"op": "mercury.consensus.linkfee", "f": f, "vals": vals, "honest": []any{}}, "threshold", "negative-fee")
		g.Emit(J{"op": "mercury.consensus.nativefee", "f": f, "vals": vals, "honest": []any{}}, "threshold", "negative-fee")
	}
	g.Emit(J{"op": "mercury.consensus.timestamp", "ts": []any{}, "honest": []any{}}, "empty")
	g.Emit(J{"op": "mercury.consensus.benchmark", "f": 0, "vals": []any{}, "honest": []any{}}, "empty")

	// ---- f+1-agreement selectors: random vote tables
	selOps := []string{"maxfinalizedts", "v1.maxfinalizedblocknum", "v4.marketstatus"}
	for i := 0; i < g.N(1200, 20000); i++ {
		f := 1 + g.R.Intn(3)
		b := g.R.Intn(f + 1)
		h := 2*f + 1 - b + g.R.Intn(f+1)
		opn := selOps[g.R.Intn(len(selOps))]
		pool := mercSelPool(g, opn)
		agreed := pool[g.R.Intn(len(pool))]
		var honest, faulty []J
		for k := 0; k < h; k++ {
			v := agreed
			if g.R.Intn(5) == 0 {
				v = pool[g.R.Intn(len(pool))]
			}
			honest = append(honest, val(v, g.R.Intn(10) != 0))
		}
		fv := pool[g.R.Intn(len(pool))] // colluding faulty observers
		for k := 0; k < b; k++ {
			v := fv
			if g.R.Intn(3) == 0 {
				v = pool[g.R.Intn(len(pool))]
			}
			faulty = append(faulty, val(v, g.R.Intn(6) != 0))
		}
		tag := "selector"
		if g.R.Intn(6) == 0 {
			// two camps of correct observers, each large enough on its own (>= f+1 votes), of unequal size:
			// which of the two qualifying values is selected is part of the function's contract
			honest = honest[:0]
			x, y := pool[g.R.Intn(len(pool))], pool[g.R.Intn(len(pool))]
			for k := f + 1 + g.R.Intn(3); k > 0; k-- {
				honest = append(honest, val(x, true))
			}
			for k := f + 1 + g.R.Intn(3); k > 0; k-- {
				honest = append(honest, val(y, true))
			}
			tag = "two-camps"
		}
		vals, hidx := mercLabelled(g, honest, faulty)
		g.Emit(J{"op": "mercury.consensus." + opn, "f": f, "vals": vals, "honest": hidx}, tag, opn, "f="+S(f))
	}
	// ---- small vote tables, exhaustive: every vector over {a, b, c, invalid}^n, n ≤ 4 (5 thorough)
	for _, opn := range selOps {
		alpha := []J{val(big.NewInt(3), true), val(big.NewInt(7), true), val(big.NewInt(-1), true), val(big.NewInt(7), false)}
		if opn == "v4.marketstatus" {
			alpha[2] = val(big.NewInt(0), true)
		}
		maxLen := g.N(4, 5)
		for n := 0; n <= maxLen; n++ {
			idx := make([]int, n)
			var rec func(k int)
			rec = func(k int) {
				if k == n {
					vals := []any{}
					for _, x := range idx {
						vals = append(vals, alpha[x])
					}
					for f := 0; f <= 2; f++ {
						g.Emit(J{"op": "mercury.consensus." + opn, "f": f, "vals": vals}, "vote-table")
					}
					return
				}
				for x := range alpha {
					idx[k] = x
					rec(k + 1)
				}
			}
			rec(0)
		}
	}
	// ---- v1 latest block: honest chain + forks
	for i := 0; i < g.N(800, 15000); i++ {
		f := 1 + g.R.Intn(3)
		b := g.R.Intn(f + 1)
		h := 2*f + 1 - b + g.R.Intn(f+1)
		top := int64(g.R.Intn(1000) + 20)
		if g.R.Intn(8) == 0 {
			top = int64(^uint64(0)>>1) - int64(g.R.Intn(3))
		}
		var ps []J
		var l []struct {
			p J
			h bool
		}
		for k := 0; k < h; k++ {
			l = append(l, struct {
				p J
				h bool
			}{mercHonestChainPAO(g, top, 0), true})
		}
		for k := 0; k < b; k++ {
			l = append(l, struct {
				p J
				h bool
			}{mercFaultyChainPAO(g, top), false})
		}
		g.R.Shuffle(len(l), func(i, j int) { l[i], l[j] = l[j], l[i] })
		hidx := []any{}
		for i, e := range l {
			ps = append(ps, e.p)
			if e.h {
				hidx = append(hidx, i)
			}
		}
		var anyPs []any
		for _, p := range ps {
			anyPs = append(anyPs, p)
		}
		g.Emit(J{"op": "mercury.consensus.v1.latestblock", "f": f, "paos": anyPs, "honest": hidx}, "selector", "v1.latestblock", "f="+S(f))
	}
	// ties inside one block number: same count for two different (hash, ts) → deterministic winner
	for f := 1; f <= 2; f++ {
		mk := func(hashByte byte, ts uint64) J {
			return J{"blocks": []any{mercBlockJ(100, mercHashOf(hashByte), ts)}, "cur": nil}
		}
		var ps []any
		for i := 0; i <= f; i++ {
			ps = append(ps, mk(1, 5), mk(2, 5), mk(3, 6))
		}
		g.Emit(J{"op": "mercury.consensus.v1.latestblock", "f": f, "paos": ps}, "tie")
		g.Emit(J{"op": "mercury.consensus.v1.latestblock", "f": f, "paos": ps[:len(ps)-1]}, "tie")
	}
	g.Emit(J{"op": "mercury.consensus.v1.latestblock", "f": 1, "paos": []any{}}, "empty")
}

func mercSelPool(g *G, opn string) []*big.Int {
	if opn == "v4.marketstatus" {
		// incl. values that alias 1 and 2 under a narrower integer type (mod 2^8, 2^16, 2^24)
		return []*big.Int{big.NewInt(0), big.NewInt(1), big.NewInt(2), big.NewInt(3), new(big.Int).SetUint64(uint64(^uint32(0))),
			big.NewInt(257), big.NewInt(258), big.NewInt(65537), big.NewInt(1<<24 + 1), big.NewInt(513)}
	}
	base := int64(g.R.Intn(1000))
	p := []*big.Int{big.NewInt(base), big.NewInt(base + 1<<32), big.NewInt(base + 256), big.NewInt(base + 65536),big.NewInt(-1), big.NewInt(-2), big.NewInt(0), big.NewInt(int64(g.R.Intn(1000))), big.NewInt(int64(g.R.Intn(1000))),
		big.NewInt(int64(^uint32(0))), big.NewInt(int64(^uint32(0)) - 1), big.NewInt(int64(^uint64(0) >> 1)), big.NewInt(-int64(^uint64(0)>>1) - 1)}
	return p
}

func mercHashOf(b byte) []byte {
	h := make([]byte, 32)
	for i := range h {
		h[i] = b
	}
	return h
}

// mercChainHash: the honest chain's hash for a block number (fork selects an alternative chain)
func mercChainHash(num int64, fork byte) []byte {
	h := make([]byte, 32)
	for i := range h {
		h[i] = byte(uint64(num)>>(8*(uint(i)%8))) ^ byte(i) ^ fork
	}
	return h
}

func mercBlockJ(num int64, hash []byte, ts uint64) J {
	return J{"num": S(num), "hash": hexs(hash), "ts": S(ts)}
}

func mercHonestChainPAO(g *G, top int64, fork byte) J {
	height := top - int64(g.R.Intn(3)) // honest nodes lag by up to two blocks
	if g.R.Intn(6) == 0 {              // deprecated single current block
		return J{"blocks": []any{}, "cur": mercBlockJ(height, mercChainHash(height, fork), uint64(height)*12)}
	}
	k := 1 + g.R.Intn(6)
	var bs []any
	for i := 0; i < k && height-int64(i) >= 0; i++ {
		n := height - int64(i)
		bs = append(bs, mercBlockJ(n, mercChainHash(n, fork), uint64(n)*12))
	}
	return J{"blocks": bs, "cur": nil}
}

func mercFaultyChainPAO(g *G, top int64) J {
	switch g.R.Intn(5) {
	case 0: // a fork at a higher number
		return mercHonestChainPAO(g, top+int64(g.R.Intn(5)), 0x55)
	case 1: // duplicates of one block to inflate its count (possible only when calling the exported function directly)
		n := top + 1
		b := mercBlockJ(n, mercChainHash(n, 0x77), 1)
		return J{"blocks": []any{b, b, b, b}, "cur": nil}
	case 2:
		return J{"blocks": []any{}, "cur": nil}
	case 3: // same number as honest, different timestamp / hash
		return J{"blocks": []any{mercBlockJ(top, mercChainHash(top, 0), uint64(g.R.Intn(5))), mercBlockJ(top-1, mercChainHash(top-1, 9), uint64(top-1)*12)}, "cur": nil}
	default:
		return mercHonestChainPAO(g, top, 0)
	}
}

// ---------------------------------------------------------------- monitor

func init() {
	RegGen("C08", "exported GetConsensus* functions on value lists with a mercLabelled honest/faulty split (faulty ≤ f, f in 1..3, 2f+1..3f+1 observers plus starved lists), int192 bounds, exhaustive order types up to 4 (thorough 6) values, exhaustive vote tables up to 4 (5) voters, threshold cases with exactly f / f+1 usable values; non-trivial = at least one faulty or invalid entry, or an exhaustive/threshold case; distinct = different op line", genC08Consensus)
	RegMonitor("C08", monC08Consensus)
}

func monC08Consensus(op J, res any) (viol []Violation, nontrivial bool) {
	name := jStr(op["op"])
	if len(name) < 18 || name[:18] != "mercury.consensus." {
		return
	}
	r := jObj(res)
	bad := func(sig, d string) { viol = append(viol, Violation{Sig: "C08/" + sig, Desc: d, Op: op, Res: res}) }
	f := 0
	if op["f"] != nil {
		f = jInt(op["f"])
	}
	hset := map[int]bool{}
	labelledCase := op["honest"] != nil
	for _, i := range jArr(op["honest"]) {
		hset[jInt(i)] = true
	}
	rerun := func(perm J) {
		res2 := normalise(runOp(perm))
		if string(marshal(stripPrivate(res2))) != string(marshal(stripPrivate(res))) {
			bad("order-dependent", name+": result depends on the order of the observations")
		}
	}
	switch name {
	case "mercury.consensus.timestamp":
		ts := jArr(op["ts"])
		if len(ts) == 0 {
			return viol, true // documented precondition: at least one element (panics otherwise)
		}
		if r["panic"] != nil {
			bad("panic", "GetConsensusTimestamp panicked on a non-empty list")
			return
		}
		got := jBig(r["ok"])
		var lo, hi *big.Int
		nh := 0
		for i, t := range ts {
			if !hset[i] {
				continue
			}
			nh++
			v := jBig(t)
			if lo == nil || v.Cmp(lo) < 0 {
				lo = v
			}
			if hi == nil || v.Cmp(hi) > 0 {
				hi = v
			}
		}
		nontrivial = len(ts)-nh > 0
		if nh > len(ts)-nh && (got.Cmp(lo) < 0 || got.Cmp(hi) > 0) {
			bad("out-of-range/timestamp", "consensus timestamp outside the honest range")
		}
		cp := append([]any{}, ts...)
		sort.Slice(cp, func(i, j int) bool { return jBig(cp[i]).Cmp(jBig(cp[j])) > 0 })
		rerun(J{"op": name, "ts": cp})
		return
	case "mercury.consensus.v1.latestblock":
		paos := jArr(op["paos"])
		if r["panic"] != nil {
			bad("panic", "GetConsensusLatestBlock panicked")
			return
		}
		nontrivial = len(paos)-len(hset) > 0 || !labelledCase
		if okv := jObj(r["ok"]); okv != nil {
			key := func(b any) string { return S(jBig(jget(b, "num"))) + "/" + jStr(jget(b, "hash")) + "/" + S(jBig(jget(b, "ts"))) }
			want := key(okv)
			cnt, observers, honestObservers := 0, 0, 0
			distinctNums := true
			for i, p := range paos {
				bs := jArr(jget(p, "blocks"))
				if len(bs) == 0 {
					if c := jget(p, "cur"); c != nil {
						bs = []any{c}
					}
				}
				seen := false
				nums := map[string]bool{}
				for _, b := range bs {
					if nums[S(jBig(jget(b, "num")))] {
						distinctNums = false
					}
					nums[S(jBig(jget(b, "num")))] = true
					if key(b) == want {
						cnt++
						seen = true
					}
				}
				if seen {
					observers++
					if hset[i] {
						honestObservers++
					}
				}
			}
			if cnt < f+1 {
				bad("below-threshold/latestblock", fmt.Sprintf("consensus block reported %d times, need f+1=%d", cnt, f+1))
			}
			// when no observation repeats a block number (what parsing enforces) every vote is a distinct observer
			if distinctNums {
				if observers < f+1 {
					bad("below-threshold/latestblock-observers", "consensus block reported by fewer than f+1 observers")
				}
				if labelledCase && len(paos)-len(hset) <= f && honestObservers == 0 {
					bad("attacker-chosen/latestblock", "consensus block was reported by no correct observer")
				}
			}
		}
		cp := append([]any{}, paos...)
		sort.SliceStable(cp, func(i, j int) bool { return string(marshal(cp[i])) > string(marshal(cp[j])) })
		rerun(J{"op": name, "f": f, "paos": cp})
		return
	}
	// (value, valid) lists
	vals := jArr(op["vals"])
	if r["panic"] != nil {
		if len(vals) == 0 && f == 0 {
			return viol, true // empty slice with f=0: documented precondition
		}
		bad("panic", name+" panicked")
		return
	}
	fee := mercIsFeeOp(name)
	usable := func(e any) bool {
		if !jBool(jget(e, "ok")) {
			return false
		}
		return !fee || jBig(jget(e, "v")).Sign() >= 0
	}
	nUsable, nH, nB := 0, 0, 0
	for i, e := range vals {
		if usable(e) {
			nUsable++
			if hset[i] {
				nH++
			} else {
				nB++
			}
		}
	}
	nontrivial = !labelledCase || len(vals)-len(hset) > 0 || nUsable < len(vals)
	cp := append([]any{}, vals...)
	sort.SliceStable(cp, func(i, j int) bool { return string(marshal(cp[i])) > string(marshal(cp[j])) })
	rerun(J{"op": name, "f": f, "vals": cp})

	isMedian := false
	for _, m := range mercMedianOps {
		if name == "mercury.consensus."+m {
			isMedian = true
		}
	}
	if nUsable < f+1 {
		if r["ok"] != nil {
			bad("starved-accepted", name+": value produced from fewer than f+1 usable observations")
		}
		return
	}
	if isMedian {
		if r["ok"] == nil {
			bad("refused", name+": refused although f+1 usable values were supplied")
			return
		}
		got := jBig(r["ok"])
		if labelledCase && nH > nB {
			var lo, hi *big.Int
			for i, e := range vals {
				if !hset[i] || !usable(e) {
					continue
				}
				v := jBig(jget(e, "v"))
				if lo == nil || v.Cmp(lo) < 0 {
					lo = v
				}
				if hi == nil || v.Cmp(hi) > 0 {
					hi = v
				}
			}
			if got.Cmp(lo) < 0 || got.Cmp(hi) > 0 {
				bad("out-of-range/"+name[18:], name+": median outside the honest range")
			}
		}
		return
	}
	// selectors: the result must have been reported identically by at least f+1 observers
	if r["ok"] != nil {
		got := jBig(r["ok"])
		cnt, hcnt := 0, 0
		for i, e := range vals {
			if jBool(jget(e, "ok")) && jBig(jget(e, "v")).Cmp(got) == 0 {
				cnt++
				if hset[i] {
					hcnt++
				}
			}
		}
		if cnt < f+1 {
			bad("below-threshold/"+name[18:], fmt.Sprintf("%s: result reported %d times, need f+1=%d", name, cnt, f+1))
		}
		if labelledCase && len(vals)-len(hset) <= f && hcnt == 0 {
			bad("attacker-chosen/"+name[18:], name+": result was reported by no correct observer")
		}
	}
	return
}
