package main

// Monitors for C07 / C08 (report level) / C09: direct transcriptions of the property statements,
// evaluated on what the real plugins returned and on the ReportFields the codec was handed.
// Nothing here consults the Lean model.

import (
	"fmt"
	"math/big"
	"sort"
	"strings"

)

func init() {
	RegGen("C07", "Report of the v1–v4 plugins (real factories, reference codec): random scenarios (f 1..3, 2f+1..3f+1 observers, ≤ f or > f faulty, previous report absent/present/unreadable, codec failing/empty/over-long) plus directed boundary cases (price at min/max±, int192 bounds, uint32 timestamp and expiration-window edges, int64 block numbers, exactly f / f+1 observations, negative and MaxInt192 fees) plus an implementation-only stream with malformed observation bytes; every case is evaluated three times on fresh plugin instances; non-trivial = a report was emitted or refused by build/validation/length checks; distinct = different op line", genMercReports)
	RegMonitor("C07", monC07)
	RegGen("C08", "the same Report scenarios with the honest index set: the fields handed to the codec are checked against the honest observations; non-trivial = emitted report with at least one faulty observation", func(g *G) {
		for i := 0; i < g.N(1200, 20000); i++ {
			s := mercRandScn(g, 1+i%4)
			s.prev = s.randPrev(g)
			g.Emit(s.reportOp(g), mercTags(s, "report")...)
		}
	})
	RegMonitor("C08", monC08Report)
	RegGen("C09", "multi-round histories per version (3..8 rounds; timestamps / chain advancing, stalling, regressing; ≤ f faulty observers per round; failing rounds; initial previous report absent / present / at the type maximum / unreadable) with previousReport threaded from each emitted report, plus marches up to the uint32 boundary; non-trivial = at least two reports emitted in the history; distinct = different op line", genMercHistories)
	RegMonitor("C09", monC09)
}

func mercVersion(name string) int {
	var v int
	if _, err := fmt.Sscanf(name, "mercury.v%d.report", &v); err != nil {
		return 0
	}
	return v
}

func mercI192Val(h any) (*big.Int, bool) {
	return indepDecInt192(jBytes(h))
}

// mercDropped: would parseAttributedObservation reject this observation?  (independent transcription
// of the documented rules: undecodable int192 of a field flagged valid, v3 bid>mid or mid>ask, v1
// block-list rules)
func mercDropped(v int, ao any) bool {
	m := jObj(ao)
	if m == nil || jBool(m["bad"]) || m["raw"] != nil {
		return true
	}
	okLen := func(k string) bool { return len(jBytes(m[k])) == 24 }
	if jBool(m["pricesValid"]) {
		if !okLen("bp") {
			return true
		}
		if v == 1 || v == 3 {
			if !okLen("bid") || !okLen("ask") {
				return true
			}
		}
		if v == 3 {
			bp, _ := mercI192Val(m["bp"])
			bid, _ := mercI192Val(m["bid"])
			ask, _ := mercI192Val(m["ask"])
			if bid.Cmp(bp) > 0 || bp.Cmp(ask) > 0 {
				return true
			}
		}
	}
	if v == 1 {
		bs := jArr(m["blocks"])
		if len(bs) > 0 {
			if len(bs) > 10 {
				return true
			}
			nums, hashes := map[string]bool{}, map[string]bool{}
			for _, b := range bs {
				n, h := jBig(jget(b, "num")), jStr(jget(b, "hash"))
				if nums[n.String()] || hashes[h] || len(h) != 64 || n.Sign() < 0 {
					return true
				}
				nums[n.String()], hashes[h] = true, true
			}
		} else if jBool(m["curValid"]) {
			if len(jStr(m["curHash"])) != 64 || jBig(m["curNum"]).Sign() < 0 {
				return true
			}
		}
		return false
	}
	if jBool(m["linkValid"]) && !okLen("link") {
		return true
	}
	if jBool(m["nativeValid"]) && !okLen("native") {
		return true
	}
	return false
}

// ---------------------------------------------------------------- C07 (+ C01 determinism)

func monC07(op J, res any) (viol []Violation, nontrivial bool) {
	v := mercVersion(jStr(op["op"]))
	if v == 0 {
		return
	}
	r := jObj(res)
	bad := func(sig, d string) { viol = append(viol, Violation{Sig: sig, Desc: d, Op: op, Res: res}) }
	if r["panic"] != nil {
		bad("C07/panic", "Report panicked")
		return
	}
	// C01: same input, fresh plugin instances, identical result
	mine := string(marshal(stripPrivate(res)))
	for k := 0; k < 2; k++ {
		if again := string(marshal(stripPrivate(normalise(runOp(op))))); again != mine {
			bad("C01/mercury-nondeterministic", "Report returned different results for the same input on fresh plugin instances")
			break
		}
	}
	if e, ok := r["err"]; ok {
		c := jStr(e)
		nontrivial = strings.HasPrefix(c, "build") || strings.HasPrefix(c, "validate") || c == "too-long" || c == "zero-length" || c == "codec"
		if r["_anomaly"] != nil {
			bad("C07/error-with-report", "an error was returned together with shouldReport / report bytes")
		}
		return
	}
	okv := jObj(r["ok"])
	if okv == nil {
		return
	}
	if !jBool(okv["should"]) {
		if okv["report"] != nil {
			bad("C07/declined-with-report", "shouldReport=false but report bytes returned")
		}
		return
	}
	nontrivial = true
	cfg := jObj(op["cfg"])
	min, max := jBig(cfg["min"]), jBig(cfg["max"])
	f := jInt(cfg["f"])
	rf := jObj(okv["rf"])
	if rf == nil {
		bad("C07/no-fields", "report emitted without BuildReport having been called")
		return
	}
	inRange := func(k string) *big.Int {
		if rf[k] == nil {
			bad("C07/nil-"+k, k+" is nil in an emitted report")
			return nil
		}
		x := jBig(rf[k])
		if x.Cmp(min) < 0 || x.Cmp(max) > 0 {
			bad("C07/out-of-range-"+k, fmt.Sprintf("%s=%s outside the configured [%s,%s]", k, x, min, max))
		}
		return x
	}
	bp := inRange("bp")
	if v == 1 || v == 3 {
		bid, ask := inRange("bid"), inRange("ask")
		if v == 3 && bp != nil && bid != nil && ask != nil && (bid.Cmp(bp) > 0 || bp.Cmp(ask) > 0) {
			bad("C07/bid-mid-ask", "emitted v3 report violates bid <= benchmark <= ask")
		}
	}
	if v == 1 {
		vf, cur := jBig(rf["validFrom"]), jBig(rf["curNum"])
		if vf.Sign() < 0 || vf.Cmp(cur) > 0 {
			bad("C07/v1-block-range", fmt.Sprintf("need 0 <= validFromBlock (%s) <= currentBlock (%s)", vf, cur))
		}
		if len(jBytes(rf["curHash"])) != 32 {
			bad("C07/v1-hash-length", "current block hash is not 32 bytes")
		}
	} else {
		for _, k := range []string{"linkFee", "nativeFee"} {
			if rf[k] == nil {
				bad("C07/nil-"+k, k+" is nil")
				continue
			}
			x := jBig(rf[k])
			if x.Sign() < 0 || x.Cmp(mercBigMaxInt192) > 0 {
				bad("C07/fee-range-"+k, k+" outside [0, MaxInt192]")
			}
		}
		vf, ts, exp := jBig(rf["validFrom"]), jBig(rf["ts"]), jBig(rf["expiresAt"])
		if vf.Cmp(ts) > 0 {
			bad("C07/validFrom-after-ts", fmt.Sprintf("validFrom %s > observation timestamp %s", vf, ts))
		}
		if ts.Cmp(exp) > 0 {
			bad("C07/expired-at-birth", fmt.Sprintf("observation timestamp %s > expiresAt %s", ts, exp))
		}
		want := new(big.Int).Add(ts, jBig(cfg["window"]))
		if exp.Cmp(want) != 0 || want.Cmp(big.NewInt(int64(mercMaxU32))) > 0 {
			bad("C07/expiresAt", fmt.Sprintf("expiresAt %s is not timestamp + window = %s within uint32", exp, want))
		}
		if v == 4 {
			cnt := 0
			for _, ao := range jArr(op["aos"]) {
				if m := jObj(ao); m != nil && m["raw"] == nil && !mercDropped(4, ao) && jBool(m["msValid"]) && jBig(m["ms"]).Cmp(jBig(rf["ms"])) == 0 {
					cnt++
				}
			}
			hasRaw := false
			for _, ao := range jArr(op["aos"]) {
				if m := jObj(ao); m != nil && m["raw"] != nil {
					hasRaw = true
				}
			}
			if cnt < f+1 && !hasRaw {
				bad("C07/market-status-votes", fmt.Sprintf("market status %s reported by %d observers, need f+1=%d", jBig(rf["ms"]), cnt, f+1))
			}
		}
	}
	rep := jBytes(okv["report"])
	if len(rep) == 0 {
		bad("C07/empty-report", "emitted report is empty")
	}
	if len(rep) > jInt(jObj(op["codec"])["maxLen"]) {
		bad("C07/over-long-report", "emitted report exceeds MaxReportLength")
	}
	return
}

// ---------------------------------------------------------------- C08 at the report level

// honestRange checks got against the valid values of correct observers when those outnumber the
// valid values of the others.
func mercRangeCheck(op J, v int, field string, got *big.Int, get func(m map[string]any) (*big.Int, bool), bad func(sig, d string)) {
	hset := map[int]bool{}
	for _, i := range jArr(op["honest"]) {
		hset[jInt(i)] = true
	}
	var lo, hi *big.Int
	nH, nB := 0, 0
	for i, ao := range jArr(op["aos"]) {
		m := jObj(ao)
		if m != nil && m["raw"] != nil {
			nB++ // unknown content: count it against us
			continue
		}
		if mercDropped(v, ao) {
			continue
		}
		x, ok := get(m)
		if !ok {
			continue
		}
		if hset[i] {
			nH++
			if lo == nil || x.Cmp(lo) < 0 {
				lo = x
			}
			if hi == nil || x.Cmp(hi) > 0 {
				hi = x
			}
		} else {
			nB++
		}
	}
	if nH > nB && (got.Cmp(lo) < 0 || got.Cmp(hi) > 0) {
		bad("C08/report-out-of-range/"+field, fmt.Sprintf("%s=%s outside the honest range [%s,%s]", field, got, lo, hi))
	}
}

func monC08Report(op J, res any) (viol []Violation, nontrivial bool) {
	v := mercVersion(jStr(op["op"]))
	if v == 0 || op["honest"] == nil {
		return
	}
	r := jObj(res)
	bad := func(sig, d string) { viol = append(viol, Violation{Sig: sig, Desc: d, Op: op, Res: res}) }
	okv := jObj(r["ok"])
	if okv == nil || !jBool(okv["should"]) {
		return
	}
	rf := jObj(okv["rf"])
	aos := jArr(op["aos"])
	nontrivial = len(aos) > len(jArr(op["honest"]))
	f := jInt(jObj(op["cfg"])["f"])
	price := func(k string) func(m map[string]any) (*big.Int, bool) {
		return func(m map[string]any) (*big.Int, bool) {
			if !jBool(m["pricesValid"]) {
				return nil, false
			}
			return mercI192Val(m[k])
		}
	}
	fee := func(k string) func(m map[string]any) (*big.Int, bool) {
		return func(m map[string]any) (*big.Int, bool) {
			if !jBool(m[k+"Valid"]) {
				return nil, false
			}
			x, ok := mercI192Val(m[k])
			return x, ok && x.Sign() >= 0
		}
	}
	mercRangeCheck(op, v, "ts", jBig(rf["ts"]), func(m map[string]any) (*big.Int, bool) { return jBig(m["ts"]), true }, bad)
	if rf["bp"] != nil {
		mercRangeCheck(op, v, "bp", jBig(rf["bp"]), price("bp"), bad)
	}
	if v == 1 || v == 3 {
		if rf["bid"] != nil {
			mercRangeCheck(op, v, "bid", jBig(rf["bid"]), price("bid"), bad)
		}
		if rf["ask"] != nil {
			mercRangeCheck(op, v, "ask", jBig(rf["ask"]), price("ask"), bad)
		}
	}
	hset := map[int]bool{}
	for _, i := range jArr(op["honest"]) {
		hset[jInt(i)] = true
	}
	faultyN := len(aos) - len(hset)
	// votes(pred): observers (all, honest) whose parsed observation satisfies pred
	votes := func(pred func(m map[string]any) bool) (all, honest int) {
		for i, ao := range aos {
			if mercDropped(v, ao) {
				continue
			}
			if pred(jObj(ao)) {
				all++
				if hset[i] {
					honest++
				}
			}
		}
		return
	}
	agreed := func(what string, pred func(m map[string]any) bool) {
		all, honest := votes(pred)
		if all < f+1 {
			bad("C08/report-below-threshold/"+what, fmt.Sprintf("%s in the report was reported by %d observers, need f+1=%d", what, all, f+1))
		}
		if faultyN <= f && honest == 0 {
			bad("C08/report-attacker-chosen/"+what, what+" in the report was reported by no correct observer")
		}
	}
	if v == 1 {
		want := S(jBig(rf["curNum"])) + "/" + jStr(rf["curHash"]) + "/" + S(jBig(rf["curTs"]))
		agreed("current block", func(m map[string]any) bool {
			bs := jArr(m["blocks"])
			if len(bs) == 0 && jBool(m["curValid"]) {
				return S(jBig(m["curNum"]))+"/"+jStr(m["curHash"])+"/"+S(jBig(m["curTs"])) == want
			}
			for _, b := range bs {
				if S(jBig(jget(b, "num")))+"/"+jStr(jget(b, "hash"))+"/"+S(jBig(jget(b, "ts"))) == want {
					return true
				}
			}
			return false
		})
		if op["prev"] == nil {
			vfm1 := new(big.Int).Sub(jBig(rf["validFrom"]), big.NewInt(1))
			agreed("max finalized block number", func(m map[string]any) bool {
				return jBool(m["mfbnValid"]) && jBig(m["mfbn"]).Cmp(vfm1) == 0
			})
		}
		return
	}
	// fees: in the honest range, or the documented zero fallback when fewer than f+1 usable fees
	for _, k := range [][2]string{{"link", "linkFee"}, {"native", "nativeFee"}} {
		usable, _ := votes(func(m map[string]any) bool { _, ok := fee(k[0])(m); return ok })
		got := jBig(rf[k[1]])
		if usable < f+1 {
			if got.Sign() != 0 {
				bad("C08/report-fee-fallback/"+k[1], "fewer than f+1 usable fees but the reported fee is not the zero fallback")
			}
			continue
		}
		mercRangeCheck(op, v, k[1], got, fee(k[0]), bad)
	}
	if v == 4 {
		agreed("market status", func(m map[string]any) bool { return jBool(m["msValid"]) && jBig(m["ms"]).Cmp(jBig(rf["ms"])) == 0 })
	}
	if op["prev"] == nil {
		vf, ts := jBig(rf["validFrom"]), jBig(rf["ts"])
		mftOK := func(m map[string]any, want *big.Int) bool {
			return jBool(m["mftValid"]) && jBig(m["mft"]).Cmp(want) == 0
		}
		a1, h1 := votes(func(m map[string]any) bool { return mftOK(m, new(big.Int).Sub(vf, big.NewInt(1))) })
		a2, h2 := 0, 0
		if vf.Cmp(ts) == 0 {
			a2, h2 = votes(func(m map[string]any) bool { return mftOK(m, big.NewInt(-1)) })
		}
		if a1 < f+1 && a2 < f+1 {
			bad("C08/report-below-threshold/validFrom", "bootstrap validFrom is not one past a max finalized timestamp agreed by f+1 observers")
		} else if faultyN <= f && !((a1 >= f+1 && h1 > 0) || (a2 >= f+1 && h2 > 0)) {
			bad("C08/report-attacker-chosen/validFrom", "bootstrap validFrom derives from a value no correct observer reported")
		}
	}
	return
}

// ---------------------------------------------------------------- C09

func monC09(op J, res any) (viol []Violation, nontrivial bool) {
	if jStr(op["op"]) != "mercury.history" {
		return
	}
	bad := func(sig, d string) { viol = append(viol, Violation{Sig: sig, Desc: d, Op: op, Res: res}) }
	r := jObj(res)
	if r["panic"] != nil {
		bad("C09/panic", "history op panicked")
		return
	}
	v := jInt(op["v"])
	f := jInt(jObj(op["cfg"])["f"])
	rounds := jArr(op["rounds"])
	results := jArr(r["ok"])
	endKey := "ts"
	if v == 1 {
		endKey = "curNum"
	}
	// what the previous report says, as far as the reference layout lets the harness read it
	var prevEnd *big.Int
	havePrev := op["prev"] != nil
	if havePrev {
		b := jBytes(op["prev"])
		if v == 1 && len(b) >= 108 {
			prevEnd = big.NewInt(int64(new(big.Int).SetBytes(b[100:108]).Uint64()))
		} else if v != 1 && len(b) >= 8 {
			prevEnd = new(big.Int).SetBytes(b[4:8])
		}
	}
	emitted := 0
	for i, rr := range results {
		m := jObj(rr)
		aos := jArr(rounds[i])
		if m["panic"] != nil {
			bad("C09/panic", fmt.Sprintf("Report panicked in round %d", i))
			continue
		}
		if e, ok := m["err"]; ok {
			c := jStr(e)
			if !havePrev && strings.HasPrefix(c, "build:") && strings.Contains(","+strings.TrimPrefix(c, "build:")+",", ",vf,") {
				// bootstrap refused for want of an agreed max-finalized value: is there really none?  (votes counted
				// independently: every observation that survives parsing and flags the value valid has one)
				votes := map[string]int{}
				for _, ao := range aos {
					if mercDropped(v, ao) {
						continue
					}
					a := jObj(ao)
					if v == 1 && jBool(a["mfbnValid"]) {
						votes[jBig(a["mfbn"]).String()]++
					} else if v != 1 && jBool(a["mftValid"]) {
						votes[jBig(a["mft"]).String()]++
					}
				}
				var best *big.Int
				for k, n := range votes {
					if w := mercBig(k); n >= f+1 && (best == nil || w.Cmp(best) > 0) {
						best = w
					}
				}
				limit := big.NewInt(int64(mercMaxU32))
				if v == 1 {
					limit = big.NewInt(mercMaxI64)
				}
				if best != nil && best.Cmp(limit) < 0 && best.Cmp(big.NewInt(-1)) >= 0 {
					bad("C09/bootstrap-refused-despite-agreement", fmt.Sprintf("round %d: no previous report, %d observers agree on max-finalized value %s, yet the plugin refuses for want of an agreed value", i, votes[best.String()], best))
				}
			}
			if strings.HasPrefix(c, "validate:") {
				for _, t := range strings.Split(strings.TrimPrefix(c, "validate:"), ",") {
					if t == "vf" {
						bad("C09/overlap-as-error", fmt.Sprintf("round %d: an overlap was reported as a validation error instead of declining", i))
					}
				}
			}
			continue
		}
		okv := jObj(m["ok"])
		if okv == nil {
			continue
		}
		// observation timestamps that survive parsing (for the v2–v4 decline rule)
		var tss []*big.Int
		for _, ao := range aos {
			if !mercDropped(v, ao) {
				tss = append(tss, jBig(jObj(ao)["ts"]))
			}
		}
		sort.Slice(tss, func(a, b int) bool { return tss[a].Cmp(tss[b]) < 0 })
		if !jBool(okv["should"]) {
			if v != 1 && havePrev && prevEnd != nil && len(tss) > 0 {
				med := tss[len(tss)/2]
				if med.Cmp(new(big.Int).Add(prevEnd, big.NewInt(1))) >= 0 {
					bad("C09/declined-without-overlap", fmt.Sprintf("round %d: declined although timestamp %s >= previous end %s + 1", i, med, prevEnd))
				}
			}
			continue
		}
		rf := jObj(okv["rf"])
		vf, end := jBig(rf["validFrom"]), jBig(rf[endKey])
		if end.Cmp(vf) < 0 {
			bad("C09/end-before-start", fmt.Sprintf("round %d: emitted window [%s,%s] is empty", i, vf, end))
		}
		if havePrev {
			if prevEnd == nil {
				bad("C09/unreadable-previous", fmt.Sprintf("round %d: a report was emitted although the previous report is unreadable", i))
			} else if vf.Cmp(new(big.Int).Add(prevEnd, big.NewInt(1))) != 0 {
				bad("C09/not-adjacent", fmt.Sprintf("round %d: validFrom %s is not previous end %s + 1", i, vf, prevEnd))
			}
		} else {
			// bootstrap: one past a max finalized value agreed by f+1 observers, or the timestamp when they agree on -1
			count := func(want *big.Int) int {
				n := 0
				for _, ao := range aos {
					if mercDropped(v, ao) {
						continue
					}
					a := jObj(ao)
					if v == 1 {
						if jBool(a["mfbnValid"]) && jBig(a["mfbn"]).Cmp(want) == 0 {
							n++
						}
					} else if jBool(a["mftValid"]) && jBig(a["mft"]).Cmp(want) == 0 {
						n++
					}
				}
				return n
			}
			ok := count(new(big.Int).Sub(vf, big.NewInt(1))) >= f+1
			if v != 1 && vf.Cmp(jBig(rf["ts"])) == 0 && count(big.NewInt(-1)) >= f+1 {
				ok = true
			}
			if !ok && v != 1 && vf.Sign() == 0 && count(big.NewInt(mercMaxI64)) >= f+1 {
				// regression of K5 (int64 wrap of maxFinalizedTimestamp+1, repaired in 489eb6c)
				bad("C09/bootstrap-int64-wrap", fmt.Sprintf("round %d: f+1 observers agree on maxFinalizedTimestamp = MaxInt64 and the report starts at validFrom 0 instead of being refused", i))
			} else if !ok {
				bad("C09/bootstrap", fmt.Sprintf("round %d: bootstrap validFrom %s is not one past a value agreed by f+1 observers", i, vf))
			}
		}
		emitted++
		havePrev, prevEnd = true, end
	}
	nontrivial = emitted >= 2
	return
}
