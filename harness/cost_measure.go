package main

// C19 — implementation-only part: MEASURE thread CPU time (getrusage(RUSAGE_THREAD) on a locked OS
// thread) and allocated bytes (runtime.MemStats.TotalAlloc delta) around the REAL callbacks
// (ValidateObservation through a plugin built by the real factory, ObservationCodec.Decode, the
// aggregators, Outcome, Reports, CalculateFee) for size-doubling families of adversarial inputs.
//
// Every measurement runs in a CHILD PROCESS (this binary re-executed with DSV_COST_CHILD set) with a
// wall-clock cap and a memory watchdog, so that a blow-up cannot take the check down.  The F2 witness
// (decimal scale 2^31−1) is only ever run that way, capped at 3 s.
//
// Verdict (from the property text: "no single observation … can make a correct node spend seconds or
// gigabytes inside one callback"): a callback whose input is ≤ 1 MiB and that needs more than 2 s CPU
// or allocates more than 1 GiB — or does not finish within its cap — is a violation.  Growth ratios
// and the Lean model cost of the same family members are recorded as evidence only.

import (
	"bytes"
	"context"
	"encoding/json"
	"errors"
	"fmt"
	"math"
	"math/big"
	"os"
	"os/exec"
	"path/filepath"
	"runtime"
	"runtime/debug"
	"strings"
	"syscall"
	"time"
	"unsafe"

	"github.com/shopspring/decimal"
	"github.com/smartcontractkit/libocr/commontypes"
	"github.com/smartcontractkit/libocr/offchainreporting2/types"
	"github.com/smartcontractkit/libocr/offchainreporting2plus/ocr3types"
	"google.golang.org/protobuf/encoding/protowire"
	"google.golang.org/protobuf/proto"

	"github.com/smartcontractkit/chainlink-common/pkg/logger"
	llotypes "github.com/smartcontractkit/chainlink-common/pkg/types/llo"

	"github.com/smartcontractkit/chainlink-data-streams/llo"
	"github.com/smartcontractkit/chainlink-data-streams/llo/reportcodecs/evm"
)

const (
	costMaxInput  = 1 << 20         // the protocol's observation size limit
	costMaxCPU    = 2 * time.Second // "seconds"
	costMaxAlloc  = 1 << 30         // "gigabytes"
	costChildEnv  = "DSV_COST_CHILD"
	costChildWall = 12 * time.Second
	costF2Wall    = 3 * time.Second
)

// ---------------------------------------------------------------- collaborators of the plugin

type costRetCache struct{}

func (costRetCache) AttestedRetirementReport(types.ConfigDigest) ([]byte, error) { return nil, nil }
func (costRetCache) CheckAttestedRetirementReport(types.ConfigDigest, []byte) (llo.RetirementReport, error) {
	return llo.RetirementReport{}, errors.New("no predecessor")
}

type costShouldRetire struct{}

func (costShouldRetire) ShouldRetire(types.ConfigDigest) (bool, error) { return false, nil }

type costDefs struct{}

func (costDefs) Definitions() llotypes.ChannelDefinitions { return nil }

type costDS struct{}

func (costDS) Observe(context.Context, llo.StreamValues, llo.DSOpts) error { return nil }

// costPlugin builds a plugin through the real factory (f = 1, n = 4, protocol version 1, JSON codec).
func costPlugin() *llo.Plugin {
	ocb, err := llo.EVMOnchainConfigCodec{}.Encode(llo.OnchainConfig{Version: 1})
	if err != nil {
		panic(err)
	}
	offb, err := llo.OffchainConfig{ProtocolVersion: 1, DefaultMinReportIntervalNanoseconds: 1}.Encode()
	if err != nil {
		panic(err)
	}
	f := llo.NewPluginFactory(llo.PluginFactoryParams{
		Config:                           llo.Config{},
		PredecessorRetirementReportCache: costRetCache{},
		ShouldRetireCache:                costShouldRetire{},
		RetirementReportCodec:            llo.StandardRetirementReportCodec{},
		ChannelDefinitionCache:           costDefs{},
		DataSource:                       costDS{},
		Logger:                           logger.Nop(),
		OnchainConfigCodec:               llo.EVMOnchainConfigCodec{},
		ReportCodecs: map[llotypes.ReportFormat]llo.ReportCodec{llotypes.ReportFormatJSON: llo.JSONReportCodec{},
			llotypes.ReportFormatEVMPremiumLegacy:     evm.NewReportCodecPremiumLegacy(logger.Nop(), 1),
			llotypes.ReportFormatEVMABIEncodeUnpacked: evm.NewReportCodecEVMABIEncodeUnpacked(logger.Nop(), 1),
			llotypes.ReportFormat(6):                  evm.NewReportCodecStreamlined()},
	})
	rp, _, err := f.NewReportingPlugin(context.Background(), ocr3types.ReportingPluginConfig{
		ConfigDigest: types.ConfigDigest{0xc1, 9}, N: 4, F: 1, OnchainConfig: ocb, OffchainConfig: offb, MaxDurationObservation: time.Second})
	if err != nil {
		panic(err)
	}
	return rp.(*llo.Plugin)
}

// ---------------------------------------------------------------- input builders

// costNestedBytes builds, in linear time, the MarshalBinary bytes of a decimal wrapped in d+1
// timestamped values (re-marshalling level by level would itself be quadratic).
func costNestedBytes(d int) []byte {
	base, err := costNestedValue(0).MarshalBinary()
	if err != nil {
		panic(err)
	}
	headers := make([][]byte, 0, d)
	inner := len(base)
	for i := 0; i < d; i++ {
		svLen := 3 + protowire.SizeVarint(uint64(inner)) + inner
		h := []byte{0x08, 0x01, 0x12}
		h = protowire.AppendVarint(h, uint64(svLen))
		h = append(h, 0x08, 0x02, 0x12)
		h = protowire.AppendVarint(h, uint64(inner))
		headers = append(headers, h)
		inner = 3 + protowire.SizeVarint(uint64(svLen)) + svLen
	}
	out := make([]byte, 0, inner)
	for i := len(headers) - 1; i >= 0; i-- {
		out = append(out, headers[i]...)
	}
	return append(out, base...)
}

func costBigDecimal(nBytes int, last byte, exp int32) decimal.Decimal {
	b := bytes.Repeat([]byte{0xff}, nBytes)
	if nBytes > 0 {
		b[nBytes-1] = last
	}
	return decimal.NewFromBigInt(new(big.Int).SetBytes(b), exp)
}

func costObsProto(sv map[uint32]*llo.LLOStreamValue, ts uint64) []byte {
	b, err := proto.Marshal(&llo.LLOObservationProto{UnixTimestampNanoseconds: ts, StreamValues: sv})
	if err != nil {
		panic(err)
	}
	return b
}

func costEncodeObs(p *llo.Plugin, o llo.Observation) []byte {
	b, err := p.ObservationCodec.Encode(o)
	if err != nil {
		panic(err)
	}
	return b
}

type costCall struct {
	name  string
	input int // bytes of input handed to the callback
	f     func() error
}

func costValidateCall(p *llo.Plugin, obs []byte) costCall {
	return costCall{"ValidateObservation", len(obs), func() error {
		return p.ValidateObservation(context.Background(), ocr3types.OutcomeContext{SeqNr: 2}, nil, types.AttributedObservation{Observation: obs, Observer: 1})
	}}
}

// costPipeline: Outcome over four attributed observations on top of a production outcome with one
// JSON channel over streams 1 (median), 2 (quote), 3 (mode); then Reports on the result.
func costPipeline(p *llo.Plugin, observations [][]byte) []costCall {
	prev := llo.Outcome{
		LifeCycleStage:                  llo.LifeCycleStageProduction,
		ObservationTimestampNanoseconds: 2_000_000_000,
		ChannelDefinitions: llotypes.ChannelDefinitions{1: {ReportFormat: llotypes.ReportFormatJSON, Streams: []llotypes.Stream{
			{StreamID: 1, Aggregator: llotypes.AggregatorMedian}, {StreamID: 2, Aggregator: llotypes.AggregatorQuote}, {StreamID: 3, Aggregator: llotypes.AggregatorMode}}}},
		ValidAfterNanoseconds: map[llotypes.ChannelID]uint64{1: 1_000_000_000},
	}
	prevB, err := p.OutcomeCodec.Encode(prev)
	if err != nil {
		panic(err)
	}
	var aos []types.AttributedObservation
	total := len(prevB)
	for i, o := range observations {
		aos = append(aos, types.AttributedObservation{Observation: o, Observer: commontypes.OracleID(i)})
		total += len(o)
	}
	var out ocr3types.Outcome
	return []costCall{
		{"Outcome", total, func() error {
			var err error
			out, err = p.Outcome(context.Background(), ocr3types.OutcomeContext{SeqNr: 3, PreviousOutcome: prevB}, nil, aos)
			return err
		}},
		{"Reports", -1, func() error { // input = the outcome just computed
			if out == nil {
				return errors.New("no outcome")
			}
			rs, err := p.Reports(context.Background(), 3, out)
			if err == nil && len(rs) == 0 {
				return errors.New("no report emitted")
			}
			return err
		}},
	}
}

// costFamily returns the callbacks of one family member.
func costFamily(family string, n int) []costCall {
	p := costPlugin()
	sv := func(v llo.StreamValue) *llo.LLOStreamValue {
		b, err := v.MarshalBinary()
		if err != nil {
			panic(err)
		}
		return &llo.LLOStreamValue{Type: v.Type(), Value: b}
	}
	switch family {
	case "nested-tsv": // one stream value nested n levels deep (D7)
		obs := costObsProto(map[uint32]*llo.LLOStreamValue{1: {Type: costTSV, Value: costNestedBytes(n)}}, 3_000_000_000)
		return []costCall{costValidateCall(p, obs), {"ObservationCodec.Decode", len(obs), func() error { _, err := p.ObservationCodec.Decode(obs); return err }}}
	case "nested1-bigvalue": // the one nesting level that still decodes, around an n-byte coefficient
		inner := &llo.TimestampedStreamValue{ObservedAtNanoseconds: 2, StreamValue: llo.ToDecimal(costBigDecimal(n, 1, 0))}
		obs1 := costObsProto(map[uint32]*llo.LLOStreamValue{1: sv(&llo.TimestampedStreamValue{ObservedAtNanoseconds: 1, StreamValue: inner})}, 3_000_000_000)
		obs0 := costObsProto(map[uint32]*llo.LLOStreamValue{1: sv(inner)}, 3_000_000_000)
		c1, c0 := costValidateCall(p, obs1), costValidateCall(p, obs0)
		c1.name, c0.name = "ValidateObservation(nested)", "ValidateObservation(valid)"
		return []costCall{c1, c0}
	case "many-values", "many-quotes", "many-tsv": // n stream values (the count limit is checked after decoding)
		vals := make(llo.StreamValues, n)
		for i := 0; i < n; i++ {
			d := decimal.New(int64(1000+i), -2)
			switch family {
			case "many-values":
				vals[uint32(i+1)] = llo.ToDecimal(d)
			case "many-quotes":
				vals[uint32(i+1)] = &llo.Quote{Bid: d, Benchmark: d.Add(decimal.New(1, 0)), Ask: d.Add(decimal.New(2, 0))}
			default:
				vals[uint32(i+1)] = &llo.TimestampedStreamValue{ObservedAtNanoseconds: uint64(i), StreamValue: llo.ToDecimal(d)}
			}
		}
		obs := costEncodeObs(p, llo.Observation{UnixTimestampNanoseconds: 3_000_000_000, StreamValues: vals})
		return []costCall{costValidateCall(p, obs)}
	case "many-nested-offenders": // n stream values that decode but must be refused: a timestamped value around a timestamped value or a quote
		vals := make(llo.StreamValues, n)
		for i := 0; i < n; i++ {
			d := decimal.New(int64(1000+i), -2)
			var inner llo.StreamValue = &llo.TimestampedStreamValue{ObservedAtNanoseconds: uint64(i), StreamValue: llo.ToDecimal(d)}
			if i%2 == 1 {
				inner = &llo.Quote{Bid: d, Benchmark: d.Add(decimal.New(1, 0)), Ask: d.Add(decimal.New(2, 0))}
			}
			vals[uint32(i+1)] = &llo.TimestampedStreamValue{ObservedAtNanoseconds: uint64(i) + 5, StreamValue: inner}
		}
		obs := costEncodeObs(p, llo.Observation{UnixTimestampNanoseconds: 3_000_000_000, StreamValues: vals})
		return []costCall{costValidateCall(p, obs)}
	case "shared-tsv-stream": // n channels that all aggregate ONE timestamped stream; one byzantine long-digit value
		prev := llo.Outcome{LifeCycleStage: llo.LifeCycleStageProduction, ObservationTimestampNanoseconds: 2_000_000_000,
			ChannelDefinitions: llotypes.ChannelDefinitions{}, ValidAfterNanoseconds: map[llotypes.ChannelID]uint64{}}
		for c := 1; c <= n; c++ {
			prev.ChannelDefinitions[uint32(c)] = llotypes.ChannelDefinition{ReportFormat: llotypes.ReportFormatJSON,
				Streams: []llotypes.Stream{{StreamID: 7, Aggregator: llotypes.AggregatorMedian}}}
			prev.ValidAfterNanoseconds[uint32(c)] = 1_000_000_000
		}
		prevB, err := p.OutcomeCodec.Encode(prev)
		if err != nil {
			panic(err)
		}
		mk := func(d decimal.Decimal, at uint64) []byte {
			return costEncodeObs(p, llo.Observation{UnixTimestampNanoseconds: 3_000_000_000,
				StreamValues: llo.StreamValues{7: &llo.TimestampedStreamValue{ObservedAtNanoseconds: at, StreamValue: llo.ToDecimal(d)}}})
		}
		obsList := [][]byte{mk(decimal.New(1000, -2), 2_900_000_000), mk(decimal.New(1001, -2), 2_900_000_001),
			mk(decimal.New(1002, -2), 2_900_000_002), mk(costBigDecimal(900_000, 1, 0), 2_900_000_003)}
		var aos []types.AttributedObservation
		total := len(prevB)
		for i, o := range obsList {
			aos = append(aos, types.AttributedObservation{Observation: o, Observer: commontypes.OracleID(i)})
			total += len(o)
		}
		return []costCall{{"Outcome", total, func() error {
			_, err := p.Outcome(context.Background(), ocr3types.OutcomeContext{SeqNr: 3, PreviousOutcome: prevB}, nil, aos)
			return err
		}}}
	case "shared-failing-mode", "repeated-failing-mode":
		// n channels that all take the mode of ONE stream (or one channel that mentions it n times); nobody agrees:
		// three observers have no value, one sends long digits (K8)
		prev := llo.Outcome{LifeCycleStage: llo.LifeCycleStageProduction, ObservationTimestampNanoseconds: 2_000_000_000,
			ChannelDefinitions: llotypes.ChannelDefinitions{}, ValidAfterNanoseconds: map[llotypes.ChannelID]uint64{}}
		if family == "repeated-failing-mode" {
			sts := make([]llotypes.Stream, n)
			for i := range sts {
				sts[i] = llotypes.Stream{StreamID: 7, Aggregator: llotypes.AggregatorMode}
			}
			prev.ChannelDefinitions[1] = llotypes.ChannelDefinition{ReportFormat: llotypes.ReportFormatJSON, Streams: sts}
			prev.ValidAfterNanoseconds[1] = 1_000_000_000
		} else {
			for c := 1; c <= n; c++ {
				prev.ChannelDefinitions[uint32(c)] = llotypes.ChannelDefinition{ReportFormat: llotypes.ReportFormatJSON,
					Streams: []llotypes.Stream{{StreamID: 7, Aggregator: llotypes.AggregatorMode}}}
				prev.ValidAfterNanoseconds[uint32(c)] = 1_000_000_000
			}
		}
		prevB, err := p.OutcomeCodec.Encode(prev)
		if err != nil {
			panic(err)
		}
		mk := func(v llo.StreamValue) []byte {
			vals := llo.StreamValues{8: llo.ToDecimal(decimal.New(5, 0))}
			if v != nil {
				vals[7] = v
			}
			return costEncodeObs(p, llo.Observation{UnixTimestampNanoseconds: 3_000_000_000, StreamValues: vals})
		}
		obsList := [][]byte{mk(nil), mk(nil), mk(nil), mk(llo.ToDecimal(costBigDecimal(900_000, 1, 0)))}
		var aos []types.AttributedObservation
		total := len(prevB)
		for i, o := range obsList {
			aos = append(aos, types.AttributedObservation{Observation: o, Observer: commontypes.OracleID(i)})
			total += len(o)
		}
		return []costCall{{"Outcome", total, func() error {
			_, err := p.Outcome(context.Background(), ocr3types.OutcomeContext{SeqNr: 3, PreviousOutcome: prevB}, nil, aos)
			return err
		}}}
	case "wide-channel": // the previous outcome holds ONE channel with n streams; four ordinary observations
		prev := llo.Outcome{LifeCycleStage: llo.LifeCycleStageProduction, ObservationTimestampNanoseconds: 2_000_000_000,
			ChannelDefinitions: llotypes.ChannelDefinitions{}, ValidAfterNanoseconds: map[llotypes.ChannelID]uint64{1: 1_000_000_000}}
		sts := make([]llotypes.Stream, n)
		for i := range sts {
			sts[i] = llotypes.Stream{StreamID: uint32(i + 1), Aggregator: llotypes.AggregatorMedian}
		}
		prev.ChannelDefinitions[1] = llotypes.ChannelDefinition{ReportFormat: llotypes.ReportFormatJSON, Streams: sts}
		prevB, err := p.OutcomeCodec.Encode(prev)
		if err != nil {
			panic(err)
		}
		var aos []types.AttributedObservation
		total := len(prevB)
		for i := 0; i < 4; i++ {
			vals := llo.StreamValues{}
			for k := 1; k <= 40; k++ {
				vals[uint32(k)] = llo.ToDecimal(decimal.New(int64(1000+k+i), -2))
			}
			o := costEncodeObs(p, llo.Observation{UnixTimestampNanoseconds: 3_000_000_000 + uint64(i), StreamValues: vals})
			aos = append(aos, types.AttributedObservation{Observation: o, Observer: commontypes.OracleID(i)})
			total += len(o)
		}
		return []costCall{{"Outcome", total, func() error {
			_, err := p.Outcome(context.Background(), ocr3types.OutcomeContext{SeqNr: 3, PreviousOutcome: prevB}, nil, aos)
			return err
		}}}
	case "vote-lists": // n remove votes
		ids := make([]uint32, n)
		for i := range ids {
			ids[i] = uint32(i + 1)
		}
		obs, err := proto.Marshal(&llo.LLOObservationProto{UnixTimestampNanoseconds: 3_000_000_000, RemoveChannelIDs: ids})
		if err != nil {
			panic(err)
		}
		return []costCall{costValidateCall(p, obs)}
	case "opts-exponents":
		// channel options whose numbers are written with an exponent of n (a handful of bytes of text): a multiplier
		// "1e<n>" (not a number for these codecs: refused), a base fee "1e-<n>" / "0E-<n>" (a legal decimal: accepted).
		// Verifying the vote must cost what reading the text costs, not what materialising 10^n costs.
		feed := "0x" + strings.Repeat("ab", 32)
		defs := map[uint32]*llo.LLOChannelDefinitionProto{}
		three := []*llo.LLOStreamDefinition{{StreamID: 1, Aggregator: 1}, {StreamID: 2, Aggregator: 1}, {StreamID: 3, Aggregator: 3}}
		optsOf := []string{
			fmt.Sprintf(`{"baseUSDFee":"1e-%d","expirationWindow":60,"feedID":%q,"abi":[{"type":"int192"}]}`, n, feed),
			fmt.Sprintf(`{"baseUSDFee":"0E-%d","expirationWindow":60,"feedID":%q,"abi":[{"type":"int192"}]}`, n, feed),
			fmt.Sprintf(`{"baseUSDFee":"1","expirationWindow":60,"feedID":%q,"abi":[{"type":"int192","multiplier":"1e%d"}]}`, feed, n),
			fmt.Sprintf(`{"baseUSDFee":"1e-%d","expirationWindow":60,"feedID":%q,"multiplier":"10"}`, n, feed),
			fmt.Sprintf(`{"baseUSDFee":"1","expirationWindow":60,"feedID":%q,"multiplier":"1e%d"}`, feed, n),
		}
		var calls []costCall
		for i, o := range optsOf {
			format := uint32(llotypes.ReportFormatEVMABIEncodeUnpacked)
			if i >= 3 {
				format = uint32(llotypes.ReportFormatEVMPremiumLegacy)
			}
			defs = map[uint32]*llo.LLOChannelDefinitionProto{uint32(i + 1): {ReportFormat: format, Streams: three, Opts: []byte(o)}}
			obs, err := proto.Marshal(&llo.LLOObservationProto{UnixTimestampNanoseconds: 3_000_000_000, UpdateChannelDefinitions: defs})
			if err != nil {
				panic(err)
			}
			c := costValidateCall(p, obs)
			c.name = fmt.Sprintf("ValidateObservation(opts %d)", i)
			calls = append(calls, c)
		}
		return calls
	case "many-defs", "big-def": // n channel definitions of one stream / one definition of n streams
		defs := map[uint32]*llo.LLOChannelDefinitionProto{}
		if family == "many-defs" {
			for i := 0; i < n; i++ {
				defs[uint32(i+1)] = &llo.LLOChannelDefinitionProto{ReportFormat: uint32(llotypes.ReportFormatJSON), Streams: []*llo.LLOStreamDefinition{{StreamID: uint32(i + 1), Aggregator: uint32(llotypes.AggregatorMedian)}}}
			}
		} else {
			st := make([]*llo.LLOStreamDefinition, n)
			for i := range st {
				st[i] = &llo.LLOStreamDefinition{StreamID: uint32(i + 1), Aggregator: uint32(llotypes.AggregatorMedian)}
			}
			defs[1] = &llo.LLOChannelDefinitionProto{ReportFormat: uint32(llotypes.ReportFormatJSON), Streams: st}
		}
		obs, err := proto.Marshal(&llo.LLOObservationProto{UnixTimestampNanoseconds: 3_000_000_000, UpdateChannelDefinitions: defs})
		if err != nil {
			panic(err)
		}
		return []costCall{costValidateCall(p, obs)}
	case "long-digits": // coefficients of n bytes in total per callback input
		one := func(nb int, last byte) llo.Observation {
			q := nb / 3
			return llo.Observation{UnixTimestampNanoseconds: 3_000_000_000 + uint64(last), StreamValues: llo.StreamValues{
				1: llo.ToDecimal(costBigDecimal(nb/3, last, -18)),
				2: &llo.Quote{Bid: costBigDecimal(q/3, 1, 0), Benchmark: costBigDecimal(q/3, 2+last, 0), Ask: costBigDecimal(q/3, 200, 0)},
				3: llo.ToDecimal(costBigDecimal(nb/3, 7, 0))}}
		}
		single := costEncodeObs(p, one(n, 1))
		var four [][]byte
		var medians, quotes, modes []llo.StreamValue
		for i := 0; i < 4; i++ {
			o := one(n/4, byte(1+i))
			four = append(four, costEncodeObs(p, o))
			medians, quotes, modes = append(medians, o.StreamValues[1]), append(quotes, o.StreamValues[2]), append(modes, o.StreamValues[3])
		}
		calls := []costCall{costValidateCall(p, single),
			{"MedianAggregator", n / 3, func() error { _, err := llo.MedianAggregator(medians, 1); return err }},
			{"QuoteAggregator", n / 3, func() error { _, err := llo.QuoteAggregator(quotes, 1); return err }},
			{"ModeAggregator", n / 3, func() error { _, err := llo.ModeAggregator(modes, 1); return err }}}
		return append(calls, costPipeline(p, four)...)
	case "exp-gap", "f2": // decimals whose exponents differ by n (f2: 2^31−1)
		gap := int32(n)
		if family == "f2" {
			gap = math.MaxInt32
		}
		hi, lo, lo2 := decimal.New(1, gap), decimal.New(1, 0), decimal.New(2, 0)
		vals := []llo.StreamValue{llo.ToDecimal(hi), llo.ToDecimal(lo), llo.ToDecimal(lo2)}
		wire := 0
		for _, v := range vals {
			b, _ := v.MarshalBinary()
			wire += len(b)
		}
		calls := []costCall{{"MedianAggregator", wire, func() error { _, err := llo.MedianAggregator(vals, 1); return err }}}
		if family == "f2" {
			return calls
		}
		q := &llo.Quote{Bid: lo, Benchmark: hi, Ask: hi}
		calls = append(calls,
			costCall{"Quote.IsValid", wire, func() error {
				if !q.IsValid() {
					return errors.New("unexpectedly invalid")
				}
				return nil
			}},
			costCall{"evm.CalculateFee", 16, func() error {
				if evm.CalculateFee(decimal.New(1, -gap), decimal.New(1, 0)).Sign() <= 0 {
					return errors.New("unexpected fee")
				}
				return nil
			}})
		var four [][]byte
		for i := 0; i < 4; i++ {
			v := lo
			if i == 0 {
				v = hi
			}
			four = append(four, costEncodeObs(p, llo.Observation{UnixTimestampNanoseconds: 3_000_000_000 + uint64(i), StreamValues: llo.StreamValues{
				1: llo.ToDecimal(v), 2: &llo.Quote{Bid: lo, Benchmark: v, Ask: hi}, 3: llo.ToDecimal(lo)}}))
		}
		return append(calls, costPipeline(p, four)...)
	}
	return costFamilyErrors(family, n, p)
}

func costOracleID(i int) commontypes.OracleID { return commontypes.OracleID(i) }

func ocr3typesMercuryConfig(n, f int, onchain, offchain []byte) ocr3types.MercuryPluginConfig {
	return ocr3types.MercuryPluginConfig{N: n, F: f, OnchainConfig: onchain, OffchainConfig: offchain}
}

// ---------------------------------------------------------------- measuring (child side)

// costThreadCPU: CPU time consumed by the calling (locked) OS thread.  getrusage(RUSAGE_THREAD) is
// the reference; its resolution is one scheduler tick, so when clock_gettime(CLOCK_THREAD_CPUTIME_ID)
// — the same quantity with nanosecond resolution — is available and consistent, that value is used.
func costThreadCPU() time.Duration {
	var ru syscall.Rusage
	const rusageThread = 1 // RUSAGE_THREAD (Linux)
	if err := syscall.Getrusage(rusageThread, &ru); err != nil {
		panic(err)
	}
	coarse := time.Duration(ru.Utime.Nano() + ru.Stime.Nano())
	var ts syscall.Timespec
	const clockThreadCPUTimeID = 3
	if _, _, errno := syscall.Syscall(syscall.SYS_CLOCK_GETTIME, clockThreadCPUTimeID, uintptr(unsafe.Pointer(&ts)), 0); errno == 0 {
		fine := time.Duration(ts.Nano())
		if d := fine - coarse; d > -20*time.Millisecond && d < 20*time.Millisecond {
			return fine
		}
	}
	return coarse
}

type costPoint struct {
	Name    string `json:"name"`
	Input   int    `json:"input"`
	CPUNs   int64  `json:"cpu_ns"`
	Alloc   uint64 `json:"alloc"`
	Err     string `json:"err,omitempty"`
	Aborted string `json:"aborted,omitempty"` // "timeout" | "memory" | "crash"
}

// costChildMain runs in the re-executed binary: build the family member, measure each callback.
func costChildMain(spec string) {
	var s struct {
		Family string `json:"family"`
		N      int    `json:"n"`
	}
	if err := json.Unmarshal([]byte(spec), &s); err != nil {
		fmt.Println(`{"fatal":"bad spec"}`)
		os.Exit(2)
	}
	debug.SetMemoryLimit(3 << 30)
	enc := json.NewEncoder(os.Stdout)
	go func() { // memory watchdog: give up before the machine does
		var ms runtime.MemStats
		for {
			time.Sleep(50 * time.Millisecond)
			runtime.ReadMemStats(&ms)
			if ms.Sys > 5<<30 {
				enc.Encode(J{"abort": "memory", "sys": ms.Sys, "total_alloc": ms.TotalAlloc})
				os.Exit(3)
			}
		}
	}()
	runtime.LockOSThread()
	calls := costFamily(s.Family, s.N)
	lastInput := 0
	for _, c := range calls {
		enc.Encode(J{"begin": c.name})
		runtime.GC()
		var m0, m1 runtime.MemStats
		runtime.ReadMemStats(&m0)
		t0 := costThreadCPU()
		err := c.f()
		cpu := costThreadCPU() - t0
		runtime.ReadMemStats(&m1)
		pt := costPoint{Name: c.name, Input: c.input, CPUNs: int64(cpu), Alloc: m1.TotalAlloc - m0.TotalAlloc}
		if c.input < 0 {
			pt.Input = lastInput
		}
		lastInput = pt.Input
		if err != nil {
			pt.Err = firstLines(err.Error(), 1)
			if len(pt.Err) > 160 {
				pt.Err = pt.Err[:160]
			}
		}
		enc.Encode(pt)
	}
	os.Exit(0)
}

func init() {
	if spec := os.Getenv(costChildEnv); spec != "" {
		costChildMain(spec)
	}
}

// ---------------------------------------------------------------- measuring (parent side)

// costRunChild measures one family member in a child process with a wall-clock cap.
func costRunChild(family string, n int, wall time.Duration) []costPoint {
	spec, _ := json.Marshal(J{"family": family, "n": n})
	ctx, cancel := context.WithTimeout(context.Background(), wall)
	defer cancel()
	cmd := exec.CommandContext(ctx, os.Args[0])
	env := []string{}
	for _, e := range os.Environ() {
		if !strings.HasPrefix(e, "GOMEMLIMIT=") && !strings.HasPrefix(e, costChildEnv+"=") {
			env = append(env, e)
		}
	}
	cmd.Env = append(env, costChildEnv+"="+string(spec), "GOMEMLIMIT=3GiB", "GOMAXPROCS=4")
	var stdout, stderr bytes.Buffer
	cmd.Stdout, cmd.Stderr = &stdout, &stderr
	start := time.Now()
	err := cmd.Run()
	elapsed := time.Since(start)
	var pts []costPoint
	running := ""
	abort := ""
	dec := json.NewDecoder(&stdout)
	for dec.More() {
		var m map[string]any
		if dec.Decode(&m) != nil {
			break
		}
		switch {
		case m["begin"] != nil:
			running, _ = m["begin"].(string)
		case m["abort"] != nil:
			abort, _ = m["abort"].(string)
		case m["name"] != nil:
			b, _ := json.Marshal(m)
			var p costPoint
			json.Unmarshal(b, &p)
			pts = append(pts, p)
			running = ""
		}
	}
	if err != nil || running != "" {
		// the callback named `running` did not finish: charge it the CPU time of the whole child
		p := costPoint{Name: running, Input: -1}
		if cmd.ProcessState != nil {
			p.CPUNs = int64(cmd.ProcessState.UserTime() + cmd.ProcessState.SystemTime())
		}
		switch {
		case ctx.Err() != nil:
			p.Aborted = "timeout"
			if p.CPUNs < int64(elapsed)/2 { // starved machine: fall back to wall time so the cap still means something
				p.CPUNs = int64(elapsed)
			}
		case abort != "":
			p.Aborted = abort
		default:
			p.Aborted = "crash"
			p.Err = firstLines(stderr.String(), 3)
		}
		if p.Name == "" {
			p.Name = "(building the input)"
		}
		pts = append(pts, p)
	}
	return pts
}

// costModelCosts asks the Lean driver for the model cost of family members (evidence only).
func costModelCosts(family string, ns []int) map[int]string {
	out := map[int]string{}
	var drv string
	for _, c := range []string{os.Getenv("VERIF_DRIVER"), "../dsvdriver-C19", "/verif/.work/run/dsvdriver-C19", "/verif/lean/.lake/build/bin/dsvdriver"} {
		if c == "" {
			continue
		}
		if st, err := os.Stat(c); err == nil && !st.IsDir() {
			drv, _ = filepath.Abs(c)
			break
		}
	}
	if drv == "" {
		return out
	}
	var in bytes.Buffer
	for _, n := range ns {
		in.Write(marshal(J{"op": "cost.model", "family": family, "n": S(n)}))
		in.WriteByte('\n')
	}
	ctx, cancel := context.WithTimeout(context.Background(), 20*time.Second)
	defer cancel()
	input := in.Bytes()
	cmd := exec.CommandContext(ctx, drv)
	cmd.Stdin = bytes.NewReader(input)
	b, err := cmd.Output()
	if err != nil { // the driver may be being rebuilt by a concurrent check: try once more
		time.Sleep(500 * time.Millisecond)
		cmd = exec.CommandContext(ctx, drv)
		cmd.Stdin = bytes.NewReader(input)
		if b, err = cmd.Output(); err != nil {
			return out
		}
	}
	lines := strings.Split(strings.TrimSpace(string(b)), "\n")
	for i, l := range lines {
		if i >= len(ns) {
			break
		}
		var r struct {
			OK struct {
				Cost string `json:"cost"`
			} `json:"ok"`
		}
		if json.Unmarshal([]byte(l), &r) == nil && r.OK.Cost != "" {
			out[ns[i]] = r.OK.Cost
		}
	}
	return out
}

func init() {
	// op cost.measure : {"family":F,"sizes":[n…],"model":[n…]} → per size, per callback: input bytes, CPU, allocation
	RegOp("cost.measure", func(in J) any {
		in = normalise(in).(map[string]any)
		family := jStr(in["family"])
		wall := costChildWall
		if family == "f2" {
			wall = costF2Wall
		}
		var points []any
		series := map[string][]costPoint{}
		ns := map[string][]int{}
		var order []string
		for _, nv := range jArr(in["sizes"]) {
			n := jInt(nv)
			for _, p := range costRunChild(family, n, wall) {
				points = append(points, J{"n": S(n), "call": p.Name, "input": S(p.Input), "cpu_us": S(int(p.CPUNs / 1000)), "alloc": S(new(big.Int).SetUint64(p.Alloc)), "err": p.Err, "aborted": p.Aborted})
				if _, ok := series[p.Name]; !ok {
					order = append(order, p.Name)
				}
				series[p.Name] = append(series[p.Name], p)
				ns[p.Name] = append(ns[p.Name], n)
			}
		}
		// growth ratios between consecutive (doubling) sizes, per callback — evidence only
		ratios := J{}
		for _, name := range order {
			var rs []any
			s := series[name]
			for i := 1; i < len(s); i++ {
				if s[i-1].CPUNs > 200_000 && s[i].Input > 0 && s[i-1].Input > 0 {
					rs = append(rs, fmt.Sprintf("n %d->%d: x%.2f input -> x%.2f cpu, x%.2f alloc", ns[name][i-1], ns[name][i], float64(s[i].Input)/float64(s[i-1].Input),
						float64(s[i].CPUNs)/float64(s[i-1].CPUNs), float64(s[i].Alloc+1)/float64(s[i-1].Alloc+1)))
				}
			}
			ratios[name] = rs
		}
		var mns []int
		for _, nv := range jArr(in["model"]) {
			mns = append(mns, jInt(nv))
		}
		model := J{}
		for n, c := range costModelCosts(family, mns) {
			model[fmt.Sprint(n)] = c
		}
		out := J{"points": points, "growth": ratios, "lean_model_cost": model}
		// keep every measurement next to the run's other outputs (evidence; not a verdict)
		if f, err := os.OpenFile("cost_measurements.jsonl", os.O_APPEND|os.O_CREATE|os.O_WRONLY, 0o644); err == nil {
			f.Write(marshal(J{"family": family, "result": out}))
			f.Write([]byte("\n"))
			f.Close()
		}
		return resOK(out)
	})
	RegGen("C19", "cost.measure (implementation only): per family a size-doubling series measured in child processes — nested timestamped values up to 1 MiB, "+
		"up to 70 000 stream values / quotes, up to 10 000 stream values that decode but are refused (timestamped around timestamped / quote), up to 200 000 remove votes and channel definitions, channel options with exponents up to 2·10^9 in multipliers and base fees, coefficients up to 1 MiB, exponent gaps up to 2^20, "+
		"errors joined in a loop and formatted (5 definitions × up to 10 000 zero-aggregator streams, up to 4 000 failing definitions, up to 64 000 undecodable stream values in one observation, up to 2 000 channels aggregating one timestamped stream with a long-digit byzantine value, up to 2 000 channels (and one channel with up to 10 000 mentions) taking the mode of one stream on which nobody agrees, one channel of up to 10 000 streams in the previous outcome, up to 9 998 failing EVM payload values, mercury v3 Report with every consensus failing), "+
		"and the F2 witness capped at 3 s; callbacks: ValidateObservation, ObservationCodec.Decode, Median/Quote/ModeAggregator, Outcome, Reports, Quote.IsValid, evm.CalculateFee; "+
		"non-trivial = at least one callback measured", genC19Measure)
	RegMonitor("C19", monC19Measure)
}

func genC19Measure(g *G) {
	ints := func(ns ...int) []any {
		out := []any{}
		for _, n := range ns {
			out = append(out, S(n))
		}
		return out
	}
	doubling := func(from, to int) []int {
		var out []int
		for n := from; n <= to; n *= 2 {
			out = append(out, n)
		}
		return out
	}
	m := func(family string, sizes []int, model []int) {
		g.EmitImpl(J{"op": "cost.measure", "family": family, "sizes": ints(sizes...), "model": ints(model...)}, "measure", "family-"+family)
	}
	if g.Thorough() {
		m("nested-tsv", append(doubling(150, 76800), 78000), []int{150, 300, 600, 1200, 2400})
		m("nested1-bigvalue", doubling(4096, 1<<19), nil)
		m("many-values", append(doubling(625, 40000), 70000), []int{625, 1250, 2500, 5000, 10000})
		m("many-quotes", doubling(625, 20000), nil)
		m("many-tsv", doubling(625, 40000), nil)
		m("many-nested-offenders", doubling(625, 10000), nil)
		m("vote-lists", doubling(3125, 200000), nil)
		m("many-defs", doubling(1250, 40000), nil)
		m("opts-exponents", []int{1000, 100000, 10000000, 2000000000}, nil)
		m("big-def", doubling(5000, 160000), nil)
		m("long-digits", doubling(8192, 1<<20), []int{8192, 16384, 32768, 65536})
		m("exp-gap", doubling(1<<12, 1<<20), doubling(1<<12, 1<<20))
		m("verify-errors", append(doubling(125, 8000), 10000, 20000), doubling(125, 8000))
		m("verify-errors-defs", append(doubling(125, 2000), 4000), nil)
		m("decode-errors", doubling(1000, 64000), nil)
		m("shared-tsv-stream", []int{250, 500, 1000, 2000}, nil)
		m("shared-failing-mode", []int{250, 500, 1000, 2000}, nil)
		m("repeated-failing-mode", []int{1250, 2500, 5000, 10000}, nil)
		m("wide-channel", []int{1250, 2500, 5000, 10000}, nil)
		m("evm-payload-errors", append(doubling(125, 8000), 9998), nil)
		m("mercury-report-errors", []int{1}, nil)
	} else {
		m("nested-tsv", []int{2400, 19200, 78000}, []int{600, 1200, 2400})
		m("nested1-bigvalue", []int{1 << 17, 1 << 19}, nil)
		m("many-values", []int{5000, 10000, 70000}, []int{5000, 10000})
		m("many-quotes", []int{10000, 20000}, nil)
		m("many-nested-offenders", []int{2500, 10000}, nil)
		m("vote-lists", []int{100000, 200000}, nil)
		m("many-defs", []int{20000, 40000}, nil)
		m("opts-exponents", []int{100000, 10000000, 2000000000}, nil)
		m("big-def", []int{80000, 160000}, nil)
		m("long-digits", []int{1 << 18, 1 << 19, 1 << 20}, []int{32768, 65536})
		m("exp-gap", []int{1 << 16, 1 << 18, 1 << 20}, []int{1 << 16, 1 << 18, 1 << 20})
		m("verify-errors", []int{500, 2000, 10000}, []int{500, 2000})
		m("verify-errors-defs", []int{500, 2000}, nil)
		m("decode-errors", []int{2000, 8000, 64000}, nil)
		m("shared-tsv-stream", []int{500, 2000}, nil)
		m("shared-failing-mode", []int{500, 2000}, nil)
		m("repeated-failing-mode", []int{2500, 10000}, nil)
		m("wide-channel", []int{2500, 10000}, nil)
		m("evm-payload-errors", []int{500, 2000, 9998}, nil)
		m("mercury-report-errors", []int{1}, nil)
	}
	// the known finding F2, never run unbounded
	m("f2", []int{0}, []int{0})
}

// monC19Measure: the verdict of the property text on every measured callback.
func monC19Measure(op J, res any) (viol []Violation, nontrivial bool) {
	if jStr(op["op"]) != "cost.measure" {
		return nil, false
	}
	family := jStr(op["family"])
	r := jObj(res)
	if r["ok"] == nil {
		return []Violation{{Sig: "C19/measure-failed", Desc: "measurement of family " + family + " failed", Op: op, Res: res}}, false
	}
	sig := "C19/superlinear-" + family
	if family == "f2" || family == "exp-gap" {
		sig = "C19/decimal-scale-blowup"
	}
	if strings.HasPrefix(family, "verify-errors") {
		sig = "C19/superlinear-verify-errors"
	}
	for _, pv := range jArr(jObj(r["ok"])["points"]) {
		p := jObj(pv)
		nontrivial = true
		input := jInt(p["input"])
		if input > costMaxInput {
			continue // beyond the protocol's size limit: not judged
		}
		cpu := time.Duration(jBig(p["cpu_us"]).Int64()) * time.Microsecond
		alloc := jBig(p["alloc"])
		what := ""
		switch {
		case jStr(p["aborted"]) != "":
			what = fmt.Sprintf("did not finish (%s after %v CPU)", jStr(p["aborted"]), cpu)
		case cpu > costMaxCPU:
			what = fmt.Sprintf("needed %v CPU", cpu)
		case alloc.Cmp(big.NewInt(costMaxAlloc)) > 0:
			what = fmt.Sprintf("allocated %s bytes", alloc.String())
		}
		if what != "" {
			in := fmt.Sprintf("%d bytes", input)
			if input < 0 {
				in = "≤ 1 MiB"
			}
			viol = append(viol, Violation{Sig: sig, Desc: fmt.Sprintf("family %s n=%s: callback %s on an input of %s %s", family, jStr(p["n"]), jStr(p["call"]), in, what), Op: op, Res: res})
		}
	}
	return
}
