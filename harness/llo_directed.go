package main

import (
	"strings"
	"fmt"

	"github.com/shopspring/decimal"

	llotypes "github.com/smartcontractkit/chainlink-common/pkg/types/llo"

	"github.com/smartcontractkit/chainlink-data-streams/llo"
)

// Directed LLO cases that random generation cannot be expected to produce: exact arithmetic coincidences,
// hash-prefix collisions, sizes exactly at a limit.

// hashPrefixCollision finds two one-stream definitions for channel `id` whose channel hashes share their
// first nBytes bytes (birthday search over the stream id; 4 bytes needs about 80 000 hashes).
func hashPrefixCollision(id uint32, nBytes int) (a, b J, ok bool) {
	seen := map[string]uint32{}
	for sid := uint32(1); sid < 400000; sid++ {
		d := llotypes.ChannelDefinition{ReportFormat: 2, Streams: []llotypes.Stream{{StreamID: sid, Aggregator: 1}}}
		h := llo.MakeChannelHash(llo.ChannelDefinitionWithID{ChannelDefinition: d, ChannelID: id})
		k := string(h[:nBytes])
		if other, dup := seen[k]; dup {
			mk := func(s uint32) J {
				return J{"format": "2", "opts": "", "streams": []any{J{"sid": S(s), "agg": "1"}}}
			}
			return mk(other), mk(sid), true
		}
		seen[k] = sid
	}
	return nil, nil, false
}

func init() {
	// ---- C01 / C06: two competing definitions for one channel, each with more than f votes, whose hashes agree
	// in their first 1..4 bytes (a tie-break on a truncated key would leave the order to the map iteration)
	genCollide := func(g *G) {
		for nb := 1; nb <= 4; nb++ {
			a, b, ok := hashPrefixCollision(7, nb)
			if !ok {
				continue
			}
			for f := 1; f <= 2; f++ {
				w := newWorld(g)
				w.f, w.hasPred, w.version, w.interval = f, false, 1, 1
				n := 3*f + 1
				obs := []any{}
				honest := []any{}
				for k := 0; k < n; k++ {
					d := a
					if k%2 == 1 {
						d = b
					}
					obs = append(obs, J{"retire": false, "attested": "", "ts": S(w.now + uint64(k)), "removes": []any{},
						"updates": []any{J{"id": "7", "def": d}}, "values": []any{}})
					honest = append(honest, k)
				}
				prev := J{"stage": "production", "ts": S(w.now - 1_000_000_000), "defs": []any{}, "va": []any{}, "aggs": []any{}}
				g.Emit(J{"op": "llo.outcome", "cfg": w.cfgJ(), "seqNr": 4, "prev": prev, "obs": obs, "attestations": []any{}, "honest": honest},
					"hash-prefix-collision", fmt.Sprintf("bytes=%d", nb))
			}
		}
	}
	RegGen("C01", "plus competing definitions whose channel hashes share their first 1..4 bytes", genCollide)
	RegGen("C06", "plus competing definitions whose channel hashes share their first 1..4 bytes", genCollide)

	// ---- C03 / C04 / C18: rounds whose timestamps differ by EXACTLY the minimum report interval, and a history at
	// the channel limit (2000 channels, all reportable in the same round)
	genExact := func(g *G) {
		for _, interval := range []uint64{1, 250_000_000, 1_000_000_000, 2_500_000_000} {
			for _, ver := range []uint32{1, 0} {
				w := newWorld(g)
				w.f, w.hasPred, w.version, w.interval, w.alias = 1, false, ver, interval, 0
				if ver == 0 {
					w.interval = 0
				}
				w.now = 1_700_000_000_123_456_789
				def := J{"format": "2", "opts": "", "streams": []any{J{"sid": "1", "agg": "1"}}}
				rounds := []any{}
				for r := 0; r < 8; r++ {
					obs := []any{}
					honest := []any{}
					for k := 0; k < 4; k++ {
						o := J{"retire": false, "attested": "", "ts": S(w.now), "removes": []any{}, "updates": []any{},
							"values": []any{J{"sid": "1", "v": svJ(llo.ToDecimal(decimal.New(int64(1000+r), -2)))}}}
						if r == 0 {
							o["updates"] = []any{J{"id": "1", "def": def}}
						}
						obs = append(obs, o)
						honest = append(honest, k)
					}
					rounds = append(rounds, J{"obs": obs, "honest": honest})
					switch r % 4 {
					case 1: // one nanosecond short of the interval
						w.now += interval - 1 + 1_000_000_000*uint64(btoi(ver == 0))
					case 3: // one nanosecond beyond
						w.now += interval + 1 + 1_000_000_000*uint64(btoi(ver == 0))
					default: // exactly the interval (exactly one second under version 0)
						w.now += interval + (1_000_000_000-interval%1_000_000_000)%1_000_000_000*uint64(btoi(ver == 0))
					}
				}
				g.Emit(J{"op": "llo.history", "cfg": w.cfgJ(), "startSeqNr": 1, "rounds": rounds, "attestations": []any{}}, "history", "exact-interval")
			}
		}
	}
	genFull := func(g *G) {
		if g.Lite() {
			return
		}
		// 2000 channels.  Channel 1 only becomes reportable later (its validity start lies ahead), so the other 1999
		// report twice first; then all 2000 are reportable in the same round; then channel 1 is voted out and the
		// rest keep reporting.  Every channel's windows must still tile.
		w := newWorld(g)
		w.f, w.hasPred, w.version, w.interval, w.alias = 1, false, 1, 1, 0
		w.now = 1_700_000_000_000_000_000
		defs, va := []any{}, []any{}
		for id := 1; id <= 2000; id++ {
			defs = append(defs, J{"id": S(id), "def": J{"format": "2", "opts": "", "streams": []any{J{"sid": S(1 + id%3), "agg": "1"}}}})
			start := w.now - 1_000_000_000
			if id == 1 {
				start = w.now + 9_000_000_000
			}
			va = append(va, J{"id": S(id), "va": S(start)})
		}
		start := J{"stage": "production", "ts": S(w.now), "defs": defs, "va": va, "aggs": []any{}}
		rounds := []any{}
		for r := 0; r < 6; r++ {
			w.now += 1_500_000_000
			if r == 2 {
				w.now += 10_000_000_000
			}
			obs := []any{}
			honest := []any{}
			for k := 0; k < 4; k++ {
				o := J{"retire": false, "attested": "", "ts": S(w.now + uint64(k)), "removes": []any{}, "updates": []any{}, "values": []any{
					J{"sid": "1", "v": svJ(llo.ToDecimal(decimal.New(1001, -2)))}, J{"sid": "2", "v": svJ(llo.ToDecimal(decimal.New(1002, -2)))}, J{"sid": "3", "v": svJ(llo.ToDecimal(decimal.New(1003, -2)))}}}
				if r == 4 { // the channel with the smallest id is voted out
					o["removes"] = []any{"1"}
				}
				obs = append(obs, o)
				honest = append(honest, k)
			}
			rounds = append(rounds, J{"obs": obs, "honest": honest})
		}
		g.Emit(J{"op": "llo.history", "cfg": w.cfgJ(), "start": start, "startSeqNr": 10, "rounds": rounds, "attestations": []any{}}, "history", "2000-channels")
	}
	// A predecessor that holds the maximum number of channels, all reportable in its last reporting round, retires;
	// the successor (which defines the lowest, a middle and the highest channel id) is promoted and carries every
	// channel on: no window may be lost or doubled at the size limits either.
	values3 := func() []any {
		return []any{J{"sid": "1", "v": svJ(llo.ToDecimal(decimal.New(1001, -2)))}, J{"sid": "2", "v": svJ(llo.ToDecimal(decimal.New(1002, -2)))}, J{"sid": "3", "v": svJ(llo.ToDecimal(decimal.New(1003, -2)))}}
	}
	genFullHandover := func(g *G) {
		if g.Lite() {
			return
		}
		for _, nch := range []int{1999, 2000} {
			w := newWorld(g)
			w.f, w.version, w.interval, w.alias, w.verbose = 1, 1, 1, 0, false
			w.now = 1_700_000_000_000_000_000
			w.hasPred = false
			cfgA := w.cfgJ()
			w.hasPred = true
			cfgB := w.cfgJ()
			def := func(id int) J { return J{"format": "2", "opts": "", "streams": []any{J{"sid": S(1 + id%3), "agg": "1"}}} }
			defs, va := []any{}, []any{}
			for id := 1; id <= nch; id++ {
				defs = append(defs, J{"id": S(id), "def": def(id)})
				va = append(va, J{"id": S(id), "va": S(w.now - 1_000_000_000)})
			}
			startA := J{"stage": "production", "ts": S(w.now), "defs": defs, "va": va, "aggs": []any{}}
			bdefs, bva := []any{}, []any{}
			for _, id := range []int{1, 1000, nch} {
				bdefs = append(bdefs, J{"id": S(id), "def": def(id)})
				bva = append(bva, J{"id": S(id), "va": S(w.now - 2_000_000_000)})
			}
			startB := J{"stage": "staging", "ts": S(w.now), "defs": bdefs, "va": bva, "aggs": []any{}}
			mkRound := func(retire bool, att string, upd []any) J {
				w.now += 1_500_000_000
				obs := []any{}
				for k := 0; k < 4; k++ {
					obs = append(obs, J{"retire": retire, "attested": att, "ts": S(w.now + uint64(k)), "removes": []any{}, "updates": upd, "values": values3()})
				}
				return J{"obs": obs}
			}
			roundsA := []any{mkRound(false, "", []any{}), mkRound(true, "", []any{}), mkRound(false, "", []any{})}
			roundsB := []any{mkRound(false, hexs(validToken), []any{}), mkRound(false, "", []any{J{"id": "7", "def": def(7)}}), mkRound(false, "", []any{}), mkRound(false, "", []any{})}
			g.Emit(J{"op": "llo.handover", "cfgA": cfgA, "cfgB": cfgB, "startA": startA, "startB": startB, "startSeqNr": 10, "roundsA": roundsA, "roundsB": roundsB},
				"handover", "handover-at-channel-limit")
			if nch == 2000 {
				// the successor itself is full (2 000 definitions) when it is promoted and does not define channel 3 yet;
				// later one of its channels is voted out and channel 3 voted in, in the same round: the inherited
				// validity start of channel 3 must have survived every outcome in between
				fdefs, fva := []any{}, []any{}
				for id := 1; id <= 2001; id++ {
					if id == 3 {
						continue
					}
					fdefs = append(fdefs, J{"id": S(id), "def": def(id)})
					fva = append(fva, J{"id": S(id), "va": S(w.now - 20_000_000_000)})
				}
				startBfull := J{"stage": "staging", "ts": S(w.now - 10_000_000_000), "defs": fdefs, "va": fva, "aggs": []any{}}
				swap := mkRound(false, "", []any{J{"id": "3", "def": def(3)}})
				for _, o := range swap["obs"].([]any) {
					o.(J)["removes"] = []any{"2001"}
				}
				roundsB2 := []any{mkRound(false, hexs(validToken), []any{}), mkRound(false, "", []any{}), swap, mkRound(false, "", []any{}), mkRound(false, "", []any{})}
				g.Emit(J{"op": "llo.handover", "cfgA": cfgA, "cfgB": cfgB, "startA": startA, "startB": startBfull, "startSeqNr": 10, "roundsA": roundsA, "roundsB": roundsB2},
					"handover", "full-successor-swaps-in-an-inherited-channel")
			}
		}
	}
	RegGen("C04", "plus handovers of a predecessor holding 1999 / 2000 channels, all reportable in its last reporting round", genFullHandover)
	// A successor that inherits the maximum number of validity starts and holds channels of its own is promoted and
	// retired in the same round; everything must then stay frozen, round after round.
	genBigInheritance := func(g *G) {
		if g.Lite() {
			return
		}
		for _, nch := range []int{1998, 2000} {
			w := newWorld(g)
			w.f, w.version, w.interval, w.alias, w.verbose, w.hasPred = 1, 1, 1, 0, false, true
			w.now = 1_700_000_000_000_000_000
			rrva := []any{}
			for id := 1; id <= nch; id++ {
				rrva = append(rrva, J{"id": S(id), "va": S(w.now - uint64(id))})
			}
			def := func(id int) J { return J{"format": "2", "opts": "", "streams": []any{J{"sid": S(1 + id%3), "agg": "1"}}} }
			bdefs, bva := []any{}, []any{}
			for _, id := range []int{3001, 3002, 3003, 5} {
				bdefs = append(bdefs, J{"id": S(id), "def": def(id)})
				bva = append(bva, J{"id": S(id), "va": S(w.now - 2_000_000_000)})
			}
			start := J{"stage": "staging", "ts": S(w.now), "defs": bdefs, "va": bva, "aggs": []any{}}
			rounds := []any{}
			for r := 0; r < 5; r++ {
				w.now += 1_500_000_000
				obs, honest := []any{}, []any{}
				for k := 0; k < 4; k++ {
					o := J{"retire": r == 0, "attested": "", "ts": S(w.now + uint64(k)), "removes": []any{}, "updates": []any{}, "values": values3()}
					if r == 0 {
						o["attested"] = hexs(validToken)
					}
					if r == 2 { // votes cast after retirement change nothing
						o["removes"] = []any{"5"}
						o["updates"] = []any{J{"id": "9", "def": def(9)}}
					}
					obs = append(obs, o)
					honest = append(honest, k)
				}
				rounds = append(rounds, J{"obs": obs, "honest": honest})
			}
			g.Emit(J{"op": "llo.history", "cfg": w.cfgJ(), "start": start, "startSeqNr": 10, "rounds": rounds,
				"attestations": []any{J{"bytes": hexs(validToken), "rr": J{"version": "1", "va": rrva}}}}, "history", "promoted-and-retired-in-one-round", "inherits-channel-limit")
		}
	}
	for _, p := range []string{"C05", "C04"} {
		RegGen(p, "plus a successor that inherits 1998 / 2000 validity starts, holds channels of its own and is promoted and retired in the same round", genBigInheritance)
	}
	// More distinct streams than one observation may carry (two channels, 10 001 streams together; every channel and
	// every observation within its own limit): each referenced pair holds a timestamped aggregate; observers go on
	// reporting a few of them, then nothing.  Nothing may disappear or go back in time.
	genManyStreams := func(g *G) {
		if g.Lite() {
			return
		}
		for _, ver := range []uint32{1, 0} {
			w := newWorld(g)
			w.f, w.version, w.interval, w.alias, w.verbose, w.hasPred = 1, ver, uint64(ver), 0, false, false
			w.now = 1_700_000_000_000_000_000
			extra := 20001
			mkStreams := func(from, to int, first ...int) []any {
				out := []any{}
				for _, sid := range first {
					out = append(out, J{"sid": S(sid), "agg": "1"})
				}
				for sid := from; sid <= to; sid++ {
					out = append(out, J{"sid": S(sid), "agg": "1"})
				}
				return out
			}
			defs := []any{J{"id": "1", "def": J{"format": "2", "opts": "", "streams": mkStreams(1, 6000)}},
				J{"id": "2", "def": J{"format": "2", "opts": "", "streams": mkStreams(6001, 10000, extra)}}}
			va := []any{J{"id": "1", "va": S(w.now - 1_000_000_000)}, J{"id": "2", "va": S(w.now - 1_000_000_000)}}
			tsv := func(at uint64, v int64) any {
				return svJ(&llo.TimestampedStreamValue{ObservedAtNanoseconds: at, StreamValue: llo.ToDecimal(decimal.New(v, 0))})
			}
			aggs := []any{}
			for sid := 1; sid <= 10000; sid++ {
				aggs = append(aggs, J{"sid": S(sid), "agg": "1", "v": tsv(w.now-5000+uint64(sid%7), int64(sid))})
			}
			aggs = append(aggs, J{"sid": S(extra), "agg": "1", "v": tsv(w.now-4000, 300)})
			start := J{"stage": "production", "ts": S(w.now), "defs": defs, "va": va, "aggs": aggs}
			rounds := []any{}
			for r := 0; r < 4; r++ {
				w.now += 2_000_000_000
				obs, honest := []any{}, []any{}
				for k := 0; k < 4; k++ {
					vals := []any{}
					switch r {
					case 0, 1: // newer values for three streams, among them the first and the last referenced
						for _, sid := range []int{1, 6000, 10000, extra} {
							vals = append(vals, J{"sid": S(sid), "v": tsv(w.now-100+uint64(k), int64(100+k))})
						}
					case 2: // older than what the outcome holds
						for _, sid := range []int{6000, extra} {
							vals = append(vals, J{"sid": S(sid), "v": tsv(1000+uint64(k), 7)})
						}
					}
					obs = append(obs, J{"retire": false, "attested": "", "ts": S(w.now + uint64(k)), "removes": []any{}, "updates": []any{}, "values": vals})
					honest = append(honest, k)
				}
				rounds = append(rounds, J{"obs": obs, "honest": honest})
			}
			g.Emit(J{"op": "llo.history", "cfg": w.cfgJ(), "start": start, "startSeqNr": 10, "rounds": rounds, "attestations": []any{}}, "history", "more-streams-than-one-observation-carries")
		}
	}
	RegGen("C18", "plus a history whose channels reference 10 001 distinct timestamped streams", genManyStreams)
	// One quiet timestamped stream (nobody reports it after the first round: carried forward) next to fifteen streams
	// whose values are new in every round: some 180 distinct aggregate values pass through the instance's outcome
	// codec while the carried-forward value must stay what it is.
	RegGen("C18", "plus a history with one carried-forward timestamped aggregate among many aggregates that change every round", func(g *G) {
		for _, ver := range []uint32{1, 0} {
			w := newWorld(g)
			w.f, w.hasPred, w.version, w.interval, w.alias, w.verbose = 1, false, ver, uint64(ver), 0, false
			w.now = 1_700_000_000_000_000_000
			streams := []any{J{"sid": "1", "agg": "1"}}
			for sid := 2; sid <= 16; sid++ {
				streams = append(streams, J{"sid": S(sid), "agg": "1"})
			}
			def := J{"format": "2", "opts": "", "streams": streams}
			rounds := []any{}
			for r := 0; r < 14; r++ {
				w.now += 2_000_000_000
				obs, honest := []any{}, []any{}
				for k := 0; k < 4; k++ {
					vals := []any{}
					if r == 1 {
						vals = append(vals, J{"sid": "1", "v": svJ(&llo.TimestampedStreamValue{ObservedAtNanoseconds: 5_000_000 + uint64(k), StreamValue: llo.ToDecimal(decimal.New(4242, -2))})})
					}
					if r >= 1 {
						for sid := 2; sid <= 16; sid++ {
							vals = append(vals, J{"sid": S(sid), "v": svJ(llo.ToDecimal(decimal.New(int64(100000+r*1000+sid*10+k), -3)))})
						}
					}
					o := J{"retire": false, "attested": "", "ts": S(w.now + uint64(k)), "removes": []any{}, "updates": []any{}, "values": vals}
					if r == 0 {
						o["updates"] = []any{J{"id": "1", "def": def}}
					}
					obs = append(obs, o)
					honest = append(honest, k)
				}
				rounds = append(rounds, J{"obs": obs, "honest": honest})
			}
			g.Emit(J{"op": "llo.history", "cfg": w.cfgJ(), "startSeqNr": 1, "rounds": rounds, "attestations": []any{}}, "history", "carried-forward-among-many-changing")
		}
	})
	// Observations at and just above the limit on stream values.  (a) A correct observer reports exactly the 10 000
	// values a full channel has, the other correct one and the faulty one a single value: the full observation must
	// count (dropped, the faulty value would be the median).  (b) One observer sends 10 001 values: whatever the
	// plugin does with it, it must do the same every time.
	genValueLimit := func(nBig int, prop string) Gen {
		return func(g *G) {
			if g.Lite() {
				return
			}
			for _, ver := range []uint32{1, 0} {
				w := newWorld(g)
				w.f, w.hasPred, w.version, w.interval, w.alias, w.verbose = 1, false, ver, uint64(ver), 0, false
				w.now = 1_700_000_000_000_000_000
				streams := []any{}
				for sid := 1; sid <= 10000; sid++ {
					streams = append(streams, J{"sid": S(sid), "agg": "1"})
				}
				prev := J{"stage": "production", "ts": S(w.now - 2_000_000_000), "defs": []any{J{"id": "1", "def": J{"format": "2", "opts": "", "streams": streams}}},
					"va": []any{J{"id": "1", "va": S(w.now - 4_000_000_000)}}, "aggs": []any{}}
				big := []any{}
				for sid := 1; sid <= nBig; sid++ {
					big = append(big, J{"sid": S(sid), "v": svJ(llo.ToDecimal(decimal.New(int64(1000+sid%7), -2)))})
				}
				mk := func(ts uint64, vals []any) J {
					return J{"retire": false, "attested": "", "ts": S(ts), "removes": []any{}, "updates": []any{}, "values": vals}
				}
				one := func(c int64) []any { return []any{J{"sid": "1", "v": svJ(llo.ToDecimal(decimal.New(c, -2)))}} }
				var obs []any
				var honest []any
				if prop == "C02" {
					// correct: the full observation (stream 1 = 10.01) and a small one (10.20); faulty: 999 at a far-away time
					obs = []any{mk(w.now, big), mk(w.now+5, one(1020)), mk(w.now+9_000_000_000_000, one(99900))}
					honest = []any{0, 1}
				} else {
					// the other two report every stream of the channel, one far below and one far above: for every single
					// stream the value of the observer in the middle is the median
					small := func(c int64) []any {
						out := []any{}
						for sid := 1; sid <= 10000; sid++ {
							out = append(out, J{"sid": S(sid), "v": svJ(llo.ToDecimal(decimal.New(c, -2)))})
						}
						return out
					}
					obs = []any{mk(w.now, small(500)), mk(w.now+5, big), mk(w.now+9, small(3000))}
					honest = []any{0, 2}
				}
				g.Emit(J{"op": "llo.outcome", "cfg": w.cfgJ(), "seqNr": 5, "prev": prev, "obs": obs, "attestations": []any{}, "honest": honest}, "outcome", fmt.Sprintf("observation-with-%d-values", nBig))
			}
		}
	}
	// Observations that are numerically tied: four observers report 1.0, 1.00, 1.000 and 1.0000 for the median and
	// quote streams of the channel (which of the equal values is stored is decided by the observation order alone),
	// and one of them additionally carries thousands of values nobody aggregates, so the round is large (> 64 KiB).
	RegGen("C01", "plus a large round whose observers report numerically equal values of different scale", func(g *G) {
		for _, ver := range []uint32{1, 0} {
			w := newWorld(g)
			w.f, w.hasPred, w.version, w.interval, w.alias, w.verbose = 1, false, ver, uint64(ver), 0, false
			w.now = 1_700_000_000_000_000_000
			prev := J{"stage": "production", "ts": S(w.now - 2_000_000_000), "defs": []any{J{"id": "1", "def": J{"format": "2", "opts": "",
				"streams": []any{J{"sid": "1", "agg": "1"}, J{"sid": "2", "agg": "3"}, J{"sid": "3", "agg": "2"}}}}},
				"va": []any{J{"id": "1", "va": S(w.now - 4_000_000_000)}}, "aggs": []any{}}
			obs, honest := []any{}, []any{}
			for k := 0; k < 4; k++ {
				one := decimal.New(int64(tenTo(k+1)), int32(-(k + 1))) // 1.0, 1.00, 1.000, 1.0000
				vals := []any{J{"sid": "1", "v": svJ(llo.ToDecimal(one))},
					J{"sid": "2", "v": svJ(&llo.Quote{Bid: one, Benchmark: one, Ask: one})},
					J{"sid": "3", "v": svJ(llo.ToDecimal(decimal.New(7, 0)))}}
				if k == 2 {
					for sid := 100; sid < 6100; sid++ {
						vals = append(vals, J{"sid": S(sid), "v": svJ(llo.ToDecimal(decimal.New(int64(sid), -1)))})
					}
				}
				obs = append(obs, J{"retire": false, "attested": "", "ts": S(w.now + uint64(k)), "removes": []any{}, "updates": []any{}, "values": vals})
				honest = append(honest, k)
			}
			g.Emit(J{"op": "llo.outcome", "cfg": w.cfgJ(), "seqNr": 5, "prev": prev, "obs": obs, "attestations": []any{}, "honest": honest}, "outcome", "tied-values-large-round")
		}
	})
	RegGen("C02", "plus a round in which a correct observer reports exactly 10 000 stream values", genValueLimit(10000, "C02"))
	RegGen("C01", "plus a round in which one observer reports 10 001 stream values (one above the limit)", genValueLimit(10001, "C01"))
	// Correct clocks beyond 2^63 ns under protocol version 0 (whose outcome codec stores a signed time): the round
	// cannot be encoded and must fail — not yield an outcome with a time nobody reported.
	RegGen("C02", "plus rounds whose correct observation timestamps exceed 2^63-1 ns under protocol version 0", func(g *G) {
		for _, f := range []int{1, 2} {
			w := newWorld(g)
			w.f, w.hasPred, w.version, w.interval, w.alias, w.verbose = f, false, 0, 0, 0, false
			base := uint64(1)<<63 + 1_000_000_000
			// (validity starts are stored as 32-bit seconds under version 0, so the previous outcome is an ordinary one)
			prev := J{"stage": "production", "ts": S(uint64(1_700_000_000_000_000_000)), "defs": []any{J{"id": "1", "def": J{"format": "2", "opts": "", "streams": []any{J{"sid": "1", "agg": "1"}}}}},
				"va": []any{J{"id": "1", "va": S(uint64(1_699_999_996_000_000_000))}}, "aggs": []any{}}
			obs, honest := []any{}, []any{}
			for k := 0; k < 2*f+1; k++ {
				ts := base + uint64(k)
				if k >= f+1 {
					ts = 1_700_000_000_000_000_000 // the faulty ones report an ordinary time
				} else {
					honest = append(honest, k)
				}
				obs = append(obs, J{"retire": false, "attested": "", "ts": S(ts), "removes": []any{}, "updates": []any{},
					"values": []any{J{"sid": "1", "v": svJ(llo.ToDecimal(decimal.New(int64(1000+k), -2)))}}})
			}
			g.Emit(J{"op": "llo.outcome", "cfg": w.cfgJ(), "seqNr": 5, "prev": prev, "obs": obs, "attestations": []any{}, "honest": honest}, "outcome", "clock-beyond-int64")
		}
	})
	for _, p := range []string{"C03", "C04", "C18", "C11"} {
		RegGen(p, "plus histories whose timestamps differ by exactly the minimum report interval (and one nanosecond off)", genExact)
	}
	RegGen("C03", "plus a history with 2000 channels, all reportable in the same round", genFull)
	// A single stream of a channel has no value for one round (an outage of one feed): the channel is due, the real
	// JSON codec refuses the report (it lacks a value) — and the window of that round must not simply vanish.
	genOutage := func(g *G) {
		for _, ver := range []uint32{1, 0} {
			for _, outage := range []int{1, 2} { // length of the outage in rounds
				w := newWorld(g)
				w.f, w.hasPred, w.version, w.interval, w.alias, w.verbose = 1, false, ver, uint64(ver), 0, false
				w.now = 1_700_000_000_000_000_000
				def := J{"format": "2", "opts": "", "streams": []any{J{"sid": "1", "agg": "1"}, J{"sid": "2", "agg": "1"}}}
				rounds := []any{}
				for r := 0; r < 6+outage; r++ {
					w.now += 2_000_000_000
					obs, honest := []any{}, []any{}
					for k := 0; k < 4; k++ {
						vals := []any{J{"sid": "1", "v": svJ(llo.ToDecimal(decimal.New(int64(1000+r), -2)))}}
						if r < 3 || r >= 3+outage {
							vals = append(vals, J{"sid": "2", "v": svJ(llo.ToDecimal(decimal.New(int64(2000+r), -2)))})
						}
						o := J{"retire": false, "attested": "", "ts": S(w.now + uint64(k)), "removes": []any{}, "updates": []any{}, "values": vals}
						if r == 0 {
							o["updates"] = []any{J{"id": "1", "def": def}}
						}
						obs = append(obs, o)
						honest = append(honest, k)
					}
					rounds = append(rounds, J{"obs": obs, "honest": honest})
				}
				g.Emit(J{"op": "llo.history", "cfg": w.cfgJ(), "startSeqNr": 1, "rounds": rounds, "attestations": []any{}, "strictCodec": true}, "history", "one-stream-outage")
			}
		}
	}
	// A well-formed premium-legacy channel through the REAL codec: the seconds written on chain must tile too
	// (sub-second observation times in the upper and lower halves of their seconds, both protocol versions).
	genOnchain := func(g *G) {
		feed := "0x" + strings.Repeat("ab", 32)
		opts := hexs([]byte(fmt.Sprintf(`{"baseUSDFee":"1","expirationWindow":60,"feedID":%q,"multiplier":"10"}`, feed)))
		def := J{"format": "1", "opts": opts, "streams": []any{J{"sid": "1", "agg": "1"}, J{"sid": "2", "agg": "1"}, J{"sid": "3", "agg": "3"}}}
		for _, ver := range []uint32{1, 0} {
			for _, fracs := range [][]uint64{{600, 400, 600, 900, 100, 500, 499, 501}, {900, 950, 50, 999, 1, 500, 500, 0}, {0, 0, 0, 0, 0, 0, 0, 0}} {
				w := newWorld(g)
				w.f, w.hasPred, w.version, w.interval, w.alias, w.verbose = 1, false, ver, uint64(ver), 0, false
				sec := uint64(1_700_000_100)
				rounds := []any{}
				for r, ms := range fracs {
					sec += uint64(1 + r%2)
					now := sec*1_000_000_000 + ms*1_000_000
					obs, honest := []any{}, []any{}
					for k := 0; k < 4; k++ {
						p := int64(1500 + r + k)
						o := J{"retire": false, "attested": "", "ts": S(now + uint64(k)), "removes": []any{}, "updates": []any{}, "values": []any{
							J{"sid": "1", "v": svJ(llo.ToDecimal(decimal.New(p, -1)))}, J{"sid": "2", "v": svJ(llo.ToDecimal(decimal.New(p+7, -1)))},
							J{"sid": "3", "v": svJ(&llo.Quote{Bid: decimal.New(p-1, 0), Benchmark: decimal.New(p, 0), Ask: decimal.New(p+1, 0)})}}}
						if r == 0 {
							o["updates"] = []any{J{"id": "1", "def": def}}
						}
						obs = append(obs, o)
						honest = append(honest, k)
					}
					rounds = append(rounds, J{"obs": obs, "honest": honest})
				}
				g.Emit(J{"op": "llo.history", "cfg": w.cfgJ(), "startSeqNr": 1, "rounds": rounds, "attestations": []any{}, "strictCodec": true}, "history", "onchain-windows-premium-legacy")
			}
		}
	}
	RegGen("C03", "plus histories of a premium-legacy channel whose reports are also encoded by the real codec (on-chain seconds must be adjacent and non-empty)", genOnchain)
	RegGen("C03", "plus histories in which one stream of a JSON channel has no value for one or two rounds (real JSON codec decides whether the report can be encoded)", genOutage)
}


func tenTo(k int) int {
	p := 1
	for ; k > 0; k-- {
		p *= 10
	}
	return p
}
