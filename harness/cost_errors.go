package main

// C19 — measured families for "errors joined in a loop, then formatted" (defect K6, repaired in
// /repo: VerifyChannelDefinitions joined its errors one by one, which nests the joined errors N deep;
// formatting an N-deep nesting copies the text of the inner levels once per level — quadratic).
//
//   verify-errors        5 update definitions × k streams with zero aggregator: ValidateObservation
//                        (which formats the joined error through %w) and VerifyChannelDefinitions + Error()
//   decode-errors        an observation with n stream values that all fail to decode: ValidateObservation and
//                        ObservationCodec.Decode + Error()
//   verify-errors-defs   n definitions failing the other checks (no streams / codec.Verify rejecting)
//   evm-payload-errors   ReportCodecEVMABIEncodeUnpacked.Encode with k values that all fail to encode
//                        (buildPayload joins per failing value) + Error()
//   mercury-report-errors  mercury v3 Report where every consensus fails (joins bounded by a constant) + Error()

import (
	"context"
	"encoding/json"
	"errors"
	"fmt"
	"math/big"

	"github.com/shopspring/decimal"
	ocrtypes "github.com/smartcontractkit/libocr/offchainreporting2plus/types"
	"google.golang.org/protobuf/proto"

	"github.com/smartcontractkit/chainlink-common/pkg/logger"
	llotypes "github.com/smartcontractkit/chainlink-common/pkg/types/llo"
	mercurytypes "github.com/smartcontractkit/chainlink-common/pkg/types/mercury"
	cv3 "github.com/smartcontractkit/chainlink-common/pkg/types/mercury/v3"

	"github.com/smartcontractkit/chainlink-data-streams/llo"
	"github.com/smartcontractkit/chainlink-data-streams/llo/reportcodecs/evm"
	"github.com/smartcontractkit/chainlink-data-streams/mercury"
	mv3 "github.com/smartcontractkit/chainlink-data-streams/mercury/v3"
)

// costRejectCodec: a report codec whose Verify rejects every definition.
type costRejectCodec struct{}

func (costRejectCodec) Encode(llo.Report, llotypes.ChannelDefinition) ([]byte, error) {
	return nil, errors.New("rejecting codec")
}
func (costRejectCodec) Verify(cd llotypes.ChannelDefinition) error {
	return fmt.Errorf("rejecting codec does not accept definitions with %d streams", len(cd.Streams))
}

type costMercCodec3 struct{}

func (costMercCodec3) BuildReport(context.Context, cv3.ReportFields) (ocrtypes.Report, error) {
	return ocrtypes.Report{1}, nil
}
func (costMercCodec3) MaxReportLength(context.Context, int) (int, error) { return 1024, nil }
func (costMercCodec3) ObservationTimestampFromReport(context.Context, ocrtypes.Report) (uint32, error) {
	return 0, errors.New("cannot read the previous report")
}

// formatted returns f's error after formatting it (the callers of these functions log / wrap it).
func costFormatted(f func() error) func() error {
	return func() error {
		err := f()
		if err == nil {
			return errors.New("unexpectedly no error")
		}
		if len(err.Error()) == 0 {
			return errors.New("empty error text")
		}
		return nil
	}
}

func costFamilyErrors(family string, n int, p *llo.Plugin) []costCall {
	switch family {
	case "verify-errors":
		pdefs := map[uint32]*llo.LLOChannelDefinitionProto{}
		defs := llotypes.ChannelDefinitions{}
		for c := 0; c < 5; c++ {
			st := make([]*llo.LLOStreamDefinition, n)
			ss := make([]llotypes.Stream, n)
			for i := range st {
				id := uint32(1<<28 + c*n + i) // large ids: 5-byte varints, the largest encoding per stream
				st[i] = &llo.LLOStreamDefinition{StreamID: id}
				ss[i] = llotypes.Stream{StreamID: id}
			}
			pdefs[uint32(c+1)] = &llo.LLOChannelDefinitionProto{ReportFormat: uint32(llotypes.ReportFormatJSON), Streams: st}
			defs[uint32(c+1)] = llotypes.ChannelDefinition{ReportFormat: llotypes.ReportFormatJSON, Streams: ss}
		}
		obs, err := proto.Marshal(&llo.LLOObservationProto{UnixTimestampNanoseconds: 3_000_000_000, UpdateChannelDefinitions: pdefs})
		if err != nil {
			panic(err)
		}
		v := costValidateCall(p, obs)
		inner := v.f
		v.f = func() error { // must be rejected, and the rejection must carry the text
			if err := inner(); err == nil {
				return errors.New("unexpectedly valid")
			}
			return nil
		}
		return []costCall{v, {"VerifyChannelDefinitions+Error", len(obs), costFormatted(func() error { return llo.VerifyChannelDefinitions(p.ReportCodecs, defs) })}}
	case "decode-errors":
		// an observation whose n stream values all fail to decode (decimal with empty bytes): the decoder
		// may stop at the first or report all of them, but formatting what it reports must stay linear
		svs := map[uint32]*llo.LLOStreamValue{}
		for i := 0; i < n; i++ {
			svs[uint32(1<<28+i)] = &llo.LLOStreamValue{Type: llo.LLOStreamValue_Decimal}
		}
		obs, err := proto.Marshal(&llo.LLOObservationProto{UnixTimestampNanoseconds: 3_000_000_000, StreamValues: svs})
		if err != nil {
			panic(err)
		}
		v := costValidateCall(p, obs)
		inner := v.f
		v.f = func() error {
			if err := inner(); err == nil {
				return errors.New("unexpectedly valid")
			}
			return nil
		}
		return []costCall{v, {"ObservationCodec.Decode+Error", len(obs), costFormatted(func() error {
			_, err := p.ObservationCodec.Decode(obs)
			return err
		})}}
	case "verify-errors-defs":
		defs := llotypes.ChannelDefinitions{}
		size := 0
		for c := 0; c < n; c++ {
			if c%2 == 0 {
				defs[uint32(c+1)] = llotypes.ChannelDefinition{ReportFormat: llotypes.ReportFormatJSON}
				size += 6
			} else {
				defs[uint32(c+1)] = llotypes.ChannelDefinition{ReportFormat: 42, Streams: []llotypes.Stream{{StreamID: uint32(c), Aggregator: llotypes.AggregatorMedian}}}
				size += 14
			}
		}
		codecs := map[llotypes.ReportFormat]llo.ReportCodec{llotypes.ReportFormatJSON: llo.JSONReportCodec{}, 42: costRejectCodec{}}
		return []costCall{{"VerifyChannelDefinitions+Error", size, costFormatted(func() error { return llo.VerifyChannelDefinitions(codecs, defs) })}}
	case "evm-payload-errors":
		abi := make([]map[string]string, n)
		for i := range abi {
			abi[i] = map[string]string{"type": "uint192"}
		}
		opts, err := json.Marshal(map[string]any{"baseUSDFee": "1", "expirationWindow": 10,
			"feedID": "0x0001000000000000000000000000000000000000000000000000000000000001", "abi": abi})
		if err != nil {
			panic(err)
		}
		streams := make([]llotypes.Stream, n+2)
		values := make([]llo.StreamValue, n+2)
		for i := range streams {
			streams[i] = llotypes.Stream{StreamID: uint32(i + 1), Aggregator: llotypes.AggregatorMedian}
			values[i] = llo.ToDecimal(decimal.New(-1, 0)) // negative: not encodable as uint192
		}
		values[0], values[1] = llo.ToDecimal(decimal.New(1, 0)), llo.ToDecimal(decimal.New(1, 0))
		cd := llotypes.ChannelDefinition{ReportFormat: llotypes.ReportFormatEVMABIEncodeUnpacked, Streams: streams, Opts: opts}
		rep := llo.Report{SeqNr: 3, ChannelID: 1, ValidAfterNanoseconds: 1_000_000_000, ObservationTimestampNanoseconds: 2_000_000_000, Values: values}
		codec := evm.NewReportCodecEVMABIEncodeUnpacked(logger.Nop(), 1)
		return []costCall{{"EVMABIEncodeUnpacked.Encode+Error", len(opts) + 6*(n+2), costFormatted(func() error { _, err := codec.Encode(rep, cd); return err })}}
	case "mercury-report-errors":
		ctx := context.Background()
		occ := mercury.StandardOnchainConfigCodec{}
		onchain, err := occ.Encode(ctx, mercurytypes.OnchainConfig{Min: big.NewInt(1), Max: big.NewInt(1000)})
		if err != nil {
			panic(err)
		}
		pl, _, err := mv3.NewFactory(nil, logger.Nop(), occ, costMercCodec3{}).NewMercuryPlugin(ctx,
			ocr3typesMercuryConfig(4, 1, onchain, []byte(`{"expirationWindow":4294967295,"baseUSDFee":"0.5"}`)))
		if err != nil {
			panic(err)
		}
		var aos []ocrtypes.AttributedObservation
		size := 0
		for i := 0; i < 4; i++ { // valid timestamps, every price / fee / max-finalized-timestamp marked invalid
			b, err := proto.Marshal(&mv3.MercuryObservationProto{Timestamp: uint32(1000 + i)})
			if err != nil {
				panic(err)
			}
			size += len(b)
			aos = append(aos, ocrtypes.AttributedObservation{Observation: b, Observer: costOracleID(i)})
		}
		return []costCall{{"mercury/v3.Report+Error", size + 1, costFormatted(func() error {
			_, _, err := pl.Report(ctx, ocrtypes.ReportTimestamp{Epoch: 1, Round: 1}, ocrtypes.Report{1}, aos)
			return err
		})}}
	}
	panic("unknown family " + family)
}
