package main

// LLO wire codecs — shared helpers and the outcome codec (property C10).
// All identifiers of this area are prefixed cdc.

import (
	"bytes"
	"fmt"
	"math"
	"math/big"
	"math/rand"
	"sort"

	"github.com/shopspring/decimal"
	"google.golang.org/protobuf/proto"

	llotypes "github.com/smartcontractkit/chainlink-common/pkg/types/llo"

	"github.com/smartcontractkit/chainlink-data-streams/llo"
)

// ---------- message dumps (repeated fields in wire order) ----------

func cdcSVMsgJ(m *llo.LLOStreamValue) any {
	if m == nil {
		return nil
	}
	return J{"ty": S(int32(m.Type)), "value": hexs(m.Value)}
}

func cdcJSVMsg(v any) *llo.LLOStreamValue {
	if v == nil {
		return nil
	}
	return &llo.LLOStreamValue{Type: llo.LLOStreamValue_Type(int32(jBig(jget(v, "ty")).Int64())), Value: jBytes(jget(v, "value"))}
}

func cdcDefMsgJ(d *llo.LLOChannelDefinitionProto) any {
	if d == nil {
		return nil
	}
	st := make([]any, len(d.Streams))
	for i, s := range d.Streams {
		st[i] = J{"sid": S(s.GetStreamID()), "agg": S(s.GetAggregator())}
	}
	return J{"format": S(d.ReportFormat), "streams": st, "opts": hexs(d.Opts)}
}

func cdcJDefMsg(v any) *llo.LLOChannelDefinitionProto {
	if v == nil {
		return nil
	}
	d := &llo.LLOChannelDefinitionProto{ReportFormat: jU32(jget(v, "format")), Opts: jBytes(jget(v, "opts"))}
	for _, s := range jArr(jget(v, "streams")) {
		d.Streams = append(d.Streams, &llo.LLOStreamDefinition{StreamID: jU32(jget(s, "sid")), Aggregator: jU32(jget(s, "agg"))})
	}
	return d
}

func cdcDefsMsgJ(in []*llo.LLOChannelIDAndDefinitionProto) []any {
	out := make([]any, len(in))
	for i, e := range in {
		out[i] = J{"id": S(e.GetChannelID()), "def": cdcDefMsgJ(e.GetChannelDefinition())}
	}
	return out
}

func cdcAggsMsgJ(in []*llo.LLOStreamAggregate) []any {
	out := make([]any, len(in))
	for i, e := range in {
		out[i] = J{"sid": S(e.GetStreamID()), "agg": S(e.GetAggregator()), "sv": cdcSVMsgJ(e.GetStreamValue())}
	}
	return out
}

// cdcOutcomeMsgJ unmarshals encoder output into the generated struct and dumps it.
func cdcOutcomeMsgJ(ver int, b []byte) (J, error) {
	if ver == 0 {
		p := &llo.LLOOutcomeProtoV0{}
		if err := proto.Unmarshal(b, p); err != nil {
			return nil, err
		}
		va := make([]any, len(p.ValidAfterSeconds))
		for i, e := range p.ValidAfterSeconds {
			va[i] = J{"id": S(e.GetChannelID()), "va": S(e.GetValidAfterSeconds())}
		}
		return J{"stage": p.LifeCycleStage, "ts": S(p.ObservationTimestampNanoseconds), "defs": cdcDefsMsgJ(p.ChannelDefinitions),
			"va": va, "aggs": cdcAggsMsgJ(p.StreamAggregates)}, nil
	}
	p := &llo.LLOOutcomeProtoV1{}
	if err := proto.Unmarshal(b, p); err != nil {
		return nil, err
	}
	va := make([]any, len(p.ValidAfterNanoseconds))
	for i, e := range p.ValidAfterNanoseconds {
		va[i] = J{"id": S(e.GetChannelID()), "va": S(e.GetValidAfterNanoseconds())}
	}
	return J{"stage": p.LifeCycleStage, "ts": S(p.ObservationTimestampNanoseconds), "defs": cdcDefsMsgJ(p.ChannelDefinitions),
		"va": va, "aggs": cdcAggsMsgJ(p.StreamAggregates)}, nil
}

// cdcOutcomeMsgBytes builds the generated struct from a dump and marshals it with protobuf-go.
func cdcOutcomeMsgBytes(ver int, m any) ([]byte, error) {
	var defs []*llo.LLOChannelIDAndDefinitionProto
	for _, e := range jArr(jget(m, "defs")) {
		defs = append(defs, &llo.LLOChannelIDAndDefinitionProto{ChannelID: jU32(jget(e, "id")), ChannelDefinition: cdcJDefMsg(jget(e, "def"))})
	}
	var aggs []*llo.LLOStreamAggregate
	for _, e := range jArr(jget(m, "aggs")) {
		aggs = append(aggs, &llo.LLOStreamAggregate{StreamID: jU32(jget(e, "sid")), Aggregator: jU32(jget(e, "agg")), StreamValue: cdcJSVMsg(jget(e, "sv"))})
	}
	if ver == 0 {
		p := &llo.LLOOutcomeProtoV0{LifeCycleStage: jStr(jget(m, "stage")), ObservationTimestampNanoseconds: jBig(jget(m, "ts")).Int64(),
			ChannelDefinitions: defs, StreamAggregates: aggs}
		for _, e := range jArr(jget(m, "va")) {
			p.ValidAfterSeconds = append(p.ValidAfterSeconds, &llo.LLOChannelIDAndValidAfterSecondsProto{ChannelID: jU32(jget(e, "id")), ValidAfterSeconds: jU32(jget(e, "va"))})
		}
		return proto.Marshal(p)
	}
	p := &llo.LLOOutcomeProtoV1{LifeCycleStage: jStr(jget(m, "stage")), ObservationTimestampNanoseconds: jBig(jget(m, "ts")).Uint64(),
		ChannelDefinitions: defs, StreamAggregates: aggs}
	for _, e := range jArr(jget(m, "va")) {
		p.ValidAfterNanoseconds = append(p.ValidAfterNanoseconds, &llo.LLOChannelIDAndValidAfterNanosecondsProto{ChannelID: jU32(jget(e, "id")), ValidAfterNanoseconds: jU64(jget(e, "va"))})
	}
	return proto.Marshal(p)
}

func cdcOutcomeCodec(ver int) llo.OutcomeCodec {
	return llo.OffchainConfig{ProtocolVersion: uint32(ver)}.GetOutcomeCodec()
}

func cdcOutcomeErr(err error) J {
	return resErr(errClass(err,
		[2]string{"valid after seconds too large", "va-too-large"},
		[2]string{"observation timestamp too large", "ts-too-large"},
		[2]string{"nil channel definition", "nil-def"},
		[2]string{"nil stream value", "nil-value"},
		[2]string{"nil value for stream", "nil-value"},
		[2]string{"nil aggregates", "nil-value"},
		[2]string{"unknown StreamValueType", "unknown-type"},
		[2]string{"nested too deeply", "too-deep"},
		[2]string{"invalid observation timestamp", "bad-timestamp"},
		[2]string{"expected protobuf", "bad-proto"},
	), err)
}

// errClass returns "other" for unmatched messages; stream value decode errors are all of that kind.
func cdcFixOther(r J) J {
	if r["err"] == "other" {
		r["err"] = "bad-value"
	}
	return r
}

func cdcSame(a, b any) bool { return bytes.Equal(marshal(a), marshal(b)) }

// shuffled copy of a JSON array
func cdcShuffle(r *rand.Rand, a []any) []any {
	out := append([]any{}, a...)
	r.Shuffle(len(out), func(i, j int) { out[i], out[j] = out[j], out[i] })
	return out
}

// cdcDedup keeps the last entry per key (what building a Go map from the array does), so that a
// shuffled array still denotes the same map.
func cdcDedup(a []any, key func(any) string) []any {
	last := map[string]int{}
	for i, e := range a {
		last[key(e)] = i
	}
	var out []any
	for i, e := range a {
		if last[key(e)] == i {
			out = append(out, e)
		}
	}
	return out
}

func cdcOutcomeShuffled(r *rand.Rand, o any) llo.Outcome {
	idKey := func(e any) string { return jBig(jget(e, "id")).String() }
	aggKey := func(e any) string { return jBig(jget(e, "sid")).String() + "/" + jBig(jget(e, "agg")).String() }
	c := J{"stage": jget(o, "stage"), "ts": jget(o, "ts"),
		"defs": cdcShuffle(r, cdcDedup(jArr(jget(o, "defs")), idKey)),
		"va":   cdcShuffle(r, cdcDedup(jArr(jget(o, "va")), idKey)),
		"aggs": cdcShuffle(r, cdcDedup(jArr(jget(o, "aggs")), aggKey))}
	return jOutcome(c)
}

func init() {
	for ver := 0; ver <= 1; ver++ {
		ver := ver
		name := fmt.Sprintf("outcome.v%d.", ver)
		codec := cdcOutcomeCodec(ver)

		// {"outcome":Outcome,"shuffles":n} -> message dump of the encoding; the same outcome is also built
		// in n shuffled insertion orders and encoded 3 times each: "_distinct" counts distinct encodings.
		RegOp(name+"encode", func(in J) any {
			in = normalise(in).(map[string]any)
			o := jOutcome(in["outcome"])
			b, err := codec.Encode(o)
			encs := map[string]bool{}
			errs := 0
			r := rand.New(rand.NewSource(int64(jInt(in["shuffles"])) + 12345))
			n := 0
			if in["shuffles"] != nil {
				n = jInt(in["shuffles"])
			}
			for i := 0; i < n; i++ {
				os := cdcOutcomeShuffled(r, in["outcome"])
				for k := 0; k < 3; k++ {
					bb, e := codec.Encode(os)
					if e != nil {
						errs++
					} else {
						encs[string(bb)] = true
					}
				}
			}
			if err != nil {
				res := cdcOutcomeErr(err)
				res["_shuffle_ok"] = len(encs)
				return res
			}
			// b is still held (as libocr holds the previous outcome) while other outcomes of the same size
			// are encoded: an encoding must not be changed by later Encode calls
			held := string(b)
			for k := uint64(1); k <= 2; k++ {
				other := o
				other.ObservationTimestampNanoseconds += k * 1_000_000_000
				other.LifeCycleStage = o.LifeCycleStage
				codec.Encode(other)
			}
			if string(b) != held {
				return J{"ok": nil, "_clobbered": true}
			}
			encs[string(b)] = true
			m, merr := cdcOutcomeMsgJ(ver, b)
			if merr != nil {
				return J{"harness-error": "cannot unmarshal encoder output: " + merr.Error()}
			}
			res := resOK(m)
			res["_hex_len"] = len(b)
			res["_distinct"] = len(encs)
			res["_shuffle_errs"] = errs
			d, derr := codec.Decode(b)
			if derr != nil {
				res["_rt_err"] = derr.Error()
			} else {
				res["_rt"] = outcomeJ(d)
			}
			return res
		})

		// {"msg":OutcomeMsg} -> decoded outcome (maps sorted)
		RegOp(name+"decode", func(in J) any {
			in = normalise(in).(map[string]any)
			b, err := cdcOutcomeMsgBytes(ver, in["msg"])
			if err != nil {
				return J{"harness-error": "cannot marshal message: " + err.Error()}
			}
			o, err := codec.Decode(b)
			if err != nil {
				return cdcFixOther(cdcOutcomeErr(err))
			}
			return resOK(outcomeJ(o))
		})

		// {"outcome":Outcome} -> message dump of Encode(Decode(Encode(o))); "_same" = both encodings are equal
		RegOp(name+"reencode", func(in J) any {
			in = normalise(in).(map[string]any)
			o := jOutcome(in["outcome"])
			b1, err := codec.Encode(o)
			if err != nil {
				return cdcOutcomeErr(err)
			}
			o2, err := codec.Decode(b1)
			if err != nil {
				return cdcFixOther(cdcOutcomeErr(err))
			}
			b2, err := codec.Encode(o2)
			if err != nil {
				return cdcOutcomeErr(err)
			}
			m, merr := cdcOutcomeMsgJ(ver, b2)
			if merr != nil {
				return J{"harness-error": "cannot unmarshal encoder output: " + merr.Error()}
			}
			res := resOK(m)
			res["_same"] = bytes.Equal(b1, b2)
			return res
		})

		// implementation only: {"bytes":hex} -> Decode; when it succeeds, Encode/Decode/Encode must be stable
		RegOp(name+"decodebytes", func(in J) any {
			in = normalise(in).(map[string]any)
			o, err := codec.Decode(jBytes(in["bytes"]))
			if err != nil {
				return cdcFixOther(cdcOutcomeErr(err))
			}
			res := resOK(outcomeJ(o))
			b2, err := codec.Encode(o)
			if err != nil {
				res["_reencode_err"] = err.Error()
				return res
			}
			o2, err := codec.Decode(b2)
			if err != nil {
				res["_reencode_err"] = err.Error()
				return res
			}
			b3, err := codec.Encode(o2)
			if err != nil {
				res["_reencode_err"] = err.Error()
				return res
			}
			res["_stable"] = bytes.Equal(b2, b3) && cdcSame(outcomeJ(o), outcomeJ(o2))
			return res
		})
	}
	RegGen("C10", "outcomes with 0..2000 channel definitions (thorough tier), arbitrary uint32 ids/formats/streams/opts, validity starts over all of uint64 (v1) / representable seconds ±1 (v0), aggregates of all three value types incl. negative, int32-extreme-scale decimals and (nested) timestamped values; every outcome is also built in shuffled insertion orders and encoded repeatedly; message-level decode inputs with nil definitions / nil, unknown-typed or byte-mutated values / duplicates / unsorted order / negative timestamps; arbitrary and mutated bytes in an implementation-only stream. non-trivial = at least one map has ≥ 2 entries or the input is a malformed message; distinct = different op line", genC10)
	RegMonitor("C10", monC10)
}

// ---------- generators ----------

func cdcRndU32(g *G) uint32 {
	switch g.R.Intn(8) {
	case 0:
		return 0
	case 1:
		return math.MaxUint32 - uint32(g.R.Intn(2))
	case 2, 3:
		return g.R.Uint32()
	default:
		return uint32(g.R.Intn(40))
	}
}

func cdcRndU64(g *G) uint64 {
	switch g.R.Intn(8) {
	case 0:
		return 0
	case 1:
		return math.MaxUint64 - uint64(g.R.Intn(2))
	case 2:
		return 1<<63 - 1 + uint64(g.R.Intn(3))
	case 3:
		return g.R.Uint64()
	case 4:
		return uint64(g.R.Intn(3)) + 1<<32*1e9 - 1
	default:
		return uint64(g.R.Int63n(4e18))
	}
}

func cdcRndBytes(g *G, max int) []byte {
	b := make([]byte, g.R.Intn(max+1))
	g.R.Read(b)
	return b
}

// decimals of either sign, any magnitude, exponents up to the int32 limits
func cdcRndDec(g *G) decimal.Decimal {
	var c *big.Int
	switch g.R.Intn(6) {
	case 0:
		c = big.NewInt(0)
	case 1:
		c = new(big.Int).Rand(g.R, new(big.Int).Lsh(big.NewInt(1), uint(1+g.R.Intn(400))))
	case 2:
		c = new(big.Int).Lsh(big.NewInt(1), uint(8*g.R.Intn(12)))
		c.Sub(c, big.NewInt(int64(g.R.Intn(2))))
	default:
		c = big.NewInt(int64(g.R.Intn(200000)))
	}
	if g.R.Intn(2) == 0 {
		c.Neg(c)
	}
	var e int32
	switch g.R.Intn(8) {
	case 0:
		e = math.MinInt32 + int32(g.R.Intn(2))
	case 1:
		e = math.MaxInt32 - int32(g.R.Intn(2))
	case 2:
		e = int32(g.R.Intn(2001) - 1000)
	case 3:
		e = 0
	default:
		e = int32(g.R.Intn(41) - 30)
	}
	return decimal.NewFromBigInt(c, e)
}

// kind 0 dec, 1 quote, 2 tsv(dec), 3 tsv(quote), 4 tsv(tsv(dec)), 5 tsv(tsv(tsv(dec)))
func cdcRndSVKind(g *G, kind int) llo.StreamValue {
	switch kind {
	case 0:
		return llo.ToDecimal(cdcRndDec(g))
	case 1:
		q := &llo.Quote{Bid: cdcRndDec(g), Benchmark: cdcRndDec(g), Ask: cdcRndDec(g)}
		// components that coincide, exactly or only numerically (same number, another exponent)
		same := func(d decimal.Decimal) decimal.Decimal {
			if g.R.Intn(2) == 0 && d.Exponent() > math.MinInt32+8 {
				k := int32(1 + g.R.Intn(6))
				return decimal.NewFromBigInt(new(big.Int).Mul(d.Coefficient(), new(big.Int).Exp(big.NewInt(10), big.NewInt(int64(k)), nil)), d.Exponent()-k)
			}
			return d
		}
		switch g.R.Intn(12) {
		case 0:
			q.Ask = same(q.Bid)
		case 1:
			q.Benchmark = same(q.Bid)
		case 2:
			q.Ask = same(q.Benchmark)
		case 3:
			q.Benchmark, q.Ask = same(q.Bid), same(q.Bid)
		}
		return q
	case 2:
		return &llo.TimestampedStreamValue{ObservedAtNanoseconds: cdcRndU64(g), StreamValue: cdcRndSVKind(g, 0)}
	case 3:
		return &llo.TimestampedStreamValue{ObservedAtNanoseconds: cdcRndU64(g), StreamValue: cdcRndSVKind(g, 1)}
	case 4:
		return &llo.TimestampedStreamValue{ObservedAtNanoseconds: cdcRndU64(g), StreamValue: cdcRndSVKind(g, 2+g.R.Intn(2))}
	default:
		return &llo.TimestampedStreamValue{ObservedAtNanoseconds: cdcRndU64(g), StreamValue: cdcRndSVKind(g, 4)}
	}
}

// mostly depth ≤ 2 (what decodes); deep = allow depth 3
func cdcRndSV(g *G, deep bool) llo.StreamValue {
	k := g.R.Intn(12)
	switch {
	case k < 4:
		return cdcRndSVKind(g, 0)
	case k < 6:
		return cdcRndSVKind(g, 1)
	case k < 9:
		return cdcRndSVKind(g, 2)
	case k < 10:
		return cdcRndSVKind(g, 3)
	case k < 11 || !deep:
		return cdcRndSVKind(g, 4)
	default:
		return cdcRndSVKind(g, 5)
	}
}

func cdcRndChanDef(g *G, maxStreams int) llotypes.ChannelDefinition {
	d := llotypes.ChannelDefinition{ReportFormat: llotypes.ReportFormat(cdcRndU32(g)), Streams: []llotypes.Stream{}}
	n := g.R.Intn(maxStreams + 1)
	for i := 0; i < n; i++ {
		d.Streams = append(d.Streams, llotypes.Stream{StreamID: cdcRndU32(g), Aggregator: llotypes.Aggregator(cdcRndU32(g))})
	}
	if g.R.Intn(2) == 0 {
		d.Opts = cdcRndBytes(g, 40)
	}
	if g.R.Intn(12) == 0 {
		// opts of a few hundred bytes to a few kilobytes (an ABI schema), around the sizes a cap would use
		d.Opts = make([]byte, []int{255, 256, 257, 1023, 1024, 1025, 4096, 4097}[g.R.Intn(8)])
		g.R.Read(d.Opts)
	}
	return d
}

var cdcStages = []string{"", "staging", "production", "retired", "Production", "ünïcode ✓", "a\"b\\c"}

// cdcRndOutcomeJ returns the outcome as JSON arrays in a random insertion order (ids mostly distinct).
func cdcRndOutcomeJ(g *G, ver int, nDefs, nVA, nAggs int, deep bool) J {
	ids := func(n int) []uint32 {
		seen := map[uint32]bool{}
		var out []uint32
		for len(out) < n {
			id := cdcRndU32(g)
			if n > 20 {
				id = g.R.Uint32()
				if g.R.Intn(2) == 0 {
					id = uint32(g.R.Intn(4 * n))
				}
			}
			if seen[id] && g.R.Intn(20) != 0 { // a few duplicates stay in (later entry overwrites)
				continue
			}
			seen[id] = true
			out = append(out, id)
		}
		return out
	}
	var defs, va, aggs []any
	for _, id := range ids(nDefs) {
		ms := 6
		if nDefs > 100 {
			ms = 3
		}
		defs = append(defs, J{"id": S(id), "def": chanDefJ(cdcRndChanDef(g, ms))})
	}
	for _, id := range ids(nVA) {
		v := cdcRndU64(g)
		if ver == 0 && g.R.Intn(40) != 0 {
			v %= (1 << 32) * 1e9 // representable seconds
		}
		va = append(va, J{"id": S(id), "va": S(v)})
	}
	for _, sid := range ids(nAggs) {
		na := 1 + g.R.Intn(2)
		for k := 0; k < na; k++ {
			agg := uint32(1 + g.R.Intn(3))
			if g.R.Intn(6) == 0 {
				agg = cdcRndU32(g)
			}
			aggs = append(aggs, J{"sid": S(sid), "agg": S(agg), "v": svJ(cdcRndSV(g, deep))})
		}
	}
	ts := cdcRndU64(g)
	if ver == 0 && g.R.Intn(30) != 0 {
		ts %= 1 << 63
	}
	return J{"stage": cdcStages[g.R.Intn(len(cdcStages))], "ts": S(ts), "defs": defs, "va": va, "aggs": aggs}
}

func cdcHasNegZeroDec(d decimal.Decimal) bool {
	if d.Coefficient().Sign() != 0 {
		return false
	}
	b, err := d.MarshalBinary()
	return err == nil && len(b) > 4 && b[4] == 3
}

func cdcHasNegZero(sv llo.StreamValue) bool {
	switch v := sv.(type) {
	case *llo.Decimal:
		return v != nil && cdcHasNegZeroDec(v.Decimal())
	case *llo.Quote:
		return v != nil && (cdcHasNegZeroDec(v.Bid) || cdcHasNegZeroDec(v.Benchmark) || cdcHasNegZeroDec(v.Ask))
	case *llo.TimestampedStreamValue:
		return v != nil && cdcHasNegZero(v.StreamValue)
	}
	return false
}

func cdcOutcomeHasNegZero(o llo.Outcome) bool {
	for _, m := range o.StreamAggregates {
		for _, v := range m {
			if cdcHasNegZero(v) {
				return true
			}
		}
	}
	return false
}

// cdcMutateBytes returns a structurally mutated copy: truncation, bit flip, insertion, appended
// unknown / duplicate fields, groups.
func cdcMutateBytes(g *G, b []byte) []byte {
	out := append([]byte{}, b...)
	switch g.R.Intn(9) {
	case 0:
		if len(out) > 0 {
			out = out[:g.R.Intn(len(out))]
		}
	case 1:
		if len(out) > 0 {
			out[g.R.Intn(len(out))] ^= 1 << uint(g.R.Intn(8))
		}
	case 2:
		i := g.R.Intn(len(out) + 1)
		out = append(out[:i], append([]byte{byte(g.R.Intn(256))}, out[i:]...)...)
	case 3: // unknown varint field 15
		out = append(out, 0x78, byte(g.R.Intn(128)))
	case 4: // unknown length-delimited field 14
		out = append(out, 0x72, 2, 1, 2)
	case 5: // duplicate of itself (last one wins / merge)
		out = append(out, b...)
	case 6: // group field 13 with a nested varint, properly closed / not closed
		out = append(out, 0x6b, 0x08, 0x01)
		if g.R.Intn(2) == 0 {
			out = append(out, 0x6c)
		}
	case 7: // fixed32 / fixed64 unknown fields
		out = append(out, 0x65, 1, 2, 3, 4, 0x61, 1, 2, 3, 4, 5, 6, 7, 8)
	case 8: // overlong varint tag / ten-byte varint
		out = append(out, 0xf8, 0x80, 0x00, 0xff, 0xff, 0xff, 0xff, 0xff, 0xff, 0xff, 0xff, 0xff, byte(g.R.Intn(3)))
	}
	return out
}

func genC10(g *G) {
	emitEnc := func(ver int, o J, tags ...string) {
		op := fmt.Sprintf("outcome.v%d.", ver)
		g.Emit(J{"op": op + "encode", "outcome": o, "sigma": g.R.Intn(9), "shuffles": 3}, append(tags, "encode")...)
		g.Emit(J{"op": op + "reencode", "outcome": o, "sigma": g.R.Intn(9)}, append(tags, "reencode")...)
	}
	// --- directed
	for ver := 0; ver <= 1; ver++ {
		emitEnc(ver, J{"stage": "", "ts": "0", "defs": []any{}, "va": []any{}, "aggs": []any{}}, "empty")
		for _, ts := range []string{"9223372036854775807", "9223372036854775808", "18446744073709551615"} {
			emitEnc(ver, J{"stage": "production", "ts": ts, "defs": []any{}, "va": []any{}, "aggs": []any{}}, "ts-boundary")
		}
		for _, v := range []string{"999999999", "1000000000", "4294967295999999999", "4294967296000000000", "18446744073709551615"} {
			emitEnc(ver, J{"stage": "production", "ts": "5", "defs": []any{}, "va": []any{J{"id": "1", "va": v}, J{"id": "0", "va": "7"}}, "aggs": []any{}}, "va-boundary")
		}
		// nesting depth 1..4
		var sv llo.StreamValue = llo.ToDecimal(decimal.New(-15, -1))
		for d := 1; d <= 4; d++ {
			sv = &llo.TimestampedStreamValue{ObservedAtNanoseconds: uint64(d), StreamValue: sv}
			emitEnc(ver, J{"stage": "staging", "ts": "1", "defs": []any{}, "va": []any{}, "aggs": []any{J{"sid": "3", "agg": "1", "v": svJ(sv)}, J{"sid": "2", "agg": "2", "v": svJ(llo.ToDecimal(decimal.New(1, 0)))}}}, fmt.Sprintf("tsv-depth-%d", d))
		}
	}
	// --- random outcomes
	n := g.N(120, 1500)
	for i := 0; i < n; i++ {
		ver := i % 2
		sz := g.R.Intn(14)
		o := cdcRndOutcomeJ(g, ver, g.R.Intn(sz+1), g.R.Intn(sz+1), g.R.Intn(sz+1), g.R.Intn(6) == 0)
		emitEnc(ver, o, "random")
	}
	// --- large outcomes (sort.Slice switches away from insertion sort above 12 elements)
	sizes := []int{13, 64, 300}
	if g.Thorough() {
		sizes = []int{13, 64, 300, 1000, 2000, 2000, 1999, 2001}
	}
	for _, sz := range sizes {
		for ver := 0; ver <= 1; ver++ {
			o := cdcRndOutcomeJ(g, ver, sz, sz, sz/4+1, false)
			emitEnc(ver, o, "large")
		}
	}
	// --- many aggregates, few definitions (a pooled or shared scratch slice sized by the number of streams shows
	// when several of these are encoded at the same time: they are in the sample of the concurrent phase)
	for k := 0; k < g.N(6, 40); k++ {
		ver := k % 2
		o := cdcRndOutcomeJ(g, ver, 2, 2, 256+g.R.Intn(500), false)
		emitEnc(ver, o, "many-aggregates")
	}
	// --- message-level decode: valid message, then mutations of it
	nm := g.N(150, 2000)
	for i := 0; i < nm; i++ {
		ver := i % 2
		codec := cdcOutcomeCodec(ver)
		sz := 1 + g.R.Intn(6)
		o := cdcRndOutcomeJ(g, ver, g.R.Intn(sz+1), g.R.Intn(sz+1), 1+g.R.Intn(sz), false)
		if ver == 0 {
			o["ts"] = S(jU64(o["ts"]) % (1 << 63))
			for _, e := range o["va"].([]any) {
				e.(J)["va"] = S(jU64(e.(J)["va"]) % ((1 << 32) * 1e9))
			}
		}
		b, err := codec.Encode(jOutcome(normalise(o)))
		if err != nil {
			continue
		}
		m, err := cdcOutcomeMsgJ(ver, b)
		if err != nil {
			panic(err)
		}
		m = normalise(m).(map[string]any)
		tag := "msg-valid"
		defs, aggs, va := jArr(m["defs"]), jArr(m["aggs"]), jArr(m["va"])
		switch g.R.Intn(11) {
		case 0:
			if len(defs) > 0 {
				defs[g.R.Intn(len(defs))].(map[string]any)["def"] = nil
				tag = "msg-nil-def"
			}
		case 1:
			aggs[g.R.Intn(len(aggs))].(map[string]any)["sv"] = nil
			tag = "msg-nil-sv"
		case 2:
			ty := []string{"3", "-1", "2147483647", "-2147483648", "7"}[g.R.Intn(5)]
			aggs[g.R.Intn(len(aggs))].(map[string]any)["sv"].(map[string]any)["ty"] = ty
			tag = "msg-unknown-type"
		case 3: // type confusion: keep the bytes, change the type
			sv := aggs[g.R.Intn(len(aggs))].(map[string]any)["sv"].(map[string]any)
			sv["ty"] = S(g.R.Intn(3))
			tag = "msg-type-confusion"
		case 4: // duplicates with different payloads, later wins
			if len(defs) > 0 {
				d := defs[g.R.Intn(len(defs))].(map[string]any)
				defs = append(defs, J{"id": d["id"], "def": chanDefJ(cdcRndChanDef(g, 3))})
			}
			a := aggs[g.R.Intn(len(aggs))].(map[string]any)
			aggs = append(aggs, J{"sid": a["sid"], "agg": a["agg"], "sv": cdcSVMsgJ(cdcMustSVMsg(cdcRndSV(g, false)))})
			if len(va) > 0 {
				v := va[g.R.Intn(len(va))].(map[string]any)
				va = append(va, J{"id": v["id"], "va": S(g.R.Uint32())})
			}
			tag = "msg-duplicates"
		case 5: // unsorted
			g.R.Shuffle(len(defs), func(i, j int) { defs[i], defs[j] = defs[j], defs[i] })
			g.R.Shuffle(len(aggs), func(i, j int) { aggs[i], aggs[j] = aggs[j], aggs[i] })
			g.R.Shuffle(len(va), func(i, j int) { va[i], va[j] = va[j], va[i] })
			tag = "msg-unsorted"
		case 6:
			if ver == 0 {
				m["ts"] = S(-1 - g.R.Int63n(5))
				if g.R.Intn(2) == 0 {
					m["ts"] = S(int64(math.MinInt64))
				}
				tag = "msg-negative-ts"
			}
		case 7, 8: // byte-level mutation of one value
			sv := aggs[g.R.Intn(len(aggs))].(map[string]any)["sv"].(map[string]any)
			sv["value"] = hexs(cdcMutateBytes(g, jBytes(sv["value"])))
			tag = "msg-mutated-value"
		case 9: // too deep
			var v llo.StreamValue = llo.ToDecimal(cdcRndDec(g))
			for d := 0; d < 3+g.R.Intn(2); d++ {
				v = &llo.TimestampedStreamValue{ObservedAtNanoseconds: cdcRndU64(g), StreamValue: v}
			}
			aggs[g.R.Intn(len(aggs))].(map[string]any)["sv"] = cdcSVMsgJ(cdcMustSVMsg(v))
			tag = "msg-too-deep"
		}
		m["defs"], m["aggs"], m["va"] = defs, aggs, va
		op := J{"op": fmt.Sprintf("outcome.v%d.decode", ver), "msg": m}
		// negative zero (sign byte 3, zero magnitude) is outside the decimal model: implementation only
		mb, err := cdcOutcomeMsgBytes(ver, normalise(m))
		if err == nil {
			negZero := false
			func() {
				// the case is emitted either way; a panic of the decoder must show up on the op, not kill the generator
				defer func() { _ = recover() }()
				if d, derr := codec.Decode(mb); derr == nil && cdcOutcomeHasNegZero(d) {
					negZero = true
				}
			}()
			if negZero {
				g.EmitImpl(op, tag, "neg-zero")
				continue
			}
		}
		g.Emit(op, tag)
	}
	// --- a definition with exactly the maximal number of streams per channel (10 000) round-trips like any other
	for ver := 0; ver <= 1; ver++ {
		for _, n := range []int{9999, 10000} {
			st := make([]any, n)
			for k := range st {
				st[k] = J{"sid": S(k + 1), "agg": S(1 + k%3)}
			}
			o := J{"stage": "production", "ts": "1700000000000000000", "defs": []any{J{"id": "2", "def": J{"format": "2", "opts": "", "streams": st}}}, "va": []any{}, "aggs": []any{}}
			g.EmitImpl(J{"op": fmt.Sprintf("outcome.v%d.encode", ver), "outcome": o, "shuffles": 0}, "streams-at-the-limit")
		}
	}
	// --- implementation only: arbitrary and mutated bytes
	nb := g.N(600, 20000)
	for i := 0; i < nb; i++ {
		ver := i % 2
		var b []byte
		tag := "bytes-random"
		if g.R.Intn(3) == 0 {
			b = cdcRndBytes(g, 60)
		} else {
			o := cdcRndOutcomeJ(g, ver, g.R.Intn(4), g.R.Intn(4), g.R.Intn(4), true)
			enc, err := cdcOutcomeCodec(1).Encode(jOutcome(normalise(o)))
			if err != nil {
				continue
			}
			b = enc
			for k := 0; k <= g.R.Intn(3); k++ {
				b = cdcMutateBytes(g, b)
			}
			tag = "bytes-mutated"
		}
		g.EmitImpl(J{"op": fmt.Sprintf("outcome.v%d.decodebytes", ver), "bytes": hexs(b)}, tag)
	}
}

func cdcMustSVMsg(v llo.StreamValue) *llo.LLOStreamValue {
	// announced to the watchdog as the observation that carries just this value (the same call, as an op)
	defer watchOp(J{"op": "obs.encode", "sigma": 1, "obs": J{"attested": nil, "retire": false, "ts": "0", "removes": []any{}, "updates": []any{},
		"values": []any{J{"sid": "1", "v": svJ(v)}}}})()
	b, err := v.MarshalBinary()
	if err != nil {
		panic(err)
	}
	return &llo.LLOStreamValue{Type: v.Type(), Value: b}
}

// ---------- monitor ----------

func cdcSVDepth(v any) int {
	if v == nil {
		return 0
	}
	if jStr(jget(v, "t")) == "tsv" {
		return 1 + cdcSVDepth(jget(v, "v"))
	}
	return 0
}

// monC10 transcribes C10 on the implementation's outputs.
func monC10(op J, res any) (viol []Violation, nontrivial bool) {
	name := jStr(op["op"])
	r := jObj(res)
	bad := func(sig, d string) { viol = append(viol, Violation{Sig: "C10/" + sig, Desc: d, Op: op, Res: res}) }
	if r["panic"] != nil {
		bad("panic", "outcome codec panicked")
		return
	}
	if r["harness-error"] != nil {
		bad("harness-error", fmt.Sprint(r["harness-error"]))
		return
	}
	ver := 1
	if len(name) > 9 && name[9] == '0' {
		ver = 0
	}
	if jBool(r["_clobbered"]) {
		bad("encoding-clobbered", "the bytes returned by Encode changed when other outcomes were encoded afterwards")
		return viol, true
	}
	switch name[11:] {
	case "encode":
		o := op["outcome"]
		want := normalise(outcomeJ(jOutcome(o))).(map[string]any)
		nontrivial = len(jArr(want["defs"])) >= 2 || len(jArr(want["va"])) >= 2 || len(jArr(want["aggs"])) >= 2
		// when must Encode fail?
		mustFail := false
		maxDepth := 0
		for _, e := range jArr(want["aggs"]) {
			if d := cdcSVDepth(jget(e, "v")); d > maxDepth {
				maxDepth = d
			}
		}
		if ver == 0 {
			if jBig(want["ts"]).Cmp(big.NewInt(math.MaxInt64)) > 0 {
				mustFail = true
			}
			for _, e := range jArr(want["va"]) {
				sec := new(big.Int).Div(jBig(jget(e, "va")), big.NewInt(1e9))
				if sec.Cmp(big.NewInt(math.MaxUint32)) > 0 {
					mustFail = true
				}
				e.(map[string]any)["va"] = new(big.Int).Mul(sec, big.NewInt(1e9)).String()
			}
		}
		if r["err"] != nil {
			if !mustFail {
				bad("encode-rejected", "Encode failed on an encodable outcome: "+fmt.Sprint(r["_msg"]))
			}
			return
		}
		if mustFail {
			bad("encode-accepted", "v0 Encode accepted a validity start / timestamp it cannot represent")
			return
		}
		if jInt(r["_distinct"]) != 1 || jInt(r["_shuffle_errs"]) != 0 {
			bad("not-canonical", fmt.Sprintf("the same outcome built in shuffled insertion orders encoded to %v distinct byte strings", r["_distinct"]))
		}
		if maxDepth > 2 {
			if r["_rt_err"] == nil {
				bad("deep-nesting-decoded", "a timestamped value nested deeper than the limit decoded")
			}
			return
		}
		if r["_rt_err"] != nil {
			bad("roundtrip-error", "Decode(Encode(o)) failed: "+fmt.Sprint(r["_rt_err"]))
			return
		}
		if !cdcSame(r["_rt"], want) {
			bad("roundtrip-differs", "Decode(Encode(o)) differs from o")
		}
	case "reencode":
		nontrivial = true
		if r["ok"] != nil && !jBool(r["_same"]) {
			bad("reencode-differs", "Encode(Decode(Encode(o))) differs from Encode(o)")
		}
	case "decode":
		nontrivial = true
		m := op["msg"]
		mustFail := false
		for _, e := range jArr(jget(m, "defs")) {
			if jget(e, "def") == nil {
				mustFail = true
			}
		}
		for _, e := range jArr(jget(m, "aggs")) {
			sv := jget(e, "sv")
			if sv == nil {
				mustFail = true
			} else if t := jBig(jget(sv, "ty")).Int64(); t < 0 || t > 2 {
				mustFail = true
			}
		}
		if ver == 0 && jBig(jget(m, "ts")).Sign() < 0 {
			mustFail = true
		}
		if mustFail && r["ok"] != nil {
			bad("malformed-accepted", "a message with a nil definition / nil or unknown-typed value / negative timestamp decoded")
		}
		if r["ok"] != nil {
			// duplicates: later entries overwrite; result ids are distinct
			seen := map[string]bool{}
			for _, e := range jArr(jget(r["ok"], "defs")) {
				k := jStr(jget(e, "id"))
				if seen[k] {
					bad("duplicate-key", "decoded outcome lists a channel twice")
				}
				seen[k] = true
			}
			last := map[string]any{}
			for _, e := range jArr(jget(m, "defs")) {
				last[jBig(jget(e, "id")).String()] = jget(e, "def")
			}
			for _, e := range jArr(jget(r["ok"], "defs")) {
				if !cdcSame(last[jStr(jget(e, "id"))], jget(e, "def")) {
					bad("duplicate-not-last", "decoded definition is not the last one listed for its channel")
				}
			}
			if len(last) != len(jArr(jget(r["ok"], "defs"))) {
				bad("decode-lost-channel", "decoded outcome does not have exactly the channels of the message")
			}
		}
	case "decodebytes":
		nontrivial = true
		if r["ok"] != nil {
			if r["_reencode_err"] != nil {
				bad("decoded-not-encodable", "an outcome decoded from bytes cannot be encoded / decoded again: "+fmt.Sprint(r["_reencode_err"]))
			} else if !jBool(r["_stable"]) {
				bad("decoded-not-stable", "Encode∘Decode is not stable on an outcome decoded from bytes")
			}
		}
	}
	return
}

var _ = sort.Ints
