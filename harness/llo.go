package main

import (
	"bytes"
	"math/big"
	"context"
	"encoding/json"
	"errors"
	"fmt"
	"sync"
	"time"

	"github.com/smartcontractkit/libocr/commontypes"
	"github.com/smartcontractkit/libocr/offchainreporting2/types"
	"github.com/smartcontractkit/libocr/offchainreporting2plus/ocr3types"

	"github.com/smartcontractkit/chainlink-common/pkg/logger"
	llotypes "github.com/smartcontractkit/chainlink-common/pkg/types/llo"

	"github.com/smartcontractkit/chainlink-data-streams/llo"
	"github.com/smartcontractkit/chainlink-data-streams/llo/reportcodecs/evm"
)

// ---------- collaborators ----------

type hCache struct {
	mu      sync.Mutex
	table   map[string]llo.RetirementReport // attested bytes -> report
	mine    []byte                          // what AttestedRetirementReport returns
	mineErr error
	digest  types.ConfigDigest // the configured predecessor: the only digest this cache answers for
}

func (c *hCache) AttestedRetirementReport(d types.ConfigDigest) ([]byte, error) {
	if d != c.digest {
		return nil, errors.New("retirement report requested for a digest that is not the configured predecessor")
	}
	return c.mine, c.mineErr
}
func (c *hCache) CheckAttestedRetirementReport(d types.ConfigDigest, b []byte) (llo.RetirementReport, error) {
	c.mu.Lock()
	defer c.mu.Unlock()
	if d == otherDigest && len(b) == 3 && b[0] == 0xBA && b[1] == 0xD0 {
		// the tokens the generators use as forgeries ARE valid attestations — of another instance (otherDigest), whose
		// digest the host writes into the configuration buffer once this plugin has been built
		return llo.RetirementReport{ProtocolVersion: 0}, nil
	}
	if d != c.digest {
		// attestations are checked against the signers of ONE predecessor: the configured one
		return llo.RetirementReport{}, errors.New("attestation checked against a digest that is not the configured predecessor")
	}
	rr, ok := c.table[string(b)]
	if !ok {
		return llo.RetirementReport{}, errors.New("invalid attestation")
	}
	// a fresh copy on every call (see DESIGN 2.7: injected collaborators behave like production ones)
	cp := llo.RetirementReport{ProtocolVersion: rr.ProtocolVersion}
	if len(rr.ValidAfterNanoseconds) > 0 {
		cp.ValidAfterNanoseconds = map[llotypes.ChannelID]uint64{}
		for k, v := range rr.ValidAfterNanoseconds {
			cp.ValidAfterNanoseconds[k] = v
		}
	}
	return cp, nil
}

type hShouldRetire struct {
	v   bool
	err error
}

func (s *hShouldRetire) ShouldRetire(types.ConfigDigest) (bool, error) { return s.v, s.err }

type hDefCache struct{ defs llotypes.ChannelDefinitions }

func (d *hDefCache) Definitions() llotypes.ChannelDefinitions { return d.defs }

type hDataSource struct {
	vals   llo.StreamValues
	err    error
	called bool
	asked  []uint32 // the keys the plugin pre-populated
}

func (d *hDataSource) Observe(_ context.Context, sv llo.StreamValues, _ llo.DSOpts) error {
	d.called = true
	d.asked = d.asked[:0]
	for id := range sv {
		d.asked = append(d.asked, id)
	}
	if d.err != nil {
		return d.err
	}
	for id := range sv {
		if v, ok := d.vals[id]; ok {
			sv[id] = v
		}
	}
	return nil
}

// hReportCodec serialises the Report struct it is handed, so that the harness can read back
// exactly what the plugin produced.  It can be told to fail for given channels / reject given opts.
type hReportCodec struct {
	failChannels map[uint32]bool
	badOpts      map[string]bool
	// strict: refuse a report that lacks a value, as every real report codec does (JSON: NewTypedTextStreamValue(nil),
	// EVM: ExtractReportValues / buildPayload); otherwise the report is recorded with the gap in it
	strict bool
}

type recordedReport struct {
	Kind       string `json:"kind"`
	Channel    string `json:"channel"`
	SeqNr      string `json:"seqNr"`
	ValidAfter string `json:"validAfter"`
	ObsTs      string `json:"obsTs"`
	Specimen   bool   `json:"specimen"`
	Values     []any  `json:"values"`
}

func (c *hReportCodec) Encode(r llo.Report, cd llotypes.ChannelDefinition) ([]byte, error) {
	if c.failChannels[r.ChannelID] {
		return nil, errors.New("codec refuses this channel")
	}
	if c.strict && cd.ReportFormat == llotypes.ReportFormatJSON {
		// the real JSON codec decides whether this report can be encoded at all
		if _, err := (llo.JSONReportCodec{}).Encode(r, cd); err != nil {
			return nil, err
		}
	}
	vals := make([]any, len(r.Values))
	for i, v := range r.Values {
		if v == nil && c.strict {
			return nil, errors.New("codec refuses a report with a missing value")
		}
		vals[i] = svJ(v)
	}
	rec := J{"kind": "channel", "channel": S(r.ChannelID), "seqNr": S(r.SeqNr), "validAfter": S(r.ValidAfterNanoseconds),
		"obsTs": S(r.ObservationTimestampNanoseconds), "specimen": r.Specimen, "values": vals}
	if c.strict && cd.ReportFormat == llotypes.ReportFormatEVMPremiumLegacy && bytes.HasPrefix(cd.Opts, []byte(`{"baseUSDFee"`)) && !r.Specimen {
		// a well-formed premium-legacy channel (the directed histories): what the REAL codec puts on chain for this
		// report, read back word by word (feed id, validFromTimestamp, observationsTimestamp, …) — the on-chain
		// window.  Extra information for the monitor only: whether the recording codec succeeds never depends on it.
		if b, err := evm.NewReportCodecPremiumLegacy(logger.Nop(), 1).Encode(r, cd); err == nil && len(b) >= 96 {
			rec["_onchain"] = J{"validFrom": new(big.Int).SetBytes(b[32:64]).String(), "obsTs": new(big.Int).SetBytes(b[64:96]).String()}
		} else if err != nil {
			rec["_onchain_err"] = err.Error()
		}
	}
	return marshal(rec), nil
}
func (c *hReportCodec) Verify(cd llotypes.ChannelDefinition) error {
	if c.badOpts[string(cd.Opts)] {
		return errors.New("bad opts")
	}
	return nil
}

// ---------- plugin construction through the real factory ----------

type hPlugin struct {
	prevBuf []byte // the host's buffer for PreviousOutcome
	// retirement-report bytes returned by Reports() of this plugin, with copies taken at once
	heldRR     [][]byte
	heldRRCopy []string
	p      *llo.Plugin
	cache  *hCache
	retire *hShouldRetire
	defs   *hDefCache
	ds     *hDataSource
	codec  *hReportCodec
}

var predDigest = types.ConfigDigest{0xaa, 1, 2, 3}
var predDigest2 = types.ConfigDigest{0xaa, 4, 5, 6}
var ownDigest = types.ConfigDigest{0xbb, 9, 9, 9}
var otherDigest = types.ConfigDigest{0xcc, 7, 7, 7} // predecessor of some other instance on the same host

type hCfg struct {
	F           int
	Version     uint32
	MinInterval uint64
	HasPred     bool
	Verbose     bool
	Pred2       bool
}

func jCfg(v any) hCfg {
	return hCfg{F: jInt(jget(v, "f")), Version: jU32(jget(v, "version")), MinInterval: jU64(jget(v, "minInterval")), HasPred: jBool(jget(v, "hasPred")), Verbose: jBool(jget(v, "verbose")), Pred2: jBool(jget(v, "pred2"))}
}

var allFormats = []llotypes.ReportFormat{1, 2, 3, 4, 5, 6, 7, 8, 9, 10, 11, 12, 42}

// newPlugin builds a plugin via the real factory.  Invalid offchain configs are rejected by the
// factory; in that case err is returned.
func newPlugin(c hCfg, missingFormats map[uint32]bool, telemetry bool) (*hPlugin, error) {
	hp := &hPlugin{cache: &hCache{table: map[string]llo.RetirementReport{}}, retire: &hShouldRetire{}, defs: &hDefCache{}, ds: &hDataSource{},
		codec: &hReportCodec{failChannels: map[uint32]bool{}, badOpts: map[string]bool{}}}
	codecs := map[llotypes.ReportFormat]llo.ReportCodec{}
	for _, f := range allFormats {
		if !missingFormats[uint32(f)] {
			codecs[f] = hp.codec
		}
	}
	oc := llo.OnchainConfig{Version: 1}
	if c.HasPred {
		d := predDigest
		if c.Pred2 {
			d = predDigest2
		}
		hp.cache.digest = d
		oc.PredecessorConfigDigest = &d
	}
	ocb, err := llo.EVMOnchainConfigCodec{}.Encode(oc)
	if err != nil {
		return nil, err
	}
	offb, err := llo.OffchainConfig{ProtocolVersion: c.Version, DefaultMinReportIntervalNanoseconds: c.MinInterval}.Encode()
	if err != nil {
		return nil, err
	}
	params := llo.PluginFactoryParams{
		Config:                           llo.Config{VerboseLogging: c.Verbose},
		PredecessorRetirementReportCache: hp.cache,
		ShouldRetireCache:                hp.retire,
		RetirementReportCodec:            llo.StandardRetirementReportCodec{},
		ChannelDefinitionCache:           hp.defs,
		DataSource:                       hp.ds,
		Logger:                           logger.Nop(),
		OnchainConfigCodec:               llo.EVMOnchainConfigCodec{},
		ReportCodecs:                     codecs,
	}
	if telemetry {
		och := make(chan *llo.LLOOutcomeTelemetry, 1)
		rch := make(chan *llo.LLOReportTelemetry, 1)
		params.OutcomeTelemetryCh, params.ReportTelemetryCh = och, rch
	}
	f := llo.NewPluginFactory(params)
	rp, _, err := f.NewReportingPlugin(context.Background(), ocr3types.ReportingPluginConfig{
		ConfigDigest: ownDigest, N: 3*c.F + 1, F: c.F, OnchainConfig: ocb, OffchainConfig: offb, MaxDurationObservation: time.Second})
	if err != nil {
		return nil, err
	}
	hp.p = rp.(*llo.Plugin)
	// the host reuses its configuration buffers once the plugin is built: nothing in the plugin may still point into them
	for i := range ocb {
		ocb[i] ^= 0x5a
	}
	if len(ocb) >= 64 {
		copy(ocb[32:64], otherDigest[:]) // the next instance's configuration: same layout, another predecessor
	}
	for i := range offb {
		offb[i] ^= 0x5a
	}
	return hp, nil
}

// longLivedPlugin returns the plugin instance of this configuration that lives as long as the process.
var longLived = map[string]*hPlugin{}
var longLivedMu sync.Mutex

func longLivedPlugin(c hCfg, telemetry bool) (*hPlugin, error) {
	key := fmt.Sprintf("%+v|%v", c, telemetry)
	if hp, ok := longLived[key]; ok {
		return hp, nil
	}
	hp, err := newPlugin(c, nil, telemetry)
	if err != nil {
		return nil, err
	}
	longLived[key] = hp
	return hp, nil
}

func (hp *hPlugin) loadAttestations(v any) {
	for _, e := range jArr(v) {
		rr := jget(e, "rr")
		hp.cache.table[string(jBytes(jget(e, "bytes")))] = llo.RetirementReport{ProtocolVersion: jU32(jget(rr, "version")), ValidAfterNanoseconds: jVA(jget(rr, "va"))}
	}
}

// encodeObs turns the op's observation list into attributed observations.  Structured observations
// are encoded with the real codec; {"invalid":true,"raw":hex} entries are passed through raw.
func (hp *hPlugin) encodeObs(v any) ([]types.AttributedObservation, error) {
	var aos []types.AttributedObservation
	for i, e := range jArr(v) {
		var b []byte
		if jBool(jObj(e)["invalid"]) {
			b = jBytes(jget(e, "raw"))
		} else {
			var err error
			b, err = hp.p.ObservationCodec.Encode(jObs(e))
			if err != nil {
				return nil, fmt.Errorf("harness: cannot encode observation %d: %w", i, err)
			}
		}
		aos = append(aos, types.AttributedObservation{Observation: b, Observer: commontypes.OracleID(i)})
	}
	return aos, nil
}

var outcomeErrClasses = [][2]string{
	{"expected at least 2f+1", "too-few-observations"},
	{"error decoding previous outcome", "decode-prev"},
	{"no valid observations", "no-valid-observations"},
	{"no aggregator function defined", "no-aggregator"},
	{"cannot marshal protobuf", "encode"},
	{"valid after seconds too large", "encode"},
	{"observation timestamp too large", "encode"},
}

// callOutcome: previous outcome (structured) -> real codec bytes -> Outcome() -> decoded result
func (hp *hPlugin) callOutcome(seqNr uint64, prev llo.Outcome, aos []types.AttributedObservation) (llo.Outcome, []byte, J) {
	var prevB []byte
	if seqNr > 1 {
		enc, err := hp.p.OutcomeCodec.Encode(prev)
		if err != nil {
			return llo.Outcome{}, nil, resErr("encode-prev", err)
		}
		// the node hands the previous outcome over in ONE buffer per plugin that it overwrites in place each round
		// (a plugin that remembers the slice it was given, not a copy, then compares the buffer with itself)
		hp.prevBuf = append(hp.prevBuf[:0], enc...)
		prevB = hp.prevBuf
	}
	outB, err := hp.p.Outcome(context.Background(), ocr3types.OutcomeContext{SeqNr: seqNr, PreviousOutcome: prevB}, nil, aos)
	if err != nil {
		return llo.Outcome{}, nil, resErr(errClass(err, outcomeErrClasses...), err)
	}
	// … and the agreed outcome of this round is written to that same buffer; everything after (decoding it, Reports(),
	// the next round) reads it from there
	hp.prevBuf = append(hp.prevBuf[:0], outB...)
	outB = hp.prevBuf
	o, err := hp.p.OutcomeCodec.Decode(outB)
	if err != nil {
		return llo.Outcome{}, nil, resErr("decode-result", err)
	}
	// The monitors judge decoded outcomes; so what the repository's decoder hands out must be everything the bytes
	// hold.  Counted against the generated protobuf message, read here without the repository's decode helpers.
	if msg, merr := cdcOutcomeMsgJ(int(hp.p.ProtocolVersion), outB); merr == nil {
		nAggs := 0
		for _, m := range o.StreamAggregates {
			nAggs += len(m)
		}
		if len(jArr(msg["aggs"])) != nAggs || len(jArr(msg["defs"])) != len(o.ChannelDefinitions) || len(jArr(msg["va"])) != len(o.ValidAfterNanoseconds) ||
			jStr(msg["stage"]) != string(o.LifeCycleStage) {
			return llo.Outcome{}, nil, J{"ok": nil, "_inconsistent": fmt.Sprintf("the outcome bytes hold %d aggregates, %d definitions, %d validity starts, stage %q; the decoder returns %d, %d, %d, %q",
				len(jArr(msg["aggs"])), len(jArr(msg["defs"])), len(jArr(msg["va"])), jStr(msg["stage"]), nAggs, len(o.ChannelDefinitions), len(o.ValidAfterNanoseconds), o.LifeCycleStage)}
		}
	}
	return o, outB, nil
}

func reportsJ(rs []ocr3types.ReportPlus[llotypes.ReportInfo]) ([]any, error) {
	out := []any{}
	for _, r := range rs {
		info := r.ReportWithInfo.Info
		if info.ReportFormat == llotypes.ReportFormatRetirement {
			rr, err := llo.StandardRetirementReportCodec{}.Decode(r.ReportWithInfo.Report)
			if err != nil {
				return nil, err
			}
			out = append(out, J{"kind": "retirement", "version": S(rr.ProtocolVersion), "va": vaJ(rr.ValidAfterNanoseconds)})
			continue
		}
		var m map[string]any
		d := json.NewDecoder(bytesReader(r.ReportWithInfo.Report))
		d.UseNumber()
		if err := d.Decode(&m); err != nil {
			return nil, err
		}
		m["format"] = S(uint32(info.ReportFormat))
		m["stage"] = string(info.LifeCycleStage)
		out = append(out, m)
	}
	return out, nil
}

func rawReports(rs []ocr3types.ReportPlus[llotypes.ReportInfo]) string {
	s := ""
	for _, r := range rs {
		s += hexs(r.ReportWithInfo.Report) + ":" + string(r.ReportWithInfo.Info.LifeCycleStage) + ":" + S(uint32(r.ReportWithInfo.Info.ReportFormat)) + ","
	}
	return s
}

func init() {
	RegOp("llo.hash", func(in J) any {
		in = normalise(in).(map[string]any)
		h := llo.MakeChannelHash(llo.ChannelDefinitionWithID{ChannelDefinition: jChanDef(in["def"]), ChannelID: jU32(in["id"])})
		return resOK(hexs(h[:]))
	})
	RegOp("llo.reportable", func(in J) any {
		in = normalise(in).(map[string]any)
		c := jCfg(in["cfg"])
		o := jOutcome(in["outcome"])
		e := o.IsReportable(jU32(in["channel"]), c.Version, c.MinInterval)
		if e == nil {
			return resOK("reportable")
		}
		return resOK(errClass(e, [2]string{"retired channel", "retired"}, [2]string{"no channel definition", "no-def"},
			[2]string{"no ValidAfterNanoseconds entry", "no-va"}, [2]string{"until reportable", "too-soon"},
			[2]string{"observationsTimestampSeconds", "same-second"}))
	})
	RegOp("llo.outcome", func(in J) any {
		in = normalise(in).(map[string]any)
		hp, err := newPlugin(jCfg(in["cfg"]), nil, jBool(in["telemetry"]))
		if err != nil {
			return resErr("factory", err)
		}
		hp.loadAttestations(in["attestations"])
		aos, err := hp.encodeObs(in["obs"])
		if err != nil {
			return J{"harness-error": err.Error()}
		}
		o, ob, e := hp.callOutcome(jU64(in["seqNr"]), jOutcome(in["prev"]), aos)
		// the same call on the node that has been running since the start of the run (one long-lived plugin per
		// configuration, thousands of calls old): Outcome is a function of its arguments, so both must agree
		if !inConcurrent.Load() { // (not in the concurrent phase: the one instance would serialise it)
			differs := func() bool {
				longLivedMu.Lock() // OCR3 never runs two Outcome() calls of one instance at the same time
				defer longLivedMu.Unlock()
				lived, lerr := longLivedPlugin(jCfg(in["cfg"]), jBool(in["telemetry"]))
				if lerr != nil {
					return false
				}
				lived.cache.table = map[string]llo.RetirementReport{}
				lived.loadAttestations(in["attestations"])
				_, lob, le := lived.callOutcome(jU64(in["seqNr"]), jOutcome(in["prev"]), aos)
				return (e == nil) != (le == nil) || !bytes.Equal(ob, lob) || (e != nil && jStr(e["err"]) != jStr(le["err"]))
			}()
			if differs {
				return J{"ok": nil, "_clobbered": true, "_clobbered_by": "Outcome() on the plugin instance that has served the whole run differs from Outcome() on a freshly built one (state kept between calls)"}
			}
		}
		if e != nil {
			return e
		}
		return J{"ok": outcomeJ(o), "_bytes": hexs(ob)}
	})
	RegOp("llo.reports", func(in J) any {
		in = normalise(in).(map[string]any)
		mf := map[uint32]bool{}
		for _, f := range jArr(in["missingFormats"]) {
			mf[jU32(f)] = true
		}
		hp, err := newPlugin(jCfg(in["cfg"]), mf, jBool(in["telemetry"]))
		if err != nil {
			return resErr("factory", err)
		}
		for _, c := range jArr(in["failChannels"]) {
			hp.codec.failChannels[jU32(c)] = true
		}
		ob, err := hp.p.OutcomeCodec.Encode(jOutcome(in["outcome"]))
		if err != nil {
			return resErr("encode-outcome", err)
		}
		rs, err := hp.p.Reports(context.Background(), jU64(in["seqNr"]), ob)
		if err != nil {
			return resErr("reports", err)
		}
		out, err := reportsJ(rs)
		if err != nil {
			return J{"harness-error": err.Error()}
		}
		return J{"ok": out, "_bytes": rawReports(rs)}
	})
	RegOp("llo.observe", func(in J) any {
		in = normalise(in).(map[string]any)
		hp, err := newPlugin(hCfg{F: 1, Version: 1, MinInterval: 1}, nil, false)
		if err != nil {
			return resErr("factory", err)
		}
		for _, b := range jArr(in["badOpts"]) {
			hp.codec.badOpts[string(jBytes(b))] = true
		}
		hp.defs.defs = jDefs(in["expected"])
		if hp.defs.defs == nil {
			hp.defs.defs = llotypes.ChannelDefinitions{}
		}
		prev := jOutcome(in["prev"])
		pb, err := hp.p.OutcomeCodec.Encode(prev)
		if err != nil {
			return resErr("encode-prev", err)
		}
		ob, err := hp.p.Observation(context.Background(), ocr3types.OutcomeContext{SeqNr: 5, PreviousOutcome: pb}, nil)
		if err != nil {
			return resErr(errClass(err, [2]string{"previousOutcome.Definitions is invalid", "refuse"}), err)
		}
		o, err := hp.p.ObservationCodec.Decode(ob)
		if err != nil {
			return resErr("decode-own", err)
		}
		oj := obsJ(o)
		return resOK(J{"removes": oj["removes"], "updates": oj["updates"]})
	})
	RegOp("llo.history", opHistory)
}

// opHistory threads Outcome/Reports through the rounds of the op on ONE plugin instance.
func opHistory(in J) any {
	in = normalise(in).(map[string]any)
	mf := map[uint32]bool{}
	for _, f := range jArr(in["missingFormats"]) {
		mf[jU32(f)] = true
	}
	hp, err := newPlugin(jCfg(in["cfg"]), mf, jBool(in["telemetry"]))
	if err != nil {
		return resErr("factory", err)
	}
	hp.loadAttestations(in["attestations"])
	hp.codec.strict = jBool(in["strictCodec"])
	var cur llo.Outcome
	if in["start"] != nil {
		b, err := hp.p.OutcomeCodec.Encode(jOutcome(in["start"]))
		if err != nil {
			return resErr("encode-start", err)
		}
		cur, err = hp.p.OutcomeCodec.Decode(b)
		if err != nil {
			return J{"harness-error": err.Error()}
		}
	} else {
		o, _, e := hp.callOutcome(1, llo.Outcome{}, make([]types.AttributedObservation, 2*hp.p.F+1))
		if e != nil {
			return e
		}
		cur = o
	}
	seq := jU64(in["startSeqNr"])
	outs := []any{}
	for _, r := range jArr(in["rounds"]) {
		seq++
		aos, err := hp.encodeObs(jget(r, "obs"))
		if err != nil {
			return J{"harness-error": err.Error()}
		}
		func() {
			defer func() {
				if rec := recover(); rec != nil {
					outs = append(outs, J{"panic": true, "panic_msg": fmt.Sprint(rec)})
				}
			}()
			o, ob, e := hp.callOutcome(seq, cur, aos)
			if e != nil {
				outs = append(outs, e)
				return
			}
			rs, err := hp.p.Reports(context.Background(), seq, ob)
			if err != nil {
				// the outcome stands (it was agreed before Reports ran); the round merely transmits nothing
				cur = o
				outs = append(outs, J{"outcome": outcomeJ(o), "reports": []any{}, "reportsFailed": true, "_reports_err": err.Error(), "_bytes": hexs(ob) + "|"})
				return
			}
			rj, err := reportsJ(rs)
			if err != nil {
				outs = append(outs, J{"harness-error": err.Error()})
				return
			}
			cur = o
			outs = append(outs, J{"outcome": outcomeJ(o), "reports": rj, "_bytes": hexs(ob) + "|" + rawReports(rs)})
		}()
	}
	return resOK(outs)
}
