package main

import (
	"context"
	"fmt"
	"strings"

	"github.com/smartcontractkit/libocr/commontypes"
	"github.com/smartcontractkit/libocr/offchainreporting2/types"
	"github.com/smartcontractkit/libocr/offchainreporting2plus/ocr3types"

	llotypes "github.com/smartcontractkit/chainlink-common/pkg/types/llo"

)

// llo.converge: correct nodes share one ChannelDefinitionCache holding `target`; each round every
// correct node produces its observation with the REAL Observation(), it is re-stamped with the
// round's timestamp, validated by the real ValidateObservation, mixed with the given faulty
// observations and fed to Outcome().
func init() {
	RegOp("llo.converge", func(in J) any {
		in = normalise(in).(map[string]any)
		hp, err := newPlugin(jCfg(in["cfg"]), nil, false)
		if err != nil {
			return resErr("factory", err)
		}
		for _, b := range jArr(in["badOpts"]) {
			hp.codec.badOpts[string(jBytes(b))] = true
		}
		hp.defs.defs = jDefs(in["target"])
		if hp.defs.defs == nil {
			hp.defs.defs = llotypes.ChannelDefinitions{}
		}
		b, err := hp.p.OutcomeCodec.Encode(jOutcome(in["start"]))
		if err != nil {
			return resErr("encode-start", err)
		}
		cur, err := hp.p.OutcomeCodec.Decode(b)
		if err != nil {
			return J{"harness-error": err.Error()}
		}
		wire := append(make([]byte, 0, 1<<16), b...)
		curB := wire
		outs := []any{}
		seq := uint64(10)
		// optional quiet period first: rounds in which the definitions the nodes see ARE the outcome's (nothing to vote
		// for), on the same plugin instance — a node that has been running for a while before the definitions change
		if in["quietRounds"] != nil && jInt(in["quietRounds"]) > 0 {
			q := jInt(in["quietRounds"])
			hp.defs.defs = jDefs(jget(in["start"], "defs"))
			for i := 0; i < q; i++ {
				seq++
				outctx := ocr3types.OutcomeContext{SeqNr: seq, PreviousOutcome: curB}
				ob, err := hp.p.Observation(context.Background(), outctx, nil)
				if err != nil {
					return J{"harness-error": "quiet round: " + err.Error()}
				}
				var aos []types.AttributedObservation
				for k := 0; k < 2*hp.p.F+1; k++ {
					aos = append(aos, types.AttributedObservation{Observation: ob, Observer: commontypes.OracleID(k)})
				}
				outB, err := hp.p.Outcome(context.Background(), outctx, nil, aos)
				if err != nil {
					return J{"harness-error": "quiet round: " + err.Error()}
				}
				wire = append(wire[:0], outB...)
				curB = wire
			}
			hp.defs.defs = jDefs(in["target"])
		}
		for _, r := range jArr(in["rounds"]) {
			seq++
			outctx := ocr3types.OutcomeContext{SeqNr: seq, PreviousOutcome: curB}
			ob, err := hp.p.Observation(context.Background(), outctx, nil)
			if err != nil {
				outs = append(outs, resErr(errClass(err, [2]string{"previousOutcome.Definitions is invalid", "refuse"}), err))
				continue
			}
			undecodable := ""
			hb := ob
			dec, err := hp.p.ObservationCodec.Decode(ob)
			if err != nil {
				// what a correct node produced is refused by the decoder every correct node uses: the round goes on
				// without the correct observations (and is judged accordingly)
				undecodable = "the observation a correct node produced does not decode: " + err.Error()
			} else {
				dec.UnixTimestampNanoseconds = jU64(jget(r, "ts"))
				hb, err = hp.p.ObservationCodec.Encode(dec)
				if err != nil {
					return J{"harness-error": err.Error()}
				}
			}
			nh := jInt(jget(r, "nHonest"))
			faulty, err := hp.encodeObs(jget(r, "faulty"))
			if err != nil {
				return J{"harness-error": err.Error()}
			}
			// every node validates every observation (the faulty ones first: what a rejected observation leaves
			// behind must not affect the verdict on the next one); only accepted observations reach Outcome
			var keptFaulty []types.AttributedObservation
			var faultyRejected []any
			for i, f := range faulty {
				f.Observer = commontypes.OracleID(nh + i)
				if verr := hp.p.ValidateObservation(context.Background(), outctx, nil, f); verr == nil {
					keptFaulty = append(keptFaulty, f)
				} else {
					faultyRejected = append(faultyRejected, firstLines(verr.Error(), 2))
				}
			}
			rejected := undecodable
			if verr := hp.p.ValidateObservation(context.Background(), outctx, nil, types.AttributedObservation{Observation: hb, Observer: 0}); verr != nil {
				rejected = verr.Error()
			}
			var aos []types.AttributedObservation
			for i := 0; i < nh; i++ {
				aos = append(aos, types.AttributedObservation{Observation: hb, Observer: commontypes.OracleID(i)})
			}
			aos = append(aos, keptFaulty...)
			outB, err := hp.p.Outcome(context.Background(), outctx, nil, aos)
			if err != nil {
				e := resErr(errClass(err, outcomeErrClasses...), err)
				e["_faulty_rejected"] = faultyRejected
				if rejected != "" {
					e["_honest_rejected"] = rejected
				}
				outs = append(outs, e)
				continue
			}
			// the node keeps the agreed outcome in ONE buffer that it overwrites in place every round
			wire = append(wire[:0], outB...)
			outB = wire
			o, err := hp.p.OutcomeCodec.Decode(outB)
			if err != nil {
				return J{"harness-error": err.Error()}
			}
			cur, curB = o, outB
			oj := obsJ(dec)
			res := J{"defs": defsJ(cur.ChannelDefinitions), "stage": string(cur.LifeCycleStage), "votes": J{"removes": oj["removes"], "updates": oj["updates"]}}
			if rejected != "" {
				res["_honest_rejected"] = rejected
			}
			outs = append(outs, res)
		}
		return resOK(outs)
	})
	RegGen("C14", "convergence scripts: start outcome with a valid channel set S, shared target set T (removals, additions, in-place replacements, overlapping stream sets, sizes up to the 2000 cap in the thorough tier), >= f+1 correct observers voting through the real Observation(), up to f faulty observers voting arbitrary valid removals/updates each round, bound+3 rounds; non-trivial = S != T; distinct = different op line", genC14)
	RegMonitor("C14", monC14)
}

func (w *world) smallDef(streamBase, n int) J {
	st := make([]any, n)
	for i := range st {
		st[i] = J{"sid": S(streamBase + i), "agg": S(1 + w.g.R.Intn(3))}
	}
	return J{"format": S(formatsPool[w.g.R.Intn(len(formatsPool))]), "streams": st, "opts": ""}
}

func genC14(g *G) {
	emit := func(w *world, start, target map[int]J, tag string) {
		toRm, toUpd := 0, 0
		for id := range start {
			if _, ok := target[id]; !ok {
				toRm++
			}
		}
		for id, d := range target {
			if s, ok := start[id]; !ok || canon(s) != canon(d) {
				toUpd++
			}
		}
		bound := (max(toRm, toUpd) + 4) / 5
		mk := func(m map[int]J) []any {
			ids := make([]int, 0, len(m))
			for id := range m {
				ids = append(ids, id)
			}
			sortInts(ids)
			out := make([]any, len(ids))
			for i, id := range ids {
				out[i] = J{"id": S(id), "def": m[id]}
			}
			return out
		}
		nh := w.f + 1 + g.R.Intn(w.f+1)
		var rounds []any
		for r := 0; r < bound+3; r++ {
			w.advance()
			nf := g.R.Intn(w.f + 1)
			if nh+nf < 2*w.f+1 {
				nf = 2*w.f + 1 - nh
				if nf > w.f {
					nh += nf - w.f
					nf = w.f
				}
			}
			var faulty []any
			nhRound := nh
			for k := 0; k < nf; k++ {
				o := J{"retire": false, "attested": "", "ts": S(w.now + uint64(g.R.Intn(1000))), "values": []any{}}
				rm := []any{}
				seen := map[int]bool{}
				for j := g.R.Intn(6); j > 0; j-- {
					id := 1 + g.R.Intn(40)
					if !seen[id] {
						seen[id] = true
						rm = append(rm, S(id))
					}
				}
				upd := []any{}
				seenU := map[int]bool{}
				for j := g.R.Intn(6); j > 0; j-- {
					id := 1 + g.R.Intn(40)
					if !seenU[id] {
						seenU[id] = true
						upd = append(upd, J{"id": S(id), "def": w.smallDef(1+g.R.Intn(50), 1+g.R.Intn(2))})
					}
				}
				if g.R.Intn(3) == 0 && len(target) > 0 {
					// a faulty observer mimics the correct votes: the same channel ids and definitions, except that
					// one stream's aggregator (or id) is replaced by a value with the same low bits
					tids := make([]int, 0, len(target))
					for id := range target {
						tids = append(tids, id)
					}
					sortInts(tids)
					upd = []any{}
					for _, id := range tids {
						if len(upd) >= 5 {
							break
						}
						if _, ok := start[id]; ok && g.R.Intn(3) != 0 {
							continue
						}
						cp := normalise(target[id]).(map[string]any)
						sts := jArr(cp["streams"])
						if len(sts) == 0 {
							continue
						}
						st0 := jObj(sts[0])
						if g.R.Intn(2) == 0 {
							st0["agg"] = S(jInt(st0["agg"]) + 256)
						} else {
							st0["sid"] = S(jInt(st0["sid"]) + 1<<24)
						}
						upd = append(upd, J{"id": S(id), "def": cp})
					}
				}
				if g.R.Intn(25) == 0 {
					// malformed and stream-heavy: two definitions with thousands of streams and one with none — rejected
					// by every correct node, and it must leave nothing behind
					bigDef := func(base int) J {
						st := make([]any, 6000)
						for i := range st {
							st[i] = J{"sid": S(base + i), "agg": "1"}
						}
						return J{"format": "2", "streams": st, "opts": ""}
					}
					upd = []any{J{"id": "900", "def": bigDef(100000)}, J{"id": "901", "def": bigDef(200000)},
						J{"id": "902", "def": J{"format": "2", "streams": []any{}, "opts": ""}}}
					// this observation is rejected: the round still needs 2f+1 accepted ones
					if nhRound < 2*w.f+1 {
						nhRound = 2*w.f + 1
					}
				}
				o["removes"], o["updates"] = rm, upd
				faulty = append(faulty, o)
			}
			rounds = append(rounds, J{"nHonest": nhRound, "ts": S(w.now), "faulty": faulty})
		}
		startVA := []any{}
		if tag == "same-size-in-place-replacement" {
			// steady state: every channel of the start outcome already has its validity start, so that the agreed
			// outcome has the same encoded length before and after the replacements
			for _, e := range mk(start) {
				startVA = append(startVA, J{"id": e.(J)["id"], "va": S(uint64(1_600_000_000_000_000_000))})
			}
		}
		startO := J{"stage": "production", "ts": S(w.now), "defs": mk(start), "va": startVA, "aggs": []any{}}
		if tag == "replacement-after-a-long-quiet-period" {
			// (implementation only: the model starts from the start outcome; the quiet rounds change no definition)
			g.EmitImpl(J{"op": "llo.converge", "cfg": w.cfgJ(), "start": startO, "target": mk(target), "rounds": rounds, "bound": bound, "quietRounds": 133}, tag, "f="+S(w.f), "bound="+S(bound))
			return
		}
		g.Emit(J{"op": "llo.converge", "cfg": w.cfgJ(), "start": startO, "target": mk(target), "rounds": rounds, "bound": bound}, tag, "f="+S(w.f), "bound="+S(bound))
	}
	n := g.N(120, 1500)
	for i := 0; i < n; i++ {
		w := newWorld(g)
		w.hasPred = false
		start, target := map[int]J{}, map[int]J{}
		ns := g.R.Intn(25)
		for k := 0; k < ns; k++ {
			id := 1 + g.R.Intn(40)
			start[id] = w.smallDef(1+g.R.Intn(50), 1+g.R.Intn(3))
		}
		sids := make([]int, 0, len(start))
		for id := range start {
			sids = append(sids, id)
		}
		sortInts(sids)
		for _, id := range sids {
			d := start[id]
			switch g.R.Intn(4) {
			case 0: // removed
			case 1: // replaced in place
				target[id] = w.smallDef(1+g.R.Intn(50), 1+g.R.Intn(3))
			default:
				target[id] = d
			}
		}
		for k := g.R.Intn(20); k > 0; k-- {
			id := 1 + g.R.Intn(60)
			if _, ok := target[id]; !ok {
				target[id] = w.smallDef(1+g.R.Intn(50), 1+g.R.Intn(3))
			}
		}
		emit(w, start, target, "random")
	}
	{
		// F1 witness (known finding): five 1800-stream channels with low ids to add, one 9000-stream
		// channel with a high id to shrink: after round 1 the union has 18000 unique streams
		w := newWorld(g)
		w.hasPred = false
		big := func(base, n int) J {
			st := make([]any, n)
			for i := range st {
				st[i] = J{"sid": S(base + i), "agg": "1"}
			}
			return J{"format": "2", "streams": st, "opts": ""}
		}
		start := map[int]J{100: big(1, 9000)}
		target := map[int]J{100: big(1, 100)}
		for id := 1; id <= 5; id++ {
			target[id] = big(10000+id*2000, 1800)
		}
		emit(w, start, target, "F1-witness")
	}
	{
		// shrinking to the empty target from more than 5 channels (removal votes are limited to 5 per round)
		w := newWorld(g)
		w.hasPred = false
		start := map[int]J{}
		for id := 1; id <= 12; id++ {
			start[id] = w.smallDef(id, 1)
		}
		emit(w, start, map[int]J{}, "to-empty")
	}
	{
		// at the channel cap: 2000 channels, replace 7 and swap 6 for new ids
		w := newWorld(g)
		w.hasPred = false
		start, target := map[int]J{}, map[int]J{}
		for id := 1; id <= 2000; id++ {
			d := w.smallDef(1+id%3000, 1)
			start[id] = d
			target[id] = d
		}
		for id := 1; id <= 7; id++ {
			target[id*100] = w.smallDef(5000+id, 2)
		}
		for id := 1; id <= 6; id++ {
			delete(target, id*7)
			target[3000+id] = w.smallDef(6000+id, 1)
		}
		emit(w, start, target, "cap")
	}
	{
		// a valid target that uses the same 6 000 streams under two aggregators (6 000 unique stream ids,
		// 12 000 (stream, aggregator) pairs): within every limit, must converge like any other
		w := newWorld(g)
		w.hasPred = false
		many := func(agg int) J {
			st := make([]any, 6000)
			for i := range st {
				st[i] = J{"sid": S(i), "agg": S(agg)}
			}
			return J{"format": "2", "streams": st, "opts": ""}
		}
		start := map[int]J{1: w.smallDef(1, 1), 5: w.smallDef(3, 1)}
		target := map[int]J{1: many(1), 2: many(2), 3: w.smallDef(7000, 2)}
		emit(w, start, target, "shared-streams-two-aggregators")
	}
	{
		// eight channels replaced in place by definitions of exactly the same encoded size (two batches of votes):
		// the agreed outcome keeps its length from round to round
		w := newWorld(g)
		w.hasPred = false
		start, target := map[int]J{}, map[int]J{}
		for id := 1; id <= 8; id++ {
			start[id] = J{"format": "2", "streams": []any{J{"sid": S(10 + id), "agg": "1"}}, "opts": ""}
			target[id] = J{"format": "2", "streams": []any{J{"sid": S(30 + id), "agg": "1"}}, "opts": ""}
		}
		emit(w, start, target, "same-size-in-place-replacement")
	}
	{
		// the nodes have agreed on the same definitions for 133 rounds; then six of eight are replaced in place
		w := newWorld(g)
		w.hasPred = false
		start, target := map[int]J{}, map[int]J{}
		for id := 1; id <= 8; id++ {
			start[id] = J{"format": "2", "streams": []any{J{"sid": S(10 + id), "agg": "1"}}, "opts": ""}
			target[id] = start[id]
			if id <= 6 {
				target[id] = J{"format": "2", "streams": []any{J{"sid": S(40 + id), "agg": "1"}, J{"sid": "7", "agg": "2"}}, "opts": "01"}
			}
		}
		emit(w, start, target, "replacement-after-a-long-quiet-period")
	}
	{
		// four wide channels that share almost all their streams: 4 × 2 602 mentions in ONE round's votes (more than
		// any limit on DISTINCT streams), 2 608 distinct streams: within every limit, must converge in one round
		w := newWorld(g)
		w.hasPred = false
		wide := func(k int) J {
			st := make([]any, 0, 2602)
			for i := 1; i <= 2600; i++ {
				st = append(st, J{"sid": S(i), "agg": "1"})
			}
			st = append(st, J{"sid": S(9000 + 2*k), "agg": "1"}, J{"sid": S(9001 + 2*k), "agg": "1"})
			return J{"format": "2", "streams": st, "opts": ""}
		}
		target := map[int]J{}
		for id := 1; id <= 4; id++ {
			target[id] = wide(id)
		}
		emit(w, map[int]J{9: w.smallDef(1, 1)}, target, "overlapping-wide-channels")
	}
	{
		// ten channels whose options are 150 KB each (long ABI schemas): two rounds of five, an agreed outcome of
		// about 1.5 MB — beyond the size limit of an OBSERVATION, far below that of an outcome; must converge
		w := newWorld(g)
		w.hasPred = false
		w.version, w.interval = 1, 1
		target := map[int]J{}
		for id := 1; id <= 10; id++ {
			b := make([]byte, 150_000)
			g.R.Read(b)
			target[id] = J{"format": "2", "streams": []any{J{"sid": S(id), "agg": "1"}}, "opts": hexs(b)}
		}
		emit(w, map[int]J{}, target, "outcome-beyond-one-megabyte")
	}
	for _, below := range []int{0, 3} {
		// rotation at (or just below) the cap: every pending update is a brand-new id, so the additions of a
		// round need the slots freed by the removals of the same round (removals are applied first)
		w := newWorld(g)
		w.hasPred = false
		start, target := map[int]J{}, map[int]J{}
		for id := 1; id <= 2000-below; id++ {
			d := w.smallDef(1+id%3000, 1)
			start[id] = d
			target[id] = d
		}
		for id := 1; id <= 12; id++ {
			delete(target, id*9)
			target[4000+id] = w.smallDef(7000+id, 1)
		}
		emit(w, start, target, "cap-rotation")
	}
}

func sortInts(a []int) {
	for i := 1; i < len(a); i++ {
		for j := i; j > 0 && a[j] < a[j-1]; j-- {
			a[j], a[j-1] = a[j-1], a[j]
		}
	}
}

func monC14(op J, res any) (viol []Violation, nontrivial bool) {
	if jStr(op["op"]) != "llo.converge" {
		return
	}
	bad := func(sig, d string) { viol = append(viol, Violation{Sig: "C14/" + sig, Desc: d, Op: op, Res: res}) }
	if jObj(res)["panic"] != nil {
		bad("panic", "a callback panicked while the script ran: "+jStr(jObj(res)["panic_msg"]))
		return
	}
	if he := jObj(res)["harness-error"]; he != nil {
		bad("script-could-not-run", "the convergence script could not be carried out: "+fmt.Sprint(he))
		return
	}
	outs := jArr(jObj(res)["ok"])
	if outs == nil {
		return
	}
	target := canon(jArr(op["target"]))
	nontrivial = canon(jArr(jObj(op["start"])["defs"])) != target
	bound := jInt(op["bound"])
	for i, o := range outs {
		m := jObj(o)
		if m["panic"] != nil {
			bad("panic", "callback panicked")
			continue
		}
		if e, ok := m["err"]; ok {
			if jStr(e) == "refuse" {
				sig := "refuse-to-observe"
				if strings.Contains(jStr(m["_msg"]), "too many unique stream IDs") {
					// known finding F1: both endpoint sets valid, intermediate union above the stream limit
					sig = "wedged-union-exceeds-stream-limit"
				}
				bad(sig, fmt.Sprintf("round %d: correct nodes refuse to observe (previous outcome's definitions fail verification): %s", i+1, jStr(m["_msg"])))
			} else {
				bad("round-failed", fmt.Sprintf("round %d failed: %v", i+1, e))
			}
			continue
		}
		if m["_honest_rejected"] != nil {
			bad("honest-observation-rejected", "an observation produced by a correct node was rejected by ValidateObservation: "+jStr(m["_honest_rejected"]))
		}
		defs := jArr(m["defs"])
		if len(defs) > 2000 {
			bad("cap-exceeded", fmt.Sprintf("outcome holds %d channels", len(defs)))
		}
		if i+1 >= bound && canon(defs) != target {
			bad("not-converged", fmt.Sprintf("after round %d (bound %d) the channel set differs from the target", i+1, bound))
		}
	}
	return
}

// votes of a correct node for arbitrary (previous outcome, expected definitions) pairs, incl. expected
// sets that fail verification (no votes) and previous outcomes that fail it (refusal)
func init() {
	RegGen("C14", "plus llo.observe ops: the votes of the real Observation() for random previous/expected definition sets (missing, differing and equal definitions, more than 5 of each, invalid expected sets, invalid previous sets)", func(g *G) {
		for i := 0; i < g.N(300, 4000); i++ {
			w := newWorld(g)
			prev := map[int]J{}
			exp := map[int]J{}
			for k := g.R.Intn(14); k > 0; k-- {
				id := 1 + g.R.Intn(20)
				d := w.smallDef(1+g.R.Intn(30), 1+g.R.Intn(3))
				prev[id] = d
				switch g.R.Intn(3) {
				case 0:
					exp[id] = d
				case 1:
					exp[id] = w.smallDef(1+g.R.Intn(30), 1+g.R.Intn(3))
				}
			}
			for k := g.R.Intn(10); k > 0; k-- {
				exp[30+g.R.Intn(20)] = w.smallDef(1+g.R.Intn(30), 1+g.R.Intn(3))
			}
			bad := []any{}
			switch g.R.Intn(8) {
			case 0: // an expected definition without streams: the whole expected set is invalid => no votes
				exp[99] = J{"format": "2", "streams": []any{}, "opts": ""}
			case 1: // zero aggregator in the previous outcome => refusal
				prev[98] = J{"format": "2", "streams": []any{J{"sid": "1", "agg": "0"}}, "opts": ""}
			case 2: // a codec rejects the opts of an expected definition
				exp[97] = J{"format": "2", "streams": []any{J{"sid": "1", "agg": "1"}}, "opts": "bad0"}
				bad = append(bad, "bad0")
			}
			mk := func(m map[int]J) []any {
				ids := make([]int, 0, len(m))
				for id := range m {
					ids = append(ids, id)
				}
				sortInts(ids)
				out := make([]any, len(ids))
				for i, id := range ids {
					out[i] = J{"id": S(id), "def": m[id]}
				}
				return out
			}
			stage := "production"
			if g.R.Intn(10) == 0 {
				stage = "retired"
			}
			prevO := J{"stage": stage, "ts": S(w.now), "defs": mk(prev), "va": []any{}, "aggs": []any{}}
			g.Emit(J{"op": "llo.observe", "prev": prevO, "expected": mk(exp), "badOpts": bad}, "observe")
		}
	})
}
