package main

import (
	"fmt"

	"github.com/shopspring/decimal"

	"github.com/smartcontractkit/chainlink-data-streams/llo"
)

// One stream aggregated in several ways by different channels: every aggregator of the round is handed
// the SAME observation list, in the (random) order in which the channel definitions are visited.  An
// aggregator that modifies its input — or a result that depends on which channel is visited first — shows
// up as two different outcomes for one input.  Value lists are built so that every aggregate exists
// (f+1 identical values for the mode) while the component-wise medians differ from the most common value.
func init() {
	gen := func(g *G) {
		for i := 0; i < g.N(120, 1500); i++ {
			w := newWorld(g)
			f := w.f
			n := 3*f + 1
			base := int64(100 + g.R.Intn(900))
			q := func(b, m, a int64) any {
				return svJ(&llo.Quote{Bid: decimal.New(base+b, 0), Benchmark: decimal.New(base+m, 0), Ask: decimal.New(base+a, 0)})
			}
			var vals []any
			kind := g.R.Intn(3)
			for k := 0; k < n; k++ {
				switch kind {
				case 0: // quotes: f+1 × A, the rest with lower / higher components
					switch {
					case k <= f:
						vals = append(vals, q(1, 5, 9))
					case k%2 == 0:
						vals = append(vals, q(2, 3, 10+int64(k)))
					default:
						vals = append(vals, q(4, 6, 7+int64(k)))
					}
				case 1: // decimals: f+1 identical, the others spread
					if k <= f {
						vals = append(vals, svJ(llo.ToDecimal(decimal.New(base, 0))))
					} else {
						vals = append(vals, svJ(llo.ToDecimal(decimal.New(base+int64(k)*3-5, 0))))
					}
				default: // timestamped values
					at := w.now - uint64(1000*k)
					v := base
					if k > f {
						v = base + int64(k)
					}
					vals = append(vals, svJ(&llo.TimestampedStreamValue{ObservedAtNanoseconds: at - at%1000*uint64(btoi(k <= f)), StreamValue: llo.ToDecimal(decimal.New(v, 0))}))
				}
			}
			g.R.Shuffle(len(vals), func(a, b int) { vals[a], vals[b] = vals[b], vals[a] })
			obs := []any{}
			honest := []any{}
			for k := 0; k < n; k++ {
				obs = append(obs, J{"retire": false, "attested": "", "ts": S(w.now + uint64(k)), "removes": []any{}, "updates": []any{},
					"values": []any{J{"sid": "7", "v": vals[k]}}})
				honest = append(honest, k)
			}
			aggSets := [][]int{{3, 2}, {2, 3}, {1, 2}, {3, 2, 1}, {2, 1}}
			if kind != 0 {
				aggSets = [][]int{{1, 2}, {2, 1}}
			}
			aggs := aggSets[g.R.Intn(len(aggSets))]
			defs := []any{}
			for c, a := range aggs {
				defs = append(defs, J{"id": S(c + 1), "def": J{"format": "2", "opts": "", "streams": []any{J{"sid": "7", "agg": S(a)}}}})
			}
			prevAggs := []any{}
			if kind == 2 {
				// the previous outcome already holds (older) timestamped aggregates for every pair
				for _, a := range aggs {
					prevAggs = append(prevAggs, J{"sid": "7", "agg": S(a), "v": svJ(&llo.TimestampedStreamValue{ObservedAtNanoseconds: w.now - 5_000_000_000 - uint64(a), StreamValue: llo.ToDecimal(decimal.New(base-int64(a), 0))})})
				}
			}
			prev := J{"stage": "production", "ts": S(w.now - 2_000_000_000), "defs": defs, "va": []any{}, "aggs": prevAggs}
			g.Emit(J{"op": "llo.outcome", "cfg": w.cfgJ(), "seqNr": 3 + g.R.Intn(5), "prev": prev, "obs": obs, "attestations": []any{}, "honest": honest},
				"shared-stream", fmt.Sprintf("kind=%d", kind))
		}
	}
	rule := "plus llo.outcome cases in which one stream is aggregated in several ways by different channels (every aggregate exists; component-wise medians differ from the most common value)"
	RegGen("C01", rule, gen)
	RegGen("C15", rule, gen)
	RegGen("C02", rule, gen)
	RegGen("C18", rule, gen)
}

func btoi(b bool) int {
	if b {
		return 1
	}
	return 0
}
