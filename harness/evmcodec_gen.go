package main

import (
	"bytes"
	"fmt"
	"math/big"
	"strings"
)

// C12 generators.  Every case is built from an *abstract* opts value (feed id, window, base fee as
// coefficient/exponent, multipliers, ABI encoder lists); the JSON text given to the real codec is
// rendered from it here (not with the repository's Encode), with the syntactic freedom the JSON
// decoders allow (quoted / unquoted numbers, plain / scientific decimals, hex multipliers, single
// encoder as object or one-element array, omitted / null optional fields).

type c12Dv struct {
	c *big.Int
	e int64
}

func (d c12Dv) J() J { return J{"c": d.c.String(), "e": S(d.e)} }

func c12JDv(v any) c12Dv { return c12Dv{jBig(jget(v, "c")), jBig(jget(v, "e")).Int64()} }

type c12Enc1 struct {
	Type string
	Mult *big.Int // nil = not given
}

type evmOpts struct {
	Kind    string // premium | unpacked | streamlined
	Base    c12Dv
	Window  uint64
	FeedID  []byte // nil = absent (streamlined only)
	Mult    *big.Int
	ABI     [][]c12Enc1
	RawText *string // when set, this text is given to the real code instead of the rendering
}

func c12Bi(x int64) *big.Int { return big.NewInt(x) }

func c12Pow10(k int64) *big.Int { return new(big.Int).Exp(c12Bi(10), c12Bi(k), nil) }

func c12OptBig(b *big.Int) any {
	if b == nil {
		return nil
	}
	return b.String()
}

func (o evmOpts) abiJ() []any {
	out := []any{}
	for _, el := range o.ABI {
		es := []any{}
		for _, e := range el {
			es = append(es, J{"type": e.Type, "mult": c12OptBig(e.Mult)})
		}
		out = append(out, es)
	}
	return out
}

// parsed is the structure the model driver and the monitor read.
func (o evmOpts) parsed() J {
	switch o.Kind {
	case "premium":
		return J{"baseUSDFee": o.Base.J(), "window": S(o.Window), "feedID": hexs(o.FeedID), "multiplier": c12OptBig(o.Mult)}
	case "unpacked":
		return J{"baseUSDFee": o.Base.J(), "window": S(o.Window), "feedID": hexs(o.FeedID), "abi": o.abiJ()}
	}
	var f any
	if o.FeedID != nil {
		f = hexs(o.FeedID)
	}
	return J{"feedID": f, "abi": o.abiJ()}
}

// c12RenderDec writes coefficient·10^exponent so that decimal.NewFromString yields exactly (c, e).
func c12RenderDec(g *G, d c12Dv) string {
	sci := fmt.Sprintf("%se%d", d.c.String(), d.e)
	plain := ""
	if d.e == 0 {
		plain = d.c.String()
	} else if d.e < 0 && d.e > -400 {
		digits := new(big.Int).Abs(d.c).String()
		k := int(-d.e)
		for len(digits) <= k {
			digits = "0" + digits
		}
		plain = digits[:len(digits)-k] + "." + digits[len(digits)-k:]
		if d.c.Sign() < 0 {
			plain = "-" + plain
		}
	}
	switch g.R.Intn(4) {
	case 0:
		if plain != "" {
			return `"` + plain + `"`
		}
	case 1:
		if plain != "" {
			return plain // unquoted JSON number
		}
	case 2:
		return sci // unquoted JSON number in scientific notation
	}
	return `"` + sci + `"`
}

func c12RenderBig(g *G, b *big.Int) string {
	switch g.R.Intn(7) {
	case 0:
		return b.String()
	case 1:
		if b.Sign() > 0 {
			return `"0x` + b.Text(16) + `"`
		}
	case 2:
		// zero-padded decimal text is still decimal (not octal): "0100" is one hundred
		abs := new(big.Int).Abs(b).String()
		pad := strings.Repeat("0", 1+g.R.Intn(3))
		if b.Sign() < 0 {
			return `"-` + pad + abs + `"`
		}
		return `"` + pad + abs + `"`
	case 3:
		if b.Sign() > 0 {
			return `"+` + b.String() + `"`
		}
	}
	return `"` + b.String() + `"`
}

func c12RenderABI(g *G, abi [][]c12Enc1) string {
	var els []string
	for _, el := range abi {
		var es []string
		for _, e := range el {
			s := fmt.Sprintf(`{"type":%q`, e.Type)
			if e.Mult != nil {
				s += `,"multiplier":` + c12RenderBig(g, e.Mult)
			} else if g.R.Intn(3) == 0 {
				s += `,"multiplier":null`
			}
			es = append(es, s+"}")
		}
		if len(es) == 1 && g.R.Intn(2) == 0 {
			els = append(els, es[0])
		} else {
			els = append(els, "["+strings.Join(es, ",")+"]")
		}
	}
	return "[" + strings.Join(els, ",") + "]"
}

func (o evmOpts) text(g *G) string {
	if o.RawText != nil {
		return *o.RawText
	}
	var fs []string
	feed := func() { fs = append(fs, `"feedID":"0x`+hexs(o.FeedID)+`"`) }
	switch o.Kind {
	case "premium", "unpacked":
		if o.Base.c.Sign() != 0 || o.Base.e != 0 || g.R.Intn(2) == 0 {
			fs = append(fs, `"baseUSDFee":`+c12RenderDec(g, o.Base))
		}
		if o.Window != 0 || g.R.Intn(2) == 0 {
			fs = append(fs, fmt.Sprintf(`"expirationWindow":%d`, o.Window))
		}
		feed()
		if o.Kind == "premium" {
			if o.Mult != nil {
				fs = append(fs, `"multiplier":`+c12RenderBig(g, o.Mult))
			} else if g.R.Intn(3) == 0 {
				fs = append(fs, `"multiplier":null`)
			}
		} else {
			fs = append(fs, `"abi":`+c12RenderABI(g, o.ABI))
		}
	case "streamlined":
		if o.FeedID != nil {
			feed()
		} else if g.R.Intn(3) == 0 {
			fs = append(fs, `"feedID":null`)
		}
		fs = append(fs, `"abi":`+c12RenderABI(g, o.ABI))
	}
	g.R.Shuffle(len(fs), func(i, j int) { fs[i], fs[j] = fs[j], fs[i] })
	return "{" + strings.Join(fs, ",") + "}"
}

// ---------------------------------------------------------------- values

func c12DecSV(d c12Dv) J              { return J{"t": "dec", "d": d.J()} }
func c12QuoteSV(bid, bm, ask c12Dv) J { return J{"t": "quote", "bid": bid.J(), "bm": bm.J(), "ask": ask.J()} }
func c12TsvSV(at uint64, v any) J  { return J{"t": "tsv", "at": S(at), "v": v} }
func c12IntDv(x *big.Int) c12Dv       { return c12Dv{new(big.Int).Set(x), 0} }

func c12RandBig(g *G, maxBits int) *big.Int {
	b := new(big.Int).Rand(g.R, c12Pow2(1+g.R.Intn(maxBits)))
	if g.R.Intn(2) == 0 {
		b.Neg(b)
	}
	return b
}

func c12RandDv(g *G, maxBits int, expRange int64) c12Dv {
	return c12Dv{c12RandBig(g, maxBits), g.R.Int63n(2*expRange+1) - expRange}
}

func c12RandFeed(g *G) []byte {
	b := make([]byte, 32)
	g.R.Read(b)
	if g.R.Intn(4) == 0 { // sparse ids
		for i := 0; i < 30; i++ {
			b[i] = 0
		}
	}
	b[31] |= 1 // never the zero hash
	return b
}

func c12SolType(signed bool, bits int) string {
	if signed {
		return fmt.Sprintf("int%d", bits)
	}
	return fmt.Sprintf("uint%d", bits)
}

func c12TypeRange(signed bool, bits int) (lo, hi *big.Int) {
	if signed {
		return new(big.Int).Neg(c12Pow2(bits - 1)), new(big.Int).Sub(c12Pow2(bits-1), c12BigOne)
	}
	return c12Bi(0), new(big.Int).Sub(c12Pow2(bits), c12BigOne)
}

func c12RandType(g *G) (bool, int) { return g.R.Intn(2) == 0, 8 * (1 + g.R.Intn(32)) }

var evmBadTypes = []string{"", "int", "uint7", "int257", "bool", "string", "bytes32", "Uint8", "uint8 "}

func c12RandMult(g *G) *big.Int {
	switch g.R.Intn(8) {
	case 0:
		return nil
	case 1:
		return c12Bi(1)
	case 2:
		return c12Bi(-1)
	case 3:
		return c12Pow10(int64(g.R.Intn(30)))
	case 4:
		return new(big.Int).Neg(c12Pow10(int64(g.R.Intn(30))))
	case 5:
		return c12Bi(0)
	}
	return c12RandBig(g, 70)
}

// c12ValueNear builds a decimal whose product with m truncates to a number close to target.
func c12ValueNear(g *G, target *big.Int, m *big.Int) c12Dv {
	mm := c12Bi(1)
	if m != nil {
		mm = m
	}
	if mm.Sign() == 0 {
		return c12RandDv(g, 64, 6)
	}
	e := g.R.Int63n(13) - 9 // exponent in [-9, 3]
	num := new(big.Int).Set(target)
	if e < 0 {
		num.Mul(num, c12Pow10(-e))
		num.Add(num, c12Bi(g.R.Int63n(3)))
	} else {
		num.Quo(num, c12Pow10(e))
	}
	return c12Dv{num.Quo(num, mm), e}
}

// c12RandTarget picks a number inside (mostly) or outside the type's range, often at a boundary.
func c12RandTarget(g *G, signed bool, bits int) *big.Int {
	lo, hi := c12TypeRange(signed, bits)
	switch g.R.Intn(10) {
	case 0:
		return new(big.Int).Add(hi, c12Bi(int64(g.R.Intn(3))))
	case 1:
		return new(big.Int).Sub(lo, c12Bi(int64(g.R.Intn(3))))
	case 2:
		return c12RandBig(g, bits+40)
	case 3:
		return c12Bi(int64(g.R.Intn(5) - 2))
	}
	span := new(big.Int).Sub(hi, lo)
	x := new(big.Int).Rand(g.R, span.Add(span, c12BigOne))
	x.Add(x, lo)
	if g.R.Intn(3) == 0 { // small magnitudes too
		x.Rsh(x, uint(g.R.Intn(bits)))
	}
	return x
}

// c12BoundaryValues: (multiplier, decimal) pairs whose scaled+truncated product is exactly T, for T at
// the edges of the type.
func c12BoundaryValues(signed bool, bits int) (out []struct {
	m *big.Int
	d c12Dv
}) {
	lo, hi := c12TypeRange(signed, bits)
	add := func(m *big.Int, d c12Dv) {
		out = append(out, struct {
			m *big.Int
			d c12Dv
		}{m, d})
	}
	for _, base := range []*big.Int{lo, hi, c12Bi(0)} {
		for _, off := range []int64{-1, 0, 1} {
			T := new(big.Int).Add(base, c12Bi(off))
			add(nil, c12IntDv(T))
			add(c12Bi(-1), c12IntDv(new(big.Int).Neg(T)))
			add(c12Bi(100), c12Dv{new(big.Int).Set(T), -2})
			// T.9 truncates toward zero to T (for T = 0 both 0.9 and -0.9)
			frac := new(big.Int).Mul(T, c12Bi(10))
			if T.Sign() < 0 {
				frac.Sub(frac, c12Bi(9))
			} else {
				frac.Add(frac, c12Bi(9))
			}
			add(nil, c12Dv{frac, -1})
			if T.Sign() == 0 {
				add(c12Bi(1), c12Dv{c12Bi(-9), -1})
			}
		}
	}
	return
}

// ---------------------------------------------------------------- time and fee tables

type c12TimeCase struct {
	va, ts uint64 // nanoseconds
	window uint64
}

func c12TimeCases(g *G) []c12TimeCase {
	var out []c12TimeCase
	ns := func(s uint64) uint64 { return s*1_000_000_000 + uint64(g.R.Int63n(1_000_000_000)) }
	for _, ts := range []uint64{1, 3, 1 << 31, 1<<31 - 1, 1<<31 + 1, 1<<32 - 2, 1<<32 - 1, 1 << 32, 1<<32 + 5, 1_700_000_000} {
		var ws []uint64
		if ts < 1<<32 {
			ws = []uint64{0, 1, 1 << 31, 1<<32 - 1 - ts, 1<<32 - ts, 1<<32 - 1}
		} else {
			ws = []uint64{0, 1<<32 - 1}
		}
		for _, w := range ws {
			if w >= 1<<32 {
				continue
			}
			out = append(out, c12TimeCase{ns(ts - 1), ns(ts), w})
		}
		out = append(out, c12TimeCase{ns(uint64(g.R.Int63n(int64(ts)))), ns(ts), uint64(g.R.Int63n(1 << 32))})
	}
	// validAfter seconds beyond uint32 (timestamp further still)
	out = append(out, c12TimeCase{ns(1 << 32), ns(1<<32 + 1), 0}, c12TimeCase{ns(1<<33 + 7), ns(1<<33 + 9), 5})
	// largest uint64 nanoseconds
	out = append(out, c12TimeCase{1<<64 - 2, 1<<64 - 1, 0})
	// nanosecond values at and above 2^63 (negative once converted to a signed 64-bit type), in different seconds
	out = append(out, c12TimeCase{1 << 63, 1<<63 + 5_000_000_000, 0}, c12TimeCase{1<<63 + 3_000_000_000, 1<<64 - 1, 7},
		c12TimeCase{1_000_000_000, 1<<63 + 7_000_000_000, 0}, c12TimeCase{1<<64 - 10_000_000_000, 1<<64 - 1, 0},
		c12TimeCase{1<<63 - 2_000_000_000, 1<<63 + 1, 1})
	return out
}

// outside the property's domain (validAfter second >= timestamp second): compared with the model only
func c12TimeCasesOutside(g *G) []c12TimeCase {
	s := uint64(1_000_000_000)
	return []c12TimeCase{
		{5 * s, 5*s + 1, 10},                   // same second
		{7 * s, 5 * s, 10},                     // validAfter later than the timestamp
		{(1<<32 - 1) * s, (1<<32-1)*s + 1, 0},  // same second at the top of uint32: validFrom = vas+1 wraps to 0
		{(1<<32 - 1) * s, (1<<31)*s + 1, 1000}, // vas+1 wraps, timestamp earlier
	}
}

type c12FeeCase struct{ price, base c12Dv }

func c12FeeCases() []c12FeeCase {
	d := func(c int64, e int64) c12Dv { return c12Dv{c12Bi(c), e} }
	one18 := c12Dv{c12Pow10(18), 0}
	out := []c12FeeCase{
		// ties and thirds: base/price·1e18 with fractional part .25 .5 .75 1.5 2.5 1/3 2/3
		{d(4, 18), d(1, 0)}, {d(2, 18), d(1, 0)}, {d(4, 18), d(3, 0)}, {d(2, 18), d(3, 0)}, {d(2, 18), d(5, 0)},
		{d(3, 0), d(1, 0)}, {d(3, 0), d(2, 0)}, {d(3, 18), d(1, 0)}, {d(3, 18), d(2, 0)}, {d(7, 18), d(1, 0)},
		{d(6, 18), d(3, 0)}, {d(2, 0), d(1, -18)}, {d(2, 0), d(3, -18)}, {d(20, -1), d(5, -18)}, {d(3, 0), d(1, -18)},
		// exact
		{d(1, 0), d(1, 0)}, {d(2, 0), d(1, 0)}, {d(25, -1), d(1, 0)}, {d(1, -8), d(12, -1)}, {d(123456789, -6), d(7, -1)},
		// zero / negative price or base: fee 0
		{d(0, 0), d(1, 0)}, {d(0, 1), d(1, 0)}, {d(-1, 0), d(1, 0)}, {d(1, 0), d(0, 0)}, {d(1, 0), d(-5, -1)}, {d(-3, 2), d(-5, -1)}, {d(0, -30), d(0, 12)},
		// uint192 edge: price 1e18 makes the fee equal to the base fee
		{one18, c12IntDv(new(big.Int).Sub(c12Pow2(192), c12BigOne))}, {one18, c12IntDv(c12Pow2(192))}, {one18, c12IntDv(new(big.Int).Add(c12Pow2(192), c12BigOne))},
		{d(1, 18), c12IntDv(new(big.Int).Sub(c12Pow2(192), c12BigOne))}, {d(1, 18), c12IntDv(c12Pow2(192))},
		{one18, c12IntDv(c12Pow2(191))}, {one18, c12IntDv(c12Pow2(255))}, {one18, c12IntDv(c12Pow2(256))}, {one18, c12IntDv(new(big.Int).Add(c12Pow2(256), c12Bi(5)))},
		{d(1, -60), d(1, 0)}, {d(1, -39), d(62771017353866807, 0)}, {d(1, -40), d(62771017353866808, -1)},
		// 2^192 - 1/2 rounds up out of range; just below stays in
		{c12Dv{new(big.Int).Mul(c12Bi(2), c12Pow10(18)), 0}, c12IntDv(new(big.Int).Sub(c12Pow2(193), c12Bi(1)))},
		{c12Dv{new(big.Int).Mul(c12Bi(2), c12Pow10(18)), 0}, c12IntDv(new(big.Int).Sub(c12Pow2(193), c12Bi(2)))},
		// large exponent differences that are still fine
		{d(1, 300), d(1, 0)}, {d(1, 0), d(1, 300)}, {d(7, -300), d(3, -280)}, {d(1, 1000), d(5, 981)},
	}
	return out
}

// K4: the exponent difference leaves int32 → decimal.QuoRem panics (known finding)
func c12FeeCasesK4() []c12FeeCase {
	d := func(c int64, e int64) c12Dv { return c12Dv{c12Bi(c), e} }
	return []c12FeeCase{
		{d(1, -2147483648), d(1, 0)}, {d(5, -2147483648), d(3, -18)}, {d(1, -2147483640), d(1, 10)},
		{d(1, 2147483647), d(1, -20)}, {d(9, 2147483647), d(7, -100)},
	}
}

// ---------------------------------------------------------------- emitters

func evmReportJ(channelID uint32, va, ts uint64, specimen bool, values []any) J {
	if values == nil {
		values = []any{}
	}
	return J{"channelID": S(channelID), "validAfter": S(va), "obsTs": S(ts), "specimen": specimen, "values": values}
}

func c12EmitEncode(g *G, o evmOpts, format uint32, rep J, impl bool, tags ...string) {
	op := J{"op": "evm.encode." + o.Kind, "optsText": o.text(g), "opts": o.parsed(), "report": rep}
	if o.Kind == "streamlined" {
		op["format"] = S(format)
	}
	tags = append(tags, o.Kind)
	if impl {
		op["implOnly"] = true
		g.EmitImpl(op, tags...)
	} else {
		g.Emit(op, tags...)
	}
}

func c12EmitVerify(g *G, o evmOpts, nStreams int, impl bool, tags ...string) {
	op := J{"op": "evm.verify." + o.Kind, "optsText": o.text(g), "opts": o.parsed(), "nStreams": nStreams}
	tags = append(tags, "verify-"+o.Kind)
	if impl {
		op["implOnly"] = true
		g.EmitImpl(op, tags...)
	} else {
		g.Emit(op, tags...)
	}
}

func init() {
	RegGen("C12", "three EVM codecs × (directed boundary tables: every (u)intN at min-1/min/min+1/-1/0/1/max-1/max/max+1 reached through multipliers 1, -1, 100 and a truncated fraction; timestamps at 2^31, 2^32-1, 2^32; windows 0, 2^31, up to and past the uint32 wrap; fees at ties, thirds, 2^192-1, 2^192, 2^255, 2^256; K4 exponents) + random verified opts (windows 0..2^32-1, base fees, multipliers of either sign, ABI lists over all 64 types with one- and two-element encoders) × random reports (values of any magnitude/sign/scale, nil values, wrong value types, specimen) + malformed opts and typed-nil values (implementation only); non-trivial = an encode op in the property's domain whose outcome was checked against the specification (decoded fields equal to the formulas, or the required refusal); distinct = different op line", genC12)
}

func genC12(g *G) {
	genStreamlined(g)
	genUnpacked(g)
	genPremium(g)
	genFeeAndVerify(g)
	genImplOnly(g)
	genManyOpts(g)
}

func c12OkPrice(g *G) any {
	switch g.R.Intn(6) {
	case 0:
		return nil
	case 1:
		p := c12RandDv(g, 60, 8)
		p.c.Abs(p.c)
		return c12QuoteSV(c12RandDv(g, 60, 8), p, c12RandDv(g, 60, 8))
	}
	p := c12Dv{new(big.Int).Add(new(big.Int).Rand(g.R, c12Pow2(1+g.R.Intn(80))), c12BigOne), g.R.Int63n(30) - 20}
	if g.R.Intn(12) == 0 {
		p.c.Neg(p.c)
	}
	if g.R.Intn(12) == 0 {
		p.c.SetInt64(0)
	}
	return c12DecSV(p)
}

func c12OkBase(g *G) c12Dv {
	switch g.R.Intn(8) {
	case 0:
		return c12Dv{c12Bi(0), 0}
	case 1:
		return c12Dv{c12Bi(0), g.R.Int63n(9) - 4}
	}
	return c12Dv{new(big.Int).Add(new(big.Int).Rand(g.R, c12Pow2(1+g.R.Intn(64))), c12BigOne), g.R.Int63n(24) - 18}
}

func c12RandTime(g *G) (va, ts, window uint64) {
	tsS := uint64(g.R.Int63n(1 << 32))
	if tsS == 0 {
		tsS = 1
	}
	switch g.R.Intn(4) {
	case 0:
		tsS = 1_600_000_000 + uint64(g.R.Int63n(400_000_000))
	}
	vaS := uint64(g.R.Int63n(int64(tsS)))
	if g.R.Intn(2) == 0 {
		vaS = tsS - 1
	}
	va = vaS*1_000_000_000 + uint64(g.R.Int63n(1_000_000_000))
	ts = tsS*1_000_000_000 + uint64(g.R.Int63n(1_000_000_000))
	window = uint64(g.R.Int63n(int64(1<<32 - tsS))) // never wraps
	switch g.R.Intn(10) {
	case 0:
		window = uint64(g.R.Int63n(1 << 32)) // anything in uint32
	case 1, 2, 3:
		window = uint64(g.R.Intn(100000))
	}
	return
}

// ---- streamlined

func genStreamlined(g *G) {
	mk := func(feed []byte, abi [][]c12Enc1) evmOpts { return evmOpts{Kind: "streamlined", FeedID: feed, ABI: abi} }
	// directed: every type at its boundaries, alone and as the value / timestamp part of a timestamped value
	for _, signed := range []bool{false, true} {
		for bits := 8; bits <= 256; bits += 8 {
			t := c12SolType(signed, bits)
			for i, bv := range c12BoundaryValues(signed, bits) {
				var feed []byte
				if i%2 == 0 {
					feed = c12RandFeed(g)
				}
				va, ts, _ := c12RandTime(g)
				c12EmitEncode(g, mk(feed, [][]c12Enc1{{{t, bv.m}}}), uint32(g.R.Intn(7)), evmReportJ(g.R.Uint32(), va, ts, i%5 == 0, []any{c12DecSV(bv.d)}), false, "boundary")
				if i%3 == 0 {
					at := g.R.Uint64()
					c12EmitEncode(g, mk(feed, [][]c12Enc1{{{"uint64", nil}, {t, bv.m}}}), 5, evmReportJ(7, va, ts, false, []any{c12TsvSV(at, c12DecSV(bv.d))}), false, "boundary", "tsv")
					// the timestamp itself against this type (multiplier 1): fits iff at is in range
					c12EmitEncode(g, mk(feed, [][]c12Enc1{{{t, nil}, {"int256", c12Bi(-1)}}}), 5, evmReportJ(7, va, ts, false, []any{c12TsvSV(at, c12DecSV(bv.d))}), false, "tsv")
				}
			}
		}
	}
	// header boundaries
	for _, ch := range []uint32{0, 1, 1 << 31, 1<<32 - 1} {
		for _, va := range []uint64{0, 1, 1 << 31, 1 << 32, 1<<63 + 3, 1<<64 - 1} {
			c12EmitEncode(g, mk(nil, [][]c12Enc1{{{"uint8", nil}}}), ch^0x80000001, evmReportJ(ch, va, va+1, false, []any{c12DecSV(c12Dv{c12Bi(7), 0})}), false, "header")
			c12EmitEncode(g, mk(c12RandFeed(g), nil), 0, evmReportJ(ch, va, va+1, true, nil), false, "header")
		}
		// a configured feed id is written as configured — the all-zero one and its neighbours included (only an
		// ABSENT feed id selects the format/channel header)
		for _, feed := range [][]byte{make([]byte, 32), append(make([]byte, 31), 1), append([]byte{1}, make([]byte, 31)...), bytes.Repeat([]byte{0xff}, 32)} {
			c12EmitEncode(g, mk(feed, [][]c12Enc1{{{"uint8", nil}}}), ch^0x80000001, evmReportJ(ch, 5, 6, false, []any{c12DecSV(c12Dv{c12Bi(7), 0})}), false, "header", "feed-id-edge")
		}
	}
	// timestamps of timestamped values at the edges of uint64 and of narrower types
	for _, at := range []uint64{0, 1, 255, 256, 1<<31 - 1, 1 << 31, 1<<32 - 1, 1 << 32, 1<<63 - 1, 1 << 63, 1<<64 - 1} {
		for _, t := range []string{"uint8", "uint32", "int32", "uint64", "int64", "uint72", "bytes0"} {
			for _, m := range []*big.Int{nil, c12Bi(-1), c12Bi(1000)} {
				c12EmitEncode(g, mk(nil, [][]c12Enc1{{{t, m}, {"int192", nil}}}), 9, evmReportJ(3, 10, 20, false, []any{c12TsvSV(at, c12DecSV(c12Dv{c12Bi(-5), 0}))}), false, "tsv")
			}
		}
	}
	// structural: length mismatch, encoder counts, wrong value types, nil, bytes0, invalid types
	one := c12Dv{c12Bi(1), 0}
	q := c12QuoteSV(one, one, one)
	structural := []struct {
		abi  [][]c12Enc1
		vals []any
	}{
		{[][]c12Enc1{{{"uint8", nil}}}, []any{}},
		{[][]c12Enc1{}, []any{c12DecSV(one)}},
		{[][]c12Enc1{{{"uint8", nil}}, {{"uint8", nil}}}, []any{c12DecSV(one)}},
		{[][]c12Enc1{{}}, []any{c12DecSV(one)}},
		{[][]c12Enc1{{{"uint8", nil}, {"uint8", nil}}}, []any{c12DecSV(one)}},
		{[][]c12Enc1{{{"uint8", nil}}}, []any{c12TsvSV(5, c12DecSV(one))}},
		{[][]c12Enc1{{{"uint8", nil}, {"uint8", nil}, {"uint8", nil}}}, []any{c12TsvSV(5, c12DecSV(one))}},
		{[][]c12Enc1{{{"uint8", nil}}}, []any{nil}},
		{[][]c12Enc1{{{"uint8", nil}}}, []any{q}},
		{[][]c12Enc1{{{"bytes0", nil}}}, []any{q}},
		{[][]c12Enc1{{{"bytes0", nil}}}, []any{nil}},
		{[][]c12Enc1{{{"bytes0", nil}}}, []any{c12DecSV(one)}},
		{[][]c12Enc1{{{"bytes0", nil}, {"bytes0", nil}}}, []any{c12TsvSV(5, q)}},
		{[][]c12Enc1{{{"bytes0", nil}, {"uint8", nil}}}, []any{c12TsvSV(5, c12DecSV(one))}},
		{[][]c12Enc1{{{"uint64", nil}, {"bytes0", nil}}}, []any{c12TsvSV(5, q)}},
		{[][]c12Enc1{{{"uint64", nil}, {"uint8", nil}}}, []any{c12TsvSV(5, q)}},
		{[][]c12Enc1{{{"uint64", nil}, {"uint8", nil}}}, []any{c12TsvSV(5, c12TsvSV(6, c12DecSV(one)))}},
		{[][]c12Enc1{{{"uint8", nil}}, {{"bytes0", nil}}, {{"int16", c12Bi(-3)}}}, []any{c12DecSV(one), c12DecSV(one), c12DecSV(c12Dv{c12Bi(70), -1})}},
		{[][]c12Enc1{{{"uint8", nil}}, {{"uint8", nil}}}, []any{nil, q}},
		{[][]c12Enc1{{{"uint8", nil}}, {{"uint8", nil}}}, []any{c12DecSV(c12Dv{c12Bi(256), 0}), nil}},
	}
	for _, bt := range evmBadTypes {
		structural = append(structural, struct {
			abi  [][]c12Enc1
			vals []any
		}{[][]c12Enc1{{{bt, nil}}}, []any{c12DecSV(one)}}, struct {
			abi  [][]c12Enc1
			vals []any
		}{[][]c12Enc1{{{bt, nil}, {"uint8", nil}}}, []any{c12TsvSV(5, c12DecSV(one))}})
	}
	for i, s := range structural {
		var feed []byte
		if i%2 == 1 {
			feed = c12RandFeed(g)
		}
		c12EmitEncode(g, mk(feed, s.abi), 5, evmReportJ(9, 100, 200, false, s.vals), false, "structural")
	}
	// random
	for i := 0; i < g.N(500, 8000); i++ {
		n := g.R.Intn(6)
		var abi [][]c12Enc1
		var vals []any
		for j := 0; j < n; j++ {
			el, v := c12RandElement(g, true)
			abi = append(abi, el)
			vals = append(vals, v)
		}
		if g.R.Intn(25) == 0 && n > 0 {
			vals = vals[:n-1]
		}
		var feed []byte
		if g.R.Intn(2) == 0 {
			feed = c12RandFeed(g)
		}
		va, ts, _ := c12RandTime(g)
		c12EmitEncode(g, mk(feed, abi), uint32(g.R.Intn(10)), evmReportJ(g.R.Uint32(), va, ts, g.R.Intn(6) == 0, vals), false, "random")
	}
}

// c12RandElement draws one ABI element with a matching (usually) value.
func c12RandElement(g *G, packed bool) ([]c12Enc1, any) {
	pickType := func() (string, bool, int) {
		s, b := c12RandType(g)
		t := c12SolType(s, b)
		if g.R.Intn(40) == 0 {
			t = evmBadTypes[g.R.Intn(len(evmBadTypes))]
		}
		if packed && g.R.Intn(25) == 0 {
			t = "bytes0"
		}
		return t, s, b
	}
	t, s, b := pickType()
	m := c12RandMult(g)
	d := c12ValueNear(g, c12RandTarget(g, s, b), m)
	if g.R.Intn(12) == 0 {
		d = c12RandDv(g, 300, 40)
	}
	switch g.R.Intn(14) {
	case 0:
		return []c12Enc1{{t, m}}, nil
	case 1:
		return []c12Enc1{{t, m}}, c12QuoteSV(d, d, d)
	case 2, 3, 4:
		tt := "uint64"
		var tm *big.Int
		if g.R.Intn(3) == 0 {
			ts2, tb2 := c12RandType(g)
			tt = c12SolType(ts2, tb2)
			tm = c12RandMult(g)
		}
		at := g.R.Uint64() >> uint(g.R.Intn(64))
		inner := any(c12DecSV(d))
		if g.R.Intn(15) == 0 {
			inner = c12QuoteSV(d, d, d)
		}
		return []c12Enc1{{tt, tm}, {t, m}}, c12TsvSV(at, inner)
	case 5:
		k := g.R.Intn(4)
		el := []c12Enc1{}
		for i := 0; i < k; i++ {
			el = append(el, c12Enc1{t, m})
		}
		if g.R.Intn(2) == 0 {
			return el, c12TsvSV(5, c12DecSV(d))
		}
		return el, c12DecSV(d)
	}
	return []c12Enc1{{t, m}}, c12DecSV(d)
}

// ---- ABI-encode-unpacked

func genUnpacked(g *G) {
	mk := func(base c12Dv, window uint64, abi [][]c12Enc1) evmOpts {
		return evmOpts{Kind: "unpacked", Base: base, Window: window, FeedID: c12RandFeed(g), ABI: abi}
	}
	price := c12DecSV(c12Dv{c12Bi(2), 0})
	base := c12Dv{c12Bi(1), 0}
	rep := func(va, ts uint64, vals ...any) J { return evmReportJ(1, va, ts, false, vals) }
	// payload boundaries for all types
	for _, signed := range []bool{false, true} {
		for bits := 8; bits <= 256; bits += 8 {
			t := c12SolType(signed, bits)
			for i, bv := range c12BoundaryValues(signed, bits) {
				va, ts, w := c12RandTime(g)
				c12EmitEncode(g, mk(base, w, [][]c12Enc1{{{t, bv.m}}}), 0, rep(va, ts, price, nil, c12DecSV(bv.d)), false, "boundary")
				if i%4 == 0 {
					c12EmitEncode(g, mk(base, w, [][]c12Enc1{{{"uint64", nil}, {t, bv.m}}, {{"int8", nil}}}), 0,
						rep(va, ts, nil, price, c12TsvSV(g.R.Uint64(), c12DecSV(bv.d)), c12DecSV(c12Dv{c12Bi(-128), 0})), false, "boundary", "tsv")
				}
			}
		}
	}
	// time table
	for _, tc := range c12TimeCases(g) {
		c12EmitEncode(g, mk(base, tc.window, [][]c12Enc1{{{"uint32", nil}}}), 0, rep(tc.va, tc.ts, price, price, c12DecSV(c12Dv{c12Bi(1), 0})), false, "time")
	}
	for _, tc := range c12TimeCasesOutside(g) {
		c12EmitEncode(g, mk(base, tc.window, [][]c12Enc1{{{"uint32", nil}}}), 0, rep(tc.va, tc.ts, price, price, c12DecSV(c12Dv{c12Bi(1), 0})), false, "time-outside-domain")
	}
	// fee table (native and link in both orders)
	for i, fc := range c12FeeCases() {
		var a, b any = c12DecSV(fc.price), price
		if i%2 == 0 {
			a, b = b, a
		}
		c12EmitEncode(g, mk(fc.base, 10, [][]c12Enc1{{{"int64", nil}}}), 0, rep(1e9, 5e9, a, b, c12DecSV(c12Dv{c12Bi(-1), 0})), false, "fee")
		c12EmitEncode(g, mk(fc.base, 10, [][]c12Enc1{}), 0, rep(1e9, 5e9, c12QuoteSV(base, fc.price, base), c12DecSV(fc.price)), false, "fee")
	}
	for i, fc := range c12FeeCasesK4() {
		var a, b any = c12DecSV(fc.price), price
		if i%2 == 0 {
			a, b = b, a
		}
		c12EmitEncode(g, mk(fc.base, 10, [][]c12Enc1{{{"int64", nil}}}), 0, rep(1e9, 5e9, a, b, c12DecSV(c12Dv{c12Bi(-1), 0})), false, "k4")
	}
	// timestamps of timestamped values at the edges of narrower types
	for _, at := range []uint64{0, 255, 256, 1<<32 - 1, 1 << 32, 1<<63 - 1, 1 << 63, 1<<64 - 1} {
		for _, t := range []string{"uint8", "uint32", "int64", "uint64", "uint256", "bytes0"} {
			for _, m := range []*big.Int{nil, c12Bi(-1), c12Bi(1000)} {
				c12EmitEncode(g, mk(base, 1, [][]c12Enc1{{{t, m}, {"int192", nil}}}), 0, rep(1e9, 5e9, price, price, c12TsvSV(at, c12DecSV(c12Dv{c12Bi(-5), 0}))), false, "tsv")
			}
		}
	}
	// structural
	one := c12Dv{c12Bi(1), 0}
	q := c12QuoteSV(one, one, one)
	u8 := [][]c12Enc1{{{"uint8", nil}}}
	structural := []struct {
		abi      [][]c12Enc1
		vals     []any
		specimen bool
	}{
		{u8, []any{price, price, c12DecSV(one)}, true},
		{u8, []any{}, false},
		{u8, []any{price}, false},
		{nil, []any{price, price}, false},
		{u8, []any{price, price}, false},
		{nil, []any{price, price, c12DecSV(one)}, false},
		{u8, []any{c12TsvSV(1, c12DecSV(one)), price, c12DecSV(one)}, false},
		{u8, []any{price, c12TsvSV(1, c12DecSV(one)), c12DecSV(one)}, false},
		{u8, []any{nil, nil, c12DecSV(one)}, false},
		{u8, []any{q, q, c12DecSV(one)}, false},
		{u8, []any{price, price, nil}, false},
		{u8, []any{price, price, q}, false},
		{u8, []any{price, price, c12TsvSV(1, c12DecSV(one))}, false},
		{[][]c12Enc1{{}}, []any{price, price, c12DecSV(one)}, false},
		{[][]c12Enc1{{{"uint8", nil}, {"uint8", nil}}}, []any{price, price, c12DecSV(one)}, false},
		{[][]c12Enc1{{{"uint8", nil}, {"uint8", nil}}}, []any{price, price, c12TsvSV(1, q)}, false},
		{[][]c12Enc1{{{"uint8", nil}, {"uint8", nil}}}, []any{price, price, c12TsvSV(1, c12TsvSV(2, c12DecSV(one)))}, false},
		{[][]c12Enc1{{{"uint8", nil}, {"uint8", nil}}}, []any{price, price, c12TsvSV(256, q)}, false},
		{[][]c12Enc1{{{"uint8", nil}, {"uint8", nil}, {"uint8", nil}}}, []any{price, price, c12TsvSV(1, c12DecSV(one))}, false},
		{[][]c12Enc1{{{"bytes0", nil}}}, []any{price, price, c12DecSV(one)}, false},
		// several failing indices: the first one names the class
		{[][]c12Enc1{{{"uint8", nil}}, {{"bool", nil}}, {{"uint8", nil}}}, []any{price, price, c12DecSV(c12Dv{c12Bi(256), 0}), c12DecSV(one), nil}, false},
		{[][]c12Enc1{{{"uint8", nil}}, {{"bool", nil}}, {{"uint8", nil}}}, []any{price, price, c12DecSV(one), c12DecSV(one), q}, false},
		{[][]c12Enc1{{{"uint8", nil}}, {{"int8", nil}}}, []any{price, price, nil, c12DecSV(c12Dv{c12Bi(-129), 0})}, false},
	}
	for _, bt := range evmBadTypes {
		structural = append(structural, struct {
			abi      [][]c12Enc1
			vals     []any
			specimen bool
		}{[][]c12Enc1{{{bt, nil}}}, []any{price, price, c12DecSV(one)}, false})
	}
	for _, s := range structural {
		c12EmitEncode(g, mk(base, 5, s.abi), 0, evmReportJ(1, 1e9, 5e9, s.specimen, s.vals), false, "structural")
	}
	// fee out of range together with other failures (ordering of checks)
	big192 := c12IntDv(c12Pow2(192))
	one18 := c12DecSV(c12Dv{c12Pow10(18), 0})
	c12EmitEncode(g, mk(big192, 5, u8), 0, rep(1e9, 5e9, one18, price, c12DecSV(c12Dv{c12Bi(256), 0})), false, "ordering")
	c12EmitEncode(g, mk(big192, 5, u8), 0, rep(1e9, 5e9, price, one18, nil), false, "ordering")
	c12EmitEncode(g, mk(big192, 5, u8), 0, rep(1e9, (1<<32)*1e9, one18, one18, c12DecSV(one)), false, "ordering")
	// random
	for i := 0; i < g.N(500, 8000); i++ {
		n := g.R.Intn(5)
		var abi [][]c12Enc1
		vals := []any{c12OkPrice(g), c12OkPrice(g)}
		for j := 0; j < n; j++ {
			el, v := c12RandElement(g, false)
			abi = append(abi, el)
			vals = append(vals, v)
		}
		if g.R.Intn(30) == 0 {
			vals = vals[:len(vals)-1]
		}
		va, ts, w := c12RandTime(g)
		o := mk(c12OkBase(g), w, abi)
		if g.R.Intn(20) == 0 {
			o.Base.c.Neg(o.Base.c)
		}
		c12EmitEncode(g, o, 0, evmReportJ(g.R.Uint32(), va, ts, g.R.Intn(15) == 0, vals), false, "random")
	}
}

// ---- premium legacy

func genPremium(g *G) {
	mk := func(base c12Dv, window uint64, m *big.Int) evmOpts {
		return evmOpts{Kind: "premium", Base: base, Window: window, FeedID: c12RandFeed(g), Mult: m}
	}
	price := c12DecSV(c12Dv{c12Bi(2), 0})
	base := c12Dv{c12Bi(1), 0}
	one := c12Dv{c12Bi(1), 0}
	rep := func(va, ts uint64, vals ...any) J { return evmReportJ(1, va, ts, false, vals) }
	// int192 boundaries on each of benchmark / bid / ask
	for i, bv := range c12BoundaryValues(true, 192) {
		for pos := 0; pos < 3; pos++ {
			comps := []c12Dv{one, {c12Bi(2), 0}, {c12Bi(3), 0}}
			comps[pos] = bv.d
			if bv.m != nil && bv.m.Cmp(c12Bi(100)) == 0 {
				for k := range comps {
					if k != pos {
						comps[k] = c12Dv{c12Bi(int64(k + 1)), -2}
					}
				}
			}
			va, ts, w := c12RandTime(g)
			c12EmitEncode(g, mk(base, w, bv.m), 0, rep(va, ts, price, price, c12QuoteSV(comps[1], comps[0], comps[2])), false, "boundary")
		}
		_ = i
	}
	// distinct components in every position (order of the schema)
	c12EmitEncode(g, mk(base, 7, nil), 0, rep(1e9, 5e9, price, price, c12QuoteSV(c12Dv{c12Bi(-11), 0}, c12Dv{c12Bi(22), 0}, c12Dv{c12Bi(33), 0})), false, "order")
	c12EmitEncode(g, mk(base, 7, c12Bi(-1000)), 0, rep(1e9, 5e9, c12DecSV(c12Dv{c12Bi(3), 0}), c12DecSV(c12Dv{c12Bi(7), 0}), c12QuoteSV(c12Dv{c12Bi(111), -1}, c12Dv{c12Bi(-2222), -2}, c12Dv{c12Bi(3), 3})), false, "order")
	// time table
	q := c12QuoteSV(one, one, one)
	for _, tc := range c12TimeCases(g) {
		c12EmitEncode(g, mk(base, tc.window, nil), 0, rep(tc.va, tc.ts, price, price, q), false, "time")
	}
	for _, tc := range c12TimeCasesOutside(g) {
		c12EmitEncode(g, mk(base, tc.window, nil), 0, rep(tc.va, tc.ts, price, price, q), false, "time-outside-domain")
	}
	// F3 witness: ts 3 s, window 2^32-1
	c12EmitEncode(g, mk(base, 1<<32-1, nil), 0, rep(2e9+5, 3e9+7, price, price, q), false, "time")
	// fee table
	for i, fc := range c12FeeCases() {
		var a, b any = c12DecSV(fc.price), price
		if i%2 == 0 {
			a, b = b, a
		}
		c12EmitEncode(g, mk(fc.base, 10, nil), 0, rep(1e9, 5e9, a, b, q), false, "fee")
		c12EmitEncode(g, mk(fc.base, 10, c12Bi(10)), 0, rep(1e9, 5e9, c12QuoteSV(base, fc.price, base), c12DecSV(fc.price), q), false, "fee")
	}
	for i, fc := range c12FeeCasesK4() {
		var a, b any = c12DecSV(fc.price), price
		if i%2 == 0 {
			a, b = b, a
		}
		c12EmitEncode(g, mk(fc.base, 10, nil), 0, rep(1e9, 5e9, a, b, q), false, "k4")
	}
	// structural
	structural := []struct {
		vals     []any
		specimen bool
		m        *big.Int
	}{
		{[]any{price, price, q}, true, nil},
		{[]any{}, false, nil},
		{[]any{price, price}, false, nil},
		{[]any{price, price, q, q}, false, nil},
		{[]any{c12TsvSV(1, c12DecSV(one)), price, q}, false, nil},
		{[]any{price, c12TsvSV(1, c12DecSV(one)), q}, false, nil},
		{[]any{nil, nil, q}, false, nil},
		{[]any{q, q, q}, false, nil},
		{[]any{price, price, nil}, false, nil},
		{[]any{price, price, c12DecSV(one)}, false, nil},
		{[]any{price, price, c12TsvSV(1, q)}, false, nil},
		{[]any{price, price, q}, false, c12Bi(0)},
		{[]any{price, price, nil}, false, c12Bi(0)},
		{[]any{price, price, q}, true, c12Bi(0)},
	}
	for _, s := range structural {
		c12EmitEncode(g, mk(base, 5, s.m), 0, evmReportJ(1, 1e9, 5e9, s.specimen, s.vals), false, "structural")
	}
	// empty opts text = zero opts
	empty := ""
	zo := evmOpts{Kind: "premium", Base: c12Dv{c12Bi(0), 0}, FeedID: make([]byte, 32), RawText: &empty}
	c12EmitEncode(g, zo, 0, rep(1e9, 5e9, price, price, c12QuoteSV(c12Dv{c12Bi(-1), 0}, c12Dv{c12Bi(2), 0}, c12Dv{c12Bi(3), 0})), false, "structural")
	// ordering of checks: several fields out of range at once
	big192 := c12IntDv(c12Pow2(192))
	one18 := c12DecSV(c12Dv{c12Pow10(18), 0})
	bigq := c12QuoteSV(c12IntDv(c12Pow2(191)), one, c12IntDv(new(big.Int).Neg(c12Pow2(200))))
	c12EmitEncode(g, mk(big192, 5, nil), 0, rep(1e9, 5e9, one18, price, bigq), false, "ordering")
	c12EmitEncode(g, mk(big192, 5, nil), 0, rep(1e9, 5e9, price, one18, q), false, "ordering")
	c12EmitEncode(g, mk(big192, 5, nil), 0, rep(1e9, (1<<32)*1e9, one18, one18, bigq), false, "ordering")
	// random
	for i := 0; i < g.N(500, 8000); i++ {
		m := c12RandMult(g)
		if m != nil && m.Sign() == 0 && g.R.Intn(4) != 0 {
			m = c12Bi(int64(g.R.Intn(1000) + 1))
		}
		comp := func() c12Dv {
			d := c12ValueNear(g, c12RandTarget(g, true, 192), m)
			if g.R.Intn(10) == 0 {
				d = c12RandDv(g, 300, 40)
			}
			return d
		}
		var v2 any = c12QuoteSV(comp(), comp(), comp())
		switch g.R.Intn(30) {
		case 0:
			v2 = nil
		case 1:
			v2 = c12DecSV(comp())
		}
		vals := []any{c12OkPrice(g), c12OkPrice(g), v2}
		if g.R.Intn(40) == 0 {
			vals = vals[:2]
		}
		va, ts, w := c12RandTime(g)
		o := mk(c12OkBase(g), w, m)
		if g.R.Intn(20) == 0 {
			o.Base.c.Neg(o.Base.c)
		}
		c12EmitEncode(g, o, 0, evmReportJ(g.R.Uint32(), va, ts, g.R.Intn(15) == 0, vals), false, "random")
	}
}

// ---- CalculateFee, ExtractTimestamps, Verify

func genFeeAndVerify(g *G) {
	for _, fc := range append(c12FeeCases(), c12FeeCasesK4()...) {
		g.Emit(J{"op": "evm.fee", "price": fc.price.J(), "base": fc.base.J()}, "fee-op")
	}
	for i := 0; i < g.N(400, 6000); i++ {
		p := c12Dv{new(big.Int).Add(new(big.Int).Rand(g.R, c12Pow2(1+g.R.Intn(100))), c12BigOne), g.R.Int63n(60) - 40}
		b := c12Dv{new(big.Int).Add(new(big.Int).Rand(g.R, c12Pow2(1+g.R.Intn(100))), c12BigOne), g.R.Int63n(60) - 40}
		switch g.R.Intn(12) {
		case 0:
			p.c.Neg(p.c)
		case 1:
			b.c.Neg(b.c)
		case 2:
			p.c.SetInt64(0)
		case 3:
			b.c.SetInt64(0)
		case 4: // exact halves: price = 2·base·10^k
			p = c12Dv{new(big.Int).Mul(b.c, c12Bi(2)), b.e + 18 + g.R.Int63n(3)}
			b.c.Mul(b.c, c12Bi(int64(2*g.R.Intn(50)+1)))
		}
		g.Emit(J{"op": "evm.fee", "price": p.J(), "base": b.J()}, "fee-op")
	}
	for _, tc := range append(c12TimeCases(g), c12TimeCasesOutside(g)...) {
		g.Emit(J{"op": "evm.timestamps", "report": evmReportJ(1, tc.va, tc.ts, false, nil)}, "timestamps-op")
	}
	// Verify
	zeroFeed := make([]byte, 32)
	for n := 0; n <= 6; n++ {
		for _, base := range []c12Dv{{c12Bi(0), 0}, {c12Bi(1), -3}, {c12Bi(-1), -3}, {c12Bi(-7), 5}, {c12Bi(0), -2}} {
			for _, feed := range [][]byte{zeroFeed, c12RandFeed(g)} {
				c12EmitVerify(g, evmOpts{Kind: "premium", Base: base, Window: uint64(g.R.Int63n(1 << 32)), FeedID: feed, Mult: c12RandMult(g)}, n, false)
				for k := 0; k <= 5; k++ {
					abi := [][]c12Enc1{}
					for j := 0; j < k; j++ {
						el, _ := c12RandElement(g, false)
						abi = append(abi, el)
					}
					c12EmitVerify(g, evmOpts{Kind: "unpacked", Base: base, Window: uint64(g.R.Int63n(1 << 32)), FeedID: feed, ABI: abi}, n, false)
				}
			}
		}
		for k := 0; k <= 6; k++ {
			abi := [][]c12Enc1{}
			for j := 0; j < k; j++ {
				el, _ := c12RandElement(g, true)
				abi = append(abi, el)
			}
			var feed []byte
			if k%2 == 0 {
				feed = c12RandFeed(g)
			}
			c12EmitVerify(g, evmOpts{Kind: "streamlined", FeedID: feed, ABI: abi}, n, false)
		}
	}
	empty := ""
	c12EmitVerify(g, evmOpts{Kind: "premium", Base: c12Dv{c12Bi(0), 0}, FeedID: zeroFeed, RawText: &empty}, 3, false)
}

// ---- implementation only: malformed opts, typed nil pointers

// genManyOpts: more distinct valid options than any plausible table of parsed options holds (4 200), each used once,
// then the early ones again (a bounded cache that restarts badly shows on the way round)
func genManyOpts(g *G) {
	price := c12DecSV(c12Dv{c12Bi(2), 0})
	one := c12Dv{c12Bi(1), 0}
	q := c12QuoteSV(one, one, one)
	feed := c12RandFeed(g)
	mk := func(win uint32) evmOpts {
		return evmOpts{Kind: "unpacked", Base: one, Window: uint64(win), FeedID: feed, ABI: [][]c12Enc1{{{"int192", nil}}}}
	}
	n := 4200
	if g.Lite() {
		n = 300
	}
	for i := 0; i < n; i++ {
		c12EmitEncode(g, mk(uint32(100+i)), 0, evmReportJ(7, 1e9, 5e9, false, []any{price, price, c12DecSV(c12Dv{c12Bi(int64(i)), 0})}), false, "many-distinct-opts")
	}
	for i := 0; i < 300; i++ {
		c12EmitEncode(g, mk(uint32(100+i*13)), 0, evmReportJ(7, 1e9, 5e9, false, []any{price, price, c12DecSV(c12Dv{c12Bi(int64(i)), 0})}), false, "many-distinct-opts", "again")
	}
	_ = q
}

func genImplOnly(g *G) {
	one := c12Dv{c12Bi(1), 0}
	price := c12DecSV(c12Dv{c12Bi(2), 0})
	q := c12QuoteSV(one, one, one)
	feed := "0x" + strings.Repeat("ab", 32)
	bad := []string{
		`{`, `[]`, `{"unknown":1}`, `{"feedID":"0x12"}`, `{"feedID":"` + strings.Repeat("ab", 32) + `"}`,
		`{"feedID":"` + feed + `","expirationWindow":4294967296}`, `{"feedID":"` + feed + `","expirationWindow":-1}`,
		`{"feedID":"` + feed + `","expirationWindow":1.5}`, `{"feedID":"` + feed + `","baseUSDFee":"abc"}`,
		`{"feedID":"` + feed + `","baseUSDFee":"1e99999999999"}`, `{"feedID":"` + feed + `","multiplier":"abc"}`,
		`{"feedID":"` + feed + `","abi":[{"type":"uint8","multiplier":"x"}]}`, `{"feedID":"` + feed + `","abi":[5]}`,
		`{"feedID":"` + feed + `","abi":{"type":"uint8"}}`, `{"feedID":"` + feed + `","abi":[{"type":5}]}`,
	}
	// multipliers in spellings that are NOT numbers for this codec (hex needs digits and no leading zero; no
	// exponents, separators or spaces): all refused, cheaply, never a panic
	for _, m := range []string{`"0x"`, `"0X"`, `"0xzz"`, `"0x0123"`, `"0x"`, `"1e3"`, `"1E3"`, `"1e10000000"`, `"1e2000000000"`, `"1_000"`, `" 5"`, `"5 "`, `"1.0"`, `"0b101"`, `"0o17"`, `""`, `"-"`, `"0x-5"`,
		`"0x1` + strings.Repeat("0", 70) + `"`} {
		bad = append(bad, `{"feedID":"`+feed+`","multiplier":`+m+`}`, `{"feedID":"`+feed+`","abi":[{"type":"int192","multiplier":`+m+`}]}`)
	}
	for _, kind := range []string{"premium", "unpacked", "streamlined"} {
		for _, t := range bad {
			t := t
			o := evmOpts{Kind: kind, Base: c12Dv{c12Bi(0), 0}, FeedID: make([]byte, 32), RawText: &t}
			vals := []any{price, price, q}
			op := J{"op": "evm.encode." + kind, "optsText": t, "opts": o.parsed(), "report": evmReportJ(1, 1e9, 5e9, false, vals), "malformed": true, "implOnly": true}
			if kind == "streamlined" {
				op["format"] = "5"
			}
			g.EmitImpl(op, "malformed-opts", kind)
			g.EmitImpl(J{"op": "evm.verify." + kind, "optsText": t, "opts": o.parsed(), "nStreams": 3, "malformed": true, "implOnly": true}, "malformed-opts", "verify-"+kind)
		}
	}
	// typed nil pointers and a timestamped value without inner value (cannot come out of the plugin)
	nilDec, nilQuote, nilTsv := J{"t": "nil-dec"}, J{"t": "nil-quote"}, J{"t": "nil-tsv"}
	tsvNil := J{"t": "tsv", "at": "5", "v": nil}
	base := c12Dv{c12Bi(1), 0}
	for _, v := range []any{nilDec, nilQuote, nilTsv, tsvNil} {
		c12EmitEncode(g, evmOpts{Kind: "premium", Base: base, Window: 1, FeedID: c12RandFeed(g)}, 0, evmReportJ(1, 1e9, 5e9, false, []any{v, price, q}), true, "typed-nil")
		c12EmitEncode(g, evmOpts{Kind: "premium", Base: base, Window: 1, FeedID: c12RandFeed(g)}, 0, evmReportJ(1, 1e9, 5e9, false, []any{price, price, v}), true, "typed-nil")
		c12EmitEncode(g, evmOpts{Kind: "unpacked", Base: base, Window: 1, FeedID: c12RandFeed(g), ABI: [][]c12Enc1{{{"uint8", nil}}}}, 0, evmReportJ(1, 1e9, 5e9, false, []any{price, v, c12DecSV(one)}), true, "typed-nil")
		c12EmitEncode(g, evmOpts{Kind: "unpacked", Base: base, Window: 1, FeedID: c12RandFeed(g), ABI: [][]c12Enc1{{{"uint8", nil}}}}, 0, evmReportJ(1, 1e9, 5e9, false, []any{price, price, v}), true, "typed-nil")
		c12EmitEncode(g, evmOpts{Kind: "unpacked", Base: base, Window: 1, FeedID: c12RandFeed(g), ABI: [][]c12Enc1{{{"uint8", nil}, {"uint8", nil}}}}, 0, evmReportJ(1, 1e9, 5e9, false, []any{price, price, v}), true, "typed-nil")
		c12EmitEncode(g, evmOpts{Kind: "streamlined", ABI: [][]c12Enc1{{{"uint8", nil}}}}, 5, evmReportJ(1, 1e9, 5e9, false, []any{v}), true, "typed-nil")
		c12EmitEncode(g, evmOpts{Kind: "streamlined", ABI: [][]c12Enc1{{{"bytes0", nil}}}}, 5, evmReportJ(1, 1e9, 5e9, false, []any{v}), true, "typed-nil")
		if fmt.Sprint(v) != fmt.Sprint(nilTsv) { // a nil *TimestampedStreamValue with two encoders dereferences nil: see final report
			c12EmitEncode(g, evmOpts{Kind: "streamlined", ABI: [][]c12Enc1{{{"uint8", nil}, {"uint8", nil}}}}, 5, evmReportJ(1, 1e9, 5e9, false, []any{v}), true, "typed-nil")
		}
	}
}
