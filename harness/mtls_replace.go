package main

import (
	"crypto/ed25519"
	"fmt"

	"github.com/smartcontractkit/chainlink-data-streams/rpc/mtls"
)

// op mtls.replace_seq (implementation only): one PublicKeys object, a sequence of Replace calls with lists
// of varying length (shrinking, then growing again within and beyond the old capacity); after every
// Replace the allow-list must be exactly the list just installed: Keys() returns it and a certificate is
// accepted iff its key is in it — in particular a key revoked earlier stays revoked.
//   {"lists":[[kid…],…], "probe":[kid…]} → [{"keys":[hex…], "accepted":[kid…]}, …]
func init() {
	RegOp("mtls.replace_seq", func(in J) any {
		in = normalise(in).(map[string]any)
		lists := jArr(in["lists"])
		pk, err := mtls.ValidPublicKeysFromEd25519(mtlsPubs(jArr(lists[0]))...)
		if err != nil {
			return resErr("construct", err)
		}
		var out []any
		for i, l := range lists {
			if i > 0 {
				np, err := mtls.ValidPublicKeysFromEd25519(mtlsPubs(jArr(l))...)
				if err != nil {
					return resErr("construct", err)
				}
				pk.Replace(np)
			}
			var cur []any
			for _, k := range pk.Keys() {
				cur = append(cur, hexs(k))
			}
			acc := []any{}
			for _, p := range jArr(in["probe"]) {
				_, priv := mtlsKey(jInt(p))
				if pk.VerifyPeerCertificate()([][]byte{mtlsSelfSigned(priv)}, nil) == nil {
					acc = append(acc, S(jInt(p)))
				}
			}
			out = append(out, J{"keys": cur, "accepted": acc})
		}
		return resOK(out)
	})
	// op mtls.sibling: two allow-lists built from ONE caller-owned key slice; Replace on the first must change
	// neither the second nor the caller's slice.  {"initial":[kid…],"replace":[kid…],"probe":[kid…]}
	RegOp("mtls.sibling", func(in J) any {
		in = normalise(in).(map[string]any)
		shared := mtlsPubs(jArr(in["initial"]))
		before := make([]string, len(shared))
		for i, k := range shared {
			before[i] = hexs(k)
		}
		a, err := mtls.ValidPublicKeysFromEd25519(shared...)
		if err != nil {
			return resErr("construct", err)
		}
		b, err := mtls.ValidPublicKeysFromEd25519(shared...)
		if err != nil {
			return resErr("construct", err)
		}
		np, err := mtls.ValidPublicKeysFromEd25519(mtlsPubs(jArr(in["replace"]))...)
		if err != nil {
			return resErr("construct", err)
		}
		a.Replace(np)
		// … and again and again (key rotation): a list that Replace retires and recycles must not be the caller's slice
		for k := 0; k < 3; k++ {
			rot := mtlsPubs(jArr(in["replace"]))
			if len(rot) > 1 {
				rot = append(rot[k%len(rot):], rot[:k%len(rot)]...)
			}
			np2, err := mtls.ValidPublicKeysFromEd25519(rot...)
			if err != nil {
				return resErr("construct", err)
			}
			a.Replace(np2)
		}
		var bk, after []any
		for _, k := range b.Keys() {
			bk = append(bk, hexs(k))
		}
		for _, k := range shared {
			after = append(after, hexs(k))
		}
		acc := []any{}
		for _, p := range jArr(in["probe"]) {
			_, priv := mtlsKey(jInt(p))
			if b.VerifyPeerCertificate()([][]byte{mtlsSelfSigned(priv)}, nil) == nil {
				acc = append(acc, S(jInt(p)))
			}
		}
		return resOK(J{"sibling_keys": bk, "caller_slice": after, "sibling_accepts": acc, "_before": before})
	})
	RegGen("C20", "mtls.sibling (implementation only): two allow-lists built from one caller-owned slice, Replace on one of them (lists shorter, equal and longer than the old capacity)", func(g *G) {
		for i := 0; i < g.N(40, 400); i++ {
			var ini, rep []any
			for j := 1 + g.R.Intn(5); j > 0; j-- {
				ini = append(ini, S(1+g.R.Intn(6)))
			}
			for j := 1 + g.R.Intn(6); j > 0; j-- {
				rep = append(rep, S(7+g.R.Intn(6)))
			}
			probe := []any{}
			for kid := 1; kid <= 12; kid++ {
				probe = append(probe, S(kid))
			}
			g.EmitImpl(J{"op": "mtls.sibling", "initial": ini, "replace": rep, "probe": probe}, "sibling")
		}
	})
	RegMonitor("C20", func(op J, res any) (viol []Violation, nontrivial bool) {
		if jStr(op["op"]) != "mtls.sibling" {
			return nil, false
		}
		r := jObj(res)
		bad := func(sig, d string) { viol = append(viol, Violation{Sig: "C20/" + sig, Desc: d, Op: op, Res: res}) }
		if r["panic"] != nil {
			bad("replace-panic", "Replace / Keys / verification panicked")
			return viol, true
		}
		o := jObj(r["ok"])
		if o == nil {
			return nil, false
		}
		want := map[string]bool{}
		var wantKeys []string
		for _, k := range jArr(op["initial"]) {
			pub, _ := mtlsKey(jInt(k))
			want[S(jInt(k))] = true
			wantKeys = append(wantKeys, hexs(pub))
		}
		got := func(v any) []string {
			out := []string{}
			for _, k := range jArr(v) {
				out = append(out, jStr(k))
			}
			return out
		}
		if fmt.Sprint(got(o["sibling_keys"])) != fmt.Sprint(wantKeys) || fmt.Sprint(got(o["caller_slice"])) != fmt.Sprint(wantKeys) {
			bad("replace-leaks-into-sibling", "Replace on one allow-list changed another allow-list (or the caller's key slice) built from the same slice")
		}
		acc := map[string]bool{}
		for _, a := range jArr(o["sibling_accepts"]) {
			acc[jStr(a)] = true
		}
		for _, p := range jArr(op["probe"]) {
			k := S(jInt(p))
			if acc[k] != want[k] {
				bad("replace-leaks-into-sibling", fmt.Sprintf("the allow-list that was never replaced now answers %v for key %s", acc[k], k))
			}
		}
		return viol, true
	})
	RegGen("C20", "mtls.replace_seq (implementation only): sequences of Replace with lists of varying length (shrink, then grow within and beyond the previous capacity); after each one Keys() and the verification of every key ever listed are compared with the list just installed", func(g *G) {
		for i := 0; i < g.N(60, 800); i++ {
			var lists []any
			seen := map[int]bool{}
			for k := 2 + g.R.Intn(5); k > 0; k-- {
				n := 1 + g.R.Intn(5)
				l := []any{}
				for j := 0; j < n; j++ {
					kid := 1 + g.R.Intn(12)
					seen[kid] = true
					l = append(l, S(kid))
				}
				lists = append(lists, l)
			}
			probe := []any{}
			for kid := 1; kid <= 13; kid++ {
				if seen[kid] || kid == 13 {
					probe = append(probe, S(kid))
				}
			}
			g.EmitImpl(J{"op": "mtls.replace_seq", "lists": lists, "probe": probe}, "replace-seq")
		}
		// directed: [A B C] -> [D] -> [E F]  (shrink, then grow within the old capacity)
		g.EmitImpl(J{"op": "mtls.replace_seq", "lists": []any{[]any{"1", "2", "3"}, []any{"4"}, []any{"5", "6"}}, "probe": []any{"1", "2", "3", "4", "5", "6"}}, "replace-seq", "shrink-then-grow")
	})
	RegMonitor("C20", func(op J, res any) (viol []Violation, nontrivial bool) {
		if jStr(op["op"]) != "mtls.replace_seq" {
			return nil, false
		}
		r := jObj(res)
		bad := func(sig, d string) { viol = append(viol, Violation{Sig: "C20/" + sig, Desc: d, Op: op, Res: res}) }
		if r["panic"] != nil {
			bad("replace-panic", "Replace / Keys / verification panicked")
			return viol, true
		}
		outs := jArr(r["ok"])
		for i, l := range jArr(op["lists"]) {
			if i >= len(outs) {
				break
			}
			want := map[string]bool{}
			var wantKeys []string
			for _, k := range jArr(l) {
				pub, _ := mtlsKey(jInt(k))
				want[S(jInt(k))] = true
				wantKeys = append(wantKeys, hexs(ed25519.PublicKey(pub)))
			}
			o := jObj(outs[i])
			got := []string{}
			for _, k := range jArr(o["keys"]) {
				got = append(got, jStr(k))
			}
			if fmt.Sprint(got) != fmt.Sprint(wantKeys) {
				bad("replace-keys-differ", fmt.Sprintf("after Replace #%d Keys() is not the list just installed", i))
			}
			acc := map[string]bool{}
			for _, a := range jArr(o["accepted"]) {
				acc[jStr(a)] = true
			}
			for _, p := range jArr(op["probe"]) {
				k := S(jInt(p))
				if acc[k] && !want[k] {
					bad("replace-stale-key-accepted", fmt.Sprintf("after Replace #%d key %s is accepted although it is not in the current list", i, k))
				}
				if !acc[k] && want[k] {
					bad("replace-listed-key-rejected", fmt.Sprintf("after Replace #%d key %s is rejected although it is in the current list", i, k))
				}
			}
		}
		return viol, len(outs) > 1
	})
}

// mtls.forged_tail: nothing verifies the self-signature of a peer certificate (the configuration skips chain
// verification; TLS proves possession of the key it parses itself), so a peer can present a certificate that carries
// ITS OWN key and whose trailing bytes (the signature field, the last 64 bytes of the encoding) are copied from a
// listed peer's certificate.  On one long-lived allow-list: the listed peer is verified, then the forgery, then the
// listed peer again; and on a second one in the opposite order.  The verdict depends on the key in the certificate only.
func init() {
	RegOp("mtls.forged_tail", func(in J) any {
		in = normalise(in).(map[string]any)
		listed := mtlsPubs(jArr(in["listed"]))
		_, honestPriv := mtlsKey(jInt(in["honest"]))
		_, roguePriv := mtlsKey(jInt(in["rogue"]))
		honest := mtlsSelfSigned(honestPriv)
		forged := append([]byte{}, mtlsSelfSigned(roguePriv)...)
		if len(forged) < 64 || len(honest) < 64 {
			return J{"harness-error": "certificate too short"}
		}
		copy(forged[len(forged)-64:], honest[len(honest)-64:])
		verdicts := func(order [][]byte) ([]any, error) {
			pk, err := mtls.ValidPublicKeysFromEd25519(listed...)
			if err != nil {
				return nil, err
			}
			out := []any{}
			for _, c := range order {
				out = append(out, pk.VerifyPeerCertificate()([][]byte{c}, nil) == nil)
			}
			return out, nil
		}
		a, err := verdicts([][]byte{honest, forged, honest, forged})
		if err != nil {
			return resErr("construct", err)
		}
		b, err := verdicts([][]byte{forged, honest, forged})
		if err != nil {
			return resErr("construct", err)
		}
		return resOK(J{"honest_first": a, "forged_first": b})
	})
	RegGen("C20", "mtls.forged_tail (implementation only): a certificate with an unlisted key whose last 64 bytes are copied from a listed peer's certificate, verified before and after that peer on one allow-list", func(g *G) {
		for i := 0; i < g.N(20, 200); i++ {
			listed := []any{}
			for j := 1 + g.R.Intn(4); j > 0; j-- {
				listed = append(listed, S(1+g.R.Intn(6)))
			}
			honest := jInt(listed[g.R.Intn(len(listed))])
			g.EmitImpl(J{"op": "mtls.forged_tail", "listed": listed, "honest": honest, "rogue": 20 + g.R.Intn(10)}, "forged-tail")
		}
	})
	RegMonitor("C20", func(op J, res any) (viol []Violation, nontrivial bool) {
		if jStr(op["op"]) != "mtls.forged_tail" {
			return nil, false
		}
		r := jObj(res)
		if r["panic"] != nil {
			return []Violation{{Sig: "C20/verify-panic", Desc: "verification panicked on a certificate with a copied signature field", Op: op, Res: res}}, true
		}
		o := jObj(r["ok"])
		if o == nil {
			return nil, false
		}
		if fmt.Sprint(jArr(o["honest_first"])) != fmt.Sprint([]any{true, false, true, false}) || fmt.Sprint(jArr(o["forged_first"])) != fmt.Sprint([]any{false, true, false}) {
			viol = append(viol, Violation{Sig: "C20/verdict-depends-on-earlier-certificates", Desc: fmt.Sprintf("listed key / unlisted key with the listed peer's signature bytes: verdicts %v (want [true false true false]) and %v (want [false true false])", o["honest_first"], o["forged_first"]), Op: op, Res: res})
		}
		return viol, true
	})
}
