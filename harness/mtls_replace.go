package main

import (
	"crypto/ed25519"
	"fmt"

	"github.com/smartcontractkit/chainlink-data-streams/rpc/mtls"
)

// op mtls.replace_seq (implementation only): one PublicKeys object, a sequence of Replace calls with lists
// of varying length (shrinking, then growing again within and beyond the old capacity); after every
// Replace the allow-list must be exactly the list just installed: Keys() returns it and a certificate is
// accepted iff its key is in it — in particular a key revoked earlier stays revoked.
//   {"lists":[[kid…],…], "probe":[kid…]} → [{"keys":[hex…], "accepted":[kid…]}, …]
func init() {
	RegOp("mtls.replace_seq", func(in J) any {
		in = normalise(in).(map[string]any)
		lists := jArr(in["lists"])
		pk, err := mtls.ValidPublicKeysFromEd25519(mtlsPubs(jArr(lists[0]))...)
		if err != nil {
			return resErr("construct", err)
		}
		var out []any
		for i, l := range lists {
			if i > 0 {
				np, err := mtls.ValidPublicKeysFromEd25519(mtlsPubs(jArr(l))...)
				if err != nil {
					return resErr("construct", err)
				}
				pk.Replace(np)
			}
			var cur []any
			for _, k := range pk.Keys() {
				cur = append(cur, hexs(k))
			}
			acc := []any{}
			for _, p := range jArr(in["probe"]) {
				_, priv := mtlsKey(jInt(p))
				if pk.VerifyPeerCertificate()([][]byte{mtlsSelfSigned(priv)}, nil) == nil {
					acc = append(acc, S(jInt(p)))
				}
			}
			out = append(out, J{"keys": cur, "accepted": acc})
		}
		return resOK(out)
	})
	RegGen("C20", "mtls.replace_seq (implementation only): sequences of Replace with lists of varying length (shrink, then grow within and beyond the previous capacity); after each one Keys() and the verification of every key ever listed are compared with the list just installed", func(g *G) {
		for i := 0; i < g.N(60, 800); i++ {
			var lists []any
			seen := map[int]bool{}
			for k := 2 + g.R.Intn(5); k > 0; k-- {
				n := 1 + g.R.Intn(5)
				l := []any{}
				for j := 0; j < n; j++ {
					kid := 1 + g.R.Intn(12)
					seen[kid] = true
					l = append(l, S(kid))
				}
				lists = append(lists, l)
			}
			probe := []any{}
			for kid := 1; kid <= 13; kid++ {
				if seen[kid] || kid == 13 {
					probe = append(probe, S(kid))
				}
			}
			g.EmitImpl(J{"op": "mtls.replace_seq", "lists": lists, "probe": probe}, "replace-seq")
		}
		// directed: [A B C] -> [D] -> [E F]  (shrink, then grow within the old capacity)
		g.EmitImpl(J{"op": "mtls.replace_seq", "lists": []any{[]any{"1", "2", "3"}, []any{"4"}, []any{"5", "6"}}, "probe": []any{"1", "2", "3", "4", "5", "6"}}, "replace-seq", "shrink-then-grow")
	})
	RegMonitor("C20", func(op J, res any) (viol []Violation, nontrivial bool) {
		if jStr(op["op"]) != "mtls.replace_seq" {
			return nil, false
		}
		r := jObj(res)
		bad := func(sig, d string) { viol = append(viol, Violation{Sig: "C20/" + sig, Desc: d, Op: op, Res: res}) }
		if r["panic"] != nil {
			bad("replace-panic", "Replace / Keys / verification panicked")
			return viol, true
		}
		outs := jArr(r["ok"])
		for i, l := range jArr(op["lists"]) {
			if i >= len(outs) {
				break
			}
			want := map[string]bool{}
			var wantKeys []string
			for _, k := range jArr(l) {
				pub, _ := mtlsKey(jInt(k))
				want[S(jInt(k))] = true
				wantKeys = append(wantKeys, hexs(ed25519.PublicKey(pub)))
			}
			o := jObj(outs[i])
			got := []string{}
			for _, k := range jArr(o["keys"]) {
				got = append(got, jStr(k))
			}
			if fmt.Sprint(got) != fmt.Sprint(wantKeys) {
				bad("replace-keys-differ", fmt.Sprintf("after Replace #%d Keys() is not the list just installed", i))
			}
			acc := map[string]bool{}
			for _, a := range jArr(o["accepted"]) {
				acc[jStr(a)] = true
			}
			for _, p := range jArr(op["probe"]) {
				k := S(jInt(p))
				if acc[k] && !want[k] {
					bad("replace-stale-key-accepted", fmt.Sprintf("after Replace #%d key %s is accepted although it is not in the current list", i, k))
				}
				if !acc[k] && want[k] {
					bad("replace-listed-key-rejected", fmt.Sprintf("after Replace #%d key %s is rejected although it is in the current list", i, k))
				}
			}
		}
		return viol, len(outs) > 1
	})
}
