package main

import (
	"fmt"
	"math/big"
	"sort"

	"github.com/shopspring/decimal"

	"github.com/smartcontractkit/chainlink-data-streams/llo"
)

// ops agg.median / agg.quote / agg.mode: {"f":n,"values":[SV|null]}
func init() {
	aggOp := func(f func([]llo.StreamValue, int) (llo.StreamValue, error)) OpFunc {
		return func(in J) any {
			in = normalise(in).(map[string]any)
			var vals []llo.StreamValue
			for _, v := range jArr(in["values"]) {
				vals = append(vals, jSV(v))
			}
			r, err := f(vals, jInt(in["f"]))
			if err != nil {
				return resErr(errClass(err,
					[2]string{"not enough", "not-enough"},
					[2]string{"unsupported StreamValue type", "unsupported-type"},
					[2]string{"failed to unmarshal", "unmarshal"}), err)
			}
			return resOK(svJ(r))
		}
	}
	RegOp("agg.median", aggOp(llo.MedianAggregator))
	RegOp("agg.quote", aggOp(llo.QuoteAggregator))
	RegOp("agg.mode", aggOp(llo.ModeAggregator))
	// agg.seq: several aggregators one after the other on the SAME slice (outcome() hands streamObservations[sid]
	// to every aggregator configured for the stream): {"f","values","aggs":["median","mode",…]} → list of results
	RegOp("agg.seq", func(in J) any {
		in = normalise(in).(map[string]any)
		var vals []llo.StreamValue
		for _, v := range jArr(in["values"]) {
			vals = append(vals, jSV(v))
		}
		fs := map[string]func([]llo.StreamValue, int) (llo.StreamValue, error){"median": llo.MedianAggregator, "quote": llo.QuoteAggregator, "mode": llo.ModeAggregator}
		var outs []any
		for _, a := range jArr(in["aggs"]) {
			outs = append(outs, safely(func() any {
				r, err := fs[jStr(a)](vals, jInt(in["f"]))
				if err != nil {
					return resErr(errClass(err,
						[2]string{"not enough", "not-enough"},
						[2]string{"unsupported StreamValue type", "unsupported-type"},
						[2]string{"failed to unmarshal", "unmarshal"}), err)
				}
				return resOK(svJ(r))
			}))
		}
		return resOK(outs)
	})
	RegOp("sv.binary", func(in J) any {
		in = normalise(in).(map[string]any)
		b, err := jSV(in["v"]).MarshalBinary()
		if err != nil {
			return resErr("marshal", err)
		}
		return resOK(hexs(b))
	})

	RegGen("C02", "aggregator value lists with a labelled honest/faulty split (honest strictly more than faulty, faulty ≤ f); non-trivial = at least one faulty value present and the aggregate succeeded; distinct = different op line", genC02)
	RegMonitor("C02", monC02)
	RegGen("C15", "mode-aggregator value lists (all three types, ties, exactly f and f+1 agreeing, nils) incl. all permutations of small lists; non-trivial = at least two distinct non-nil values; distinct = different op line", genC15)
	RegMonitor("C15", monC15)
}

// ---------- generators ----------

func rndDec(g *G) decimal.Decimal {
	switch g.R.Intn(10) {
	case 0:
		return decimal.New(0, int32(g.R.Intn(7)-3))
	case 1: // huge
		b := new(big.Int).Rand(g.R, new(big.Int).Lsh(big.NewInt(1), uint(1+g.R.Intn(200))))
		if g.R.Intn(2) == 0 {
			b.Neg(b)
		}
		return decimal.NewFromBigInt(b, int32(g.R.Intn(61)-30))
	case 2: // numerically small ints with a random exponent, to create equal values with different scale
		k := int64(g.R.Intn(5))
		e := int32(g.R.Intn(4))
		return decimal.New(k*pow10(int(e)), -e)
	default:
		return decimal.New(int64(g.R.Intn(2001)-1000), int32(g.R.Intn(5)-3))
	}
}

func pow10(n int) int64 {
	r := int64(1)
	for i := 0; i < n; i++ {
		r *= 10
	}
	return r
}

func rndQuote(g *G, valid bool) *llo.Quote {
	a, b, c := rndDec(g), rndDec(g), rndDec(g)
	if valid {
		x := []decimal.Decimal{a, b, c}
		sort.Slice(x, func(i, j int) bool { return x[i].Cmp(x[j]) < 0 })
		return &llo.Quote{Bid: x[0], Benchmark: x[1], Ask: x[2]}
	}
	return &llo.Quote{Bid: a, Benchmark: b, Ask: c}
}

func rndSV(g *G, kind int) llo.StreamValue {
	switch kind {
	case 0:
		return llo.ToDecimal(rndDec(g))
	case 1:
		return rndQuote(g, g.R.Intn(4) != 0)
	case 2:
		return &llo.TimestampedStreamValue{ObservedAtNanoseconds: rndTs(g), StreamValue: llo.ToDecimal(rndDec(g))}
	case 3: // timestamped with non-decimal inner (validation rejects these; aggregators must skip them)
		return &llo.TimestampedStreamValue{ObservedAtNanoseconds: rndTs(g), StreamValue: rndQuote(g, true)}
	default:
		return nil
	}
}

func rndTs(g *G) uint64 {
	switch g.R.Intn(6) {
	case 0:
		return 0
	case 1:
		return ^uint64(0) - uint64(g.R.Intn(3))
	default:
		return uint64(g.R.Intn(5000))
	}
}

// genC02 emits, per case, an op whose value list is the concatenation honest ++ faulty shuffled,
// with the index sets recorded in "honest" (ignored by the model).
func genC02(g *G) {
	n := g.N(1500, 20000)
	for i := 0; i < n; i++ {
		f := 1 + g.R.Intn(3)
		if i%6 == 5 {
			f = 4 + g.R.Intn(7) // the larger networks (up to 31 oracles): lists of 13 … 31 values
		}
		b := g.R.Intn(f + 1)
		h := b + 1 + g.R.Intn(2*f+2-b)
		op := "agg.median"
		hk := 0 // honest kind
		switch g.R.Intn(4) {
		case 1:
			op, hk = "agg.quote", 1
		case 2:
			hk = 2
		case 3:
			hk = 1 // median over quotes takes benchmarks
		}
		type lv struct {
			v      any
			honest bool
		}
		var l []lv
		for k := 0; k < h; k++ {
			var sv llo.StreamValue
			if hk == 1 {
				sv = rndQuote(g, true)
			} else {
				sv = rndSV(g, hk)
			}
			l = append(l, lv{svJ(sv), true})
		}
		for k := 0; k < b; k++ {
			l = append(l, lv{svJ(rndSV(g, g.R.Intn(5))), false})
		}
		g.R.Shuffle(len(l), func(i, j int) { l[i], l[j] = l[j], l[i] })
		vals := make([]any, len(l))
		var hidx []any
		for i, e := range l {
			vals[i] = e.v
			if e.honest {
				hidx = append(hidx, i)
			}
		}
		tag := []string{op, "f=" + S(f), "honestKind=" + S(hk)}
		if len(l) > 12 {
			// sort.Slice is not stable above 12 elements: among numerically equal values of different scale (0.0 vs
			// 0.000) the implementation's pick is deterministic but not the stable sort's pick the model driver makes.
			// The theorems hold for every sorted permutation; these cases are judged by the monitors only.
			tag = append(tag, "len>12")
			g.EmitImpl(J{"op": op, "f": f, "values": vals, "honest": hidx}, tag...)
			continue
		}
		g.Emit(J{"op": op, "f": f, "values": vals, "honest": hidx}, tag...)
	}
	// one correct observer reports a value of another type (a data source in transition): it is dropped
	// by the type bucket, and inside the winning bucket correct values still outnumber faulty ones — the
	// aggregate must still come from a correct observer, whatever the position of the odd value in the list
	for i := 0; i < g.N(200, 3000); i++ {
		f := 1 + g.R.Intn(3)
		b := 1 + g.R.Intn(f)
		h := b + 2 + g.R.Intn(f+1) // h-1 in-bucket correct values > b faulty ones
		op := []string{"agg.median", "agg.quote"}[g.R.Intn(2)]
		odd := svJ(llo.ToDecimal(rndDec(g)))
		var rest []any
		var hidx []any
		for k := 0; k < h-1; k++ {
			rest = append(rest, svJ(rndQuote(g, true)))
		}
		extreme := decimal.New(int64(1+g.R.Intn(9)), int32(20+g.R.Intn(10)))
		var faulty []any
		for k := 0; k < b; k++ {
			faulty = append(faulty, svJ(&llo.Quote{Bid: extreme, Benchmark: extreme, Ask: extreme}))
		}
		// positions: the odd value early, the faulty values late (and the other way round, and shuffled)
		var vals []any
		switch g.R.Intn(3) {
		case 0:
			vals = append(append([]any{odd}, rest...), faulty...)
			for k := 0; k < h; k++ {
				hidx = append(hidx, k)
			}
		case 1:
			vals = append(append(append([]any{}, faulty...), rest...), odd)
			for k := 0; k < h; k++ {
				hidx = append(hidx, b+k)
			}
		default:
			vals = append(append(append([]any{}, rest[:1]...), odd), append(append([]any{}, faulty...), rest[1:]...)...)
			hidx = append(hidx, 0, 1)
			for k := 0; k < h-2; k++ {
				hidx = append(hidx, 2+b+k)
			}
		}
		g.Emit(J{"op": op, "f": f, "values": vals, "honest": hidx}, op, "odd-typed-correct-value", "f="+S(f))
	}
	// correct values with more significant digits than a float64 holds, agreeing in the leading 16; the
	// faulty value differs only below that (order must be decided by exact comparison)
	for i := 0; i < g.N(150, 2000); i++ {
		f := 1 + g.R.Intn(3)
		b := 1 + g.R.Intn(f)
		h := b + 1 + g.R.Intn(f+1)
		base := new(big.Int).Mul(big.NewInt(int64(1000+g.R.Intn(9000))), new(big.Int).Exp(big.NewInt(10), big.NewInt(int64(17+g.R.Intn(6))), nil))
		exp := int32(-g.R.Intn(19))
		mk := func(delta int64) any {
			return svJ(llo.ToDecimal(decimal.NewFromBigInt(new(big.Int).Add(base, big.NewInt(delta)), exp)))
		}
		type lv struct {
			v      any
			honest bool
		}
		var l []lv
		for k := 0; k < h; k++ {
			l = append(l, lv{mk(int64(g.R.Intn(3))), true})
		}
		for k := 0; k < b; k++ {
			d := int64(1000 + g.R.Intn(200000))
			if g.R.Intn(2) == 0 {
				d = -d
			}
			l = append(l, lv{mk(d), false})
		}
		g.R.Shuffle(len(l), func(i, j int) { l[i], l[j] = l[j], l[i] })
		vals := make([]any, len(l))
		var hidx []any
		for i, e := range l {
			vals[i] = e.v
			if e.honest {
				hidx = append(hidx, i)
			}
		}
		g.Emit(J{"op": "agg.median", "f": f, "values": vals, "honest": hidx}, "agg.median", "beyond-float64-precision", "f="+S(f))
	}
	// starvation: at most f usable values => no aggregate
	for i := 0; i < g.N(200, 2000); i++ {
		f := 1 + g.R.Intn(3)
		k := g.R.Intn(f + 1)
		var vals []any
		for j := 0; j < k; j++ {
			vals = append(vals, svJ(llo.ToDecimal(rndDec(g))))
		}
		for j := g.R.Intn(4); j > 0; j-- {
			vals = append(vals, nil)
		}
		g.Emit(J{"op": "agg.median", "f": f, "values": vals, "honest": []any{}, "starved": true}, "starved")
	}
	// starvation of the quote aggregator: at most f VALID quotes, padded with nils, other types and
	// invalid quotes so that the raw list is longer than f
	for i := 0; i < g.N(200, 2000); i++ {
		f := 1 + g.R.Intn(3)
		k := g.R.Intn(f + 1)
		var vals []any
		for j := 0; j < k; j++ {
			vals = append(vals, svJ(rndQuote(g, true)))
		}
		for j := 1 + g.R.Intn(2*f+1); j > 0; j-- {
			switch g.R.Intn(3) {
			case 0:
				vals = append(vals, nil)
			case 1:
				vals = append(vals, svJ(llo.ToDecimal(rndDec(g))))
			default:
				vals = append(vals, svJ(&llo.Quote{Bid: decimal.New(5, 0), Benchmark: decimal.New(4, 0), Ask: decimal.New(3, 0)}))
			}
		}
		g.R.Shuffle(len(vals), func(a, b int) { vals[a], vals[b] = vals[b], vals[a] })
		g.Emit(J{"op": "agg.quote", "f": f, "values": vals, "honest": []any{}, "starved": true}, "starved-quote")
	}
}

func svDec(v any) (decimal.Decimal, bool) {
	m := jObj(v)
	if m == nil || jStr(m["t"]) != "dec" {
		return decimal.Decimal{}, false
	}
	return jDec(m["d"]), true
}

// monC02: the property on the implementation's output
func monC02(op J, res any) (viol []Violation, nontrivial bool) {
	name := jStr(op["op"])
	if name != "agg.median" && name != "agg.quote" {
		return
	}
	vals := jArr(op["values"])
	hset := map[int]bool{}
	for _, i := range jArr(op["honest"]) {
		hset[jInt(i)] = true
	}
	f := jInt(op["f"])
	r := jObj(res)
	bad := func(sig, d string) { viol = append(viol, Violation{Sig: "C02/" + sig, Desc: d, Op: op, Res: res}) }
	if r["panic"] != nil {
		bad("panic", "aggregator panicked")
		return
	}
	if jBool(op["starved"]) {
		if r["ok"] != nil {
			bad("starved-aggregate", "aggregate produced from at most f usable values")
		}
		return viol, true
	}
	okv := jObj(r["ok"])
	nf := len(vals) - len(hset)
	nontrivial = nf > 0 && okv != nil
	// with honest > faulty and honest > f the aggregate must succeed
	if okv == nil {
		if len(hset) > f {
			bad("refused", "aggregation refused although more than f honest values were supplied")
		}
		return
	}
	inRange := func(get func(any) (decimal.Decimal, bool), got decimal.Decimal, what string) {
		var lo, hi *decimal.Decimal
		for i, v := range vals {
			if !hset[i] {
				continue
			}
			d0, ok := get(v)
			if !ok {
				continue
			}
			d := d0
			if lo == nil || d.Cmp(*lo) < 0 {
				lo = &d
			}
			if hi == nil || d.Cmp(*hi) > 0 {
				hi = &d
			}
		}
		if lo == nil {
			return
		}
		if got.Cmp(*lo) < 0 || got.Cmp(*hi) > 0 {
			bad("out-of-range/"+what, what+" outside the honest range")
		}
	}
	u64dec := func(v any) decimal.Decimal { return decimal.NewFromBigInt(jBig(v), 0) }
	switch jStr(okv["t"]) {
	case "dec":
		got := jDec(okv["d"])
		inRange(func(v any) (decimal.Decimal, bool) {
			m := jObj(v)
			if m == nil {
				return decimal.Decimal{}, false
			}
			switch jStr(m["t"]) {
			case "dec":
				return jDec(m["d"]), true
			case "quote":
				return jDec(m["bm"]), true
			}
			return decimal.Decimal{}, false
		}, got, "median")
	case "quote":
		if name == "agg.quote" {
			bid, bm, ask := jDec(okv["bid"]), jDec(okv["bm"]), jDec(okv["ask"])
			if bid.Cmp(bm) > 0 || bm.Cmp(ask) > 0 {
				bad("quote-order", "aggregate quote violates bid<=benchmark<=ask")
			}
			for _, c := range []struct {
				k string
				d decimal.Decimal
			}{{"bid", bid}, {"bm", bm}, {"ask", ask}} {
				k := c.k
				inRange(func(v any) (decimal.Decimal, bool) {
					m := jObj(v)
					if m == nil || jStr(m["t"]) != "quote" {
						return decimal.Decimal{}, false
					}
					return jDec(m[k]), true
				}, c.d, "quote."+k)
			}
		}
	case "tsv":
		inner := jObj(okv["v"])
		if jStr(inner["t"]) == "dec" {
			inRange(func(v any) (decimal.Decimal, bool) {
				m := jObj(v)
				if m == nil || jStr(m["t"]) != "tsv" {
					return decimal.Decimal{}, false
				}
				return svDec(m["v"])
			}, jDec(inner["d"]), "tsv.value")
		}
		inRange(func(v any) (decimal.Decimal, bool) {
			m := jObj(v)
			if m == nil || jStr(m["t"]) != "tsv" {
				return decimal.Decimal{}, false
			}
			return u64dec(m["at"]), true
		}, u64dec(okv["at"]), "tsv.observedAt")
	}
	return
}

// ---------- C15 ----------

func genC15(g *G) {
	n := g.N(1500, 20000)
	for i := 0; i < n; i++ {
		f := g.R.Intn(4)
		// a small pool of distinct values, drawn with repetition
		pool := []any{}
		for k := 1 + g.R.Intn(4); k > 0; k-- {
			pool = append(pool, svJ(rndSV(g, g.R.Intn(3))))
		}
		if g.R.Intn(3) == 0 { // numerically equal decimals with different scale are different keys
			pool = append(pool, svJ(llo.ToDecimal(decimal.New(10, -1))), svJ(llo.ToDecimal(decimal.New(1, 0))))
		}
		m := 1 + g.R.Intn(3*f+3)
		vals := make([]any, m)
		for j := range vals {
			if g.R.Intn(8) == 0 {
				vals[j] = nil
			} else {
				vals[j] = pool[g.R.Intn(len(pool))]
			}
		}
		g.Emit(J{"op": "agg.mode", "f": f, "values": vals}, "random", "f="+S(f))
	}
	// wide lists (up to the 31 oracles a deployment can have) with many distinct values: one value is reported
	// f, f+1 or more times at positions spread over the whole list, the rest are singletons and pairs
	for i := 0; i < g.N(400, 6000); i++ {
		f := g.R.Intn(4)
		m := 8 + g.R.Intn(24)
		k := []int{f, f + 1, f + 1, f + 2, 2 * (f + 1)}[g.R.Intn(5)]
		if k > m {
			k = m
		}
		rep := svJ(llo.ToDecimal(decimal.New(int64(g.R.Intn(2000)), int32(-g.R.Intn(3)))))
		vals := []any{}
		for j := 0; j < k; j++ {
			vals = append(vals, rep)
		}
		next := int64(5000)
		for len(vals) < m {
			v := svJ(llo.ToDecimal(decimal.New(next, 0)))
			next += int64(1 + g.R.Intn(3))
			vals = append(vals, v)
			if g.R.Intn(5) == 0 && len(vals) < m && f >= 1 {
				vals = append(vals, v) // a pair: still below f+1 unless f = 1
			}
		}
		g.R.Shuffle(len(vals), func(a, b int) { vals[a], vals[b] = vals[b], vals[a] })
		if k > 0 && g.R.Intn(2) == 0 {
			// the repeated value first and last: every other candidate is first seen in between
			for j, v := range vals {
				if cdcSame(v, rep) {
					vals[0], vals[j] = vals[j], vals[0]
					break
				}
			}
			for j := len(vals) - 1; j > 0; j-- {
				if cdcSame(vals[j], rep) {
					vals[len(vals)-1], vals[j] = vals[j], vals[len(vals)-1]
					break
				}
			}
		}
		g.Emit(J{"op": "agg.mode", "f": f, "values": vals}, "wide-list", "f="+S(f))
	}
	// values whose serialized forms are related (one is the other followed by zero bytes, or shifted by whole
	// bytes): coefficients c and c·256^k at the same exponent; votes for them must not pool
	for i := 0; i < g.N(300, 4000); i++ {
		f := 1 + g.R.Intn(3)
		c := int64(1 + g.R.Intn(255))
		e := int32(-g.R.Intn(4))
		sh := []int64{256, 65536, 1 << 24, 1 << 32}[g.R.Intn(4)]
		a, b := svJ(llo.ToDecimal(decimal.New(c, e))), svJ(llo.ToDecimal(decimal.New(c*sh, e)))
		vals := []any{}
		na := g.R.Intn(f + 1)
		nb := f + 1 - na - g.R.Intn(2) // together f or f+1, neither alone more than f
		if nb < 0 {
			nb = 0
		}
		if nb > f {
			nb = f
		}
		for j := 0; j < na; j++ {
			vals = append(vals, a)
		}
		for j := 0; j < nb; j++ {
			vals = append(vals, b)
		}
		for j := g.R.Intn(2*f + 1); j > 0; j-- {
			vals = append(vals, svJ(llo.ToDecimal(decimal.New(int64(7000+j), e))))
		}
		g.R.Shuffle(len(vals), func(x, y int) { vals[x], vals[y] = vals[y], vals[x] })
		g.Emit(J{"op": "agg.mode", "f": f, "values": vals}, "byte-shifted-coefficients", "f="+S(f))
	}
	// exactly f and exactly f+1 agreeing
	for f := 0; f <= 3; f++ {
		for _, k := range []int{f, f + 1} {
			a := svJ(llo.ToDecimal(decimal.New(7, 0)))
			vals := []any{}
			for i := 0; i < k; i++ {
				vals = append(vals, a)
			}
			for i := 0; i < f; i++ {
				vals = append(vals, svJ(llo.ToDecimal(decimal.New(int64(100+i), 0))))
			}
			g.Emit(J{"op": "agg.mode", "f": f, "values": vals}, "boundary")
		}
	}
	// the same list handed to several aggregators in a row (an aggregator must not modify its input)
	for i := 0; i < g.N(300, 4000); i++ {
		f := 1 + g.R.Intn(3)
		var vals []any
		// a minority-typed or nil entry in front, then values of the majority type with one value f times
		switch g.R.Intn(3) {
		case 0:
			vals = append(vals, nil)
		case 1:
			vals = append(vals, svJ(rndQuote(g, true)))
		}
		rep := svJ(llo.ToDecimal(decimal.New(int64(g.R.Intn(5)), 0)))
		for k := 0; k < f; k++ {
			vals = append(vals, rep)
		}
		for k := 1 + g.R.Intn(4); k > 0; k-- {
			vals = append(vals, svJ(llo.ToDecimal(decimal.New(int64(10+g.R.Intn(50)), 0))))
		}
		if g.R.Intn(2) == 0 {
			vals = append(vals, rep) // now f+1 of them: the positive case
		}
		aggs := [][]any{{"median", "mode"}, {"mode", "mode"}, {"mode", "median"}, {"quote", "mode"}, {"mode", "quote", "median"}}[g.R.Intn(5)]
		g.Emit(J{"op": "agg.seq", "f": f, "values": vals, "aggs": aggs}, "seq")
	}
	// quote lists handed to the quote aggregator and then to the mode: f+1 identical quotes hold the median
	// benchmark while their bid / ask differ from the component-wise medians
	for i := 0; i < g.N(150, 2000); i++ {
		f := 1 + g.R.Intn(3)
		q := func(b, m, a int64) any {
			return svJ(&llo.Quote{Bid: decimal.New(b, 0), Benchmark: decimal.New(m, 0), Ask: decimal.New(a, 0)})
		}
		base := int64(10 + g.R.Intn(50))
		var vals []any
		for k := 0; k <= f; k++ {
			vals = append(vals, q(base-4, base, base+4))
		}
		for k := 0; k < f; k++ {
			vals = append(vals, q(base-3+int64(k), base-2, base+5+int64(k)))
		}
		for k := 0; k < f; k++ {
			vals = append(vals, q(base-1, base+1+int64(k), base+2+int64(k)))
		}
		g.R.Shuffle(len(vals), func(a, b int) { vals[a], vals[b] = vals[b], vals[a] })
		aggs := [][]any{{"quote", "mode"}, {"mode", "quote", "mode"}, {"median", "quote", "mode"}}[g.R.Intn(3)]
		g.Emit(J{"op": "agg.seq", "f": f, "values": vals, "aggs": aggs}, "seq", "quotes")
	}
	// history independence: a call that fails half-way (a value that cannot be serialized, met after some
	// values were tallied) must leave nothing behind for the next call, which has only f supporters
	for f := 1; f <= 3; f++ {
		for rep := 0; rep < 3; rep++ {
			good := J{"t": "tsv", "at": S(5 + rep), "v": svJ(llo.ToDecimal(decimal.New(7, 0)))}
			poison := J{"t": "tsv", "at": "9", "v": nil}
			g.EmitImpl(J{"op": "agg.mode", "f": f, "values": []any{good, poison}}, "poison")
			probe := []any{}
			for i := 0; i < f; i++ {
				probe = append(probe, good)
			}
			g.Emit(J{"op": "agg.mode", "f": f, "values": probe}, "probe-after-poison")
		}
	}
	// all permutations of small tied lists
	base := []any{
		svJ(llo.ToDecimal(decimal.New(1, 0))), svJ(llo.ToDecimal(decimal.New(1, 0))),
		svJ(llo.ToDecimal(decimal.New(2, 0))), svJ(llo.ToDecimal(decimal.New(2, 0))),
		svJ(&llo.Quote{Bid: decimal.New(1, 0), Benchmark: decimal.New(2, 0), Ask: decimal.New(3, 0)}),
		svJ(&llo.Quote{Bid: decimal.New(1, 0), Benchmark: decimal.New(2, 0), Ask: decimal.New(3, 0)}),
	}
	permute(base, func(p []any) {
		g.Emit(J{"op": "agg.mode", "f": 1, "values": append([]any{}, p...)}, "perm")
	})
}

func permute(a []any, f func([]any)) {
	var rec func(int)
	rec = func(k int) {
		if k == len(a) {
			f(a)
			return
		}
		for i := k; i < len(a); i++ {
			a[k], a[i] = a[i], a[k]
			rec(k + 1)
			a[k], a[i] = a[i], a[k]
		}
	}
	rec(0)
}

// monC15: result occurs >= f+1 times (byte-identical), is of the most common type, and the same
// result is obtained for a sorted copy of the list (order independence, implementation vs itself).
func monC15(op J, res any) (viol []Violation, nontrivial bool) {
	if jStr(op["op"]) == "agg.seq" {
		outs := jArr(jObj(res)["ok"])
		for i, a := range jArr(op["aggs"]) {
			if jStr(a) != "mode" || i >= len(outs) {
				continue
			}
			vs, nt := monC15(J{"op": "agg.mode", "f": op["f"], "values": op["values"]}, outs[i])
			nontrivial = nontrivial || nt
			for _, v := range vs {
				if v.Sig == "C15/order-dependent" {
					continue // the re-evaluation inside the single-call monitor does not apply to a sequence
				}
				v.Op, v.Res = op, res
				v.Desc = fmt.Sprintf("aggregator %d of a sequence on one observation list: %s", i, v.Desc)
				viol = append(viol, v)
			}
		}
		return viol, nontrivial
	}
	if jStr(op["op"]) != "agg.mode" {
		return
	}
	vals := jArr(op["values"])
	f := jInt(op["f"])
	r := jObj(res)
	bad := func(sig, d string) { viol = append(viol, Violation{Sig: "C15/" + sig, Desc: d, Op: op, Res: res}) }
	if r["panic"] != nil {
		bad("panic", "mode aggregator panicked")
		return
	}
	count := map[string]int{}
	typeCount := map[string]int{}
	for _, v := range vals {
		if v == nil {
			continue
		}
		b, _ := jSV(v).MarshalBinary()
		count[jStr(jObj(v)["t"])+":"+string(b)]++
		typeCount[jStr(jObj(v)["t"])]++
	}
	nontrivial = len(count) >= 2
	maxc := 0
	for _, c := range count {
		if c > maxc {
			maxc = c
		}
	}
	if okv, ok := r["ok"]; ok {
		if okv == nil {
			bad("nil-result", "mode returned nil value without error")
			return
		}
		b, _ := jSV(okv).MarshalBinary()
		t := jStr(jObj(okv)["t"])
		if count[t+":"+string(b)] < f+1 {
			bad("below-threshold", "mode result reported by fewer than f+1 observers")
		}
		for _, c := range typeCount {
			if c > typeCount[t] {
				bad("minority-type", "mode result is not of the most common type")
			}
		}
	}
	// order independence: evaluate the implementation on a canonical re-ordering
	cp := append([]any{}, vals...)
	sort.SliceStable(cp, func(i, j int) bool { return string(marshal(cp[i])) < string(marshal(cp[j])) })
	res2 := normalise(runOp(J{"op": "agg.mode", "f": f, "values": cp}))
	if string(marshal(stripPrivate(res2))) != string(marshal(stripPrivate(res))) {
		bad("order-dependent", "mode result depends on the order of observations")
	}
	return
}
