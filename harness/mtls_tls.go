package main

// C20 — implementation-only part: REAL TLS 1.3 handshakes between peers built with the package's
// transport credentials (and rogue peers built with plain crypto/tls), and the concurrent stress of
// Replace ∥ VerifyPeerCertificate ∥ Keys.  None of this is in the Lean model's domain (DESIGN §4.C20:
// the handshake and the Go memory model are the partial part), so every op here is g.EmitImpl.

import (
	"bytes"
	"context"
	"crypto"
	"crypto/ed25519"
	"crypto/tls"
	"errors"
	"fmt"
	"io"
	"net"
	"runtime"
	"sync"
	"sync/atomic"
	"time"

	"google.golang.org/grpc/credentials"

	"github.com/smartcontractkit/chainlink-data-streams/rpc/mtls"
)

// ---- a buffered in-memory duplex connection (net.Pipe is unbuffered: the TLS 1.3 server writes its
// session tickets at the end of the handshake while the client is already writing → deadlock)

type mtlsHalf struct {
	mu     sync.Mutex
	cond   *sync.Cond
	buf    []byte
	closed bool
}

func newMtlsHalf() *mtlsHalf { h := &mtlsHalf{}; h.cond = sync.NewCond(&h.mu); return h }

type mtlsConn struct{ r, w *mtlsHalf }

type mtlsAddr struct{}

func (mtlsAddr) Network() string { return "mem" }
func (mtlsAddr) String() string  { return "mem" }

func mtlsPipe() (*mtlsConn, *mtlsConn) {
	a, b := newMtlsHalf(), newMtlsHalf()
	return &mtlsConn{r: a, w: b}, &mtlsConn{r: b, w: a}
}

func (c *mtlsConn) Read(p []byte) (int, error) {
	c.r.mu.Lock()
	defer c.r.mu.Unlock()
	for len(c.r.buf) == 0 && !c.r.closed {
		c.r.cond.Wait()
	}
	if len(c.r.buf) == 0 {
		return 0, io.EOF
	}
	n := copy(p, c.r.buf)
	c.r.buf = c.r.buf[n:]
	return n, nil
}

func (c *mtlsConn) Write(p []byte) (int, error) {
	c.w.mu.Lock()
	defer c.w.mu.Unlock()
	if c.w.closed {
		return 0, io.ErrClosedPipe
	}
	c.w.buf = append(c.w.buf, p...)
	c.w.cond.Broadcast()
	return len(p), nil
}

// Close closes both directions; data already written stays readable by the peer (so that a TLS
// alert sent just before closing is still delivered).
func (c *mtlsConn) Close() error {
	for _, h := range []*mtlsHalf{c.r, c.w} {
		h.mu.Lock()
		h.closed = true
		h.cond.Broadcast()
		h.mu.Unlock()
	}
	return nil
}
func (c *mtlsConn) LocalAddr() net.Addr              { return mtlsAddr{} }
func (c *mtlsConn) RemoteAddr() net.Addr             { return mtlsAddr{} }
func (c *mtlsConn) SetDeadline(time.Time) error      { return nil }
func (c *mtlsConn) SetReadDeadline(time.Time) error  { return nil }
func (c *mtlsConn) SetWriteDeadline(time.Time) error { return nil }

// ---- peers

// mtlsPeer is one side of a handshake: either the package's credentials or a plain tls.Config.
type mtlsPeer struct {
	creds credentials.TransportCredentials
	cfg   *tls.Config
}

func mtlsPubs(kids []any) []ed25519.PublicKey {
	var out []ed25519.PublicKey
	for _, k := range kids {
		p, _ := mtlsKey(jInt(k))
		out = append(out, p)
	}
	return out
}

func mtlsRogueCert(kind string, kid int) []tls.Certificate {
	switch kind {
	case "nocert":
		return nil
	case "rawtls": // one Ed25519 certificate, hand-made configuration
		_, priv := mtlsKey(kid)
		return []tls.Certificate{{Certificate: [][]byte{mtlsSelfSigned(priv)}, PrivateKey: priv}}
	case "twocerts": // chain of two certificates, leaf = kid
		_, priv := mtlsKey(kid)
		_, other := mtlsKey(kid + 500)
		return []tls.Certificate{{Certificate: [][]byte{mtlsSelfSigned(priv), mtlsSelfSigned(other)}, PrivateKey: priv}}
	case "ecdsa":
		k, _ := mtlsOtherKeys()
		return []tls.Certificate{{Certificate: [][]byte{mtlsSelfSigned(k)}, PrivateKey: k}}
	case "rsa":
		_, k := mtlsOtherKeys()
		return []tls.Certificate{{Certificate: [][]byte{mtlsSelfSigned(k)}, PrivateKey: k}}
	}
	panic("unknown peer kind " + kind)
}

// mtlsBuildPeer: kind "creds" = mtls.NewTransportCredentials(priv(kid), allow);
// "signer" = mtls.NewTransportSigner; "tlsconfig" = mtls.NewTLSConfig (no ClientAuth!);
// everything else is a rogue peer that accepts any certificate.
func mtlsBuildPeer(p any, server bool) (mtlsPeer, error) {
	kind := jStr(jget(p, "kind"))
	kid := jInt(jget(p, "kid"))
	switch kind {
	case "creds":
		_, priv := mtlsKey(kid)
		c, err := mtls.NewTransportCredentials(priv, mtlsPubs(jArr(jget(p, "allow"))))
		return mtlsPeer{creds: c}, err
	case "signer":
		_, priv := mtlsKey(kid)
		c, err := mtls.NewTransportSigner(crypto.Signer(priv), mtlsPubs(jArr(jget(p, "allow"))))
		return mtlsPeer{creds: c}, err
	case "tlsconfig":
		_, priv := mtlsKey(kid)
		cfg, err := mtls.NewTLSConfig(priv, mtlsPubs(jArr(jget(p, "allow"))))
		if err == nil {
			cfg.NextProtos = []string{"h2"}
		}
		return mtlsPeer{cfg: cfg}, err
	}
	cfg := &tls.Config{
		Certificates:       mtlsRogueCert(kind, kid),
		InsecureSkipVerify: true, //nolint:gosec // rogue peer of the test matrix
		MinVersion:         tls.VersionTLS13,
		MaxVersion:         tls.VersionTLS13,
		NextProtos:         []string{"h2"},
	}
	if server {
		cfg.ClientAuth = tls.RequestClientCert
	}
	return mtlsPeer{cfg: cfg}, nil
}

func mtlsHandshakeErrClass(err error) string {
	if err == nil {
		return ""
	}
	return errClass(err,
		[2]string{"unknown public key", "unknown-key"},
		[2]string{"required exactly one", "cert-count"},
		[2]string{"requires an ed25519", "not-ed25519"},
		[2]string{"didn't provide a certificate", "no-client-cert"},
		[2]string{"certificate required", "alert-certificate-required"},
		[2]string{"bad certificate", "alert-bad-certificate"},
		[2]string{"EOF", "eof"},
		[2]string{"closed pipe", "closed"},
		[2]string{"context", "timeout"})
}

// mtlsHandshake runs one real handshake and one application-data round trip.  In TLS 1.3 the
// client's Handshake returns before the server has judged the client certificate, so "established"
// is decided by the round trip, not by the handshake return values.
func mtlsHandshake(server, client mtlsPeer) (established bool, serverErr, clientErr error, version uint16) {
	cc, sc := mtlsPipe()
	watchdog := time.AfterFunc(8*time.Second, func() { cc.Close(); sc.Close() })
	defer watchdog.Stop()
	var wg sync.WaitGroup
	wg.Add(1)
	go func() {
		defer wg.Done()
		defer sc.Close()
		var conn net.Conn
		var err error
		if server.creds != nil {
			conn, _, err = server.creds.ServerHandshake(sc)
		} else {
			t := tls.Server(sc, server.cfg)
			err = t.Handshake()
			conn = t
		}
		if err != nil {
			serverErr = err
			return
		}
		buf := make([]byte, 4)
		if _, err := io.ReadFull(conn, buf); err != nil {
			serverErr = err
			return
		}
		if !bytes.Equal(buf, []byte("ping")) {
			serverErr = errors.New("unexpected application data")
			return
		}
		if _, err := conn.Write([]byte("pong")); err != nil {
			serverErr = err
		}
	}()
	func() {
		defer cc.Close()
		var conn net.Conn
		var err error
		ctx, cancel := context.WithTimeout(context.Background(), 8*time.Second)
		defer cancel()
		if client.creds != nil {
			var ai credentials.AuthInfo
			conn, ai, err = client.creds.ClientHandshake(ctx, "dsv.test:443", cc)
			if ti, ok := ai.(credentials.TLSInfo); ok {
				version = ti.State.Version
			}
		} else {
			cfg := client.cfg.Clone()
			cfg.ServerName = "dsv.test"
			t := tls.Client(cc, cfg)
			err = t.HandshakeContext(ctx)
			conn = t
			if err == nil {
				version = t.ConnectionState().Version
			}
		}
		if err != nil {
			clientErr = err
			return
		}
		if _, err := conn.Write([]byte("ping")); err != nil {
			clientErr = err
			return
		}
		buf := make([]byte, 4)
		if _, err := io.ReadFull(conn, buf); err != nil {
			clientErr = err
			return
		}
		established = bytes.Equal(buf, []byte("pong"))
	}()
	wg.Wait()
	return
}

func mtlsContains(l []any, kid int) bool {
	for _, k := range l {
		if jInt(k) == kid {
			return true
		}
	}
	return false
}

func init() {
	// op mtls.handshake : {"server":{"kind","kid","allow":[kid…]},"client":{…}}
	RegOp("mtls.handshake", func(in J) any {
		in = normalise(in).(map[string]any)
		srv, err := mtlsBuildPeer(in["server"], true)
		if err != nil {
			return resErr("construct-server", err)
		}
		cli, err := mtlsBuildPeer(in["client"], false)
		if err != nil {
			return resErr("construct-client", err)
		}
		est, se, ce, ver := mtlsHandshake(srv, cli)
		out := J{"established": est, "server_err": mtlsHandshakeErrClass(se), "client_err": mtlsHandshakeErrClass(ce), "tls13": ver == tls.VersionTLS13}
		if se != nil {
			out["_server_msg"] = se.Error()
		}
		if ce != nil {
			out["_client_msg"] = ce.Error()
		}
		return resOK(out)
	})

	// op mtls.replace_handshake : the server's allow-list is a *PublicKeys that is Replace()d between
	// handshakes: {"client_kid":k,"lists":[[kid…],[kid…],…]} → one handshake per list, in order.
	RegOp("mtls.replace_handshake", func(in J) any {
		in = normalise(in).(map[string]any)
		lists := jArr(in["lists"])
		ckid := jInt(in["client_kid"])
		pk, err := mtls.ValidPublicKeysFromEd25519(mtlsPubs(jArr(lists[0]))...)
		if err != nil {
			return resErr("construct", err)
		}
		_, spriv := mtlsKey(900)
		spub, _ := mtlsKey(900)
		scfg, err := mtls.NewTLSConfig(spriv, []ed25519.PublicKey{spub})
		if err != nil {
			return resErr("construct", err)
		}
		// same settings as NewTransportSigner, but with an allow-list object we can Replace
		scfg.VerifyPeerCertificate = pk.VerifyPeerCertificate()
		scfg.ClientAuth = tls.RequireAnyClientCert
		scfg.NextProtos = []string{"h2"}
		_, cpriv := mtlsKey(ckid)
		ccreds, err := mtls.NewTransportCredentials(cpriv, []ed25519.PublicKey{spub})
		if err != nil {
			return resErr("construct", err)
		}
		var results []any
		for i, l := range lists {
			if i > 0 {
				np, err := mtls.ValidPublicKeysFromEd25519(mtlsPubs(jArr(l))...)
				if err != nil {
					return resErr("construct", err)
				}
				pk.Replace(np)
			}
			est, _, _, _ := mtlsHandshake(mtlsPeer{cfg: scfg}, mtlsPeer{creds: ccreds})
			var cur []any
			for _, k := range pk.Keys() {
				cur = append(cur, hexs(k))
			}
			results = append(results, J{"established": est, "keys": cur})
		}
		return resOK(results)
	})

	// op mtls.stress : {"ms":n,"verifiers":n,"readers":n}
	RegOp("mtls.stress", func(in J) any {
		in = normalise(in).(map[string]any)
		return resOK(mtlsStress(time.Duration(jInt(in["ms"]))*time.Millisecond, jInt(in["verifiers"]), jInt(in["readers"]), jInt(in["variant"])))
	})

	RegGen("C20", "mtls.handshake (implementation only): real TLS 1.3 handshakes + one application round trip over an in-memory pipe for "+
		"listed/unlisted × client/server with the package's NewTransportCredentials/NewTransportSigner, and rogue peers (no certificate, "+
		"two certificates, ECDSA, RSA, hand-made Ed25519 config) on either side; mtls.replace_handshake: Replace between handshakes; "+
		"mtls.stress: Replace ∥ VerifyPeerCertificate ∥ Keys with invariant counters; non-trivial = handshake attempted", genC20TLS)
	RegMonitor("C20", monC20TLS)
}

func genC20TLS(g *G) {
	peer := func(kind string, kid int, allow ...int) J {
		a := []any{}
		for _, k := range allow {
			a = append(a, S(k))
		}
		return J{"kind": kind, "kid": S(kid), "allow": a}
	}
	hs := func(s, c J, tags ...string) {
		g.EmitImpl(J{"op": "mtls.handshake", "server": s, "client": c}, append([]string{"handshake"}, tags...)...)
	}
	// full listed/unlisted matrix, package credentials on both sides (server key 10, client key 20)
	for _, kinds := range [][2]string{{"creds", "creds"}, {"signer", "creds"}, {"creds", "signer"}} {
		for _, serverListsClient := range []bool{true, false} {
			for _, clientListsServer := range []bool{true, false} {
				sa, ca := []int{21, 22}, []int{11, 12}
				if serverListsClient {
					sa = []int{21, 20, 22}
				}
				if clientListsServer {
					ca = []int{10}
				}
				hs(peer(kinds[0], 10, sa...), peer(kinds[1], 20, ca...), "matrix", fmt.Sprintf("listed-%v-%v", serverListsClient, clientListsServer))
			}
		}
	}
	// same key on both sides, single-entry lists, long lists
	hs(peer("creds", 10, 10), peer("creds", 10, 10), "matrix", "same-key")
	hs(peer("creds", 10, 20), peer("creds", 20, 20), "matrix", "server-not-listed-self-listed")
	long := []int{}
	for i := 100; i < 164; i++ {
		long = append(long, i)
	}
	hs(peer("creds", 10, append(append([]int{}, long...), 20)...), peer("creds", 20, append([]int{10}, long...)...), "matrix", "long-lists")
	hs(peer("creds", 10, long...), peer("creds", 20, 10), "matrix", "long-lists")
	// rogue clients against a package server that lists key 20
	for _, kind := range []string{"nocert", "twocerts", "ecdsa", "rsa", "rawtls"} {
		hs(peer("creds", 10, 20, 21), peer(kind, 20), "rogue-client", "rogue-"+kind)
	}
	hs(peer("creds", 10, 20, 21), peer("rawtls", 33), "rogue-client", "rogue-rawtls-unlisted")
	// rogue servers against a package client that lists key 10
	for _, kind := range []string{"twocerts", "ecdsa", "rsa", "rawtls"} {
		hs(peer(kind, 10), peer("creds", 20, 10, 11), "rogue-server", "rogue-"+kind)
	}
	hs(peer("rawtls", 34), peer("creds", 20, 10, 11), "rogue-server", "rogue-rawtls-unlisted")
	// NewTLSConfig used as a *server* does not request a client certificate (recorded, not judged: the
	// property speaks about the transport credentials)
	hs(peer("tlsconfig", 10, 20), peer("nocert", 0), "observation", "tlsconfig-server")
	hs(peer("creds", 10, 20), peer("tlsconfig", 20, 10), "matrix", "tlsconfig-client")
	hs(peer("creds", 10, 21), peer("tlsconfig", 20, 10), "matrix", "tlsconfig-client")
	// random matrix
	for i := 0; i < g.N(12, 300); i++ {
		sk, ck := 10+g.R.Intn(4), 20+g.R.Intn(4)
		var sa, ca []int
		for j := 0; j < 1+g.R.Intn(4); j++ {
			sa = append(sa, 20+g.R.Intn(5))
		}
		for j := 0; j < 1+g.R.Intn(4); j++ {
			ca = append(ca, 10+g.R.Intn(5))
		}
		hs(peer("creds", sk, sa...), peer("creds", ck, ca...), "matrix", "random")
	}
	// Replace between handshakes
	ls := func(ll ...[]int) []any {
		out := []any{}
		for _, l := range ll {
			a := []any{}
			for _, k := range l {
				a = append(a, S(k))
			}
			out = append(out, a)
		}
		return out
	}
	g.EmitImpl(J{"op": "mtls.replace_handshake", "client_kid": S(20), "lists": ls([]int{20}, []int{21}, []int{21, 20}, []int{22, 23}, []int{20})}, "replace-handshake")
	g.EmitImpl(J{"op": "mtls.replace_handshake", "client_kid": S(20), "lists": ls([]int{21}, []int{21, 22, 20}, []int{21}, []int{20, 20})}, "replace-handshake")
	// concurrent stress (short in the quick tier, long and varied in the thorough tier)
	if g.Thorough() {
		for v := 0; v < 4; v++ {
			g.EmitImpl(J{"op": "mtls.stress", "ms": S(2500), "verifiers": S(6), "readers": S(3), "variant": S(v)}, "stress")
		}
	} else {
		g.EmitImpl(J{"op": "mtls.stress", "ms": S(400), "verifiers": S(4), "readers": S(2), "variant": S(0)}, "stress")
	}
}

// mtlsStress: one *PublicKeys shared by a replacer (alternating old/new), verifiers and Keys()
// readers.  Key A is in both lists, B only in old, C only in new, Z in neither.  The lists have
// different lengths and hold A at different positions so that a torn slice header would be visible.
func mtlsStress(d time.Duration, verifiers, readers, variant int) J {
	A, _ := mtlsKey(40)
	B, _ := mtlsKey(41)
	C, _ := mtlsKey(42)
	C2, _ := mtlsKey(43)
	_, Apriv := mtlsKey(40)
	_, Bpriv := mtlsKey(41)
	_, Cpriv := mtlsKey(42)
	_, Zpriv := mtlsKey(44)
	var old, nw []ed25519.PublicKey
	switch variant % 4 {
	case 0:
		old, nw = []ed25519.PublicKey{A}, []ed25519.PublicKey{C, C2, A}
	case 1:
		old, nw = []ed25519.PublicKey{B, A}, []ed25519.PublicKey{A}
	case 2:
		old, nw = []ed25519.PublicKey{A, B}, []ed25519.PublicKey{C, A}
	default:
		old, nw = []ed25519.PublicKey{B, B, B, A}, []ed25519.PublicKey{A, C}
	}
	cp := func(l []ed25519.PublicKey) []ed25519.PublicKey { return append([]ed25519.PublicKey{}, l...) }
	pk, err := mtls.ValidPublicKeysFromEd25519(cp(old)...)
	if err != nil {
		panic(err)
	}
	oldPK, _ := mtls.ValidPublicKeysFromEd25519(cp(old)...)
	newPK, _ := mtls.ValidPublicKeysFromEd25519(cp(nw)...)
	verify := pk.VerifyPeerCertificate()
	certA, certB, certC, certZ := [][]byte{mtlsSelfSigned(Apriv)}, [][]byte{mtlsSelfSigned(Bpriv)}, [][]byte{mtlsSelfSigned(Cpriv)}, [][]byte{mtlsSelfSigned(Zpriv)}
	var stop atomic.Bool
	var nVerify, nReplace, nKeys, bothRejected, neitherAccepted, torn, sawOldOnly, sawNewOnly, crashes atomic.Int64
	var wg sync.WaitGroup
	// guard runs one loop iteration; a runtime panic inside the package code (e.g. a torn slice header
	// read without the lock) is counted instead of taking the harness down
	guard := func(f func()) {
		defer func() {
			if r := recover(); r != nil {
				crashes.Add(1)
			}
		}()
		f()
	}
	wg.Add(1)
	go func() { // replacer
		defer wg.Done()
		for i := 0; !stop.Load(); i++ {
			if i%2 == 0 {
				pk.Replace(newPK)
			} else {
				pk.Replace(oldPK)
			}
			nReplace.Add(1)
			if i%64 == 0 {
				runtime.Gosched()
			}
		}
	}()
	for v := 0; v < verifiers; v++ {
		wg.Add(1)
		go func() {
			defer wg.Done()
			for !stop.Load() {
				guard(func() {
					if verify(certA, nil) != nil {
						bothRejected.Add(1)
					}
					if verify(certZ, nil) == nil {
						neitherAccepted.Add(1)
					}
					if verify(certB, nil) == nil {
						sawOldOnly.Add(1)
					}
					if verify(certC, nil) == nil {
						sawNewOnly.Add(1)
					}
					nVerify.Add(4)
				})
			}
		}()
	}
	same := func(a, b []ed25519.PublicKey) bool {
		if len(a) != len(b) {
			return false
		}
		for i := range a {
			if !bytes.Equal(a[i], b[i]) {
				return false
			}
		}
		return true
	}
	for r := 0; r < readers; r++ {
		wg.Add(1)
		go func() {
			defer wg.Done()
			for !stop.Load() {
				guard(func() {
					ks := pk.Keys()
					if !same(ks, old) && !same(ks, nw) {
						torn.Add(1)
					}
					nKeys.Add(1)
				})
			}
		}()
	}
	time.Sleep(d)
	stop.Store(true)
	wg.Wait()
	return J{"verifications": S(nVerify.Load()), "replaces": S(nReplace.Load()), "keys_calls": S(nKeys.Load()),
		"both_rejected": S(bothRejected.Load()), "neither_accepted": S(neitherAccepted.Load()), "keys_torn": S(torn.Load()),
		"old_only_accepted": S(sawOldOnly.Load()), "new_only_accepted": S(sawNewOnly.Load()), "runtime_panics": S(crashes.Load())}
}

// monC20TLS: "a connection is established exactly when each side's key is in the other side's
// allow-list; peers presenting no certificate, more than one, a non-Ed25519 key or an unlisted key
// are rejected"; "a key in both lists is never rejected, a key in neither never accepted".
func monC20TLS(op J, res any) (viol []Violation, nontrivial bool) {
	r := jObj(res)
	bad := func(sig, d string) { viol = append(viol, Violation{Sig: "C20/" + sig, Desc: d, Op: op, Res: res}) }
	switch jStr(op["op"]) {
	case "mtls.handshake":
		if r["panic"] != nil {
			bad("handshake-panic", "handshake panicked")
			return
		}
		if r["ok"] == nil {
			bad("handshake-construct", "could not construct the peers: "+jStr(r["err"]))
			return
		}
		o := jObj(r["ok"])
		s, c := jObj(op["server"]), jObj(op["client"])
		sk, ck := jStr(s["kind"]), jStr(c["kind"])
		pkg := func(k string) bool { return k == "creds" || k == "signer" }
		if sk == "tlsconfig" {
			return nil, true // recorded only
		}
		nontrivial = true
		// does each side present exactly one Ed25519 certificate whose key the other side lists?
		okShape := func(k string) bool { return pkg(k) || k == "rawtls" || k == "tlsconfig" }
		clientAdmitted := !pkg(sk) || (okShape(ck) && mtlsContains(jArr(s["allow"]), jInt(c["kid"])))
		serverAdmitted := !(pkg(ck) || ck == "tlsconfig") || (okShape(sk) && mtlsContains(jArr(c["allow"]), jInt(s["kid"])))
		want := clientAdmitted && serverAdmitted
		got := jBool(o["established"])
		if got && !want {
			sig := "handshake-unlisted-accepted"
			if !okShape(ck) || !okShape(sk) {
				sig = "handshake-bad-shape-accepted"
			}
			bad(sig, fmt.Sprintf("connection established although it must be refused (server %s key %s, client %s key %s)", sk, jStr(s["kid"]), ck, jStr(c["kid"])))
		}
		if !got && want {
			bad("handshake-listed-rejected", fmt.Sprintf("connection between mutually listed peers failed (server_err=%s client_err=%s)", jStr(o["server_err"]), jStr(o["client_err"])))
		}
		if got && !jBool(o["tls13"]) {
			bad("handshake-not-tls13", "connection established with a protocol version other than TLS 1.3")
		}
	case "mtls.replace_handshake":
		if r["ok"] == nil {
			bad("replace-handshake-failed", "replace_handshake did not run")
			return
		}
		nontrivial = true
		lists := jArr(op["lists"])
		for i, x := range jArr(r["ok"]) {
			want := mtlsContains(jArr(lists[i]), jInt(op["client_kid"]))
			if jBool(jObj(x)["established"]) != want {
				bad("replace-not-effective", fmt.Sprintf("after Replace #%d the handshake outcome %v does not match the current allow-list", i, jBool(jObj(x)["established"])))
			}
			if len(jArr(jObj(x)["keys"])) != len(jArr(lists[i])) {
				bad("replace-not-effective", fmt.Sprintf("after Replace #%d Keys() does not return the installed list", i))
			}
		}
	case "mtls.stress":
		if r["ok"] == nil {
			bad("stress-failed", "stress run panicked")
			return
		}
		o := jObj(r["ok"])
		nontrivial = jBig(o["verifications"]).Sign() > 0 && jBig(o["replaces"]).Sign() > 0
		if jBig(o["both_rejected"]).Sign() != 0 {
			bad("stress-in-both-rejected", "a key present in both the old and the new list was rejected during concurrent Replace: "+jStr(o["both_rejected"])+" times")
		}
		if jBig(o["neither_accepted"]).Sign() != 0 {
			bad("stress-in-neither-accepted", "a key present in neither list was accepted during concurrent Replace: "+jStr(o["neither_accepted"])+" times")
		}
		if jBig(o["runtime_panics"]).Sign() != 0 {
			bad("stress-runtime-panic", "the package code panicked (torn read of the key slice) during concurrent Replace: "+jStr(o["runtime_panics"])+" times")
		}
		if jBig(o["keys_torn"]).Sign() != 0 {
			bad("stress-keys-torn", "Keys() returned a list that is neither the old nor the new one: "+jStr(o["keys_torn"])+" times")
		}
	}
	return
}
