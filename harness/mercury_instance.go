package main

import "fmt"

// Mercury histories run on ONE plugin instance (mercury.history); every round is cross-checked against a
// fresh instance.  The per-round results are also judged by the report-level monitor of C07, and a state
// that survives a Report call is reported under C01 (pure function of previous report and observations),
// C07 and C09.
func init() {
	half := func(g *G) {
		sub := &G{R: g.R, Tier: g.Tier, Prop: g.Prop}
		k := 0
		sub.emit = func(c Case) {
			k++
			if k%2 == 0 {
				g.emit(c)
			}
		}
		genMercHistories(sub)
		// directed: a value voted in one round must not count in the next (v4 market status; max finalized)
		for v := 2; v <= 4; v++ {
			s := mercBase(g, v)
			var rounds, labels []any
			for r := 0; r < 4; r++ {
				aos, hidx := s.round(g)
				if r >= 1 {
					// from the second round on the observers disagree on the status / have no max-finalized value
					for i, ao := range aos {
						m := ao.(J)
						if v == 4 {
							m["ms"] = S(uint32(10 + i + 4*r))
						}
					}
				}
				rounds = append(rounds, aos)
				labels = append(labels, hidx)
				s.T = mercSatAdd(s.T, 2)
			}
			g.Emit(J{"op": "mercury.history", "v": v, "cfg": s.cfg(), "codec": s.codec, "prev": nil, "rounds": rounds, "honest": labels},
				fmt.Sprintf("v%d", v), "history", "votes-must-not-carry-over")
		}
	}
	rule := "plus threaded histories on ONE plugin instance (every round cross-checked on a fresh instance; per-round results under the report-level monitor)"
	RegGen("C07", rule, half)
	RegGen("C01", rule, half)
	mon := func(prop string) Monitor {
		return func(op J, res any) (viol []Violation, nontrivial bool) {
			if jStr(op["op"]) != "mercury.history" {
				return nil, false
			}
			r := jObj(res)
			if st := jArr(r["_instance_state"]); len(st) > 0 {
				viol = append(viol, Violation{Sig: prop + "/mercury-instance-state", Desc: fmt.Sprintf("Report on a plugin instance that served earlier rounds differs from Report on a fresh instance with the same previous report and observations (first in round %v)", jget(st[0], "round")), Op: op, Res: res})
			}
			if prop != "C07" {
				return viol, len(jArr(r["ok"])) > 1
			}
			// per-round judgement by the report-level monitor
			v := jInt(op["v"])
			var prev any = op["prev"]
			labels := jArr(op["honest"])
			for i, rr := range jArr(r["ok"]) {
				sub := J{"op": fmt.Sprintf("mercury.v%d.report", v), "cfg": op["cfg"], "codec": op["codec"], "prev": prev, "aos": jArr(op["rounds"])[i]}
				if i < len(labels) {
					sub["honest"] = labels[i]
				}
				vs, _ := monC07(sub, rr)
				for _, x := range vs {
					x.Op, x.Res = op, res
					x.Desc = fmt.Sprintf("round %d of a history on one plugin instance: %s", i, x.Desc)
					viol = append(viol, x)
				}
				if ok := jObj(jObj(rr)["ok"]); ok != nil && jBool(ok["should"]) {
					prev = ok["report"]
				}
			}
			return viol, len(jArr(r["ok"])) > 1
		}
	}
	for _, p := range []string{"C01", "C07", "C09"} {
		RegMonitor(p, mon(p))
	}
}
