package main

import (
	"sort"

	llotypes "github.com/smartcontractkit/chainlink-common/pkg/types/llo"

	"github.com/smartcontractkit/chainlink-data-streams/llo"
)

// JSON conventions for LLO structures (mirrors lean/Driver/JsonUtil.lean):
//   ChanDef {"format","streams":[{"sid","agg"}],"opts":hex}; maps as arrays of entries sorted by key.

func chanDefJ(d llotypes.ChannelDefinition) J {
	st := make([]any, len(d.Streams))
	for i, s := range d.Streams {
		st[i] = J{"sid": S(s.StreamID), "agg": S(uint32(s.Aggregator))}
	}
	return J{"format": S(uint32(d.ReportFormat)), "streams": st, "opts": hexs(d.Opts)}
}

func jChanDef(v any) llotypes.ChannelDefinition {
	var d llotypes.ChannelDefinition
	d.ReportFormat = llotypes.ReportFormat(jU32(jget(v, "format")))
	for _, s := range jArr(jget(v, "streams")) {
		d.Streams = append(d.Streams, llotypes.Stream{StreamID: jU32(jget(s, "sid")), Aggregator: llotypes.Aggregator(jU32(jget(s, "agg")))})
	}
	if d.Streams == nil {
		d.Streams = []llotypes.Stream{}
	}
	d.Opts = jBytes(jget(v, "opts"))
	return d
}

func defsJ(m llotypes.ChannelDefinitions) []any {
	ids := make([]uint32, 0, len(m))
	for id := range m {
		ids = append(ids, id)
	}
	sort.Slice(ids, func(i, j int) bool { return ids[i] < ids[j] })
	out := make([]any, len(ids))
	for i, id := range ids {
		out[i] = J{"id": S(id), "def": chanDefJ(m[id])}
	}
	return out
}

func jDefs(v any) llotypes.ChannelDefinitions {
	a := jArr(v)
	if len(a) == 0 {
		return nil
	}
	m := llotypes.ChannelDefinitions{}
	for _, e := range a {
		m[jU32(jget(e, "id"))] = jChanDef(jget(e, "def"))
	}
	return m
}

func vaJ(m map[llotypes.ChannelID]uint64) []any {
	ids := make([]uint32, 0, len(m))
	for id := range m {
		ids = append(ids, id)
	}
	sort.Slice(ids, func(i, j int) bool { return ids[i] < ids[j] })
	out := make([]any, len(ids))
	for i, id := range ids {
		out[i] = J{"id": S(id), "va": S(m[id])}
	}
	return out
}

func jVA(v any) map[llotypes.ChannelID]uint64 {
	a := jArr(v)
	if len(a) == 0 {
		return nil
	}
	m := map[llotypes.ChannelID]uint64{}
	for _, e := range a {
		m[jU32(jget(e, "id"))] = jU64(jget(e, "va"))
	}
	return m
}

func aggsJ(m llo.StreamAggregates) []any {
	type k struct{ sid, agg uint32 }
	var ks []k
	for sid, inner := range m {
		for agg := range inner {
			ks = append(ks, k{sid, uint32(agg)})
		}
	}
	sort.Slice(ks, func(i, j int) bool {
		if ks[i].sid != ks[j].sid {
			return ks[i].sid < ks[j].sid
		}
		return ks[i].agg < ks[j].agg
	})
	out := make([]any, len(ks))
	for i, e := range ks {
		out[i] = J{"sid": S(e.sid), "agg": S(e.agg), "v": svJ(m[e.sid][llotypes.Aggregator(e.agg)])}
	}
	return out
}

func jAggs(v any) llo.StreamAggregates {
	a := jArr(v)
	if len(a) == 0 {
		return nil
	}
	m := llo.StreamAggregates{}
	for _, e := range a {
		sid := jU32(jget(e, "sid"))
		if m[sid] == nil {
			m[sid] = map[llotypes.Aggregator]llo.StreamValue{}
		}
		m[sid][llotypes.Aggregator(jU32(jget(e, "agg")))] = jSV(jget(e, "v"))
	}
	return m
}

func outcomeJ(o llo.Outcome) J {
	return J{"stage": string(o.LifeCycleStage), "ts": S(o.ObservationTimestampNanoseconds), "defs": defsJ(o.ChannelDefinitions),
		"va": vaJ(o.ValidAfterNanoseconds), "aggs": aggsJ(o.StreamAggregates)}
}

func jOutcome(v any) llo.Outcome {
	return llo.Outcome{
		LifeCycleStage:                  llotypes.LifeCycleStage(jStr(jget(v, "stage"))),
		ObservationTimestampNanoseconds: jU64(jget(v, "ts")),
		ChannelDefinitions:              jDefs(jget(v, "defs")),
		ValidAfterNanoseconds:           jVA(jget(v, "va")),
		StreamAggregates:                jAggs(jget(v, "aggs")),
	}
}

func obsJ(o llo.Observation) J {
	rm := make([]uint32, 0, len(o.RemoveChannelIDs))
	for id := range o.RemoveChannelIDs {
		rm = append(rm, id)
	}
	sort.Slice(rm, func(i, j int) bool { return rm[i] < rm[j] })
	rmj := make([]any, len(rm))
	for i, id := range rm {
		rmj[i] = S(id)
	}
	sids := make([]uint32, 0, len(o.StreamValues))
	for sid := range o.StreamValues {
		sids = append(sids, sid)
	}
	sort.Slice(sids, func(i, j int) bool { return sids[i] < sids[j] })
	vals := make([]any, 0, len(sids))
	for _, sid := range sids {
		vals = append(vals, J{"sid": S(sid), "v": svJ(o.StreamValues[sid])})
	}
	return J{"attested": hexs(o.AttestedPredecessorRetirement), "retire": o.ShouldRetire, "ts": S(o.UnixTimestampNanoseconds),
		"removes": rmj, "updates": defsJ(o.UpdateChannelDefinitions), "values": vals}
}

func jObs(v any) llo.Observation {
	var o llo.Observation
	if a := jget(v, "attested"); a != nil {
		o.AttestedPredecessorRetirement = jBytes(a)
		if len(o.AttestedPredecessorRetirement) == 0 {
			o.AttestedPredecessorRetirement = nil
		}
	}
	o.ShouldRetire = jBool(jget(v, "retire"))
	o.UnixTimestampNanoseconds = jU64(jget(v, "ts"))
	if rm := jArr(jget(v, "removes")); len(rm) > 0 {
		o.RemoveChannelIDs = map[llotypes.ChannelID]struct{}{}
		for _, id := range rm {
			o.RemoveChannelIDs[jU32(id)] = struct{}{}
		}
	}
	o.UpdateChannelDefinitions = jDefs(jget(v, "updates"))
	if vals := jArr(jget(v, "values")); len(vals) > 0 {
		o.StreamValues = llo.StreamValues{}
		for _, e := range vals {
			o.StreamValues[jU32(jget(e, "sid"))] = jSV(jget(e, "v"))
		}
	}
	return o
}
