package main

import "fmt"

// llo.multi: a sequence of INDEPENDENT Outcome calls on ONE plugin instance — the same round attempted
// again with another 2f+1 subset after an attempt that did not commit, a retiring attempt followed by a
// call on the still-unretired previous outcome, a promoting attempt followed by one without the
// attestation.  Each call is a function of (sequence number, previous outcome, observations) only: the
// model evaluates the calls independently, and every call is cross-checked on a fresh instance.
//   {"cfg","attestations","calls":[{"seqNr","prev","obs"}…]} → {"ok":[result of llo.outcome per call]}
func init() {
	RegOp("llo.multi", func(in J) any {
		in = normalise(in).(map[string]any)
		hp, err := newPlugin(jCfg(in["cfg"]), nil, false)
		if err != nil {
			return resErr("factory", err)
		}
		hp.loadAttestations(in["attestations"])
		var outs, leaks []any
		for i, c := range jArr(in["calls"]) {
			one := func(p *hPlugin) any {
				aos, err := p.encodeObs(jget(c, "obs"))
				if err != nil {
					return J{"harness-error": err.Error()}
				}
				o, _, e := p.callOutcome(jU64(jget(c, "seqNr")), jOutcome(jget(c, "prev")), aos)
				if e != nil {
					return e
				}
				return J{"ok": outcomeJ(o)}
			}
			res := safely(func() any { return one(hp) })
			fp, err := newPlugin(jCfg(in["cfg"]), nil, false)
			if err != nil {
				return resErr("factory", err)
			}
			fp.loadAttestations(in["attestations"])
			fresh := safely(func() any { return one(fp) })
			if string(marshal(stripPrivate(normalise(res)))) != string(marshal(stripPrivate(normalise(fresh)))) {
				leaks = append(leaks, J{"call": i, "fresh_instance": stripPrivate(normalise(fresh))})
			}
			outs = append(outs, res)
		}
		r := resOK(outs)
		if leaks != nil {
			r["_instance_state"] = leaks
		}
		return r
	})

	gen := func(n1, n2 int) func(g *G) {
		return func(g *G) {
			for i := 0; i < g.N(n1, n2); i++ {
				w := newWorld(g)
				prev := w.rndOutcome()
				if g.R.Intn(2) == 0 {
					prev["stage"] = "production"
				}
				if w.hasPred && g.R.Intn(2) == 0 {
					prev["stage"] = "staging"
				}
				all := 3*w.f + 1
				var calls []any
				seq := 2 + g.R.Intn(20)
				for k := 2 + g.R.Intn(3); k > 0; k-- {
					w.advance()
					p := w.rndPlan(all)
					switch g.R.Intn(4) {
					case 0: // an attempt that would retire the instance and also carries removal votes
						p.retire = all
						p.removes = append(p.removes, updVote{id: w.rndChannelID(), voters: w.nearF(all)})
					case 1: // an attempt with the genuine attestation, then (next call) only forged ones
						p.attValid, p.attBad = 1, 0
					case 2:
						p.attValid, p.attBad = 0, 1
					}
					obs, _ := w.round(p, []int{1, 2, 3, 4, 5})
					calls = append(calls, J{"seqNr": S(seq), "prev": prev, "obs": obs})
				}
				g.Emit(J{"op": "llo.multi", "cfg": w.cfgJ(), "attestations": w.attestations(), "calls": calls}, "multi", fmt.Sprintf("calls=%d", len(calls)))
			}
		}
	}
	rule := "plus llo.multi ops: independent Outcome calls (retried rounds with other observation subsets, retiring / promoting attempts followed by calls on the unchanged previous outcome) on ONE plugin instance, each cross-checked on a fresh instance"
	RegGen("C01", rule, gen(150, 2000))
	RegGen("C06", rule, gen(150, 2000))
	RegGen("C05", rule, gen(100, 1000))
	mon := func(prop string) Monitor {
		return func(op J, res any) (viol []Violation, nontrivial bool) {
			if jStr(op["op"]) != "llo.multi" {
				return nil, false
			}
			r := jObj(res)
			if st := jArr(r["_instance_state"]); len(st) > 0 {
				viol = append(viol, Violation{Sig: prop + "/llo-instance-state", Desc: fmt.Sprintf("Outcome on a plugin instance that served earlier calls differs from Outcome on a fresh instance with the same sequence number, previous outcome and observations (first in call %v): votes or verdicts of an earlier call were counted again", jget(st[0], "call")), Op: op, Res: res})
			}
			return viol, len(jArr(r["ok"])) > 1
		}
	}
	for _, p := range []string{"C01", "C06", "C05"} {
		RegMonitor(p, mon(p))
	}
}

// safely runs f and turns a panic into a result
func safely(f func() any) (res any) {
	defer func() {
		if r := recover(); r != nil {
			res = J{"panic": true, "panic_msg": fmt.Sprint(r)}
		}
	}()
	return f()
}
