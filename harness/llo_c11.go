package main

import (
	"github.com/shopspring/decimal"
	"context"
	"strings"

	"github.com/smartcontractkit/libocr/offchainreporting2/types"
	"github.com/smartcontractkit/libocr/offchainreporting2plus/ocr3types"

	"github.com/smartcontractkit/chainlink-data-streams/llo"
)

// ---------- llo.validate (compared with the model) and byte-level fuzz ops (implementation only) ----------

var validateClasses = [][2]string{
	{"Invalid SeqNr", "invalid-seqnr"},
	{"Expected empty observation for first round", "non-empty-first-round"},
	{"Observation decode error", "decode"},
	{"AttestedPredecessorRetirement is not empty", "attestation-without-predecessor"},
	{"UpdateChannelDefinitions is too long", "too-many-updates"},
	{"RemoveChannelIDs is too long", "too-many-removes"},
	{"UpdateChannelDefinitions is invalid", "invalid-definitions"},
	{"StreamValues is too long", "too-many-values"},
	{"nested stream value on TimestampedStreamValue must be a Decimal", "nested-not-decimal"},
}

func init() {
	RegOp("llo.validate", func(in J) any {
		in = normalise(in).(map[string]any)
		hp, err := newPlugin(jCfg(in["cfg"]), nil, false)
		if err != nil {
			return resErr("factory", err)
		}
		for _, b := range jArr(in["badOpts"]) {
			hp.codec.badOpts[string(jBytes(b))] = true
		}
		var raw []byte
		o := jObj(in["obs"])
		if jBool(o["invalid"]) {
			raw = jBytes(o["raw"])
		} else {
			raw, err = hp.p.ObservationCodec.Encode(jObs(in["obs"]))
			if err != nil {
				return J{"harness-error": err.Error()}
			}
		}
		verr := hp.p.ValidateObservation(context.Background(), ocr3types.OutcomeContext{SeqNr: jU64(in["seqNr"])}, nil, types.AttributedObservation{Observation: raw})
		if verr == nil {
			return resOK("accepted")
		}
		return J{"ok": errClass(verr, validateClasses...), "_msg": verr.Error()}
	})
	// implementation-only ops on raw bytes: results are just "returned" or panic (caught by runOp)
	RegOp("fuzz.llo.validate", func(in J) any {
		in = normalise(in).(map[string]any)
		hp, err := newPlugin(jCfg(in["cfg"]), nil, false)
		if err != nil {
			return resErr("factory", err)
		}
		hp.p.ValidateObservation(context.Background(), ocr3types.OutcomeContext{SeqNr: jU64(in["seqNr"])}, nil, types.AttributedObservation{Observation: jBytes(in["raw"])})
		return resOK("returned")
	})
	RegOp("fuzz.llo.outcome", func(in J) any {
		in = normalise(in).(map[string]any)
		hp, err := newPlugin(jCfg(in["cfg"]), nil, jBool(in["telemetry"]))
		if err != nil {
			return resErr("factory", err)
		}
		var aos []types.AttributedObservation
		outctx := ocr3types.OutcomeContext{SeqNr: jU64(in["seqNr"]), PreviousOutcome: jBytes(in["prevRaw"])}
		if outcomeBytesF2(hp.p.OutcomeCodec, outctx.PreviousOutcome) {
			return resOK("skipped-f2-domain")
		}
		for _, r := range jArr(in["obsRaw"]) {
			if obsBytesF2(hp.p.ObservationCodec, jBytes(r)) {
				return resOK("skipped-f2-domain")
			}
		}
		for _, r := range jArr(in["obsRaw"]) {
			b := jBytes(r)
			// Outcome is only assumed to receive observations that passed its own validation
			if hp.p.ValidateObservation(context.Background(), outctx, nil, types.AttributedObservation{Observation: b}) == nil {
				aos = append(aos, types.AttributedObservation{Observation: b})
			}
		}
		for len(aos) < 2*hp.p.F+1 {
			aos = append(aos, types.AttributedObservation{})
		}
		hp.p.Outcome(context.Background(), outctx, nil, aos)
		return resOK("returned")
	})
	RegOp("fuzz.llo.reports", func(in J) any {
		in = normalise(in).(map[string]any)
		mf := map[uint32]bool{}
		for _, f := range jArr(in["missingFormats"]) {
			mf[jU32(f)] = true
		}
		hp, err := newPlugin(jCfg(in["cfg"]), mf, jBool(in["telemetry"]))
		if err != nil {
			return resErr("factory", err)
		}
		if outcomeBytesF2(hp.p.OutcomeCodec, jBytes(in["outcomeRaw"])) {
			return resOK("skipped-f2-domain")
		}
		hp.p.Reports(context.Background(), jU64(in["seqNr"]), jBytes(in["outcomeRaw"]))
		return resOK("returned")
	})
	RegOp("fuzz.llo.observation", func(in J) any {
		in = normalise(in).(map[string]any)
		hp, err := newPlugin(jCfg(in["cfg"]), nil, false)
		if err != nil {
			return resErr("factory", err)
		}
		hp.p.Observation(context.Background(), ocr3types.OutcomeContext{SeqNr: jU64(in["seqNr"]), PreviousOutcome: jBytes(in["prevRaw"])}, nil)
		return resOK("returned")
	})
	RegOp("fuzz.decode", func(in J) any {
		in = normalise(in).(map[string]any)
		b := jBytes(in["raw"])
		switch jStr(in["what"]) {
		case "outcome.v0":
			llo.OffchainConfig{ProtocolVersion: 0}.GetOutcomeCodec().Decode(b)
		case "outcome.v1":
			llo.OffchainConfig{ProtocolVersion: 1}.GetOutcomeCodec().Decode(b)
		case "offchain":
			llo.DecodeOffchainConfig(b)
		case "onchain":
			llo.EVMOnchainConfigCodec{}.Decode(b)
		case "retirement":
			llo.StandardRetirementReportCodec{}.Decode(b)
		case "json.decode":
			llo.JSONReportCodec{}.Decode(b)
		case "json.unpack":
			llo.JSONReportCodec{}.Unpack(b)
		case "sv.dec":
			new(llo.Decimal).UnmarshalBinary(b)
			new(llo.Decimal).UnmarshalText(b)
		case "sv.quote":
			new(llo.Quote).UnmarshalBinary(b)
			new(llo.Quote).UnmarshalText(b)
		case "sv.tsv":
			new(llo.TimestampedStreamValue).UnmarshalBinary(b)
			new(llo.TimestampedStreamValue).UnmarshalText(b)
		case "sv.proto":
			llo.UnmarshalProtoStreamValue(&llo.LLOStreamValue{Type: llo.LLOStreamValue_Type(len(b) % 5), Value: b})
			llo.UnmarshalProtoStreamValue(nil)
			llo.UnmarshalTypedTextStreamValue(&llo.TypedTextStreamValue{Type: llo.LLOStreamValue_Type(len(b) % 5), SerializedStreamValue: string(b)})
			llo.UnmarshalTypedTextStreamValue(nil)
		}
		return resOK("returned")
	})
	RegGen("C11", "LLO: structured observations through ValidateObservation (compared with the model) incl. limit violations and attestation-without-predecessor; hand-built outcomes through Reports with telemetry on/off, missing aggregates, missing codecs; byte-level fuzz (random bytes and structure-aware mutations of valid encodings: flips, truncation, duplication, spliced varints, nil nested messages, unknown enums) of ValidateObservation / Outcome / Reports / Observation and of every public decoder; in the thorough tier additionally the case streams of the other properties (Mercury plugins, EVM codecs, wire codecs) under the no-panic monitor; non-trivial = the input is not the empty byte string; distinct = different op line", genC11)
	RegMonitor("C11", monC11)
}

func mutateBytes(g *G, b []byte) []byte {
	b = append([]byte{}, b...)
	for k := 1 + g.R.Intn(3); k > 0; k-- {
		switch g.R.Intn(7) {
		case 0:
			if len(b) > 0 {
				b[g.R.Intn(len(b))] ^= 1 << uint(g.R.Intn(8))
			}
		case 1:
			if len(b) > 0 {
				b = b[:g.R.Intn(len(b))]
			}
		case 2:
			if len(b) > 0 {
				i := g.R.Intn(len(b))
				j := i + g.R.Intn(len(b)-i)
				b = append(b[:j:j], append(append([]byte{}, b[i:j]...), b[j:]...)...)
			}
		case 3:
			i := g.R.Intn(len(b) + 1)
			ins := []byte{byte(g.R.Intn(256)), 0xff, 0xff, 0xff, 0xff, 0x0f}[:1+g.R.Intn(6)]
			b = append(b[:i:i], append(ins, b[i:]...)...)
		case 4:
			if len(b) > 0 {
				b[g.R.Intn(len(b))] = byte(g.R.Intn(256))
			}
		case 5: // length prefix blow-up
			if len(b) > 1 {
				b[1+g.R.Intn(len(b)-1)] = 0xff
			}
		case 6:
			b = append(b, b...)
		}
	}
	return b
}

func rndBytes(g *G) []byte {
	b := make([]byte, g.R.Intn(40))
	g.R.Read(b)
	return b
}

func genC11(g *G) {
	// 1. structured validate cases (model-compared)
	for i := 0; i < g.N(400, 5000); i++ {
		w := newWorld(g)
		obs, _ := w.round(w.rndPlan(2*w.f+1), []int{1, 2, 3, 4, 5})
		o := jObj(obs[g.R.Intn(len(obs))])
		if jBool(o["invalid"]) {
			g.Emit(J{"op": "llo.validate", "cfg": w.cfgJ(), "seqNr": g.R.Intn(4), "obs": o}, "validate-raw")
			continue
		}
		switch g.R.Intn(8) {
		case 0: // too many removes
			rm := []any{}
			for k := 0; k < 6+g.R.Intn(3); k++ {
				rm = append(rm, S(100+k))
			}
			o["removes"] = rm
		case 1: // too many updates
			upd := []any{}
			for k := 0; k < 6; k++ {
				upd = append(upd, J{"id": S(200 + k), "def": w.rndChanDef()})
			}
			o["updates"] = upd
		case 2: // invalid definition: no streams / zero aggregator
			d := w.rndChanDef()
			if g.R.Intn(2) == 0 {
				d["streams"] = []any{}
			} else {
				d["streams"] = []any{J{"sid": "1", "agg": "0"}}
			}
			o["updates"] = []any{J{"id": "7", "def": d}}
		case 3: // nested non-decimal
			o["values"] = []any{J{"sid": "1", "v": svJ(&llo.TimestampedStreamValue{ObservedAtNanoseconds: 5, StreamValue: rndQuote(g, true)})}}
		case 4: // attestation
			o["attested"] = hexs([]byte{1, 2, 3})
		}
		enc, err := (&hPluginCodec{}).encode(o)
		empty := err == nil && len(enc) == 0
		g.Emit(J{"op": "llo.validate", "cfg": w.cfgJ(), "seqNr": g.R.Intn(4), "obs": o, "emptyBytes": empty}, "validate")
	}
	// 2. Reports on hand-built outcomes: telemetry, missing aggregates, missing codecs
	for i := 0; i < g.N(300, 4000); i++ {
		w := newWorld(g)
		o := w.rndOutcome()
		w.advance()
		mf := []any{}
		if g.R.Intn(3) == 0 {
			mf = append(mf, S(formatsPool[g.R.Intn(len(formatsPool))]))
		}
		fc := []any{}
		if g.R.Intn(3) == 0 {
			fc = append(fc, S(w.rndChannelID()))
		}
		o["ts"] = S(w.now + 3_000_000_000)
		g.Emit(J{"op": "llo.reports", "cfg": w.cfgJ(), "seqNr": 2 + g.R.Intn(5), "outcome": o, "missingFormats": mf, "failChannels": fc, "telemetry": g.R.Intn(2) == 0}, "reports")
	}
	// 3. byte-level fuzz (implementation only)
	hp, err := newPlugin(hCfg{F: 1, Version: 1, MinInterval: 1, HasPred: true}, nil, false)
	if err != nil {
		panic(err)
	}
	for i := 0; i < g.N(600, 20000); i++ {
		w := newWorld(g)
		obs, _ := w.round(w.rndPlan(2*w.f+1), []int{1, 2, 3, 4, 5})
		var validObs [][]byte
		for _, o := range obs {
			if !jBool(jObj(o)["invalid"]) {
				if b, err := hp.p.ObservationCodec.Encode(jObs(normalise(o))); err == nil {
					validObs = append(validObs, b)
				}
			}
		}
		outc := jOutcome(normalise(w.rndOutcome()))
		v0, _ := llo.OffchainConfig{ProtocolVersion: 0}.GetOutcomeCodec().Encode(outc)
		v1, _ := llo.OffchainConfig{ProtocolVersion: 1}.GetOutcomeCodec().Encode(outc)
		pick := func() []byte {
			switch g.R.Intn(4) {
			case 0:
				return rndBytes(g)
			case 1:
				if len(validObs) > 0 {
					return mutateBytes(g, validObs[g.R.Intn(len(validObs))])
				}
				return rndBytes(g)
			case 2:
				return mutateBytes(g, v0)
			default:
				return mutateBytes(g, v1)
			}
		}
		cfg := w.cfgJ()
		switch g.R.Intn(6) {
		case 0:
			g.EmitImpl(J{"op": "fuzz.llo.validate", "cfg": cfg, "seqNr": g.R.Intn(4), "raw": hexs(pick())}, "fuzz-validate")
		case 1:
			var raws []any
			for _, b := range validObs {
				if g.R.Intn(3) == 0 {
					b = mutateBytes(g, b)
				}
				raws = append(raws, hexs(b))
			}
			prev := v1
			if w.version == 0 {
				prev = v0
			}
			if g.R.Intn(3) == 0 {
				prev = mutateBytes(g, prev)
			}
			g.EmitImpl(J{"op": "fuzz.llo.outcome", "cfg": cfg, "seqNr": 2 + g.R.Intn(3), "prevRaw": hexs(prev), "obsRaw": raws, "telemetry": g.R.Intn(2) == 0}, "fuzz-outcome")
		case 2:
			raw := v1
			if w.version == 0 {
				raw = v0
			}
			if g.R.Intn(2) == 0 {
				raw = mutateBytes(g, raw)
			}
			g.EmitImpl(J{"op": "fuzz.llo.reports", "cfg": cfg, "seqNr": 2 + g.R.Intn(3), "outcomeRaw": hexs(raw), "telemetry": g.R.Intn(2) == 0, "missingFormats": []any{S(formatsPool[g.R.Intn(len(formatsPool))])}}, "fuzz-reports")
		case 3:
			raw := v1
			if w.version == 0 {
				raw = v0
			}
			if g.R.Intn(2) == 0 {
				raw = mutateBytes(g, raw)
			}
			g.EmitImpl(J{"op": "fuzz.llo.observation", "cfg": cfg, "seqNr": g.R.Intn(4), "prevRaw": hexs(raw)}, "fuzz-observation")
		default:
			whats := []string{"outcome.v0", "outcome.v1", "offchain", "onchain", "retirement", "json.decode", "json.unpack", "sv.dec", "sv.quote", "sv.tsv", "sv.proto"}
			g.EmitImpl(J{"op": "fuzz.decode", "what": whats[g.R.Intn(len(whats))], "raw": hexs(pick())}, "fuzz-decode")
		}
	}
	// 4. quick: every second case of the LLO state-machine streams (threaded histories, handovers with
	// promotion by a retirement report, convergence scripts, whole Observation() calls) under the no-panic monitor
	if !g.Thorough() {
		for _, p := range []string{"C03", "C04", "C14"} {
			for _, gen := range gens[p] {
				k := 0
				sub := &G{R: g.R, Tier: "quick", Prop: p, emit: func(c Case) {
					k++
					if k%2 == 0 {
						g.emit(c)
					}
				}}
				gen(sub)
			}
		}
	}
	// 5. thorough: replay the other areas' case streams under the no-panic monitor
	if g.Thorough() {
		for _, p := range []string{"C07", "C08", "C09", "C10", "C12", "C13", "C16", "C17", "C02", "C15", "C03", "C04", "C14"} {
			for _, gen := range gens[p] {
				sub := &G{R: g.R, Tier: "quick", Prop: p, emit: g.emit}
				gen(sub)
			}
		}
	}
}

// hPluginCodec encodes a structured observation with the real codec (lazily built plugin)
type hPluginCodec struct{}

var codecPlugin *hPlugin

func (*hPluginCodec) encode(o any) ([]byte, error) {
	if codecPlugin == nil {
		var err error
		codecPlugin, err = newPlugin(hCfg{F: 1, Version: 1, MinInterval: 1}, nil, false)
		if err != nil {
			return nil, err
		}
	}
	return codecPlugin.p.ObservationCodec.Encode(jObs(normalise(o)))
}

// c11InDomain: C11 quantifies over byte strings (and outcomes with missing aggregates) offered to the
// plugin entry points and public decoders.  When the thorough tier replays the case streams of other
// properties, two kinds of cases in them are not inputs of that kind and are not judged here:
//   - direct calls of the Mercury consensus helpers (mercury.consensus.*): the plugins call them only
//     after their own "at least one / f+1 parsed observations" checks, e.g. GetConsensusTimestamp on an
//     empty list indexes out of range but no byte string reaches that call (mercury.vN.report ops cover
//     the entry point);
//   - report-codec Encode calls carrying a typed-nil stream value ((*Decimal)(nil) etc.): no decoder
//     produces one (a missing aggregate is a nil interface, which is covered), or a timestamped value
//     without an inner value (every decoder rejects it: C16 checks exactly that).
func c11InDomain(op J) bool {
	name := jStr(op["op"])
	if strings.HasPrefix(name, "mercury.consensus.") {
		return false
	}
	if strings.HasPrefix(name, "evm.encode.") {
		for _, v := range jArr(jObj(op["report"])["values"]) {
			if strings.HasPrefix(jStr(jObj(v)["t"]), "nil-") || cdcHasNilInner(v) {
				return false
			}
		}
	}
	return true
}

func monC11(op J, res any) (viol []Violation, nontrivial bool) {
	if !c11InDomain(op) {
		return nil, false
	}
	r := jObj(res)
	nontrivial = jStr(op["raw"]) != "" || op["obs"] != nil || op["outcome"] != nil || op["obsRaw"] != nil
	if r == nil || r["panic"] == nil {
		// history-style results carry per-round panics, at any depth (llo.history: a list; llo.handover: two lists)
		var walk func(v any)
		walk = func(v any) {
			switch t := v.(type) {
			case map[string]any:
				if t["panic"] != nil {
					viol = append(viol, Violation{Sig: "C11/panic-" + jStr(op["op"]), Desc: "a plugin callback panicked inside a history: " + jStr(t["panic_msg"]), Op: op, Res: res})
					return
				}
				for _, x := range t {
					walk(x)
				}
			case []any:
				for _, x := range t {
					walk(x)
				}
			}
		}
		if ok := jObj(res); ok != nil {
			walk(ok["ok"])
		}
		return
	}
	msg := jStr(r["panic_msg"])
	sig := "C11/panic-" + jStr(op["op"])
	if strings.Contains(msg, "overflow in decimal QuoRem") || strings.Contains(msg, "overflows an int32") {
		sig = "C11/decimal-exponent-panic" // known finding K4
	}
	viol = append(viol, Violation{Sig: sig, Desc: "panic: " + msg, Op: op, Res: res})
	return
}

// ---- domain guard for the byte-level fuzz ops
//
// A mutated byte string can carry a decimal with an exponent near ±2^31.  Comparing, rescaling or printing
// such a value makes shopspring/decimal materialise 10^|gap| — known finding F2 (C19/decimal-scale-blowup,
// with K4 its panic variant): a cost problem, measured and reported under C19 with a capped child process.
// Here it would only stall the totality fuzz, so inputs whose decoded decimals have a scale beyond
// ±f2MaxScale are not run (their count is visible in the evidence as result "skipped-f2-domain").
const f2MaxScale = 100000

func decF2(d decimal.Decimal) bool {
	e := int64(d.Exponent())
	return e > f2MaxScale || e < -f2MaxScale
}

func svF2(v llo.StreamValue) bool {
	switch t := v.(type) {
	case *llo.Decimal:
		return t != nil && decF2(t.Decimal())
	case *llo.Quote:
		return t != nil && (decF2(t.Bid) || decF2(t.Benchmark) || decF2(t.Ask))
	case *llo.TimestampedStreamValue:
		return t != nil && svF2(t.StreamValue)
	}
	return false
}

func obsBytesF2(c llo.ObservationCodec, b []byte) bool {
	o, err := c.Decode(b)
	if err != nil {
		return false
	}
	for _, v := range o.StreamValues {
		if svF2(v) {
			return true
		}
	}
	return false
}

func outcomeBytesF2(c llo.OutcomeCodec, b []byte) bool {
	if len(b) == 0 {
		return false
	}
	o, err := c.Decode(b)
	if err != nil {
		return false
	}
	for _, m := range o.StreamAggregates {
		for _, v := range m {
			if svF2(v) {
				return true
			}
		}
	}
	return false
}
