package main

import (
	"fmt"
	"math/big"
)

// C12 monitor: a direct transcription of the property evaluated on the implementation's output.
// The specification values are computed here with math/big from the *abstract* opts and report of
// the op (never with the repository's CalculateFee / uint32 arithmetic), the bytes are read with
// the independent layout reader of evmcodec.go.
//
//	feed id       = configured feed id
//	validFrom     = floor(validAfter / 1e9) + 1
//	timestamp     = floor(observationTimestamp / 1e9)
//	expiresAt     = timestamp + window
//	fee           = round_half_away(baseUSDFee / price × 1e18), 0 if price or base fee is missing or <= 0
//	value         = trunc(value × multiplier) in its declared type
//	streamlined   : feed id | (format, channel id), validAfter ns, packed values
//	unfit field  ⇒ error;  specimen ⇒ error (premium legacy, unpacked)
//
// Signatures: C12/expiresAt-wrap is known finding F3, C11/decimal-exponent-panic is known finding K4.

func init() { RegMonitor("C12", monC12) }

var c12Two32 = c12Pow2(32)

// c12SpecScaled = trunc(d × m) toward zero
func c12SpecScaled(d c12Dv, m *big.Int) *big.Int {
	p := new(big.Int).Set(d.c)
	if m != nil {
		p.Mul(p, m)
	}
	if d.e >= 0 {
		return p.Mul(p, c12Pow10(d.e))
	}
	return p.Quo(p, c12Pow10(-d.e)) // big.Int.Quo truncates toward zero
}

const (
	c12MinInt32 = -2147483648
	c12MaxInt32 = 2147483647
)

// c12FeeK4 reports whether the fee computation is in the domain of known finding K4 (the library's
// exponent precondition of QuoRem is violated)
func c12FeeK4(price, base c12Dv) bool {
	if price.c.Sign() <= 0 || base.c.Sign() <= 0 {
		return false
	}
	e := base.e - price.e + 18
	return e > c12MaxInt32 || e < c12MinInt32
}

// c12SpecFee = base/price × 1e18 rounded half away from zero (both positive), 0 otherwise
func c12SpecFee(price, base c12Dv) *big.Int {
	if price.c.Sign() <= 0 || base.c.Sign() <= 0 {
		return c12Bi(0)
	}
	num := new(big.Int).Set(base.c)
	den := new(big.Int).Set(price.c)
	k := base.e - price.e + 18
	if k >= 0 {
		num.Mul(num, c12Pow10(k))
	} else {
		den.Mul(den, c12Pow10(-k))
	}
	r := new(big.Rat).SetFrac(num, den)
	r.Add(r, big.NewRat(1, 2))
	// floor of a positive rational
	return new(big.Int).Quo(r.Num(), r.Denom())
}

func c12InType(v *big.Int, signed bool, bits int) bool {
	lo, hi := c12TypeRange(signed, bits)
	return v.Cmp(lo) >= 0 && v.Cmp(hi) <= 0
}

// c12PriceOf mirrors what the formats define as the token price of a value: a decimal, the benchmark of
// a quote, zero when missing; ok=false for any other type.
func c12PriceOf(v any) (c12Dv, bool) {
	if v == nil {
		return c12Dv{c12Bi(0), 0}, true
	}
	switch jStr(jget(v, "t")) {
	case "dec":
		return c12JDv(jget(v, "d")), true
	case "quote":
		return c12JDv(jget(v, "bm")), true
	case "nil-dec", "nil-quote":
		return c12Dv{c12Bi(0), 0}, true
	}
	return c12Dv{}, false
}

func c12OptMult(v any) *big.Int {
	if v == nil {
		return nil
	}
	return jBig(v)
}

// the harness keeps only the first 50 violations of a run: report every signature a few times only,
// so that frequent known findings cannot crowd out a different violation
var c12SigCount = map[string]int{}

func monC12(op J, res any) (viol []Violation, nontrivial bool) {
	name := jStr(op["op"])
	r := jObj(res)
	bad := func(sig, d string) {
		c12SigCount[sig]++
		if c12SigCount[sig] <= 3 {
			viol = append(viol, Violation{Sig: sig, Desc: d, Op: op, Res: res})
		}
	}
	isOK := r["ok"] != nil
	if jBool(op["malformed"]) {
		if isOK {
			bad("C12/malformed-opts-accepted", "opts text that does not parse was accepted")
		}
		if r["panic"] != nil {
			bad("C12/panic", "codec panicked on malformed opts")
		}
		return
	}
	switch name {
	case "evm.fee":
		price, base := c12JDv(op["price"]), c12JDv(op["base"])
		if r["panic"] != nil {
			if c12FeeK4(price, base) {
				bad("C11/decimal-exponent-panic", "CalculateFee panics: decimal exponent difference outside int32 (K4)")
			} else {
				bad("C12/panic", "CalculateFee panicked")
			}
			return viol, true
		}
		if c12FeeK4(price, base) {
			return
		}
		if want := c12SpecFee(price, base); !isOK || jBig(r["ok"]).Cmp(want) != 0 {
			bad("C12/fee", fmt.Sprintf("CalculateFee returned %v, specification gives %s", r["ok"], want))
		}
		return viol, true
	case "evm.encode.premium", "evm.encode.unpacked", "evm.encode.streamlined":
	default:
		return
	}
	kind := name[len("evm.encode."):]
	opts := jObj(op["opts"])
	rep := jObj(op["report"])
	vals := jArr(rep["values"])
	va, ts := jBig(rep["validAfter"]), jBig(rep["obsTs"])
	typedNil := false
	for _, v := range vals {
		if v != nil {
			t := jStr(jget(v, "t"))
			if t == "nil-dec" || t == "nil-quote" || t == "nil-tsv" || (t == "tsv" && jget(v, "v") == nil) {
				typedNil = true
			}
		}
	}

	var got J
	var raw []byte
	if isOK {
		raw = jBytes(jget(r["ok"], "b"))
		if d := evmRead(kind, op, raw); d != nil {
			got = normalise(d).(map[string]any)
		}
	}
	// refuse(sig, why): the property requires an error here
	refuse := func(sig, why string) {
		nontrivial = true
		if isOK {
			bad(sig, why+" but encoding succeeded")
		}
	}
	cmpBig := func(sig, field string, want *big.Int) {
		if g := jBig(got[field]); g.Cmp(want) != 0 {
			bad(sig, fmt.Sprintf("%s decodes to %s, specification gives %s", field, g, want))
		}
	}

	if typedNil {
		// typed nil pointers and timestamped values without inner value cannot come out of the plugin
		// (values are looked up in decoded aggregates, the decoder rejects a missing inner value);
		// these implementation-only cases are run for the record, nothing is required of them
		return
	}
	if kind == "streamlined" {
		if r["panic"] != nil {
			bad("C12/panic", "streamlined Encode panicked")
			return viol, true
		}
		abi := jArr(opts["abi"])
		if len(abi) != len(vals) {
			refuse("C12/length-mismatch-accepted", "ABI and values differ in length")
			return
		}
		// expected fields per element
		want := []any{}
		for i, el := range abi {
			encs := jArr(el)
			field := func(e any, x c12Dv) (any, bool) { // (expected, fits)
				t := jStr(jget(e, "type"))
				if t == "bytes0" {
					return nil, true
				}
				signed, bits, ok := c12ParseSolType(t)
				if !ok {
					return nil, false
				}
				s := c12SpecScaled(x, c12OptMult(jget(e, "mult")))
				return s.String(), c12InType(s, signed, bits)
			}
			v := vals[i]
			var t string
			if v != nil {
				t = jStr(jget(v, "t"))
			}
			switch {
			case t == "dec" && len(encs) == 1:
				w, fits := field(encs[0], c12JDv(jget(v, "d")))
				if !fits {
					refuse("C12/value-wrap", fmt.Sprintf("value %d does not fit its declared type", i))
					return
				}
				want = append(want, []any{w})
			case t == "tsv" && len(encs) == 2:
				w0, fits0 := field(encs[0], c12Dv{jBig(jget(v, "at")), 0})
				inner := jget(v, "v")
				var w1 any
				fits1 := true
				if jStr(jget(encs[1], "type")) != "bytes0" {
					if inner == nil || jStr(jget(inner, "t")) != "dec" {
						refuse("C12/bad-value-accepted", fmt.Sprintf("value %d nests something that is not a decimal", i))
						return
					}
					w1, fits1 = field(encs[1], c12JDv(jget(inner, "d")))
				}
				if !fits0 || !fits1 {
					refuse("C12/value-wrap", fmt.Sprintf("timestamped value %d does not fit its declared types", i))
					return
				}
				want = append(want, []any{w0, w1})
			default:
				refuse("C12/bad-value-accepted", fmt.Sprintf("value %d is nil / of an unsupported type / does not match its encoder count", i))
				return
			}
		}
		if !isOK {
			return viol, false
		}
		nontrivial = true
		if got == nil {
			bad("C12/undecodable", "bytes do not decode under the declared streamlined layout")
			return
		}
		if opts["feedID"] != nil {
			if jStr(got["feedID"]) != jStr(opts["feedID"]) {
				bad("C12/feed-id", "feed id differs from the configured one")
			}
		} else {
			cmpBig("C12/header", "format", jBig(op["format"]))
			cmpBig("C12/header", "channelID", jBig(rep["channelID"]))
		}
		cmpBig("C12/validAfter", "validAfter", va)
		if string(marshal(got["values"])) != string(marshal(normalise(want))) {
			bad("C12/value", fmt.Sprintf("packed values decode to %s, specification gives %s", marshal(got["values"]), marshal(want)))
		}
		return
	}

	// ---- premium legacy / ABI-encode-unpacked
	base := c12JDv(opts["baseUSDFee"])
	window := jBig(opts["window"])
	var native, link c12Dv
	pricesOK := false
	if len(vals) >= 2 {
		var ok0, ok1 bool
		native, ok0 = c12PriceOf(vals[0])
		link, ok1 = c12PriceOf(vals[1])
		pricesOK = ok0 && ok1
	}
	if r["panic"] != nil {
		if pricesOK && (c12FeeK4(native, base) || c12FeeK4(link, base)) {
			bad("C11/decimal-exponent-panic", "Encode panics in CalculateFee: decimal exponent difference outside int32 (K4)")
		} else {
			bad("C12/panic", kind+" Encode panicked")
		}
		return viol, true
	}
	if jBool(rep["specimen"]) {
		refuse("C12/specimen-accepted", "specimen report handed to a format that cannot mark it")
		return
	}
	if !pricesOK {
		refuse("C12/bad-value-accepted", "native/link price missing from the report or of an unsupported type")
		return
	}
	if c12FeeK4(native, base) || c12FeeK4(link, base) {
		return // the fee is not computable by the library (K4); an error before that point is fine
	}
	vas := new(big.Int).Quo(va, c12Bi(1_000_000_000))
	ots := new(big.Int).Quo(ts, c12Bi(1_000_000_000))
	if vas.Cmp(ots) >= 0 {
		return // outside the property's domain (the plugin never reports within one second for these formats)
	}
	validFrom := new(big.Int).Add(vas, c12BigOne)
	expiresAt := new(big.Int).Add(ots, window)
	nativeFee, linkFee := c12SpecFee(native, base), c12SpecFee(link, base)

	type field struct {
		name string
		v    *big.Int
	}
	var ints []field // premium: benchmark, bid, ask
	var wantVals []any
	if kind == "premium" {
		if len(vals) != 3 {
			refuse("C12/bad-value-accepted", "premium legacy needs exactly native price, link price, quote")
			return
		}
		if vals[2] == nil || jStr(jget(vals[2], "t")) != "quote" {
			refuse("C12/bad-value-accepted", "third value is not a quote")
			return
		}
		m := c12OptMult(opts["multiplier"])
		if m != nil && m.Sign() == 0 {
			return // a zero multiplier is refused by the codec; the property does not speak about it
		}
		ints = []field{
			{"benchmark", c12SpecScaled(c12JDv(jget(vals[2], "bm")), m)},
			{"bid", c12SpecScaled(c12JDv(jget(vals[2], "bid")), m)},
			{"ask", c12SpecScaled(c12JDv(jget(vals[2], "ask")), m)},
		}
	} else {
		abi := jArr(opts["abi"])
		if len(abi) != len(vals)-2 {
			refuse("C12/length-mismatch-accepted", "ABI and payload values differ in length")
			return
		}
		for i, el := range abi {
			encs := jArr(el)
			v := vals[i+2]
			var t string
			if v != nil {
				t = jStr(jget(v, "t"))
			}
			one := func(e any, x c12Dv) (string, bool) {
				signed, bits, ok := c12ParseSolType(jStr(jget(e, "type")))
				if !ok {
					return "", false
				}
				s := c12SpecScaled(x, c12OptMult(jget(e, "mult")))
				return s.String(), c12InType(s, signed, bits)
			}
			switch {
			case t == "dec" && len(encs) == 1:
				w, fits := one(encs[0], c12JDv(jget(v, "d")))
				if !fits {
					refuse("C12/value-wrap", fmt.Sprintf("payload value %d does not fit its declared type", i))
					return
				}
				wantVals = append(wantVals, []any{w})
			case t == "tsv" && len(encs) == 2:
				inner := jget(v, "v")
				if inner == nil || jStr(jget(inner, "t")) != "dec" {
					refuse("C12/bad-value-accepted", fmt.Sprintf("payload value %d nests something that is not a decimal", i))
					return
				}
				w0, fits0 := one(encs[0], c12Dv{jBig(jget(v, "at")), 0})
				w1, fits1 := one(encs[1], c12JDv(jget(inner, "d")))
				if !fits0 || !fits1 {
					refuse("C12/value-wrap", fmt.Sprintf("timestamped payload value %d does not fit its declared types", i))
					return
				}
				wantVals = append(wantVals, []any{w0, w1})
			default:
				refuse("C12/bad-value-accepted", fmt.Sprintf("payload value %d is nil / of an unsupported type / does not match its encoder count", i))
				return
			}
		}
	}
	// fields that must fit (expiresAt is handled separately: known finding F3)
	if validFrom.Cmp(c12Two32) >= 0 || ots.Cmp(c12Two32) >= 0 {
		refuse("C12/time-wrap", "validFrom / timestamp does not fit uint32")
		return
	}
	if nativeFee.Cmp(c12Pow2(192)) >= 0 || linkFee.Cmp(c12Pow2(192)) >= 0 {
		refuse("C12/uint192-wrap", "a fee does not fit uint192")
		return
	}
	for _, f := range ints {
		if !c12InType(f.v, true, 192) {
			refuse("C12/int192-wrap", f.name+" does not fit int192")
			return
		}
	}
	if !isOK {
		return viol, false
	}
	nontrivial = true
	if expiresAt.Cmp(c12Two32) >= 0 {
		bad("C12/expiresAt-wrap", fmt.Sprintf("expiresAt = %s + %s does not fit uint32 but encoding succeeded (uint32 addition wraps; F3)", ots, window))
	}
	if got == nil {
		bad("C12/undecodable", "bytes do not decode under the declared layout")
		return
	}
	if jStr(got["feedID"]) != jStr(opts["feedID"]) {
		bad("C12/feed-id", "feed id differs from the configured one")
	}
	cmpBig("C12/validFrom", "validFrom", validFrom)
	cmpBig("C12/timestamp", "timestamp", ots)
	cmpBig("C12/fee", "nativeFee", nativeFee)
	cmpBig("C12/fee", "linkFee", linkFee)
	if expiresAt.Cmp(c12Two32) < 0 {
		cmpBig("C12/expiresAt", "expiresAt", expiresAt)
	}
	for _, f := range ints {
		cmpBig("C12/value", f.name, f.v)
	}
	if kind == "unpacked" {
		if wantVals == nil {
			wantVals = []any{}
		}
		if string(marshal(got["values"])) != string(marshal(wantVals)) {
			bad("C12/value", fmt.Sprintf("payload decodes to %s, specification gives %s", marshal(got["values"]), marshal(wantVals)))
		}
	}
	return
}
