package main

import (
	"fmt"
	"math/big"

	"github.com/smartcontractkit/chainlink-data-streams/llo/reportcodecs/evm"
)

// ops evm.int.packed / evm.int.padded : {"type":"int24","v":"<int>"}
func init() {
	mk := func(f func(*big.Int, string) ([]byte, error)) OpFunc {
		return func(in J) any {
			in = normalise(in).(map[string]any)
			b, err := f(jBig(in["v"]), jStr(in["type"]))
			if err != nil {
				return resErr(errClass(err,
					[2]string{"invalid Solidity type", "invalid-type"},
					[2]string{"negative value provided", "out-of-range"},
					[2]string{"out of range", "out-of-range"},
					[2]string{"too large", "too-large"}), err)
			}
			return resOK(hexs(b))
		}
	}
	RegOp("evm.int.packed", mk(evm.EncodePackedBigInt))
	RegOp("evm.int.padded", mk(evm.EncodePaddedBigInt))
	RegGen("C13", "all 64 Solidity integer types × boundary table {min-1,min,min+1,-1,0,1,max-1,max,max+1,±2^k} plus random values up to 300 bits plus malformed type strings; non-trivial = valid type (both accept and reject cases count); distinct = different op line", genC13)
	RegMonitor("C13", monC13)
}

var badTypes = []string{"", "int", "uint", "int0", "int7", "int257", "uint264", "int08", "uint8 ", " uint8", "Uint8", "uint8\n", "bytes32", "bool", "int-8", "uint256x", "xuint256", "uuint8", "int1", "int2", "int25", "int2560", "bytes0", "int８"}

func genC13(g *G) {
	pow := func(k int) *big.Int { return new(big.Int).Lsh(big.NewInt(1), uint(k)) }
	for _, signed := range []bool{false, true} {
		for bits := 8; bits <= 256; bits += 8 {
			t := fmt.Sprintf("int%d", bits)
			if !signed {
				t = "u" + t
			}
			var min, max *big.Int
			if signed {
				min = new(big.Int).Neg(pow(bits - 1))
				max = new(big.Int).Sub(pow(bits-1), big.NewInt(1))
			} else {
				min = big.NewInt(0)
				max = new(big.Int).Sub(pow(bits), big.NewInt(1))
			}
			vals := []*big.Int{}
			for _, d := range []int64{-1, 0, 1} {
				vals = append(vals, new(big.Int).Add(min, big.NewInt(d)), new(big.Int).Add(max, big.NewInt(d)), big.NewInt(d))
			}
			for _, k := range []int{bits - 9, bits - 8, bits - 1, bits, bits + 1, bits + 8} {
				if k >= 0 {
					vals = append(vals, pow(k), new(big.Int).Neg(pow(k)))
				}
			}
			for i := 0; i < g.N(6, 60); i++ {
				b := new(big.Int).Rand(g.R, pow(1+g.R.Intn(300)))
				if g.R.Intn(2) == 0 {
					b.Neg(b)
				}
				vals = append(vals, b)
			}
			for _, v := range vals {
				op := "evm.int.packed"
				g.Emit(J{"op": op, "type": t, "v": v.String()}, "valid-type")
				g.Emit(J{"op": "evm.int.padded", "type": t, "v": v.String()}, "valid-type")
			}
		}
	}
	for _, t := range badTypes {
		g.Emit(J{"op": "evm.int.packed", "type": t, "v": "1"}, "bad-type")
		g.Emit(J{"op": "evm.int.padded", "type": t, "v": "-1"}, "bad-type")
	}
}

// monC13: independent oracle: succeeds iff representable; bytes are N/8 big-endian two's complement
// (packed) or its 32-byte sign extension (padded).
func monC13(op J, res any) (viol []Violation, nontrivial bool) {
	t := jStr(op["type"])
	v := jBig(op["v"])
	r := jObj(res)
	bad := func(sig, d string) { viol = append(viol, Violation{Sig: "C13/" + sig, Desc: d, Op: op, Res: res}) }
	if r["panic"] != nil {
		bad("panic", "integer encoder panicked")
		return
	}
	var signed bool
	var bits int
	valid := false
	for b := 8; b <= 256; b += 8 {
		if t == fmt.Sprintf("int%d", b) {
			signed, bits, valid = true, b, true
		}
		if t == fmt.Sprintf("uint%d", b) {
			signed, bits, valid = false, b, true
		}
	}
	if !valid {
		if r["ok"] != nil {
			bad("bad-type-accepted", "malformed type string accepted: "+t)
		}
		return viol, false
	}
	nontrivial = true
	one := big.NewInt(1)
	var lo, hi *big.Int
	if signed {
		lo = new(big.Int).Neg(new(big.Int).Lsh(one, uint(bits-1)))
		hi = new(big.Int).Sub(new(big.Int).Lsh(one, uint(bits-1)), one)
	} else {
		lo = big.NewInt(0)
		hi = new(big.Int).Sub(new(big.Int).Lsh(one, uint(bits)), one)
	}
	fits := v.Cmp(lo) >= 0 && v.Cmp(hi) <= 0
	if !fits {
		if r["ok"] != nil {
			bad("unrepresentable-accepted", "value outside the type's range was encoded")
		}
		return
	}
	if r["ok"] == nil {
		bad("representable-rejected", "representable value rejected")
		return
	}
	got := jBytes(r["ok"])
	width := bits / 8
	if jStr(op["op"]) == "evm.int.padded" {
		width = 32
	}
	mod := new(big.Int).Lsh(one, uint(width*8))
	want := new(big.Int).Mod(v, mod).FillBytes(make([]byte, width))
	if hexs(got) != hexs(want) {
		bad("wrong-bytes", "encoded bytes are not the two's complement representation")
	}
	return
}
