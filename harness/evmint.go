package main

import (
	"strings"
	"fmt"
	"math/big"

	"github.com/smartcontractkit/chainlink-data-streams/llo/reportcodecs/evm"
)

// ops evm.int.packed / evm.int.padded : {"type":"int24","v":"<int>"}
func init() {
	mk := func(f func(*big.Int, string) ([]byte, error)) OpFunc {
		return func(in J) any {
			in = normalise(in).(map[string]any)
			b, err := f(jBig(in["v"]), jStr(in["type"]))
			if err != nil {
				return resErr(errClass(err,
					[2]string{"invalid Solidity type", "invalid-type"},
					[2]string{"negative value provided", "out-of-range"},
					[2]string{"out of range", "out-of-range"},
					[2]string{"too large", "too-large"}), err)
			}
			return resOK(hexs(b))
		}
	}
	// evm.int.batch: a sequence of encodes in one go; every returned slice is kept and read only after
	// the last call (a result must not depend on, or be changed by, other calls)
	RegOp("evm.int.batch", func(in J) any {
		in = normalise(in).(map[string]any)
		type kept struct {
			b   []byte
			err error
		}
		var ks []kept
		for _, c := range jArr(in["calls"]) {
			f := evm.EncodePaddedBigInt
			if jStr(jget(c, "mode")) == "packed" {
				f = evm.EncodePackedBigInt
			}
			b, err := f(jBig(jget(c, "v")), jStr(jget(c, "type")))
			ks = append(ks, kept{b, err})
		}
		outs := make([]any, len(ks))
		for i, k := range ks {
			if k.err != nil {
				outs[i] = resErr(errClass(k.err,
					[2]string{"invalid Solidity type", "invalid-type"},
					[2]string{"negative value provided", "out-of-range"},
					[2]string{"out of range", "out-of-range"},
					[2]string{"too large", "too-large"}), k.err)
			} else {
				outs[i] = resOK(hexs(k.b))
			}
		}
		return resOK(outs)
	})
	RegOp("evm.int.packed", mk(evm.EncodePackedBigInt))
	RegOp("evm.int.padded", mk(evm.EncodePaddedBigInt))
	RegGen("C13", "all 64 Solidity integer types × boundary table {min-1,min,min+1,-1,0,1,max-1,max,max+1,±2^k} plus random values up to 300 bits plus malformed type strings; non-trivial = valid type (both accept and reject cases count); distinct = different op line", genC13)
	RegMonitor("C13", monC13)
}

var badTypes = []string{"", "int", "uint", "int0", "int7", "int257", "uint264", "int08", "uint8 ", " uint8", "Uint8", "uint8\n", "bytes32", "bool", "int-8", "uint256x", "xuint256", "uuint8", "int1", "int2", "int25", "int2560", "bytes0", "int８"}

func genC13(g *G) {
	pow := func(k int) *big.Int { return new(big.Int).Lsh(big.NewInt(1), uint(k)) }
	// The encoders share package-level state (the type regular expression) with the report codecs that call them.
	// What those codecs do first must not change what the encoders do afterwards: the run starts with the codecs'
	// Verify on every kind of channel options the C12 generator knows (valid ones, unsupported ABI types, two-element
	// timestamped entries, malformed text), and with a few directed ones; all integer cases follow in the same process.
	{
		sub := &G{R: g.R, Tier: g.Tier, Prop: g.Prop}
		n := 0
		sub.emit = func(c Case) {
			if strings.HasPrefix(jStr(c.Op["op"]), "evm.verify.") && n < 400 {
				n++
				c.ModelSkip = true
				c.Tags = append(c.Tags, "codec-verify-before-encodes")
				g.emit(c)
			}
		}
		genC12(sub)
		feed := "0x" + strings.Repeat("cd", 32)
		for _, abi := range []string{`[{"type":"uint190"}]`, `[{"type":"bool"}]`, `[{"type":"int7"}]`, `[[{"type":"uint64"},{"type":"int192"}]]`, `[[{"type":"int64"},{"type":"int192"}]]`,
			`[[{"type":"bytes0"},{"type":"uint8"}]]`, `[{"type":"int256"},{"type":"uint999"}]`, `[{"type":"uint0"}]`, `[{"type":"int0"}]`} {
			g.EmitImpl(J{"op": "evm.verify.unpacked", "optsText": fmt.Sprintf(`{"baseUSDFee":"1","expirationWindow":60,"feedID":%q,"abi":%s}`, feed, abi), "nStreams": 3, "implOnly": true}, "codec-verify-before-encodes")
			g.EmitImpl(J{"op": "evm.verify.streamlined", "optsText": fmt.Sprintf(`{"feedID":%q,"abi":%s}`, feed, abi), "nStreams": 1, "implOnly": true}, "codec-verify-before-encodes")
			g.EmitImpl(J{"op": "evm.verify.streamlined", "optsText": fmt.Sprintf(`{"abi":%s}`, abi), "nStreams": 1, "implOnly": true}, "codec-verify-before-encodes")
		}
	}
	// histories: the same encoders called in arbitrary (not width-sorted) order, results retained
	defer func() {
		types := []string{}
		for bits := 8; bits <= 256; bits += 8 {
			types = append(types, fmt.Sprintf("int%d", bits), fmt.Sprintf("uint%d", bits))
		}
		for i := 0; i < g.N(150, 2000); i++ {
			calls := []any{}
			for k := 2 + g.R.Intn(14); k > 0; k-- {
				t := types[g.R.Intn(len(types))]
				bits := 8 * (1 + g.R.Intn(32))
				v := new(big.Int).Rand(g.R, pow(1+g.R.Intn(bits)))
				if g.R.Intn(3) != 0 {
					v.Neg(v)
				}
				mode := "padded"
				if g.R.Intn(4) == 0 {
					mode = "packed"
				}
				calls = append(calls, J{"mode": mode, "type": t, "v": v.String()})
			}
			g.Emit(J{"op": "evm.int.batch", "calls": calls}, "batch")
		}
		// single ops in shuffled order (a narrow negative after a wide one)
		for i := 0; i < g.N(600, 6000); i++ {
			t := types[g.R.Intn(len(types))]
			v := new(big.Int).Rand(g.R, pow(1+g.R.Intn(260)))
			if g.R.Intn(3) != 0 {
				v.Neg(v)
			}
			g.Emit(J{"op": "evm.int.padded", "type": t, "v": v.String()}, "valid-type", "shuffled")
		}
	}()
	for _, signed := range []bool{false, true} {
		for bits := 8; bits <= 256; bits += 8 {
			t := fmt.Sprintf("int%d", bits)
			if !signed {
				t = "u" + t
			}
			var min, max *big.Int
			if signed {
				min = new(big.Int).Neg(pow(bits - 1))
				max = new(big.Int).Sub(pow(bits-1), big.NewInt(1))
			} else {
				min = big.NewInt(0)
				max = new(big.Int).Sub(pow(bits), big.NewInt(1))
			}
			vals := []*big.Int{}
			for _, d := range []int64{-1, 0, 1} {
				vals = append(vals, new(big.Int).Add(min, big.NewInt(d)), new(big.Int).Add(max, big.NewInt(d)), big.NewInt(d))
			}
			for _, k := range []int{bits - 9, bits - 8, bits - 1, bits, bits + 1, bits + 8} {
				if k >= 0 {
					vals = append(vals, pow(k), new(big.Int).Neg(pow(k)))
				}
			}
			for i := 0; i < g.N(6, 60); i++ {
				b := new(big.Int).Rand(g.R, pow(1+g.R.Intn(300)))
				if g.R.Intn(2) == 0 {
					b.Neg(b)
				}
				vals = append(vals, b)
			}
			for _, v := range vals {
				op := "evm.int.packed"
				g.Emit(J{"op": op, "type": t, "v": v.String()}, "valid-type")
				g.Emit(J{"op": "evm.int.padded", "type": t, "v": v.String()}, "valid-type")
			}
		}
	}
	// every type against the boundaries of every other width and of the machine words (a fast path guarded by the
	// wrong width test shows only there), as one retained batch per type and mode
	for _, signed := range []bool{false, true} {
		for bits := 8; bits <= 256; bits += 8 {
			t := fmt.Sprintf("int%d", bits)
			if !signed {
				t = "u" + t
			}
			for _, mode := range []string{"packed", "padded"} {
				calls := []any{}
				for _, k := range []int{7, 8, 15, 16, 24, 31, 32, 33, 62, 63, 64, 65, 127, 128, 191, 192, 255, 256, 257} {
					for _, off := range []*big.Int{big.NewInt(0), big.NewInt(1), big.NewInt(-1), new(big.Int).Neg(pow(bits - 1)), new(big.Int).Sub(big.NewInt(-1), pow(bits-1)),
						new(big.Int).Neg(pow(bits)), new(big.Int).Sub(big.NewInt(1), pow(bits-1))} {
						v := new(big.Int).Add(pow(k), off)
						calls = append(calls, J{"mode": mode, "type": t, "v": v.String()}, J{"mode": mode, "type": t, "v": new(big.Int).Neg(v).String()})
					}
				}
				g.Emit(J{"op": "evm.int.batch", "calls": calls}, "batch", "cross-width-boundaries")
			}
		}
	}
	// type strings: every width 0..300 written plainly and in the spellings a number parser might accept
	// (leading zeros, octal/hex/binary prefixes, signs, separators, exponents)
	for w := 0; w <= 300; w++ {
		forms := []string{fmt.Sprint(w), fmt.Sprintf("0%d", w), fmt.Sprintf("00%d", w), fmt.Sprintf("+%d", w), fmt.Sprintf("0x%x", w), fmt.Sprintf("0o%o", w), fmt.Sprintf("0%o", w),
			fmt.Sprintf("0b%b", w), fmt.Sprintf("%d.0", w), fmt.Sprintf("%de0", w), fmt.Sprintf("%d_", w), fmt.Sprintf("_%d", w)}
		if w >= 10 {
			d := fmt.Sprint(w)
			forms = append(forms, d[:1]+"_"+d[1:])
		}
		for fi, f := range forms {
			if fi > 0 && !g.Thorough() && w%8 != 0 && (w+fi)%5 != 0 {
				continue
			}
			for _, pre := range []string{"int", "uint"} {
				op := "evm.int.packed"
				if (w+fi)%2 == 0 {
					op = "evm.int.padded"
				}
				g.Emit(J{"op": op, "type": pre + f, "v": "100"}, "type-spelling")
			}
		}
	}
	for _, t := range badTypes {
		g.Emit(J{"op": "evm.int.packed", "type": t, "v": "1"}, "bad-type")
		g.Emit(J{"op": "evm.int.padded", "type": t, "v": "-1"}, "bad-type")
	}
}

// monC13: independent oracle: succeeds iff representable; bytes are N/8 big-endian two's complement
// (packed) or its 32-byte sign extension (padded).
func monC13(op J, res any) (viol []Violation, nontrivial bool) {
	if !strings.HasPrefix(jStr(op["op"]), "evm.int.") {
		return nil, false // the codecs' Verify calls at the start of the run are not judged here
	}
	if jStr(op["op"]) == "evm.int.batch" {
		r := jObj(res)
		if r["panic"] != nil {
			return []Violation{{Sig: "C13/panic", Desc: "integer encoder panicked", Op: op, Res: res}}, true
		}
		outs := jArr(r["ok"])
		for i, c := range jArr(op["calls"]) {
			if i >= len(outs) {
				break
			}
			sub := J{"op": "evm.int." + jStr(jget(c, "mode")), "type": jget(c, "type"), "v": jget(c, "v")}
			v, _ := monC13(sub, outs[i])
			for _, x := range v {
				x.Op, x.Res = op, res
				x.Desc = fmt.Sprintf("call %d of a sequence of encodes (results read after the last call): %s", i, x.Desc)
				viol = append(viol, x)
			}
		}
		return viol, true
	}
	t := jStr(op["type"])
	v := jBig(op["v"])
	r := jObj(res)
	bad := func(sig, d string) { viol = append(viol, Violation{Sig: "C13/" + sig, Desc: d, Op: op, Res: res}) }
	if r["panic"] != nil {
		bad("panic", "integer encoder panicked")
		return
	}
	var signed bool
	var bits int
	valid := false
	for b := 8; b <= 256; b += 8 {
		if t == fmt.Sprintf("int%d", b) {
			signed, bits, valid = true, b, true
		}
		if t == fmt.Sprintf("uint%d", b) {
			signed, bits, valid = false, b, true
		}
	}
	if !valid {
		if r["ok"] != nil {
			bad("bad-type-accepted", "malformed type string accepted: "+t)
		}
		return viol, false
	}
	nontrivial = true
	one := big.NewInt(1)
	var lo, hi *big.Int
	if signed {
		lo = new(big.Int).Neg(new(big.Int).Lsh(one, uint(bits-1)))
		hi = new(big.Int).Sub(new(big.Int).Lsh(one, uint(bits-1)), one)
	} else {
		lo = big.NewInt(0)
		hi = new(big.Int).Sub(new(big.Int).Lsh(one, uint(bits)), one)
	}
	fits := v.Cmp(lo) >= 0 && v.Cmp(hi) <= 0
	if !fits {
		if r["ok"] != nil {
			bad("unrepresentable-accepted", "value outside the type's range was encoded")
		}
		return
	}
	if r["ok"] == nil {
		bad("representable-rejected", "representable value rejected")
		return
	}
	got := jBytes(r["ok"])
	width := bits / 8
	if jStr(op["op"]) == "evm.int.padded" {
		width = 32
	}
	mod := new(big.Int).Lsh(one, uint(width*8))
	want := new(big.Int).Mod(v, mod).FillBytes(make([]byte, width))
	if hexs(got) != hexs(want) {
		bad("wrong-bytes", "encoded bytes are not the two's complement representation")
	}
	return
}
