package main

import (
	"context"
	"fmt"

	"github.com/smartcontractkit/libocr/offchainreporting2/types"
	"github.com/smartcontractkit/libocr/offchainreporting2plus/ocr3types"

	llotypes "github.com/smartcontractkit/chainlink-common/pkg/types/llo"

	"github.com/smartcontractkit/chainlink-data-streams/llo"
)

// runRounds threads Outcome/Reports through rounds on one plugin instance, starting from the
// initial outcome; returns per-round results and the last retirement report seen.
func runRounds(hp *hPlugin, rounds []any) (outs []any, rr *llo.RetirementReport, herr any) {
	return runRoundsFrom(hp, nil, 1, rounds)
}

// heldRRChanged: did any retirement-report bytes this plugin returned from Reports() change since?
func (hp *hPlugin) heldRRChanged() bool {
	for i := range hp.heldRR {
		if string(hp.heldRR[i]) != hp.heldRRCopy[i] {
			return true
		}
	}
	return false
}

// runRoundsFrom starts from a hand-built outcome (through the outcome codec, as a node would read it) when start is non-nil.
func runRoundsFrom(hp *hPlugin, start any, seq uint64, rounds []any) (outs []any, rr *llo.RetirementReport, herr any) {
	var cur llo.Outcome
	if start != nil {
		b, err := hp.p.OutcomeCodec.Encode(jOutcome(start))
		if err != nil {
			return nil, nil, resErr("encode-start", err)
		}
		cur, err = hp.p.OutcomeCodec.Decode(b)
		if err != nil {
			return nil, nil, J{"harness-error": err.Error()}
		}
	} else {
		o0, _, e := hp.callOutcome(1, llo.Outcome{}, make([]types.AttributedObservation, 2*hp.p.F+1))
		if e != nil {
			return nil, nil, e
		}
		cur = o0
	}
	outs = []any{}
	for _, r := range rounds {
		seq++
		aos, err := hp.encodeObs(jget(r, "obs"))
		if err != nil {
			return nil, nil, J{"harness-error": err.Error()}
		}
		func() {
			defer func() {
				if rec := recover(); rec != nil {
					outs = append(outs, J{"panic": true, "panic_msg": fmt.Sprint(rec)})
				}
			}()
			o, ob, e := hp.callOutcome(seq, cur, aos)
			if e != nil {
				outs = append(outs, e)
				return
			}
			rs, err := hp.p.Reports(context.Background(), seq, ob)
			if err != nil {
				cur = o
				outs = append(outs, J{"outcome": outcomeJ(o), "reports": []any{}, "reportsFailed": true, "_reports_err": err.Error(), "_bytes": hexs(ob) + "|"})
				return
			}
			rj, err := reportsJ(rs)
			if err != nil {
				outs = append(outs, J{"harness-error": err.Error()})
				return
			}
			for _, x := range rs {
				if x.ReportWithInfo.Info.ReportFormat == llotypes.ReportFormatRetirement {
					d, err := llo.StandardRetirementReportCodec{}.Decode(x.ReportWithInfo.Report)
					if err == nil {
						rr = &d
					}
					// the bytes are attested and stored later: they are kept and must still be the same at the end
					hp.heldRR = append(hp.heldRR, x.ReportWithInfo.Report)
					hp.heldRRCopy = append(hp.heldRRCopy, string(x.ReportWithInfo.Report))
				}
			}
			cur = o
			outs = append(outs, J{"outcome": outcomeJ(o), "reports": rj, "_bytes": hexs(ob) + "|" + rawReports(rs)})
		}()
	}
	return
}

func init() {
	RegOp("llo.handover", func(in J) any {
		in = normalise(in).(map[string]any)
		hpA, err := newPlugin(jCfg(in["cfgA"]), nil, false)
		if err != nil {
			return resErr("factory", err)
		}
		hpB, err := newPlugin(jCfg(in["cfgB"]), nil, false)
		if err != nil {
			return resErr("factory", err)
		}
		seq0 := uint64(1)
		if in["startSeqNr"] != nil {
			seq0 = jU64(in["startSeqNr"])
		}
		outsA, rr, e := runRoundsFrom(hpA, in["startA"], seq0, jArr(in["roundsA"]))
		if e != nil {
			return e
		}
		if rr != nil {
			// what the successor's cache verifies the token against: the attested report, re-decoded
			b, err := llo.StandardRetirementReportCodec{}.Encode(*rr)
			if err != nil {
				return J{"harness-error": err.Error()}
			}
			d, err := llo.StandardRetirementReportCodec{}.Decode(b)
			if err != nil {
				return J{"harness-error": err.Error()}
			}
			hpB.cache.table[string(validToken)] = d
		}
		outsB, _, e := runRoundsFrom(hpB, in["startB"], seq0, jArr(in["roundsB"]))
		if e != nil {
			return e
		}
		var rrj any
		if rr != nil {
			rrj = J{"version": S(rr.ProtocolVersion), "va": vaJ(rr.ValidAfterNanoseconds)}
		}
		if hpA.heldRRChanged() || hpB.heldRRChanged() {
			return clobbered("RetirementReportCodec.Encode (bytes returned by Reports() changed while later rounds ran)")
		}
		return resOK(J{"A": outsA, "B": outsB, "rr": rrj})
	})
	RegGen("C04", "two-instance handover scripts: predecessor A (production) defines channels, reports, then retires on > f votes; successor B (staging) defines some channels before promotion, is promoted by observations carrying the attestation token (mixed with forged tokens), defines further channels one or more rounds after promotion; observation timestamps forward/backward/sub-second; up to f faulty observers; both protocol versions; non-trivial = at least one first non-specimen report of a channel listed in the retirement report was checked; distinct = different op line", genC04)
	RegMonitor("C04", monC04)
	_ = ocr3types.Outcome{}
}

func genC04(g *G) {
	n := g.N(250, 4000)
	for i := 0; i < n; i++ {
		w := newWorld(g)
		w.hasPred = false
		w.exact = i%4 == 3 // a clock that ticks in whole report intervals: windows exactly one interval long
		w.pred2 = false    // (the handover op wires instance A's report to the one token of predecessor 1)
		cfgA := w.cfgJ()
		chans := []int{1, 2, 3, 4}
		defsOf := map[int]J{}
		for _, c := range chans {
			defsOf[c] = w.rndChanDef()
		}
		all := 3*w.f + 1
		// ---- A
		var roundsA []any
		w.advance()
		planDef := votePlan{}
		for _, c := range chans[:2+g.R.Intn(3)] {
			planDef.updates = append(planDef.updates, updVote{c, defsOf[c], all})
		}
		barren := g.R.Intn(6) == 0
		if barren {
			// a predecessor that never had a channel: its retirement report carries no validity starts
			// (a nil map once decoded) and the successor carries its own entries forward on promotion
			planDef = votePlan{}
		}
		obs, _ := w.round(planDef, []int{1, 2, 3, 4, 5})
		roundsA = append(roundsA, J{"obs": obs})
		for k := 2 + g.R.Intn(5); k > 0; k-- {
			w.advance()
			p := votePlan{}
			if g.R.Intn(5) == 0 {
				p.removes = append(p.removes, updVote{id: chans[g.R.Intn(len(chans))], voters: w.nearF(all)})
			}
			obs, _ := w.round(p, []int{1, 2, 3, 4, 5})
			roundsA = append(roundsA, J{"obs": obs})
		}
		w.advance()
		retireVoters := all
		if g.R.Intn(6) == 0 {
			retireVoters = w.f // not enough: A never retires
		}
		obs, _ = w.round(votePlan{retire: retireVoters}, []int{1, 2, 3, 4, 5})
		roundsA = append(roundsA, J{"obs": obs})
		for k := g.R.Intn(3); k > 0; k-- { // rounds after retirement
			w.advance()
			obs, _ := w.round(w.rndPlan(all), []int{1, 2, 3, 4, 5})
			roundsA = append(roundsA, J{"obs": obs})
		}
		// ---- B (clock continues; sometimes it starts earlier than A's last report)
		wb := *w
		wb.hasPred = true
		if g.R.Intn(5) == 0 && wb.now > 5_000_000_000 {
			wb.now -= uint64(g.R.Intn(5_000_000_000))
		}
		cfgB := wb.cfgJ()
		var roundsB []any
		pre := g.R.Intn(3)
		for k := 0; k < pre; k++ { // staging rounds
			wb.advance()
			p := votePlan{}
			if g.R.Intn(2) == 0 {
				c := chans[g.R.Intn(len(chans))]
				p.updates = append(p.updates, updVote{c, defsOf[c], all})
			}
			if g.R.Intn(3) == 0 {
				p.attBad = 1
			}
			obs, _ := wb.round(p, []int{1, 2, 3, 4, 5})
			roundsB = append(roundsB, J{"obs": obs})
		}
		wb.advance()
		pp := votePlan{attValid: 1 + g.R.Intn(2), attBad: g.R.Intn(2)}
		if g.R.Intn(2) == 0 {
			c := chans[g.R.Intn(len(chans))]
			pp.updates = append(pp.updates, updVote{c, defsOf[c], all})
		}
		obs, _ = wb.round(pp, []int{1, 2, 3, 4, 5})
		roundsB = append(roundsB, J{"obs": obs})
		for k := 2 + g.R.Intn(6); k > 0; k-- { // after promotion: ramp up the remaining channels
			wb.advance()
			p := votePlan{}
			if g.R.Intn(2) == 0 {
				c := chans[g.R.Intn(len(chans))]
				p.updates = append(p.updates, updVote{c, defsOf[c], all})
			}
			if g.R.Intn(8) == 0 {
				p.removes = append(p.removes, updVote{id: chans[g.R.Intn(len(chans))], voters: wb.nearF(all)})
			}
			obs, _ := wb.round(p, []int{1, 2, 3, 4, 5})
			roundsB = append(roundsB, J{"obs": obs})
		}
		g.Emit(J{"op": "llo.handover", "cfgA": cfgA, "cfgB": cfgB, "roundsA": roundsA, "roundsB": roundsB}, "handover", "f="+S(w.f), "version="+S(w.version))
	}
}

func monC04(op J, res any) (viol []Violation, nontrivial bool) {
	if jStr(op["op"]) != "llo.handover" {
		return
	}
	r := jObj(jObj(res)["ok"])
	if r == nil {
		return
	}
	cfgB := jCfg(op["cfgB"])
	bad := func(sig, d string) { viol = append(viol, Violation{Sig: "C04/" + sig, Desc: d, Op: op, Res: res}) }
	// A: no channel report in or after the round in which it retires
	retired := false
	lastEnd := map[uint32]uint64{} // end of the predecessor's last (non-specimen) window per channel
	dropped := map[uint32]bool{}   // channel left the definitions after it had reported (its window chain restarts)
	if sa := viewOutcome(op["startA"]); sa != nil && sa.stage == "production" {
		// a predecessor that starts from a given production outcome: its validity starts are where the windows so far ended
		for id, va := range sa.va {
			if _, ok := sa.defs[id]; ok {
				lastEnd[id] = va
			}
		}
	}
	for _, o := range jArr(r["A"]) {
		om := jObj(o)
		cur := viewOutcome(om["outcome"])
		if cur == nil {
			continue
		}
		for id := range lastEnd {
			// voted out (possibly re-added in the same round: then its validity start is missing for a round)
			if _, ok := cur.defs[id]; !ok {
				dropped[id] = true
			}
			if _, ok := cur.va[id]; !ok {
				dropped[id] = true
			}
		}
		for _, rep := range jArr(om["reports"]) {
			m := jObj(rep)
			if jStr(m["kind"]) == "channel" && !jBool(m["specimen"]) {
				lastEnd[jU32(m["channel"])] = jU64(m["obsTs"])
			}
		}
		if cur.stage == "retired" {
			retired = true
		}
		if retired {
			for _, rep := range jArr(om["reports"]) {
				if jStr(jObj(rep)["kind"]) == "channel" {
					bad("report-after-retirement", "the predecessor produced a channel report in or after its retiring round")
				}
			}
		}
	}
	rr := jObj(r["rr"])
	rrVA := map[uint32]uint64{}
	if rr != nil {
		for _, e := range jArr(rr["va"]) {
			rrVA[jU32(jget(e, "id"))] = jU64(jget(e, "va"))
		}
	}
	for _, rd := range jArr(op["roundsA"]) {
		vc := countVotes(jArr(jget(rd, "obs")), []any{})
		for id, v := range vc.rm {
			if v > jCfg(op["cfgA"]).F {
				dropped[id] = true
			}
		}
	}
	// the retirement report must record, for a channel that reported and stayed defined, where its last window
	// ended — whichever retired round the report is taken from (version 0 keeps whole seconds)
	cfgA := jCfg(op["cfgA"])
	for id, va := range rrVA {
		end, reported := lastEnd[id]
		if !reported || dropped[id] {
			continue
		}
		if va != end && !(cfgA.Version == 0 && va == end/1e9*1e9) {
			bad("retirement-report-not-last-window", fmt.Sprintf("channel %d: the retirement report records validity start %d but the predecessor's last window ended at %d", id, va, end))
		}
	}
	// B: a successor whose Outcome panics can never be promoted (the round is lost for every node alike)
	for i, o := range jArr(r["B"]) {
		if om := jObj(o); om != nil && om["panic"] != nil {
			bad("successor-panics", fmt.Sprintf("Outcome/Reports of the successor panicked in its round %d: %s", i, jStr(om["panic_msg"])))
		}
	}
	promoted := false
	first := map[uint32]bool{}   // channels whose first non-specimen report has been seen
	removed := map[uint32]bool{} // channels voted out after promotion (the property does not cover them any more)
	roundsB := jArr(op["roundsB"])
	for i, o := range jArr(r["B"]) {
		om := jObj(o)
		cur := viewOutcome(om["outcome"])
		if cur == nil {
			continue
		}
		if cur.stage != "staging" {
			promoted = true
		}
		if promoted && i < len(roundsB) {
			vc := countVotes(jArr(jget(roundsB[i], "obs")), []any{J{"bytes": hexs(validToken), "rr": J{"version": "0", "va": []any{}}}})
			for id, v := range vc.rm {
				if v > cfgB.F {
					removed[id] = true
				}
			}
		}
		for _, rep := range jArr(om["reports"]) {
			m := jObj(rep)
			if jStr(m["kind"]) != "channel" {
				continue
			}
			if !promoted && !jBool(m["specimen"]) {
				bad("non-specimen-before-promotion", "the successor produced a non-specimen report before promotion")
			}
			if jBool(m["specimen"]) {
				continue
			}
			id := jU32(m["channel"])
			if first[id] {
				continue
			}
			first[id] = true
			want, listed := rrVA[id]
			if !listed || removed[id] {
				continue
			}
			if cfgB.Version == 0 {
				want = want / 1e9 * 1e9
			}
			nontrivial = true
			if got := jU64(m["validAfter"]); got != want {
				bad("handover-gap-or-overlap", fmt.Sprintf("channel %d: successor's first non-specimen report starts at %d, predecessor's last window ended at %d", id, got, want))
			}
		}
	}
	return
}

// A single instance with a predecessor going staging -> production -> retired, with replayed attestations
// afterwards: "the predecessor produces no channel report in or after the round in which it retires" is a
// statement about every later round of that instance too.
func init() {
	RegGen("C04", "plus single-instance histories with a predecessor (promotion, retirement, attestations replayed after retirement)", func(g *G) {
		sub := &G{R: g.R, Tier: g.Tier, Prop: g.Prop}
		sub.emit = func(c Case) {
			if jBool(jObj(c.Op["cfg"])["hasPred"]) {
				g.emit(c)
			}
		}
		genHistoryCases(sub, g.N(450, 6000), 8, "history")
	})
	RegMonitor("C04", func(op J, res any) (viol []Violation, nontrivial bool) {
		if jStr(op["op"]) != "llo.history" {
			return nil, false
		}
		retiredAt := -1
		for i, o := range jArr(jObj(res)["ok"]) {
			om := jObj(o)
			cur := viewOutcome(om["outcome"])
			if cur == nil {
				continue
			}
			if cur.stage == "retired" && retiredAt < 0 {
				retiredAt = i
			}
			if retiredAt >= 0 {
				for _, rep := range jArr(om["reports"]) {
					if jStr(jObj(rep)["kind"]) == "channel" {
						viol = append(viol, Violation{Sig: "C04/report-after-retirement", Desc: fmt.Sprintf("the instance retired in round %d and produced a channel report in round %d", retiredAt, i), Op: op, Res: res})
						return viol, true
					}
				}
			}
		}
		return viol, retiredAt >= 0
	})
}
