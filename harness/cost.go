package main

// C19 — model-compared ops of the cost model:
//   cost.sv     UnmarshalProtoStreamValue on arbitrary bytes: verdict class, bytes handed to the
//               decoders level by level ("scan"), number of unmarshalBinary levels entered
//   cost.cmp    decimal.Cmp: result, digits of the materialised power of ten, digits of the rescaled coefficient
//   cost.bigint decimal.BigInt: digits of the result and of the materialised power
// The implementation side runs the REAL decoders / the REAL decimal library; the byte counts are
// taken from what the real protobuf parser hands to the next level.  The measured (CPU / allocation)
// families are in cost_measure.go.

import (
	"errors"
	"fmt"
	"math/big"
	"sync"

	"github.com/shopspring/decimal"
	"google.golang.org/protobuf/encoding/protowire"
	"google.golang.org/protobuf/proto"

	"github.com/smartcontractkit/chainlink-data-streams/llo"
)

const costTSV = llo.LLOStreamValue_TimestampedStreamValue

// costNestedValue builds a decimal wrapped in d+1 timestamped values with the real types.
func costNestedValue(d int) llo.StreamValue {
	var v llo.StreamValue = &llo.TimestampedStreamValue{ObservedAtNanoseconds: 1, StreamValue: llo.ToDecimal(decimal.New(1, 0))}
	for i := 0; i < d; i++ {
		v = &llo.TimestampedStreamValue{ObservedAtNanoseconds: 1, StreamValue: v}
	}
	return v
}

var (
	costLimitOnce sync.Once
	costLimit     int // -1 = the implementation has no nesting limit (up to the probed depth)
)

// costProbeLimit discovers the implementation's nesting limit by decoding real encodings of
// increasing depth: the limit is the number of nested timestamped values that still decode.
func costProbeLimit() int {
	costLimitOnce.Do(func() {
		costLimit = -1
		for d := 0; d <= 48; d++ {
			b, err := costNestedValue(d).MarshalBinary()
			if err != nil {
				panic(err)
			}
			_, err = llo.UnmarshalProtoStreamValue(&llo.LLOStreamValue{Type: costTSV, Value: b})
			if err != nil {
				costLimit = d - 1
				return
			}
		}
	})
	return costLimit
}

func costSVErrClass(err error) string {
	if err == nil {
		return "ok"
	}
	if errors.Is(err, llo.ErrNilStreamValue) {
		return "nil-stream-value"
	}
	return errClass(err,
		[2]string{"nested too deeply", "too-deep"},
		[2]string{"unknown StreamValueType", "unknown-type"},
		[2]string{"error decoding binary", "decimal"},
		[2]string{"proto:", "proto"},
		[2]string{"cannot parse invalid wire-format", "proto"})
}

// costLeafScan: bytes handed to the leaf decoders, stopping where the real decoders stop.
func costLeafScan(typ llo.LLOStreamValue_Type, value []byte) int {
	switch typ {
	case llo.LLOStreamValue_Decimal:
		return len(value)
	case llo.LLOStreamValue_Quote:
		q := new(llo.LLOStreamValueQuote)
		if err := proto.Unmarshal(value, q); err != nil {
			return len(value)
		}
		n := len(value)
		for _, part := range [][]byte{q.Bid, q.Benchmark, q.Ask} {
			n += len(part)
			var d decimal.Decimal
			if err := d.UnmarshalBinary(part); err != nil {
				break
			}
		}
		return n
	}
	return 0
}

// costWalk follows the real recursion with the real protobuf parser: at every level it records how
// many bytes are handed to proto.Unmarshal / to the leaf decoder.
func costWalk(typ llo.LLOStreamValue_Type, value []byte, limit int) (scan, levels int) {
	if typ != costTSV {
		return costLeafScan(typ, value), 0
	}
	depth := 0
	for {
		levels++
		scan += len(value)
		t := new(llo.LLOTimestampedStreamValue)
		if err := proto.Unmarshal(value, t); err != nil {
			return
		}
		if t.StreamValue == nil {
			return
		}
		if t.StreamValue.Type == costTSV {
			if limit >= 0 && depth >= limit {
				return
			}
			depth++
			value = t.StreamValue.Value
			continue
		}
		scan += costLeafScan(t.StreamValue.Type, t.StreamValue.Value)
		return
	}
}

func costDigits(b *big.Int) int { return len(new(big.Int).Abs(b).String()) }

func init() {
	RegOp("cost.sv", func(in J) any {
		in = normalise(in).(map[string]any)
		typ := llo.LLOStreamValue_Type(int32(jInt(in["typ"])))
		value := jBytes(in["value"])
		_, err := llo.UnmarshalProtoStreamValue(&llo.LLOStreamValue{Type: typ, Value: value})
		scan, levels := costWalk(typ, value, costProbeLimit())
		out := J{"res": costSVErrClass(err), "scan": S(scan), "levels": S(levels)}
		r := resOK(out)
		if err != nil {
			r["_msg"] = firstLines(err.Error(), 2)
		}
		return r
	})
	RegOp("cost.cmp", func(in J) any {
		in = normalise(in).(map[string]any)
		a, b := jDec(in["a"]), jDec(in["b"])
		c := a.Cmp(b)
		gap := int64(a.Exponent()) - int64(b.Exponent())
		if gap < 0 {
			gap = -gap
		}
		pow, scaled := 0, 0
		if gap != 0 {
			pow = costDigits(new(big.Int).Exp(big.NewInt(10), big.NewInt(gap), nil))
			ra, rb := decimal.RescalePair(a, b)
			if a.Exponent() > b.Exponent() {
				scaled = costDigits(ra.Coefficient())
			} else {
				scaled = costDigits(rb.Coefficient())
			}
		}
		return resOK(J{"cmp": S(c), "pow_digits": S(pow), "scaled_digits": S(scaled)})
	})
	RegOp("cost.bigint", func(in J) any {
		in = normalise(in).(map[string]any)
		d := jDec(in["d"])
		e := int64(d.Exponent())
		if e < 0 {
			e = -e
		}
		pow := 0
		if e != 0 {
			pow = costDigits(new(big.Int).Exp(big.NewInt(10), big.NewInt(e), nil))
		}
		return resOK(J{"digits": S(costDigits(d.BigInt())), "pow_digits": S(pow)})
	})
	RegGen("C19", "cost.sv: real encodings of decimals / quotes / timestamped values nested 0–12 deep, every truncation of them, duplicated and unknown fields, "+
		"wrong wire types, random payload bytes; cost.cmp / cost.bigint: coefficient × exponent grid with gaps up to 4096; "+
		"non-trivial = the input reaches a decoder (cost.sv) or has different exponents (cost.cmp); distinct = different op line", genC19Model)
	RegMonitor("C19", monC19Model)
}

func genC19Model(g *G) {
	emitSV := func(typ int, b []byte, tags ...string) {
		g.Emit(J{"op": "cost.sv", "typ": S(typ), "value": hexs(b)}, append([]string{"cost.sv"}, tags...)...)
	}
	mb := func(v llo.StreamValue) []byte {
		b, err := v.MarshalBinary()
		if err != nil {
			panic(err)
		}
		return b
	}
	dec := func(c int64, e int32) *llo.Decimal { return llo.ToDecimal(decimal.New(c, e)) }
	// nested family around the implementation's limit and beyond
	for d := 0; d <= 12; d++ {
		emitSV(2, mb(costNestedValue(d)), "nested", fmt.Sprintf("depth-%d", d))
	}
	// leaves and one-level values
	quote := &llo.Quote{Bid: decimal.New(1, 0), Benchmark: decimal.New(2, -1), Ask: decimal.New(3, 5)}
	big1, _ := new(big.Int).SetString("123456789012345678901234567890123456789012345678901234567890", 10)
	samples := []struct {
		typ int
		v   llo.StreamValue
	}{
		{0, dec(0, 0)}, {0, dec(1, 0)}, {0, dec(-12345, -7)}, {0, llo.ToDecimal(decimal.NewFromBigInt(big1, 2147483647))},
		{1, quote}, {1, &llo.Quote{}},
		{2, &llo.TimestampedStreamValue{ObservedAtNanoseconds: 0, StreamValue: dec(5, 0)}},
		{2, &llo.TimestampedStreamValue{ObservedAtNanoseconds: 1 << 63, StreamValue: quote}},
		{2, &llo.TimestampedStreamValue{ObservedAtNanoseconds: 7, StreamValue: &llo.TimestampedStreamValue{ObservedAtNanoseconds: 8, StreamValue: quote}}},
	}
	for _, s := range samples {
		b := mb(s.v)
		emitSV(s.typ, b, "valid")
		// every truncation (never creates a new tag byte, so stays inside the modelled wire types)
		for i := 0; i < len(b); i++ {
			emitSV(s.typ, b[:i], "truncated")
		}
		// the same bytes read as another type
		for t := 0; t <= 3; t++ {
			if t != s.typ {
				emitSV(t, b, "wrong-type")
			}
		}
	}
	// hand-made messages: duplicated fields (last wins / merged), unknown fields, wrong wire types
	fld := func(num protowire.Number, typ protowire.Type) []byte { return protowire.AppendTag(nil, num, typ) }
	cat := func(parts ...[]byte) []byte {
		var out []byte
		for _, p := range parts {
			out = append(out, p...)
		}
		return out
	}
	vi := func(v uint64) []byte { return protowire.AppendVarint(nil, v) }
	lenf := func(num protowire.Number, payload []byte) []byte {
		return cat(fld(num, protowire.BytesType), vi(uint64(len(payload))), payload)
	}
	d1, d2 := mb(dec(1, 0)), mb(dec(-99, 3))
	svDec := func(payload []byte) []byte { return lenf(2, payload) }                                        // LLOStreamValue{type 0, value}
	svTyped := func(t uint64, payload []byte) []byte { return cat(fld(1, protowire.VarintType), vi(t), lenf(2, payload)) } // LLOStreamValue{type t, value}
	tsv := func(sv []byte) []byte { return cat(fld(1, protowire.VarintType), vi(9), lenf(2, sv)) }
	hand := [][]byte{
		tsv(svDec(d1)),
		cat(tsv(svDec(d1)), lenf(2, svDec(d2))),                         // streamValue twice: merged, value last wins
		cat(lenf(2, svTyped(2, nil)), lenf(2, svDec(d1))),               // type from the first occurrence, value from the second
		cat(lenf(2, svTyped(1, d1))),                                    // says Quote, carries decimal bytes
		cat(lenf(2, svTyped(7, d1))),                                    // unknown enum value
		cat(lenf(2, svTyped(1<<32, d1))),                                // enum value 2^32 truncates to 0 (Decimal)
		cat(lenf(2, svTyped(1<<32+2, tsv(svDec(d1))))),                  // … 2^32+2 truncates to 2 (nested)
		cat(fld(1, protowire.VarintType), vi(1)),                        // no stream value at all
		cat(lenf(9, []byte("unknown")), tsv(svDec(d1)), lenf(15, nil)),  // unknown fields are retained
		cat(fld(1, protowire.Fixed64Type), make([]byte, 8), lenf(2, svDec(d1))), // field 1 with wire type 1: unknown
		cat(fld(2, protowire.VarintType), vi(5), lenf(2, svDec(d1))),    // field 2 with wire type 0: unknown
		cat(fld(3, protowire.Fixed32Type), []byte{1, 2, 3, 4}, lenf(2, svDec(d1))),
		cat(lenf(2, cat(svDec(d1), lenf(2, d2)))),                       // value twice inside one sub-message
		cat(lenf(2, cat(lenf(2, d1), fld(2, protowire.Fixed32Type), []byte{0, 0, 0, 0}))), // value with wrong wire type afterwards
		cat(lenf(2, svDec([]byte{0, 0, 0}))),                            // decimal shorter than 4 bytes
		cat(lenf(2, svDec([]byte{0, 0, 0, 0, 9, 1}))),                   // bad gob version
		cat(lenf(2, svDec([]byte{0, 0, 0, 0}))),                         // exponent only: value 0
		{0x00, 0x01},                                                    // field number 0
		cat(vi(uint64(1<<29)<<3|0), vi(1)),                              // field number 2^29
		{0xff, 0xff, 0xff, 0xff, 0xff, 0xff, 0xff, 0xff, 0xff, 0x01, 0x00}, // 10-byte varint tag
		{0xff, 0xff, 0xff, 0xff, 0xff, 0xff, 0xff, 0xff, 0xff, 0x02, 0x00}, // 10th byte ≥ 2: overflow
		{0x08, 0xff, 0xff, 0xff, 0xff, 0xff, 0xff, 0xff, 0xff, 0xff, 0x01}, // maximal uint64 timestamp, nothing else
		{0x12, 0x05, 0x00},                                              // length beyond the input
		{0x0e}, {0x0f},                                                  // wire types 6 and 7
	}
	for _, h := range hand {
		emitSV(2, h, "hand-made")
		emitSV(1, h, "hand-made")
	}
	// quote messages with duplicated / missing / unknown components
	qhand := [][]byte{
		cat(lenf(1, d1), lenf(2, d1), lenf(3, d2)),
		cat(lenf(1, d1), lenf(1, d2), lenf(2, d1), lenf(3, d2)),
		cat(lenf(1, d1), lenf(3, d2)),
		cat(lenf(1, d1), lenf(2, []byte{0, 0, 0, 0, 9}), lenf(3, d2)),
		cat(lenf(4, d1), lenf(1, d1), lenf(2, d1), lenf(3, d2)),
		cat(fld(1, protowire.VarintType), vi(3), lenf(1, d1), lenf(2, d1), lenf(3, d2)),
	}
	for _, h := range qhand {
		emitSV(1, h, "hand-made-quote")
	}
	// random payload noise inside a valid envelope (payload bytes only: tags stay what they are)
	for i := 0; i < g.N(60, 1500); i++ {
		p := make([]byte, g.R.Intn(24))
		g.R.Read(p)
		switch g.R.Intn(3) {
		case 0:
			emitSV(0, p, "noise")
		case 1:
			emitSV(2, tsv(svDec(p)), "noise")
		default:
			emitSV(1, cat(lenf(1, p), lenf(2, d1), lenf(3, d2)), "noise")
		}
	}
	// decimal comparison / conversion grid
	coefs := []string{"0", "1", "-1", "9", "10", "99999999999999999999", "-123456789012345678901234567890", "1000000"}
	exps := []int{0, 1, -1, 2, -2, 17, -18, 100, -100, 1023, -1024, 4096, -4096}
	for _, c := range coefs {
		for _, e := range exps {
			g.Emit(J{"op": "cost.bigint", "d": J{"c": c, "e": S(e)}}, "cost.bigint")
		}
	}
	for i := 0; i < g.N(120, 3000); i++ {
		a := J{"c": coefs[g.R.Intn(len(coefs))], "e": S(exps[g.R.Intn(len(exps))])}
		b := J{"c": coefs[g.R.Intn(len(coefs))], "e": S(exps[g.R.Intn(len(exps))])}
		g.Emit(J{"op": "cost.cmp", "a": a, "b": b}, "cost.cmp")
	}
}

// monC19Model: the decoders must not panic on any byte string, and with a nesting limit in place
// no input makes them enter more than limit+1 levels.
func monC19Model(op J, res any) (viol []Violation, nontrivial bool) {
	name := jStr(op["op"])
	if name != "cost.sv" && name != "cost.cmp" && name != "cost.bigint" {
		return nil, false
	}
	r := jObj(res)
	if r["panic"] != nil {
		return []Violation{{Sig: "C19/decoder-panic", Desc: name + " panicked", Op: op, Res: res}}, true
	}
	o := jObj(r["ok"])
	switch name {
	case "cost.sv":
		nontrivial = jBig(o["scan"]).Sign() > 0
	case "cost.cmp":
		nontrivial = jBig(o["pow_digits"]).Sign() > 0
	default:
		nontrivial = true
	}
	return
}
