package main

import (
	"context"
	"errors"
	"sort"
	"time"

	"github.com/smartcontractkit/libocr/offchainreporting2/types"
	"github.com/smartcontractkit/libocr/offchainreporting2plus/ocr3types"

	llotypes "github.com/smartcontractkit/chainlink-common/pkg/types/llo"

	"github.com/smartcontractkit/chainlink-data-streams/llo"
)

// llo.observation: the WHOLE Observation() callback of a correct node (model: DSV/LLO/Observe.lean),
// followed by ValidateObservation of the produced bytes on a second plugin instance with the same
// configuration.  The node's clock cannot be injected: the timestamp is reported privately, checked
// against the wall clock by the monitor, and printed as 0 on both sides.

var observationErrClasses = [][2]string{
	{"got invalid seqnr", "invalid-seqnr"},
	{"previousOutcome.Definitions is invalid", "refuse"},
	{"error fetching attested retirement report", "attested-cache"},
	{"error fetching shouldRetire", "should-retire-cache"},
	{"DataSource.Observe error", "datasource"},
	{"negative observation timestamps", "negative-time"},
}

func init() {
	RegOp("llo.observation", func(in J) any {
		in = normalise(in).(map[string]any)
		cfg := jCfg(in["cfg"])
		hp, err := newPlugin(cfg, nil, false)
		if err != nil {
			return resErr("factory", err)
		}
		for _, b := range jArr(in["badOpts"]) {
			hp.codec.badOpts[string(jBytes(b))] = true
		}
		hp.defs.defs = jDefs(in["expected"])
		if hp.defs.defs == nil {
			hp.defs.defs = llotypes.ChannelDefinitions{}
		}
		if a := jObj(in["attested"]); a["ok"] != nil {
			hp.cache.mine = jBytes(a["ok"])
			if len(hp.cache.mine) == 0 {
				hp.cache.mine = nil
			}
		} else {
			hp.cache.mineErr = errors.New("cache unavailable")
		}
		if a := jObj(in["shouldRetire"]); a["ok"] != nil {
			hp.retire.v = jBool(a["ok"])
		} else {
			hp.retire.err = errors.New("cache unavailable")
		}
		ds := jObj(in["ds"])
		hp.ds.vals = llo.StreamValues{}
		for _, e := range jArr(ds["vals"]) {
			hp.ds.vals[jU32(jget(e, "sid"))] = jSV(jget(e, "v"))
		}
		if jBool(ds["err"]) {
			hp.ds.err = errors.New("data source down")
		}
		pb, err := hp.p.OutcomeCodec.Encode(jOutcome(in["prev"]))
		if err != nil {
			return resErr("encode-prev", err)
		}
		seqNr := jU64(in["seqNr"])
		outctx := ocr3types.OutcomeContext{SeqNr: seqNr, PreviousOutcome: pb}
		before := time.Now().UnixNano()
		ob, err := hp.p.Observation(context.Background(), outctx, nil)
		after := time.Now().UnixNano()
		if err != nil {
			return resErr(errClass(err, observationErrClasses...), err)
		}
		// a second instance with the same configuration judges the bytes
		judge, err := newPlugin(cfg, nil, false)
		if err != nil {
			return resErr("factory", err)
		}
		for b := range hp.codec.badOpts {
			judge.codec.badOpts[b] = true
		}
		verr := judge.p.ValidateObservation(context.Background(), outctx, nil, types.AttributedObservation{Observation: ob, Observer: 1})
		vmsg := ""
		if verr != nil {
			vmsg = verr.Error()
		}
		if len(ob) == 0 {
			return J{"ok": nil, "_accepted": verr == nil, "_vmsg": vmsg}
		}
		o, err := hp.p.ObservationCodec.Decode(ob)
		if err != nil {
			return resErr("decode-own", err)
		}
		oj := obsJ(o)
		ts := o.UnixTimestampNanoseconds
		oj["ts"] = "0"
		var asked any
		if hp.ds.called {
			sort.Slice(hp.ds.asked, func(i, j int) bool { return hp.ds.asked[i] < hp.ds.asked[j] })
			l := make([]any, len(hp.ds.asked))
			for i, id := range hp.ds.asked {
				l[i] = S(id)
			}
			asked = l
		}
		return J{"ok": J{"obs": oj, "requested": asked, "accepted": verr == nil}, "_ts": S(ts), "_before": S(before), "_after": S(after), "_vmsg": vmsg}
	})

	gen := func(n1, n2 int) func(g *G) {
		return func(g *G) {
			for i := 0; i < g.N(n1, n2); i++ {
				w := newWorld(g)
				prevDefs := map[int]J{}
				exp := map[int]J{}
				for k := g.R.Intn(9); k > 0; k-- {
					id := 1 + g.R.Intn(12)
					d := w.smallDef(1+g.R.Intn(12), 1+g.R.Intn(3))
					prevDefs[id] = d
					switch g.R.Intn(3) {
					case 0:
						exp[id] = d
					case 1:
						exp[id] = w.smallDef(1+g.R.Intn(12), 1+g.R.Intn(3))
					}
				}
				for k := g.R.Intn(9); k > 0; k-- {
					exp[20+g.R.Intn(12)] = w.smallDef(1+g.R.Intn(12), 1+g.R.Intn(3))
				}
				bad := []any{}
				switch g.R.Intn(12) {
				case 0:
					exp[99] = J{"format": "2", "streams": []any{}, "opts": ""}
				case 1:
					prevDefs[98] = J{"format": "2", "streams": []any{J{"sid": "1", "agg": "0"}}, "opts": ""}
				case 2:
					exp[97] = J{"format": "2", "streams": []any{J{"sid": "1", "agg": "1"}}, "opts": "bad0"}
					bad = append(bad, "bad0")
				}
				mk := func(m map[int]J) []any {
					ids := make([]int, 0, len(m))
					for id := range m {
						ids = append(ids, id)
					}
					sortInts(ids)
					out := make([]any, len(ids))
					for i, id := range ids {
						out[i] = J{"id": S(id), "def": m[id]}
					}
					return out
				}
				stage := []string{"production", "production", "staging", "staging", "retired"}[g.R.Intn(5)]
				// validity starts: for some defined channels, and for channels that are NOT defined (kept from the
				// predecessor's retirement report until the successor defines them)
				va := []any{}
				for id := 1; id <= 12; id++ {
					if _, ok := prevDefs[id]; ok && g.R.Intn(2) == 0 {
						va = append(va, J{"id": S(id), "va": S(w.now - uint64(g.R.Intn(1_000_000_000)))})
					}
				}
				for k := g.R.Intn(3); k > 0; k-- {
					va = append(va, J{"id": S(60 + k), "va": S(w.now - 1)})
				}
				prev := J{"stage": stage, "ts": S(w.now), "defs": mk(prevDefs), "va": va, "aggs": []any{}}
				// the data source serves most requested streams, none sometimes, and knows streams nobody asked for
				vals := []any{}
				seen := map[int]bool{}
				serve := g.R.Intn(4)
				pids := make([]int, 0, len(prevDefs))
				for id := range prevDefs {
					pids = append(pids, id)
				}
				sortInts(pids)
				for _, pid := range pids {
					for _, st := range jArr(prevDefs[pid]["streams"]) {
						sid := jInt(jget(st, "sid"))
						if seen[sid] || serve == 0 || g.R.Intn(6) == 0 {
							continue
						}
						seen[sid] = true
						vals = append(vals, J{"sid": S(sid), "v": w.honestValue(sid)})
					}
				}
				for k := g.R.Intn(3); k > 0; k-- {
					sid := 500 + g.R.Intn(5)
					if !seen[sid] {
						seen[sid] = true
						vals = append(vals, J{"sid": S(sid), "v": w.honestValue(sid)})
					}
				}
				sort.Slice(vals, func(i, j int) bool { return jInt(jget(vals[i], "sid")) < jInt(jget(vals[j], "sid")) })
				dsj := J{"vals": vals}
				att := J{"ok": ""}
				switch g.R.Intn(6) {
				case 0, 1:
					att = J{"ok": "a77e57"}
				case 2:
					att = J{"err": true}
				}
				sr := J{"ok": g.R.Intn(3) == 0}
				if g.R.Intn(12) == 0 {
					sr = J{"err": true}
				}
				if g.R.Intn(12) == 0 {
					dsj["err"] = true
				}
				seq := 2 + g.R.Intn(50)
				switch g.R.Intn(15) {
				case 0:
					seq = 0
				case 1:
					seq = 1
				}
				g.Emit(J{"op": "llo.observation", "cfg": w.cfgJ(), "seqNr": S(seq), "prev": prev, "expected": mk(exp), "badOpts": bad,
					"attested": att, "shouldRetire": sr, "ds": dsj}, "observation", "stage-"+stage)
			}
		}
	}
	rule := "plus llo.observation ops: the whole Observation() callback for random (config, previous outcome, expected definitions, cache answers incl. errors, data-source answers incl. errors and unrequested streams), followed by ValidateObservation of the produced bytes on a second instance"
	RegGen("C14", rule, gen(300, 4000))
	RegGen("C04", rule, gen(150, 1500))

	// each property gets only the part of the evaluation that its statement is about
	mon := func(prop string) Monitor {
		return func(op J, res any) (viol []Violation, nontrivial bool) {
			if jStr(op["op"]) != "llo.observation" {
				return nil, false
			}
			r := jObj(normalise(res))
			if _, isOK := r["ok"]; !isOK {
				return nil, false
			}
			if r["ok"] == nil {
				if prop == "C14" && !jBool(r["_accepted"]) {
					viol = append(viol, Violation{Sig: "C14/honest-observation-rejected", Desc: "the empty first-round observation of a correct node is rejected by ValidateObservation: " + jStr(r["_vmsg"]), Op: op, Res: res})
				}
				return viol, false
			}
			body := jObj(r["ok"])
			obs := jObj(body["obs"])
			cfg := jObj(op["cfg"])
			stage := jStr(jObj(op["prev"])["stage"])
			switch prop {
			case "C14":
				if !jBool(body["accepted"]) {
					viol = append(viol, Violation{Sig: "C14/honest-observation-rejected", Desc: "an observation produced by Observation() (contract-abiding data source) is rejected by ValidateObservation of a node with the same configuration: " + jStr(r["_vmsg"]), Op: op, Res: res})
				}
			case "C02":
				ts, lo, hi := jU64(r["_ts"]), jU64(r["_before"]), jU64(r["_after"])
				if ts < lo || ts > hi {
					viol = append(viol, Violation{Sig: "C02/honest-timestamp-not-the-clock", Desc: "the observation timestamp of a correct node is not its clock reading taken during the call", Op: op, Res: res})
				}
			case "C04":
				// a validity start inherited from the predecessor must survive until the successor defines the
				// channel: correct nodes never vote to remove an id that the previous outcome does not define
				defined := map[string]bool{}
				for _, e := range jArr(jObj(op["prev"])["defs"]) {
					defined[jBig(jget(e, "id")).String()] = true
				}
				for _, id := range jArr(obs["removes"]) {
					if !defined[jBig(id).String()] {
						viol = append(viol, Violation{Sig: "C04/remove-vote-for-undefined-channel", Desc: "a correct node votes to remove channel " + jBig(id).String() + ", which the previous outcome does not define (more than f such votes delete the validity start inherited from the predecessor)", Op: op, Res: res})
					}
				}
				if jStr(obs["attested"]) != "" && !(jBool(cfg["hasPred"]) && stage == "staging") {
					viol = append(viol, Violation{Sig: "C04/attestation-outside-staging", Desc: "a correct node attached a predecessor attestation although it has no predecessor or is not staging", Op: op, Res: res})
				}
			case "C05":
				if stage == "retired" && (len(jArr(obs["removes"])) > 0 || len(jArr(obs["updates"])) > 0 || jBool(obs["retire"]) || len(jArr(obs["values"])) > 0 || jStr(obs["attested"]) != "") {
					viol = append(viol, Violation{Sig: "C05/retired-node-votes", Desc: "a retired instance produced a non-empty observation", Op: op, Res: res})
				}
			}
			return viol, len(jArr(obs["removes"]))+len(jArr(obs["updates"])) > 0
		}
	}
	RegGen("C02", rule, gen(100, 1000))
	RegGen("C05", rule, gen(100, 1000))
	for _, p := range []string{"C14", "C04", "C02", "C05"} {
		RegMonitor(p, mon(p))
	}
}
