package main

import (
	"encoding/hex"
	"encoding/json"
	"fmt"
	"math/big"
	"strings"

	"github.com/shopspring/decimal"

	"github.com/smartcontractkit/chainlink-data-streams/llo"
)

// ---- reading the normalised JSON (maps, slices, strings, json.Number) ----

func jget(j any, k string) any {
	m, ok := j.(map[string]any)
	if !ok {
		panic(fmt.Sprintf("jget %s: not an object: %T", k, j))
	}
	return m[k]
}

func jBig(v any) *big.Int {
	switch t := v.(type) {
	case string:
		b, ok := new(big.Int).SetString(t, 10)
		if !ok {
			panic("bad int " + t)
		}
		return b
	case json.Number:
		b, ok := new(big.Int).SetString(t.String(), 10)
		if !ok {
			panic("bad int " + t.String())
		}
		return b
	case float64:
		return big.NewInt(int64(t))
	case int:
		return big.NewInt(int64(t))
	case int64:
		return big.NewInt(t)
	case uint64:
		return new(big.Int).SetUint64(t)
	}
	panic(fmt.Sprintf("jBig: %T", v))
}

func jInt(v any) int    { return int(jBig(v).Int64()) }
func jU64(v any) uint64 { return jBig(v).Uint64() }
func jU32(v any) uint32 { return uint32(jBig(v).Uint64()) }
func jStr(v any) string { s, _ := v.(string); return s }
func jBool(v any) bool  { b, _ := v.(bool); return b }
func jArr(v any) []any  { a, _ := v.([]any); return a }
func jBytes(v any) []byte {
	b, err := hex.DecodeString(jStr(v))
	if err != nil {
		panic(err)
	}
	return b
}
func jObj(v any) map[string]any { m, _ := v.(map[string]any); return m }

// ---- writing ----

func S(v any) string {
	switch t := v.(type) {
	case *big.Int:
		return t.String()
	case uint64:
		return new(big.Int).SetUint64(t).String()
	case int64:
		return big.NewInt(t).String()
	case int:
		return big.NewInt(int64(t)).String()
	case uint32:
		return big.NewInt(int64(t)).String()
	case int32:
		return big.NewInt(int64(t)).String()
	}
	panic(fmt.Sprintf("S: %T", v))
}

func decJ(d decimal.Decimal) J {
	return J{"c": d.Coefficient().String(), "e": S(int64(d.Exponent()))}
}

func jDec(v any) decimal.Decimal {
	return decimal.NewFromBigInt(jBig(jget(v, "c")), int32(jBig(jget(v, "e")).Int64()))
}

func svJ(sv llo.StreamValue) any {
	switch v := sv.(type) {
	case nil:
		return nil
	case *llo.Decimal:
		if v == nil {
			return nil
		}
		return J{"t": "dec", "d": decJ(v.Decimal())}
	case *llo.Quote:
		if v == nil {
			return nil
		}
		return J{"t": "quote", "bid": decJ(v.Bid), "bm": decJ(v.Benchmark), "ask": decJ(v.Ask)}
	case *llo.TimestampedStreamValue:
		if v == nil {
			return nil
		}
		return J{"t": "tsv", "at": S(v.ObservedAtNanoseconds), "v": svJ(v.StreamValue)}
	}
	panic(fmt.Sprintf("svJ: %T", sv))
}

func jSV(v any) llo.StreamValue {
	if v == nil {
		return nil
	}
	switch jStr(jget(v, "t")) {
	case "dec":
		return llo.ToDecimal(jDec(jget(v, "d")))
	case "quote":
		return &llo.Quote{Bid: jDec(jget(v, "bid")), Benchmark: jDec(jget(v, "bm")), Ask: jDec(jget(v, "ask"))}
	case "tsv":
		return &llo.TimestampedStreamValue{ObservedAtNanoseconds: jU64(jget(v, "at")), StreamValue: jSV(jget(v, "v"))}
	}
	panic("jSV: bad type")
}

// errClass maps an error to a small class enum by matching substrings.
func errClass(err error, classes ...[2]string) string {
	if err == nil {
		return ""
	}
	msg := err.Error()
	for _, c := range classes {
		if strings.Contains(msg, c[0]) {
			return c[1]
		}
	}
	return "other"
}

func resOK(v any) J                  { return J{"ok": v} }
func resErr(cls string, err error) J { return J{"err": cls, "_msg": err.Error()} }
