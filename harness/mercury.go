package main

// Mercury v1–v4: ops that call the REAL exported consensus functions and the real plugins built
// through the real factories, with a reference ReportCodec that records the ReportFields it is
// handed.  Mirror of the model side: lean/Driver/Mercury.lean, lean/DSV/Mercury/RefCodec.lean.

import (
	"sync"
	"context"
	"errors"
	"fmt"
	"math/big"
	"strings"

	"google.golang.org/protobuf/proto"

	"github.com/smartcontractkit/libocr/commontypes"
	"github.com/smartcontractkit/libocr/offchainreporting2plus/ocr3types"
	ocrtypes "github.com/smartcontractkit/libocr/offchainreporting2plus/types"

	"github.com/smartcontractkit/chainlink-common/pkg/logger"
	mercurytypes "github.com/smartcontractkit/chainlink-common/pkg/types/mercury"
	cv1 "github.com/smartcontractkit/chainlink-common/pkg/types/mercury/v1"
	cv2 "github.com/smartcontractkit/chainlink-common/pkg/types/mercury/v2"
	cv3 "github.com/smartcontractkit/chainlink-common/pkg/types/mercury/v3"
	cv4 "github.com/smartcontractkit/chainlink-common/pkg/types/mercury/v4"

	"github.com/smartcontractkit/chainlink-data-streams/mercury"
	mv1 "github.com/smartcontractkit/chainlink-data-streams/mercury/v1"
	mv2 "github.com/smartcontractkit/chainlink-data-streams/mercury/v2"
	mv3 "github.com/smartcontractkit/chainlink-data-streams/mercury/v3"
	mv4 "github.com/smartcontractkit/chainlink-data-streams/mercury/v4"
)

// ---------------------------------------------------------------- PAO for the exported functions

// mercHPAO implements every getter interface of the exported GetConsensus* functions.
type mercHPAO struct {
	ts     uint32
	val    *big.Int
	i64    int64
	u32    uint32
	ok     bool
	blocks []cv1.Block
	cur    *cv1.Block
}

func (p mercHPAO) GetTimestamp() uint32                      { return p.ts }
func (p mercHPAO) GetObserver() commontypes.OracleID         { return 0 }
func (p mercHPAO) GetBenchmarkPrice() (*big.Int, bool)       { return p.val, p.ok }
func (p mercHPAO) GetBid() (*big.Int, bool)                  { return p.val, p.ok }
func (p mercHPAO) GetAsk() (*big.Int, bool)                  { return p.val, p.ok }
func (p mercHPAO) GetLinkFee() (*big.Int, bool)              { return p.val, p.ok }
func (p mercHPAO) GetNativeFee() (*big.Int, bool)            { return p.val, p.ok }
func (p mercHPAO) GetMaxFinalizedTimestamp() (int64, bool)   { return p.i64, p.ok }
func (p mercHPAO) GetMaxFinalizedBlockNumber() (int64, bool) { return p.i64, p.ok }
func (p mercHPAO) GetMarketStatus() (uint32, bool)           { return p.u32, p.ok }
func (p mercHPAO) GetLatestBlocks() []cv1.Block              { return p.blocks }
func (p mercHPAO) GetCurrentBlockNum() (int64, bool) {
	if p.cur == nil {
		return 0, false
	}
	return p.cur.Num, true
}
func (p mercHPAO) GetCurrentBlockHash() ([]byte, bool) {
	if p.cur == nil {
		return nil, false
	}
	return p.cur.HashBytes(), true
}
func (p mercHPAO) GetCurrentBlockTimestamp() (uint64, bool) {
	if p.cur == nil {
		return 0, false
	}
	return p.cur.Ts, true
}

var _ mv1.PAO = mercHPAO{}

func mercVals(in J) []mercHPAO {
	var out []mercHPAO
	for _, e := range jArr(in["vals"]) {
		v := jBig(jget(e, "v"))
		p := mercHPAO{val: v, ok: jBool(jget(e, "ok"))}
		if v.IsInt64() {
			p.i64 = v.Int64()
		}
		if v.IsUint64() {
			p.u32 = uint32(v.Uint64())
		}
		out = append(out, p)
	}
	return out
}

func mercJBlock(v any) cv1.Block {
	return cv1.NewBlock(jBig(jget(v, "num")).Int64(), jBytes(jget(v, "hash")), jU64(jget(v, "ts")))
}

func mercConsErr(err error) J {
	return resErr(errClass(err,
		[2]string{"fewer than f+1", "too-few"},
		[2]string{"no valid maxFinalized", "no-agreement"},
		[2]string{"market status has fewer than f+1", "too-few"},
		[2]string{"cannot come to consensus on latest block", "no-consensus"}), err)
}

// ---------------------------------------------------------------- reference codec

type mercRefCodec struct {
	maxLen, pad int
	empty, fail bool
	mu          sync.Mutex // calls / last are written from BuildReport, which may run on several goroutines
	calls       int
	last        J
}

func (c *mercRefCodec) record(last J) {
	c.mu.Lock()
	c.calls++
	c.last = last
	c.mu.Unlock()
}

var mercTwo256 = new(big.Int).Lsh(big.NewInt(1), 256)
var mercTwo255 = new(big.Int).Lsh(big.NewInt(1), 255)

func mercEnc32(v *big.Int) ([]byte, error) {
	if v == nil {
		return nil, errors.New("refcodec: build: nil value")
	}
	if v.Cmp(new(big.Int).Neg(mercTwo255)) < 0 || v.Cmp(mercTwo255) >= 0 {
		return nil, errors.New("refcodec: build: value outside int256")
	}
	return new(big.Int).Mod(v, mercTwo256).FillBytes(make([]byte, 32)), nil
}

func mercBeN(n int, v uint64) []byte {
	b := make([]byte, n)
	for i := n - 1; i >= 0; i-- {
		b[i] = byte(v)
		v >>= 8
	}
	return b
}

func (c *mercRefCodec) finish(parts [][]byte, errs ...error) (ocrtypes.Report, error) {
	if c.fail {
		return nil, errors.New("refcodec: build: configured to fail")
	}
	for _, e := range errs {
		if e != nil {
			return nil, e
		}
	}
	if c.empty {
		return ocrtypes.Report{}, nil
	}
	var b []byte
	for _, p := range parts {
		b = append(b, p...)
	}
	return append(b, make([]byte, c.pad)...), nil
}

func mercOptBig(v *big.Int) any {
	if v == nil {
		return nil
	}
	return v.String()
}

func mercRefTsFromReport(r ocrtypes.Report) (uint32, error) {
	if len(r) < 8 {
		return 0, errors.New("refcodec: cannot read previous report")
	}
	return uint32(new(big.Int).SetBytes(r[4:8]).Uint64()), nil
}

type mercCodec1 struct{ *mercRefCodec }
type mercCodec2 struct{ *mercRefCodec }
type mercCodec3 struct{ *mercRefCodec }
type mercCodec4 struct{ *mercRefCodec }

func (c *mercRefCodec) MaxReportLength(ctx context.Context, n int) (int, error) { return c.maxLen, nil }

func (c mercCodec1) BuildReport(ctx context.Context, rf cv1.ReportFields) (ocrtypes.Report, error) {
	c.record(J{"ts": S(rf.Timestamp), "bp": mercOptBig(rf.BenchmarkPrice), "bid": mercOptBig(rf.Bid), "ask": mercOptBig(rf.Ask),
		"curNum": S(rf.CurrentBlockNum), "curHash": hexs(rf.CurrentBlockHash), "validFrom": S(rf.ValidFromBlockNum),
		"curTs": S(rf.CurrentBlockTimestamp)})
	b, e1 := mercEnc32(rf.BenchmarkPrice)
	bid, e2 := mercEnc32(rf.Bid)
	ask, e3 := mercEnc32(rf.Ask)
	return c.finish([][]byte{mercBeN(4, uint64(rf.Timestamp)), b, bid, ask, mercBeN(8, uint64(rf.CurrentBlockNum)),
		mercBeN(8, uint64(rf.ValidFromBlockNum)), mercBeN(8, rf.CurrentBlockTimestamp),
		mercBeN(2, uint64(len(rf.CurrentBlockHash))), rf.CurrentBlockHash}, e1, e2, e3)
}
func (c mercCodec1) CurrentBlockNumFromReport(ctx context.Context, r ocrtypes.Report) (int64, error) {
	if len(r) < 108 {
		return 0, errors.New("refcodec: cannot read previous report")
	}
	return int64(new(big.Int).SetBytes(r[100:108]).Uint64()), nil
}

func (c mercCodec2) BuildReport(ctx context.Context, rf cv2.ReportFields) (ocrtypes.Report, error) {
	c.record(J{"validFrom": S(rf.ValidFromTimestamp), "ts": S(rf.Timestamp), "nativeFee": mercOptBig(rf.NativeFee),
		"linkFee": mercOptBig(rf.LinkFee), "expiresAt": S(rf.ExpiresAt), "bp": mercOptBig(rf.BenchmarkPrice)})
	n, e1 := mercEnc32(rf.NativeFee)
	l, e2 := mercEnc32(rf.LinkFee)
	b, e3 := mercEnc32(rf.BenchmarkPrice)
	return c.finish([][]byte{mercBeN(4, uint64(rf.ValidFromTimestamp)), mercBeN(4, uint64(rf.Timestamp)), mercBeN(4, uint64(rf.ExpiresAt)), n, l, b}, e1, e2, e3)
}
func (c mercCodec2) ObservationTimestampFromReport(ctx context.Context, r ocrtypes.Report) (uint32, error) {
	return mercRefTsFromReport(r)
}

func (c mercCodec3) BuildReport(ctx context.Context, rf cv3.ReportFields) (ocrtypes.Report, error) {
	c.record(J{"validFrom": S(rf.ValidFromTimestamp), "ts": S(rf.Timestamp), "nativeFee": mercOptBig(rf.NativeFee),
		"linkFee": mercOptBig(rf.LinkFee), "expiresAt": S(rf.ExpiresAt), "bp": mercOptBig(rf.BenchmarkPrice),
		"bid": mercOptBig(rf.Bid), "ask": mercOptBig(rf.Ask)})
	n, e1 := mercEnc32(rf.NativeFee)
	l, e2 := mercEnc32(rf.LinkFee)
	b, e3 := mercEnc32(rf.BenchmarkPrice)
	bid, e4 := mercEnc32(rf.Bid)
	ask, e5 := mercEnc32(rf.Ask)
	return c.finish([][]byte{mercBeN(4, uint64(rf.ValidFromTimestamp)), mercBeN(4, uint64(rf.Timestamp)), mercBeN(4, uint64(rf.ExpiresAt)), n, l, b, bid, ask}, e1, e2, e3, e4, e5)
}
func (c mercCodec3) ObservationTimestampFromReport(ctx context.Context, r ocrtypes.Report) (uint32, error) {
	return mercRefTsFromReport(r)
}

func (c mercCodec4) BuildReport(ctx context.Context, rf cv4.ReportFields) (ocrtypes.Report, error) {
	c.record(J{"validFrom": S(rf.ValidFromTimestamp), "ts": S(rf.Timestamp), "nativeFee": mercOptBig(rf.NativeFee),
		"linkFee": mercOptBig(rf.LinkFee), "expiresAt": S(rf.ExpiresAt), "bp": mercOptBig(rf.BenchmarkPrice),
		"ms": S(rf.MarketStatus)})
	n, e1 := mercEnc32(rf.NativeFee)
	l, e2 := mercEnc32(rf.LinkFee)
	b, e3 := mercEnc32(rf.BenchmarkPrice)
	return c.finish([][]byte{mercBeN(4, uint64(rf.ValidFromTimestamp)), mercBeN(4, uint64(rf.Timestamp)), mercBeN(4, uint64(rf.ExpiresAt)), n, l, b, mercBeN(4, uint64(rf.MarketStatus))}, e1, e2, e3)
}
func (c mercCodec4) ObservationTimestampFromReport(ctx context.Context, r ocrtypes.Report) (uint32, error) {
	return mercRefTsFromReport(r)
}

// refPrev serialises a previous report the way the reference codec would: only the field the
// plugins read back matters (observation timestamp resp. current block number).
func mercRefPrevTs(ts uint32) []byte {
	return append(append(mercBeN(4, 0), mercBeN(4, uint64(ts))...), make([]byte, 4+96)...)
}
func mercRefPrevBlock(num int64) []byte {
	b := make([]byte, 100)
	b = append(b, mercBeN(8, uint64(num))...)
	return append(b, make([]byte, 18)...)
}

// ---------------------------------------------------------------- observations

var mercBadObservationBytes = []byte{0xff, 0xff, 0xff}

func mercObservation(v int, ao any) []byte {
	m := jObj(ao)
	if m == nil || jBool(m["bad"]) {
		return mercBadObservationBytes
	}
	if r, ok := m["raw"]; ok {
		return jBytes(r)
	}
	i64 := func(k string) int64 { return jBig(m[k]).Int64() }
	var msg proto.Message
	switch v {
	case 1:
		o := &mv1.MercuryObservationProto{Timestamp: jU32(m["ts"]), BenchmarkPrice: jBytes(m["bp"]), Bid: jBytes(m["bid"]),
			Ask: jBytes(m["ask"]), PricesValid: jBool(m["pricesValid"]), CurrentBlockNum: i64("curNum"),
			CurrentBlockHash: jBytes(m["curHash"]), CurrentBlockTimestamp: jU64(m["curTs"]), CurrentBlockValid: jBool(m["curValid"]),
			MaxFinalizedBlockNumber: i64("mfbn"), MaxFinalizedBlockNumberValid: jBool(m["mfbnValid"])}
		for _, b := range jArr(m["blocks"]) {
			o.LatestBlocks = append(o.LatestBlocks, &mv1.BlockProto{Num: jBig(jget(b, "num")).Int64(), Hash: jBytes(jget(b, "hash")), Ts: jU64(jget(b, "ts"))})
		}
		msg = o
	case 2:
		msg = &mv2.MercuryObservationProto{Timestamp: jU32(m["ts"]), BenchmarkPrice: jBytes(m["bp"]), PricesValid: jBool(m["pricesValid"]),
			MaxFinalizedTimestamp: i64("mft"), MaxFinalizedTimestampValid: jBool(m["mftValid"]),
			LinkFee: jBytes(m["link"]), LinkFeeValid: jBool(m["linkValid"]), NativeFee: jBytes(m["native"]), NativeFeeValid: jBool(m["nativeValid"])}
	case 3:
		msg = &mv3.MercuryObservationProto{Timestamp: jU32(m["ts"]), BenchmarkPrice: jBytes(m["bp"]), Bid: jBytes(m["bid"]), Ask: jBytes(m["ask"]),
			PricesValid: jBool(m["pricesValid"]), MaxFinalizedTimestamp: i64("mft"), MaxFinalizedTimestampValid: jBool(m["mftValid"]),
			LinkFee: jBytes(m["link"]), LinkFeeValid: jBool(m["linkValid"]), NativeFee: jBytes(m["native"]), NativeFeeValid: jBool(m["nativeValid"])}
	case 4:
		msg = &mv4.MercuryObservationProto{Timestamp: jU32(m["ts"]), BenchmarkPrice: jBytes(m["bp"]), PricesValid: jBool(m["pricesValid"]),
			MaxFinalizedTimestamp: i64("mft"), MaxFinalizedTimestampValid: jBool(m["mftValid"]),
			LinkFee: jBytes(m["link"]), LinkFeeValid: jBool(m["linkValid"]), NativeFee: jBytes(m["native"]), NativeFeeValid: jBool(m["nativeValid"]),
			MarketStatus: jU32(m["ms"]), MarketStatusValid: jBool(m["msValid"])}
	default:
		panic("bad mercury version")
	}
	b, err := proto.Marshal(msg)
	if err != nil {
		panic(err)
	}
	return b
}

// ---------------------------------------------------------------- plugins through the real factories

var mercScratchOn, mercScratchOff = make([]byte, 0, 256), make([]byte, 0, 256)

func mercPlugin(v int, cfg, cc map[string]any) (ocr3types.MercuryPlugin, *mercRefCodec, error) {
	ctx := context.Background()
	rc := &mercRefCodec{maxLen: jInt(cc["maxLen"]), pad: jInt(cc["pad"]), empty: jBool(cc["empty"]), fail: jBool(cc["fail"])}
	occ := mercury.StandardOnchainConfigCodec{}
	onchain, err := occ.Encode(ctx, mercurytypes.OnchainConfig{Min: jBig(cfg["min"]), Max: jBig(cfg["max"])})
	if err != nil {
		return nil, nil, err
	}
	baseFee := "0.5"
	if s := jStr(cfg["baseFee"]); s != "" {
		baseFee = s
	}
	offchain := []byte(fmt.Sprintf(`{"expirationWindow":%s,"baseUSDFee":"%s"}`, jBig(cfg["window"]).String(), baseFee))
	n := 4
	if cfg["n"] != nil {
		n = jInt(cfg["n"])
	}
	// the host keeps ONE scratch buffer per kind of configuration and reuses it for every plugin it builds: a plugin
	// (or a decoder) that keeps a reference into the bytes it was configured with sees the next configuration
	if !inConcurrent.Load() {
		mercScratchOn = append(mercScratchOn[:0], onchain...)
		mercScratchOff = append(mercScratchOff[:0], offchain...)
		onchain, offchain = mercScratchOn, mercScratchOff
	}
	pc := ocr3types.MercuryPluginConfig{N: n, F: jInt(cfg["f"]), OnchainConfig: onchain, OffchainConfig: offchain}
	lggr := logger.Nop()
	var p ocr3types.MercuryPlugin
	switch v {
	case 1:
		p, _, err = mv1.NewFactory(nil, lggr, occ, mercCodec1{rc}).NewMercuryPlugin(ctx, pc)
	case 2:
		p, _, err = mv2.NewFactory(nil, lggr, occ, mercCodec2{rc}).NewMercuryPlugin(ctx, pc)
	case 3:
		p, _, err = mv3.NewFactory(nil, lggr, occ, mercCodec3{rc}).NewMercuryPlugin(ctx, pc)
	case 4:
		p, _, err = mv4.NewFactory(nil, lggr, occ, mercCodec4{rc}).NewMercuryPlugin(ctx, pc)
	default:
		panic("bad mercury version")
	}
	return p, rc, err
}

func mercPrev(v any) ocrtypes.Report {
	if v == nil {
		return nil
	}
	b := jBytes(v)
	if len(b) == 0 {
		return ocrtypes.Report{} // non-nil, empty
	}
	return b
}

var mercValidateTags = []struct {
	tag  string
	subs []string
}{
	{"bp", []string{"median benchmark price"}},
	{"bidinv", []string{"median bid invariant"}},
	{"askinv", []string{"median ask invariant"}},
	{"bid", []string{"median bid (", "median bid:"}},
	{"ask", []string{"median ask (", "median ask:"}},
	{"link", []string{"median link fee"}},
	{"native", []string{"median native fee"}},
	{"vf", []string{"must be >= validFromTimestamp"}},
	{"exp", []string{"must be ahead of observation timestamp"}},
	{"blk", []string{"validFromBlockNum must be", "currentBlockNum must be", "must be less than or equal to CurrentBlockNum", "invalid length for hash"}},
}

var mercBuildTags = []struct {
	tag  string
	subs []string
}{
	{"vf", []string{"a valid maxFinalizedTimestamp", "no valid maxFinalizedTimestamp", "maxFinalizedTimestamp is too large",
		"previous observation timestamp is too large", "refcodec: cannot read previous report",
		"a valid maxFinalizedBlockNumber", "no valid maxFinalizedBlockNumber"}},
	{"bp", []string{"GetConsensusBenchmarkPrice failed"}},
	{"bid", []string{"GetConsensusBid failed"}},
	{"ask", []string{"GetConsensusAsk failed"}},
	{"exp", []string{"overflows uint32"}},
	{"ms", []string{"GetConsensusMarketStatus failed"}},
	{"blk", []string{"GetConsensusCurrentBlock failed"}},
}

// mercErrClass maps the error of Report to the class the model produces: which stage failed and
// which of its joined components.
func mercErrClass(err error) string {
	m := err.Error()
	has := func(s string) bool { return strings.Contains(m, s) }
	switch {
	case has("got zero valid attributed observations"):
		return "zero-valid"
	case has("only received"):
		return "too-few"
	case has("violates MaxReportLength"):
		return "too-long"
	case has("report may not have zero length"):
		return "zero-length"
	case has("refcodec: build"):
		return "codec"
	}
	collect := func(tbl []struct {
		tag  string
		subs []string
	}) []string {
		var tags []string
		for _, t := range tbl {
			for _, s := range t.subs {
				if has(s) {
					tags = append(tags, t.tag)
					break
				}
			}
		}
		return tags
	}
	if vt := collect(mercValidateTags); len(vt) > 0 {
		return "validate:" + strings.Join(vt, ",")
	}
	return "build:" + strings.Join(collect(mercBuildTags), ",")
}

// mercReport = NewMercuryPlugin + Report on a fresh plugin instance
func mercReport(v int, cfg, cc map[string]any, prev ocrtypes.Report, aosJ []any) J {
	p, rc, err := mercPlugin(v, cfg, cc)
	if err != nil {
		return resErr("config", err)
	}
	return mercReportOn(p, rc, v, prev, aosJ)
}

// mercReportOn: one Report call on an existing plugin instance
func mercReportOn(p ocr3types.MercuryPlugin, rc *mercRefCodec, v int, prev ocrtypes.Report, aosJ []any) J {
	aos := make([]ocrtypes.AttributedObservation, len(aosJ))
	for i, ao := range aosJ {
		aos[i] = ocrtypes.AttributedObservation{Observation: mercObservation(v, ao), Observer: commontypes.OracleID(i)}
	}
	rc.calls = 0
	should, report, err := p.Report(context.Background(), ocrtypes.ReportTimestamp{}, prev, aos)
	if err != nil {
		r := resErr(mercErrClass(err), err)
		if should || report != nil {
			r["_anomaly"] = "error together with a report"
		}
		return r
	}
	out := J{"should": should, "report": nil, "rf": nil}
	if should {
		out["report"] = hexs(report)
		out["rf"] = rc.last
	} else if report != nil {
		out["_anomaly"] = "declined but returned report bytes"
	}
	out["_buildCalls"] = rc.calls
	return resOK(out)
}

func init() {
	med := func(f func([]mercHPAO, int) (*big.Int, error)) OpFunc {
		return func(in J) any {
			in = normalise(in).(map[string]any)
			r, err := f(mercVals(in), jInt(in["f"]))
			if err != nil {
				return mercConsErr(err)
			}
			return resOK(r.String())
		}
	}
	RegOp("mercury.consensus.timestamp", func(in J) any {
		in = normalise(in).(map[string]any)
		var paos []mercury.PAO
		for _, t := range jArr(in["ts"]) {
			paos = append(paos, mercHPAO{ts: jU32(t)})
		}
		return resOK(S(mercury.GetConsensusTimestamp(paos)))
	})
	RegOp("mercury.consensus.benchmark", med(func(ps []mercHPAO, f int) (*big.Int, error) {
		var x []mercury.PAO
		for _, p := range ps {
			x = append(x, p)
		}
		return mercury.GetConsensusBenchmarkPrice(x, f)
	}))
	RegOp("mercury.consensus.bid", med(func(ps []mercHPAO, f int) (*big.Int, error) {
		var x []mercury.PAOBid
		for _, p := range ps {
			x = append(x, p)
		}
		return mercury.GetConsensusBid(x, f)
	}))
	RegOp("mercury.consensus.ask", med(func(ps []mercHPAO, f int) (*big.Int, error) {
		var x []mercury.PAOAsk
		for _, p := range ps {
			x = append(x, p)
		}
		return mercury.GetConsensusAsk(x, f)
	}))
	RegOp("mercury.consensus.linkfee", med(func(ps []mercHPAO, f int) (*big.Int, error) {
		var x []mercury.PAOLinkFee
		for _, p := range ps {
			x = append(x, p)
		}
		return mercury.GetConsensusLinkFee(x, f)
	}))
	RegOp("mercury.consensus.nativefee", med(func(ps []mercHPAO, f int) (*big.Int, error) {
		var x []mercury.PAONativeFee
		for _, p := range ps {
			x = append(x, p)
		}
		return mercury.GetConsensusNativeFee(x, f)
	}))
	RegOp("mercury.consensus.maxfinalizedts", med(func(ps []mercHPAO, f int) (*big.Int, error) {
		var x []mercury.PAOMaxFinalizedTimestamp
		for _, p := range ps {
			x = append(x, p)
		}
		r, err := mercury.GetConsensusMaxFinalizedTimestamp(x, f)
		return big.NewInt(r), err
	}))
	RegOp("mercury.consensus.v1.maxfinalizedblocknum", med(func(ps []mercHPAO, f int) (*big.Int, error) {
		var x []mv1.PAO
		for _, p := range ps {
			x = append(x, p)
		}
		r, err := mv1.GetConsensusMaxFinalizedBlockNum(x, f)
		return big.NewInt(r), err
	}))
	RegOp("mercury.consensus.v4.marketstatus", med(func(ps []mercHPAO, f int) (*big.Int, error) {
		var x []mv4.PAOMarketStatus
		for _, p := range ps {
			x = append(x, p)
		}
		r, err := mv4.GetConsensusMarketStatus(x, f)
		return new(big.Int).SetUint64(uint64(r)), err
	}))
	RegOp("mercury.consensus.v1.latestblock", func(in J) any {
		in = normalise(in).(map[string]any)
		var x []mv1.PAO
		for _, pj := range jArr(in["paos"]) {
			p := mercHPAO{}
			for _, b := range jArr(jget(pj, "blocks")) {
				p.blocks = append(p.blocks, mercJBlock(b))
			}
			if c := jget(pj, "cur"); c != nil {
				b := mercJBlock(c)
				p.cur = &b
			}
			x = append(x, p)
		}
		hash, num, ts, err := mv1.GetConsensusLatestBlock(x, jInt(in["f"]))
		if err != nil {
			return mercConsErr(err)
		}
		return resOK(J{"hash": hexs(hash), "num": S(num), "ts": S(ts)})
	})
	for v := 1; v <= 4; v++ {
		v := v
		RegOp(fmt.Sprintf("mercury.v%d.report", v), func(in J) any {
			in = normalise(in).(map[string]any)
			return mercReport(v, jObj(in["cfg"]), jObj(in["codec"]), mercPrev(in["prev"]), jArr(in["aos"]))
		})
	}
	// threaded history: the report emitted in a round is the next round's previousReport
	RegOp("mercury.history", func(in J) any {
		in = normalise(in).(map[string]any)
		v := jInt(in["v"])
		// as in production, ONE plugin instance serves all rounds; every round is also evaluated on a fresh
		// instance with the same inputs, and the two must agree (no state may survive a Report call)
		shared, src, serr := mercPlugin(v, jObj(in["cfg"]), jObj(in["codec"]))
		prev := mercPrev(in["prev"])
		// the node keeps the previous report in ONE buffer that it overwrites in place with every new report
		// (a plugin that remembers the slice it was given, not a copy, then compares the buffer with itself)
		hostBuf := append(make([]byte, 0, 4096), prev...)
		var out []any
		var leaks []any
		for i, r := range jArr(in["rounds"]) {
			var res any
			var hostPrev ocrtypes.Report
			if prev != nil {
				hostBuf = append(hostBuf[:0], prev...)
				hostPrev = hostBuf
			}
			if serr != nil {
				res = resErr("config", serr)
			} else {
				res = mercRoundOn(shared, src, v, hostPrev, jArr(r))
			}
			fresh := mercRound(v, jObj(in["cfg"]), jObj(in["codec"]), prev, jArr(r))
			if string(marshal(stripPrivate(normalise(res)))) != string(marshal(stripPrivate(normalise(fresh)))) {
				leaks = append(leaks, J{"round": i, "fresh_instance": stripPrivate(normalise(fresh))})
			}
			out = append(out, res)
			if ok := jObj(jObj(normalise(res))["ok"]); ok != nil && jBool(ok["should"]) {
				prev = jBytes(ok["report"])
			}
		}
		if out == nil {
			out = []any{}
		}
		r := resOK(out)
		if leaks != nil {
			r["_instance_state"] = leaks
		}
		return r
	})
}

func mercRoundOn(p ocr3types.MercuryPlugin, rc *mercRefCodec, v int, prev ocrtypes.Report, aos []any) (res any) {
	defer func() {
		if r := recover(); r != nil {
			res = J{"panic": true, "panic_msg": fmt.Sprint(r)}
		}
	}()
	return mercReportOn(p, rc, v, prev, aos)
}

// mercRound runs one round with its own recover so that a panic in one round is reported in place
func mercRound(v int, cfg, cc map[string]any, prev ocrtypes.Report, aos []any) (res any) {
	defer func() {
		if r := recover(); r != nil {
			res = J{"panic": true, "panic_msg": fmt.Sprint(r)}
		}
	}()
	return mercReport(v, cfg, cc, prev, aos)
}
