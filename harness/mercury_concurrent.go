package main

import (
	"bytes"
	"context"
	"fmt"
	"sync"

	"github.com/smartcontractkit/libocr/commontypes"
	ocrtypes "github.com/smartcontractkit/libocr/offchainreporting2plus/types"
)

// mercury.concurrent: ONE plugin instance (built by the real factory), several rounds' observation lists.  Each
// list is first reported alone; then all lists are reported again and again from one goroutine each, at the same
// time, on the same instance (libocr requires the functions of a MercuryPlugin to be thread-safe).  Every
// concurrent call must return what the same list returned alone.  Implementation only.
func init() {
	RegOp("mercury.concurrent", func(in J) any {
		in = normalise(in).(map[string]any)
		v := jInt(in["v"])
		p, rc, err := mercPlugin(v, jObj(in["cfg"]), jObj(in["codec"]))
		if err != nil {
			return resErr("config", err)
		}
		_ = rc
		prev := mercPrev(in["prev"])
		lists := jArr(in["rounds"])
		type outT struct {
			should bool
			rep    []byte
			err    string
		}
		call := func(aosJ []any) outT {
			aos := make([]ocrtypes.AttributedObservation, len(aosJ))
			for i, ao := range aosJ {
				aos[i] = ocrtypes.AttributedObservation{Observation: mercObservation(v, ao), Observer: commontypes.OracleID(i)}
			}
			should, rep, err := p.Report(context.Background(), ocrtypes.ReportTimestamp{}, prev, aos)
			o := outT{should: should, rep: rep}
			if err != nil {
				o.err = mercErrClass(err)
			}
			return o
		}
		alone := make([]outT, len(lists))
		for i, l := range lists {
			alone[i] = call(jArr(l))
		}
		iters := jInt(in["iters"])
		var mu sync.Mutex
		first := ""
		mism := 0
		var wg sync.WaitGroup
		for i, l := range lists {
			wg.Add(1)
			go func(i int, l []any) {
				defer wg.Done()
				defer func() {
					if r := recover(); r != nil {
						mu.Lock()
						mism++
						if first == "" {
							first = fmt.Sprintf("list %d: Report panicked when called concurrently: %v", i, r)
						}
						mu.Unlock()
					}
				}()
				for k := 0; k < iters; k++ {
					o := call(l)
					if o.should != alone[i].should || o.err != alone[i].err || !bytes.Equal(o.rep, alone[i].rep) {
						mu.Lock()
						mism++
						if first == "" {
							first = fmt.Sprintf("list %d, concurrent call %d: (should=%v err=%q report=%x) but alone (should=%v err=%q report=%x)", i, k, o.should, o.err, o.rep, alone[i].should, alone[i].err, alone[i].rep)
						}
						mu.Unlock()
					}
				}
			}(i, jArr(l))
		}
		wg.Wait()
		return resOK(J{"lists": len(lists), "mismatches": mism, "_first": first})
	})
	gen := func(g *G) {
		for i := 0; i < g.N(12, 120); i++ {
			s := mercRandScn(g, 1+i%4)
			s.min, s.max = mercBig("1"), mercBig("1000000000000000000000000000000")
			s.P = mercBig(S(1000 + g.R.Intn(100000)))
			s.window = mercBig("1000")
			if s.T > mercMaxU32-5000 {
				s.T = 1_700_000_000
			}
			var lists []any
			for k := 0; k < 2+g.R.Intn(3); k++ {
				// lists that differ in what they agree on: healthy rounds and rounds without an agreed status / price
				s.b = g.R.Intn(s.f + 1)
				s.n = 2*s.f + 1 + g.R.Intn(s.f+1)
				aos, _ := s.round(g)
				if k%2 == 1 {
					for j, ao := range aos {
						if m, ok := ao.(J); ok && s.v == 4 {
							m["ms"] = S(uint32(1 + j))
						}
					}
				}
				lists = append(lists, aos)
			}
			g.EmitImpl(J{"op": "mercury.concurrent", "v": s.v, "cfg": s.cfg(), "codec": s.codec, "prev": nil, "rounds": lists, "iters": 150}, fmt.Sprintf("v%d", s.v), "concurrent-report-on-one-instance")
		}
	}
	mon := func(prop string) Monitor {
		return func(op J, res any) (viol []Violation, nontrivial bool) {
			if jStr(op["op"]) != "mercury.concurrent" {
				return nil, false
			}
			r := jObj(jObj(res)["ok"])
			if r == nil {
				return nil, false
			}
			if jInt(r["mismatches"]) > 0 {
				viol = append(viol, Violation{Sig: prop + "/concurrent-report-differs", Desc: "Report on one plugin instance, called from several goroutines at once with different observation lists, returned something else than the same list returns alone: " + jStr(r["_first"]), Op: op, Res: res})
			}
			return viol, true
		}
	}
	for _, p := range []string{"C07", "C08", "C01"} {
		RegGen(p, "plus concurrent Report calls on ONE plugin instance (each observation list reported alone first, then all lists at the same time, 150 times each)", gen)
		RegMonitor(p, mon(p))
	}
}
