package main

// C17 — JSON report codec and text forms of stream values.

import (
	"bytes"
	"encoding/json"
	"fmt"
	"math"
	"math/big"
	"math/rand"
	"strings"

	"github.com/shopspring/decimal"

	"github.com/smartcontractkit/libocr/commontypes"
	"github.com/smartcontractkit/libocr/offchainreporting2/types"

	llotypes "github.com/smartcontractkit/chainlink-common/pkg/types/llo"

	"github.com/smartcontractkit/chainlink-data-streams/llo"
)

func cdcTextErr(err error) J {
	r := resErr(errClass(err,
		[2]string{"missing SeqNr", "missing-seqnr"},
		[2]string{"invalid ConfigDigest", "bad-digest"},
		[2]string{"expected JSON", "bad-json"},
		[2]string{"unknown StreamValueType", "unknown-type"},
		[2]string{"nil stream value", "nil-value"}), err)
	if r["err"] == "other" {
		r["err"] = "bad-text"
	}
	return r
}

func cdcReportJ(r llo.Report) J {
	vals := make([]any, len(r.Values))
	for i, v := range r.Values {
		vals[i] = svJ(v)
	}
	return J{"seqNr": S(r.SeqNr), "channelID": S(r.ChannelID), "validAfter": S(r.ValidAfterNanoseconds),
		"obsTs": S(r.ObservationTimestampNanoseconds), "values": vals, "specimen": r.Specimen}
}

func cdcJReport(digest []byte, v any) llo.Report {
	r := llo.Report{SeqNr: jU64(jget(v, "seqNr")), ChannelID: jU32(jget(v, "channelID")), ValidAfterNanoseconds: jU64(jget(v, "validAfter")),
		ObservationTimestampNanoseconds: jU64(jget(v, "obsTs")), Specimen: jBool(jget(v, "specimen"))}
	copy(r.ConfigDigest[:], digest)
	for _, e := range jArr(jget(v, "values")) {
		r.Values = append(r.Values, jSV(e))
	}
	return r
}

type cdcTT struct {
	T int32  `json:"t"`
	V string `json:"v"`
}

type cdcJsonMsg struct {
	ConfigDigest                    string
	SeqNr                           uint64
	ChannelID                       uint32
	ValidAfterNanoseconds           uint64
	ObservationTimestampNanoseconds uint64
	Values                          []cdcTT
	Specimen                        bool
}

func cdcJsonMsgJ(m cdcJsonMsg) J {
	vals := make([]any, len(m.Values))
	for i, v := range m.Values {
		vals[i] = J{"t": S(v.T), "v": v.V}
	}
	return J{"configDigest": m.ConfigDigest, "seqNr": S(m.SeqNr), "channelID": S(m.ChannelID), "validAfter": S(m.ValidAfterNanoseconds),
		"obsTs": S(m.ObservationTimestampNanoseconds), "values": vals, "specimen": m.Specimen}
}

type cdcPackedMsg struct {
	ConfigDigest string                             `json:"configDigest"`
	SeqNr        uint64                             `json:"seqNr"`
	Report       json.RawMessage                    `json:"report"`
	Sigs         []types.AttributedOnchainSignature `json:"sigs"`
}

func cdcSigsJ(sigs []types.AttributedOnchainSignature) []any {
	out := make([]any, len(sigs))
	for i, s := range sigs {
		out[i] = J{"sig": hexs(s.Signature), "signer": S(int(s.Signer))}
	}
	return out
}

func cdcJSigs(v any) []types.AttributedOnchainSignature {
	var out []types.AttributedOnchainSignature
	for _, e := range jArr(v) {
		out = append(out, types.AttributedOnchainSignature{Signature: jBytes(jget(e, "sig")), Signer: commontypes.OracleID(jInt(jget(e, "signer")))})
	}
	return out
}

// numerically equal stream values (JSON form)
func cdcSVNumEq(a, b any) bool {
	if a == nil || b == nil {
		return a == nil && b == nil
	}
	t := jStr(jget(a, "t"))
	if t != jStr(jget(b, "t")) {
		return false
	}
	eq := func(k string) bool { return jDec(jget(a, k)).Cmp(jDec(jget(b, k))) == 0 }
	switch t {
	case "dec":
		return eq("d")
	case "quote":
		return eq("bid") && eq("bm") && eq("ask")
	case "tsv":
		return jBig(jget(a, "at")).Cmp(jBig(jget(b, "at"))) == 0 && cdcSVNumEq(jget(a, "v"), jget(b, "v"))
	}
	return false
}

func init() {
	codec := llo.JSONReportCodec{}

	// {"v":SV} -> NewTypedTextStreamValue; "_rt" = UnmarshalTypedTextStreamValue of the result
	RegOp("sv.text", func(in J) any {
		in = normalise(in).(map[string]any)
		t, err := llo.NewTypedTextStreamValue(jSV(in["v"]))
		if err != nil {
			return cdcTextErr(err)
		}
		res := resOK(J{"t": S(int32(t.Type)), "text": t.SerializedStreamValue})
		sv, uerr := llo.UnmarshalTypedTextStreamValue(&t)
		if uerr != nil {
			res["_rt_err"] = uerr.Error()
		} else {
			res["_rt"] = svJ(sv)
		}
		return res
	})
	// {"t":int,"text":string} -> UnmarshalTypedTextStreamValue
	RegOp("sv.untext", func(in J) any {
		in = normalise(in).(map[string]any)
		sv, err := llo.UnmarshalTypedTextStreamValue(&llo.TypedTextStreamValue{Type: llo.LLOStreamValue_Type(int32(jBig(in["t"]).Int64())), SerializedStreamValue: jStr(in["text"])})
		if err != nil {
			return cdcTextErr(err)
		}
		return resOK(svJ(sv))
	})
	// {"digest":hex,"report":Report} -> the JSON object read back into the encode struct
	RegOp("json.encode", func(in J) any {
		in = normalise(in).(map[string]any)
		r := cdcJReport(jBytes(in["digest"]), in["report"])
		b, err := codec.Encode(r, llotypes.ChannelDefinition{})
		if err != nil {
			return cdcTextErr(err)
		}
		if !heldUnchanged(b, func() {
			r2 := r
			r2.ChannelID ^= 1
			r2.SeqNr ^= 1
			codec.Encode(r2, llotypes.ChannelDefinition{})
		}) {
			return clobbered("JSONReportCodec.Encode")
		}
		var m cdcJsonMsg
		if err := json.Unmarshal(b, &m); err != nil {
			return J{"harness-error": "cannot read encoder output: " + err.Error()}
		}
		res := resOK(cdcJsonMsgJ(m))
		d, derr := codec.Decode(b)
		if derr != nil {
			res["_rt_err"] = derr.Error()
		} else {
			res["_rt"] = J{"digest": hexs(d.ConfigDigest[:]), "report": cdcReportJ(d)}
		}
		return res
	})
	// {"msg":JsonMsg} -> Decode of its JSON
	RegOp("json.decode", func(in J) any {
		in = normalise(in).(map[string]any)
		m := in["msg"]
		jm := cdcJsonMsg{ConfigDigest: jStr(jget(m, "configDigest")), SeqNr: jU64(jget(m, "seqNr")), ChannelID: jU32(jget(m, "channelID")),
			ValidAfterNanoseconds: jU64(jget(m, "validAfter")), ObservationTimestampNanoseconds: jU64(jget(m, "obsTs")), Specimen: jBool(jget(m, "specimen"))}
		for _, e := range jArr(jget(m, "values")) {
			jm.Values = append(jm.Values, cdcTT{T: int32(jBig(jget(e, "t")).Int64()), V: jStr(jget(e, "v"))})
		}
		b, err := json.Marshal(jm)
		if err != nil {
			return J{"harness-error": err.Error()}
		}
		d, err := codec.Decode(b)
		if err != nil {
			return cdcTextErr(err)
		}
		return resOK(J{"digest": hexs(d.ConfigDigest[:]), "report": cdcReportJ(d)})
	})
	// {"digest","seqNr","report":hex,"sigs":[{"sig","signer"}]} -> the JSON object read back into the packed struct
	RegOp("json.pack", func(in J) any {
		in = normalise(in).(map[string]any)
		var digest types.ConfigDigest
		copy(digest[:], jBytes(in["digest"]))
		b, err := codec.Pack(digest, jU64(in["seqNr"]), jBytes(in["report"]), cdcJSigs(in["sigs"]))
		if err != nil {
			return cdcTextErr(err)
		}
		if !heldUnchanged(b, func() {
			var other types.ConfigDigest
			copy(other[:], digest[:])
			other[0] ^= 0xff
			codec.Pack(other, jU64(in["seqNr"])^1, jBytes(in["report"]), cdcJSigs(in["sigs"]))
		}) {
			return clobbered("JSONReportCodec.Pack")
		}
		var m cdcPackedMsg
		if err := json.Unmarshal(b, &m); err != nil {
			return J{"harness-error": "cannot read packer output: " + err.Error()}
		}
		res := resOK(J{"configDigest": m.ConfigDigest, "seqNr": S(m.SeqNr), "report": hexs(m.Report), "sigs": cdcSigsJ(m.Sigs)})
		d, s, rep, sigs, uerr := codec.Unpack(b)
		if uerr != nil {
			res["_rt_err"] = uerr.Error()
		} else {
			res["_rt"] = J{"digest": hexs(d[:]), "seqNr": S(s), "report": hexs(rep), "sigs": cdcSigsJ(sigs)}
		}
		return res
	})
	// {"len","nsigs","seed"} -> builds an encoded report of exactly len bytes (values padded with long decimals), packs it with
	// nsigs signatures, unpacks and decodes it again; only a summary comes back (the report itself would be megabytes)
	RegOp("json.packsized", func(in J) any {
		in = normalise(in).(map[string]any)
		want := int(jU64(in["len"]))
		rnd := rand.New(rand.NewSource(int64(jU64(in["seed"]))))
		digits := func(n int) string {
			b := make([]byte, n)
			for i := range b {
				b[i] = byte('0' + rnd.Intn(10))
			}
			b[0] = byte('1' + rnd.Intn(9))
			return string(b)
		}
		mk := func(ds []string) (llo.Report, []byte, error) {
			r := llo.Report{SeqNr: 1 + uint64(rnd.Intn(1000)), ChannelID: rnd.Uint32(), ValidAfterNanoseconds: rnd.Uint64(), ObservationTimestampNanoseconds: rnd.Uint64()}
			rnd.Read(r.ConfigDigest[:])
			for _, d := range ds {
				c, _ := new(big.Int).SetString(d, 10)
				r.Values = append(r.Values, llo.ToDecimal(decimal.NewFromBigInt(c, 0)))
			}
			b, err := codec.Encode(r, llotypes.ChannelDefinition{})
			return r, b, err
		}
		const chunk = 4000
		var ds []string
		for n := want; n > 2*chunk+600; n -= chunk + 20 {
			ds = append(ds, digits(chunk))
		}
		ds = append(ds, "1")
		_, b0, err := mk(ds)
		if err != nil {
			return J{"harness-error": err.Error()}
		}
		// fixed-width header fields may differ between the two builds by a few digits: converge on the exact length
		var r llo.Report
		var b []byte
		last := 1 + want - len(b0)
		for tries := 0; tries < 200; tries++ {
			if last < 1 {
				return J{"harness-error": fmt.Sprintf("cannot size a report to %d bytes", want)}
			}
			ds[len(ds)-1] = digits(last)
			r, b, err = mk(ds)
			if err != nil {
				return J{"harness-error": err.Error()}
			}
			if len(b) == want {
				break
			}
			last += want - len(b)
		}
		if len(b) != want {
			return J{"harness-error": fmt.Sprintf("cannot size a report to %d bytes (got %d)", want, len(b))}
		}
		var sigs []types.AttributedOnchainSignature
		for k := int(jU64(in["nsigs"])); k > 0; k-- {
			sg := make([]byte, 65)
			rnd.Read(sg)
			sigs = append(sigs, types.AttributedOnchainSignature{Signature: sg, Signer: commontypes.OracleID(rnd.Intn(256))})
		}
		seq := rnd.Uint64()
		packed, err := codec.Pack(r.ConfigDigest, seq, b, sigs)
		if err != nil {
			return cdcTextErr(err)
		}
		res := resOK(J{"reportLen": len(b), "values": len(r.Values)})
		d, s, rep, gs, uerr := codec.Unpack(packed)
		if uerr != nil {
			res["_rt_err"] = uerr.Error()
		} else {
			res["_rt_same"] = d == r.ConfigDigest && s == seq && bytes.Equal(rep, b) && cdcSame(normalise(cdcSigsJ(gs)), normalise(cdcSigsJ(sigs)))
			dec, derr := codec.Decode(rep)
			if derr != nil {
				res["_decode_err"] = derr.Error()
			} else {
				same := dec.ConfigDigest == r.ConfigDigest && dec.SeqNr == r.SeqNr && dec.ChannelID == r.ChannelID && len(dec.Values) == len(r.Values)
				for i := 0; same && i < len(dec.Values); i++ {
					a, ok1 := dec.Values[i].(*llo.Decimal)
					w, ok2 := r.Values[i].(*llo.Decimal)
					same = ok1 && ok2 && a.Decimal().Equal(w.Decimal())
				}
				res["_decode_same"] = same
			}
		}
		return res
	})
	// {"msg":PackedMsg} -> Unpack of its JSON
	RegOp("json.unpack", func(in J) any {
		in = normalise(in).(map[string]any)
		m := in["msg"]
		b, err := json.Marshal(cdcPackedMsg{ConfigDigest: jStr(jget(m, "configDigest")), SeqNr: jU64(jget(m, "seqNr")), Report: jBytes(jget(m, "report")), Sigs: cdcJSigs(jget(m, "sigs"))})
		if err != nil {
			return J{"harness-error": err.Error()}
		}
		d, s, rep, sigs, err := codec.Unpack(b)
		if err != nil {
			return cdcTextErr(err)
		}
		return resOK(J{"digest": hexs(d[:]), "seqNr": S(s), "report": hexs(rep), "sigs": cdcSigsJ(sigs)})
	})
	// implementation only: arbitrary bytes through Decode / Unpack / UnpackDecode
	RegOp("json.decodebytes", func(in J) any {
		in = normalise(in).(map[string]any)
		b := jBytes(in["bytes"])
		_, _, _, _, _ = codec.UnpackDecode(b)
		_, _, _, _, _ = codec.Unpack(b)
		d, err := codec.Decode(b)
		if err != nil {
			return cdcTextErr(err)
		}
		return resOK(J{"digest": hexs(d.ConfigDigest[:]), "report": cdcReportJ(d)})
	})

	RegGen("C17", "stream values of all three types through their text form: decimals of either sign with exponents in [-40,40] (some up to ±400) and up to 60 digits, quotes with negative components, timestamped values nested up to 3 deep with full-range uint64 times; hand-written and mutated texts (exponent forms, signs, stray dots, unanchored quote matches, oversize timestamps); reports with 0..12 values incl. nil values, SeqNr 0, malformed digests; packed tuples with 0..6 signatures; arbitrary bytes in an implementation-only stream. non-trivial = a text/JSON round trip or a parse of non-empty input; distinct = different op line", genC17)
	RegMonitor("C17", monC17)
}

// ---------- generators ----------

func cdcTextDec(g *G) decimal.Decimal {
	digits := 1 + g.R.Intn(60)
	if g.R.Intn(3) != 0 {
		digits = 1 + g.R.Intn(8)
	}
	c := new(big.Int).Rand(g.R, new(big.Int).Exp(big.NewInt(10), big.NewInt(int64(digits)), nil))
	switch g.R.Intn(10) {
	case 0:
		c = big.NewInt(0)
	case 1: // trailing zeros
		c.Mul(c, new(big.Int).Exp(big.NewInt(10), big.NewInt(int64(g.R.Intn(6))), nil))
	}
	if g.R.Intn(2) == 0 {
		c.Neg(c)
	}
	e := int32(g.R.Intn(81) - 40)
	switch g.R.Intn(12) {
	case 0:
		e = int32(g.R.Intn(801) - 400)
	case 1:
		e = 0
	case 2:
		e = -int32(digits)
	}
	return decimal.NewFromBigInt(c, e)
}

func cdcTextSV(g *G, depth int) llo.StreamValue {
	k := g.R.Intn(10)
	switch {
	case k < 4:
		return llo.ToDecimal(cdcTextDec(g))
	case k < 7 || depth >= 3:
		return &llo.Quote{Bid: cdcTextDec(g), Benchmark: cdcTextDec(g), Ask: cdcTextDec(g)}
	default:
		return &llo.TimestampedStreamValue{ObservedAtNanoseconds: cdcRndU64(g), StreamValue: cdcTextSV(g, depth+1)}
	}
}

var cdcDecTexts = []string{"", "0", "-0", "+0", "1", "-1", "+1", "007", "1.5", "-1.5", "1.", ".5", "-.5", ".", "-", "+", "-.", "1.2.3", "..", "1e5", "1E5", "1e-5", "1e+5",
	"1.5e3", "-1.5E-3", "1e", "e5", "1ee5", "1e5e5", "1e5.5", "1.5e", "1e2147483647", "1e2147483648", "1e-2147483648", "1e-2147483649", "1.5e-2147483648", "0.1e-2147483647",
	"1e99999999999999999999", " 1", "1 ", "1_000", "0x10", "1,5", "--1", "+-1", "1-", ".-5", "-5.-5", "5.+5", "NaN", "Inf", "١٢٣", "1\n", "1e٥",
	"123456789012345678", "1234567890123456789", "-1234567890123456789012345678901234567890", "00000000000000000000000000000001", "1." + strings.Repeat("0", 50), "0." + strings.Repeat("0", 45) + "1"}

var cdcQuoteTexts = []string{"Q{Bid: 1, Benchmark: 2, Ask: 3}", "Q{Bid: -1.5, Benchmark: -2, Ask: -0.001}", "xxQ{Bid: 1, Benchmark: 2, Ask: 3}yy", "Q{Bid: 1, Benchmark: 2, Ask: 3",
	"Q{Bid: 1.2.3, Benchmark: 2, Ask: 3}", "Q{Bid: ., Benchmark: 2, Ask: 3}", "Q{Bid: -, Benchmark: 2, Ask: 3}", "Q{Bid: --1, Benchmark: 2, Ask: 3}", "Q{Bid: 1e5, Benchmark: 2, Ask: 3}",
	"Q{Bid: +1, Benchmark: 2, Ask: 3}", "Q{Bid: 1,Benchmark: 2, Ask: 3}", "Q{Bid: , Benchmark: 2, Ask: 3}", "Q{Bid: 1, Benchmark: 2, Ask: 3}Q{Bid: 4, Benchmark: 5, Ask: 6}",
	"Q{Bid: x Q{Bid: 7, Benchmark: 8, Ask: 9}", "Q{Bid: 1, Benchmark: Q{Bid: 4, Benchmark: 5, Ask: 6}", "q{Bid: 1, Benchmark: 2, Ask: 3}", "Q{Bid: 1-, Benchmark: 2, Ask: 3}",
	"Q{Bid: 1, Benchmark: 2, Ask: -}", "Q{Bid: -.5, Benchmark: 5., Ask: 0005}", "", "Q", "Q{Bid: 1, Benchmark: 2, Ask: 3 }", "\nQ{Bid: 1, Benchmark: 2, Ask: 3}\n", "Q{Bid: 1٢, Benchmark: 2, Ask: 3}"}

var cdcTSVTexts = []string{`TSV{ObservedAtNanoseconds: 5, StreamValue: {"t":0,"v":"1.5"}}`, `TSV{ObservedAtNanoseconds: 005, StreamValue: {"t":0,"v":"1.5"}}`,
	`TSV{ObservedAtNanoseconds: 18446744073709551615, StreamValue: {"t":0,"v":"1"}}`, `TSV{ObservedAtNanoseconds: 18446744073709551616, StreamValue: {"t":0,"v":"1"}}`,
	`TSV{ObservedAtNanoseconds: 99999999999999999999999999, StreamValue: {"t":0,"v":"1"}}`, `TSV{ObservedAtNanoseconds: , StreamValue: {"t":0,"v":"1"}}`,
	`TSV{ObservedAtNanoseconds: -5, StreamValue: {"t":0,"v":"1"}}`, `TSV{ObservedAtNanoseconds: 5, StreamValue: }`, `TSV{ObservedAtNanoseconds: 5, StreamValue: }}`,
	`TSV{ObservedAtNanoseconds: 5, StreamValue: {"t":0,"v":"1.5"}}x`, `xTSV{ObservedAtNanoseconds: 5, StreamValue: {"t":0,"v":"1.5"}}`, `TSV{ObservedAtNanoseconds: 5, StreamValue: {"t":0,"v":"1.5"}`,
	`TSV{ObservedAtNanoseconds: 5, StreamValue: {"t":3,"v":"1.5"}}`, `TSV{ObservedAtNanoseconds: 5, StreamValue: {"t":-1,"v":"1.5"}}`, `TSV{ObservedAtNanoseconds: 5, StreamValue: {"t":2147483648,"v":"1.5"}}`,
	`TSV{ObservedAtNanoseconds: 5, StreamValue: {"t":1,"v":"Q{Bid: -1, Benchmark: 2, Ask: 3}"}}`, `TSV{ObservedAtNanoseconds: 5, StreamValue: {"t":1,"v":"1.5"}}`,
	`TSV{ObservedAtNanoseconds: 5, StreamValue: {"t":0,"v":"x"}}`, `TSV{ObservedAtNanoseconds: 5, StreamValue: {"t":0,"v":""}}`, `TSV{ObservedAtNanoseconds: 5, StreamValue: {"t":0,"v":"1\"}}`,
	`TSV{ObservedAtNanoseconds: 5, StreamValue: {"t":0,"v":"1\\"}}`, `TSV{ObservedAtNanoseconds: 5, StreamValue: {"t":00,"v":"1"}}`, `TSV{ObservedAtNanoseconds: 5, StreamValue: nonsense}`,
	`TSV{ObservedAtNanoseconds: 5, StreamValue: {"t":2,"v":"TSV{ObservedAtNanoseconds: 6, StreamValue: {\"t\":0,\"v\":\"-7.25\"}}"}}`, `TSV{ObservedAtNanoseconds: 5, StreamValue: {"t":2,"v":"TSV{}"}}`,
	"TSV{ObservedAtNanoseconds: 5, StreamValue: {\"t\":0,\n\"v\":\"1.5\"}}", ``, `TSV{`}

// texts that encoding/json accepts but the model's strict envelope parser does not: implementation only
var cdcTSVTextsImpl = []string{`TSV{ObservedAtNanoseconds: 5, StreamValue: {"t":0, "v":"1.5"}}`, `TSV{ObservedAtNanoseconds: 5, StreamValue: {"v":"1.5","t":0}}`,
	`TSV{ObservedAtNanoseconds: 5, StreamValue: {"t":0,"v":"1.5","x":1}}`, `TSV{ObservedAtNanoseconds: 5, StreamValue: {"T":0,"V":"1.5"}}`, `TSV{ObservedAtNanoseconds: 5, StreamValue: {"t":0,"v":"1.5"}}`,
	`TSV{ObservedAtNanoseconds: 5, StreamValue: {"v":"1.5"}}`, `TSV{ObservedAtNanoseconds: 5, StreamValue: {"t":0}}`, `TSV{ObservedAtNanoseconds: 5, StreamValue: {}}`, `TSV{ObservedAtNanoseconds: 5, StreamValue: null}`,
	`TSV{ObservedAtNanoseconds: 5, StreamValue: {"t":null,"v":"1"}}`, `TSV{ObservedAtNanoseconds: 5, StreamValue: {"t":0,"v":"1","v":"2"}}`, `TSV{ObservedAtNanoseconds: 5, StreamValue: {"t":1e0,"v":"1"}}`,
	`TSV{ObservedAtNanoseconds: 5, StreamValue: {"t":-0,"v":"1"}}`, `TSV{ObservedAtNanoseconds: 5, StreamValue: {"t":0,"v":"1\/2"}}`}

func cdcMutateText(g *G, s string) string {
	b := []byte(s)
	switch g.R.Intn(6) {
	case 0:
		if len(b) > 0 {
			b = b[:g.R.Intn(len(b))]
		}
	case 1:
		if len(b) > 0 {
			i := g.R.Intn(len(b))
			b = append(b[:i], b[i+1:]...)
		}
	case 2:
		i := g.R.Intn(len(b) + 1)
		alphabet := "0123456789.-+eE,{}: \"\\Q"
		c := alphabet[g.R.Intn(len(alphabet))]
		b = append(b[:i], append([]byte{c}, b[i:]...)...)
	case 3:
		if len(b) > 0 {
			b[g.R.Intn(len(b))] = "0123456789.-e"[g.R.Intn(13)]
		}
	case 4:
		b = append([]byte("zz"), b...)
	case 5:
		b = append(b, "}}"...)
	}
	return string(b)
}

func genC17(g *G) {
	// ---- text forms
	for i := 0; i < g.N(500, 10000); i++ {
		v := cdcTextSV(g, 0)
		g.Emit(J{"op": "sv.text", "v": svJ(v)}, "text-roundtrip")
		t, err := llo.NewTypedTextStreamValue(v)
		if err != nil {
			panic(err)
		}
		g.Emit(J{"op": "sv.untext", "t": S(int32(t.Type)), "text": t.SerializedStreamValue}, "untext-valid")
		if i%3 == 0 {
			m := cdcMutateText(g, t.SerializedStreamValue)
			op := J{"op": "sv.untext", "t": S(int32(t.Type)), "text": m}
			// a mutated timestamped text that still parses may use a JSON spelling outside the strict envelope
			if t.Type == llo.LLOStreamValue_TimestampedStreamValue {
				g.EmitImpl(op, "untext-mutated-tsv")
			} else {
				g.Emit(op, "untext-mutated")
			}
		}
	}
	// D3 witness and friends
	for _, q := range []*llo.Quote{{Bid: decimal.New(-2, 0), Benchmark: decimal.New(1, 0), Ask: decimal.New(2, 0)},
		{Bid: decimal.New(-25, -1), Benchmark: decimal.New(-2, 0), Ask: decimal.New(-15, -1)}, {Bid: decimal.New(0, 0), Benchmark: decimal.New(0, -5), Ask: decimal.New(0, 5)},
		// components strictly between -1 and 0, between 0 and 1, and with leading-zero fractions
		{Bid: decimal.New(-3, -4), Benchmark: decimal.New(-1, -4), Ask: decimal.New(2, -4)},
		{Bid: decimal.New(-999, -3), Benchmark: decimal.New(-5, -1), Ask: decimal.New(-1, -9)},
		{Bid: decimal.New(1, -7), Benchmark: decimal.New(5, -1), Ask: decimal.New(999, -3)},
		{Bid: decimal.New(-100001, -5), Benchmark: decimal.New(-1, 0), Ask: decimal.New(-5, -2)}} {
		g.Emit(J{"op": "sv.text", "v": svJ(q)}, "text-roundtrip", "negative-quote")
		g.Emit(J{"op": "sv.text", "v": svJ(&llo.TimestampedStreamValue{ObservedAtNanoseconds: math.MaxUint64, StreamValue: q})}, "text-roundtrip", "negative-quote")
	}
	for _, s := range cdcDecTexts {
		g.Emit(J{"op": "sv.untext", "t": "0", "text": s}, "untext-dec-table")
	}
	for _, s := range cdcQuoteTexts {
		g.Emit(J{"op": "sv.untext", "t": "1", "text": s}, "untext-quote-table")
	}
	for _, s := range cdcTSVTexts {
		g.Emit(J{"op": "sv.untext", "t": "2", "text": s}, "untext-tsv-table")
	}
	for _, s := range cdcTSVTextsImpl {
		g.EmitImpl(J{"op": "sv.untext", "t": "2", "text": s}, "untext-tsv-loose-json")
	}
	for _, t := range []string{"3", "-1", "2147483647", "-2147483648"} {
		g.Emit(J{"op": "sv.untext", "t": t, "text": "1"}, "untext-unknown-type")
	}
	// ---- reports
	codec := llo.JSONReportCodec{}
	for i := 0; i < g.N(200, 4000); i++ {
		n := g.R.Intn(13)
		vals := make([]any, n)
		hasNil := false
		for k := range vals {
			if g.R.Intn(40) == 0 {
				hasNil = true
				continue
			}
			vals[k] = svJ(cdcTextSV(g, 0))
		}
		digest := cdcRndBytes(g, 0)
		digest = make([]byte, 32)
		if g.R.Intn(5) != 0 {
			g.R.Read(digest)
		}
		seq := cdcRndU64(g)
		if g.R.Intn(15) == 0 {
			seq = 0
		}
		rep := J{"seqNr": S(seq), "channelID": S(cdcRndU32(g)), "validAfter": S(cdcRndU64(g)), "obsTs": S(cdcRndU64(g)), "values": vals, "specimen": g.R.Intn(2) == 0}
		tags := []string{"json-encode"}
		if hasNil {
			tags = append(tags, "json-nil-value")
		}
		g.Emit(J{"op": "json.encode", "digest": hexs(digest), "report": rep}, tags...)
		if hasNil {
			continue
		}
		b, err := codec.Encode(cdcJReport(digest, normalise(rep)), llotypes.ChannelDefinition{})
		if err != nil {
			panic(err)
		}
		var m cdcJsonMsg
		if err := json.Unmarshal(b, &m); err != nil {
			panic(err)
		}
		mj := cdcJsonMsgJ(m)
		tag := "jsonmsg-valid"
		implOnly := false
		switch g.R.Intn(9) {
		case 0:
			mj["seqNr"] = "0"
			tag = "jsonmsg-seqnr-0"
		case 1:
			mj["configDigest"] = strings.ToUpper(m.ConfigDigest)
			tag = "jsonmsg-digest-upper"
		case 2:
			mj["configDigest"] = []string{"", "0", m.ConfigDigest[:62], m.ConfigDigest + "00", m.ConfigDigest[:63], "zz" + m.ConfigDigest[2:], m.ConfigDigest[:63] + "g", "0x" + m.ConfigDigest[2:]}[g.R.Intn(8)]
			tag = "jsonmsg-digest-bad"
		case 3:
			if n > 0 {
				mj["values"].([]any)[g.R.Intn(n)].(J)["t"] = []string{"3", "-1", "2147483647"}[g.R.Intn(3)]
				tag = "jsonmsg-unknown-type"
			}
		case 4:
			if n > 0 {
				e := mj["values"].([]any)[g.R.Intn(n)].(J)
				e["v"] = cdcMutateText(g, e["v"].(string))
				tag = "jsonmsg-mutated-value"
				implOnly = e["t"] == "2"
			}
		}
		op := J{"op": "json.decode", "msg": mj}
		if implOnly {
			g.EmitImpl(op, tag)
		} else {
			g.Emit(op, tag)
		}
		// pack / unpack of the encoded report
		var sigs []any
		for k := g.R.Intn(7); k > 0; k-- {
			sigs = append(sigs, J{"sig": hexs(cdcRndBytes(g, 70)), "signer": g.R.Intn(256)})
		}
		g.Emit(J{"op": "json.pack", "digest": hexs(digest), "seqNr": S(cdcRndU64(g)), "report": hexs(b), "sigs": sigs}, "json-pack")
		cd := m.ConfigDigest
		ptag := "packedmsg-valid"
		if g.R.Intn(4) == 0 {
			cd = []string{"", strings.ToUpper(cd), cd[:62], cd + "ab", "g" + cd[1:], cd[:63]}[g.R.Intn(6)]
			ptag = "packedmsg-digest"
		}
		g.Emit(J{"op": "json.unpack", "msg": J{"configDigest": cd, "seqNr": S(cdcRndU64(g)), "report": hexs(b), "sigs": sigs}}, ptag)
	}
	// ---- reports of 30 … 60 KB in a row (a pooled encode buffer grows through the sizes a pool's cut-off would use;
	// each returned encoding is held while the next report is encoded)
	for _, n := range []int{300, 550, 650, 830, 650, 770, 920, 620, 970, 640, 950} { // ≈ 65 bytes a value: 20 … 63 KB
		vals := make([]any, n)
		for k := range vals {
			vals[k] = svJ(&llo.Quote{Bid: decimal.New(int64(100000+k), -2), Benchmark: decimal.New(int64(100100+k), -2), Ask: decimal.New(int64(100200+k), -2)})
		}
		digest := make([]byte, 32)
		g.R.Read(digest)
		g.Emit(J{"op": "json.encode", "digest": hexs(digest), "report": J{"seqNr": S(1 + cdcRndU64(g)%1000), "channelID": S(cdcRndU32(g)), "validAfter": S(cdcRndU64(g)), "obsTs": S(cdcRndU64(g)), "values": vals, "specimen": false}},
			"json-encode", "json-tens-of-kilobytes")
	}
	// ---- sizes exactly at the documented limits: a full channel (MaxStreamsPerChannel values) and a report of MaxReportLength bytes
	for _, n := range []int{llo.MaxStreamsPerChannel - 1, llo.MaxStreamsPerChannel} {
		if g.Lite() {
			break
		}
		vals := make([]any, n)
		for k := range vals {
			vals[k] = svJ(cdcTextSV(g, 0))
		}
		digest := make([]byte, 32)
		g.R.Read(digest)
		g.Emit(J{"op": "json.encode", "digest": hexs(digest), "report": J{"seqNr": S(1 + cdcRndU64(g)%1000), "channelID": S(cdcRndU32(g)), "validAfter": S(cdcRndU64(g)), "obsTs": S(cdcRndU64(g)), "values": vals, "specimen": false}},
			"json-encode", "json-full-channel")
	}
	for _, l := range []int{llo.MaxReportLength, llo.MaxReportLength - 1, llo.MaxReportLength - 150, llo.MaxReportLength - 700, llo.MaxReportLength / 2, 1 << 20} {
		if g.Lite() && l != 1<<20 {
			continue
		}
		for _, ns := range []int{0, 4, 31} {
			g.EmitImpl(J{"op": "json.packsized", "len": l, "nsigs": ns, "seed": g.R.Intn(1 << 30)}, "json-pack", "json-pack-at-report-limit")
		}
	}
	// ---- implementation only: arbitrary bytes / loose JSON
	for _, s := range []string{``, `null`, `{}`, `[]`, `{"SeqNr":1}`, `{"SeqNr":1,"ConfigDigest":"00"}`, `{"SeqNr":1,"ConfigDigest":"` + strings.Repeat("ab", 32) + `","Values":[null]}`,
		`{"SeqNr":1,"ConfigDigest":"` + strings.Repeat("ab", 32) + `","Values":[{"t":2,"v":"TSV{ObservedAtNanoseconds: 1, StreamValue: null}"}]}`,
		`{"SeqNr":1,"ConfigDigest":"` + strings.Repeat("ab", 32) + `","Values":[{}]}`, `{"seqNr":3,"configDigest":"` + strings.Repeat("cd", 32) + `","report":{"SeqNr":1},"sigs":null}`,
		`{"seqNr":3,"configDigest":"` + strings.Repeat("cd", 32) + `","report":null,"sigs":[{"Signature":"AA==","Signer":300}]}`} {
		g.EmitImpl(J{"op": "json.decodebytes", "bytes": hexs([]byte(s))}, "json-bytes")
	}
	for i := 0; i < g.N(200, 5000); i++ {
		v := cdcTextSV(g, 0)
		r := llo.Report{SeqNr: 1 + uint64(g.R.Intn(5)), Values: []llo.StreamValue{v}}
		b, err := codec.Encode(r, llotypes.ChannelDefinition{})
		if err != nil {
			panic(err)
		}
		g.EmitImpl(J{"op": "json.decodebytes", "bytes": hexs([]byte(cdcMutateText(g, string(b))))}, "json-bytes-mutated")
	}
}

// ---------- monitor ----------

func monC17(op J, res any) (viol []Violation, nontrivial bool) {
	name := jStr(op["op"])
	r := jObj(res)
	bad := func(sig, d string) { viol = append(viol, Violation{Sig: "C17/" + sig, Desc: d, Op: op, Res: res}) }
	if r["panic"] != nil {
		bad("panic", name+" panicked")
		return
	}
	if r["harness-error"] != nil {
		bad("harness-error", fmt.Sprint(r["harness-error"]))
		return
	}
	ok := r["ok"] != nil
	switch name {
	case "sv.text":
		nontrivial = true
		if !ok {
			bad("text-marshal-rejected", "MarshalText failed on a stream value")
			return
		}
		if r["_rt_err"] != nil {
			bad("text-roundtrip-error", "the text form does not parse back: "+fmt.Sprint(r["_rt_err"]))
		} else if !cdcSVNumEq(r["_rt"], op["v"]) {
			bad("text-roundtrip-differs", "the text form parses back to a different value")
		}
	case "sv.untext":
		nontrivial = jStr(op["text"]) != ""
	case "json.encode":
		nontrivial = true
		rep := op["report"]
		allPresent := true
		for _, v := range jArr(jget(rep, "values")) {
			if v == nil {
				allPresent = false
			}
		}
		if !allPresent {
			if ok {
				bad("json-nil-value-accepted", "a report with a missing value was encoded")
			}
			return
		}
		if !ok {
			bad("json-encode-rejected", "Encode failed on a report whose values are all present")
			return
		}
		if jBig(jget(rep, "seqNr")).Sign() == 0 {
			return // SeqNr 0 is documented as undecodable
		}
		if r["_rt_err"] != nil {
			bad("json-roundtrip-error", "Decode(Encode(r)) failed: "+fmt.Sprint(r["_rt_err"]))
			return
		}
		got := jget(r["_rt"], "report")
		same := jStr(jget(r["_rt"], "digest")) == jStr(op["digest"])
		for _, k := range []string{"seqNr", "channelID", "validAfter", "obsTs"} {
			same = same && jBig(jget(got, k)).Cmp(jBig(jget(rep, k))) == 0
		}
		same = same && jBool(jget(got, "specimen")) == jBool(jget(rep, "specimen"))
		gv, wv := jArr(jget(got, "values")), jArr(jget(rep, "values"))
		same = same && len(gv) == len(wv)
		for i := 0; same && i < len(gv); i++ {
			same = cdcSVNumEq(gv[i], wv[i])
		}
		if !same {
			bad("json-roundtrip-differs", "Decode(Encode(r)) differs from r")
		}
	case "json.pack":
		nontrivial = true
		if !ok {
			bad("json-pack-rejected", "Pack failed on an encoded report")
			return
		}
		want := normalise(J{"digest": op["digest"], "seqNr": jBig(op["seqNr"]).String(), "report": op["report"], "sigs": cdcSigsJ(cdcJSigs(op["sigs"]))})
		if r["_rt"] == nil || !cdcSame(r["_rt"], want) {
			bad("pack-unpack-differs", "Unpack(Pack(t)) differs from t")
		}
	case "json.packsized":
		nontrivial = true
		if !ok {
			bad("json-pack-rejected", "Pack failed on an encoded report")
			return
		}
		if r["_rt_err"] != nil || r["_rt_same"] != true {
			bad("pack-unpack-differs", "Unpack(Pack(t)) differs from t for a report of "+fmt.Sprint(op["len"])+" bytes: "+fmt.Sprint(r["_rt_err"]))
		} else if r["_decode_err"] != nil || r["_decode_same"] != true {
			bad("json-roundtrip-differs", "the unpacked report does not decode back to the report that was encoded: "+fmt.Sprint(r["_decode_err"]))
		}
	case "json.decode", "json.unpack", "json.decodebytes":
		nontrivial = true
	}
	return
}
