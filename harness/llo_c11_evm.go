package main

import (
	"context"
	"fmt"
	"strings"

	"github.com/shopspring/decimal"

	"github.com/smartcontractkit/chainlink-common/pkg/logger"
	llotypes "github.com/smartcontractkit/chainlink-common/pkg/types/llo"

	"github.com/smartcontractkit/chainlink-data-streams/llo"
	"github.com/smartcontractkit/chainlink-data-streams/llo/reportcodecs/evm"
)

// fuzz.llo.reports.evm: Reports() with the REAL EVM report codecs plugged in (premium legacy = format 1,
// ABI-encode-unpacked = format 4, streamlined = format 6 in this harness) on outcomes whose channel
// definitions never passed Verify (ABI longer / shorter than the stream list, wrong value types,
// missing aggregates), with telemetry on or off.  Implementation only: must return, not panic.
const fmtStreamlinedHarness = 6

func init() {
	RegOp("fuzz.llo.reports.evm", func(in J) any {
		in = normalise(in).(map[string]any)
		hp, err := newPlugin(jCfg(in["cfg"]), nil, jBool(in["telemetry"]))
		if err != nil {
			return resErr("factory", err)
		}
		hp.p.ReportCodecs[llotypes.ReportFormatEVMPremiumLegacy] = evm.NewReportCodecPremiumLegacy(logger.Nop(), 1)
		hp.p.ReportCodecs[llotypes.ReportFormatEVMABIEncodeUnpacked] = evm.NewReportCodecEVMABIEncodeUnpacked(logger.Nop(), 1)
		hp.p.ReportCodecs[llotypes.ReportFormat(fmtStreamlinedHarness)] = evm.NewReportCodecStreamlined()
		hp.p.ReportCodecs[llotypes.ReportFormatJSON] = llo.JSONReportCodec{}
		ob, err := hp.p.OutcomeCodec.Encode(jOutcome(in["outcome"]))
		if err != nil {
			return resErr("encode-outcome", err)
		}
		rs, err := hp.p.Reports(context.Background(), jU64(in["seqNr"]), ob)
		if err != nil {
			return resErr("reports", err)
		}
		return resOK(J{"reports": len(rs)})
	})
	RegGen("C11", "plus Reports() through the real EVM codecs on outcomes with unverified channel definitions (ABI/stream count mismatches in both directions, wrong and missing aggregate values, bad opts), telemetry on/off", genC11Evm)
}

func genC11Evm(g *G) {
	feed := "0x" + strings.Repeat("ab", 32)
	types := []string{"int192", "uint64", "int8", "uint256", "int256", "uint32"}
	abi := func(k int) string {
		var els []string
		for i := 0; i < k; i++ {
			t := types[g.R.Intn(len(types))]
			if g.R.Intn(6) == 0 {
				els = append(els, fmt.Sprintf(`[{"type":"uint64"},{"type":%q}]`, t))
			} else if g.R.Intn(3) == 0 {
				els = append(els, fmt.Sprintf(`{"type":%q,"multiplier":"%d"}`, t, 1+g.R.Intn(1000)))
			} else {
				els = append(els, fmt.Sprintf(`{"type":%q}`, t))
			}
		}
		return "[" + strings.Join(els, ",") + "]"
	}
	for i := 0; i < g.N(400, 6000); i++ {
		w := newWorld(g)
		w.version = 1
		w.interval = 1
		w.hasPred = false
		ns := 1 + g.R.Intn(4)
		streams := make([]any, ns)
		aggs := []any{}
		for k := range streams {
			sid := 1 + k
			streams[k] = J{"sid": S(sid), "agg": "1"}
			var v any
			switch g.R.Intn(8) {
			case 0: // missing aggregate
			case 1:
				v = svJ(rndQuote(g, true))
			case 2:
				v = svJ(&llo.TimestampedStreamValue{ObservedAtNanoseconds: rndTs(g), StreamValue: llo.ToDecimal(rndDec(g))})
			case 3:
				// prices at the edges of what the fee arithmetic sees: far below the 18 decimal places a fee carries,
				// exactly at them, zero, negative, huge
				v = svJ(llo.ToDecimal([]decimal.Decimal{decimal.New(int64(1+g.R.Intn(9)), -19), decimal.New(1, -18), decimal.New(int64(1+g.R.Intn(99)), int32(-20-g.R.Intn(30))),
					decimal.New(5, -1), decimal.Zero, decimal.New(-1, -19), decimal.New(int64(1+g.R.Intn(9)), int32(19+g.R.Intn(30))), decimal.New(999999999999999999, -18)}[g.R.Intn(8)]))
			default:
				v = svJ(llo.ToDecimal(decimal.New(int64(g.R.Intn(2000)-100), int32(g.R.Intn(3)-1))))
			}
			if v != nil {
				aggs = append(aggs, J{"sid": S(sid), "agg": "1", "v": v})
			}
		}
		k := ns + g.R.Intn(5) - 2
		if k < 0 {
			k = 0
		}
		var format int
		var opts string
		switch g.R.Intn(3) {
		case 0:
			format = fmtStreamlinedHarness
			opts = fmt.Sprintf(`{"abi":%s}`, abi(k))
			if g.R.Intn(2) == 0 {
				opts = fmt.Sprintf(`{"feedID":%q,"abi":%s}`, feed, abi(k))
			}
		case 1:
			format = 4
			kk := k - 2
			if kk < 0 {
				kk = 0
			}
			opts = fmt.Sprintf(`{"baseUSDFee":"1.5","expirationWindow":3600,"feedID":%q,"abi":%s}`, feed, abi(kk))
		default:
			format = 1
			opts = fmt.Sprintf(`{"baseUSDFee":"1","expirationWindow":60,"feedID":%q,"multiplier":"10"}`, feed)
		}
		if g.R.Intn(15) == 0 {
			opts = opts[:len(opts)/2] // broken JSON
		}
		def := J{"format": S(format), "streams": streams, "opts": hexs([]byte(opts))}
		o := J{"stage": "production", "ts": S(w.now + 5_000_000_000), "defs": []any{J{"id": "7", "def": def}},
			"va": []any{J{"id": "7", "va": S(w.now)}}, "aggs": aggs}
		g.EmitImpl(J{"op": "fuzz.llo.reports.evm", "cfg": w.cfgJ(), "seqNr": 3, "outcome": o, "telemetry": g.R.Intn(2) == 0}, "reports-real-evm-codecs")
	}
	// timestamped aggregates nested 1..4 levels deep, through the real JSON codec (which prints every value as
	// text) and the real EVM codecs: the outcome decoder must refuse what is too deep, never hand out a value
	// with a missing inner value
	for depth := 1; depth <= 4; depth++ {
		for _, format := range []int{int(llotypes.ReportFormatJSON), 4, fmtStreamlinedHarness} {
			for _, ver := range []uint32{0, 1} {
				w := newWorld(g)
				w.version, w.interval, w.hasPred = ver, 0, false
				if ver == 1 {
					w.interval = 1
				}
				var v llo.StreamValue = llo.ToDecimal(decimal.New(1234, -2))
				for d := 0; d < depth; d++ {
					v = &llo.TimestampedStreamValue{ObservedAtNanoseconds: uint64(1000 + d), StreamValue: v}
				}
				opts := ""
				if format != int(llotypes.ReportFormatJSON) {
					opts = fmt.Sprintf(`{"baseUSDFee":"1.5","expirationWindow":3600,"feedID":%q,"abi":[[{"type":"uint64"},{"type":"int192"}]]}`, feed)
					if format == fmtStreamlinedHarness {
						opts = `{"abi":[[{"type":"uint64"},{"type":"int192"}]]}`
					}
				}
				streams := []any{J{"sid": "1", "agg": "1"}}
				aggs := []any{J{"sid": "1", "agg": "1", "v": svJ(v)}}
				if format == 4 {
					streams = []any{J{"sid": "2", "agg": "1"}, J{"sid": "3", "agg": "1"}, J{"sid": "1", "agg": "1"}}
					aggs = append(aggs, J{"sid": "2", "agg": "1", "v": svJ(llo.ToDecimal(decimal.New(2, 0)))}, J{"sid": "3", "agg": "1", "v": svJ(llo.ToDecimal(decimal.New(3, 0)))})
				}
				base := uint64(1_700_000_000_000_000_000)
				o := J{"stage": "production", "ts": S(base + 5_000_000_000), "defs": []any{J{"id": "7", "def": J{"format": S(format), "streams": streams, "opts": hexs([]byte(opts))}}},
					"va": []any{J{"id": "7", "va": S(base)}}, "aggs": aggs}
				g.EmitImpl(J{"op": "fuzz.llo.reports.evm", "cfg": w.cfgJ(), "seqNr": 3, "outcome": o, "telemetry": depth%2 == 0}, "reports-nested-aggregate", fmt.Sprintf("depth=%d", depth))
			}
		}
	}
}
