package main

// C20 — thorough tier only: the Go race detector on Replace ∥ VerifyPeerCertificate ∥ Keys.
// The harness binary itself is not built with -race, so this op generates a small test file in a
// temporary module that replaces the repository by $VERIF_REPO and shells out to `go test -race`.
// If the toolchain cannot run the test (no cgo, no race runtime) the op reports ran=false and the
// monitor stays silent: the race detector is additional evidence, the proof is the Lean model.

import (
	"bytes"
	"context"
	"os"
	"os/exec"
	"path/filepath"
	"strings"
	"time"
)

const mtlsRaceTest = `package dsvrace

import (
	"crypto/ed25519"
	"crypto/rand"
	"crypto/x509"
	"math/big"
	"sync"
	"sync/atomic"
	"testing"
	"time"

	"github.com/smartcontractkit/chainlink-data-streams/rpc/mtls"
)

func cert(t *testing.T, priv ed25519.PrivateKey) [][]byte {
	tmpl := x509.Certificate{SerialNumber: big.NewInt(0)}
	der, err := x509.CreateCertificate(rand.Reader, &tmpl, &tmpl, priv.Public(), priv)
	if err != nil {
		t.Fatal(err)
	}
	return [][]byte{der}
}

func TestReplaceRace(t *testing.T) {
	pa, ka, _ := ed25519.GenerateKey(nil)
	pb, _, _ := ed25519.GenerateKey(nil)
	pc, _, _ := ed25519.GenerateKey(nil)
	_, kz, _ := ed25519.GenerateKey(nil)
	pk, _ := mtls.ValidPublicKeysFromEd25519(pa)
	oldPK, _ := mtls.ValidPublicKeysFromEd25519(pa)
	newPK, _ := mtls.ValidPublicKeysFromEd25519(pb, pc, pa)
	verify := pk.VerifyPeerCertificate()
	ca, cz := cert(t, ka), cert(t, kz)
	var stop atomic.Bool
	var wg sync.WaitGroup
	wg.Add(4)
	go func() {
		defer wg.Done()
		for i := 0; !stop.Load(); i++ {
			if i%2 == 0 {
				pk.Replace(newPK)
			} else {
				pk.Replace(oldPK)
			}
		}
	}()
	for g := 0; g < 2; g++ {
		go func() {
			defer wg.Done()
			for !stop.Load() {
				if err := verify(ca, nil); err != nil {
					t.Errorf("INVARIANT key in both lists rejected: %v", err)
					return
				}
				if err := verify(cz, nil); err == nil {
					t.Errorf("INVARIANT key in neither list accepted")
					return
				}
			}
		}()
	}
	go func() {
		defer wg.Done()
		for !stop.Load() {
			if n := len(pk.Keys()); n != 1 && n != 3 {
				t.Errorf("INVARIANT torn Keys(): %d", n)
				return
			}
		}
	}()
	time.Sleep(1500 * time.Millisecond)
	stop.Store(true)
	wg.Wait()
}

// chained replacement: the SOURCE of live.Replace(staging) is itself being replaced concurrently
func TestChainedReplaceRace(t *testing.T) {
	pa, ka, _ := ed25519.GenerateKey(nil)
	pb, _, _ := ed25519.GenerateKey(nil)
	pc, _, _ := ed25519.GenerateKey(nil)
	_, kz, _ := ed25519.GenerateKey(nil)
	live, _ := mtls.ValidPublicKeysFromEd25519(pa)
	staging, _ := mtls.ValidPublicKeysFromEd25519(pa, pb)
	s1, _ := mtls.ValidPublicKeysFromEd25519(pa, pb)
	s2, _ := mtls.ValidPublicKeysFromEd25519(pc, pa)
	verify := live.VerifyPeerCertificate()
	ca, cz := cert(t, ka), cert(t, kz)
	var stop atomic.Bool
	var wg sync.WaitGroup
	wg.Add(3)
	go func() {
		defer wg.Done()
		for i := 0; !stop.Load(); i++ {
			if i%2 == 0 {
				staging.Replace(s2)
			} else {
				staging.Replace(s1)
			}
		}
	}()
	go func() {
		defer wg.Done()
		for !stop.Load() {
			live.Replace(staging)
		}
	}()
	go func() {
		defer wg.Done()
		for !stop.Load() {
			if err := verify(ca, nil); err != nil {
				t.Errorf("INVARIANT key in every list rejected: %v", err)
				return
			}
			if err := verify(cz, nil); err == nil {
				t.Errorf("INVARIANT key in no list accepted")
				return
			}
			if n := len(live.Keys()); n != 1 && n != 2 {
				t.Errorf("INVARIANT torn Keys(): %d", n)
				return
			}
		}
	}()
	time.Sleep(1200 * time.Millisecond)
	stop.Store(true)
	wg.Wait()
}
`

func mtlsRunRace() J {
	repo := os.Getenv("VERIF_REPO")
	if repo == "" {
		repo = "/repo"
	}
	repo, _ = filepath.Abs(repo)
	dir, err := os.MkdirTemp("", "dsv-mtls-race-")
	if err != nil {
		return J{"ran": false, "why": err.Error()}
	}
	defer os.RemoveAll(dir)
	gomod := "module dsvrace\n\ngo 1.24\n\ntoolchain go1.24.0\n\nrequire github.com/smartcontractkit/chainlink-data-streams v0.0.0\n\nreplace github.com/smartcontractkit/chainlink-data-streams => " + repo + "\n"
	sum, _ := os.ReadFile(filepath.Join(repo, "go.sum"))
	for name, content := range map[string][]byte{"go.mod": []byte(gomod), "go.sum": sum, "race_test.go": []byte(mtlsRaceTest)} {
		if err := os.WriteFile(filepath.Join(dir, name), content, 0o644); err != nil {
			return J{"ran": false, "why": err.Error()}
		}
	}
	ctx, cancel := context.WithTimeout(context.Background(), 8*time.Minute)
	defer cancel()
	cmd := exec.CommandContext(ctx, "go", "test", "-race", "-count=1", ".")
	cmd.Dir = dir
	var env []string
	for _, e := range os.Environ() {
		if strings.HasPrefix(e, "GOFLAGS=") || strings.HasPrefix(e, "GOPROXY=") || strings.HasPrefix(e, "GOSUMDB=") || strings.HasPrefix(e, "GOTOOLCHAIN=") || strings.HasPrefix(e, "GOMEMLIMIT=") {
			continue
		}
		env = append(env, e)
	}
	cmd.Env = append(env, "GOFLAGS=-mod=mod", "GOPROXY=off")
	var out bytes.Buffer
	cmd.Stdout, cmd.Stderr = &out, &out
	runErr := cmd.Run()
	text := out.String()
	res := J{"ran": true, "race": strings.Contains(text, "WARNING: DATA RACE"), "invariant": strings.Contains(text, "INVARIANT"),
		"passed": runErr == nil, "output": firstLines(text, 30)}
	if runErr != nil && !strings.Contains(text, "--- FAIL") && !strings.Contains(text, "DATA RACE") {
		// build / toolchain problem, not a test verdict
		res["ran"] = false
		res["why"] = firstLines(text, 6)
	}
	return res
}

func init() {
	RegOp("mtls.race", func(in J) any { return resOK(mtlsRunRace()) })
	RegGen("C20", "", func(g *G) {
		if g.Thorough() {
			g.EmitImpl(J{"op": "mtls.race"}, "race-detector")
		}
	})
	RegMonitor("C20", func(op J, res any) (viol []Violation, nontrivial bool) {
		if jStr(op["op"]) != "mtls.race" {
			return nil, false
		}
		o := jObj(jObj(res)["ok"])
		if o == nil || !jBool(o["ran"]) {
			return nil, false
		}
		if jBool(o["race"]) {
			viol = append(viol, Violation{Sig: "C20/data-race", Desc: "the Go race detector reports a data race between Replace / VerifyPeerCertificate / Keys", Op: op, Res: res})
		}
		if jBool(o["invariant"]) {
			viol = append(viol, Violation{Sig: "C20/race-test-invariant", Desc: "under -race: a key in both lists was rejected, a key in neither accepted, or Keys() was torn", Op: op, Res: res})
		}
		return viol, true
	})
}
