package main

import "strings"

// C01 also covers the Mercury v1-v4 report and the consensus functions it is built from: the C01
// check replays the Mercury case streams under the determinism monitors (repeated evaluation on
// fresh plugin instances; every permutation-sensitive selector evaluated on re-ordered lists).
func init() {
	RegGen("C01", "plus the Mercury consensus-function cases (vote tables, order types) and a sample of the Mercury Report scenarios, evaluated repeatedly / on re-ordered observation lists", func(g *G) {
		genC08Consensus(g)
		sub := &G{R: g.R, Tier: g.Tier, Prop: g.Prop}
		sub.emit = func(c Case) {
			if g.R.Intn(4) == 0 {
				g.emit(c)
			}
		}
		genMercReports(sub)
	})
	RegMonitor("C01", func(op J, res any) (viol []Violation, nontrivial bool) {
		if !strings.HasPrefix(jStr(op["op"]), "mercury.") {
			return
		}
		keep := func(vs []Violation) {
			for _, v := range vs {
				if strings.Contains(v.Sig, "order-dependent") || strings.Contains(v.Sig, "nondeterministic") {
					viol = append(viol, v)
				}
			}
		}
		v1, _ := monC08Consensus(op, res)
		keep(v1)
		v2, _ := monC07(op, res)
		keep(v2)
		return viol, true
	})
}
