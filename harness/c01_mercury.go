package main

import "strings"

// C01 also covers the Mercury v1-v4 report and the consensus functions it is built from: the C01
// check replays the Mercury case streams under the determinism monitors (repeated evaluation on
// fresh plugin instances; every permutation-sensitive selector evaluated on re-ordered lists).
func init() {
	RegGen("C01", "plus the Mercury consensus-function cases (vote tables, order types) and a sample of the Mercury Report scenarios, evaluated repeatedly / on re-ordered observation lists", func(g *G) {
		genC08Consensus(g)
		sub := &G{R: g.R, Tier: g.Tier, Prop: g.Prop}
		sub.emit = func(c Case) {
			if g.R.Intn(4) == 0 {
				g.emit(c)
			}
		}
		genMercReports(sub)
	})
	RegMonitor("C01", func(op J, res any) (viol []Violation, nontrivial bool) {
		if !strings.HasPrefix(jStr(op["op"]), "mercury.") {
			return
		}
		keep := func(vs []Violation) {
			for _, v := range vs {
				if strings.Contains(v.Sig, "order-dependent") || strings.Contains(v.Sig, "nondeterministic") {
					viol = append(viol, v)
				}
			}
		}
		v1, _ := monC08Consensus(op, res)
		keep(v1)
		v2, _ := monC07(op, res)
		keep(v2)
		return viol, true
	})
}

// C01 also says Reports() is a function of its arguments: the report codecs it calls are long-lived objects of the
// node, so a sample of the EVM codec cases runs under C01 as well — each encode is done by a codec that has
// encoded every earlier case of the run and by a fresh one, and the bytes must agree (see evmEncodeOp).
func init() {
	RegGen("C01", "plus a sample of the EVM report-codec cases, each encoded by a long-lived codec instance and by a fresh one", func(g *G) {
		sub := &G{R: g.R, Tier: g.Tier, Prop: g.Prop}
		sub.emit = func(c Case) {
			if strings.HasPrefix(jStr(c.Op["op"]), "evm.encode") && g.R.Intn(3) == 0 {
				g.emit(c)
			}
		}
		genC12(sub)
	})
}
