// Command dsvh is the correspondence harness: it generates op lines, runs the real
// chainlink-data-streams code on them in-process, evaluates per-property monitors on the
// implementation's outputs and writes everything for /verif/bin/check to compare against the
// Lean model driver.
package main

import (
	"bufio"
	"bytes"
	"crypto/sha256"
	"encoding/hex"
	"encoding/json"
	"flag"
	"fmt"
	"math/rand"
	"os"
	"path/filepath"
	"runtime/debug"
	"sort"
	"strconv"
	"strings"
	"sync"
	"sync/atomic"
	"time"
)

// J is a JSON object.
type J = map[string]any

// OpFunc runs one op against the implementation and returns its canonical result.
type OpFunc func(in J) any

// Violation is a property violation observed on the implementation.
type Violation struct {
	Sig  string `json:"sig"`  // stable signature used to match known findings
	Desc string `json:"desc"` // human readable
	Op   J      `json:"op"`
	Res  any    `json:"result"`
}

// Case is one generated case.
type Case struct {
	Op        J
	Tags      []string
	ModelSkip bool // implementation-only (outside the model's domain); never sent to the driver
}

// Monitor evaluates the property on (op, implementation result). It returns violations and
// whether the case is non-trivial by the property's rule.
type Monitor func(op J, res any) (viol []Violation, nontrivial bool)

// Gen generates cases for a property.
type Gen func(g *G)

type G struct {
	R    *rand.Rand
	Tier string
	Prop string
	emit func(Case)
}

func (g *G) Emit(op J, tags ...string)     { g.emit(Case{Op: op, Tags: tags}) }
func (g *G) EmitImpl(op J, tags ...string) { g.emit(Case{Op: op, Tags: tags, ModelSkip: true}) }
func (g *G) Thorough() bool                { return g.Tier == "thorough" }

// Lite: the race pass (a race-instrumented build is several times slower): the few directed cases that are
// megabytes large are left to the main pass
func (g *G) Lite() bool { return os.Getenv("VERIF_LITE") != "" }
func (g *G) N(quick, thorough int) int {
	if g.Thorough() {
		return thorough
	}
	return quick
}

var (
	ops      = map[string]OpFunc{}
	gens     = map[string][]Gen{}
	monitors = map[string][]Monitor{}
	rules    = map[string]string{}
)

func RegOp(name string, f OpFunc) { ops[name] = f }
func RegGen(prop string, rule string, g Gen) {
	gens[prop] = append(gens[prop], g)
	if rule != "" {
		if rules[prop] != "" {
			rules[prop] += " | "
		}
		rules[prop] += rule
	}
}
func RegMonitor(prop string, m Monitor) { monitors[prop] = append(monitors[prop], m) }

// The watchdog: every call into the repository is announced with watchOp, and a call that has not come back
// after hangLimit is reported as a violation with that call as the replay (a hang is a failure the caller sees;
// without this the run would only end at the driver's timeout, with no input to show).
var watch struct {
	mu    sync.Mutex
	op    J
	since time.Time
	depth int
}

var hangLimit = 300 * time.Second

// inConcurrent: the concurrent phase is running (harness-side shared scratch objects are not used then)
var inConcurrent atomic.Bool

// watchOp announces a call into the repository; the returned func marks its return.
func watchOp(op J) func() {
	watch.mu.Lock()
	prev, prevSince := watch.op, watch.since
	watch.op, watch.since = op, time.Now()
	watch.depth++
	watch.mu.Unlock()
	return func() {
		watch.mu.Lock()
		watch.op, watch.since = prev, prevSince
		if prev != nil {
			watch.since = time.Now() // the outer call gets a fresh allowance: it is making progress
		}
		watch.depth--
		watch.mu.Unlock()
	}
}

// runOp calls the implementation with a recover() around it.
func runOp(op J) (res any) {
	name, _ := op["op"].(string)
	f, ok := ops[name]
	if !ok {
		return J{"harness-error": "unknown op " + name}
	}
	defer watchOp(op)()
	defer func() {
		if r := recover(); r != nil {
			res = J{"panic": true, "panic_msg": fmt.Sprint(r), "stack": firstLines(string(debug.Stack()), 24)}
		}
	}()
	return f(op)
}

func firstLines(s string, n int) string {
	l := strings.Split(s, "\n")
	if len(l) > n {
		l = l[:n]
	}
	return strings.Join(l, "\n")
}

func marshal(v any) []byte {
	var buf bytes.Buffer
	enc := json.NewEncoder(&buf)
	enc.SetEscapeHTML(false)
	if err := enc.Encode(v); err != nil {
		panic(err)
	}
	return bytes.TrimRight(buf.Bytes(), "\n")
}

// normalise round-trips through JSON so monitors see plain map/slice/string/float values
func normalise(v any) any {
	var out any
	d := json.NewDecoder(bytes.NewReader(marshal(v)))
	d.UseNumber()
	if err := d.Decode(&out); err != nil {
		panic(err)
	}
	return out
}

type report struct {
	Property           string         `json:"property"`
	Tier               string         `json:"tier"`
	Seed               int64          `json:"seed"`
	Evaluations        int            `json:"evaluations"`
	ModelCompared      int            `json:"model_compared"`
	Distinct           int            `json:"distinct"`
	DistinctNontrivial int            `json:"distinct_nontrivial"`
	Rule               string         `json:"rule"`
	Tags               map[string]int `json:"tags"`
	ResultKinds        map[string]int `json:"result_kinds"`
	Violations         []Violation    `json:"violations"`
	Samples            []any          `json:"samples"`
	Panics             int            `json:"panics"`
	Reevaluated        int            `json:"reevaluated"`
	ConcurrentEvaluations int         `json:"concurrent_evaluations"`
	Unstable           []any          `json:"unstable"` // ops whose result changed when evaluated again at the end of the run
}

func resultKind(res any) string {
	m, ok := res.(map[string]any)
	if !ok {
		return "value"
	}
	if _, ok := m["panic"]; ok {
		return "panic"
	}
	if e, ok := m["err"]; ok {
		return "err:" + fmt.Sprint(e)
	}
	if _, ok := m["ok"]; ok {
		return "ok"
	}
	return "value"
}

func main() {
	prop := flag.String("prop", "", "property id")
	tier := flag.String("tier", "quick", "quick|thorough")
	seed := flag.Int64("seed", 1, "PRNG seed")
	out := flag.String("out", "", "output directory")
	replay := flag.String("replay", "", "replay file (JSON with property and ops)")
	search := flag.Bool("search", false, "failing-input search mode: larger budget, monitors only")
	flag.Parse()
	if *out == "" {
		fmt.Fprintln(os.Stderr, "need -out")
		os.Exit(2)
	}
	if err := os.MkdirAll(*out, 0o755); err != nil {
		panic(err)
	}
	opsF, _ := os.Create(filepath.Join(*out, "ops.jsonl"))
	implF, _ := os.Create(filepath.Join(*out, "impl.jsonl"))
	opsW, implW := bufio.NewWriter(opsF), bufio.NewWriter(implF)

	rep := report{Property: *prop, Tier: *tier, Seed: *seed, Tags: map[string]int{}, ResultKinds: map[string]int{}}
	seen := map[[32]byte]bool{}
	shrunkSig := map[string]bool{}
	var ntHashes []string // hashes of the distinct non-trivial cases (unioned over the passes of a thorough run)
	var finishOnce sync.Once
	finish := func() {
		finishOnce.Do(func() { finishRun(&rep, prop, out, opsW, implW, opsF, implF, &ntHashes) })
	}
	if v := os.Getenv("VERIF_HANG_LIMIT_S"); v != "" {
		if n, err := strconv.Atoi(v); err == nil && n > 0 {
			hangLimit = time.Duration(n) * time.Second
		}
	}
	go func() {
		for {
			time.Sleep(time.Second)
			watch.mu.Lock()
			op, since := watch.op, watch.since
			watch.mu.Unlock()
			if op == nil || time.Since(since) < hangLimit {
				continue
			}
			// the main goroutine is inside the repository and has been for hangLimit: it is not touching rep
			rep.Violations = append(rep.Violations, Violation{Sig: *prop + "/hang",
				Desc: fmt.Sprintf("a call into the repository did not return within %s (the harness gave up waiting); the op is the call", hangLimit),
				Op: normalise(op).(map[string]any), Res: J{"hang": true}})
			finish()
			os.Exit(0)
		}
	}()
	// a sample of the run is evaluated a second time at the very end: the callbacks and codecs under test
	// are functions of their arguments, so a result that depends on what was called before is a defect
	// (package-level buffers, pools, caches) even if each single evaluation looks right
	type kept struct {
		op   J
		res  []byte
		fast bool // the first evaluation took under 50 ms (eligible for the concurrent phase)
	}
	var reservoir []kept
	nSeen := 0
	handle := func(c Case) {
		line := marshal(c.Op)
		t0 := time.Now()
		res := normalise(runOp(c.Op))
		took := time.Since(t0)
		rep.Evaluations++
		for _, t := range c.Tags {
			rep.Tags[t]++
		}
		k := resultKind(res)
		rep.ResultKinds[k]++
		if k == "panic" {
			rep.Panics++
		}
		h := sha256.Sum256(line)
		first := !seen[h]
		seen[h] = true
		nontrivial := false
		opN := normalise(c.Op).(map[string]any)
		if rm, ok := res.(map[string]any); ok && jBool(rm["_clobbered"]) {
			// an op that holds the bytes an encoder returned while other values are encoded: they changed
			rep.Violations = append(rep.Violations, Violation{Sig: *prop + "/encoding-clobbered",
				Desc: "the bytes returned by an encoder changed when other values were encoded afterwards (shared buffer): " + jStr(rm["_clobbered_by"]), Op: opN, Res: res})
		}
		if msg := findMarker(res, "_inconsistent"); msg != "" {
			// a decoder of the repository handed out less than the bytes hold: the monitors would judge a partial state
			rep.Violations = append(rep.Violations, Violation{Sig: *prop + "/decoder-loses-data", Desc: msg, Op: opN, Res: res})
		}
		for _, m := range monitors[*prop] {
			if rm, ok := res.(map[string]any); ok && jBool(rm["_clobbered"]) {
				break // there is no result to judge
			}
			v, nt := m(opN, res)
			nontrivial = nontrivial || nt
			for i := range v {
				if !shrunkSig[v[i].Sig] && *replay == "" {
					// first hit of this signature: cut the history down to the shortest prefix that still shows it
					shrunkSig[v[i].Sig] = true
					if sop, sres, ok := shrinkPrefix(*prop, opN, v[i].Sig); ok {
						v[i].Desc += fmt.Sprintf(" [history cut to its shortest failing prefix: %s]", sop["_shrunk"])
						delete(sop, "_shrunk")
						v[i].Op, v[i].Res = sop, sres
					}
				}
			}
			rep.Violations = append(rep.Violations, v...)
		}
		if first {
			rep.Distinct++
			if nontrivial {
				rep.DistinctNontrivial++
				ntHashes = append(ntHashes, hex.EncodeToString(h[:12]))
			}
		}
		if !c.ModelSkip {
			rep.ModelCompared++
			opsW.Write(line)
			opsW.WriteByte('\n')
			implW.Write(marshal(stripPrivate(res)))
			implW.WriteByte('\n')
		}
		if first && stableOp(jStr(opN["op"])) && k != "panic" {
			nSeen++
			e := kept{c.Op, marshal(stripPrivate(res)), took < 50*time.Millisecond}
			if len(reservoir) < 400 {
				reservoir = append(reservoir, e)
			} else if j := int(h[0])<<8 | int(h[1]); j%nSeen < 400 && nSeen > 0 {
				reservoir[(int(h[2])<<8|int(h[3]))%400] = e
			}
		}
		if len(rep.Samples) < 3 && nontrivial && first && len(line) < 20000 { // samples are for reading: small cases only
			rep.Samples = append(rep.Samples, J{"op": c.Op, "impl": stripPrivate(res)})
		}
	}

	if *replay != "" {
		b, err := os.ReadFile(*replay)
		if err != nil {
			panic(err)
		}
		var rf struct {
			Property string `json:"property"`
			Ops      []J    `json:"ops"`
		}
		d := json.NewDecoder(bytes.NewReader(b))
		d.UseNumber()
		if err := d.Decode(&rf); err != nil {
			panic(err)
		}
		if *prop == "" {
			*prop = rf.Property
			rep.Property = rf.Property
		}
		for _, op := range rf.Ops {
			handle(Case{Op: op})
		}
	} else {
		_ = search
		gs := gens[*prop]
		for i, gen := range gs {
			g := &G{R: rand.New(rand.NewSource(*seed*1000003 + int64(i))), Tier: *tier, Prop: *prop, emit: handle}
			if *search {
				g.Tier = "thorough"
			}
			func() {
				// generators call into the repository (encoders, to build inputs): a panic there is a finding, not a crash
				defer func() {
					if r := recover(); r != nil {
						rep.Panics++
						rep.Violations = append(rep.Violations, Violation{Sig: *prop + "/panic-while-generating-inputs",
							Desc: fmt.Sprintf("repository code panicked while the harness was building inputs (generator %d): %v\n%s", i, r, firstLines(string(debug.Stack()), 40)),
							Op: J{"op": "none", "note": "panic inside a generator; see the stack in desc"}, Res: nil})
					}
				}()
				// a generator that calls into the repository without announcing the call still gets a deadline
				defer watchOp(J{"op": "none", "note": fmt.Sprintf("generator %d of %s was building inputs (an unannounced call into the repository)", i, *prop)})()
				gen(g)
			}()
		}
	}
	if *replay == "" {
		// judge a result that differs from the first evaluation of the same op: whatever the monitors say about it is
		// a violation found with this op as the replay (plus the note how it was reached)
		judge := func(op J, full any, how string) {
			opN := normalise(op).(map[string]any)
			for _, m := range monitors[*prop] {
				v, _ := m(opN, full)
				for i := range v {
					v[i].Desc += " [" + how + "]"
				}
				rep.Violations = append(rep.Violations, v...)
			}
		}
		for _, e := range reservoir {
			full := normalise(runOp(e.op))
			again := marshal(stripPrivate(full))
			rep.Reevaluated++
			if !bytes.Equal(again, e.res) && len(rep.Unstable) < 5 {
				var a, b any
				json.Unmarshal(e.res, &a)
				json.Unmarshal(again, &b)
				rep.Unstable = append(rep.Unstable, J{"op": e.op, "first": a, "again": b})
				judge(e.op, full, "result of evaluating the op again at the end of the run; the first evaluation gave a different result")
			}
		}
		// The concurrent phase.  Every callback and codec under test may be called from several goroutines at once
		// (libocr requires plugin functions to be thread-safe; a node runs one plugin per feed / DON in one process).
		// The quick cases of the sample are evaluated again from 8 goroutines at the same time; each result must be
		// the one the op gave when it ran alone.
		var fast []kept
		for _, e := range reservoir {
			if e.fast {
				fast = append(fast, e)
			}
		}
		if len(fast) > 0 && os.Getenv("VERIF_NO_CONCURRENT") == "" {
			inConcurrent.Store(true)
			budget := 15 * time.Second
			if *tier == "thorough" {
				budget = 60 * time.Second
			}
			deadline := time.Now().Add(budget)
			type diff struct {
				e    kept
				full any
			}
			var mu sync.Mutex
			var diffs []diff
			var wg sync.WaitGroup
			var n atomic.Int64
			for w := 0; w < 8; w++ {
				wg.Add(1)
				go func(w int) {
					defer wg.Done()
					for round := 0; time.Now().Before(deadline); round++ {
						for i := range fast {
							e := fast[(i*7+w*53+round)%len(fast)]
							full := normalise(runOp(e.op))
							n.Add(1)
							if !bytes.Equal(marshal(stripPrivate(full)), e.res) {
								mu.Lock()
								if len(diffs) < 5 {
									diffs = append(diffs, diff{e, full})
								}
								mu.Unlock()
							}
							if !time.Now().Before(deadline) {
								return
							}
						}
					}
				}(w)
			}
			wg.Wait()
			inConcurrent.Store(false)
			rep.ConcurrentEvaluations = int(n.Load())
			for _, d := range diffs {
				var a, b any
				json.Unmarshal(d.e.res, &a)
				json.Unmarshal(marshal(stripPrivate(d.full)), &b)
				rep.Unstable = append(rep.Unstable, J{"op": d.e.op, "first": a, "again": b, "concurrent": true})
				judge(d.e.op, d.full, "result of evaluating the op while 7 other goroutines evaluated other cases of the run; alone it gave a different result")
			}
		}
	}
	finish()
}

// finishRun writes the report files; it is a variable so that the watchdog can end a run that hangs.
func finishRun(rep *report, prop, out *string, opsW, implW *bufio.Writer, opsF, implF *os.File, ntHashes *[]string) {
	rep.Rule = rules[*prop]
	opsW.Flush()
	implW.Flush()
	opsF.Close()
	implF.Close()
	if rep.Violations == nil {
		rep.Violations = []Violation{}
	}
	if rep.Samples == nil {
		rep.Samples = []any{}
	}
	// keep the report bounded
	if len(rep.Violations) > 50 {
		rep.Violations = rep.Violations[:50]
	}
	b, _ := json.MarshalIndent(rep, "", " ")
	os.WriteFile(filepath.Join(*out, "report.json"), b, 0o644)
	os.WriteFile(filepath.Join(*out, "nontrivial_hashes.txt"), []byte(strings.Join(*ntHashes, "\n")), 0o644)
	keys := make([]string, 0, len(rep.Tags))
	for k := range rep.Tags {
		keys = append(keys, k)
	}
	sort.Strings(keys)
	fmt.Printf("harness: prop=%s evaluations=%d distinct=%d nontrivial=%d violations=%d panics=%d\n", *prop, rep.Evaluations, rep.Distinct, rep.DistinctNontrivial, len(rep.Violations), rep.Panics)
}

// findMarker returns the first string stored under key anywhere in a result ("" if none)
func findMarker(v any, key string) string {
	switch t := v.(type) {
	case map[string]any:
		if s, ok := t[key].(string); ok && s != "" {
			return s
		}
		for _, x := range t {
			if s := findMarker(x, key); s != "" {
				return s
			}
		}
	case []any:
		for _, x := range t {
			if s := findMarker(x, key); s != "" {
				return s
			}
		}
	}
	return ""
}

// stripPrivate removes keys starting with "_" or named panic_msg/stack (never compared with the model)
func stripPrivate(v any) any {
	switch t := v.(type) {
	case map[string]any:
		o := make(map[string]any, len(t))
		for k, x := range t {
			if strings.HasPrefix(k, "_") || k == "panic_msg" || k == "stack" {
				continue
			}
			o[k] = stripPrivate(x)
		}
		return o
	case []any:
		o := make([]any, len(t))
		for i, x := range t {
			o[i] = stripPrivate(x)
		}
		return o
	default:
		return v
	}
}

func hexs(b []byte) string { return hex.EncodeToString(b) }

// shrinkPrefix: for ops that carry a history (a list of rounds / calls), find the shortest prefix of that
// list on which the monitors of the property still report the signature sig.  A prefix of a history is a
// history, so the shortened op is as legitimate an input as the original one.  Lists that run parallel to
// the history ("honest" labels of mercury.history) are cut to the same length.
func shrinkPrefix(prop string, op J, sig string) (J, any, bool) {
	key := ""
	for _, k := range []string{"roundsB", "rounds", "calls"} {
		if l := jArr(op[k]); len(l) > 1 {
			key = k
			break
		}
	}
	if key == "" {
		return nil, nil, false
	}
	full := jArr(op[key])
	try := func(n int) (J, any, bool) {
		c := J{}
		for k, v := range op {
			c[k] = v
		}
		c[key] = full[:n]
		if par := jArr(op["honest"]); key == "rounds" && len(par) == len(full) {
			c["honest"] = par[:n]
		}
		res := normalise(runOp(c))
		for _, m := range monitors[prop] {
			vs, _ := m(c, res)
			for _, v := range vs {
				if v.Sig == sig {
					return c, res, true
				}
			}
		}
		return nil, nil, false
	}
	lo, hi := 1, len(full) // invariant: prefix of length hi fails (the original); find the least failing length
	var best J
	var bestRes any
	for lo < hi {
		mid := (lo + hi) / 2
		if c, r, ok := try(mid); ok {
			hi, best, bestRes = mid, c, r
		} else {
			lo = mid + 1
		}
	}
	if best == nil {
		return nil, nil, false
	}
	best["_shrunk"] = fmt.Sprintf("%d of %d entries of %q", hi, len(full), key)
	return best, bestRes, true
}

// stableOp: ops whose result is a function of the op line alone (everything except measurements, real
// handshakes / stress runs, and wall-clock dependent fields, which are private and stripped anyway).
func stableOp(name string) bool {
	for _, p := range []string{"cost.", "mtls.handshake", "mtls.replace_handshake", "mtls.stress", "mtls.race", "mercury.concurrent"} {
		if strings.HasPrefix(name, p) {
			return false
		}
	}
	return true
}

// heldUnchanged: does b still hold the same bytes after noise() has run?  (encoders are called again with
// other inputs while the caller still holds b, as libocr holds outcomes, observations and reports)
func heldUnchanged(b []byte, noise func()) bool {
	c := string(b)
	noise()
	return string(b) == c
}

func clobbered(by string) J { return J{"ok": nil, "_clobbered": true, "_clobbered_by": by} }
