package main

import (
	"bytes"
	"fmt"
	"math/big"
	"strings"

	"github.com/smartcontractkit/chainlink-common/pkg/logger"
	llotypes "github.com/smartcontractkit/chainlink-common/pkg/types/llo"

	"github.com/smartcontractkit/chainlink-data-streams/llo"
	"github.com/smartcontractkit/chainlink-data-streams/llo/reportcodecs/evm"
)

// C12 — ops calling the real EVM report codecs, and an independent reader for the three declared
// layouts (written against the Solidity ABI specification with math/big; it does not use the
// repository's Decode functions nor go-ethereum's Unpack).
//
// op fields
//   report   {"channelID":"n","validAfter":"n","obsTs":"n","specimen":bool,"values":[SV|null,…]}
//            (implementation-only cases may also carry {"t":"nil-dec"|"nil-quote"|"nil-tsv"} and a
//            timestamped value with a null inner value)
//   optsText the JSON text handed to the real codec in ChannelDefinition.Opts
//   opts     the same opts as an already parsed structure (what the model driver and the monitor use)
//   format   report format number (streamlined header), nStreams (verify ops)

func init() {
	RegOp("evm.encode.premium", evmEncodeOp("premium"))
	RegOp("evm.encode.unpacked", evmEncodeOp("unpacked"))
	RegOp("evm.encode.streamlined", evmEncodeOp("streamlined"))
	RegOp("evm.verify.premium", evmVerifyOp("premium"))
	RegOp("evm.verify.unpacked", evmVerifyOp("unpacked"))
	RegOp("evm.verify.streamlined", evmVerifyOp("streamlined"))
	RegOp("evm.fee", func(in J) any {
		in = normalise(in).(map[string]any)
		return resOK(S(evm.CalculateFee(jDec(in["price"]), jDec(in["base"]))))
	})
	RegOp("evm.timestamps", func(in J) any {
		in = normalise(in).(map[string]any)
		vas, ots, err := evm.ExtractTimestamps(evmReport(in["report"]))
		if err != nil {
			return resErr(evmErrClass(err), err)
		}
		return resOK(J{"vas": S(vas), "ots": S(ots)})
	})
}

func evmValue(v any) llo.StreamValue {
	if v == nil {
		return nil
	}
	switch jStr(jget(v, "t")) {
	case "nil-dec":
		return (*llo.Decimal)(nil)
	case "nil-quote":
		return (*llo.Quote)(nil)
	case "nil-tsv":
		return (*llo.TimestampedStreamValue)(nil)
	case "tsv":
		return &llo.TimestampedStreamValue{ObservedAtNanoseconds: jU64(jget(v, "at")), StreamValue: evmValue(jget(v, "v"))}
	}
	return jSV(v)
}

func evmReport(v any) llo.Report {
	r := llo.Report{
		ChannelID:                       jU32(jget(v, "channelID")),
		ValidAfterNanoseconds:           jU64(jget(v, "validAfter")),
		ObservationTimestampNanoseconds: jU64(jget(v, "obsTs")),
		Specimen:                        jBool(jget(v, "specimen")),
	}
	for _, x := range jArr(jget(v, "values")) {
		r.Values = append(r.Values, evmValue(x))
	}
	return r
}

// evmErrClass classifies an error by the first line of its message (errors.Join separates the
// joined errors by newlines, in the order the checks were made).
func evmErrClass(err error) string {
	msg := err.Error()
	if strings.Contains(msg, "failed to decode opts") || strings.Contains(msg, "invalid Opts") {
		return "opts-decode"
	}
	first := strings.SplitN(msg, "\n", 2)[0]
	return errClass(fmt.Errorf("%s", first),
		[2]string{"does not support encoding specimen", "specimen"},
		[2]string{"requires exactly 3 values", "values-count"},
		[2]string{"requires at least 2 values", "values-count"},
		[2]string{"expected *Decimal or *Quote", "bad-price-type"},
		[2]string{"expects third stream value to be of type", "quote-type"},
		[2]string{"expects third stream value to be non-nil", "quote-nil"},
		[2]string{"must be non-zero", "zero-multiplier"},
		[2]string{"validAfterSeconds too large", "va-too-large"},
		[2]string{"observationTimestampSeconds too large", "ts-too-large"},
		[2]string{"does not fit into int192", "int192-range"},
		[2]string{"may not be negative", "fee-negative"},
		[2]string{"does not fit into uint192", "uint192-range"},
		[2]string{"may not be nil", "nil-field"},
		[2]string{"ABI and values length mismatch", "length-mismatch"},
		[2]string{"expected exactly", "encoder-count"},
		[2]string{"expected non-nil *Decimal", "nil-decimal"},
		[2]string{"unhandled type", "unsupported-type"},
		[2]string{"only currently supports", "unsupported-type"},
		[2]string{"invalid Solidity type", "invalid-type"},
		[2]string{"negative value provided", "out-of-range"},
		[2]string{"out of range", "out-of-range"},
		[2]string{"is too large", "too-large"},
		[2]string{"baseUSDFee must be non-negative", "negative-fee"},
		[2]string{"feedID must not be zero", "zero-feed-id"},
		[2]string{"expected at least 3 streams", "streams-count"},
		[2]string{"requires exactly 3 streams", "streams-count"},
		[2]string{"ABI length mismatch", "abi-length"},
	)
}

var (
	evmSharedLegacy      = evm.NewReportCodecPremiumLegacy(logger.Nop(), 1)
	evmSharedUnpacked    = evm.NewReportCodecEVMABIEncodeUnpacked(logger.Nop(), 1)
	evmSharedStreamlined = evm.NewReportCodecStreamlined()
)

func evmEncodeOp(kind string) OpFunc {
	return func(in J) any {
		in = normalise(in).(map[string]any)
		r := evmReport(in["report"])
		cd := llotypes.ChannelDefinition{Opts: []byte(jStr(in["optsText"]))}
		var b []byte
		var err error
		switch kind {
		case "premium":
			cd.ReportFormat = llotypes.ReportFormatEVMPremiumLegacy
			b, err = evm.NewReportCodecPremiumLegacy(logger.Nop(), 1).Encode(r, cd)
		case "unpacked":
			cd.ReportFormat = llotypes.ReportFormatEVMABIEncodeUnpacked
			b, err = evm.NewReportCodecEVMABIEncodeUnpacked(logger.Nop(), 1).Encode(r, cd)
		case "streamlined":
			cd.ReportFormat = llotypes.ReportFormat(jU32(in["format"]))
			b, err = evm.NewReportCodecStreamlined().Encode(r, cd)
		}
		// a node keeps ONE codec of each kind for its whole life: the same call on the long-lived codec must give
		// what a fresh one gives, whatever was encoded before (channel ids recur with other definitions)
		var bs []byte
		var errs error
		switch kind {
		case "premium":
			bs, errs = evmSharedLegacy.Encode(r, cd)
		case "unpacked":
			bs, errs = evmSharedUnpacked.Encode(r, cd)
		case "streamlined":
			bs, errs = evmSharedStreamlined.Encode(r, cd)
		}
		if (err == nil) != (errs == nil) || !bytes.Equal(b, bs) {
			return J{"ok": nil, "_clobbered": true, "_clobbered_by": "report codec Encode (" + kind + "): a codec that has encoded other reports before answers differently from a fresh one"}
		}
		if err != nil {
			return resErr(evmErrClass(err), err)
		}
		if !heldUnchanged(b, func() {
			// the next channel's report of the same round
			r2 := r
			r2.ChannelID++
			r2.ObservationTimestampNanoseconds += 1_000_000_000
			switch kind {
			case "premium":
				evm.NewReportCodecPremiumLegacy(logger.Nop(), 1).Encode(r2, cd)
			case "unpacked":
				evm.NewReportCodecEVMABIEncodeUnpacked(logger.Nop(), 1).Encode(r2, cd)
			case "streamlined":
				evm.NewReportCodecStreamlined().Encode(r2, cd)
			}
		}) {
			return clobbered("report codec Encode (" + kind + ")")
		}
		return resOK(J{"b": hexs(b), "d": evmRead(kind, in, b)})
	}
}

func evmVerifyOp(kind string) OpFunc {
	return func(in J) any {
		in = normalise(in).(map[string]any)
		cd := llotypes.ChannelDefinition{Opts: []byte(jStr(in["optsText"]))}
		n := jInt(in["nStreams"])
		for i := 0; i < n; i++ {
			cd.Streams = append(cd.Streams, llotypes.Stream{StreamID: uint32(i + 1), Aggregator: llotypes.AggregatorMedian})
		}
		var err error
		switch kind {
		case "premium":
			err = evm.NewReportCodecPremiumLegacy(logger.Nop(), 1).Verify(cd)
		case "unpacked":
			err = evm.NewReportCodecEVMABIEncodeUnpacked(logger.Nop(), 1).Verify(cd)
		case "streamlined":
			err = evm.NewReportCodecStreamlined().Verify(cd)
		}
		if err != nil {
			return resErr(evmErrClass(err), err)
		}
		return resOK(true)
	}
}

// ---------------------------------------------------------------- independent layout readers

var (
	c12BigOne = big.NewInt(1)
	c12Two256 = new(big.Int).Lsh(c12BigOne, 256)
)

func c12Pow2(k int) *big.Int { return new(big.Int).Lsh(c12BigOne, uint(k)) }

// c12ParseSolType recognises uintN / intN for N in 8,16,…,256.
func c12ParseSolType(t string) (signed bool, bits int, ok bool) {
	for b := 8; b <= 256; b += 8 {
		if t == fmt.Sprintf("uint%d", b) {
			return false, b, true
		}
		if t == fmt.Sprintf("int%d", b) {
			return true, b, true
		}
	}
	return false, 0, false
}

// c12RdUint reads an unsigned integer of the given width from a 32-byte word; nil if the word holds
// a larger number (improperly encoded).
func c12RdUint(w []byte, bits int) *big.Int {
	v := new(big.Int).SetBytes(w)
	if v.Cmp(c12Pow2(bits)) >= 0 {
		return nil
	}
	return v
}

// c12RdInt reads a two's complement integer (over totalBits) and checks it lies in intN.
func c12RdInt(w []byte, totalBits, bits int) *big.Int {
	v := new(big.Int).SetBytes(w)
	if v.Bit(totalBits-1) == 1 {
		v.Sub(v, c12Pow2(totalBits))
	}
	lo := new(big.Int).Neg(c12Pow2(bits - 1))
	hi := new(big.Int).Sub(c12Pow2(bits-1), c12BigOne)
	if v.Cmp(lo) < 0 || v.Cmp(hi) > 0 {
		return nil
	}
	return v
}

func c12RdTyped(w []byte, signed bool, bits int) *big.Int {
	if signed {
		return c12RdInt(w, 256, bits)
	}
	return c12RdUint(w, bits)
}

// evmRead decodes b under the layout declared by the op's (parsed) opts. nil = does not decode.
func evmRead(kind string, op J, b []byte) any {
	opts := jObj(op["opts"])
	word := func(i int) []byte { return b[32*i : 32*i+32] }
	hdr := func() J {
		vf, ts, nf, lf, ex := c12RdUint(word(1), 32), c12RdUint(word(2), 32), c12RdUint(word(3), 192), c12RdUint(word(4), 192), c12RdUint(word(5), 32)
		if vf == nil || ts == nil || nf == nil || lf == nil || ex == nil {
			return nil
		}
		return J{"feedID": hexs(word(0)), "validFrom": S(vf), "timestamp": S(ts), "nativeFee": S(nf), "linkFee": S(lf), "expiresAt": S(ex)}
	}
	switch kind {
	case "premium":
		if len(b) != 9*32 {
			return nil
		}
		d := hdr()
		bm, bid, ask := c12RdInt(word(6), 256, 192), c12RdInt(word(7), 256, 192), c12RdInt(word(8), 256, 192)
		if d == nil || bm == nil || bid == nil || ask == nil {
			return nil
		}
		d["benchmark"], d["bid"], d["ask"] = S(bm), S(bid), S(ask)
		return d
	case "unpacked":
		if len(b) < 6*32 || len(b)%32 != 0 {
			return nil
		}
		d := hdr()
		if d == nil {
			return nil
		}
		pos := 6
		values := []any{}
		for _, el := range jArr(opts["abi"]) {
			vs := []any{}
			for _, e := range jArr(el) {
				signed, bits, ok := c12ParseSolType(jStr(jget(e, "type")))
				if !ok || 32*pos+32 > len(b) {
					return nil
				}
				v := c12RdTyped(word(pos), signed, bits)
				if v == nil {
					return nil
				}
				vs = append(vs, S(v))
				pos++
			}
			values = append(values, vs)
		}
		if 32*pos != len(b) {
			return nil
		}
		d["values"] = values
		return d
	case "streamlined":
		d := J{"feedID": nil, "format": nil, "channelID": nil}
		pos := 0
		take := func(n int) []byte {
			if pos+n > len(b) {
				return nil
			}
			x := b[pos : pos+n]
			pos += n
			return x
		}
		if opts["feedID"] != nil {
			f := take(32)
			if f == nil {
				return nil
			}
			d["feedID"] = hexs(f)
		} else {
			f, c := take(4), take(4)
			if f == nil || c == nil {
				return nil
			}
			d["format"], d["channelID"] = S(new(big.Int).SetBytes(f)), S(new(big.Int).SetBytes(c))
		}
		va := take(8)
		if va == nil {
			return nil
		}
		d["validAfter"] = S(new(big.Int).SetBytes(va))
		values := []any{}
		for _, el := range jArr(opts["abi"]) {
			vs := []any{}
			for _, e := range jArr(el) {
				t := jStr(jget(e, "type"))
				if t == "bytes0" {
					vs = append(vs, nil)
					continue
				}
				signed, bits, ok := c12ParseSolType(t)
				if !ok {
					return nil
				}
				w := take(bits / 8)
				if w == nil {
					return nil
				}
				var v *big.Int
				if signed {
					v = c12RdInt(w, bits, bits)
				} else {
					v = new(big.Int).SetBytes(w)
				}
				vs = append(vs, S(v))
			}
			values = append(values, vs)
		}
		if pos != len(b) {
			return nil
		}
		d["values"] = values
		return d
	}
	return nil
}
