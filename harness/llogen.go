package main

import (
	"bytes"
	"io"

	"github.com/shopspring/decimal"

	"github.com/smartcontractkit/chainlink-data-streams/llo"
)

func bytesReader(b []byte) io.Reader { return bytes.NewReader(b) }

// ---------- scenario generator shared by the LLO properties ----------

type world struct {
	g        *G
	f        int
	version  uint32
	interval uint64
	hasPred  bool
	now      uint64 // current base time in ns
	price    int64
	discrete bool // correct observers report one of two values per stream (so that a mode aggregate exists)
	verbose  bool // Config.VerboseLogging (must not change any result)
	alias    int  // when non-zero: every stream s also exists as the different stream s+alias (same low bits)
	pred2    bool // the instance's predecessor is the second of two predecessors known to this process
	zeroSid  int  // 0: stream id 0 is never observed; 1..3: it is, as a quote / decimal / timestamped stream
	exact    bool // correct observers report exactly the base time and the clock moves by exactly one report interval (or a nanosecond off)
}

var formatsPool = []uint32{1, 2, 4, 42}

func (w *world) cfgJ() J {
	return J{"f": w.f, "version": S(w.version), "minInterval": S(w.interval), "hasPred": w.hasPred, "verbose": w.verbose, "pred2": w.pred2 && w.hasPred}
}

func newWorld(g *G) *world {
	w := &world{g: g, f: 1 + g.R.Intn(3), version: uint32(g.R.Intn(2)), hasPred: g.R.Intn(3) == 0}
	if w.version == 1 {
		switch g.R.Intn(5) {
		case 0:
			w.interval = 1
		case 1:
			w.interval = 1_000_000_000
		case 2:
			w.interval = 2_500_000_000
		case 3:
			w.interval = ^uint64(0) - uint64(g.R.Intn(2)) // huge: exercises the overflow-free comparison
		default:
			w.interval = uint64(1 + g.R.Intn(3_000_000_000))
		}
	}
	w.now = 1_700_000_000_000_000_000 + uint64(g.R.Intn(2_000_000_000))
	if g.R.Intn(8) == 0 {
		w.now = uint64(g.R.Intn(5_000_000_000)) // near zero
	}
	w.price = int64(1000 + g.R.Intn(1000))
	if g.R.Intn(8) == 0 {
		w.alias = []int{1 << 8, 1 << 16, 1 << 24, 1 << 31}[g.R.Intn(4)]
	}
	w.verbose = g.R.Intn(4) == 0
	w.discrete = g.R.Intn(3) == 0
	w.pred2 = g.R.Intn(3) == 0
	if g.R.Intn(3) == 0 {
		w.zeroSid = 1 + g.R.Intn(3)
	}
	return w
}

func (w *world) rndChanDef() J {
	g := w.g
	n := 1 + g.R.Intn(3)
	st := make([]any, n)
	for i := range st {
		sid := 1 + g.R.Intn(5)
		if g.R.Intn(25) == 0 || (w.zeroSid > 0 && g.R.Intn(4) == 0) {
			sid = 0 // the zero id is an ordinary id
		}
		if g.R.Intn(12) == 0 {
			// ids that coincide with a small id once truncated or packed into fewer bits are different ids
			sid += []int{1 << 8, 1 << 16, 1 << 24, 1 << 31}[g.R.Intn(4)]
		}
		agg := uint32(1 + g.R.Intn(3))
		if g.R.Intn(40) == 0 {
			// an aggregator value nobody implements passes validation (only 0 is refused): the round must fail cleanly
			agg = []uint32{4, 5, 99, ^uint32(0)}[g.R.Intn(4)]
		}
		st[i] = J{"sid": S(sid), "agg": S(agg)}
	}
	if w.alias != 0 && g.R.Intn(2) == 0 {
		// the twin of the first stream: a different stream whose id has the same low bits, same aggregator
		first := st[0].(J)
		st = append(st, J{"sid": S(jInt(first["sid"])%256 + w.alias), "agg": first["agg"]})
	}
	opts := ""
	if g.R.Intn(2) == 0 {
		opts = hexs([]byte{byte(g.R.Intn(4))})
	}
	if g.R.Intn(15) == 0 {
		// long opts (an ABI schema is easily a few kilobytes): nothing may shorten or re-encode them on the way
		// through observations, outcomes and their codecs; sizes around the powers of two a cap would use
		b := make([]byte, []int{255, 256, 257, 1023, 1024, 1025, 1500, 4096, 4097}[g.R.Intn(9)])
		g.R.Read(b)
		opts = hexs(b)
	}
	return J{"format": S(formatsPool[g.R.Intn(len(formatsPool))]), "streams": st, "opts": opts}
}

func (w *world) rndChannelID() int {
	if w.g.R.Intn(20) == 0 {
		return 1000 + w.g.R.Intn(3)
	}
	if w.g.R.Intn(30) == 0 {
		return 0 // the zero id is an ordinary id
	}
	return 1 + w.g.R.Intn(6)
}

// advance moves the clock: forward by sub-second / multi-second steps, sometimes not at all or backwards
func (w *world) advance() {
	g := w.g
	if w.exact {
		step := w.interval
		if w.version == 0 || step == 0 || step > 1<<40 {
			step = 1_000_000_000
		}
		switch g.R.Intn(6) {
		case 0:
			w.now += step - 1
		case 1:
			w.now += step + 1
		case 2:
			w.now += 2 * step
		default:
			w.now += step
		}
		return
	}
	switch g.R.Intn(10) {
	case 0: // stall
	case 1: // backwards
		d := uint64(g.R.Intn(3_000_000_000))
		if d < w.now {
			w.now -= d
		}
	case 2, 3: // sub-second
		w.now += uint64(g.R.Intn(999_999_999))
	case 4: // exactly to the next second boundary, or a few nanoseconds below it
		w.now = (w.now/1_000_000_000 + 1) * 1_000_000_000
		if g.R.Intn(2) == 0 {
			w.now -= uint64(1 + g.R.Intn(200))
		}
	default:
		w.now += uint64(g.R.Intn(4_000_000_000))
	}
}

func (w *world) honestValue(sid int) any {
	g := w.g
	jitter := int64(g.R.Intn(7)) - 3
	if w.discrete {
		jitter = int64(g.R.Intn(4) / 3) // mostly identical values: the mode aggregator finds f+1 of them
	}
	p := decimal.New(w.price+int64(sid)*10+jitter, -2)
	kind := sid % 3
	if sid == 0 && w.zeroSid > 0 {
		kind = w.zeroSid - 1 // the zero id is an ordinary stream of any type
	}
	switch kind {
	case 0:
		if w.discrete {
			// three quote shapes around one price: the common one, and two whose bid / ask medians differ from it
			base := decimal.New(w.price+int64(sid)*10, -2)
			switch g.R.Intn(5) {
			case 3:
				return svJ(&llo.Quote{Bid: base.Sub(decimal.New(3, 0)), Benchmark: base.Sub(decimal.New(1, 0)), Ask: base.Add(decimal.New(3, 0))})
			case 4:
				return svJ(&llo.Quote{Bid: base, Benchmark: base.Add(decimal.New(1, 0)), Ask: base.Add(decimal.New(2, 0))})
			}
			return svJ(&llo.Quote{Bid: base.Sub(decimal.New(2, 0)), Benchmark: base, Ask: base.Add(decimal.New(2, 0))})
		}
		return svJ(&llo.Quote{Bid: p.Sub(decimal.New(1, 0)), Benchmark: p, Ask: p.Add(decimal.New(1, 0))})
	case 1:
		return svJ(llo.ToDecimal(p))
	default:
		return svJ(&llo.TimestampedStreamValue{ObservedAtNanoseconds: w.now - uint64(g.R.Intn(1000)) + uint64(g.R.Intn(1000)), StreamValue: llo.ToDecimal(p)})
	}
}

func (w *world) faultyValue() any {
	g := w.g
	switch g.R.Intn(6) {
	case 0:
		return svJ(llo.ToDecimal(decimal.New(int64(g.R.Intn(1_000_000))-500_000, int32(g.R.Intn(9)-4))))
	case 1:
		return svJ(rndQuote(g, false))
	case 2:
		return svJ(&llo.TimestampedStreamValue{ObservedAtNanoseconds: rndTs(g), StreamValue: llo.ToDecimal(rndDec(g))})
	case 3:
		return svJ(&llo.TimestampedStreamValue{ObservedAtNanoseconds: ^uint64(0), StreamValue: llo.ToDecimal(rndDec(g))})
	default:
		return svJ(rndSV(g, g.R.Intn(3)))
	}
}

// votePlan is what this round's observers vote for, with how many observers support each item
type votePlan struct {
	removes  []updVote // channel id -> number of voters (def unused)
	updates  []updVote
	retire   int
	attValid int // number of observers carrying the valid attestation token
	attBad   int // number carrying an invalid one
}
type updVote struct {
	id     int
	def    J
	voters int
}

var validToken = []byte{0xA7, 0x7E, 0x57}

// validToken2: the attestation of the OTHER predecessor (worlds with pred2): there validToken is what a faulty
// observer replays — genuine, verified elsewhere in this process, but not for this instance's predecessor
var validToken2 = []byte{0xA7, 0x7E, 0x58}

func (w *world) tok() []byte {
	if w.pred2 {
		return validToken2
	}
	return validToken
}

func (w *world) nearF(n int) int {
	g := w.g
	switch g.R.Intn(6) {
	case 0:
		return w.f
	case 1, 2:
		return w.f + 1
	case 3:
		return n
	default:
		return g.R.Intn(n + 1)
	}
}

func (w *world) rndPlan(n int) votePlan {
	g := w.g
	p := votePlan{}
	for k := g.R.Intn(3); k > 0; k-- {
		id := w.rndChannelID()
		dup := false
		for _, r := range p.removes {
			dup = dup || r.id == id
		}
		if !dup {
			p.removes = append(p.removes, updVote{id: id, voters: w.nearF(n)})
		}
	}
	for k := g.R.Intn(4); k > 0; k-- {
		id := w.rndChannelID()
		p.updates = append(p.updates, updVote{id, w.rndChanDef(), w.nearF(n)})
		if g.R.Intn(4) == 0 { // a competing definition for the same id
			p.updates = append(p.updates, updVote{id, w.rndChanDef(), w.nearF(n)})
		}
		if g.R.Intn(5) == 0 {
			// … or a near-duplicate of the first: different only in edge white space of the opts, in the case of a
			// letter, in an aggregator / stream id that has the same low bits.  Each gets at most f votes, together
			// more than f: they are different definitions and their votes must not be pooled.
			first := p.updates[len(p.updates)-1]
			cp := normalise(first.def).(map[string]any)
			switch g.R.Intn(4) {
			case 0:
				cp["opts"] = jStr(cp["opts"]) + "20"
			case 1:
				cp["opts"] = "0a" + jStr(cp["opts"])
			case 2:
				if sts := jArr(cp["streams"]); len(sts) > 0 {
					st := jObj(sts[0])
					st["agg"] = S(jInt(st["agg"]) + 256)
				}
			default:
				if sts := jArr(cp["streams"]); len(sts) > 0 {
					st := jObj(sts[0])
					st["sid"] = S(jInt(st["sid"]) + 1<<24)
				}
			}
			a := 1 + g.R.Intn(w.f)
			first.voters = a
			p.updates[len(p.updates)-1] = first
			p.updates = append(p.updates, updVote{id, cp, w.f + 1 - a})
		}
		if g.R.Intn(6) == 0 { // … or one that differs only in the order of its streams (order is significant)
			base := J{"format": "2", "streams": []any{J{"sid": "1", "agg": "1"}, J{"sid": "2", "agg": "1"}, J{"sid": "3", "agg": "3"}}, "opts": ""}
			perm := J{"format": "2", "streams": []any{J{"sid": "2", "agg": "1"}, J{"sid": "1", "agg": "1"}, J{"sid": "3", "agg": "3"}}, "opts": ""}
			p.updates = append(p.updates, updVote{id + 20, base, w.nearF(n)}, updVote{id + 20, perm, w.nearF(n)})
		}
	}
	if g.R.Intn(12) == 0 {
		p.retire = w.nearF(n)
	}
	if w.hasPred && g.R.Intn(6) == 0 {
		p.attValid = 1 + g.R.Intn(2)
	}
	if w.hasPred && g.R.Intn(8) == 0 {
		p.attBad = 1 + g.R.Intn(2)
	}
	return p
}

// round builds the observation list of one round.  Returns the obs array and the indices of the
// honest observers.  Honest observers: timestamp within ±50ms of now, values near the price.
func (w *world) round(p votePlan, streams []int) (obs []any, honest []any) {
	g := w.g
	if w.zeroSid > 0 {
		streams = append([]int{0}, streams...)
	}
	n := 2*w.f + 1 + g.R.Intn(w.f+1)
	nf := g.R.Intn(w.f + 1)
	perm := g.R.Perm(n)
	faulty := map[int]bool{}
	for _, i := range perm[:nf] {
		faulty[i] = true
	}
	voters := func(k int) map[int]bool {
		m := map[int]bool{}
		for _, i := range g.R.Perm(n) {
			if len(m) >= k {
				break
			}
			m[i] = true
		}
		return m
	}
	rmV := make([]map[int]bool, len(p.removes))
	for k, r := range p.removes {
		rmV[k] = voters(r.voters)
	}
	updV := make([]map[int]bool, len(p.updates))
	for i, u := range p.updates {
		updV[i] = voters(u.voters)
	}
	retV := voters(p.retire)
	attV := voters(p.attValid)
	attB := voters(p.attBad)
	for i := 0; i < n; i++ {
		if g.R.Intn(25) == 0 { // undecodable observation
			obs = append(obs, J{"invalid": true, "raw": "ff" + hexs([]byte{byte(g.R.Intn(256))})})
			continue
		}
		o := J{"retire": retV[i], "removes": []any{}, "updates": []any{}, "values": []any{}, "attested": ""}
		ts := w.now + uint64(g.R.Intn(100_000_000))
		if ts >= 50_000_000 {
			ts -= 50_000_000
		}
		if w.exact {
			ts = w.now
		}
		if faulty[i] {
			switch g.R.Intn(6) {
			case 0:
				ts = 0
			case 1:
				ts = ^uint64(0) >> uint(g.R.Intn(2))
			case 2:
				ts = w.now + uint64(g.R.Intn(10_000_000_000))
			case 3:
				// half the uint64 range away from the honest timestamps (wrap-around comparators)
				ts = w.now + 1<<63 + uint64(g.R.Intn(200_000_000)) - 100_000_000
			}
		} else {
			honest = append(honest, i)
		}
		o["ts"] = S(ts)
		if attV[i] {
			o["attested"] = hexs(w.tok())
		} else if attB[i] {
			o["attested"] = hexs([]byte{0xBA, 0xD0, byte(g.R.Intn(4))})
			if w.pred2 && g.R.Intn(2) == 0 {
				o["attested"] = hexs(validToken) // the other predecessor's genuine attestation, replayed
			}
		}
		rm := []any{}
		seenRm := map[int]bool{}
		for k, r := range p.removes {
			// removal ids of one observation are the keys of a Go map: distinct
			if rmV[k][i] && len(rm) < 5 && !seenRm[r.id] {
				seenRm[r.id] = true
				rm = append(rm, S(r.id))
			}
		}
		o["removes"] = rm
		upd := []any{}
		seen := map[int]bool{}
		for k, u := range p.updates {
			if updV[k][i] && !seen[u.id] && len(upd) < 5 {
				seen[u.id] = true
				upd = append(upd, J{"id": S(u.id), "def": u.def})
			}
		}
		o["updates"] = upd
		vals := []any{}
		all := streams
		if w.alias != 0 {
			all = append([]int{}, streams...)
			for _, sid := range streams {
				all = append(all, sid%256+w.alias)
			}
		}
		for _, sid := range all {
			if g.R.Intn(10) == 0 {
				continue // missing value
			}
			if faulty[i] {
				vals = append(vals, J{"sid": S(sid), "v": w.faultyValue()})
			} else {
				vals = append(vals, J{"sid": S(sid), "v": w.honestValue(sid)})
			}
		}
		o["values"] = vals
		obs = append(obs, o)
	}
	return
}

// rndOutcome builds a hand-made previous outcome
func (w *world) rndOutcome() J {
	g := w.g
	stages := []string{"production", "production", "staging", "retired"}
	if g.R.Intn(30) == 0 {
		stages = append(stages, "weird")
	}
	stage := stages[g.R.Intn(len(stages))]
	if !w.hasPred && stage == "staging" {
		stage = "production"
	}
	defs := []any{}
	va := []any{}
	aggs := []any{}
	seen := map[int]bool{}
	for k := g.R.Intn(5); k > 0; k-- {
		id := w.rndChannelID()
		if seen[id] {
			continue
		}
		seen[id] = true
		defs = append(defs, J{"id": S(id), "def": w.rndChanDef()})
		if g.R.Intn(6) != 0 {
			back := uint64(g.R.Intn(5_000_000_000))
			v := w.now
			if back < v {
				v -= back
			}
			if w.version == 0 {
				v = v / 1_000_000_000 * 1_000_000_000
			}
			va = append(va, J{"id": S(id), "va": S(v)})
		}
	}
	if g.R.Intn(3) == 0 { // validAfter entry without a definition (kept across promotion)
		id := 50 + g.R.Intn(3)
		va = append(va, J{"id": S(id), "va": S(w.now / 1_000_000_000 * 1_000_000_000)})
	}
	seenA := map[[2]int]bool{}
	for k := g.R.Intn(4); k > 0; k-- {
		sid, agg := 1+g.R.Intn(5), 1+g.R.Intn(3)
		if seenA[[2]int{sid, agg}] {
			continue
		}
		seenA[[2]int{sid, agg}] = true
		var v any
		if g.R.Intn(2) == 0 {
			at := w.now - uint64(g.R.Intn(1000))
			switch g.R.Intn(6) {
			case 0:
				at = ^uint64(0) - uint64(g.R.Intn(20))
			case 1:
				at = 1<<63 + uint64(g.R.Intn(2000))
			case 2:
				at = uint64(g.R.Intn(10))
			}
			v = svJ(&llo.TimestampedStreamValue{ObservedAtNanoseconds: at, StreamValue: llo.ToDecimal(decimal.New(w.price, -2))})
		} else {
			v = svJ(llo.ToDecimal(decimal.New(w.price, -2)))
		}
		aggs = append(aggs, J{"sid": S(sid), "agg": S(agg), "v": v})
	}
	ts := w.now
	if w.version == 0 && ts > 1<<63-1 {
		ts = 1<<63 - 1
	}
	return J{"stage": stage, "ts": S(ts), "defs": defs, "va": va, "aggs": aggs}
}

func (w *world) attestations() []any {
	if !w.hasPred {
		return []any{}
	}
	g := w.g
	va := []any{}
	for id := 1; id <= 4; id++ {
		if g.R.Intn(2) == 0 {
			v := w.now - uint64(g.R.Intn(3_000_000_000))
			va = append(va, J{"id": S(id), "va": S(v)})
		}
	}
	if g.R.Intn(2) == 0 {
		va = append(va, J{"id": S(77), "va": S(w.now - 1)})
	}
	if g.R.Intn(5) == 0 {
		va = []any{} // the predecessor never had a channel: nil map in the decoded retirement report
	}
	return []any{J{"bytes": hexs(w.tok()), "rr": J{"version": S(w.version), "va": va}}}
}

// genOutcomeCases: single-round llo.outcome ops with hand-built previous outcomes
func genOutcomeCases(g *G, n int, tag string) {
	for i := 0; i < n; i++ {
		w := newWorld(g)
		prev := w.rndOutcome()
		w.advance()
		nobs := 2*w.f + 1
		plan := w.rndPlan(nobs)
		obs, honest := w.round(plan, []int{1, 2, 3, 4, 5})
		seq := 2 + g.R.Intn(50)
		if g.R.Intn(40) == 0 {
			seq = g.R.Intn(2)
		}
		if g.R.Intn(40) == 0 && len(obs) > 0 { // too few observations
			obs = obs[:g.R.Intn(len(obs))]
			honest = nil
		}
		g.Emit(J{"op": "llo.outcome", "cfg": w.cfgJ(), "seqNr": seq, "prev": prev, "obs": obs, "attestations": w.attestations(), "honest": honest, "telemetry": g.R.Intn(3) == 0}, tag, "f="+S(w.f), "version="+S(w.version))
	}
}

// genHistoryCases: multi-round histories starting from the initial outcome
func genHistoryCases(g *G, n int, maxRounds int, tag string) {
	for i := 0; i < n; i++ {
		w := newWorld(g)
		if g.R.Intn(25) == 0 { // a configuration the factory must not accept
			switch g.R.Intn(3) {
			case 0:
				w.version, w.interval = 1, 0
			case 1:
				w.version, w.interval = 0, uint64(1+g.R.Intn(5))
			default:
				w.version = uint32(2 + g.R.Intn(5))
			}
		}
		rounds := []any{}
		nr := 2 + g.R.Intn(maxRounds-1)
		for r := 0; r < nr; r++ {
			w.advance()
			plan := w.rndPlan(2*w.f + 1)
			if r == 0 || g.R.Intn(3) == 0 { // make sure channels get defined early, unanimously
				plan.updates = append(plan.updates, updVote{w.rndChannelID(), w.rndChanDef(), 3*w.f + 1})
			}
			obs, honest := w.round(plan, []int{1, 2, 3, 4, 5})
			rounds = append(rounds, J{"obs": obs, "honest": honest})
		}
		// every second history runs with report codecs that refuse a report lacking a value, like the real ones
		g.Emit(J{"op": "llo.history", "cfg": w.cfgJ(), "startSeqNr": 1, "rounds": rounds, "attestations": w.attestations(), "telemetry": g.R.Intn(3) == 0, "strictCodec": i%2 == 1}, tag, "f="+S(w.f), "version="+S(w.version), "rounds="+S(nr))
	}
}

func init() {
	rule := "single-round llo.outcome ops on hand-built previous outcomes and multi-round llo.history ops from the initial outcome (f 1..3, both protocol versions, with/without predecessor, vote counts around f/f+1, competing definitions, removals, retire votes, valid/forged attestations, faulty timestamps and values, undecodable observations); distinct = different op line; "
	nt := map[string]string{
		"C01": "non-trivial = the evaluation returned bytes that were compared across 7 evaluations",
		"C03": "non-trivial = history with at least one pair of consecutive reports of one channel",
		"C05": "non-trivial = at least one transition checked",
		"C06": "non-trivial = at least one vote or attestation present",
		"C18": "non-trivial = at least one timestamped aggregate compared across two rounds",
	}
	mix := map[string][4]int{ // outcome quick/thorough, history quick/thorough
		"C01": {300, 4000, 100, 1500}, "C03": {0, 0, 400, 6000}, "C05": {300, 4000, 200, 3000},
		"C06": {400, 6000, 150, 2500}, "C18": {200, 3000, 250, 4000},
	}
	for _, p := range []string{"C01", "C03", "C05", "C06", "C18"} {
		p := p
		RegGen(p, rule+nt[p], func(g *G) {
			m := mix[p]
			if m[0] > 0 {
				genOutcomeCases(g, g.N(m[0], m[1]), "outcome")
			}
			genHistoryCases(g, g.N(m[2], m[3]), g.N(10, 16), "history")
			if p == "C01" || p == "C06" {
				// the channel hash identifies a vote: compare MakeChannelHash with the model (SHA-256 over the
				// documented serialisation), incl. definitions that differ only in stream order / opts / format
				w := newWorld(g)
				for i := 0; i < g.N(60, 600); i++ {
					d := w.rndChanDef()
					id := w.rndChannelID()
					g.Emit(J{"op": "llo.hash", "id": id, "def": d}, "hash")
					st := jArr(normalise(d).(map[string]any)["streams"])
					if len(st) >= 2 {
						rev := make([]any, len(st))
						for k := range st {
							rev[k] = st[len(st)-1-k]
						}
						g.Emit(J{"op": "llo.hash", "id": id, "def": J{"format": d["format"], "streams": rev, "opts": d["opts"]}}, "hash")
					}
				}
			}
		})
	}
}
