package main

// Generators for the Mercury report ops (mercury.vN.report, mercury.history): scenarios with a
// labelled honest / faulty split, boundary arithmetic and malformed observations.

import (
	"fmt"
	"math/big"

)

const mercMaxU32 = ^uint32(0)
const mercMaxI64 = int64(^uint64(0) >> 1)

type mercScn struct {
	v, f, n, b int
	min, max   *big.Int
	window     *big.Int
	T          uint32   // honest observation time
	P          *big.Int // honest mid price
	spread     int64
	mft        int64 // honest max finalized timestamp (v2–v4) / block number (v1)
	ms         uint32
	fee        *big.Int
	top        int64 // v1: height of the honest chain
	codec      J
	prev       any
	noLabel    bool
	outage     int // this many correct observers have no valid max-finalized value this round (failed lookup)
	split      bool // the correct observers all report different max-finalized values this round (no f+1 agreement)
	// twoCamps: exactly f+1 correct observers report the current max-finalized value — one of them has no usable
	// prices this round, and under v1 their chain head IS that block (nothing mined since) — while all other correct
	// observers sit behind a lagging server and agree on an older value; every one of the f+1 votes is needed
	twoCamps bool
	cfgN     int // configured committee size when larger than 3f+1
}

// indepEncInt192 / indepDecInt192: the wire form of an int192 (24 bytes, big-endian two's complement), written
// out here so that neither the generators nor the monitors depend on the repository's own encoder / decoder
func indepEncInt192(v *big.Int) ([]byte, bool) {
	if v.Cmp(mercBigMinInt192) < 0 || v.Cmp(mercBigMaxInt192) > 0 {
		return nil, false
	}
	m := new(big.Int).Set(v)
	if m.Sign() < 0 {
		m.Add(m, new(big.Int).Lsh(big.NewInt(1), 192))
	}
	return m.FillBytes(make([]byte, 24)), true
}

func indepDecInt192(b []byte) (*big.Int, bool) {
	if len(b) != 24 {
		return nil, false
	}
	v := new(big.Int).SetBytes(b)
	if b[0]&0x80 != 0 {
		v.Sub(v, new(big.Int).Lsh(big.NewInt(1), 192))
	}
	return v, true
}

func mercI192(v *big.Int) string {
	b, ok := indepEncInt192(v)
	if !ok {
		// not representable: a faulty node can only send some 24 bytes; send a wrong length instead
		return hexs(make([]byte, 25))
	}
	return hexs(b)
}

func mercBig(s string) *big.Int {
	b, ok := new(big.Int).SetString(s, 10)
	if !ok {
		panic(s)
	}
	return b
}

var mercRanges = [][2]string{
	{"1", "1000000000000000000000000000000"},
	{"0", "3138550867693340381917894711603833208051177722232017256447"},
	{"-3138550867693340381917894711603833208051177722232017256448", "3138550867693340381917894711603833208051177722232017256447"},
	{"-1000", "1000"},
	{"5000", "5000"},
	{"-20", "-10"},
	{"-1000", "-10"},
	{"100", "200"},
}

func mercRandScn(g *G, v int) *mercScn {
	s := &mercScn{v: v}
	s.f = 1 + g.R.Intn(3)
	s.b = g.R.Intn(s.f + 1)
	s.n = 2*s.f + 1 + g.R.Intn(s.f+1)
	r := mercRanges[g.R.Intn(len(mercRanges))]
	s.min, s.max = mercBig(r[0]), mercBig(r[1])
	// honest price: mostly inside the range, sometimes on / just outside the bounds
	span := new(big.Int).Sub(s.max, s.min)
	switch g.R.Intn(10) {
	case 0:
		s.P = new(big.Int).Set(s.min)
	case 1:
		s.P = new(big.Int).Set(s.max)
	case 2:
		s.P = new(big.Int).Sub(s.min, big.NewInt(int64(1+g.R.Intn(3))))
	case 3:
		s.P = new(big.Int).Add(s.max, big.NewInt(int64(1+g.R.Intn(3))))
	default:
		s.P = new(big.Int).Add(s.min, new(big.Int).Rand(g.R, new(big.Int).Add(span, big.NewInt(1))))
	}
	if g.R.Intn(6) == 0 {
		s.min, s.max = new(big.Int).Set(mercBigMinInt192), new(big.Int).Set(mercBigMaxInt192)
		// prices at the edges of the machine words (a decoder or comparator that takes a short cut through int64 /
		// uint64 / int128 is wrong exactly there); the correct observers' jitter straddles the edge
		k := []uint{31, 32, 63, 63, 64, 64, 127, 128}[g.R.Intn(8)]
		s.P = new(big.Int).Lsh(big.NewInt(1), k)
		s.P.Add(s.P, big.NewInt(int64(g.R.Intn(7)-3)))
		if g.R.Intn(3) != 0 {
			s.P.Neg(s.P)
		}
		if g.R.Intn(2) == 0 {
			// somewhere inside the window between two word sizes, e.g. [-2^64, -2^63)
			off := new(big.Int).Rand(g.R, new(big.Int).Lsh(big.NewInt(1), k))
			if s.P.Sign() < 0 {
				s.P.Sub(s.P, off)
			} else {
				s.P.Add(s.P, off)
			}
		}
	}
	s.spread = int64(g.R.Intn(4))
	switch g.R.Intn(8) {
	case 0:
		s.T = mercMaxU32 - uint32(g.R.Intn(4))
	case 1:
		s.T = uint32(g.R.Intn(4))
	default:
		s.T = 1_600_000_000 + uint32(g.R.Intn(200_000_000))
	}
	switch g.R.Intn(8) {
	case 0:
		s.window = big.NewInt(0)
	case 1:
		s.window = big.NewInt(int64(mercMaxU32))
	case 2: // exact fit / one too many
		s.window = big.NewInt(int64(mercMaxU32-s.T) + int64(g.R.Intn(3)) - 1)
		if s.window.Sign() < 0 {
			s.window = big.NewInt(0)
		}
	default:
		s.window = big.NewInt(int64(g.R.Intn(100000)))
	}
	switch g.R.Intn(9) {
	case 0:
		s.mft = -1
	case 1:
		s.mft = int64(s.T) + int64(g.R.Intn(3)) - 1 // at / after now ⇒ overlap
	case 2:
		// the correct observers agree on a value below -1 (a server answering nonsense): not "no value exists"
		s.mft = []int64{-2, -3, -1000, -mercMaxI64}[g.R.Intn(4)]
	default:
		s.mft = int64(s.T) - int64(1+g.R.Intn(1000))
		if s.mft < -1 {
			s.mft = -1
		}
	}
	s.ms = uint32(1 + g.R.Intn(2))
	switch g.R.Intn(6) {
	case 0:
		s.fee = new(big.Int).Set(mercBigMaxInt192) // honest nodes send MaxInt192 when the price is missing
	case 1:
		s.fee = big.NewInt(0)
	default:
		s.fee = new(big.Int).Rand(g.R, mercBig("100000000000000000000"))
	}
	s.top = int64(20 + g.R.Intn(100000))
	if v == 1 {
		switch g.R.Intn(8) {
		case 0:
			s.mft = -1
		case 1:
			s.mft = s.top + int64(g.R.Intn(3)) - 1
		default:
			s.mft = s.top - int64(1+g.R.Intn(15))
		}
	}
	s.codec = J{"maxLen": 400, "pad": 0, "empty": false, "fail": false}
	return s
}

func (s *mercScn) cfg() J {
	n := 3*s.f + 1
	if s.cfgN > n {
		n = s.cfgN // a committee larger than 3f+1 (5/1, 9/2, 16/4 …)
	}
	return J{"f": s.f, "n": n, "min": s.min.String(), "max": s.max.String(), "window": s.window.String()}
}

func mercSatAdd(t uint32, d int) uint32 {
	x := int64(t) + int64(d)
	if x < 0 {
		return 0
	}
	if x > int64(mercMaxU32) {
		return mercMaxU32
	}
	return uint32(x)
}

func (s *mercScn) chainBlocks(g *G, height int64, k int, fork byte) []any {
	var bs []any
	for i := 0; i < k && height-int64(i) >= 0; i++ {
		n := height - int64(i)
		bs = append(bs, mercBlockJ(n, mercChainHash(n, fork), uint64(n)*12))
	}
	if bs == nil {
		bs = []any{}
	}
	return bs
}

// honest observation: consistent with the scenario, individual fields occasionally unavailable
func (s *mercScn) honest(g *G) J {
	o := J{"ts": S(mercSatAdd(s.T, g.R.Intn(3)))}
	bp := new(big.Int).Add(s.P, big.NewInt(int64(g.R.Intn(5)-2)))
	if bp.Cmp(mercBigMaxInt192) > 0 {
		bp.Set(mercBigMaxInt192)
	}
	if bp.Cmp(mercBigMinInt192) < 0 {
		bp.Set(mercBigMinInt192)
	}
	bid := new(big.Int).Sub(bp, big.NewInt(int64(g.R.Intn(int(s.spread)+1))))
	ask := new(big.Int).Add(bp, big.NewInt(int64(g.R.Intn(int(s.spread)+1))))
	if bid.Cmp(mercBigMinInt192) < 0 {
		bid.Set(bp)
	}
	if ask.Cmp(mercBigMaxInt192) > 0 {
		ask.Set(bp)
	}
	o["bp"] = mercI192(bp)
	o["pricesValid"] = g.R.Intn(12) != 0
	if s.v == 1 || s.v == 3 {
		o["bid"], o["ask"] = mercI192(bid), mercI192(ask)
	}
	if s.v == 1 {
		lag := int64(g.R.Intn(3))
		height := s.top - lag
		o["curNum"], o["curHash"], o["curTs"], o["curValid"] = "0", "", "0", false
		o["blocks"] = []any{}
		if g.R.Intn(7) == 0 { // deprecated single-block observation
			o["curNum"], o["curHash"], o["curTs"], o["curValid"] = S(height), hexs(mercChainHash(height, 0)), S(uint64(height)*12), true
		} else {
			o["blocks"] = s.chainBlocks(g, height, 1+g.R.Intn(10), 0)
		}
		o["mfbn"], o["mfbnValid"] = S(s.mft), g.R.Intn(15) != 0
		return o
	}
	mft := s.mft
	if g.R.Intn(12) == 0 && mft > 0 {
		mft-- // a lagging server
	}
	o["mft"], o["mftValid"] = S(mft), g.R.Intn(15) != 0
	fee := new(big.Int).Set(s.fee)
	if fee.Cmp(mercBigMaxInt192) < 0 && fee.Sign() > 0 {
		fee.Add(fee, big.NewInt(int64(g.R.Intn(3))))
	}
	o["link"], o["linkValid"] = mercI192(fee), g.R.Intn(10) != 0
	o["native"], o["nativeValid"] = mercI192(new(big.Int).Rsh(fee, 1)), g.R.Intn(10) != 0
	if s.v == 4 {
		o["ms"], o["msValid"] = S(s.ms), g.R.Intn(15) != 0
	}
	return o
}

func mercAdvPrice(g *G, s *mercScn) *big.Int {
	switch g.R.Intn(8) {
	case 0:
		return new(big.Int).Set(mercBigMaxInt192)
	case 1:
		return new(big.Int).Set(mercBigMinInt192)
	case 2:
		return new(big.Int).Sub(s.min, big.NewInt(1))
	case 3:
		return new(big.Int).Add(s.max, big.NewInt(1))
	case 4:
		return big.NewInt(0)
	case 5:
		return new(big.Int).Neg(s.P)
	default:
		return mercRndPrice(g)
	}
}

func mercAdvBytes(g *G, v *big.Int) string {
	switch g.R.Intn(14) {
	case 0:
		return ""
	case 1:
		return hexs(make([]byte, 23))
	case 2:
		return hexs(make([]byte, 25))
	case 3:
		return hexs(make([]byte, 32))
	}
	return mercI192(v)
}

// faulty observation: any encodable field values and validity flags, or undecodable bytes
func (s *mercScn) faulty(g *G) any {
	if g.R.Intn(12) == 0 {
		return J{"bad": true}
	}
	var ts uint32
	switch g.R.Intn(5) {
	case 0:
		ts = 0
	case 1:
		ts = mercMaxU32
	case 2:
		ts = g.R.Uint32()
	default:
		ts = mercSatAdd(s.T, g.R.Intn(2001)-1000)
	}
	o := J{"ts": S(ts)}
	flag := func() bool { return g.R.Intn(5) != 0 }
	bp, bid, ask := mercAdvPrice(g, s), mercAdvPrice(g, s), mercAdvPrice(g, s)
	if g.R.Intn(2) == 0 { // keep the bid<=mid<=ask shape so that v3 does not drop it
		if bid.Cmp(bp) > 0 {
			bid, bp = bp, bid
		}
		if bp.Cmp(ask) > 0 {
			bp, ask = ask, bp
		}
		if bid.Cmp(bp) > 0 {
			bid, bp = bp, bid
		}
	}
	o["bp"], o["pricesValid"] = mercAdvBytes(g, bp), flag()
	if s.v == 1 || s.v == 3 {
		o["bid"], o["ask"] = mercAdvBytes(g, bid), mercAdvBytes(g, ask)
	}
	if s.v == 1 {
		o["curNum"], o["curHash"], o["curTs"], o["curValid"] = "0", "", "0", false
		o["blocks"] = []any{}
		switch g.R.Intn(10) {
		case 0: // fork above the honest chain
			o["blocks"] = s.chainBlocks(g, s.top+int64(1+g.R.Intn(5)), 1+g.R.Intn(10), 0x55)
		case 1: // duplicate number
			b := mercBlockJ(s.top+1, mercChainHash(s.top+1, 0x33), 7)
			o["blocks"] = []any{b, mercBlockJ(s.top+1, mercChainHash(s.top+1, 0x34), 7), b}
		case 2: // duplicate hash
			o["blocks"] = []any{mercBlockJ(s.top, mercChainHash(s.top, 0), 1), mercBlockJ(s.top-1, mercChainHash(s.top, 0), 1)}
			if g.R.Intn(2) == 0 {
				// the same fabricated block twice, NOT next to each other (one observer must never cast two votes)
				fake := mercBlockJ(s.top+5, mercChainHash(s.top+5, 0x77), 9999)
				fill := func(d int64) J { return mercBlockJ(s.top+d, mercChainHash(s.top+d, 0x78), uint64(s.top+d)) }
				if g.R.Intn(2) == 0 {
					o["blocks"] = []any{fake, fill(2), fake}
				} else {
					o["blocks"] = []any{fill(1), fake, fill(3), fake}
				}
			}
		case 3: // wrong hash length
			o["blocks"] = []any{mercBlockJ(s.top, make([]byte, 31), 1)}
		case 4: // negative number
			o["blocks"] = []any{mercBlockJ(-1, mercHashOf(9), 1)}
		case 5: // too many
			o["blocks"] = s.chainBlocks(g, s.top+20, 11, 0x66)
		case 6: // honest numbers, wrong timestamps / hashes
			o["blocks"] = []any{mercBlockJ(s.top, mercChainHash(s.top, 0), uint64(g.R.Intn(9))), mercBlockJ(s.top-1, mercChainHash(s.top-1, 1), uint64(s.top-1)*12)}
		case 7: // deprecated path with extreme values
			o["curNum"], o["curHash"], o["curTs"], o["curValid"] = S([]int64{-1, mercMaxI64, s.top + 3}[g.R.Intn(3)]), hexs(mercHashOf(4)[:32-g.R.Intn(2)]), S(^uint64(0)), true
		case 8: // unsorted honest blocks
			bs := s.chainBlocks(g, s.top, 4, 0)
			g.R.Shuffle(len(bs), func(i, j int) { bs[i], bs[j] = bs[j], bs[i] })
			o["blocks"] = bs
		default:
			o["blocks"] = s.chainBlocks(g, s.top, 3, 0)
		}
		o["mfbn"] = S([]int64{-1, -2, s.mft, s.mft + 1, s.top + 10, mercMaxI64, -mercMaxI64 - 1}[g.R.Intn(7)])
		o["mfbnValid"] = flag()
		return o
	}
	o["mft"] = S([]int64{-1, -2, s.mft, s.mft + 1, int64(s.T) + 10, int64(mercMaxU32), int64(mercMaxU32) - 1, mercMaxI64, -mercMaxI64 - 1}[g.R.Intn(9)])
	o["mftValid"] = flag()
	fee := func() *big.Int {
		switch g.R.Intn(5) {
		case 0:
			return big.NewInt(-1)
		case 1:
			return new(big.Int).Set(mercBigMaxInt192)
		case 2:
			return new(big.Int).Set(mercBigMinInt192)
		default:
			return mercRndPrice(g)
		}
	}
	o["link"], o["linkValid"] = mercAdvBytes(g, fee()), flag()
	o["native"], o["nativeValid"] = mercAdvBytes(g, fee()), flag()
	if s.v == 4 {
		// incl. statuses that alias the honest one under a narrower integer type
		o["ms"], o["msValid"] = S([]uint32{0, 1, 2, 3, mercMaxU32, s.ms + 256, s.ms + 512, s.ms + 65536, s.ms + 1<<24}[g.R.Intn(9)]), flag()
	}
	return o
}

// observations of one round: honest ++ faulty shuffled, with the honest index set
func (s *mercScn) round(g *G) (aos []any, hidx []any) {
	type lv struct {
		o any
		h bool
	}
	var l []lv
	for i := 0; i < s.n-s.b; i++ {
		o := s.honest(g)
		if i < s.outage {
			// a correct node whose mercury-server lookup failed sends the zero value flagged invalid
			if s.v == 1 {
				o["mfbn"], o["mfbnValid"] = "0", false
			} else {
				o["mft"], o["mftValid"] = "0", false
			}
		} else if s.split {
			if s.v == 1 {
				o["mfbn"], o["mfbnValid"] = S(s.mft-int64(1+i)*100), true
			} else {
				o["mft"], o["mftValid"] = S(s.mft-int64(1+i)*100), true
			}
		} else if s.outage > 0 {
			if s.v == 1 {
				o["mfbn"], o["mfbnValid"] = S(s.mft), true
			} else {
				o["mft"], o["mftValid"] = S(s.mft), true
			}
		}
		if s.twoCamps {
			val := s.mft
			if i > s.f {
				val = s.mft - 15
			}
			if val < 0 {
				val = 0
			}
			if s.v == 1 {
				o["mfbn"], o["mfbnValid"] = S(val), true
				if i <= s.f {
					o["curNum"], o["curHash"], o["curTs"], o["curValid"] = "0", "", "0", false
					o["blocks"] = s.chainBlocks(g, val, 1+g.R.Intn(5), 0)
				}
			} else {
				o["mft"], o["mftValid"] = S(val), true
			}
			o["pricesValid"] = i != 0
		}
		l = append(l, lv{o, true})
	}
	for i := 0; i < s.b; i++ {
		l = append(l, lv{s.faulty(g), false})
	}
	g.R.Shuffle(len(l), func(i, j int) { l[i], l[j] = l[j], l[i] })
	hidx = []any{}
	aos = []any{}
	for i, e := range l {
		aos = append(aos, e.o)
		if e.h {
			hidx = append(hidx, i)
		}
	}
	return
}

func (s *mercScn) randPrev(g *G) any {
	if s.v == 1 {
		switch g.R.Intn(12) {
		case 0, 1, 2, 3, 4:
			return nil
		case 5:
			return hexs(mercRefPrevBlock(mercMaxI64))
		case 6:
			return hexs(mercRefPrevBlock(-int64(1 + g.R.Intn(3))))
		case 7:
			return hexs(make([]byte, g.R.Intn(108))) // too short (may be empty but non-nil)
		default:
			return hexs(mercRefPrevBlock(s.top + int64(g.R.Intn(8)) - 5))
		}
	}
	switch g.R.Intn(12) {
	case 0, 1, 2, 3, 4:
		return nil
	case 5:
		return hexs(mercRefPrevTs(mercMaxU32))
	case 6:
		return hexs(mercRefPrevTs(mercMaxU32 - 1))
	case 7:
		return hexs(make([]byte, g.R.Intn(8)))
	default:
		return hexs(mercRefPrevTs(mercSatAdd(s.T, g.R.Intn(8)-5)))
	}
}

func (s *mercScn) randCodec(g *G) {
	switch g.R.Intn(14) {
	case 0:
		s.codec["fail"] = true
	case 1:
		s.codec["empty"] = true
	case 2:
		s.codec["maxLen"] = 0
	case 3: // exactly at / one over the limit
		base := map[int]int{1: 4 + 96 + 24 + 2 + 32, 2: 12 + 96, 3: 12 + 160, 4: 12 + 96 + 4}[s.v]
		s.codec["pad"] = 400 - base + g.R.Intn(2)
	}
}

func (s *mercScn) reportOp(g *G) J {
	aos, hidx := s.round(g)
	op := J{"op": fmt.Sprintf("mercury.v%d.report", s.v), "cfg": s.cfg(), "codec": s.codec, "prev": s.prev, "aos": aos}
	if !s.noLabel {
		op["honest"] = hidx
	}
	return op
}

func mercTags(s *mercScn, extra ...string) []string {
	t := []string{fmt.Sprintf("v%d", s.v), "f=" + S(s.f), "faulty=" + S(s.b)}
	if s.prev == nil {
		t = append(t, "bootstrap")
	} else {
		t = append(t, "prev")
	}
	return append(t, extra...)
}

// genMercReports: random scenarios + directed boundary cases + an implementation-only malformed stream
func genMercReports(g *G) {
	for i := 0; i < g.N(2400, 40000); i++ {
		s := mercRandScn(g, 1+i%4)
		s.prev = s.randPrev(g)
		s.randCodec(g)
		tag := "random"
		switch g.R.Intn(12) {
		case 0: // too few observers
			s.n = g.R.Intn(s.f + 1)
			s.b = 0
			tag = "starved"
		case 1: // more than f faulty: the assumptions are broken, the invariants of C07 must still hold
			s.b = s.n - g.R.Intn(2)
			if s.b < 0 {
				s.b = 0
			}
			tag = "overrun"
		case 3: // two camps of correct observers at bootstrap, every vote of the newer camp needed
			if s.mft > 20 {
				s.b, s.prev, s.twoCamps = 0, nil, true
				s.n = 2*s.f + 2 + g.R.Intn(s.f)
				tag = "two-camps-bootstrap"
				if g.R.Intn(2) == 0 {
					// a committee of more than 3f+1: the older camp alone has 2f+1 votes, the newer one f+1
					s.n = 3*s.f + 2 + g.R.Intn(2)
					s.cfgN = s.n
					tag = "two-camps-bootstrap-wide-committee"
				}
			}
		case 2: // partial outage of the max-finalized lookup among the correct observers
			if s.n >= 2*s.f+2 {
				s.b = 0
				s.outage = s.n - (s.f + 1)
				if g.R.Intn(2) == 0 {
					s.prev = nil
				}
				tag = "mf-outage"
			}
		}
		g.Emit(s.reportOp(g), mercTags(s, tag)...)
	}
	genMercDirected(g)
	// malformed observation bytes (outside the model's input language): monitors only
	for i := 0; i < g.N(300, 5000); i++ {
		s := mercRandScn(g, 1+i%4)
		s.prev = s.randPrev(g)
		aos, hidx := s.round(g)
		for k := 0; k < 1+g.R.Intn(2); k++ {
			raw := make([]byte, g.R.Intn(40))
			g.R.Read(raw)
			if g.R.Intn(2) == 0 && len(aos) > 0 { // structure-aware: truncate / duplicate a valid encoding
				good := mercObservation(s.v, normalise(s.honest(g)))
				switch g.R.Intn(3) {
				case 0:
					raw = good[:g.R.Intn(len(good)+1)]
				case 1:
					raw = append(append([]byte{}, good...), good...)
				default:
					raw = append([]byte{}, good...)
					if len(raw) > 0 {
						raw[g.R.Intn(len(raw))] ^= byte(1 << uint(g.R.Intn(8)))
					}
				}
			}
			aos = append(aos, J{"raw": hexs(raw)})
		}
		g.EmitImpl(J{"op": fmt.Sprintf("mercury.v%d.report", s.v), "cfg": s.cfg(), "codec": s.codec, "prev": s.prev, "aos": aos, "honest": hidx}, fmt.Sprintf("v%d", s.v), "malformed-bytes")
	}
}

// all-honest scenario with fixed knobs
func mercBase(g *G, v int) *mercScn {
	s := mercRandScn(g, v)
	s.f, s.b, s.n = 1, 0, 4
	s.min, s.max = big.NewInt(1), mercBig("1000000000000000000000000000000")
	s.P = big.NewInt(50000)
	s.spread = 2
	s.T = 1_700_000_000
	s.window = big.NewInt(3600)
	s.mft = int64(s.T) - 100
	s.fee = big.NewInt(1_000_000)
	s.top = 1000
	if v == 1 {
		s.mft = 990
	}
	s.codec = J{"maxLen": 400, "pad": 0, "empty": false, "fail": false}
	s.prev = nil
	return s
}

func genMercDirected(g *G) {
	for v := 1; v <= 4; v++ {
		emit := func(tag string, mod func(s *mercScn)) {
			for f := 1; f <= 3; f++ {
				s := mercBase(g, v)
				s.f, s.n = f, 3*f+1
				mod(s)
				g.Emit(s.reportOp(g), mercTags(s, "directed", tag)...)
			}
		}
		emit("plain", func(s *mercScn) {})
		// price at / beyond the configured bounds
		for _, d := range []int64{-1, 0, 1} {
			d := d
			emit("price-at-min", func(s *mercScn) { s.min = big.NewInt(50000 + 5); s.P = big.NewInt(50000 + 5 + d*5); s.spread = 0 })
			emit("price-at-max", func(s *mercScn) { s.max = big.NewInt(50000 - 5); s.min = big.NewInt(0); s.P = big.NewInt(50000 - 5 + d*5); s.spread = 0 })
		}
		emit("min=max", func(s *mercScn) { s.min, s.max, s.P, s.spread = big.NewInt(7), big.NewInt(7), big.NewInt(7), 0 })
		emit("int192-max", func(s *mercScn) { s.max = new(big.Int).Set(mercBigMaxInt192); s.P = new(big.Int).Set(mercBigMaxInt192) })
		emit("int192-min", func(s *mercScn) {
			s.min, s.max = new(big.Int).Set(mercBigMinInt192), big.NewInt(0)
			s.P = new(big.Int).Set(mercBigMinInt192)
		})
		emit("config-min>max", func(s *mercScn) { s.min, s.max = big.NewInt(8), big.NewInt(7) })
		emit("config-window-2^32", func(s *mercScn) { s.window = big.NewInt(int64(mercMaxU32) + 1) })
		emit("config-int256", func(s *mercScn) { s.max = new(big.Int).Lsh(big.NewInt(1), 255) })
		// codec / length checks
		emit("codec-fail", func(s *mercScn) { s.codec["fail"] = true })
		emit("codec-empty", func(s *mercScn) { s.codec["empty"] = true })
		emit("maxlen-0", func(s *mercScn) { s.codec["maxLen"] = 0 })
		for _, over := range []int{0, 1} {
			over := over
			emit("maxlen-exact", func(s *mercScn) {
				base := map[int]int{1: 4 + 96 + 24 + 2 + 32, 2: 12 + 96, 3: 12 + 160, 4: 12 + 96 + 4}[s.v]
				s.codec["maxLen"] = base + 7
				s.codec["pad"] = 7 + over
			})
		}
		// observation counts around f+1
		emit("exactly-f", func(s *mercScn) { s.n = s.f })
		emit("exactly-f+1", func(s *mercScn) { s.n = s.f + 1 })
		emit("none", func(s *mercScn) { s.n = 0 })
		if v == 1 {
			for _, d := range []int64{-2, -1, 0, 1} {
				d := d
				emit("prev-block-near-top", func(s *mercScn) { s.prev = hexs(mercRefPrevBlock(s.top + d)) })
			}
			emit("prev-block-maxint64", func(s *mercScn) { s.prev = hexs(mercRefPrevBlock(mercMaxI64)) })
			emit("prev-block-negative", func(s *mercScn) { s.prev = hexs(mercRefPrevBlock(-5)) })
			emit("prev-short", func(s *mercScn) { s.prev = hexs(make([]byte, 107)) })
			emit("prev-empty", func(s *mercScn) { s.prev = "" })
			for _, m := range []int64{-2, -1, 0, 998, 999, 1000, 1001, mercMaxI64, -mercMaxI64 - 1} {
				m := m
				emit("bootstrap-mfbn", func(s *mercScn) { s.mft = m })
			}
			emit("top-maxint64", func(s *mercScn) { s.top = mercMaxI64; s.mft = mercMaxI64 - 1 })
			continue
		}
		// timestamps and the expiration window at the uint32 boundary
		for _, d := range []int64{-1, 0, 1} {
			d := d
			emit("window-fit", func(s *mercScn) {
				s.T = mercMaxU32 - 5000
				s.window = big.NewInt(5000 - 2 + d) // honest ts ∈ T..T+2, median ≤ T+2
			})
		}
		emit("window-max", func(s *mercScn) { s.window = big.NewInt(int64(mercMaxU32)); s.T = 0 })
		emit("window-max-T1", func(s *mercScn) { s.window = big.NewInt(int64(mercMaxU32)); s.T = 3 })
		emit("T-max-window-0", func(s *mercScn) { s.T = mercMaxU32; s.window = big.NewInt(0); s.mft = int64(mercMaxU32) - 10 })
		for _, p := range []uint32{mercMaxU32, mercMaxU32 - 1, mercMaxU32 - 2} {
			p := p
			emit("prev-ts-near-max", func(s *mercScn) { s.T = mercMaxU32; s.window = big.NewInt(0); s.prev = hexs(mercRefPrevTs(p)) })
		}
		for _, d := range []int{-2, -1, 0, 1, 2, 3} {
			d := d
			emit("prev-ts-near-now", func(s *mercScn) { s.prev = hexs(mercRefPrevTs(mercSatAdd(s.T, d))) })
		}
		emit("prev-short", func(s *mercScn) { s.prev = hexs(make([]byte, 7)) })
		emit("prev-empty", func(s *mercScn) { s.prev = "" })
		for _, m := range []int64{-2, -1, 0, int64(mercMaxU32) - 1, int64(mercMaxU32), int64(mercMaxU32) + 1, mercMaxI64 - 1, mercMaxI64, -mercMaxI64 - 1} {
			m := m
			emit("bootstrap-mft", func(s *mercScn) { s.mft = m; s.T = mercMaxU32; s.window = big.NewInt(0) })
		}
		for _, d := range []int64{-1, 0, 1, 2, 3} {
			d := d
			emit("bootstrap-mft-near-now", func(s *mercScn) { s.mft = int64(s.T) + d })
		}
		// fees
		emit("fee-maxint192", func(s *mercScn) { s.fee = new(big.Int).Set(mercBigMaxInt192) })
		emit("fee-negative", func(s *mercScn) { s.fee = big.NewInt(-5) })
		emit("fee-zero", func(s *mercScn) { s.fee = big.NewInt(0) })
	}
}

// ---------------------------------------------------------------- histories (C09)

func genMercHistories(g *G) {
	for i := 0; i < g.N(500, 8000); i++ {
		s := mercRandScn(g, 1+i%4)
		prev := s.randPrev(g)
		// keep most histories productive: price inside the range, a window that fits, a readable
		// previous report (or none) a little behind the honest clock
		if g.R.Intn(4) != 0 {
			s.min, s.max = big.NewInt(1), mercBig("1000000000000000000000000000000")
			s.P = big.NewInt(int64(1000 + g.R.Intn(100000)))
			if s.T > mercMaxU32-200000 {
				s.window = big.NewInt(0)
			} else {
				s.window = big.NewInt(int64(g.R.Intn(100000)))
			}
			if s.T < 100 {
				s.T = 100 + uint32(g.R.Intn(1000))
			}
			if s.T > mercMaxU32-40 {
				s.T = mercMaxU32 - 40 + uint32(g.R.Intn(20))
			}
			if s.v == 1 {
				s.mft = s.top - int64(1+g.R.Intn(15))
				switch g.R.Intn(3) {
				case 0:
					prev = nil
				default:
					prev = hexs(mercRefPrevBlock(s.top - int64(1+g.R.Intn(6))))
				}
			} else {
				s.mft = int64(s.T) - int64(1+g.R.Intn(50))
				if g.R.Intn(8) == 0 {
					// the agreed max-finalized timestamp is at or ahead of the observers' clocks: without a previous
					// report the window would be empty, and the plugin must decline quietly
					s.mft = int64(s.T) + int64(g.R.Intn(6))
				}
				switch g.R.Intn(3) {
				case 0:
					prev = nil
				default:
					prev = hexs(mercRefPrevTs(s.T - uint32(1+g.R.Intn(6))))
				}
			}
		}
		rounds := []any{}
		labels := []any{}
		k := 3 + g.R.Intn(6)
		for r := 0; r < k; r++ {
			s.b = g.R.Intn(s.f + 1)
			s.n = 2*s.f + 1 + g.R.Intn(s.f+1)
			if g.R.Intn(15) == 0 {
				s.n, s.b = g.R.Intn(s.f+1), 0 // a round that fails
			}
			s.outage = 0
			s.split = g.R.Intn(8) == 0 // a round without agreement on the max-finalized value (errors while bootstrapping)
			if g.R.Intn(5) == 0 && s.n >= 2*s.f+2 {
				// partial outage of the max-finalized lookup: exactly f+1 correct observers still agree on
				// the value, all others (at least as many) have none
				s.b = 0
				s.outage = s.n - (s.f + 1)
			}
			s.twoCamps = false
			if r == 0 && prev == nil && g.R.Intn(3) == 0 && s.mft > 20 {
				s.b, s.outage, s.split, s.twoCamps = 0, 0, false, true
				s.n = 2*s.f + 2 + g.R.Intn(s.f)
				if g.R.Intn(2) == 0 {
					s.n = 3*s.f + 2 + g.R.Intn(2)
					s.cfgN = s.n
				}
			}
			aos, hidx := s.round(g)
			rounds = append(rounds, aos)
			labels = append(labels, hidx)
			// time / chain advance, stall or regress
			switch g.R.Intn(6) {
			case 0:
			case 1:
				s.T = mercSatAdd(s.T, -(1 + g.R.Intn(5)))
				s.top -= int64(g.R.Intn(3))
				if s.top < 0 {
					s.top = 0
				}
			default:
				s.T = mercSatAdd(s.T, 1+g.R.Intn(4))
				if s.top < mercMaxI64-5 {
					s.top += int64(1 + g.R.Intn(3))
				}
			}
		}
		g.Emit(J{"op": "mercury.history", "v": s.v, "cfg": s.cfg(), "codec": s.codec, "prev": prev, "rounds": rounds, "honest": labels},
			fmt.Sprintf("v%d", s.v), "history", "rounds="+S(k))
	}
	// directed: marching up to the uint32 boundary with a zero window, bootstrap first
	for v := 2; v <= 4; v++ {
		for _, start := range []uint32{mercMaxU32 - 6, mercMaxU32 - 3} {
			s := mercBase(g, v)
			s.T, s.window, s.mft = start, big.NewInt(0), int64(start)-5
			var rounds, labels []any
			for r := 0; r < 8; r++ {
				aos, hidx := s.round(g)
				rounds = append(rounds, aos)
				labels = append(labels, hidx)
				s.T = mercSatAdd(s.T, 1)
			}
			g.Emit(J{"op": "mercury.history", "v": v, "cfg": s.cfg(), "codec": s.codec, "prev": nil, "rounds": rounds, "honest": labels},
				fmt.Sprintf("v%d", v), "history", "uint32-boundary")
		}
	}
	// K5 (repaired, commit 489eb6c): f+1 observers agree on maxFinalizedTimestamp = MaxInt64 in the
	// bootstrap round.  The int64 addition used to wrap and the report started at validFrom 0; the
	// plugin must return an error.  The monitor reports a regression as C09/bootstrap-int64-wrap.
	for v := 2; v <= 4; v++ {
		for _, m := range []int64{mercMaxI64, mercMaxI64 - 1, int64(mercMaxU32), int64(mercMaxU32) - 1} {
			s := mercBase(g, v)
			s.mft = m
			s.T, s.window = mercMaxU32, big.NewInt(0)
			var rounds, labels []any
			for r := 0; r < 2; r++ {
				aos, hidx := s.round(g)
				rounds = append(rounds, aos)
				labels = append(labels, hidx)
			}
			g.Emit(J{"op": "mercury.history", "v": v, "cfg": s.cfg(), "codec": s.codec, "prev": nil, "rounds": rounds, "honest": labels},
				fmt.Sprintf("v%d", v), "history", "K5-bootstrap-maxint64")
		}
	}
	// directed: bootstrap round in which f+1 correct observers agree on a positive max-finalized value
	// and at least as many correct observers have none (a tie / majority of "no value" must not vote)
	for v := 1; v <= 4; v++ {
		for _, extra := range []int{1, 2} {
			s := mercBase(g, v)
			s.b = 0
			s.n = 2*s.f + 1 + extra
			if s.n > 3*s.f+1 {
				s.n = 3*s.f + 1
			}
			if s.n < 2*s.f+2 {
				continue
			}
			var rounds, labels []any
			for r := 0; r < 3; r++ {
				s.outage = 0
				if r == 0 {
					s.outage = s.n - (s.f + 1)
				}
				aos, hidx := s.round(g)
				rounds = append(rounds, aos)
				labels = append(labels, hidx)
				s.T = mercSatAdd(s.T, 2)
				s.top += 2
			}
			s.outage = 0
			g.Emit(J{"op": "mercury.history", "v": v, "cfg": s.cfg(), "codec": s.codec, "prev": nil, "rounds": rounds, "honest": labels},
				fmt.Sprintf("v%d", v), "history", "bootstrap-outage")
		}
	}
	// directed: a bootstrap round without agreement (all votes different), then a bootstrap round in which
	// f+1 correct observers agree and one faulty observer repeats its high value from the failed round
	for v := 1; v <= 4; v++ {
		s := mercBase(g, v)
		s.b, s.n = 0, 4
		var rounds, labels []any
		for r := 0; r < 3; r++ {
			s.split = r == 0
			aos, hidx := s.round(g)
			high := S(s.mft + 4000)
			m := aos[len(aos)-1].(J)
			if v == 1 {
				m["mfbn"], m["mfbnValid"] = high, true
			} else {
				m["mft"], m["mftValid"] = high, true
			}
			hidx = hidx[:len(hidx)-1]
			rounds = append(rounds, aos)
			labels = append(labels, hidx)
			s.T = mercSatAdd(s.T, 2)
			s.top += 2
		}
		s.split = false
		g.Emit(J{"op": "mercury.history", "v": v, "cfg": s.cfg(), "codec": s.codec, "prev": nil, "rounds": rounds, "honest": labels},
			fmt.Sprintf("v%d", v), "history", "disagreement-then-bootstrap")
	}
	// directed: bootstrap rounds in which the agreed max-finalized value is at / ahead of the current end
	// (decline without error), then the clocks catch up
	for v := 1; v <= 4; v++ {
		s := mercBase(g, v)
		if v == 1 {
			s.mft = s.top + 3
		} else {
			s.mft = int64(s.T) + 3
		}
		var rounds, labels []any
		for r := 0; r < 6; r++ {
			aos, hidx := s.round(g)
			rounds = append(rounds, aos)
			labels = append(labels, hidx)
			s.T = mercSatAdd(s.T, 2)
			s.top += 2
		}
		g.Emit(J{"op": "mercury.history", "v": v, "cfg": s.cfg(), "codec": s.codec, "prev": nil, "rounds": rounds, "honest": labels},
			fmt.Sprintf("v%d", v), "history", "bootstrap-ahead-of-clock")
	}
	// directed v1: chain advancing one block per round, stalling, bootstrap from -1
	for _, m := range []int64{-1, 990} {
		s := mercBase(g, 1)
		s.mft = m
		var rounds, labels []any
		for r := 0; r < 8; r++ {
			aos, hidx := s.round(g)
			rounds = append(rounds, aos)
			labels = append(labels, hidx)
			if r%3 != 2 {
				s.top += 2
			}
		}
		g.Emit(J{"op": "mercury.history", "v": 1, "cfg": s.cfg(), "codec": s.codec, "prev": nil, "rounds": rounds, "honest": labels},
			"v1", "history", "directed")
	}
}
