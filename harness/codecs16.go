package main

// C16 — observation / stream-value / configuration wire codecs.

import (
	"encoding/hex"
	"bytes"
	"context"
	"encoding/json"
	"fmt"
	"math"
	"math/big"
	"sort"
	"strings"
	"time"

	"github.com/shopspring/decimal"
	"google.golang.org/protobuf/proto"

	"github.com/smartcontractkit/libocr/offchainreporting2/types"
	"github.com/smartcontractkit/libocr/offchainreporting2plus/ocr3types"

	"github.com/smartcontractkit/chainlink-common/pkg/logger"
	llotypes "github.com/smartcontractkit/chainlink-common/pkg/types/llo"
	mercurytypes "github.com/smartcontractkit/chainlink-common/pkg/types/mercury"

	"github.com/smartcontractkit/chainlink-data-streams/llo"
	"github.com/smartcontractkit/chainlink-data-streams/mercury"
)

// cdcObsCodec returns the observation codec of a plugin built by the factory.
func cdcObsCodec() llo.ObservationCodec { return cdcObsCodecOf(false) }

// cdcObsCodecOf: the same, from a plugin whose node-local VerboseLogging setting is as given (logging must not
// change what a codec returns)
func cdcObsCodecOf(verbose bool) llo.ObservationCodec {
	ocb, err := llo.EVMOnchainConfigCodec{}.Encode(llo.OnchainConfig{Version: 1})
	if err != nil {
		panic(err)
	}
	offb, err := llo.OffchainConfig{ProtocolVersion: 1, DefaultMinReportIntervalNanoseconds: 1}.Encode()
	if err != nil {
		panic(err)
	}
	f := llo.NewPluginFactory(llo.PluginFactoryParams{
		Config:                llo.Config{VerboseLogging: verbose},
		Logger:                logger.Nop(),
		OnchainConfigCodec:    llo.EVMOnchainConfigCodec{},
		RetirementReportCodec: llo.StandardRetirementReportCodec{},
		ReportCodecs:          map[llotypes.ReportFormat]llo.ReportCodec{},
	})
	rp, _, err := f.NewReportingPlugin(context.Background(), ocr3types.ReportingPluginConfig{
		N: 4, F: 1, OnchainConfig: ocb, OffchainConfig: offb, MaxDurationObservation: time.Second})
	if err != nil {
		panic(err)
	}
	return rp.(*llo.Plugin).ObservationCodec
}

func cdcObsMsgJ(b []byte) (J, error) {
	p := &llo.LLOObservationProto{}
	if err := proto.Unmarshal(b, p); err != nil {
		return nil, err
	}
	rm := append([]uint32{}, p.RemoveChannelIDs...)
	sort.Slice(rm, func(i, j int) bool { return rm[i] < rm[j] })
	rmj := make([]any, len(rm))
	for i, id := range rm {
		rmj[i] = S(id)
	}
	ids := make([]uint32, 0)
	for id := range p.UpdateChannelDefinitions {
		ids = append(ids, id)
	}
	sort.Slice(ids, func(i, j int) bool { return ids[i] < ids[j] })
	ups := make([]any, len(ids))
	for i, id := range ids {
		ups[i] = J{"id": S(id), "def": cdcDefMsgJ(p.UpdateChannelDefinitions[id])}
	}
	sids := make([]uint32, 0)
	for id := range p.StreamValues {
		sids = append(sids, id)
	}
	sort.Slice(sids, func(i, j int) bool { return sids[i] < sids[j] })
	vals := make([]any, len(sids))
	for i, id := range sids {
		vals[i] = J{"sid": S(id), "sv": cdcSVMsgJ(p.StreamValues[id])}
	}
	return J{"attested": hexs(p.AttestedPredecessorRetirement), "retire": p.ShouldRetire, "tsLegacy": S(p.UnixTimestampNanosecondsLegacy),
		"ts": S(p.UnixTimestampNanoseconds), "removes": rmj, "updates": ups, "values": vals}, nil
}

func cdcObsMsgBytes(m any) ([]byte, error) {
	p := &llo.LLOObservationProto{ShouldRetire: jBool(jget(m, "retire")),
		UnixTimestampNanosecondsLegacy: jBig(jget(m, "tsLegacy")).Int64(), UnixTimestampNanoseconds: jBig(jget(m, "ts")).Uint64()}
	if a := jget(m, "attested"); a != nil {
		p.AttestedPredecessorRetirement = jBytes(a)
	}
	for _, id := range jArr(jget(m, "removes")) {
		p.RemoveChannelIDs = append(p.RemoveChannelIDs, jU32(id))
	}
	if ups := jArr(jget(m, "updates")); len(ups) > 0 {
		p.UpdateChannelDefinitions = map[uint32]*llo.LLOChannelDefinitionProto{}
		for _, e := range ups {
			p.UpdateChannelDefinitions[jU32(jget(e, "id"))] = cdcJDefMsg(jget(e, "def"))
		}
	}
	if vals := jArr(jget(m, "values")); len(vals) > 0 {
		p.StreamValues = map[uint32]*llo.LLOStreamValue{}
		for _, e := range vals {
			p.StreamValues[jU32(jget(e, "sid"))] = cdcJSVMsg(jget(e, "sv"))
		}
	}
	return proto.Marshal(p)
}

func cdcObsErr(err error) J {
	return resErr(errClass(err,
		[2]string{"duplicate channel ID in RemoveChannelIDs", "duplicate-remove"},
		[2]string{"invalid stream value", "bad-value"},
		[2]string{"cannot accept negative unix timestamp", "negative-timestamp"},
		[2]string{"expected protobuf", "bad-proto"}), err)
}

func cdcSVErr(err error) J {
	return cdcFixOther(resErr(errClass(err,
		[2]string{"nil stream value", "nil-value"},
		[2]string{"unknown StreamValueType", "unknown-type"},
		[2]string{"nested too deeply", "too-deep"}), err))
}

func cdcConfigErr(err error) J {
	return resErr(errClass(err,
		[2]string{"unexpected length", "bad-length"},
		[2]string{"expected b to have length", "bad-length"},
		[2]string{"unexpected version", "bad-version"},
		[2]string{"should not be greater", "min-gt-max"},
		[2]string{"doesn't fit", "does-not-fit"},
		[2]string{"unknown protocol version", "unknown-version"},
		[2]string{"default report cadence", "bad-interval"}), err)
}

func cdcOnchainJ(c llo.OnchainConfig) J {
	var pred any
	if c.PredecessorConfigDigest != nil {
		pred = hexs(c.PredecessorConfigDigest[:])
	}
	return J{"version": S(int(c.Version)), "pred": pred}
}

func init() {
	obsCodec := cdcObsCodec()
	obsCodecVerbose := cdcObsCodecOf(true)

	// {"obs":Obs (values may be null)} -> message dump (maps and removal ids sorted); "_rt" = Decode of the bytes
	RegOp("obs.encode", func(in J) any {
		in = normalise(in).(map[string]any)
		b, err := obsCodec.Encode(jObs(in["obs"]))
		if err != nil {
			return cdcObsErr(err)
		}
		if !heldUnchanged(b, func() {
			o2 := jObs(in["obs"])
			o2.UnixTimestampNanoseconds ^= 0xffff
			o2.ShouldRetire = !o2.ShouldRetire
			obsCodec.Encode(o2)
		}) {
			return clobbered("ObservationCodec.Encode")
		}
		m, merr := cdcObsMsgJ(b)
		if merr != nil {
			return J{"harness-error": "cannot unmarshal encoder output: " + merr.Error()}
		}
		res := resOK(m)
		d, derr := obsCodec.Decode(b)
		if derr != nil {
			res["_rt_err"] = derr.Error()
		} else {
			res["_rt"] = obsJ(d)
		}
		// the codec of a node that logs verbosely: same bytes out, same observation back
		_, errv := obsCodecVerbose.Encode(jObs(in["obs"]))
		dv, derrv := obsCodecVerbose.Decode(b)
		if errv != nil || (derr == nil) != (derrv == nil) || derr == nil && !cdcSame(normalise(obsJ(d)), normalise(obsJ(dv))) {
			return J{"ok": nil, "_clobbered": true, "_clobbered_by": "ObservationCodec of a plugin built with VerboseLogging encodes / decodes differently from the one built without"}
		}
		return res
	})
	// {"msg":ObsMsg} -> decoded observation
	RegOp("obs.decode", func(in J) any {
		in = normalise(in).(map[string]any)
		b, err := cdcObsMsgBytes(in["msg"])
		if err != nil {
			return J{"harness-error": "cannot marshal message: " + err.Error()}
		}
		o, err := obsCodec.Decode(b)
		if err != nil {
			return cdcObsErr(err)
		}
		return resOK(obsJ(o))
	})
	// implementation only
	RegOp("obs.decodebytes", func(in J) any {
		in = normalise(in).(map[string]any)
		o, err := obsCodec.Decode(jBytes(in["bytes"]))
		if err != nil {
			return cdcObsErr(err)
		}
		res := resOK(obsJ(o))
		b2, err := obsCodec.Encode(o)
		if err != nil {
			res["_reencode_err"] = err.Error()
			return res
		}
		o2, err := obsCodec.Decode(b2)
		if err != nil {
			res["_reencode_err"] = err.Error()
			return res
		}
		res["_stable"] = cdcSame(obsJ(o), obsJ(o2))
		return res
	})
	// {"ty":int,"value":hex} -> UnmarshalProtoStreamValue
	RegOp("sv.unbinary", func(in J) any {
		in = normalise(in).(map[string]any)
		sv, err := llo.UnmarshalProtoStreamValue(cdcJSVMsg(in))
		if err != nil {
			return cdcSVErr(err)
		}
		return resOK(svJ(sv))
	})
	// {"version","interval"} (encoded with the real Encode) | {"unparseable":true} | {"raw":hex} -> DecodeOffchainConfig
	RegOp("offchain.decode", func(in J) any {
		in = normalise(in).(map[string]any)
		var b []byte
		switch {
		case in["raw"] != nil:
			b = jBytes(in["raw"])
		case jBool(in["unparseable"]):
			b = []byte{0xff}
		default:
			var err error
			b, err = llo.OffchainConfig{ProtocolVersion: jU32(in["version"]), DefaultMinReportIntervalNanoseconds: jU64(in["interval"])}.Encode()
			if err != nil {
				return J{"harness-error": err.Error()}
			}
		}
		// independent parse of the same bytes for the monitor
		var parsed any
		p := &llo.LLOOffchainConfigProto{}
		if perr := proto.Unmarshal(b, p); perr == nil {
			parsed = J{"version": S(p.ProtocolVersion), "interval": S(p.DefaultMinReportIntervalNanoseconds)}
		}
		c, err := llo.DecodeOffchainConfig(b)
		if err != nil {
			res := cdcConfigErr(err)
			res["_parsed"] = parsed
			return res
		}
		res := resOK(J{"version": S(c.ProtocolVersion), "interval": S(c.DefaultMinReportIntervalNanoseconds)})
		res["_parsed"] = parsed
		return res
	})
	RegOp("llo.onchain.encode", func(in J) any {
		in = normalise(in).(map[string]any)
		c := llo.OnchainConfig{Version: uint8(jInt(in["version"]))}
		if in["pred"] != nil {
			var d types.ConfigDigest
			copy(d[:], jBytes(in["pred"]))
			c.PredecessorConfigDigest = &d
		}
		b, err := llo.EVMOnchainConfigCodec{}.Encode(c)
		if err != nil {
			return cdcConfigErr(err)
		}
		if !heldUnchanged(b, func() {
			other := llo.OnchainConfig{Version: c.Version}
			var d types.ConfigDigest
			for i := range d {
				d[i] = 0x5a
			}
			other.PredecessorConfigDigest = &d
			llo.EVMOnchainConfigCodec{}.Encode(other)
			llo.EVMOnchainConfigCodec{}.Encode(llo.OnchainConfig{Version: c.Version})
		}) {
			return clobbered("EVMOnchainConfigCodec.Encode")
		}
		res := resOK(hexs(b))
		if d, derr := (llo.EVMOnchainConfigCodec{}).Decode(b); derr == nil {
			res["_rt"] = cdcOnchainJ(d)
		} else {
			res["_rt_err"] = derr.Error()
		}
		return res
	})
	RegOp("llo.onchain.decode", func(in J) any {
		in = normalise(in).(map[string]any)
		c, err := llo.EVMOnchainConfigCodec{}.Decode(jBytes(in["bytes"]))
		if err != nil {
			return cdcConfigErr(err)
		}
		return resOK(cdcOnchainJ(c))
	})
	RegOp("mercury.onchain.encode", func(in J) any {
		in = normalise(in).(map[string]any)
		b, err := mercury.StandardOnchainConfigCodec{}.Encode(context.Background(), mercurytypes.OnchainConfig{Min: jBig(in["min"]), Max: jBig(in["max"])})
		if err != nil {
			return cdcConfigErr(err)
		}
		res := resOK(hexs(b))
		if d, derr := (mercury.StandardOnchainConfigCodec{}).Decode(context.Background(), b); derr == nil {
			res["_rt"] = J{"min": S(d.Min), "max": S(d.Max)}
		} else {
			res["_rt_err"] = derr.Error()
		}
		return res
	})
	// a sequence of Encode calls whose returned slices are all kept and read (and decoded) only after the
	// last call: an encoding must not be changed by later calls
	RegOp("mercury.onchain.batch", func(in J) any {
		in = normalise(in).(map[string]any)
		type kept struct {
			b   []byte
			err error
		}
		var ks []kept
		for _, c := range jArr(in["configs"]) {
			b, err := mercury.StandardOnchainConfigCodec{}.Encode(context.Background(), mercurytypes.OnchainConfig{Min: jBig(jget(c, "min")), Max: jBig(jget(c, "max"))})
			ks = append(ks, kept{b, err})
		}
		outs := make([]any, len(ks))
		for i, k := range ks {
			if k.err != nil {
				outs[i] = cdcConfigErr(k.err)
				continue
			}
			r := resOK(hexs(k.b))
			if d, derr := (mercury.StandardOnchainConfigCodec{}).Decode(context.Background(), k.b); derr == nil {
				r["_rt"] = J{"min": S(d.Min), "max": S(d.Max)}
			} else {
				r["_rt_err"] = derr.Error()
			}
			outs[i] = r
		}
		return resOK(outs)
	})
	RegOp("mercury.onchain.decode", func(in J) any {
		in = normalise(in).(map[string]any)
		c, err := mercury.StandardOnchainConfigCodec{}.Decode(context.Background(), jBytes(in["bytes"]))
		if err != nil {
			return cdcConfigErr(err)
		}
		return resOK(J{"min": S(c.Min), "max": S(c.Max)})
	})
	RegOp("int192.encode", func(in J) any {
		in = normalise(in).(map[string]any)
		b, err := mercury.EncodeValueInt192(jBig(in["v"]))
		if err != nil {
			return cdcConfigErr(err)
		}
		res := resOK(hexs(b))
		if d, derr := mercury.DecodeValueInt192(b); derr == nil {
			res["_rt"] = S(d)
		}
		return res
	})
	RegOp("int192.decode", func(in J) any {
		in = normalise(in).(map[string]any)
		v, err := mercury.DecodeValueInt192(jBytes(in["bytes"]))
		if err != nil {
			return cdcConfigErr(err)
		}
		return resOK(S(v))
	})
	// {"report":{"version","va":[{"id","va"}]}} -> the JSON object read back generically
	RegOp("retirement.encode", func(in J) any {
		in = normalise(in).(map[string]any)
		r := in["report"]
		b, err := llo.StandardRetirementReportCodec{}.Encode(llo.RetirementReport{ProtocolVersion: jU32(jget(r, "version")), ValidAfterNanoseconds: jVA(jget(r, "va"))})
		if err != nil {
			return resErr("other", err)
		}
		if !heldUnchanged(b, func() {
			llo.StandardRetirementReportCodec{}.Encode(llo.RetirementReport{ProtocolVersion: jU32(jget(r, "version")) ^ 1, ValidAfterNanoseconds: jVA(jget(r, "va"))})
		}) {
			return clobbered("RetirementReportCodec.Encode")
		}
		var generic struct {
			ProtocolVersion       json.Number
			ValidAfterNanoseconds map[string]json.Number
		}
		if err := json.Unmarshal(b, &generic); err != nil {
			return J{"harness-error": err.Error()}
		}
		m := map[uint32]uint64{}
		for k, v := range generic.ValidAfterNanoseconds {
			m[jU32(k)] = jU64(string(v))
		}
		res := resOK(J{"version": string(generic.ProtocolVersion), "va": vaJ(m)})
		if d, derr := (llo.StandardRetirementReportCodec{}).Decode(b); derr == nil {
			res["_rt"] = J{"version": S(d.ProtocolVersion), "va": vaJ(d.ValidAfterNanoseconds)}
		} else {
			res["_rt_err"] = derr.Error()
		}
		return res
	})
	// {"msg":{"version","va":[members in this order, duplicates allowed]}} -> decoded report
	RegOp("retirement.decode", func(in J) any {
		in = normalise(in).(map[string]any)
		m := in["msg"]
		var sb strings.Builder
		sb.WriteString(`{"ProtocolVersion":` + jBig(jget(m, "version")).String() + `,"ValidAfterNanoseconds":{`)
		for i, e := range jArr(jget(m, "va")) {
			if i > 0 {
				sb.WriteString(",")
			}
			sb.WriteString(`"` + jBig(jget(e, "id")).String() + `":` + jBig(jget(e, "va")).String())
		}
		sb.WriteString("}}")
		d, err := llo.StandardRetirementReportCodec{}.Decode([]byte(sb.String()))
		if err != nil {
			return resErr("other", err)
		}
		return resOK(J{"version": S(d.ProtocolVersion), "va": vaJ(d.ValidAfterNanoseconds)})
	})
	// implementation only
	RegOp("retirement.decodebytes", func(in J) any {
		in = normalise(in).(map[string]any)
		d, err := llo.StandardRetirementReportCodec{}.Decode(jBytes(in["bytes"]))
		if err != nil {
			return resErr("other", err)
		}
		return resOK(J{"version": S(d.ProtocolVersion), "va": vaJ(d.ValidAfterNanoseconds)})
	})
	// implementation only: Mercury off-chain config JSON round trip
	RegOp("mercury.offchain.roundtrip", func(in J) any {
		in = normalise(in).(map[string]any)
		c := mercury.OffchainConfig{ExpirationWindow: jU32(in["window"]), BaseUSDFee: jDec(in["fee"])}
		b, err := c.Encode()
		if err != nil {
			return resErr("other", err)
		}
		d, err := mercury.DecodeOffchainConfig(b)
		if err != nil {
			return resErr("other", err)
		}
		return resOK(J{"window": S(d.ExpirationWindow), "fee": decJ(d.BaseUSDFee), "_same": d.ExpirationWindow == c.ExpirationWindow && d.BaseUSDFee.Cmp(c.BaseUSDFee) == 0})
	})

	RegGen("C16", "observations within and beyond the protocol limits with values of every type, sign, magnitude and scale (incl. nil values, nested timestamped values), all uint64 timestamps; observation messages with duplicate removal ids, unknown-typed / byte-mutated / too deeply nested values, negative legacy timestamps; every stream value through its binary form; off-chain configs over versions {0,1,2,7,2^32-1} × intervals {0,1,2,…,2^64-1} and unparseable bytes; on-chain configs (LLO 64 bytes, Mercury 96 bytes) incl. wrong lengths, versions, min>max, boundary ±2^255; int192 boundary ±2^191; retirement reports incl. duplicate members; arbitrary / mutated bytes in an implementation-only stream. non-trivial = the case exercises a decoder or a round trip (everything except harness self-checks); distinct = different op line", genC16)
	RegMonitor("C16", monC16)
}

// ---------- generators ----------

func cdcRndObsJ(g *G, nVals int) J {
	var removes, updates, values []any
	for i := g.R.Intn(7); i > 0; i-- {
		removes = append(removes, S(cdcRndU32(g)))
	}
	for i := g.R.Intn(6); i > 0; i-- {
		updates = append(updates, J{"id": S(cdcRndU32(g)), "def": chanDefJ(cdcRndChanDef(g, 5))})
	}
	for i := 0; i < nVals; i++ {
		var v any
		if g.R.Intn(8) != 0 {
			v = svJ(cdcRndSV(g, false))
		}
		sid := g.R.Uint32()
		if g.R.Intn(2) == 0 {
			sid = uint32(g.R.Intn(3*nVals + 1))
		}
		values = append(values, J{"sid": S(sid), "v": v})
	}
	var att any
	if g.R.Intn(3) == 0 {
		att = hexs(cdcRndBytes(g, 50))
	}
	return J{"attested": att, "retire": g.R.Intn(2) == 0, "ts": S(cdcRndU64(g)), "removes": removes, "updates": updates, "values": values}
}

func cdcPow2(k int) *big.Int { return new(big.Int).Lsh(big.NewInt(1), uint(k)) }

func cdcBoundaryInts(g *G, bits int, n int) []*big.Int {
	var out []*big.Int
	for _, d := range []int64{-2, -1, 0, 1, 2} {
		out = append(out, big.NewInt(d), new(big.Int).Add(cdcPow2(bits-1), big.NewInt(d)), new(big.Int).Add(new(big.Int).Neg(cdcPow2(bits-1)), big.NewInt(d)),
			new(big.Int).Add(cdcPow2(bits), big.NewInt(d)), new(big.Int).Add(new(big.Int).Neg(cdcPow2(bits)), big.NewInt(d)))
	}
	for i := 0; i < n; i++ {
		b := new(big.Int).Rand(g.R, cdcPow2(1+g.R.Intn(bits+8)))
		if g.R.Intn(2) == 0 {
			b.Neg(b)
		}
		out = append(out, b)
	}
	return out
}

func cdcWord(v *big.Int, size int) []byte {
	m := new(big.Int).Mod(v, cdcPow2(8*size))
	return m.FillBytes(make([]byte, size))
}

func genC16(g *G) {
	obsCodec := cdcObsCodec()
	// ---- observations
	for i := 0; i < g.N(150, 3000); i++ {
		n := g.R.Intn(12)
		if i%40 == 0 {
			n = 200
		}
		g.Emit(J{"op": "obs.encode", "obs": cdcRndObsJ(g, n), "sigma": g.R.Intn(9)}, "obs-encode")
	}
	if g.Thorough() {
		g.Emit(J{"op": "obs.encode", "obs": cdcRndObsJ(g, 10000), "sigma": 3}, "obs-encode", "obs-10000")
	}
	{
		// exactly at (and one below) the documented limit on the number of stream values: all ids distinct, none nil
		for _, n := range []int{llo.MaxObservationStreamValuesLength - 1, llo.MaxObservationStreamValuesLength} {
			if g.Lite() {
				break
			}
			o := cdcRndObsJ(g, 0)
			vals := make([]any, n)
			base := g.R.Uint32() >> 1
			for k, pos := range g.R.Perm(n) {
				vals[pos] = J{"sid": S(base + uint32(k)), "v": svJ(cdcRndSV(g, false))}
			}
			o["values"] = vals
			g.Emit(J{"op": "obs.encode", "obs": o, "sigma": 1 + g.R.Intn(5)}, "obs-encode", "obs-at-value-limit")
		}
	}
	for _, ts := range []string{"0", "1", "9223372036854775807", "9223372036854775808", "18446744073709551615"} {
		g.Emit(J{"op": "obs.encode", "obs": J{"attested": nil, "retire": false, "ts": ts, "removes": []any{}, "updates": []any{}, "values": []any{}}}, "obs-encode", "obs-ts-boundary")
	}
	for i := 0; i < g.N(200, 4000); i++ {
		o := cdcRndObsJ(g, 1+g.R.Intn(6))
		for _, e := range o["values"].([]any) {
			if e.(J)["v"] == nil {
				e.(J)["v"] = svJ(cdcRndSV(g, false))
			}
		}
		done := watchOp(J{"op": "obs.encode", "obs": o, "sigma": 1})
		b, err := obsCodec.Encode(jObs(normalise(o)))
		done()
		if err != nil {
			panic(err)
		}
		m, err := cdcObsMsgJ(b)
		if err != nil {
			panic(err)
		}
		m = normalise(m).(map[string]any)
		tag := "obsmsg-valid"
		vals := jArr(m["values"])
		pick := func() map[string]any { return vals[g.R.Intn(len(vals))].(map[string]any)["sv"].(map[string]any) }
		switch g.R.Intn(10) {
		case 0:
			rm := jArr(m["removes"])
			if len(rm) > 0 {
				rm = append(rm, rm[g.R.Intn(len(rm))])
				g.R.Shuffle(len(rm), func(i, j int) { rm[i], rm[j] = rm[j], rm[i] })
				m["removes"] = rm
				tag = "obsmsg-duplicate-remove"
			}
		case 1:
			pick()["ty"] = []string{"3", "-1", "2147483647", "-2147483648"}[g.R.Intn(4)]
			tag = "obsmsg-unknown-type"
		case 2:
			pick()["ty"] = S(g.R.Intn(3))
			tag = "obsmsg-type-confusion"
		case 3, 4:
			sv := pick()
			sv["value"] = hexs(cdcMutateBytes(g, jBytes(sv["value"])))
			tag = "obsmsg-mutated-value"
		case 5:
			m["ts"] = "0"
			m["tsLegacy"] = S(-1 - g.R.Int63n(1000))
			tag = "obsmsg-negative-legacy"
		case 6:
			m["tsLegacy"] = S(int64(math.MinInt64) + g.R.Int63n(3))
			if g.R.Intn(2) == 0 {
				m["ts"] = "0"
			}
			tag = "obsmsg-legacy-min"
		case 7:
			m["ts"] = "0"
			m["tsLegacy"] = S(g.R.Int63())
			tag = "obsmsg-legacy-only"
		case 8:
			var v llo.StreamValue = llo.ToDecimal(cdcRndDec(g))
			for d := 0; d < 3+g.R.Intn(2); d++ {
				v = &llo.TimestampedStreamValue{ObservedAtNanoseconds: cdcRndU64(g), StreamValue: v}
			}
			vals[g.R.Intn(len(vals))].(map[string]any)["sv"] = cdcSVMsgJ(cdcMustSVMsg(v))
			tag = "obsmsg-too-deep"
		}
		op := J{"op": "obs.decode", "msg": m, "sigma": g.R.Intn(9)}
		if mb, err := cdcObsMsgBytes(normalise(m)); err == nil {
			if d, derr := obsCodec.Decode(mb); derr == nil {
				nz := false
				for _, v := range d.StreamValues {
					nz = nz || cdcHasNegZero(v)
				}
				if nz {
					g.EmitImpl(op, tag, "neg-zero")
					continue
				}
			}
		}
		g.Emit(op, tag)
	}
	for i := 0; i < g.N(300, 10000); i++ {
		var b []byte
		tag := "obs-bytes-random"
		if g.R.Intn(3) == 0 {
			b = cdcRndBytes(g, 60)
		} else {
			oj := cdcRndObsJ(g, g.R.Intn(5))
			done := watchOp(J{"op": "obs.encode", "obs": oj, "sigma": 1})
			enc, err := obsCodec.Encode(jObs(normalise(oj)))
			done()
			if err != nil {
				panic(err)
			}
			b = enc
			for k := 0; k <= g.R.Intn(3); k++ {
				b = cdcMutateBytes(g, b)
			}
			tag = "obs-bytes-mutated"
		}
		g.EmitImpl(J{"op": "obs.decodebytes", "bytes": hexs(b)}, tag)
	}
	// ---- stream values through their binary form
	for i := 0; i < g.N(300, 6000); i++ {
		v := cdcRndSV(g, true)
		m := cdcMustSVMsg(v)
		op := J{"op": "sv.unbinary", "ty": S(int32(m.Type)), "value": hexs(m.Value), "orig": svJ(v)}
		tag := "sv-roundtrip"
		if g.R.Intn(4) == 0 {
			delete(op, "orig")
			op["value"] = hexs(cdcMutateBytes(g, m.Value))
			if g.R.Intn(3) == 0 {
				op["ty"] = S(g.R.Intn(5) - 1)
			}
			tag = "sv-mutated"
			if sv, err := llo.UnmarshalProtoStreamValue(cdcJSVMsg(normalise(op))); err == nil && cdcHasNegZero(sv) {
				g.EmitImpl(op, tag, "neg-zero")
				continue
			}
		}
		g.Emit(op, tag)
	}
	// a timestamped value whose inner value is absent (only a byzantine sender can build it: the
	// encoder refuses nil inner values) must be rejected, at depth 1 and 2, alone and inside an observation
	for _, hx := range []string{"", "0805", "08ffffffffffffffffff01", "08051200", "0805120408021200", "08051206080212020805", "120408021200"} {
		g.Emit(J{"op": "sv.unbinary", "ty": "2", "value": hx}, "sv-nil-inner")
	}
	for _, hx := range []string{"", "0805", "120408021200"} {
		// LLOObservationProto.streamValues (field 7): map<uint32, LLOStreamValue{type=2, value=hx}>
		inner, _ := hex.DecodeString(hx)
		val := append([]byte{0x08, 0x02}, append([]byte{0x12, byte(len(inner))}, inner...)...)
		if len(inner) == 0 {
			val = []byte{0x08, 0x02}
		}
		entry := append([]byte{0x08, 0x07, 0x12, byte(len(val))}, val...)
		ob := append([]byte{0x3a, byte(len(entry))}, entry...)
		g.EmitImpl(J{"op": "obs.decodebytes", "bytes": hexs(ob)}, "obs-nil-inner")
	}
	// the same inside large observations (a decoder that takes another path above some size must refuse them too)
	for _, n := range []int{3, 300, 600, 2048, 9999} {
		for _, hx := range []string{"", "0805"} {
			inner, _ := hex.DecodeString(hx)
			svs := map[uint32]*llo.LLOStreamValue{}
			for k := 1; k < n; k++ {
				svs[uint32(k)] = cdcMustSVMsg(llo.ToDecimal(decimal.New(int64(1000+k), -2)))
			}
			svs[uint32(n/2+100000)] = &llo.LLOStreamValue{Type: llo.LLOStreamValue_TimestampedStreamValue, Value: inner}
			ob, err := proto.Marshal(&llo.LLOObservationProto{UnixTimestampNanoseconds: 5, StreamValues: svs})
			if err != nil {
				panic(err)
			}
			g.EmitImpl(J{"op": "obs.decodebytes", "bytes": hexs(ob), "mustReject": true}, "obs-nil-inner", fmt.Sprintf("obs-nil-inner-among-%d", n))
		}
	}
	// negative zero decimals (implementation only): sign byte 3, empty magnitude
	g.EmitImpl(J{"op": "sv.unbinary", "ty": "0", "value": "0000000003"}, "neg-zero")
	// ---- off-chain config
	for _, ver := range []uint32{0, 1, 2, 7, math.MaxUint32} {
		for _, iv := range []uint64{0, 1, 2, 1e9, math.MaxUint64} {
			g.Emit(J{"op": "offchain.decode", "version": S(ver), "interval": S(iv)}, "offchain")
		}
	}
	for i := 0; i < g.N(40, 500); i++ {
		g.Emit(J{"op": "offchain.decode", "version": S(uint32(g.R.Intn(3))), "interval": S(cdcRndU64(g))}, "offchain")
	}
	g.Emit(J{"op": "offchain.decode", "unparseable": true}, "offchain-unparseable")
	for i := 0; i < g.N(100, 2000); i++ {
		g.EmitImpl(J{"op": "offchain.decode", "raw": hexs(cdcRndBytes(g, 14))}, "offchain-raw")
	}
	genOffchainDamaged(g)
	// ---- Mercury on-chain config: sequences of encodes, results retained
	for i := 0; i < g.N(40, 600); i++ {
		cfgs := []any{}
		for k := 2 + g.R.Intn(5); k > 0; k-- {
			lo := new(big.Int).Rand(g.R, new(big.Int).Lsh(big.NewInt(1), uint(1+g.R.Intn(190))))
			hi := new(big.Int).Add(lo, new(big.Int).Rand(g.R, new(big.Int).Lsh(big.NewInt(1), uint(1+g.R.Intn(189)))))
			if g.R.Intn(3) == 0 {
				lo.Neg(lo)
			}
			cfgs = append(cfgs, J{"min": lo.String(), "max": hi.String()})
		}
		g.Emit(J{"op": "mercury.onchain.batch", "configs": cfgs}, "mercury-onchain-batch")
	}
	// ---- LLO on-chain config
	zero := make([]byte, 32)
	for _, ver := range []int{0, 1, 2, 255} {
		for _, pred := range []any{nil, hexs(zero), hexs(cdcRndBytes(g, 0)), hexs(append(make([]byte, 31), 1)), hexs(bytes.Repeat([]byte{0xff}, 32))} {
			if pred != nil && len(jBytes(pred)) != 32 {
				b := make([]byte, 32)
				g.R.Read(b)
				pred = hexs(b)
			}
			g.Emit(J{"op": "llo.onchain.encode", "version": ver, "pred": pred}, "llo-onchain-encode")
		}
	}
	for _, n := range []int{0, 1, 31, 32, 63, 64, 65, 96, 128} {
		g.Emit(J{"op": "llo.onchain.decode", "bytes": hexs(append(cdcWord(big.NewInt(1), 32), make([]byte, 128)...)[:n])}, "llo-onchain-length")
	}
	for _, v := range cdcBoundaryInts(g, 256, g.N(10, 200)) {
		d := make([]byte, 32)
		if g.R.Intn(3) != 0 {
			g.R.Read(d)
		}
		g.Emit(J{"op": "llo.onchain.decode", "bytes": hexs(append(cdcWord(v, 32), d...))}, "llo-onchain-version")
	}
	for i := 0; i < g.N(30, 500); i++ {
		d := make([]byte, 32)
		if g.R.Intn(4) != 0 {
			g.R.Read(d)
		}
		g.Emit(J{"op": "llo.onchain.decode", "bytes": hexs(append(cdcWord(big.NewInt(1), 32), d...))}, "llo-onchain-valid")
	}
	// ---- Mercury on-chain config
	ints := cdcBoundaryInts(g, 256, g.N(10, 300))
	for i := 0; i < g.N(120, 3000); i++ {
		a, b := ints[g.R.Intn(len(ints))], ints[g.R.Intn(len(ints))]
		g.Emit(J{"op": "mercury.onchain.encode", "min": a.String(), "max": b.String()}, "mercury-onchain-encode")
		ver := big.NewInt(1)
		if g.R.Intn(6) == 0 {
			ver = ints[g.R.Intn(len(ints))]
		}
		g.Emit(J{"op": "mercury.onchain.decode", "bytes": hexs(append(append(cdcWord(ver, 32), cdcWord(a, 32)...), cdcWord(b, 32)...))}, "mercury-onchain-decode")
	}
	for _, n := range []int{0, 32, 64, 95, 96, 97, 128} {
		g.Emit(J{"op": "mercury.onchain.decode", "bytes": hexs(append(cdcWord(big.NewInt(1), 32), make([]byte, 128)...)[:n])}, "mercury-onchain-length")
	}
	// ---- int192
	for _, v := range cdcBoundaryInts(g, 192, g.N(30, 1000)) {
		g.Emit(J{"op": "int192.encode", "v": v.String()}, "int192-encode")
		g.Emit(J{"op": "int192.decode", "bytes": hexs(cdcWord(v, 24))}, "int192-decode")
	}
	for _, n := range []int{0, 1, 23, 25, 32} {
		g.Emit(J{"op": "int192.decode", "bytes": hexs(bytes.Repeat([]byte{0x80}, n))}, "int192-length")
	}
	// ---- retirement reports
	for i := 0; i < g.N(60, 1500); i++ {
		var va []any
		for k := g.R.Intn(8); k > 0; k-- {
			va = append(va, J{"id": S(cdcRndU32(g)), "va": S(cdcRndU64(g))})
		}
		ver := S(cdcRndU32(g))
		g.Emit(J{"op": "retirement.encode", "report": J{"version": ver, "va": va}, "sigma": g.R.Intn(2)}, "retirement-encode")
		if len(va) > 0 && g.R.Intn(2) == 0 {
			va = append(va, J{"id": va[g.R.Intn(len(va))].(J)["id"], "va": S(cdcRndU64(g))})
		}
		g.Emit(J{"op": "retirement.decode", "msg": J{"version": ver, "va": va}}, "retirement-decode")
	}
	for _, s := range []string{``, `null`, `{}`, `[]`, `{"ProtocolVersion":-1}`, `{"ProtocolVersion":4294967296}`, `{"ValidAfterNanoseconds":{"x":1}}`,
		`{"ValidAfterNanoseconds":{"4294967296":1}}`, `{"ValidAfterNanoseconds":{"1":18446744073709551616}}`, `{"ValidAfterNanoseconds":{"1":-1}}`,
		`{"ValidAfterNanoseconds":{"-1":1}}`, `{"ValidAfterNanoseconds":{"01":1,"1":2}}`, `{"ValidAfterNanoseconds":null}`, `{"protocolversion":3,"VALIDAFTERNANOSECONDS":{"5":6}}`} {
		g.EmitImpl(J{"op": "retirement.decodebytes", "bytes": hexs([]byte(s))}, "retirement-bytes")
	}
	// ---- Mercury off-chain config (implementation only)
	for i := 0; i < g.N(40, 500); i++ {
		d := cdcRndDec(g)
		if d.Exponent() > 1000 || d.Exponent() < -1000 {
			d = decimal.NewFromBigInt(d.Coefficient(), d.Exponent()%1000)
		}
		g.EmitImpl(J{"op": "mercury.offchain.roundtrip", "window": S(cdcRndU32(g)), "fee": decJ(d)}, "mercury-offchain")
	}
}

// ---------- monitor ----------

func cdcFromWord(b []byte) *big.Int {
	v := new(big.Int).SetBytes(b)
	if len(b) > 0 && b[0]&0x80 != 0 {
		v.Sub(v, cdcPow2(8*len(b)))
	}
	return v
}

func cdcFits(v *big.Int, bits int) bool {
	return v.Cmp(new(big.Int).Neg(cdcPow2(bits-1))) >= 0 && v.Cmp(cdcPow2(bits-1)) < 0
}

func monC16(op J, res any) (viol []Violation, nontrivial bool) {
	name := jStr(op["op"])
	r := jObj(res)
	bad := func(sig, d string) { viol = append(viol, Violation{Sig: "C16/" + sig, Desc: d, Op: op, Res: res}) }
	if r["panic"] != nil {
		bad("panic", name+" panicked")
		return
	}
	if r["harness-error"] != nil {
		bad("harness-error", fmt.Sprint(r["harness-error"]))
		return
	}
	nontrivial = true
	ok := r["ok"] != nil
	switch name {
	case "obs.encode":
		if !ok {
			bad("obs-encode-rejected", "Encode failed on an observation: "+fmt.Sprint(r["_msg"]))
			return
		}
		want := normalise(obsJ(jObs(op["obs"]))).(map[string]any)
		var vals []any
		for _, e := range jArr(want["values"]) {
			if jget(e, "v") != nil {
				vals = append(vals, e)
			}
		}
		if vals == nil {
			vals = []any{}
		}
		want["values"] = vals
		if r["_rt_err"] != nil {
			bad("obs-roundtrip-error", "Decode(Encode(obs)) failed: "+fmt.Sprint(r["_rt_err"]))
		} else if !cdcSame(r["_rt"], want) {
			bad("obs-roundtrip-differs", "Decode(Encode(obs)) differs from obs without its nil values")
		}
	case "obs.decode":
		m := op["msg"]
		mustFail := false
		seen := map[string]bool{}
		for _, id := range jArr(jget(m, "removes")) {
			k := jBig(id).String()
			if seen[k] {
				mustFail = true
			}
			seen[k] = true
		}
		for _, e := range jArr(jget(m, "values")) {
			sv := jget(e, "sv")
			if sv == nil {
				continue // protobuf-go turns a nil map value into an empty message
			}
			if t := jBig(jget(sv, "ty")).Int64(); t < 0 || t > 2 {
				mustFail = true
			}
		}
		ts, legacy := jBig(jget(m, "ts")), jBig(jget(m, "tsLegacy"))
		if ts.Sign() == 0 && legacy.Sign() < 0 {
			mustFail = true
		}
		if mustFail && ok {
			bad("obs-malformed-accepted", "an observation with duplicate removal ids / unknown-typed value / negative legacy timestamp decoded")
		}
		if ok {
			want := ts
			if ts.Sign() == 0 {
				want = legacy
			}
			if jBig(jget(r["ok"], "ts")).Cmp(want) != 0 {
				bad("obs-timestamp-rule", "decoded timestamp does not follow the legacy/new field rule")
			}
		}
	case "obs.decodebytes":
		if ok && jBool(op["mustReject"]) {
			bad("obs-nil-inner-accepted", "an observation holding a timestamped value without an inner value was accepted (nil values are documented as rejected)")
		}
		if ok {
			if r["_reencode_err"] != nil {
				bad("obs-decoded-not-encodable", fmt.Sprint(r["_reencode_err"]))
			} else if !jBool(r["_stable"]) {
				bad("obs-decoded-not-stable", "Decode∘Encode changes an observation decoded from bytes")
			}
		}
	case "sv.unbinary":
		if ok && cdcHasNilInner(r["ok"]) {
			bad("sv-nil-inner-accepted", "a timestamped value without an inner value decoded (nil values are documented as rejected)")
		}
		if orig := op["orig"]; orig != nil {
			if cdcSVDepth(orig) > 2 {
				if ok {
					bad("sv-deep-nesting-decoded", "a timestamped value nested deeper than the limit decoded")
				}
			} else if !ok {
				bad("sv-roundtrip-error", "UnmarshalBinary(MarshalBinary(v)) failed: "+fmt.Sprint(r["_msg"]))
			} else if !cdcSame(r["ok"], orig) {
				bad("sv-roundtrip-differs", "UnmarshalBinary(MarshalBinary(v)) differs from v")
			}
		}
	case "offchain.decode":
		if ok {
			// whatever the bytes were, a configuration that decodes without error is a valid one
			ver, iv := jBig(jget(r["ok"], "version")), jBig(jget(r["ok"], "interval"))
			if !((ver.Sign() == 0 && iv.Sign() == 0) || (ver.Cmp(big.NewInt(1)) == 0 && iv.Sign() > 0)) {
				bad("offchain-decoded-invalid", fmt.Sprintf("DecodeOffchainConfig returned version %v interval %v without error", ver, iv))
			}
		}
		if jBool(op["unparseable"]) {
			return
		}
		var ver, iv *big.Int
		if op["raw"] != nil {
			p := r["_parsed"]
			if p == nil {
				return // not a protobuf message: documented to decode to the zero config
			}
			ver, iv = jBig(jget(p, "version")), jBig(jget(p, "interval"))
		} else {
			ver, iv = jBig(op["version"]), jBig(op["interval"])
		}
		valid := (ver.Sign() == 0 && iv.Sign() == 0) || (ver.Cmp(big.NewInt(1)) == 0 && iv.Sign() > 0)
		if ok != valid {
			bad("offchain-decode-iff-valid", fmt.Sprintf("version %v interval %v: valid=%v but decode ok=%v", ver, iv, valid, ok))
		}
		if ok && (jBig(jget(r["ok"], "version")).Cmp(ver) != 0 || jBig(jget(r["ok"], "interval")).Cmp(iv) != 0) {
			bad("offchain-roundtrip-differs", "decoded off-chain config differs from the encoded one")
		}
	case "llo.onchain.encode":
		if ok != (jInt(op["version"]) == 1) {
			bad("llo-onchain-encode-version", "Encode must succeed exactly for version 1")
		}
		if ok {
			want := J{"version": "1", "pred": op["pred"]}
			if op["pred"] != nil && bytes.Equal(jBytes(op["pred"]), make([]byte, 32)) {
				want["pred"] = nil
			}
			if len(jBytes(r["ok"])) != 64 {
				bad("llo-onchain-length", "encoded on-chain config is not 64 bytes")
			}
			if r["_rt"] == nil || !cdcSame(r["_rt"], normalise(want)) {
				bad("llo-onchain-roundtrip", "Decode(Encode(c)) differs from c")
			}
		}
	case "llo.onchain.decode":
		b := jBytes(op["bytes"])
		valid := len(b) == 64 && cdcFromWord(b[:32]).Cmp(big.NewInt(1)) == 0
		if ok != valid {
			bad("llo-onchain-decode-rejects", fmt.Sprintf("length %d: valid=%v but decode ok=%v", len(b), valid, ok))
		}
	case "mercury.onchain.batch":
		outs := jArr(r["ok"])
		for i, c := range jArr(op["configs"]) {
			if i >= len(outs) {
				break
			}
			sub := J{"op": "mercury.onchain.encode", "min": jget(c, "min"), "max": jget(c, "max")}
			vs, _ := monC16(sub, outs[i])
			for _, x := range vs {
				x.Op, x.Res = op, res
				x.Desc = fmt.Sprintf("encode %d of a sequence (results read after the last call): %s", i, x.Desc)
				viol = append(viol, x)
			}
		}
	case "mercury.onchain.encode":
		mn, mx := jBig(op["min"]), jBig(op["max"])
		fits := cdcFits(mn, 256) && cdcFits(mx, 256)
		if ok != fits {
			bad("mercury-onchain-encode-range", "Encode must succeed exactly when min and max fit int256")
		}
		if ok {
			if len(jBytes(r["ok"])) != 96 {
				bad("mercury-onchain-length", "encoded on-chain config is not 96 bytes")
			}
			if mn.Cmp(mx) <= 0 {
				if r["_rt"] == nil || jBig(jget(r["_rt"], "min")).Cmp(mn) != 0 || jBig(jget(r["_rt"], "max")).Cmp(mx) != 0 {
					bad("mercury-onchain-roundtrip", "Decode(Encode(c)) differs from c")
				}
			} else if r["_rt"] != nil {
				bad("mercury-onchain-min-gt-max", "a config with min > max decoded")
			}
		}
	case "mercury.onchain.decode":
		b := jBytes(op["bytes"])
		valid := len(b) == 96 && cdcFromWord(b[:32]).Cmp(big.NewInt(1)) == 0 && cdcFromWord(b[32:64]).Cmp(cdcFromWord(b[64:96])) <= 0
		if ok != valid {
			bad("mercury-onchain-decode-rejects", fmt.Sprintf("length %d: valid=%v but decode ok=%v", len(b), valid, ok))
		}
		if ok && valid && (jBig(jget(r["ok"], "min")).Cmp(cdcFromWord(b[32:64])) != 0 || jBig(jget(r["ok"], "max")).Cmp(cdcFromWord(b[64:96])) != 0) {
			bad("mercury-onchain-decode-value", "decoded min/max are not the two's complement values of the words")
		}
	case "int192.encode":
		v := jBig(op["v"])
		if ok != cdcFits(v, 192) {
			bad("int192-encode-range", "EncodeValueInt192 must succeed exactly on int192 values")
		}
		if ok && (len(jBytes(r["ok"])) != 24 || r["_rt"] == nil || jBig(r["_rt"]).Cmp(v) != 0 || !bytes.Equal(jBytes(r["ok"]), cdcWord(v, 24))) {
			bad("int192-roundtrip", "int192 encoding is not the 24-byte two's complement form or does not decode back")
		}
	case "int192.decode":
		b := jBytes(op["bytes"])
		if ok != (len(b) == 24) {
			bad("int192-decode-length", "DecodeValueInt192 must succeed exactly on 24 bytes")
		}
		if ok && len(b) == 24 && jBig(r["ok"]).Cmp(cdcFromWord(b)) != 0 {
			bad("int192-decode-value", "decoded value is not the two's complement value")
		}
	case "retirement.encode":
		if !ok {
			bad("retirement-encode-rejected", "retirement report Encode failed")
			return
		}
		rp := op["report"]
		want := normalise(J{"version": jBig(jget(rp, "version")).String(), "va": vaJ(jVA(jget(rp, "va")))})
		if r["_rt"] == nil || !cdcSame(r["_rt"], want) {
			bad("retirement-roundtrip", "Decode(Encode(report)) differs from report")
		}
	case "mercury.offchain.roundtrip":
		if !ok || !jBool(jget(r["ok"], "_same")) {
			bad("mercury-offchain-roundtrip", "Mercury off-chain config does not round-trip")
		}
	}
	return
}

// cdcHasNilInner: does a decoded stream value (JSON form) contain a timestamped value whose inner value is nil?
func cdcHasNilInner(v any) bool {
	m := jObj(v)
	if m == nil {
		return false
	}
	if jStr(m["t"]) == "tsv" {
		if m["v"] == nil {
			return true
		}
		return cdcHasNilInner(m["v"])
	}
	return false
}

// genOffchainDamaged: valid off-chain config encodings with a damaged tail (truncated, garbage appended):
// protobuf keeps the fields it parsed before failing, so a decoder that copies before checking the error
// would hand out a half-parsed, unvalidated configuration
func genOffchainDamaged(g *G) {
	for _, ver := range []uint32{0, 1, 2} {
		for _, iv := range []uint64{0, 1, 1e9} {
			enc, err := llo.OffchainConfig{ProtocolVersion: ver, DefaultMinReportIntervalNanoseconds: iv}.Encode()
			if err != nil {
				continue
			}
			for cut := 1; cut <= 3 && cut < len(enc); cut++ {
				g.EmitImpl(J{"op": "offchain.decode", "raw": hexs(enc[:len(enc)-cut])}, "offchain-raw", "truncated")
			}
			g.EmitImpl(J{"op": "offchain.decode", "raw": hexs(append(append([]byte{}, enc...), 0xff))}, "offchain-raw", "garbage-tail")
			g.EmitImpl(J{"op": "offchain.decode", "raw": hexs(append(append([]byte{}, enc...), 0x10))}, "offchain-raw", "garbage-tail")
		}
	}
	// field 1 set to 1 and then a truncated field 2
	g.EmitImpl(J{"op": "offchain.decode", "raw": "080110"}, "offchain-raw", "truncated")
	g.EmitImpl(J{"op": "offchain.decode", "raw": "08011080"}, "offchain-raw", "truncated")
}

func init() {
	// C03 quantifies over accepted configurations: the same damaged encodings under C03's name
	RegGen("C03", "plus damaged off-chain config encodings (a configuration that decodes without error must be a valid one)", genOffchainDamaged)
	RegMonitor("C03", func(op J, res any) (viol []Violation, nontrivial bool) {
		if jStr(op["op"]) != "offchain.decode" {
			return nil, false
		}
		vs, _ := monC16(op, res)
		for _, v := range vs {
			if v.Sig == "C16/offchain-decoded-invalid" {
				v.Sig = "C03/invalid-config-accepted"
				viol = append(viol, v)
			}
		}
		return viol, false
	})
}
