namespace Med
variable {α : Type} (le : α → α → Bool)

def Total : Prop := ∀ a b, le a b = true ∨ le b a = true
def Trans : Prop := ∀ a b c, le a b = true → le b c = true → le a c = true

theorem countP_take_all (p : α → Bool) (s : List α) (m : Nat) (hm : m ≤ s.length)
    (h : ∀ i (hi : i < s.length), i < m → p s[i] = true) : m ≤ s.countP p := by
  induction s generalizing m with
  | nil => simp at hm; omega
  | cons a t ih =>
    cases m with
    | zero => omega
    | succ m =>
      have ha : p a = true := h 0 (by simp) (by omega)
      have := ih m (by simp at hm; omega) (fun i hi him => by
        have := h (i+1) (by simp; omega) (by omega)
        simpa using this)
      simp [List.countP_cons, ha]; omega

theorem countP_drop_all (p : α → Bool) (s : List α) (k : Nat)
    (h : ∀ i (hi : i < s.length), k ≤ i → p s[i] = true) : s.length - k ≤ s.countP p := by
  induction s generalizing k with
  | nil => simp
  | cons a t ih =>
    cases k with
    | zero =>
      have ha : p a = true := h 0 (by simp) (by omega)
      have := ih 0 (fun i hi _ => by
        have := h (i+1) (by simp; omega) (by omega)
        simpa using this)
      simp [List.countP_cons, ha]; omega
    | succ k =>
      have := ih k (fun i hi hk => by
        have := h (i+1) (by simp; omega) (by omega)
        simpa using this)
      simp [List.countP_cons]
      split <;> omega

/-- rank-k median of a sorted list lies within the range of the honest values whenever honest
    values strictly outnumber the others -/
theorem median_in_honest_range (tot : Total le) (tr : Trans le)
    (s hs bs : List α) (hperm : s.Perm (hs ++ bs)) (hsorted : s.Pairwise (fun a b => le a b = true))
    (hmaj : bs.length < hs.length) (hk : s.length / 2 < s.length) :
    (∃ lo ∈ hs, le lo s[s.length / 2] = true) ∧ (∃ hi ∈ hs, le s[s.length / 2] hi = true) := by
  have hlen : s.length = hs.length + bs.length := by
    have := hperm.length_eq; simpa using this
  have hrefl : ∀ a, le a a = true := fun a => by cases tot a a <;> assumption
  have hpw := List.pairwise_iff_getElem.mp hsorted
  constructor
  · -- lower bound
    apply Classical.byContradiction
    intro hno
    have hno' : ∀ h ∈ hs, le h s[s.length/2] = false := by
      intro h hh
      cases hc : le h s[s.length/2] with
      | false => rfl
      | true => exact absurd ⟨h, hh, hc⟩ hno
    let p : α → Bool := fun x => le x s[s.length/2]
    have h1 : s.length/2 + 1 ≤ s.countP p := by
      apply countP_take_all p s (s.length/2+1) (by omega)
      intro i hi him
      by_cases hik : i = s.length/2
      · subst hik; exact hrefl _
      · exact hpw i (s.length/2) hi hk (by omega)
    have h2 : s.countP p = hs.countP p + bs.countP p := by
      rw [hperm.countP_eq, List.countP_append]
    have h3 : hs.countP p = 0 := by
      rw [List.countP_eq_zero]; intro a ha; simp [p, hno' a ha]
    have h4 : bs.countP p ≤ bs.length := List.countP_le_length
    omega
  · apply Classical.byContradiction
    intro hno
    have hno' : ∀ h ∈ hs, le s[s.length/2] h = false := by
      intro h hh
      cases hc : le s[s.length/2] h with
      | false => rfl
      | true => exact absurd ⟨h, hh, hc⟩ hno
    let p : α → Bool := fun x => le s[s.length/2] x
    have h1 : s.length - s.length/2 ≤ s.countP p := by
      apply countP_drop_all p s (s.length/2)
      intro i hi hki
      by_cases hik : i = s.length/2
      · subst hik; exact hrefl _
      · exact hpw (s.length/2) i hk hi (by omega)
    have h2 : s.countP p = hs.countP p + bs.countP p := by
      rw [hperm.countP_eq, List.countP_append]
    have h3 : hs.countP p = 0 := by
      rw [List.countP_eq_zero]; intro a ha; simp [p, hno' a ha]
    have h4 : bs.countP p ≤ bs.length := List.countP_le_length
    omega
end Med
#print axioms Med.median_in_honest_range
