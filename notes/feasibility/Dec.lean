namespace DSV
structure Dec where
  coef : Int
  exp  : Int
  deriving DecidableEq, Repr

def pow10 (k : Int) : Int := (10 : Int) ^ k.toNat

/-- value scaled to exponent `e` (meaningful when e ≤ d.exp) -/
def Dec.scaled (d : Dec) (e : Int) : Int := d.coef * pow10 (d.exp - e)

/-- shopspring `Cmp`: rescale both to the smaller exponent, compare coefficients -/
def Dec.le (a b : Dec) : Bool :=
  let m := min a.exp b.exp
  decide (a.scaled m ≤ b.scaled m)

theorem pow10_pos (k : Int) : 0 < pow10 k := by
  unfold pow10; exact Int.pow_pos (by decide)

theorem pow10_add (a b : Int) (ha : 0 ≤ a) (hb : 0 ≤ b) : pow10 (a + b) = pow10 a * pow10 b := by
  unfold pow10
  have : (a + b).toNat = a.toNat + b.toNat := by omega
  rw [this, Int.pow_add]

/-- comparing at any common lower exponent gives the same answer -/
theorem scaled_le_iff (a b : Dec) (e e' : Int) (he : e ≤ a.exp) (he' : e ≤ b.exp) (h : e' ≤ e) :
    a.scaled e ≤ b.scaled e ↔ a.scaled e' ≤ b.scaled e' := by
  have key : ∀ d : Dec, e ≤ d.exp → d.scaled e' = d.scaled e * pow10 (e - e') := by
    intro d hd
    unfold Dec.scaled
    have : d.exp - e' = (d.exp - e) + (e - e') := by omega
    rw [this, pow10_add _ _ (by omega) (by omega), Int.mul_assoc]
  rw [key a he, key b he']
  have hp := pow10_pos (e - e')
  constructor
  · intro hle; exact Int.mul_le_mul_of_nonneg_right hle (Int.le_of_lt hp)
  · intro hle; exact Int.le_of_mul_le_mul_right hle hp

theorem Dec.le_iff (a b : Dec) (e : Int) (ha : e ≤ a.exp) (hb : e ≤ b.exp) :
    a.le b = true ↔ a.scaled e ≤ b.scaled e := by
  unfold Dec.le
  simp only [decide_eq_true_eq]
  exact scaled_le_iff a b (min a.exp b.exp) e (Int.min_le_left _ _) (Int.min_le_right _ _) (by omega)

theorem Dec.le_total (a b : Dec) : a.le b = true ∨ b.le a = true := by
  let e := min a.exp b.exp
  rw [Dec.le_iff a b e (Int.min_le_left _ _) (Int.min_le_right _ _),
      Dec.le_iff b a e (Int.min_le_right _ _) (Int.min_le_left _ _)]
  omega

theorem Dec.le_trans (a b c : Dec) (h1 : a.le b = true) (h2 : b.le c = true) : a.le c = true := by
  let e := min a.exp (min b.exp c.exp)
  have ea : e ≤ a.exp := Int.min_le_left _ _
  have eb : e ≤ b.exp := by have := Int.min_le_right a.exp (min b.exp c.exp); have := Int.min_le_left b.exp c.exp; omega
  have ec : e ≤ c.exp := by have := Int.min_le_right a.exp (min b.exp c.exp); have := Int.min_le_right b.exp c.exp; omega
  rw [Dec.le_iff a b e ea eb] at h1
  rw [Dec.le_iff b c e eb ec] at h2
  rw [Dec.le_iff a c e ea ec]
  omega
#print axioms Dec.le_trans
end DSV
