/-! Scratch skeleton: LLO outcome state machine (to validate the design's statements type-check) -/
namespace DSV

/-- Go map = entry list with distinct keys; iteration order is whatever the schedule says. -/
abbrev GoMap (κ ν : Type) := List (κ × ν)

namespace GoMap
variable {κ ν : Type} [DecidableEq κ]
def get? (m : GoMap κ ν) (k : κ) : Option ν := (m.find? (·.1 == k)).map (·.2)
def contains (m : GoMap κ ν) (k : κ) : Bool := m.any (·.1 == k)
def erase (m : GoMap κ ν) (k : κ) : GoMap κ ν := m.filter (·.1 != k)
def set (m : GoMap κ ν) (k : κ) (v : ν) : GoMap κ ν :=
  if m.contains k then m.map (fun e => if e.1 == k then (k, v) else e) else m ++ [(k, v)]
def keys (m : GoMap κ ν) : List κ := m.map (·.1)
def WF (m : GoMap κ ν) : Prop := m.keys.Nodup
/-- extensional equality of maps -/
def Equiv (a b : GoMap κ ν) : Prop := a.Perm b
end GoMap

inductive Stage | staging | production | retired | other (s : String)
  deriving DecidableEq, Repr

structure Dec where
  coef : Int
  exp  : Int
  deriving DecidableEq, Repr

inductive SV
  | dec (d : Dec)
  | quote (bid bench ask : Dec)
  | tsv (observedAt : Nat) (inner : SV)
  deriving DecidableEq, Repr

structure Stream where
  sid : Nat
  agg : Nat
  deriving DecidableEq, Repr

structure ChanDef where
  format  : Nat
  streams : List Stream
  opts    : List UInt8
  deriving DecidableEq, Repr

structure Outcome where
  stage : Stage
  ts    : Nat
  defs  : GoMap Nat ChanDef
  va    : GoMap Nat Nat
  aggs  : GoMap (Nat × Nat) SV
  deriving Repr

structure RetirementReport where
  version : Nat
  va : GoMap Nat Nat

structure Obs where
  attested     : List UInt8
  shouldRetire : Bool
  ts           : Nat
  removes      : List Nat            -- distinct (decode rejects duplicates)
  updates      : GoMap Nat ChanDef
  values       : GoMap Nat SV

structure Cfg where
  f           : Nat
  version     : Nat      -- protocol version 0 / 1
  minInterval : Nat
  hasPred     : Bool
  check       : List UInt8 → Option RetirementReport   -- PredecessorRetirementReportCache.Check…
  hashOf      : Nat × ChanDef → List UInt8             -- MakeChannelHash (sha256 in the driver)
  secondsRes  : Nat → Bool                             -- IsSecondsResolution
  maxChannels : Nat                                    -- Facts.MaxOutcomeChannelDefinitionsLength

def Cfg.valid (c : Cfg) : Prop := (c.version = 0 ∧ c.minInterval = 0) ∨ (c.version = 1 ∧ 1 ≤ c.minInterval)

inductive Unreportable | retired | noDef | noVA | tooSoon | sameSecond
  deriving DecidableEq, Repr

def u64 : Nat := 2^64

/-- `Outcome.IsReportable` (pinned tree: the sum wraps in uint64) -/
def isReportable (cfg : Cfg) (o : Outcome) (c : Nat) : Option Unreportable :=
  if o.stage = .retired then some .retired else
  match o.defs.get? c with
  | none => some .noDef
  | some cd =>
    match o.va.get? c with
    | none => some .noVA
    | some va =>
      if cfg.version > 0 ∧ o.ts < (va + cfg.minInterval) % u64 then some .tooSoon
      else if (cfg.version = 0 ∨ cfg.secondsRes cd.format) ∧ va / 1000000000 ≥ o.ts / 1000000000 then some .sameSecond
      else none

def reported (cfg : Cfg) (o : Outcome) (c : Nat) : Prop := isReportable cfg o c = none

structure Report where
  channel  : Nat
  validAfter : Nat
  obsTs    : Nat
  values   : List (Option SV)
  specimen : Bool
  deriving Repr

/-- abstract step and run, to state the chain theorem -/
opaque step (cfg : Cfg) (prev : Outcome) (obs : List Obs) : Except String Outcome
opaque codecRoundTrip (cfg : Cfg) (o : Outcome) : Except String Outcome
opaque removedBy (cfg : Cfg) (obs : List Obs) (c : Nat) : Prop   -- > f removal votes for c
opaque promotedBy (cfg : Cfg) (prev : Outcome) (obs : List Obs) : Prop

def truncCfg (cfg : Cfg) (t : Nat) : Nat := if cfg.version = 0 then t / 1000000000 * 1000000000 else t

/-- outcomes as seen by Reports / next round: O₀ given, then step ∘ roundtrip -/
def run (cfg : Cfg) (o0 : Outcome) : List (List Obs) → List Outcome
  | [] => []
  | r :: rs =>
    match step cfg o0 r >>= codecRoundTrip cfg with
    | .ok o1 => o1 :: run cfg o1 rs
    | .error _ => []        -- a failed round produces no outcome; history stops (OCR retries with other inputs)

/-- timestamp of the last outcome in `os` (oldest first) that reported `c` -/
def lastReportTs (cfg : Cfg) (c : Nat) (os : List Outcome) : Option Nat :=
  (os.reverse.find? (fun o => decide (isReportable cfg o c = none))).map (·.ts)

/-- C03 invariant, statement shape: validAfter of the newest outcome = end of the last report before it -/
def ChainInvariant : Prop :=
  ∀ (cfg : Cfg), cfg.valid →
  ∀ (o0 : Outcome) (hist : List (List Obs)) (c va0 : Nat),
    o0.va.get? c = some va0 →
    (∀ r ∈ hist, ¬ removedBy cfg r c) →
    (∀ o r, ¬ promotedBy cfg o r) →
    ∀ n o, (run cfg o0 hist)[n]? = some o →
      o.va.get? c = some (truncCfg cfg ((lastReportTs cfg c (o0 :: (run cfg o0 hist).take n)).getD va0))

/-- every report the plugin emits starts strictly before it ends -/
def StartBeforeEnd : Prop :=
  ∀ (cfg : Cfg), cfg.valid → ∀ (o : Outcome) (c va : Nat),
    reported cfg o c → o.va.get? c = some va → va + cfg.minInterval < u64 → va < o.ts


theorem startBeforeEnd : StartBeforeEnd := by
  intro cfg hv o c va hrep hva hnw
  unfold reported isReportable at hrep
  split at hrep
  · cases hrep
  · split at hrep
    · cases hrep
    · rename_i cd _
      rw [hva] at hrep
      simp only at hrep
      split at hrep
      · cases hrep
      · rename_i h1
        split at hrep
        · cases hrep
        · rename_i h2
          rw [Nat.mod_eq_of_lt hnw] at h1
          rcases hv with ⟨hv0, hi0⟩ | ⟨hv1, hi1⟩
          · -- version 0: seconds strict
            have : ¬ (va / 1000000000 ≥ o.ts / 1000000000) := by
              intro hge; exact h2 ⟨Or.inl hv0, hge⟩
            omega
          · have : ¬ (o.ts < va + cfg.minInterval) := by
              intro hlt; exact h1 ⟨by omega, hlt⟩
            omega
#print axioms startBeforeEnd
end DSV
