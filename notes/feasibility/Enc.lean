namespace Enc
/-- big-endian bytes, fixed length -/
def beBytes : Nat → Nat → List Nat
  | 0, _ => []
  | len+1, n => beBytes len (n / 256) ++ [n % 256]

def fromBE (bs : List Nat) : Nat := bs.foldl (fun acc b => acc * 256 + b) 0

theorem beBytes_length (len n : Nat) : (beBytes len n).length = len := by
  induction len generalizing n with
  | zero => rfl
  | succ k ih => simp [beBytes, ih]

theorem fromBE_append_single (bs : List Nat) (b : Nat) : fromBE (bs ++ [b]) = fromBE bs * 256 + b := by
  simp [fromBE, List.foldl_append]

theorem fromBE_beBytes (len n : Nat) : fromBE (beBytes len n) = n % 256 ^ len := by
  induction len generalizing n with
  | zero => simp [beBytes, fromBE, Nat.mod_one]
  | succ k ih =>
    rw [beBytes, fromBE_append_single, ih]
    rw [Nat.pow_succ, Nat.mul_comm (256^k) 256, Nat.mod_mul, Nat.mul_comm]
    omega

theorem beBytes_byte (len n : Nat) : ∀ b ∈ beBytes len n, b < 256 := by
  induction len generalizing n with
  | zero => simp [beBytes]
  | succ k ih =>
    intro b hb
    simp [beBytes] at hb
    rcases hb with hb | hb
    · exact ih _ _ hb
    · omega

/-- model of EncodePackedBigInt for intN / uintN -/
def encodePacked (signed : Bool) (bits : Nat) (v : Int) : Option (List Nat) :=
  if signed then
    if v < -(2:Int)^(bits-1) ∨ v > (2:Int)^(bits-1) - 1 then none
    else some (beBytes (bits/8) (v % (2:Int)^bits).toNat)
  else
    if v < 0 ∨ v ≥ (2:Int)^bits then none
    else some (beBytes (bits/8) v.toNat)

def decodeTC (signed : Bool) (bits : Nat) (bs : List Nat) : Int :=
  let u : Int := fromBE bs
  if signed ∧ u ≥ (2:Int)^(bits-1) then u - (2:Int)^bits else u

theorem pow256 (k : Nat) : 256 ^ k = 2 ^ (8*k) := by
  rw [show (256:Nat) = 2^8 by rfl, ← Nat.pow_mul]

theorem roundtrip_unsigned (k : Nat) (v : Int) (bs : List Nat)
    (h : encodePacked false (8*k) v = some bs) : decodeTC false (8*k) bs = v ∧ bs.length = k := by
  unfold encodePacked at h
  simp only [Bool.false_eq_true, if_false] at h
  split at h
  · cases h
  · rename_i hr
    simp only [not_or, Int.not_lt] at hr
    cases h
    have hk : 8*k/8 = k := by omega
    refine ⟨?_, by rw [hk, beBytes_length]⟩
    simp only [decodeTC, Bool.false_eq_true, false_and, if_false, hk]
    rw [fromBE_beBytes, pow256]
    have h0 : 0 ≤ v := hr.1
    have h1 : v < (2:Int)^(8*k) := by omega
    have : v.toNat < 2^(8*k) := by
      have := Int.toNat_lt h0 |>.mpr (by simpa using h1 : v < ((2^(8*k) : Nat) : Int))
      exact this
    rw [Nat.mod_eq_of_lt this]
    omega
end Enc
