package main

func init() {
	register(func() {

		llo := load("llo", true)
		wl := func(f string) string { return "llo/" + f }

		// ---- constants
		for _, c := range []struct {
			n     string
			props []string
		}{
			{"MaxObservationRemoveChannelIDsLength", []string{"C14", "C06"}},
			{"MaxObservationUpdateChannelDefinitionsLength", []string{"C14", "C06"}},
			{"MaxObservationStreamValuesLength", []string{"C14", "C19"}},
			{"MaxStreamsPerChannel", []string{"C14"}},
			{"MaxOutcomeChannelDefinitionsLength", []string{"C14", "C01"}},
			{"MaxObservationLength", []string{"C19"}},
		} {
			addNat("llo_"+c.n, llo.constNat(c.n), wl("plugin.go"), c.props...)
		}
		addStr("llo_LifeCycleStageStaging", llo.constNat("LifeCycleStageStaging"), wl("plugin.go"), "C05")
		addStr("llo_LifeCycleStageProduction", llo.constNat("LifeCycleStageProduction"), wl("plugin.go"), "C05")
		addStr("llo_LifeCycleStageRetired", llo.constNat("LifeCycleStageRetired"), wl("plugin.go"), "C05")

		// ---- comparisons in anchored functions
		addStrs("llo_outcome_cmps", llo.comparisons(llo.funcDecl("Plugin", "outcome"), "LifeCycleStage"), wl("plugin_outcome.go outcome"), "C06", "C05", "C03", "C18", "C14")
		addStrs("llo_IsReportable_cmps", llo.comparisons(llo.funcDecl("Outcome", "IsReportable"), "LifeCycleStage", "protocolVersion"), wl("plugin_outcome.go IsReportable"), "C03", "C05")
		addStrs("llo_reports_cmps", llo.comparisons(llo.funcDecl("Plugin", "reports"), "LifeCycleStage"), wl("plugin_reports.go reports"), "C05", "C04")
		addStrs("llo_MedianAggregator_cmps", llo.comparisons(llo.funcDecl("", "MedianAggregator")), wl("aggregators.go MedianAggregator"), "C02")
		addStrs("llo_MedianAggregator_idx", llo.medianIndexes(llo.funcDecl("", "MedianAggregator")), wl("aggregators.go MedianAggregator"), "C02")
		addStrs("llo_QuoteAggregator_cmps", llo.comparisons(llo.funcDecl("", "QuoteAggregator")), wl("aggregators.go QuoteAggregator"), "C02")
		addStrs("llo_QuoteAggregator_idx", llo.medianIndexes(llo.funcDecl("", "QuoteAggregator")), wl("aggregators.go QuoteAggregator"), "C02")
		addStrs("llo_Quote_IsValid_cmps", llo.comparisons(llo.funcDecl("Quote", "IsValid")), wl("stream_value.go Quote.IsValid"), "C02")
		addStrs("llo_medianTimestamp_idx", llo.medianIndexes(llo.funcDecl("", "medianTimestamp")), wl("plugin_outcome.go medianTimestamp"), "C02")
		addStrs("llo_ModeAggregator_cmps", llo.comparisons(llo.funcDecl("", "ModeAggregator")), wl("aggregators.go ModeAggregator"), "C15")
		addStrs("llo_mostCommonType_cmps", llo.comparisons(llo.funcDecl("", "mostCommonType"), "len("), wl("aggregators.go mostCommonType"), "C15", "C02")
		addStrs("llo_ValidateObservation_cmps", llo.comparisons(llo.funcDecl("Plugin", "ValidateObservation")), wl("plugin.go ValidateObservation"), "C14", "C06")
		addStrs("llo_VerifyChannelDefinitions_cmps", llo.comparisons(llo.funcDecl("", "VerifyChannelDefinitions"), "Aggregator"), wl("channel_definitions.go"), "C14")
		addStrs("llo_OffchainConfig_Validate_cmps", llo.comparisons(llo.funcDecl("OffchainConfig", "Validate"), "DefaultMinReportIntervalNanoseconds"), wl("offchain_config.go Validate"), "C03", "C16")

		// ---- the decision points of observation() (whole-callback model DSV/LLO/Observe.lean)
		addStrs("llo_observation_ifs", llo.ifConds(llo.funcDecl("Plugin", "observation")), wl("plugin_observation.go observation"), "C04", "C14", "C05")

		// ---- map range inventory (typed)
		for _, fn := range [][2]string{{"Plugin", "outcome"}, {"Plugin", "decodeObservations"}, {"Outcome", "ReportableChannels"},
			{"", "StreamAggregatesToProtoOutcome"}, {"", "channelDefinitionsToProtoOutcome"},
			{"", "validAfterNanosecondsToProtoOutcomeSeconds"}, {"", "validAfterNanosecondsToProtoOutcomeNanoseconds"},
			{"Plugin", "reports"}, {"", "ModeAggregator"}, {"", "mostCommonType"}, {"", "MedianAggregator"}, {"", "QuoteAggregator"}} {
			addStrs("llo_"+fn[1]+"_mapranges", llo.mapRanges(llo.funcDecl(fn[0], fn[1])), wl(fn[1]), "C01", "C10")
		}

		// ---- regex / format literals
		addStr("llo_quoteRegex", llo.varStringArg("quoteRegex"), wl("stream_value.go"), "C17")
		addStr("llo_timestampedStreamValueRegex", llo.varStringArg("timestampedStreamValueRegex"), wl("stream_value.go"), "C17")
		addStrs("llo_Quote_MarshalText_fmt", llo.sprintfFormats(llo.funcDecl("Quote", "MarshalText")), wl("stream_value.go"), "C17")
		addStrs("llo_TSV_MarshalText_fmt", llo.sprintfFormats(llo.funcDecl("TimestampedStreamValue", "MarshalText")), wl("stream_value.go"), "C17")
	})
}
