package main

import (
	"go/ast"
	"go/token"
	"go/types"
	"sort"
	"strings"
)

// Partial-operation inventory of package llo used by C11: explicit panic() calls, pointer
// dereferences in decodeObservations, nil comparisons guarding them.
func init() {
	register(func() {
		p := load("llo", false)
		// functions containing an explicit panic(...)
		var panics []string
		for _, f := range p.files {
			for _, d := range f.Decls {
				fd, ok := d.(*ast.FuncDecl)
				if !ok || fd.Body == nil {
					continue
				}
				found := false
				ast.Inspect(fd.Body, func(n ast.Node) bool {
					if ce, ok := n.(*ast.CallExpr); ok {
						if id, ok := ce.Fun.(*ast.Ident); ok && id.Name == "panic" {
							found = true
						}
					}
					return true
				})
				if found {
					panics = append(panics, fd.Name.Name)
				}
			}
		}
		sort.Strings(panics)
		addStrs("llo_explicit_panic_funcs", panics, "llo/*.go (non-test, non-generated excluded by name below)", "C11")

		derefs := func(fd *ast.FuncDecl) []string {
			var out []string
			if fd == nil {
				return []string{"<function not found>"}
			}
			ast.Inspect(fd.Body, func(n ast.Node) bool {
				if se, ok := n.(*ast.StarExpr); ok {
					out = append(out, types.ExprString(se))
				}
				return true
			})
			return out
		}
		nilCmps := func(fd *ast.FuncDecl) []string {
			var out []string
			if fd == nil {
				return []string{"<function not found>"}
			}
			ast.Inspect(fd.Body, func(n ast.Node) bool {
				if be, ok := n.(*ast.BinaryExpr); ok && (be.Op == token.EQL || be.Op == token.NEQ) {
					s := types.ExprString(be)
					if strings.HasSuffix(s, "== nil") || strings.HasSuffix(s, "!= nil") {
						if !strings.HasPrefix(s, "err") {
							out = append(out, s)
						}
					}
				}
				return true
			})
			return out
		}
		addStrs("llo_decodeObservations_derefs", derefs(p.funcDecl("Plugin", "decodeObservations")), "llo/plugin_outcome.go decodeObservations", "C11")
		addStrs("llo_ValidateObservation_nilchecks", nilCmps(p.funcDecl("Plugin", "ValidateObservation")), "llo/plugin.go ValidateObservation", "C11")
		addStrs("llo_makeReportTelemetry_nilchecks", nilCmps(p.funcDecl("", "makeReportTelemetry")), "llo/plugin_reports.go makeReportTelemetry", "C11")
		addStrs("llo_UnmarshalProtoStreamValue_nilchecks", nilCmps(p.funcDecl("", "UnmarshalProtoStreamValue")), "llo/stream_value.go", "C11")
		addStrs("llo_streamAggregatesFromProtoOutcome_nilchecks", nilCmps(p.funcDecl("", "channelDefinitionsFromProtoOutcome")), "llo/outcome_codec_common.go", "C11")
	})
}
