package main

// K8: in outcome() the call of the aggregator function must be guarded, in the same loop body, by
// skip-tests that cover pairs already aggregated AND pairs already attempted (a failed aggregation
// stores nothing).  The fact lists, in source order, the `if …; cond { continue }` statements and the
// assignments to the `attempted` set that precede the call `aggF(…)` among its sibling statements.

import (
	"go/ast"
	"go/token"
	"go/types"
)

func guardsBeforeCall(fd *ast.FuncDecl, callee string) []string {
	if fd == nil {
		return []string{"<function not found>"}
	}
	var out []string
	found := false
	hasCall := func(n ast.Node) bool {
		hit := false
		ast.Inspect(n, func(m ast.Node) bool {
			if c, ok := m.(*ast.CallExpr); ok && types.ExprString(c.Fun) == callee {
				hit = true
			}
			return !hit
		})
		return hit
	}
	ast.Inspect(fd.Body, func(n ast.Node) bool {
		blk, ok := n.(*ast.BlockStmt)
		if !ok || found {
			return !found
		}
		idx := -1
		for i, st := range blk.List {
			switch st.(type) {
			case *ast.AssignStmt, *ast.ExprStmt:
				if hasCall(st) {
					idx = i
				}
			}
			if idx >= 0 {
				break
			}
		}
		if idx < 0 {
			return true
		}
		found = true
		for _, st := range blk.List[:idx] {
			switch t := st.(type) {
			case *ast.IfStmt:
				if len(t.Body.List) > 0 {
					if br, ok := t.Body.List[len(t.Body.List)-1].(*ast.BranchStmt); ok && br.Tok == token.CONTINUE && t.Else == nil {
						s := "if "
						if as, ok := t.Init.(*ast.AssignStmt); ok && len(as.Rhs) == 1 {
							s += types.ExprString(as.Rhs[0]) + "; "
						}
						out = append(out, s+types.ExprString(t.Cond)+" { continue }")
					}
				}
			case *ast.AssignStmt:
				if len(t.Lhs) == 1 && len(t.Rhs) == 1 {
					if ix, ok := t.Lhs[0].(*ast.IndexExpr); ok {
						out = append(out, types.ExprString(ix)+" = "+types.ExprString(t.Rhs[0]))
					}
				}
			}
		}
		return false
	})
	if !found {
		return []string{"<call not found>"}
	}
	return out
}

func init() {
	register(func() {
		llo := load("llo", false)
		addStrs("llo_outcome_aggregation_guards", guardsBeforeCall(llo.funcDecl("Plugin", "outcome"), "aggF"),
			"llo/plugin_outcome.go Plugin.outcome (statements before the call of the aggregator in the stream loop)", "C19", "C18")
	})
}

// The predecessor digest a plugin is configured with must be a COPY of the bytes it was decoded from (an array
// conversion), not a pointer into the caller's buffer: the model treats it as a constant of the instance.
func init() {
	register(func() {
		llo := load("llo", false)
		fd := llo.funcDecl("EVMOnchainConfigCodec", "Decode")
		addStrs("llo_onchain_decode_digest", append(mercAssignsTo(fd, "cd"), mercAssignsTo(fd, "o.PredecessorConfigDigest")...),
			"llo/onchain_config_codec.go EVMOnchainConfigCodec.Decode (what is stored as the predecessor digest)", "C06", "C04", "C16")
	})
}

// What reports() puts into a report: every read of outcome.StreamAggregates in the function, as written (the
// model looks the aggregate up by the (stream, aggregator) pair of the definition, position by position).
func init() {
	register(func() {
		llo := load("llo", false)
		fd := llo.funcDecl("Plugin", "reports")
		var out []string
		if fd == nil {
			out = []string{"<function not found>"}
		} else {
			ast.Inspect(fd.Body, func(n ast.Node) bool {
				if ix, ok := n.(*ast.IndexExpr); ok {
					if s := types.ExprString(ix); len(s) > 0 && containsStr(s, "StreamAggregates") {
						if _, inner := ix.X.(*ast.IndexExpr); inner {
							out = append(out, s)
							return false
						}
					}
				}
				return true
			})
		}
		addStrs("llo_reports_aggregate_lookups", out, "llo/plugin_reports.go Plugin.reports (reads of outcome.StreamAggregates)", "C15", "C01")
	})
}
