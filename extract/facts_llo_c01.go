package main

import (
	"go/ast"
	"go/types"
	"sort"
	"strings"
)

// Purity inventory for C01: inside the consensus functions of package llo, every assignment whose
// left-hand side is a field of the receiver / a package-level variable, and every call into
// time / rand / os / runtime. Expected: none.
func init() {
	register(func() {
		p := load("llo", true)
		pkgVars := map[string]bool{}
		if p.tpkg != nil {
			for _, n := range p.tpkg.Scope().Names() {
				if _, ok := p.tpkg.Scope().Lookup(n).(*types.Var); ok {
					pkgVars[n] = true
				}
			}
		}
		targets := [][2]string{{"Plugin", "outcome"}, {"Plugin", "decodeObservations"}, {"Plugin", "reports"}, {"Plugin", "encodeReport"},
			{"Outcome", "ReportableChannels"}, {"Outcome", "IsReportable"}, {"Outcome", "GenRetirementReport"},
			{"", "MedianAggregator"}, {"", "ModeAggregator"}, {"", "QuoteAggregator"}, {"", "mostCommonType"}, {"", "medianTimestamp"},
			{"", "MakeChannelHash"}, {"protoOutcomeCodecV0", "Encode"}, {"protoOutcomeCodecV1", "Encode"},
			{"", "StreamAggregatesToProtoOutcome"}, {"", "channelDefinitionsToProtoOutcome"}}
		var impure []string
		for _, tg := range targets {
			fd := p.funcDecl(tg[0], tg[1])
			if fd == nil {
				impure = append(impure, "<function not found: "+tg[1]+">")
				continue
			}
			recv := ""
			if fd.Recv != nil && len(fd.Recv.List) == 1 && len(fd.Recv.List[0].Names) == 1 {
				recv = fd.Recv.List[0].Names[0].Name
			}
			ast.Inspect(fd.Body, func(n ast.Node) bool {
				switch t := n.(type) {
				case *ast.AssignStmt:
					for _, l := range t.Lhs {
						s := types.ExprString(l)
						if recv != "" && strings.HasPrefix(s, recv+".") {
							impure = append(impure, tg[1]+": write "+s)
						}
						if id, ok := l.(*ast.Ident); ok && pkgVars[id.Name] && p.info != nil {
							if obj, ok := p.info.Uses[id]; ok && obj.Parent() == p.tpkg.Scope() {
								impure = append(impure, tg[1]+": write package var "+id.Name)
							}
						}
					}
				case *ast.IncDecStmt:
					s := types.ExprString(t.X)
					if recv != "" && strings.HasPrefix(s, recv+".") {
						impure = append(impure, tg[1]+": write "+s)
					}
				case *ast.CallExpr:
					s := types.ExprString(t.Fun)
					for _, pre := range []string{"time.", "rand.", "os.", "runtime."} {
						if strings.HasPrefix(s, pre) {
							impure = append(impure, tg[1]+": call "+s)
						}
					}
				}
				return true
			})
		}
		sort.Strings(impure)
		addStrs("llo_consensus_impurities", impure, "llo: outcome, reports, aggregators, outcome codecs", "C01")

		// struct fields of the Mercury reporting plugins that could hold round state
		for _, v := range []string{"v1", "v2", "v3", "v4"} {
			mp := load("mercury/"+v, false)
			var writes []string
			for _, f := range mp.files {
				for _, d := range f.Decls {
					fd, ok := d.(*ast.FuncDecl)
					if !ok || fd.Body == nil || fd.Recv == nil || len(fd.Recv.List) != 1 || len(fd.Recv.List[0].Names) != 1 {
						continue
					}
					recv := fd.Recv.List[0].Names[0].Name
					ast.Inspect(fd.Body, func(n ast.Node) bool {
						if as, ok := n.(*ast.AssignStmt); ok {
							for _, l := range as.Lhs {
								s := types.ExprString(l)
								if strings.HasPrefix(s, recv+".") {
									writes = append(writes, fd.Name.Name+": write "+s)
								}
							}
						}
						return true
					})
				}
			}
			sort.Strings(writes)
			addStrs("mercury_"+v+"_receiver_writes", writes, "mercury/"+v+"/*.go methods", "C01")
		}
	})
}
