package main

import (
	"go/ast"
	"go/types"
	"sort"
)

// lockTraceOn is lockTrace for an arbitrary object name (receiver or parameter): the straight-line
// sequence of <obj>.mu.(R)Lock/(R)Unlock calls (defer marked) and reads/writes of <obj>.keys.
func lockTraceOn(fd *ast.FuncDecl, obj string) []string {
	var out []string
	if fd == nil {
		return []string{"<function not found>"}
	}
	var visit func(n ast.Node, deferred bool)
	visit = func(n ast.Node, deferred bool) {
		ast.Inspect(n, func(m ast.Node) bool {
			switch t := m.(type) {
			case *ast.DeferStmt:
				visit(t.Call, true)
				return false
			case *ast.CallExpr:
				s := types.ExprString(t.Fun)
				for _, op := range []string{"RLock", "RUnlock", "Lock", "Unlock"} {
					if s == obj+".mu."+op {
						if deferred {
							out = append(out, "defer "+op)
						} else {
							out = append(out, op)
						}
						return false
					}
				}
			case *ast.AssignStmt:
				for _, l := range t.Lhs {
					if types.ExprString(l) == obj+".keys" {
						for _, r := range t.Rhs {
							visit(r, deferred)
						}
						out = append(out, "write keys")
						return false
					}
				}
			case *ast.SelectorExpr:
				if types.ExprString(t) == obj+".keys" {
					out = append(out, "read keys")
					return false
				}
			}
			return true
		})
	}
	visit(fd.Body, false)
	return out
}

// guardedFieldUsers lists every function of the package whose body selects `.keys` or `.mu` on
// anything (closed-world fact: the lock protocol has to be checked for exactly these functions).
func guardedFieldUsers(p *pkg) []string {
	var out []string
	for _, f := range p.files {
		for _, d := range f.Decls {
			fd, ok := d.(*ast.FuncDecl)
			if !ok || fd.Body == nil {
				continue
			}
			uses := false
			ast.Inspect(fd.Body, func(n ast.Node) bool {
				if se, ok := n.(*ast.SelectorExpr); ok && (se.Sel.Name == "keys" || se.Sel.Name == "mu") {
					uses = true
				}
				return true
			})
			if !uses {
				continue
			}
			name := fd.Name.Name
			if fd.Recv != nil && len(fd.Recv.List) == 1 {
				t := fd.Recv.List[0].Type
				if s, ok := t.(*ast.StarExpr); ok {
					t = s.X
				}
				name = types.ExprString(t) + "." + name
			}
			out = append(out, name)
		}
	}
	sort.Strings(out)
	return out
}

// tlsConfigLiteral lists "Field: value" for the fields of the first `tls.Config` composite literal of fd.
func tlsConfigLiteral(fd *ast.FuncDecl) []string {
	if fd == nil {
		return []string{"<function not found>"}
	}
	var out []string
	done := false
	ast.Inspect(fd, func(n ast.Node) bool {
		cl, ok := n.(*ast.CompositeLit)
		if !ok || done || cl.Type == nil || types.ExprString(cl.Type) != "tls.Config" {
			return true
		}
		done = true
		for _, e := range cl.Elts {
			if kv, ok := e.(*ast.KeyValueExpr); ok {
				k := types.ExprString(kv.Key)
				if k == "Certificates" {
					out = append(out, k)
				} else {
					out = append(out, k+": "+types.ExprString(kv.Value))
				}
			}
		}
		return false
	})
	return out
}

// assignments lists "lhs = rhs" for the plain assignments of fd whose left side is a selector expression.
func selectorAssignments(fd *ast.FuncDecl) []string {
	if fd == nil {
		return []string{"<function not found>"}
	}
	var out []string
	ast.Inspect(fd, func(n ast.Node) bool {
		as, ok := n.(*ast.AssignStmt)
		if !ok || len(as.Lhs) != 1 || len(as.Rhs) != 1 {
			return true
		}
		if _, ok := as.Lhs[0].(*ast.SelectorExpr); ok {
			out = append(out, types.ExprString(as.Lhs[0])+" = "+types.ExprString(as.Rhs[0]))
		}
		return true
	})
	return out
}

// constLiteral returns the literal text of a package-level `const name = <literal>`.
func constLiteral(p *pkg, name string) string {
	for _, f := range p.files {
		for _, d := range f.Decls {
			gd, ok := d.(*ast.GenDecl)
			if !ok {
				continue
			}
			for _, sp := range gd.Specs {
				vs, ok := sp.(*ast.ValueSpec)
				if !ok {
					continue
				}
				for i, n := range vs.Names {
					if n.Name == name && i < len(vs.Values) {
						if bl, ok := vs.Values[i].(*ast.BasicLit); ok {
							return bl.Value
						}
						return "<not a literal: " + types.ExprString(vs.Values[i]) + ">"
					}
				}
			}
		}
	}
	return "<not found>"
}

// joinCalls lists the `errors.Join(...)` calls of fd in source order; with onlyInLoops, only those
// that sit inside a for / range statement (joining one by one nests the joined errors).
func joinCalls(fd *ast.FuncDecl, onlyInLoops bool) []string {
	if fd == nil {
		return []string{"<function not found>"}
	}
	var out []string
	var visit func(n ast.Node, inLoop bool)
	visit = func(n ast.Node, inLoop bool) {
		ast.Inspect(n, func(m ast.Node) bool {
			switch t := m.(type) {
			case *ast.ForStmt:
				if m != n {
					visit(t.Body, true)
					return false
				}
			case *ast.RangeStmt:
				if m != n {
					visit(t.Body, true)
					return false
				}
			case *ast.CallExpr:
				if types.ExprString(t.Fun) == "errors.Join" && (inLoop || !onlyInLoops) {
					out = append(out, types.ExprString(t))
				}
			}
			return true
		})
	}
	visit(fd.Body, false)
	return out
}

func init() {
	register(func() {
		// ---- mtls lock discipline
		mt := load("rpc/mtls", false)
		w := func(fn string) string { return "rpc/mtls/mtls.go " + fn }
		for _, fn := range []string{"Replace", "Keys", "isValidPublicKey", "VerifyPeerCertificate"} {
			addStrs("mtls_"+fn+"_trace", mt.lockTrace(mt.funcDecl("PublicKeys", fn)), w(fn), "C20")
		}
		// the part of Replace that copies the *source* list (parameter `pubs`) under the source's read lock
		addStrs("mtls_Replace_src_trace", lockTraceOn(mt.funcDecl("PublicKeys", "Replace"), "pubs"), w("Replace (parameter pubs)"), "C20")
		addStrs("mtls_guarded_field_users", guardedFieldUsers(mt), "rpc/mtls/mtls.go (every function selecting .keys or .mu)", "C20")
		// ---- decision function
		addStrs("mtls_VerifyPeerCertificate_cmps", mt.comparisons(mt.funcDecl("PublicKeys", "VerifyPeerCertificate"), "len("), w("VerifyPeerCertificate"), "C20")
		addStrs("mtls_pubKeyFromCert_cmps", mt.comparisons(mt.funcDecl("", "pubKeyFromCert"), "PublicKeyAlgorithm"), w("pubKeyFromCert"), "C20")
		addStrs("mtls_isValidPublicKey_cmps", mt.comparisons(mt.funcDecl("PublicKeys", "isValidPublicKey"), "ConstantTimeCompare"), w("isValidPublicKey"), "C20")
		// ---- TLS configuration
		addStrs("mtls_tlsConfig_fields", tlsConfigLiteral(mt.funcDecl("", "newMutualTLSConfig")), w("newMutualTLSConfig"), "C20")
		addStrs("mtls_NewTransportSigner_assigns", selectorAssignments(mt.funcDecl("", "NewTransportSigner")), w("NewTransportSigner"), "C20")

		// ---- C19: nesting-depth limit of timestamped stream values at decode
		llo := load("llo", false) // untyped: the constant is a plain literal
		addNat("llo_maxTimestampedStreamValueNesting", constLiteral(llo, "maxTimestampedStreamValueNesting"), "llo/stream_value.go", "C19")
		// K6: errors must be joined once, not one by one inside the loop
		vcd := llo.funcDecl("", "VerifyChannelDefinitions")
		addStrs("llo_VerifyChannelDefinitions_joins", joinCalls(vcd, false), "llo/channel_definitions.go VerifyChannelDefinitions", "C19")
		addStrs("llo_VerifyChannelDefinitions_joins_in_loops", joinCalls(vcd, true), "llo/channel_definitions.go VerifyChannelDefinitions", "C19")
		evmp := load("llo/reportcodecs/evm", false)
		addStrs("evm_buildPayload_joins_in_loops", joinCalls(evmp.funcDecl("", "buildPayload"), true), "llo/reportcodecs/evm/report_codec_evm_abi_encode_unpacked.go buildPayload", "C19")
		addStrs("llo_TSV_unmarshalBinary_cmps", llo.comparisons(llo.funcDecl("TimestampedStreamValue", "unmarshalBinary"), "LLOStreamValue_TimestampedStreamValue"), "llo/stream_value.go TimestampedStreamValue.unmarshalBinary", "C19")
	})
}
