package main

func init() {
	register(func() {
		// ---- mtls lock discipline
		mt := load("rpc/mtls", false)
		for _, fn := range []string{"Replace", "Keys", "isValidPublicKey", "VerifyPeerCertificate"} {
			addStrs("mtls_"+fn+"_trace", mt.lockTrace(mt.funcDecl("PublicKeys", fn)), "rpc/mtls/mtls.go "+fn, "C20")
		}
	})
}
