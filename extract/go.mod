module dsvextract

go 1.23
