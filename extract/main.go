// Command dsvextract reads the Go sources of the tree it is started in (cwd = repository root)
// and writes the syntactic facts the Lean property files are checked against:
//   - integer constants (folded by go/types)
//   - comparison expressions inside anchored functions, in source order
//   - regexp / format string literals bound to anchored package variables
//   - the inventory of `range` loops over map-typed operands inside anchored functions
//   - the lock/unlock and field-access sequence of the mtls.PublicKeys methods
//
// Standard library only.
package main

import (
	"encoding/json"
	"flag"
	"fmt"
	"go/ast"
	"go/constant"
	"go/importer"
	"go/parser"
	"go/token"
	"go/types"
	"os"
	"path/filepath"
	"sort"
	"strconv"
	"strings"
)

type fact struct {
	Name  string   `json:"name"`
	Kind  string   `json:"kind"` // nat | str | strs
	Nat   string   `json:"nat,omitempty"`
	Str   string   `json:"str,omitempty"`
	Strs  []string `json:"strs,omitempty"`
	Where string   `json:"where"`
	Props []string `json:"props"`
}

var facts []fact

func addNat(name string, v string, where string, props ...string) {
	facts = append(facts, fact{Name: name, Kind: "nat", Nat: v, Where: where, Props: props})
}
func addStr(name, v, where string, props ...string) {
	facts = append(facts, fact{Name: name, Kind: "str", Str: v, Where: where, Props: props})
}
func addStrs(name string, v []string, where string, props ...string) {
	if v == nil {
		v = []string{}
	}
	facts = append(facts, fact{Name: name, Kind: "strs", Strs: v, Where: where, Props: props})
}

type pkg struct {
	dir   string
	fset  *token.FileSet
	files []*ast.File
	info  *types.Info
	tpkg  *types.Package
}

func load(dir string, typed bool) *pkg {
	fset := token.NewFileSet()
	pkgs, err := parser.ParseDir(fset, dir, func(fi os.FileInfo) bool { return !strings.HasSuffix(fi.Name(), "_test.go") }, 0)
	if err != nil {
		fmt.Fprintln(os.Stderr, "parse error:", err)
		os.Exit(1)
	}
	p := &pkg{dir: dir, fset: fset}
	for name, ap := range pkgs {
		if strings.HasSuffix(name, "_test") || name == "main" && dir != "." {
			continue
		}
		var names []string
		for fn := range ap.Files {
			names = append(names, fn)
		}
		sort.Strings(names)
		for _, fn := range names {
			p.files = append(p.files, ap.Files[fn])
		}
		if typed {
			conf := types.Config{Importer: importer.ForCompiler(fset, "source", nil), Error: func(error) {}}
			p.info = &types.Info{Types: map[ast.Expr]types.TypeAndValue{}, Defs: map[*ast.Ident]types.Object{}, Uses: map[*ast.Ident]types.Object{}}
			p.tpkg, _ = conf.Check(name, fset, p.files, p.info)
		}
	}
	return p
}

// funcDecl finds a function or method (recv may be "" or the receiver type name without '*').
func (p *pkg) funcDecl(recv, name string) *ast.FuncDecl {
	for _, f := range p.files {
		for _, d := range f.Decls {
			fd, ok := d.(*ast.FuncDecl)
			if !ok || fd.Name.Name != name {
				continue
			}
			r := ""
			if fd.Recv != nil && len(fd.Recv.List) == 1 {
				t := fd.Recv.List[0].Type
				if s, ok := t.(*ast.StarExpr); ok {
					t = s.X
				}
				if id, ok := t.(*ast.Ident); ok {
					r = id.Name
				}
			}
			if r == recv {
				return fd
			}
		}
	}
	return nil
}

func isCmp(op token.Token) bool {
	switch op {
	case token.LSS, token.LEQ, token.GTR, token.GEQ, token.EQL, token.NEQ:
		return true
	}
	return false
}

// comparisons lists the ordering comparisons (<, <=, >, >=) of a function in source order and,
// when eq is set, also ==/!= whose text contains one of the filter substrings.
func (p *pkg) comparisons(fd *ast.FuncDecl, eqFilter ...string) []string {
	var out []string
	if fd == nil {
		return []string{"<function not found>"}
	}
	ast.Inspect(fd, func(n ast.Node) bool {
		be, ok := n.(*ast.BinaryExpr)
		if !ok || !isCmp(be.Op) {
			return true
		}
		s := types.ExprString(be)
		if be.Op == token.EQL || be.Op == token.NEQ {
			keep := false
			for _, f := range eqFilter {
				if strings.Contains(s, f) {
					keep = true
				}
			}
			if !keep || strings.Contains(s, "nil") {
				return true
			}
		}
		out = append(out, s)
		return true
	})
	return out
}

// indexExprs lists index expressions whose index is not a plain loop variable / literal.
func (p *pkg) medianIndexes(fd *ast.FuncDecl) []string {
	var out []string
	if fd == nil {
		return []string{"<function not found>"}
	}
	ast.Inspect(fd, func(n ast.Node) bool {
		ie, ok := n.(*ast.IndexExpr)
		if !ok {
			return true
		}
		if be, ok := ie.Index.(*ast.BinaryExpr); ok {
			out = append(out, types.ExprString(be))
		}
		return true
	})
	return out
}

func (p *pkg) mapRanges(fd *ast.FuncDecl) []string {
	var out []string
	if fd == nil {
		return []string{"<function not found>"}
	}
	ast.Inspect(fd, func(n ast.Node) bool {
		rs, ok := n.(*ast.RangeStmt)
		if !ok || p.info == nil {
			return true
		}
		if t := p.info.Types[rs.X].Type; t != nil {
			if _, ism := t.Underlying().(*types.Map); ism {
				out = append(out, types.ExprString(rs.X))
			}
		}
		return true
	})
	return out
}

func (p *pkg) constNat(name string) string {
	if p.tpkg == nil {
		return "<untyped>"
	}
	o := p.tpkg.Scope().Lookup(name)
	c, ok := o.(*types.Const)
	if !ok {
		return "<not found>"
	}
	if c.Val().Kind() == constant.Int {
		return c.Val().ExactString()
	}
	if c.Val().Kind() == constant.String {
		return constant.StringVal(c.Val())
	}
	return c.Val().ExactString()
}

// varStringArg returns the first string literal inside the initialiser of a package-level var.
func (p *pkg) varStringArg(name string) string {
	for _, f := range p.files {
		for _, d := range f.Decls {
			gd, ok := d.(*ast.GenDecl)
			if !ok || gd.Tok != token.VAR {
				continue
			}
			for _, sp := range gd.Specs {
				vs := sp.(*ast.ValueSpec)
				for i, id := range vs.Names {
					if id.Name != name || i >= len(vs.Values) {
						continue
					}
					res := "<no literal>"
					ast.Inspect(vs.Values[i], func(n ast.Node) bool {
						if bl, ok := n.(*ast.BasicLit); ok && bl.Kind == token.STRING && res == "<no literal>" {
							s, err := strconv.Unquote(bl.Value)
							if err == nil {
								res = s
							}
						}
						return true
					})
					return res
				}
			}
		}
	}
	return "<not found>"
}

// formatLiterals: string literals passed as first argument to fmt.Sprintf within fd.
func (p *pkg) sprintfFormats(fd *ast.FuncDecl) []string {
	var out []string
	if fd == nil {
		return []string{"<function not found>"}
	}
	ast.Inspect(fd, func(n ast.Node) bool {
		ce, ok := n.(*ast.CallExpr)
		if !ok || len(ce.Args) == 0 {
			return true
		}
		if types.ExprString(ce.Fun) != "fmt.Sprintf" {
			return true
		}
		if bl, ok := ce.Args[0].(*ast.BasicLit); ok && bl.Kind == token.STRING {
			s, _ := strconv.Unquote(bl.Value)
			out = append(out, s)
		}
		return true
	})
	return out
}

// lockTrace: straight-line sequence of mu.Lock/RLock/Unlock/RUnlock (defer marked) and accesses
// to the receiver's `keys` field, in source order.
func (p *pkg) lockTrace(fd *ast.FuncDecl) []string {
	var out []string
	if fd == nil {
		return []string{"<function not found>"}
	}
	recv := ""
	if fd.Recv != nil && len(fd.Recv.List) == 1 && len(fd.Recv.List[0].Names) == 1 {
		recv = fd.Recv.List[0].Names[0].Name
	}
	var visit func(n ast.Node, deferred bool)
	visit = func(n ast.Node, deferred bool) {
		ast.Inspect(n, func(m ast.Node) bool {
			switch t := m.(type) {
			case *ast.DeferStmt:
				visit(t.Call, true)
				return false
			case *ast.CallExpr:
				s := types.ExprString(t.Fun)
				for _, op := range []string{"RLock", "RUnlock", "Lock", "Unlock"} {
					if s == recv+".mu."+op {
						if deferred {
							out = append(out, "defer "+op)
						} else {
							out = append(out, op)
						}
						return false
					}
				}
			case *ast.AssignStmt:
				for _, l := range t.Lhs {
					if types.ExprString(l) == recv+".keys" {
						for _, r := range t.Rhs {
							visit(r, deferred)
						}
						out = append(out, "write keys")
						return false
					}
				}
			case *ast.SelectorExpr:
				if types.ExprString(t) == recv+".keys" {
					out = append(out, "read keys")
					return false
				}
			}
			return true
		})
	}
	visit(fd.Body, false)
	return out
}

func leanStr(s string) string {
	var b strings.Builder
	b.WriteByte('"')
	for _, r := range s {
		switch {
		case r == '"':
			b.WriteString("\\\"")
		case r == '\\':
			b.WriteString("\\\\")
		case r == '\n':
			b.WriteString("\\n")
		case r == '\t':
			b.WriteString("\\t")
		case r < 32 || r == 127:
			b.WriteString(fmt.Sprintf("\\x%02x", r))
		default:
			b.WriteRune(r)
		}
	}
	b.WriteByte('"')
	return b.String()
}

// extractors are registered by the facts_*.go files; each adds facts for one area of the repository
var extractors []func()

func register(f func()) { extractors = append(extractors, f) }

func main() {
	leanOut := flag.String("lean", "Facts.lean", "")
	jsonOut := flag.String("json", "facts.json", "")
	flag.StringVar(&propsFile, "props", propsFile, "properties.jsonl (anchor files for the source fingerprints)")
	flag.Parse()
	for _, f := range extractors {
		f()
	}
	sort.SliceStable(facts, func(i, j int) bool { return facts[i].Name < facts[j].Name })

	// ---- emit
	var b strings.Builder
	b.WriteString("/-! GENERATED by /verif/extract from the working tree — do not edit. -/\nnamespace DSV.Facts\n\n")
	byProp := map[string][]string{}
	for _, f := range facts {
		b.WriteString("/-- " + f.Where + " -/\n")
		switch f.Kind {
		case "nat":
			if _, err := strconv.ParseUint(f.Nat, 10, 64); err == nil {
				b.WriteString(fmt.Sprintf("def %s : Nat := %s\n\n", f.Name, f.Nat))
			} else {
				b.WriteString(fmt.Sprintf("def %s : String := %s\n\n", f.Name, leanStr(f.Nat)))
			}
		case "str":
			b.WriteString(fmt.Sprintf("def %s : String := %s\n\n", f.Name, leanStr(f.Str)))
		case "strs":
			parts := make([]string, len(f.Strs))
			for i, s := range f.Strs {
				parts[i] = leanStr(s)
			}
			b.WriteString(fmt.Sprintf("def %s : List String := [%s]\n\n", f.Name, strings.Join(parts, ",\n  ")))
		}
		for _, p := range f.Props {
			byProp[p] = append(byProp[p], f.Name)
		}
	}
	b.WriteString("end DSV.Facts\n")
	if err := os.MkdirAll(filepath.Dir(*leanOut), 0o755); err == nil {
		os.WriteFile(*leanOut, []byte(b.String()), 0o644)
	}
	js, _ := json.MarshalIndent(map[string]any{"facts": facts, "by_property": byProp}, "", " ")
	os.WriteFile(*jsonOut, js, 0o644)
	fmt.Printf("extract: %d facts\n", len(facts))
}
