// Command dsvextract reads the Go sources of the tree it is started in (cwd = repository root)
// and writes the syntactic facts the Lean property files are checked against:
//   - integer constants (folded by go/types)
//   - comparison expressions inside anchored functions, in source order
//   - regexp / format string literals bound to anchored package variables
//   - the inventory of `range` loops over map-typed operands inside anchored functions
//   - the lock/unlock and field-access sequence of the mtls.PublicKeys methods
// Standard library only.
package main

import (
	"encoding/json"
	"flag"
	"fmt"
	"go/ast"
	"go/constant"
	"go/importer"
	"go/parser"
	"go/token"
	"go/types"
	"os"
	"path/filepath"
	"sort"
	"strconv"
	"strings"
)

type fact struct {
	Name  string   `json:"name"`
	Kind  string   `json:"kind"` // nat | str | strs
	Nat   string   `json:"nat,omitempty"`
	Str   string   `json:"str,omitempty"`
	Strs  []string `json:"strs,omitempty"`
	Where string   `json:"where"`
	Props []string `json:"props"`
}

var facts []fact

func addNat(name string, v string, where string, props ...string) {
	facts = append(facts, fact{Name: name, Kind: "nat", Nat: v, Where: where, Props: props})
}
func addStr(name, v, where string, props ...string) {
	facts = append(facts, fact{Name: name, Kind: "str", Str: v, Where: where, Props: props})
}
func addStrs(name string, v []string, where string, props ...string) {
	if v == nil {
		v = []string{}
	}
	facts = append(facts, fact{Name: name, Kind: "strs", Strs: v, Where: where, Props: props})
}

type pkg struct {
	dir   string
	fset  *token.FileSet
	files []*ast.File
	info  *types.Info
	tpkg  *types.Package
}

func load(dir string, typed bool) *pkg {
	fset := token.NewFileSet()
	pkgs, err := parser.ParseDir(fset, dir, func(fi os.FileInfo) bool { return !strings.HasSuffix(fi.Name(), "_test.go") }, 0)
	if err != nil {
		fmt.Fprintln(os.Stderr, "parse error:", err)
		os.Exit(1)
	}
	p := &pkg{dir: dir, fset: fset}
	for name, ap := range pkgs {
		if strings.HasSuffix(name, "_test") || name == "main" && dir != "." {
			continue
		}
		var names []string
		for fn := range ap.Files {
			names = append(names, fn)
		}
		sort.Strings(names)
		for _, fn := range names {
			p.files = append(p.files, ap.Files[fn])
		}
		if typed {
			conf := types.Config{Importer: importer.ForCompiler(fset, "source", nil), Error: func(error) {}}
			p.info = &types.Info{Types: map[ast.Expr]types.TypeAndValue{}, Defs: map[*ast.Ident]types.Object{}, Uses: map[*ast.Ident]types.Object{}}
			p.tpkg, _ = conf.Check(name, fset, p.files, p.info)
		}
	}
	return p
}

// funcDecl finds a function or method (recv may be "" or the receiver type name without '*').
func (p *pkg) funcDecl(recv, name string) *ast.FuncDecl {
	for _, f := range p.files {
		for _, d := range f.Decls {
			fd, ok := d.(*ast.FuncDecl)
			if !ok || fd.Name.Name != name {
				continue
			}
			r := ""
			if fd.Recv != nil && len(fd.Recv.List) == 1 {
				t := fd.Recv.List[0].Type
				if s, ok := t.(*ast.StarExpr); ok {
					t = s.X
				}
				if id, ok := t.(*ast.Ident); ok {
					r = id.Name
				}
			}
			if r == recv {
				return fd
			}
		}
	}
	return nil
}

func isCmp(op token.Token) bool {
	switch op {
	case token.LSS, token.LEQ, token.GTR, token.GEQ, token.EQL, token.NEQ:
		return true
	}
	return false
}

// comparisons lists the ordering comparisons (<, <=, >, >=) of a function in source order and,
// when eq is set, also ==/!= whose text contains one of the filter substrings.
func (p *pkg) comparisons(fd *ast.FuncDecl, eqFilter ...string) []string {
	var out []string
	if fd == nil {
		return []string{"<function not found>"}
	}
	ast.Inspect(fd, func(n ast.Node) bool {
		be, ok := n.(*ast.BinaryExpr)
		if !ok || !isCmp(be.Op) {
			return true
		}
		s := types.ExprString(be)
		if be.Op == token.EQL || be.Op == token.NEQ {
			keep := false
			for _, f := range eqFilter {
				if strings.Contains(s, f) {
					keep = true
				}
			}
			if !keep || strings.Contains(s, "nil") {
				return true
			}
		}
		out = append(out, s)
		return true
	})
	return out
}

// indexExprs lists index expressions whose index is not a plain loop variable / literal.
func (p *pkg) medianIndexes(fd *ast.FuncDecl) []string {
	var out []string
	if fd == nil {
		return []string{"<function not found>"}
	}
	ast.Inspect(fd, func(n ast.Node) bool {
		ie, ok := n.(*ast.IndexExpr)
		if !ok {
			return true
		}
		if be, ok := ie.Index.(*ast.BinaryExpr); ok {
			out = append(out, types.ExprString(be))
		}
		return true
	})
	return out
}

func (p *pkg) mapRanges(fd *ast.FuncDecl) []string {
	var out []string
	if fd == nil {
		return []string{"<function not found>"}
	}
	ast.Inspect(fd, func(n ast.Node) bool {
		rs, ok := n.(*ast.RangeStmt)
		if !ok || p.info == nil {
			return true
		}
		if t := p.info.Types[rs.X].Type; t != nil {
			if _, ism := t.Underlying().(*types.Map); ism {
				out = append(out, types.ExprString(rs.X))
			}
		}
		return true
	})
	return out
}

func (p *pkg) constNat(name string) string {
	if p.tpkg == nil {
		return "<untyped>"
	}
	o := p.tpkg.Scope().Lookup(name)
	c, ok := o.(*types.Const)
	if !ok {
		return "<not found>"
	}
	if c.Val().Kind() == constant.Int {
		return c.Val().ExactString()
	}
	if c.Val().Kind() == constant.String {
		return constant.StringVal(c.Val())
	}
	return c.Val().ExactString()
}

// varStringArg returns the first string literal inside the initialiser of a package-level var.
func (p *pkg) varStringArg(name string) string {
	for _, f := range p.files {
		for _, d := range f.Decls {
			gd, ok := d.(*ast.GenDecl)
			if !ok || gd.Tok != token.VAR {
				continue
			}
			for _, sp := range gd.Specs {
				vs := sp.(*ast.ValueSpec)
				for i, id := range vs.Names {
					if id.Name != name || i >= len(vs.Values) {
						continue
					}
					res := "<no literal>"
					ast.Inspect(vs.Values[i], func(n ast.Node) bool {
						if bl, ok := n.(*ast.BasicLit); ok && bl.Kind == token.STRING && res == "<no literal>" {
							s, err := strconv.Unquote(bl.Value)
							if err == nil {
								res = s
							}
						}
						return true
					})
					return res
				}
			}
		}
	}
	return "<not found>"
}

// formatLiterals: string literals passed as first argument to fmt.Sprintf within fd.
func (p *pkg) sprintfFormats(fd *ast.FuncDecl) []string {
	var out []string
	if fd == nil {
		return []string{"<function not found>"}
	}
	ast.Inspect(fd, func(n ast.Node) bool {
		ce, ok := n.(*ast.CallExpr)
		if !ok || len(ce.Args) == 0 {
			return true
		}
		if types.ExprString(ce.Fun) != "fmt.Sprintf" {
			return true
		}
		if bl, ok := ce.Args[0].(*ast.BasicLit); ok && bl.Kind == token.STRING {
			s, _ := strconv.Unquote(bl.Value)
			out = append(out, s)
		}
		return true
	})
	return out
}

// lockTrace: straight-line sequence of mu.Lock/RLock/Unlock/RUnlock (defer marked) and accesses
// to the receiver's `keys` field, in source order.
func (p *pkg) lockTrace(fd *ast.FuncDecl) []string {
	var out []string
	if fd == nil {
		return []string{"<function not found>"}
	}
	recv := ""
	if fd.Recv != nil && len(fd.Recv.List) == 1 && len(fd.Recv.List[0].Names) == 1 {
		recv = fd.Recv.List[0].Names[0].Name
	}
	var visit func(n ast.Node, deferred bool)
	visit = func(n ast.Node, deferred bool) {
		ast.Inspect(n, func(m ast.Node) bool {
			switch t := m.(type) {
			case *ast.DeferStmt:
				visit(t.Call, true)
				return false
			case *ast.CallExpr:
				s := types.ExprString(t.Fun)
				for _, op := range []string{"RLock", "RUnlock", "Lock", "Unlock"} {
					if s == recv+".mu."+op {
						if deferred {
							out = append(out, "defer "+op)
						} else {
							out = append(out, op)
						}
						return false
					}
				}
			case *ast.AssignStmt:
				for _, l := range t.Lhs {
					if types.ExprString(l) == recv+".keys" {
						for _, r := range t.Rhs {
							visit(r, deferred)
						}
						out = append(out, "write keys")
						return false
					}
				}
			case *ast.SelectorExpr:
				if types.ExprString(t) == recv+".keys" {
					out = append(out, "read keys")
					return false
				}
			}
			return true
		})
	}
	visit(fd.Body, false)
	return out
}

func leanStr(s string) string {
	var b strings.Builder
	b.WriteByte('"')
	for _, r := range s {
		switch {
		case r == '"':
			b.WriteString("\\\"")
		case r == '\\':
			b.WriteString("\\\\")
		case r == '\n':
			b.WriteString("\\n")
		case r == '\t':
			b.WriteString("\\t")
		case r < 32 || r > 126:
			b.WriteString(fmt.Sprintf("\\u{%x}", r))
		default:
			b.WriteRune(r)
		}
	}
	b.WriteByte('"')
	return b.String()
}

func main() {
	leanOut := flag.String("lean", "Facts.lean", "")
	jsonOut := flag.String("json", "facts.json", "")
	flag.Parse()

	llo := load("llo", true)
	wl := func(f string) string { return "llo/" + f }

	// ---- constants
	for _, c := range []struct {
		n     string
		props []string
	}{
		{"MaxObservationRemoveChannelIDsLength", []string{"C14", "C06"}},
		{"MaxObservationUpdateChannelDefinitionsLength", []string{"C14", "C06"}},
		{"MaxObservationStreamValuesLength", []string{"C14", "C19"}},
		{"MaxStreamsPerChannel", []string{"C14"}},
		{"MaxOutcomeChannelDefinitionsLength", []string{"C14", "C01"}},
		{"MaxObservationLength", []string{"C19"}},
	} {
		addNat("llo_"+c.n, llo.constNat(c.n), wl("plugin.go"), c.props...)
	}
	addStr("llo_LifeCycleStageStaging", llo.constNat("LifeCycleStageStaging"), wl("plugin.go"), "C05")
	addStr("llo_LifeCycleStageProduction", llo.constNat("LifeCycleStageProduction"), wl("plugin.go"), "C05")
	addStr("llo_LifeCycleStageRetired", llo.constNat("LifeCycleStageRetired"), wl("plugin.go"), "C05")

	// ---- comparisons in anchored functions
	addStrs("llo_outcome_cmps", llo.comparisons(llo.funcDecl("Plugin", "outcome"), "LifeCycleStage"), wl("plugin_outcome.go outcome"), "C06", "C05", "C03", "C18", "C14")
	addStrs("llo_IsReportable_cmps", llo.comparisons(llo.funcDecl("Outcome", "IsReportable"), "LifeCycleStage", "protocolVersion"), wl("plugin_outcome.go IsReportable"), "C03", "C05")
	addStrs("llo_reports_cmps", llo.comparisons(llo.funcDecl("Plugin", "reports"), "LifeCycleStage"), wl("plugin_reports.go reports"), "C05", "C04")
	addStrs("llo_MedianAggregator_cmps", llo.comparisons(llo.funcDecl("", "MedianAggregator")), wl("aggregators.go MedianAggregator"), "C02")
	addStrs("llo_MedianAggregator_idx", llo.medianIndexes(llo.funcDecl("", "MedianAggregator")), wl("aggregators.go MedianAggregator"), "C02")
	addStrs("llo_QuoteAggregator_cmps", llo.comparisons(llo.funcDecl("", "QuoteAggregator")), wl("aggregators.go QuoteAggregator"), "C02")
	addStrs("llo_QuoteAggregator_idx", llo.medianIndexes(llo.funcDecl("", "QuoteAggregator")), wl("aggregators.go QuoteAggregator"), "C02")
	addStrs("llo_Quote_IsValid_cmps", llo.comparisons(llo.funcDecl("Quote", "IsValid")), wl("stream_value.go Quote.IsValid"), "C02")
	addStrs("llo_medianTimestamp_idx", llo.medianIndexes(llo.funcDecl("", "medianTimestamp")), wl("plugin_outcome.go medianTimestamp"), "C02")
	addStrs("llo_ModeAggregator_cmps", llo.comparisons(llo.funcDecl("", "ModeAggregator")), wl("aggregators.go ModeAggregator"), "C15")
	addStrs("llo_mostCommonType_cmps", llo.comparisons(llo.funcDecl("", "mostCommonType"), "len("), wl("aggregators.go mostCommonType"), "C15", "C02")
	addStrs("llo_ValidateObservation_cmps", llo.comparisons(llo.funcDecl("Plugin", "ValidateObservation")), wl("plugin.go ValidateObservation"), "C14", "C06")
	addStrs("llo_VerifyChannelDefinitions_cmps", llo.comparisons(llo.funcDecl("", "VerifyChannelDefinitions"), "Aggregator"), wl("channel_definitions.go"), "C14")
	addStrs("llo_OffchainConfig_Validate_cmps", llo.comparisons(llo.funcDecl("OffchainConfig", "Validate"), "DefaultMinReportIntervalNanoseconds"), wl("offchain_config.go Validate"), "C03", "C16")

	// ---- map range inventory (typed)
	for _, fn := range [][2]string{{"Plugin", "outcome"}, {"Plugin", "decodeObservations"}, {"Outcome", "ReportableChannels"},
		{"", "StreamAggregatesToProtoOutcome"}, {"", "channelDefinitionsToProtoOutcome"},
		{"", "validAfterNanosecondsToProtoOutcomeSeconds"}, {"", "validAfterNanosecondsToProtoOutcomeNanoseconds"},
		{"Plugin", "reports"}, {"", "ModeAggregator"}, {"", "mostCommonType"}, {"", "MedianAggregator"}, {"", "QuoteAggregator"}} {
		addStrs("llo_"+fn[1]+"_mapranges", llo.mapRanges(llo.funcDecl(fn[0], fn[1])), wl(fn[1]), "C01", "C10")
	}

	// ---- regex / format literals
	addStr("llo_quoteRegex", llo.varStringArg("quoteRegex"), wl("stream_value.go"), "C17")
	addStr("llo_timestampedStreamValueRegex", llo.varStringArg("timestampedStreamValueRegex"), wl("stream_value.go"), "C17")
	addStrs("llo_Quote_MarshalText_fmt", llo.sprintfFormats(llo.funcDecl("Quote", "MarshalText")), wl("stream_value.go"), "C17")
	addStrs("llo_TSV_MarshalText_fmt", llo.sprintfFormats(llo.funcDecl("TimestampedStreamValue", "MarshalText")), wl("stream_value.go"), "C17")

	evm := load("llo/reportcodecs/evm", false)
	addStr("evm_typeRegex", evm.varStringArg("typeRegex"), "llo/reportcodecs/evm/report_codec_common.go", "C13")
	addStrs("evm_EncodePackedBigInt_cmps", evm.comparisons(evm.funcDecl("", "EncodePackedBigInt"), "typePrefix"), "llo/reportcodecs/evm/report_codec_common.go EncodePackedBigInt", "C13")
	addStrs("evm_EncodePaddedBigInt_cmps", evm.comparisons(evm.funcDecl("", "EncodePaddedBigInt")), "llo/reportcodecs/evm/report_codec_common.go EncodePaddedBigInt", "C13")
	addStrs("evm_ExtractTimestamps_cmps", evm.comparisons(evm.funcDecl("", "ExtractTimestamps")), "llo/reportcodecs/evm/report_codec_common.go ExtractTimestamps", "C12")

	// ---- mercury
	merc := load("mercury", false)
	for _, fn := range []string{"GetConsensusTimestamp", "GetConsensusBenchmarkPrice", "GetConsensusBid", "GetConsensusAsk", "GetConsensusMaxFinalizedTimestamp", "GetConsensusLinkFee", "GetConsensusNativeFee"} {
		fd := merc.funcDecl("", fn)
		addStrs("mercury_"+fn+"_cmps", merc.comparisons(fd), "mercury/aggregate_functions.go "+fn, "C08")
		addStrs("mercury_"+fn+"_idx", merc.medianIndexes(fd), "mercury/aggregate_functions.go "+fn, "C08")
	}
	for _, fn := range []string{"ValidateValidFromTimestamp", "ValidateExpiresAt", "ValidateBetween", "ValidateFee"} {
		addStrs("mercury_"+fn+"_cmps", merc.comparisons(merc.funcDecl("", fn)), "mercury/validation.go "+fn, "C07")
	}
	m1 := load("mercury/v1", false)
	for _, fn := range []string{"GetConsensusLatestBlock", "GetConsensusMaxFinalizedBlockNum"} {
		addStrs("mercury_v1_"+fn+"_cmps", m1.comparisons(m1.funcDecl("", fn)), "mercury/v1/aggregate_functions.go "+fn, "C08")
	}
	m4 := load("mercury/v4", false)
	addStrs("mercury_v4_GetConsensusMarketStatus_cmps", m4.comparisons(m4.funcDecl("", "GetConsensusMarketStatus")), "mercury/v4/aggregate_functions.go", "C08")
	for _, v := range []string{"v1", "v2", "v3", "v4"} {
		mp := m1
		if v != "v1" {
			mp = load("mercury/"+v, false)
		}
		addStrs("mercury_"+v+"_Report_cmps", mp.comparisons(mp.funcDecl("reportingPlugin", "Report")), "mercury/"+v+"/mercury.go Report", "C07", "C09")
		addStrs("mercury_"+v+"_buildReportFields_cmps", mp.comparisons(mp.funcDecl("reportingPlugin", "buildReportFields"), "MaxUint32"), "mercury/"+v+"/mercury.go buildReportFields", "C07", "C09")
	}

	// ---- mtls lock discipline
	mt := load("rpc/mtls", false)
	for _, fn := range []string{"Replace", "Keys", "isValidPublicKey", "VerifyPeerCertificate"} {
		addStrs("mtls_"+fn+"_trace", mt.lockTrace(mt.funcDecl("PublicKeys", fn)), "rpc/mtls/mtls.go "+fn, "C20")
	}

	// ---- emit
	var b strings.Builder
	b.WriteString("/-! GENERATED by /verif/extract from the working tree — do not edit. -/\nnamespace DSV.Facts\n\n")
	byProp := map[string][]string{}
	for _, f := range facts {
		b.WriteString("/-- " + f.Where + " -/\n")
		switch f.Kind {
		case "nat":
			if _, err := strconv.ParseUint(f.Nat, 10, 64); err == nil {
				b.WriteString(fmt.Sprintf("def %s : Nat := %s\n\n", f.Name, f.Nat))
			} else {
				b.WriteString(fmt.Sprintf("def %s : String := %s\n\n", f.Name, leanStr(f.Nat)))
			}
		case "str":
			b.WriteString(fmt.Sprintf("def %s : String := %s\n\n", f.Name, leanStr(f.Str)))
		case "strs":
			parts := make([]string, len(f.Strs))
			for i, s := range f.Strs {
				parts[i] = leanStr(s)
			}
			b.WriteString(fmt.Sprintf("def %s : List String := [%s]\n\n", f.Name, strings.Join(parts, ",\n  ")))
		}
		for _, p := range f.Props {
			byProp[p] = append(byProp[p], f.Name)
		}
	}
	b.WriteString("end DSV.Facts\n")
	if err := os.MkdirAll(filepath.Dir(*leanOut), 0o755); err == nil {
		os.WriteFile(*leanOut, []byte(b.String()), 0o644)
	}
	js, _ := json.MarshalIndent(map[string]any{"facts": facts, "by_property": byProp}, "", " ")
	os.WriteFile(*jsonOut, js, 0o644)
	fmt.Printf("extract: %d facts\n", len(facts))
}
