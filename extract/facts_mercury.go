package main

func init() {
	register(func() {
		// ---- mercury
		merc := load("mercury", false)
		for _, fn := range []string{"GetConsensusTimestamp", "GetConsensusBenchmarkPrice", "GetConsensusBid", "GetConsensusAsk", "GetConsensusMaxFinalizedTimestamp", "GetConsensusLinkFee", "GetConsensusNativeFee"} {
			fd := merc.funcDecl("", fn)
			addStrs("mercury_"+fn+"_cmps", merc.comparisons(fd), "mercury/aggregate_functions.go "+fn, "C08")
			addStrs("mercury_"+fn+"_idx", merc.medianIndexes(fd), "mercury/aggregate_functions.go "+fn, "C08")
		}
		for _, fn := range []string{"ValidateValidFromTimestamp", "ValidateExpiresAt", "ValidateBetween", "ValidateFee"} {
			addStrs("mercury_"+fn+"_cmps", merc.comparisons(merc.funcDecl("", fn)), "mercury/validation.go "+fn, "C07")
		}
		m1 := load("mercury/v1", false)
		for _, fn := range []string{"GetConsensusLatestBlock", "GetConsensusMaxFinalizedBlockNum"} {
			addStrs("mercury_v1_"+fn+"_cmps", m1.comparisons(m1.funcDecl("", fn)), "mercury/v1/aggregate_functions.go "+fn, "C08")
		}
		m4 := load("mercury/v4", false)
		addStrs("mercury_v4_GetConsensusMarketStatus_cmps", m4.comparisons(m4.funcDecl("", "GetConsensusMarketStatus")), "mercury/v4/aggregate_functions.go", "C08")
		for _, v := range []string{"v1", "v2", "v3", "v4"} {
			mp := m1
			if v != "v1" {
				mp = load("mercury/"+v, false)
			}
			addStrs("mercury_"+v+"_Report_cmps", mp.comparisons(mp.funcDecl("reportingPlugin", "Report")), "mercury/"+v+"/mercury.go Report", "C07", "C09")
			addStrs("mercury_"+v+"_buildReportFields_cmps", mp.comparisons(mp.funcDecl("reportingPlugin", "buildReportFields"), "MaxUint32"), "mercury/"+v+"/mercury.go buildReportFields", "C07", "C09")
		}
	})
}
