package main

import (
	"go/ast"
	"go/token"
	"go/types"
	"strconv"
)

// mercConstLit: the literal initialiser of an untyped package constant (`const X = 10`).
func mercConstLit(p *pkg, name string) string {
	for _, f := range p.files {
		for _, d := range f.Decls {
			gd, ok := d.(*ast.GenDecl)
			if !ok || gd.Tok != token.CONST {
				continue
			}
			for _, sp := range gd.Specs {
				vs := sp.(*ast.ValueSpec)
				for i, id := range vs.Names {
					if id.Name != name || i >= len(vs.Values) {
						continue
					}
					if bl, ok := vs.Values[i].(*ast.BasicLit); ok && bl.Kind == token.INT {
						return bl.Value
					}
					return types.ExprString(vs.Values[i])
				}
			}
		}
	}
	return "<not found>"
}

// mercCalls: calls whose callee text contains one of the filters, in source order, rendered as
// `callee(args…)`; string-literal arguments are kept, others are printed as written.
func mercCalls(fd *ast.FuncDecl, filters ...string) []string {
	if fd == nil {
		return []string{"<function not found>"}
	}
	var out []string
	ast.Inspect(fd, func(n ast.Node) bool {
		ce, ok := n.(*ast.CallExpr)
		if !ok {
			return true
		}
		callee := types.ExprString(ce.Fun)
		keep := false
		for _, f := range filters {
			if len(callee) >= len(f) && containsStr(callee, f) {
				keep = true
			}
		}
		if !keep {
			return true
		}
		s := callee + "("
		for i, a := range ce.Args {
			if i > 0 {
				s += ", "
			}
			if bl, ok := a.(*ast.BasicLit); ok && bl.Kind == token.STRING {
				u, _ := strconv.Unquote(bl.Value)
				s += strconv.Quote(u)
			} else {
				s += types.ExprString(a)
			}
		}
		out = append(out, s+")")
		return true
	})
	return out
}

func containsStr(s, sub string) bool {
	for i := 0; i+len(sub) <= len(s); i++ {
		if s[i:i+len(sub)] == sub {
			return true
		}
	}
	return false
}

// mercAssignsTo: right-hand sides assigned to `lhs` (e.g. "rf.ValidFromTimestamp") in source order
func mercAssignsTo(fd *ast.FuncDecl, lhs string) []string {
	if fd == nil {
		return []string{"<function not found>"}
	}
	var out []string
	ast.Inspect(fd, func(n ast.Node) bool {
		as, ok := n.(*ast.AssignStmt)
		if !ok {
			return true
		}
		for i, l := range as.Lhs {
			if types.ExprString(l) == lhs && i < len(as.Rhs) {
				out = append(out, types.ExprString(as.Rhs[i]))
			}
		}
		return true
	})
	return out
}

func init() {
	register(func() {
		// ---- mercury
		merc := load("mercury", false)
		for _, fn := range []string{"GetConsensusTimestamp", "GetConsensusBenchmarkPrice", "GetConsensusBid", "GetConsensusAsk", "GetConsensusMaxFinalizedTimestamp", "GetConsensusLinkFee", "GetConsensusNativeFee"} {
			fd := merc.funcDecl("", fn)
			addStrs("mercury_"+fn+"_cmps", merc.comparisons(fd), "mercury/aggregate_functions.go "+fn, "C08")
			addStrs("mercury_"+fn+"_idx", merc.medianIndexes(fd), "mercury/aggregate_functions.go "+fn, "C08")
		}
		for _, fn := range []string{"ValidateValidFromTimestamp", "ValidateExpiresAt", "ValidateBetween", "ValidateFee"} {
			addStrs("mercury_"+fn+"_cmps", merc.comparisons(merc.funcDecl("", fn)), "mercury/validation.go "+fn, "C07")
		}
		addStrs("mercury_ValidateFee_calls", mercCalls(merc.funcDecl("", "ValidateFee"), "ValidateBetween"), "mercury/validation.go ValidateFee", "C07")
		addNat("mercury_EvmHashLen", mercConstLit(merc, "EvmHashLen"), "mercury/validation.go", "C07", "C08")
		addNat("mercury_ByteWidthInt192", mercConstLit(merc, "ByteWidthInt192"), "mercury/value.go", "C07")
		addStrs("mercury_MaxInt192_init", mercCalls(merc.funcDecl("", "init"), "Lsh", "Sub"), "mercury/value.go init", "C07")
		m1 := load("mercury/v1", false)
		for _, fn := range []string{"GetConsensusLatestBlock", "GetConsensusMaxFinalizedBlockNum"} {
			addStrs("mercury_v1_"+fn+"_cmps", m1.comparisons(m1.funcDecl("", fn)), "mercury/v1/aggregate_functions.go "+fn, "C08")
		}
		addNat("mercury_v1_MaxAllowedBlocks", mercConstLit(m1, "MaxAllowedBlocks"), "mercury/v1/mercury.go", "C08")
		addStrs("mercury_v1_parse_cmps", m1.comparisons(m1.funcDecl("", "parseAttributedObservation"), "EvmHashLen"), "mercury/v1/mercury.go parseAttributedObservation", "C08")
		addStrs("mercury_v1_ValidateCurrentBlock_cmps", m1.comparisons(m1.funcDecl("", "ValidateCurrentBlock"), "EvmHashLen"), "mercury/v1/validation.go ValidateCurrentBlock", "C07")
		m4 := load("mercury/v4", false)
		addStrs("mercury_v4_GetConsensusMarketStatus_cmps", m4.comparisons(m4.funcDecl("", "GetConsensusMarketStatus")), "mercury/v4/aggregate_functions.go", "C08")
		for _, v := range []string{"v1", "v2", "v3", "v4"} {
			mp := m1
			if v != "v1" {
				mp = load("mercury/"+v, false)
			}
			rep := mp.funcDecl("reportingPlugin", "Report")
			brf := mp.funcDecl("reportingPlugin", "buildReportFields")
			addStrs("mercury_"+v+"_Report_cmps", mp.comparisons(rep, "len(report)", "len(paos)"), "mercury/"+v+"/mercury.go Report", "C07", "C09")
			addStrs("mercury_"+v+"_buildReportFields_cmps", mp.comparisons(brf, "MaxUint32"), "mercury/"+v+"/mercury.go buildReportFields", "C07", "C09")
			addStrs("mercury_"+v+"_validateReport_calls", mercCalls(mp.funcDecl("reportingPlugin", "validateReport"), "Validate"), "mercury/"+v+"/mercury.go validateReport", "C07")
			addStrs("mercury_"+v+"_Report_calls", mercCalls(rep, "buildReportFields", "validateReport", "BuildReport", "parseAttributedObservations"), "mercury/"+v+"/mercury.go Report", "C07", "C09")
			if v == "v1" {
				addStrs("mercury_v1_validFrom_assigns", mercAssignsTo(brf, "rf.ValidFromBlockNum"), "mercury/v1/mercury.go buildReportFields", "C09")
			} else {
				addStrs("mercury_"+v+"_validFrom_assigns", mercAssignsTo(brf, "rf.ValidFromTimestamp"), "mercury/"+v+"/mercury.go buildReportFields", "C09")
				addStrs("mercury_"+v+"_expiresAt_assigns", mercAssignsTo(brf, "rf.ExpiresAt"), "mercury/"+v+"/mercury.go buildReportFields", "C07")
				addStrs("mercury_"+v+"_getMFT_cmps", mp.comparisons(mp.funcDecl("parsedAttributedObservation", "GetMaxFinalizedTimestamp")), "mercury/"+v+"/observation.go GetMaxFinalizedTimestamp", "C08", "C09")
			}
			if v == "v3" {
				addStrs("mercury_v3_validatePrices_cmps", mp.comparisons(mp.funcDecl("", "validatePrices")), "mercury/v3/mercury.go validatePrices", "C07")
				addStrs("mercury_v3_parse_calls", mercCalls(mp.funcDecl("", "parseAttributedObservation"), "validatePrices"), "mercury/v3/mercury.go parseAttributedObservation", "C07")
			}
		}
	})
}
