package main

import (
	"go/ast"
	"go/token"
	"go/types"
	"strconv"
	"strings"
)

func init() {
	register(func() {
		evm := load("llo/reportcodecs/evm", false)
		addStr("evm_typeRegex", evm.varStringArg("typeRegex"), "llo/reportcodecs/evm/report_codec_common.go", "C13")
		addStrs("evm_EncodePackedBigInt_cmps", evm.comparisons(evm.funcDecl("", "EncodePackedBigInt"), "typePrefix"), "llo/reportcodecs/evm/report_codec_common.go EncodePackedBigInt", "C13")
		addStrs("evm_EncodePaddedBigInt_cmps", evm.comparisons(evm.funcDecl("", "EncodePaddedBigInt")), "llo/reportcodecs/evm/report_codec_common.go EncodePaddedBigInt", "C13")
		addStrs("evm_ExtractTimestamps_cmps", evm.comparisons(evm.funcDecl("", "ExtractTimestamps")), "llo/reportcodecs/evm/report_codec_common.go ExtractTimestamps", "C12")

		// ---- C12: the EVM report codecs
		common := "llo/reportcodecs/evm/report_codec_common.go "
		addStrs("evm_ExtractTimestamps_arith", evm.binaryExprs(evm.funcDecl("", "ExtractTimestamps"), token.QUO), common+"ExtractTimestamps", "C12")
		addStrs("evm_applyMultiplier_calls", evm.calls(evm.funcDecl("singleABIEncoder", "applyMultiplier")), common+"applyMultiplier", "C12")
		addStrs("evm_getNormalizedMultiplier_calls", evm.calls(evm.funcDecl("singleABIEncoder", "getNormalizedMultiplier")), common+"getNormalizedMultiplier", "C12")
		addStrs("evm_encodePacked_conds", evm.ifConds(evm.funcDecl("singleABIEncoder", "encodePacked")), common+"singleABIEncoder.encodePacked", "C12")
		addStrs("evm_encodeUint64Packed_conds", evm.ifConds(evm.funcDecl("singleABIEncoder", "encodeUint64Packed")), common+"singleABIEncoder.encodeUint64Packed", "C12")
		addStrs("evm_ABIEncoder_EncodePacked_conds", evm.ifConds(evm.funcDecl("ABIEncoder", "EncodePacked")), common+"ABIEncoder.EncodePacked", "C12")
		addStrs("evm_ABIEncoder_EncodePadded_conds", evm.ifConds(evm.funcDecl("ABIEncoder", "EncodePadded")), common+"ABIEncoder.EncodePadded", "C12")
		addStr("evm_ZeroBytesSentinel", evm.constLit("ZeroBytesSentinel"), common, "C12")

		fees := "llo/reportcodecs/evm/fees.go "
		addStrs("evm_CalculateFee_conds", evm.ifConds(evm.funcDecl("", "CalculateFee")), fees+"CalculateFee", "C12")
		addStrs("evm_CalculateFee_calls", evm.calls(evm.funcDecl("", "CalculateFee")), fees+"CalculateFee", "C12")
		addStr("evm_Precision", evm.constLit("Precision"), fees, "C12")
		addStr("evm_FeeScalingFactor", evm.varInit("FeeScalingFactor"), fees, "C12")

		prem := "llo/reportcodecs/evm/report_codec_premium_legacy.go "
		addStrs("evm_premium_Encode_conds", evm.ifConds(evm.funcDecl("ReportCodecPremiumLegacy", "Encode")), prem+"Encode", "C12")
		addStrs("evm_premium_Encode_fields", evm.compositeFields(evm.funcDecl("ReportCodecPremiumLegacy", "Encode"), "ReportFields"), prem+"Encode", "C12")
		addStrs("evm_premium_Verify_conds", evm.ifConds(evm.funcDecl("ReportCodecPremiumLegacy", "Verify")), prem+"Verify", "C12")
		addStrs("evm_premium_OptsDecode_conds", evm.ifConds(evm.funcDecl("ReportFormatEVMPremiumLegacyOpts", "Decode")), prem+"ReportFormatEVMPremiumLegacyOpts.Decode", "C12")
		addStrs("evm_ExtractReportValues_conds", evm.ifConds(evm.funcDecl("", "ExtractReportValues")), prem+"ExtractReportValues", "C12")
		addStrs("evm_extractPrice_cases", evm.typeSwitchCases(evm.funcDecl("", "extractPrice")), prem+"extractPrice", "C12")

		unp := "llo/reportcodecs/evm/report_codec_evm_abi_encode_unpacked.go "
		addStrs("evm_unpacked_Encode_conds", evm.ifConds(evm.funcDecl("ReportCodecEVMABIEncodeUnpacked", "Encode")), unp+"Encode", "C12")
		addStrs("evm_unpacked_Encode_fields", evm.compositeFields(evm.funcDecl("ReportCodecEVMABIEncodeUnpacked", "Encode"), "BaseReportFields"), unp+"Encode", "C12")
		addStrs("evm_unpacked_Verify_conds", evm.ifConds(evm.funcDecl("ReportCodecEVMABIEncodeUnpacked", "Verify")), unp+"Verify", "C12")
		addStrs("evm_buildHeader_conds", evm.ifConds(evm.funcDecl("ReportCodecEVMABIEncodeUnpacked", "buildHeader")), unp+"buildHeader", "C12")
		addStrs("evm_buildHeader_pack", evm.callArgs(evm.funcDecl("ReportCodecEVMABIEncodeUnpacked", "buildHeader"), ".Pack"), unp+"buildHeader", "C12")
		addStrs("evm_buildPayload_conds", evm.ifConds(evm.funcDecl("", "buildPayload")), unp+"buildPayload", "C12")
		addStrs("evm_unpacked_BaseSchema", evm.stringLits(evm.funcDecl("", "getBaseSchema")), unp+"getBaseSchema", "C12")
		addStr("evm_unpacked_maxUint192", evm.varInit("maxUint192"), unp, "C12")

		str := "llo/reportcodecs/evm/report_codec_evm_streamlined.go "
		addStrs("evm_streamlined_Encode_conds", evm.ifConds(evm.funcDecl("ReportCodecEVMStreamlined", "Encode")), str+"Encode", "C12")
		addStrs("evm_streamlined_Encode_calls", evm.callsMatching(evm.funcDecl("ReportCodecEVMStreamlined", "Encode"), "encodePacked", "EncodePacked", ".Bytes()"), str+"Encode", "C12")
		addStrs("evm_streamlined_Verify_conds", evm.ifConds(evm.funcDecl("ReportCodecEVMStreamlined", "Verify")), str+"Verify", "C12")

		v3 := load("llo/reportcodecs/evm/v3", false)
		v3w := "llo/reportcodecs/evm/v3/report_codec.go "
		addStrs("evm_v3_BuildReport_conds", v3.ifConds(v3.funcDecl("ReportCodec", "BuildReport")), v3w+"BuildReport", "C12")
		addStrs("evm_v3_BuildReport_checks", v3.callsMatching(v3.funcDecl("ReportCodec", "BuildReport"), "checkInt192"), v3w+"BuildReport", "C12")
		addStrs("evm_v3_BuildReport_pack", v3.callArgs(v3.funcDecl("ReportCodec", "BuildReport"), ".Pack"), v3w+"BuildReport", "C12")
		addStrs("evm_v3_checkInt192_conds", v3.ifConds(v3.funcDecl("", "checkInt192")), v3w+"checkInt192", "C12")
		addStrs("evm_v3_bounds", []string{v3.varInit("maxUint192"), v3.varInit("maxInt192"), v3.varInit("minInt192")}, v3w+"maxUint192, maxInt192, minInt192", "C12")
		addStrs("evm_v3_Schema", v3.stringLits(v3.funcDecl("", "getSchema")), "llo/reportcodecs/evm/v3/types.go getSchema", "C12")
	})
}

// ---- AST helpers used only by the EVM facts

// ifConds lists the conditions of all if statements of a function in source order, without the
// ubiquitous `err != nil` / `merr != nil` / `marshalErr != nil`.
func (p *pkg) ifConds(fd *ast.FuncDecl) []string {
	if fd == nil {
		return []string{"<function not found>"}
	}
	var out []string
	ast.Inspect(fd, func(n ast.Node) bool {
		is, ok := n.(*ast.IfStmt)
		if !ok {
			return true
		}
		s := types.ExprString(is.Cond)
		if is.Init != nil {
			if as, ok := is.Init.(*ast.AssignStmt); ok && len(as.Rhs) == 1 {
				s = types.ExprString(as.Rhs[0]) + "; " + s
			}
		}
		if s == "err != nil" || s == "merr != nil" || s == "marshalErr != nil" {
			return true
		}
		out = append(out, s)
		return true
	})
	return out
}

// binaryExprs lists binary expressions with the given operator.
func (p *pkg) binaryExprs(fd *ast.FuncDecl, op token.Token) []string {
	if fd == nil {
		return []string{"<function not found>"}
	}
	var out []string
	ast.Inspect(fd, func(n ast.Node) bool {
		if be, ok := n.(*ast.BinaryExpr); ok && be.Op == op {
			out = append(out, types.ExprString(be))
		}
		return true
	})
	return out
}

// calls lists every outermost call expression of a function body (nested calls are part of the text).
func (p *pkg) calls(fd *ast.FuncDecl) []string {
	if fd == nil {
		return []string{"<function not found>"}
	}
	var out []string
	ast.Inspect(fd.Body, func(n ast.Node) bool {
		if ce, ok := n.(*ast.CallExpr); ok {
			out = append(out, types.ExprString(ce))
			return false
		}
		return true
	})
	return out
}

// callsMatching lists call expressions whose text contains one of the substrings (outermost match).
func (p *pkg) callsMatching(fd *ast.FuncDecl, subs ...string) []string {
	if fd == nil {
		return []string{"<function not found>"}
	}
	var out []string
	ast.Inspect(fd.Body, func(n ast.Node) bool {
		if ce, ok := n.(*ast.CallExpr); ok {
			f := types.ExprString(ce.Fun)
			for _, s := range subs {
				if strings.Contains(f+"()", s) {
					out = append(out, types.ExprString(ce))
					return false
				}
			}
		}
		return true
	})
	return out
}

// callArgs lists the arguments of the first call whose function text ends with suffix.
func (p *pkg) callArgs(fd *ast.FuncDecl, suffix string) []string {
	if fd == nil {
		return []string{"<function not found>"}
	}
	var out []string
	found := false
	ast.Inspect(fd.Body, func(n ast.Node) bool {
		if ce, ok := n.(*ast.CallExpr); ok && !found && strings.HasSuffix(types.ExprString(ce.Fun), suffix) {
			found = true
			out = append(out, types.ExprString(ce.Fun))
			for _, a := range ce.Args {
				out = append(out, types.ExprString(a))
			}
			return false
		}
		return true
	})
	if !found {
		return []string{"<call not found>"}
	}
	return out
}

// compositeFields lists "Key: Value" of the first composite literal whose type text ends with typeSuffix.
func (p *pkg) compositeFields(fd *ast.FuncDecl, typeSuffix string) []string {
	if fd == nil {
		return []string{"<function not found>"}
	}
	var out []string
	found := false
	ast.Inspect(fd.Body, func(n ast.Node) bool {
		cl, ok := n.(*ast.CompositeLit)
		if !ok || found || cl.Type == nil || !strings.HasSuffix(types.ExprString(cl.Type), typeSuffix) {
			return true
		}
		found = true
		for _, e := range cl.Elts {
			if kv, ok := e.(*ast.KeyValueExpr); ok {
				out = append(out, types.ExprString(kv.Key)+": "+types.ExprString(kv.Value))
			} else {
				out = append(out, types.ExprString(e))
			}
		}
		return false
	})
	if !found {
		return []string{"<literal not found>"}
	}
	return out
}

// stringLits lists all string literals of a function in source order.
func (p *pkg) stringLits(fd *ast.FuncDecl) []string {
	if fd == nil {
		return []string{"<function not found>"}
	}
	var out []string
	ast.Inspect(fd.Body, func(n ast.Node) bool {
		if bl, ok := n.(*ast.BasicLit); ok && bl.Kind == token.STRING {
			if s, err := strconv.Unquote(bl.Value); err == nil {
				out = append(out, s)
			}
		}
		return true
	})
	return out
}

// typeSwitchCases lists the case clauses ("case *llo.Decimal" …) of the type switches of a function.
func (p *pkg) typeSwitchCases(fd *ast.FuncDecl) []string {
	if fd == nil {
		return []string{"<function not found>"}
	}
	var out []string
	ast.Inspect(fd.Body, func(n ast.Node) bool {
		ts, ok := n.(*ast.TypeSwitchStmt)
		if !ok {
			return true
		}
		for _, c := range ts.Body.List {
			cc := c.(*ast.CaseClause)
			if cc.List == nil {
				out = append(out, "default")
				continue
			}
			var ts []string
			for _, e := range cc.List {
				ts = append(ts, types.ExprString(e))
			}
			out = append(out, "case "+strings.Join(ts, ", "))
		}
		return true
	})
	return out
}

func (p *pkg) valueSpecExpr(tok token.Token, name string) string {
	for _, f := range p.files {
		for _, d := range f.Decls {
			gd, ok := d.(*ast.GenDecl)
			if !ok || gd.Tok != tok {
				continue
			}
			for _, sp := range gd.Specs {
				vs := sp.(*ast.ValueSpec)
				for i, id := range vs.Names {
					if id.Name == name && i < len(vs.Values) {
						return types.ExprString(vs.Values[i])
					}
				}
			}
		}
	}
	return "<not found>"
}

// constLit is the source text of a package constant's value; varInit of a package variable's initialiser.
func (p *pkg) constLit(name string) string { return p.valueSpecExpr(token.CONST, name) }
func (p *pkg) varInit(name string) string  { return p.valueSpecExpr(token.VAR, name) }
