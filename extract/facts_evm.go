package main

func init() {
	register(func() {
		evm := load("llo/reportcodecs/evm", false)
		addStr("evm_typeRegex", evm.varStringArg("typeRegex"), "llo/reportcodecs/evm/report_codec_common.go", "C13")
		addStrs("evm_EncodePackedBigInt_cmps", evm.comparisons(evm.funcDecl("", "EncodePackedBigInt"), "typePrefix"), "llo/reportcodecs/evm/report_codec_common.go EncodePackedBigInt", "C13")
		addStrs("evm_EncodePaddedBigInt_cmps", evm.comparisons(evm.funcDecl("", "EncodePaddedBigInt")), "llo/reportcodecs/evm/report_codec_common.go EncodePaddedBigInt", "C13")
		addStrs("evm_ExtractTimestamps_cmps", evm.comparisons(evm.funcDecl("", "ExtractTimestamps")), "llo/reportcodecs/evm/report_codec_common.go ExtractTimestamps", "C12")
	})
}
