package main

// Source fingerprints: for every property, one fact listing each top-level function of the property's
// anchor files with a hash of its body (go/printer output, comments and all white space removed).  The
// models are transcriptions of exactly this text; when a function changes, the fact lemma
// `source_fingerprints` of every property anchored in that file stops checking, the failing-input search
// runs, and the replay names the functions that changed.  (A harmless rewrite trips it too: then the
// search finds nothing and the line ends with no-failing-input-found, as the brief prescribes.)

import (
	"bufio"
	"bytes"
	"crypto/sha256"
	"encoding/hex"
	"encoding/json"
	"go/ast"
	"go/parser"
	"go/printer"
	"go/token"
	"os"
	"path/filepath"
	"sort"
	"strings"
	"unicode"
)

var propsFile = "/verif/properties.jsonl"

// extraSrc lists, per property, source files that the property's statement reaches although its anchor list does
// not name them (callees of the anchored callbacks): "no callback panics" and "bounded cost per callback" hold of
// everything a callback runs, determinism of everything that produces bytes.
var extraSrc = map[string][]string{
	"C01": {"llo/stream_value.go", "llo/channel_definitions.go", "llo/json_report_codec.go", "llo/report.go"},
	"C11": {"llo/aggregators.go", "llo/channel_definitions.go", "llo/plugin_observation.go", "llo/outcome_codec_common.go", "llo/outcome_codec_v0.go", "llo/outcome_codec_v1.go",
		"llo/retirement_report_codec.go", "llo/offchain_config.go", "llo/report.go", "llo/reportcodecs/evm/report_codec_common.go", "llo/reportcodecs/evm/fees.go",
		"mercury/aggregate_functions.go", "mercury/v1/aggregate_functions.go", "mercury/v4/aggregate_functions.go", "mercury/validation.go", "mercury/v1/validation.go", "mercury/onchain_config.go"},
	"C19": {"llo/plugin_outcome.go", "llo/plugin_reports.go", "llo/plugin_observation.go", "llo/channel_definitions.go", "llo/outcome_codec_common.go", "llo/outcome_codec_v0.go", "llo/outcome_codec_v1.go",
		"llo/report.go", "llo/reportcodecs/evm/report_codec_premium_legacy.go", "llo/reportcodecs/evm/report_codec_evm_abi_encode_unpacked.go", "llo/reportcodecs/evm/report_codec_evm_streamlined.go"},
}

func init() {
	register(func() {
		f, err := os.Open(propsFile)
		if err != nil {
			return
		}
		defer f.Close()
		cache := map[string][]string{} // file -> "file:Recv.Func=hash"
		sc := bufio.NewScanner(f)
		sc.Buffer(make([]byte, 1<<20), 1<<24)
		for sc.Scan() {
			var p struct {
				ID      string `json:"id"`
				Anchors struct {
					Files []string `json:"files"`
				} `json:"anchors"`
			}
			if json.Unmarshal(sc.Bytes(), &p) != nil || p.ID == "" {
				continue
			}
			var all []string
			for _, file := range append(append([]string{}, p.Anchors.Files...), extraSrc[p.ID]...) {
				if !strings.HasSuffix(file, ".go") || strings.HasSuffix(file, ".pb.go") {
					continue
				}
				if _, ok := cache[file]; !ok {
					cache[file] = fingerprints(file)
				}
				all = append(all, cache[file]...)
			}
			// declarations outside those files that they reach (helpers, callees in other packages of the module)
			var listed []string
			for _, file := range append(append([]string{}, p.Anchors.Files...), extraSrc[p.ID]...) {
				if strings.HasSuffix(file, ".go") && !strings.HasSuffix(file, ".pb.go") {
					listed = append(listed, file)
				}
			}
			for key := range reachableOutside(listed) {
				file := key[:strings.Index(key, ":")]
				if _, ok := cache[file]; !ok {
					cache[file] = fingerprints(file)
				}
				for _, fp := range cache[file] {
					if strings.HasPrefix(fp, key+"=") {
						all = append(all, fp)
					}
				}
			}
			// generated protobuf code of the packages involved: one hash per file (wire field numbers, defaults)
			pbDirs := map[string]bool{}
			for _, fp := range all {
				pbDirs[filepath.Dir(fp[:strings.Index(fp, ":")])] = true
			}
			var dirs []string
			for d := range pbDirs {
				dirs = append(dirs, d)
			}
			sort.Strings(dirs)
			for _, d := range dirs {
				ms, _ := filepath.Glob(filepath.Join(d, "*.pb.go"))
				sort.Strings(ms)
				for _, m := range ms {
					if b, err := os.ReadFile(m); err == nil {
						h := sha256.Sum256(b)
						all = append(all, m+":<generated file>="+hex.EncodeToString(h[:6]))
					}
				}
			}
			sort.Strings(all)
			addStrs("src_"+p.ID, all, "function bodies of the anchor files of "+p.ID+" and of the declarations they reach", p.ID)
		}
	})
}

func fingerprints(file string) []string {
	fset := token.NewFileSet()
	af, err := parser.ParseFile(fset, file, nil, 0) // comments are not even parsed
	if err != nil {
		return []string{file + ":<unparseable>"}
	}
	var out []string
	emit := func(name string, node any) {
		var b bytes.Buffer
		printer.Fprint(&b, fset, node)
		var t strings.Builder
		for _, r := range b.String() {
			if !unicode.IsSpace(r) {
				t.WriteRune(r)
			}
		}
		h := sha256.Sum256([]byte(t.String()))
		out = append(out, file+":"+name+"="+hex.EncodeToString(h[:6]))
	}
	for _, d := range af.Decls {
		switch t := d.(type) {
		case *ast.FuncDecl:
			name := t.Name.Name
			if t.Recv != nil && len(t.Recv.List) == 1 {
				rt := t.Recv.List[0].Type
				if s, ok := rt.(*ast.StarExpr); ok {
					rt = s.X
				}
				if id, ok := rt.(*ast.Ident); ok {
					name = id.Name + "." + name
				}
			}
			emit(name, t)
		case *ast.GenDecl:
			// package-level variables and constants (limits, regexes, shared buffers) are part of the text too
			if t.Tok == token.VAR || t.Tok == token.CONST {
				for _, sp := range t.Specs {
					if vs, ok := sp.(*ast.ValueSpec); ok && len(vs.Names) > 0 {
						emit(t.Tok.String()+" "+vs.Names[0].Name, vs)
					}
				}
			}
			if t.Tok == token.TYPE {
				for _, sp := range t.Specs {
					if ts, ok := sp.(*ast.TypeSpec); ok {
						emit("type "+ts.Name.Name, ts)
					}
				}
			}
		}
	}
	return out
}
