package main

// Facts for the LLO wire codecs (C10, C16, C17). All helpers are prefixed cdc.
// Uses untyped (parse-only) loads: everything here is read off the AST.

import (
	"bytes"
	"go/ast"
	"go/constant"
	"go/printer"
	"go/token"
	"go/types"
	"strings"
)

// cdcSrc prints a node as source text (types.ExprString abbreviates composite literals).
func cdcSrc(p *pkg, n ast.Node) string {
	var b bytes.Buffer
	if err := printer.Fprint(&b, p.fset, n); err != nil {
		return "<print error>"
	}
	return strings.Join(strings.Fields(b.String()), " ")
}

// cdcConst evaluates an integer constant declared with literals and + - * << of other constants
// of the same package (e.g. `2 * 32`).
func cdcConst(p *pkg, name string) string {
	var find func(name string, depth int) constant.Value
	var eval func(e ast.Expr, depth int) constant.Value
	eval = func(e ast.Expr, depth int) constant.Value {
		if depth > 8 {
			return constant.MakeUnknown()
		}
		switch t := e.(type) {
		case *ast.BasicLit:
			return constant.MakeFromLiteral(t.Value, t.Kind, 0)
		case *ast.ParenExpr:
			return eval(t.X, depth+1)
		case *ast.Ident:
			return find(t.Name, depth+1)
		case *ast.BinaryExpr:
			a, b := eval(t.X, depth+1), eval(t.Y, depth+1)
			if a.Kind() == constant.Unknown || b.Kind() == constant.Unknown {
				return constant.MakeUnknown()
			}
			switch t.Op {
			case token.ADD, token.SUB, token.MUL:
				return constant.BinaryOp(a, t.Op, b)
			case token.SHL:
				if s, ok := constant.Uint64Val(b); ok {
					return constant.Shift(a, token.SHL, uint(s))
				}
			}
		}
		return constant.MakeUnknown()
	}
	find = func(name string, depth int) constant.Value {
		for _, f := range p.files {
			for _, d := range f.Decls {
				gd, ok := d.(*ast.GenDecl)
				if !ok || gd.Tok != token.CONST {
					continue
				}
				for _, sp := range gd.Specs {
					vs := sp.(*ast.ValueSpec)
					for i, id := range vs.Names {
						if id.Name == name && i < len(vs.Values) {
							return eval(vs.Values[i], depth)
						}
					}
				}
			}
		}
		return constant.MakeUnknown()
	}
	v := find(name, 0)
	if v.Kind() == constant.Unknown {
		return "<not found>"
	}
	return v.ExactString()
}

// cdcCalls lists, in source order, the text of every call inside fd whose callee text has one of the suffixes.
func cdcCalls(p *pkg, fd *ast.FuncDecl, suffixes ...string) []string {
	if fd == nil {
		return []string{"<function not found>"}
	}
	var out []string
	ast.Inspect(fd, func(n ast.Node) bool {
		ce, ok := n.(*ast.CallExpr)
		if !ok {
			return true
		}
		fn := types.ExprString(ce.Fun)
		for _, s := range suffixes {
			if strings.HasSuffix(fn, s) {
				args := make([]string, len(ce.Args))
				for i, a := range ce.Args {
					if _, isFunc := a.(*ast.FuncLit); isFunc {
						args[i] = "func"
					} else {
						args[i] = types.ExprString(a)
					}
				}
				out = append(out, cdcSrc(p, ce.Fun)+"("+strings.Join(args, ", ")+")")
			}
		}
		return true
	})
	return out
}

// cdcSteps lists, in source order, assignments to fields of the named variable ("assign o.X") and
// method calls on it ("call o.M"), ignoring everything else.
func cdcSteps(fd *ast.FuncDecl, v string) []string {
	if fd == nil {
		return []string{"<function not found>"}
	}
	var out []string
	ast.Inspect(fd.Body, func(n ast.Node) bool {
		switch t := n.(type) {
		case *ast.AssignStmt:
			for _, l := range t.Lhs {
				if se, ok := l.(*ast.SelectorExpr); ok && types.ExprString(se.X) == v {
					out = append(out, "assign "+types.ExprString(se))
				}
			}
		case *ast.CallExpr:
			if se, ok := t.Fun.(*ast.SelectorExpr); ok && types.ExprString(se.X) == v {
				out = append(out, "call "+types.ExprString(se))
			}
		}
		return true
	})
	return out
}

// cdcErrLiterals lists, in source order, the string literal passed first to fmt.Errorf / errors.New inside fd
// (the error branches a decoder has).
func cdcErrLiterals(fd *ast.FuncDecl) []string {
	if fd == nil {
		return []string{"<function not found>"}
	}
	var out []string
	ast.Inspect(fd, func(n ast.Node) bool {
		ce, ok := n.(*ast.CallExpr)
		if !ok || len(ce.Args) == 0 {
			return true
		}
		fn := types.ExprString(ce.Fun)
		if fn != "fmt.Errorf" && fn != "errors.New" {
			return true
		}
		if bl, ok := ce.Args[0].(*ast.BasicLit); ok && bl.Kind == token.STRING {
			out = append(out, strings.Trim(bl.Value, "\"`"))
		}
		return true
	})
	return out
}

func init() {
	register(func() {
		llo := load("llo", false)
		mer := load("mercury", false)
		wl := func(f string) string { return "llo/" + f }

		// ---- C10: the sorts, their comparison functions, the deterministic marshal call
		for _, fn := range []string{"StreamAggregatesToProtoOutcome", "channelDefinitionsToProtoOutcome",
			"validAfterNanosecondsToProtoOutcomeSeconds", "validAfterNanosecondsToProtoOutcomeNanoseconds"} {
			fd := llo.funcDecl("", fn)
			addStrs("llo_codec_"+fn+"_sorts", cdcCalls(llo, fd, "sort.Slice", "sort.SliceStable", "slices.SortFunc"), wl("outcome_codec_*.go "+fn), "C10")
			addStrs("llo_codec_"+fn+"_cmps", llo.comparisons(fd, "StreamID", "ChannelID", "Aggregator"), wl("outcome_codec_*.go "+fn), "C10")
		}
		addStrs("llo_codec_v0_Encode_marshal", cdcCalls(llo, llo.funcDecl("protoOutcomeCodecV0", "Encode"), ".Marshal"), wl("outcome_codec_v0.go Encode"), "C10")
		addStrs("llo_codec_v1_Encode_marshal", cdcCalls(llo, llo.funcDecl("protoOutcomeCodecV1", "Encode"), ".Marshal"), wl("outcome_codec_v1.go Encode"), "C10")
		addStrs("llo_codec_v0_Encode_cmps", llo.comparisons(llo.funcDecl("protoOutcomeCodecV0", "Encode")), wl("outcome_codec_v0.go Encode"), "C10")
		addStrs("llo_codec_v0_Decode_cmps", llo.comparisons(llo.funcDecl("protoOutcomeCodecV0", "Decode")), wl("outcome_codec_v0.go Decode"), "C10")
		addStrs("llo_codec_v1_Decode_cmps", llo.comparisons(llo.funcDecl("protoOutcomeCodecV1", "Decode")), wl("outcome_codec_v1.go Decode"), "C10")
		addNat("llo_codec_maxTimestampedStreamValueNesting", cdcConst(llo, "maxTimestampedStreamValueNesting"), wl("stream_value.go"), "C10", "C16")
		addStrs("llo_codec_TSV_unmarshalBinary_cmps", llo.comparisons(llo.funcDecl("TimestampedStreamValue", "unmarshalBinary"), "Type"), wl("stream_value.go unmarshalBinary"), "C10", "C16")

		addStrs("llo_codec_channelDefinitionsFromProtoOutcome_errors", cdcErrLiterals(llo.funcDecl("", "channelDefinitionsFromProtoOutcome")), wl("outcome_codec_common.go"), "C10")
		addStrs("llo_codec_UnmarshalProtoStreamValue_errors", cdcErrLiterals(llo.funcDecl("", "UnmarshalProtoStreamValue")), wl("stream_value.go"), "C10", "C16")
		addStrs("llo_codec_TSV_unmarshalBinary_errors", cdcErrLiterals(llo.funcDecl("TimestampedStreamValue", "unmarshalBinary")), wl("stream_value.go"), "C10", "C16")

		// ---- C16
		addStrs("llo_codec_obs_Decode_errors", cdcErrLiterals(llo.funcDecl("protoObservationCodec", "Decode")), wl("observation_codec.go Decode"), "C16")
		addStrs("llo_codec_obs_Decode_cmps", llo.comparisons(llo.funcDecl("protoObservationCodec", "Decode")), wl("observation_codec.go Decode"), "C16")
		addStrs("llo_codec_DecodeOffchainConfig_steps", cdcSteps(llo.funcDecl("", "DecodeOffchainConfig"), "o"), wl("offchain_config.go DecodeOffchainConfig"), "C16")
		addNat("llo_codec_onchainConfigEncodedLength", cdcConst(llo, "onchainConfigEncodedLength"), wl("onchain_config_codec.go"), "C16")
		addNat("llo_codec_onchainConfigVersion", cdcConst(llo, "onchainConfigVersion"), wl("onchain_config_codec.go"), "C16")
		addStrs("llo_codec_onchain_Decode_cmps", llo.comparisons(llo.funcDecl("EVMOnchainConfigCodec", "Decode"), "len(b)", "Cmp"), wl("onchain_config_codec.go Decode"), "C16")
		addStrs("llo_codec_onchain_Encode_cmps", llo.comparisons(llo.funcDecl("EVMOnchainConfigCodec", "Encode"), "Version"), wl("onchain_config_codec.go Encode"), "C16")
		addStrs("llo_codec_onchain_Decode_words", cdcCalls(llo, llo.funcDecl("EVMOnchainConfigCodec", "Decode"), "DeserializeSigned", "types.ConfigDigest"), wl("onchain_config_codec.go Decode"), "C16")
		addNat("mercury_codec_onchainConfigEncodedLength", cdcConst(mer, "onchainConfigEncodedLength"), "mercury/onchain_config.go", "C16")
		addNat("mercury_codec_onchainConfigVersion", cdcConst(mer, "onchainConfigVersion"), "mercury/onchain_config.go", "C16")
		addNat("mercury_codec_ByteWidthInt192", cdcConst(mer, "ByteWidthInt192"), "mercury/value.go", "C16")
		addStrs("mercury_codec_onchain_Decode_cmps", mer.comparisons(mer.funcDecl("StandardOnchainConfigCodec", "Decode"), "len(b)", "Cmp"), "mercury/onchain_config.go Decode", "C16")
		addStrs("mercury_codec_onchain_Decode_words", cdcCalls(mer, mer.funcDecl("StandardOnchainConfigCodec", "Decode"), "DeserializeSigned"), "mercury/onchain_config.go Decode", "C16")
		addStrs("mercury_codec_onchain_Encode_words", cdcCalls(mer, mer.funcDecl("StandardOnchainConfigCodec", "Encode"), "SerializeSigned"), "mercury/onchain_config.go Encode", "C16")
		addStrs("mercury_codec_int192_calls", append(cdcCalls(mer, mer.funcDecl("", "EncodeValueInt192"), "SerializeSigned"), cdcCalls(mer, mer.funcDecl("", "DecodeValueInt192"), "DeserializeSigned")...), "mercury/value.go", "C16")

		// ---- C17
		addStrs("llo_codec_Quote_UnmarshalText_cmps", llo.comparisons(llo.funcDecl("Quote", "UnmarshalText"), "len(matches)"), wl("stream_value.go Quote.UnmarshalText"), "C17")
		addStrs("llo_codec_TSV_UnmarshalText_cmps", llo.comparisons(llo.funcDecl("TimestampedStreamValue", "UnmarshalText"), "len(matches)"), wl("stream_value.go TimestampedStreamValue.UnmarshalText"), "C17")
		addStrs("llo_codec_TSV_UnmarshalText_scan", cdcCalls(llo, llo.funcDecl("TimestampedStreamValue", "UnmarshalText"), "fmt.Sscanf", "json.Unmarshal"), wl("stream_value.go TimestampedStreamValue.UnmarshalText"), "C17")
		addStrs("llo_codec_json_Decode_cmps", llo.comparisons(llo.funcDecl("JSONReportCodec", "Decode"), "SeqNr"), wl("json_report_codec.go Decode"), "C17")
		addStrs("llo_codec_json_Decode_digest", cdcCalls(llo, llo.funcDecl("JSONReportCodec", "Decode"), "hex.DecodeString", "BytesToConfigDigest"), wl("json_report_codec.go Decode"), "C17")
		addStrs("llo_codec_json_Unpack_digest", cdcCalls(llo, llo.funcDecl("JSONReportCodec", "Unpack"), "hex.DecodeString", "BytesToConfigDigest"), wl("json_report_codec.go Unpack"), "C17")
	})
}
