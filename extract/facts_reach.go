package main

// Reachability closure for the source fingerprints: a property is anchored in a handful of files, but what
// it says is also decided by the helpers those files call — in other files of the package and in other
// packages of this module.  reachable() computes, syntactically (no type information needed, so it works
// on any tree that parses), the declarations of the module that the declarations of the anchor files refer
// to, transitively:
//   - a bare identifier refers to the package-level declarations of that name in the same package;
//   - pkg.Name, where pkg is an import of a package of this module, refers to Name in that package;
//   - x.Name for any other x refers to every declaration called Name in the same package and to every method
//     called Name anywhere in the module (this is how calls through interfaces are followed, also to
//     implementations in packages that import this one, e.g. the report codecs).
//   - a reached package-level VARIABLE pulls in every declaration of its package that mentions it (writers of
//     shared state: a regular expression replaced, a cache filled, a buffer reused).
// Over-approximation only adds fingerprints.  Generated protobuf files and tests are left out.

import (
	"go/ast"
	"go/parser"
	"go/token"
	"os"
	"path/filepath"
	"sort"
	"strconv"
	"strings"
)

const modulePath = "github.com/smartcontractkit/chainlink-data-streams/"

type rdecl struct {
	file string // repository-relative
	dir  string
	name string // fingerprint key: "Recv.Func", "Func", "VAR x", "CONST x", "type T"
	bare string // the identifier other code uses
	node ast.Node
	imp  map[string]string // import alias -> module dir, of the declaring file
}

type reachIndex struct {
	decls  []*rdecl
	byDir  map[string]map[string][]*rdecl // dir -> bare name -> decls
	byFile map[string][]*rdecl
}

var reachIdx *reachIndex

func buildReachIndex() *reachIndex {
	idx := &reachIndex{byDir: map[string]map[string][]*rdecl{}, byFile: map[string][]*rdecl{}}
	for _, root := range []string{"llo", "mercury", "rpc"} {
		filepath.Walk(root, func(path string, fi os.FileInfo, err error) error {
			if err != nil || fi.IsDir() || !strings.HasSuffix(path, ".go") || strings.HasSuffix(path, "_test.go") || strings.HasSuffix(path, ".pb.go") {
				return nil
			}
			fset := token.NewFileSet()
			af, perr := parser.ParseFile(fset, path, nil, 0)
			if perr != nil {
				return nil
			}
			dir := filepath.Dir(path)
			imp := map[string]string{}
			for _, is := range af.Imports {
				p, _ := strconv.Unquote(is.Path.Value)
				if !strings.HasPrefix(p, modulePath) {
					continue
				}
				d := strings.TrimPrefix(p, modulePath)
				alias := filepath.Base(d)
				if is.Name != nil {
					alias = is.Name.Name
				}
				imp[alias] = d
			}
			add := func(name, bare string, node ast.Node) {
				d := &rdecl{file: path, dir: dir, name: name, bare: bare, node: node, imp: imp}
				idx.decls = append(idx.decls, d)
				if idx.byDir[dir] == nil {
					idx.byDir[dir] = map[string][]*rdecl{}
				}
				idx.byDir[dir][bare] = append(idx.byDir[dir][bare], d)
				idx.byFile[path] = append(idx.byFile[path], d)
			}
			for _, d := range af.Decls {
				switch t := d.(type) {
				case *ast.FuncDecl:
					name := t.Name.Name
					if t.Recv != nil && len(t.Recv.List) == 1 {
						rt := t.Recv.List[0].Type
						if s, ok := rt.(*ast.StarExpr); ok {
							rt = s.X
						}
						if id, ok := rt.(*ast.Ident); ok {
							name = id.Name + "." + name
						}
					}
					add(name, t.Name.Name, t)
				case *ast.GenDecl:
					for _, sp := range t.Specs {
						switch s := sp.(type) {
						case *ast.ValueSpec:
							if (t.Tok == token.VAR || t.Tok == token.CONST) && len(s.Names) > 0 {
								for _, n := range s.Names {
									add(t.Tok.String()+" "+s.Names[0].Name, n.Name, s)
								}
							}
						case *ast.TypeSpec:
							add("type "+s.Name.Name, s.Name.Name, s)
						}
					}
				}
			}
			return nil
		})
	}
	return idx
}

func (idx *reachIndex) refs(d *rdecl) []*rdecl {
	var out []*rdecl
	selOf := map[*ast.Ident]bool{}
	ast.Inspect(d.node, func(n ast.Node) bool {
		if se, ok := n.(*ast.SelectorExpr); ok {
			selOf[se.Sel] = true
			if x, ok := se.X.(*ast.Ident); ok {
				if dir, ok := d.imp[x.Name]; ok {
					out = append(out, idx.byDir[dir][se.Sel.Name]...)
					return true
				}
			}
			// a method / field access: every declaration of that name in this package and every METHOD of that name
			// anywhere in the module (the receiver may be an interface whose implementations live in packages that
			// import this one: report codecs, caches, data sources)
			out = append(out, idx.byDir[d.dir][se.Sel.Name]...)
			dirs := make([]string, 0, len(idx.byDir))
			top := func(dir string) string { return strings.SplitN(dir, "/", 2)[0] }
			for dir := range idx.byDir {
				// llo, mercury and rpc are separate products: none implements an interface of another
				if dir != d.dir && top(dir) == top(d.dir) {
					dirs = append(dirs, dir)
				}
			}
			sort.Strings(dirs)
			for _, dir := range dirs {
				for _, c := range idx.byDir[dir][se.Sel.Name] {
					if strings.Contains(c.name, ".") { // methods only
						out = append(out, c)
					}
				}
			}
		}
		return true
	})
	ast.Inspect(d.node, func(n ast.Node) bool {
		if id, ok := n.(*ast.Ident); ok && !selOf[id] {
			out = append(out, idx.byDir[d.dir][id.Name]...)
		}
		return true
	})
	return out
}

// reachableOutside returns the fingerprint keys ("file:Decl") of declarations reachable from the given files
// that live outside them.
func reachableOutside(files []string) map[string]bool {
	if reachIdx == nil {
		reachIdx = buildReachIndex()
	}
	in := map[string]bool{}
	for _, f := range files {
		in[f] = true
	}
	seen := map[*rdecl]bool{}
	var work []*rdecl
	for _, f := range files {
		for _, d := range reachIdx.byFile[f] {
			seen[d] = true
			work = append(work, d)
		}
	}
	for len(work) > 0 {
		d := work[len(work)-1]
		work = work[:len(work)-1]
		for _, r := range reachIdx.refs(d) {
			if !seen[r] {
				seen[r] = true
				work = append(work, r)
			}
		}
		if strings.HasPrefix(d.name, "VAR ") {
			// package-level state that the reached code reads: everything in the package that mentions the
			// variable may write it (a regular expression replaced, a cache filled, a buffer reused)
			for _, o := range reachIdx.decls {
				if o.dir != d.dir || seen[o] {
					continue
				}
				uses := false
				ast.Inspect(o.node, func(n ast.Node) bool {
					if id, ok := n.(*ast.Ident); ok && id.Name == d.bare {
						uses = true
					}
					return !uses
				})
				if uses {
					seen[o] = true
					work = append(work, o)
				}
			}
		}
	}
	out := map[string]bool{}
	for d := range seen {
		if !in[d.file] {
			out[d.file+":"+d.name] = true
		}
	}
	return out
}
