import Driver.JsonUtil
import DSV.LLO.CodecOutcome
import DSV.LLO.CodecObs
import DSV.LLO.CodecConfig
import DSV.LLO.CodecJson
import DSV.Mercury.ConfigOnchain
open Lean
namespace Driver
open DSV DSV.LLO

/-! ### message dumps (repeated fields in wire order — never sorted here)
* SVMsg: `null | {"ty":"<int>","value":"hex"}`
* OutcomeMsg: `{"stage","ts":"<int>","defs":[{"id","def":ChanDef|null}],"va":[{"id","va"}],
  "aggs":[{"sid","agg","sv":SVMsg}]}` -/

def jSVMsg : Option SVMsg → Json
  | none => .null
  | some m => Json.mkObj [("ty", jInt m.ty), ("value", jBytes m.value)]

def asSVMsg (j : Json) : P (Option SVMsg) :=
  match j with
  | .null => pure none
  | _ => do pure (some ⟨← getInt j "ty", ← getBytes j "value"⟩)

def jOutcomeMsg (m : OutcomeMsg) : Json :=
  Json.mkObj [("stage", .str m.stage), ("ts", jInt m.ts),
    ("defs", .arr (m.defs.map fun e => Json.mkObj [("id", jNat e.1),
        ("def", match e.2 with | none => .null | some d => jChanDef d)]).toArray),
    ("va", .arr (m.va.map fun e => Json.mkObj [("id", jNat e.1), ("va", jNat e.2)]).toArray),
    ("aggs", .arr (m.aggs.map fun e => Json.mkObj [("sid", jNat e.sid), ("agg", jNat e.agg), ("sv", jSVMsg e.sv)]).toArray)]

def asOutcomeMsg (j : Json) : P OutcomeMsg := do
  let defs ← (← asArr (fldD j "defs")).mapM fun e => do
    let d := fldD e "def"
    let dd ← (if d.isNull then pure none else some <$> asChanDef d : P (Option ChanDef))
    pure ((← getNat e "id"), dd)
  let va ← (← asArr (fldD j "va")).mapM fun e => do pure ((← getNat e "id"), (← getNat e "va"))
  let aggs ← (← asArr (fldD j "aggs")).mapM fun e => do
    pure (⟨← getNat e "sid", ← asSVMsg (fldD e "sv"), ← getNat e "agg"⟩ : AggMsg)
  pure { stage := ← getStr j "stage", ts := ← getInt j "ts", defs := defs, va := va, aggs := aggs }

/-- a family of iteration schedules indexed by a number: rotate by `k/2`, reversed when `k` is odd -/
def schedOf (k : Nat) : CodecSched :=
  let f {α : Type} (l : List α) : List α :=
    let r := l.rotateLeft (k / 2)
    if k % 2 = 1 then r.reverse else r
  ⟨f, f, f⟩

def outcomeOps (op : String) (j : Json) : Option (P Json) :=
  let toMsg (v : Nat) := if v = 0 then toMsgV0 else toMsgV1
  let fromMsg (v : Nat) := if v = 0 then fromMsgV0 else fromMsgV1
  let encode (v : Nat) : P Json := do
    let o ← fld j "outcome" >>= asOutcome
    let k := (asNat (fldD j "sigma")).toOption.getD 0
    pure (jRes jOutcomeMsg (toMsg v (schedOf k) o))
  let decode (v : Nat) : P Json := do
    let m ← fld j "msg" >>= asOutcomeMsg
    pure (jRes jOutcome (fromMsg v m))
  let reencode (v : Nat) : P Json := do
    let o ← fld j "outcome" >>= asOutcome
    let k := (asNat (fldD j "sigma")).toOption.getD 0
    pure (jRes jOutcomeMsg (toMsg v CodecSched.id o >>= fromMsg v >>= toMsg v (schedOf k)))
  match op with
  | "outcome.v0.encode" => some (encode 0)
  | "outcome.v1.encode" => some (encode 1)
  | "outcome.v0.decode" => some (decode 0)
  | "outcome.v1.decode" => some (decode 1)
  | "outcome.v0.reencode" => some (reencode 0)
  | "outcome.v1.reencode" => some (reencode 1)
  | _ => none

/-! ### C16 -/

def asObsE (j : Json) : P ObsE := do
  let vals ← (← asArr (fldD j "values")).mapM fun e => do pure ((← getNat e "sid"), (← asOptSV (fldD e "v")))
  pure { attested := ← asBytes (fldD j "attested" |> fun x => if x.isNull then Json.str "" else x),
         shouldRetire := (fldD j "retire") == Json.bool true,
         ts := ← getNat j "ts",
         removes := (← (← asArr (fldD j "removes")).mapM asNat).eraseDups,
         updates := ← asDefs (fldD j "updates"),
         values := GoMap.ofList vals }

def asObsMsg (j : Json) : P ObsMsg := do
  let vals ← (← asArr (fldD j "values")).mapM fun e => do pure ((← getNat e "sid"), (← asSVMsg (fldD e "sv")))
  pure { attested := ← asBytes (fldD j "attested" |> fun x => if x.isNull then Json.str "" else x),
         shouldRetire := (fldD j "retire") == Json.bool true,
         tsLegacy := ← getInt j "tsLegacy",
         ts := ← getNat j "ts",
         removes := ← (← asArr (fldD j "removes")).mapM asNat,
         updates := ← asDefs (fldD j "updates"),
         values := GoMap.ofList vals }

def jObsMsg (m : ObsMsg) : Json :=
  Json.mkObj [("attested", jBytes m.attested), ("retire", .bool m.shouldRetire), ("tsLegacy", jInt m.tsLegacy),
    ("ts", jNat m.ts),
    ("removes", .arr ((m.removes.mergeSort (fun a b => decide (a ≤ b))).map jNat).toArray),
    ("updates", jDefs m.updates),
    ("values", .arr ((sortByKey m.values).map fun e => Json.mkObj [("sid", jNat e.1), ("sv", jSVMsg e.2)]).toArray)]

def obsSchedOf (k : Nat) : ObsSched :=
  let f {α : Type} (l : List α) : List α :=
    let r := l.rotateLeft (k / 2)
    if k % 2 = 1 then r.reverse else r
  ⟨f, f, f, f⟩

def jOptBytes : Option (List UInt8) → Json
  | none => .null
  | some b => jBytes b

def asVAList (j : Json) : P (List (Nat × Nat)) := do
  (← asArr j).mapM fun e => do pure ((← getNat e "id"), (← getNat e "va"))

def c16Ops (op : String) (j : Json) : Option (P Json) :=
  let sigma := (asNat (fldD j "sigma")).toOption.getD 0
  match op with
  | "obs.encode" => some (do
      let o ← fld j "obs" >>= asObsE
      pure (jRes jObsMsg (obsToMsg (obsSchedOf sigma) o)))
  | "obs.decode" => some (do
      let m ← fld j "msg" >>= asObsMsg
      pure (jRes jObs (obsFromMsg (obsSchedOf sigma) m)))
  | "sv.unbinary" => some (do
      let m ← asSVMsg j
      pure (jRes jSV (unmarshalProtoSV m)))
  | "offchain.decode" => some (do
      let pbuf ← (if (fldD j "unparseable") == Json.bool true then pure none
        else do pure (some (⟨← getNat j "version", ← getNat j "interval"⟩ : OffchainCfg)) : P (Option OffchainCfg))
      pure (jRes (fun (c : OffchainCfg) => Json.mkObj [("version", jNat c.version), ("interval", jNat c.interval)])
        (decodeOffchain (pbuf.map encodeOffchain))))
  | "llo.onchain.encode" => some (do
      let p := fldD j "pred"
      let pred ← (if p.isNull then pure none else some <$> asBytes p : P (Option (List UInt8)))
      pure (jRes jBytes (encodeOnchain ⟨← getNat j "version", pred⟩)))
  | "llo.onchain.decode" => some (do
      let b ← getBytes j "bytes"
      pure (jRes (fun (c : OnchainCfg) => Json.mkObj [("version", jNat c.version), ("pred", jOptBytes c.pred)]) (decodeOnchain b)))
  | "mercury.onchain.encode" => some (do
      pure (jRes jBytes (Mercury.encodeOnchain ⟨← getInt j "min", ← getInt j "max"⟩)))
  | "mercury.onchain.batch" => some (do
      let outs ← (← getArr j "configs").mapM fun c => do
        pure (jRes jBytes (Mercury.encodeOnchain ⟨← getInt c "min", ← getInt c "max"⟩))
      pure (Json.mkObj [("ok", .arr outs.toArray)]))
  | "mercury.onchain.decode" => some (do
      let b ← getBytes j "bytes"
      pure (jRes (fun (c : Mercury.OnchainCfg) => Json.mkObj [("min", jInt c.min), ("max", jInt c.max)]) (Mercury.decodeOnchain b)))
  | "int192.encode" => some (do pure (jRes jBytes (Mercury.encodeValueInt192 (← getInt j "v"))))
  | "int192.decode" => some (do pure (jRes jInt (Mercury.decodeValueInt192 (← getBytes j "bytes"))))
  | "retirement.encode" => some (do
      let r ← fld j "report"
      let rr : RetirementReport := ⟨← getNat r "version", ← asVA (fldD r "va")⟩
      let m := retirementToMsg (fun l => if sigma % 2 = 1 then l.reverse else l) rr
      pure (Json.mkObj [("ok", Json.mkObj [("version", jNat m.version), ("va", jVA m.va)])]))
  | "retirement.decode" => some (do
      let r ← fld j "msg"
      let m : RetirementMsg := ⟨← getNat r "version", ← asVAList (fldD r "va")⟩
      let rr := retirementFromMsg m
      pure (Json.mkObj [("ok", Json.mkObj [("version", jNat rr.version), ("va", jVA rr.va)])]))
  | _ => none

/-! ### C17 -/

def jChars (cs : List Char) : Json := .str (String.ofList cs)

def jTT (e : Int × List Char) : Json := Json.mkObj [("t", jInt e.1), ("v", jChars e.2)]

def asReport (j : Json) : P Report := do
  pure { seqNr := ← getNat j "seqNr", channelID := ← getNat j "channelID", validAfter := ← getNat j "validAfter",
         obsTs := ← getNat j "obsTs", values := ← (← asArr (fldD j "values")).mapM asOptSV,
         specimen := (fldD j "specimen") == Json.bool true }

def jReport (r : Report) : Json :=
  Json.mkObj [("seqNr", jNat r.seqNr), ("channelID", jNat r.channelID), ("validAfter", jNat r.validAfter),
    ("obsTs", jNat r.obsTs), ("values", .arr (r.values.map jOptSV).toArray), ("specimen", .bool r.specimen)]

def jJsonMsg (m : JsonMsg) : Json :=
  Json.mkObj [("configDigest", jChars m.configDigest), ("seqNr", jNat m.seqNr), ("channelID", jNat m.channelID),
    ("validAfter", jNat m.validAfter), ("obsTs", jNat m.obsTs), ("values", .arr (m.values.map jTT).toArray),
    ("specimen", .bool m.specimen)]

def asJsonMsg (j : Json) : P JsonMsg := do
  let vs ← (← asArr (fldD j "values")).mapM fun e => do pure ((← getInt e "t"), (← getStr e "v").toList)
  pure { configDigest := (← getStr j "configDigest").toList, seqNr := ← getNat j "seqNr", channelID := ← getNat j "channelID",
         validAfter := ← getNat j "validAfter", obsTs := ← getNat j "obsTs", values := vs,
         specimen := (fldD j "specimen") == Json.bool true }

def asSigs (j : Json) : P (List (List UInt8 × Nat)) := do
  (← asArr j).mapM fun e => do pure ((← getBytes e "sig"), (← getNat e "signer"))

def jSigs (l : List (List UInt8 × Nat)) : Json :=
  .arr (l.map fun e => Json.mkObj [("sig", jBytes e.1), ("signer", jNat e.2)]).toArray

def c17Ops (op : String) (j : Json) : Option (P Json) :=
  match op with
  | "sv.text" => some (do
      let v ← fld j "v" >>= asSV
      pure (Json.mkObj [("ok", Json.mkObj [("t", jNat v.type), ("text", jChars (textSV v))])]))
  | "sv.untext" => some (do
      let t ← getInt j "t"
      let s := (← getStr j "text").toList
      pure (jRes jSV (untextSV s.length t s)))
  | "json.encode" => some (do
      let d ← getBytes j "digest"
      let r ← fld j "report" >>= asReport
      pure (jRes jJsonMsg (jsonEncode d r)))
  | "json.decode" => some (do
      let m ← fld j "msg" >>= asJsonMsg
      pure (jRes (fun (p : List UInt8 × Report) => Json.mkObj [("digest", jBytes p.1), ("report", jReport p.2)]) (jsonDecode m)))
  | "json.pack" => some (do
      let m := jsonPack (← getBytes j "digest") (← getNat j "seqNr") (← getBytes j "report") (← asSigs (fldD j "sigs"))
      pure (Json.mkObj [("ok", Json.mkObj [("configDigest", jChars m.configDigest), ("seqNr", jNat m.seqNr),
        ("report", jBytes m.report), ("sigs", jSigs m.sigs)])]))
  | "json.unpack" => some (do
      let r ← fld j "msg"
      let m : PackedMsg := ⟨(← getStr r "configDigest").toList, ← getNat r "seqNr", ← getBytes r "report", ← asSigs (fldD r "sigs")⟩
      pure (jRes (fun (p : List UInt8 × Nat × List UInt8 × List (List UInt8 × Nat)) =>
        Json.mkObj [("digest", jBytes p.1), ("seqNr", jNat p.2.1), ("report", jBytes p.2.2.1), ("sigs", jSigs p.2.2.2)]) (jsonUnpack m)))
  | _ => none

/-- op handlers of this area; return `none` for op names that are not handled here -/
def handleCodecs (op : String) (j : Json) : Option (P Json) :=
  match outcomeOps op j with
  | some r => some r
  | none =>
    match c16Ops op j with
    | some r => some r
    | none => c17Ops op j
end Driver
