import Driver.JsonUtil
import DSV.Mercury.RefCodec
import DSV.Mercury.History
open Lean
namespace Driver
open DSV DSV.Mercury

namespace Merc

def jOptInt : Option Int → Json
  | none => .null
  | some v => jInt v

def asVals (j : Json) : P (List (Int × Bool)) := do
  (← getArr j "vals").mapM fun e => do pure ((← getInt e "v"), (← getBool e "ok"))

def asNatVals (j : Json) : P (List (Nat × Bool)) := do
  (← getArr j "vals").mapM fun e => do pure ((← getNat e "v"), (← getBool e "ok"))

/-- an int192 proto field travels as the raw bytes -/
def getI192 (j : Json) (k : String) : P (Option Int) := do
  pure (decodeInt192 (← getBytes j k))

def asBlock (j : Json) : P V1.Block := do
  pure ⟨← getInt j "num", ← getBytes j "hash", ← getNat j "ts"⟩

def asCfg (j : Json) : P Cfg := do
  pure ⟨← getNat j "f", ← getInt j "min", ← getInt j "max", ← getNat j "window"⟩

def asMode (j : Json) : P RefCodec.Mode := do
  pure { maxLen := ← getNat j "maxLen", pad := ← getNat j "pad",
         empty := (fldD j "empty") == Json.bool true, fail := (fldD j "fail") == Json.bool true }

def asPrev (j : Json) : P (Option Bytes) :=
  match j with
  | .null => pure none
  | _ => some <$> asBytes j

def isBad (j : Json) : Bool := j.isNull || (fldD j "bad") == Json.bool true

def asObs1 (j : Json) : P (Option V1.Obs) :=
  if isBad j then pure none else do
  pure (some { ts := ← getNat j "ts", bp := ← getI192 j "bp", bid := ← getI192 j "bid", ask := ← getI192 j "ask",
               pricesValid := ← getBool j "pricesValid", curNum := ← getInt j "curNum",
               curHash := ← getBytes j "curHash", curTs := ← getNat j "curTs", curValid := ← getBool j "curValid",
               mfbn := ← getInt j "mfbn", mfbnValid := ← getBool j "mfbnValid",
               latestBlocks := ← (← asArr (fldD j "blocks")).mapM asBlock })

def asObs2 (j : Json) : P (Option V2.Obs) :=
  if isBad j then pure none else do
  pure (some { ts := ← getNat j "ts", bp := ← getI192 j "bp", pricesValid := ← getBool j "pricesValid",
               mft := ← getInt j "mft", mftValid := ← getBool j "mftValid",
               linkFee := ← getI192 j "link", linkFeeValid := ← getBool j "linkValid",
               nativeFee := ← getI192 j "native", nativeFeeValid := ← getBool j "nativeValid" })

def asObs3 (j : Json) : P (Option V3.Obs) :=
  if isBad j then pure none else do
  pure (some { ts := ← getNat j "ts", bp := ← getI192 j "bp", bid := ← getI192 j "bid", ask := ← getI192 j "ask",
               pricesValid := ← getBool j "pricesValid",
               mft := ← getInt j "mft", mftValid := ← getBool j "mftValid",
               linkFee := ← getI192 j "link", linkFeeValid := ← getBool j "linkValid",
               nativeFee := ← getI192 j "native", nativeFeeValid := ← getBool j "nativeValid" })

def asObs4 (j : Json) : P (Option V4.Obs) :=
  if isBad j then pure none else do
  pure (some { ts := ← getNat j "ts", bp := ← getI192 j "bp", pricesValid := ← getBool j "pricesValid",
               mft := ← getInt j "mft", mftValid := ← getBool j "mftValid",
               linkFee := ← getI192 j "link", linkFeeValid := ← getBool j "linkValid",
               nativeFee := ← getI192 j "native", nativeFeeValid := ← getBool j "nativeValid",
               marketStatus := ← getNat j "ms", marketStatusValid := ← getBool j "msValid" })

def jRF1 (rf : V1.RF) : Json :=
  Json.mkObj [("ts", jNat rf.ts), ("bp", jOptInt rf.bp), ("bid", jOptInt rf.bid), ("ask", jOptInt rf.ask),
    ("curNum", jInt rf.curNum), ("curHash", jBytes rf.curHash), ("validFrom", jInt rf.validFrom),
    ("curTs", jNat rf.curTs)]
def jRF2 (rf : V2.RF) : Json :=
  Json.mkObj [("validFrom", jNat rf.validFrom), ("ts", jNat rf.ts), ("nativeFee", jInt rf.nativeFee),
    ("linkFee", jInt rf.linkFee), ("expiresAt", jNat rf.expiresAt), ("bp", jOptInt rf.bp)]
def jRF3 (rf : V3.RF) : Json :=
  Json.mkObj [("validFrom", jNat rf.validFrom), ("ts", jNat rf.ts), ("nativeFee", jInt rf.nativeFee),
    ("linkFee", jInt rf.linkFee), ("expiresAt", jNat rf.expiresAt), ("bp", jOptInt rf.bp),
    ("bid", jOptInt rf.bid), ("ask", jOptInt rf.ask)]
def jRF4 (rf : V4.RF) : Json :=
  Json.mkObj [("validFrom", jNat rf.validFrom), ("ts", jNat rf.ts), ("nativeFee", jInt rf.nativeFee),
    ("linkFee", jInt rf.linkFee), ("expiresAt", jNat rf.expiresAt), ("bp", jOptInt rf.bp),
    ("ms", jNat rf.marketStatus)]

def jOut {RF} (jrf : RF → Json) : Option (RF × Bytes) → Json
  | none => Json.mkObj [("should", .bool false), ("report", .null), ("rf", .null)]
  | some (rf, b) => Json.mkObj [("should", .bool true), ("report", jBytes b), ("rf", jrf rf)]

/-- `NewMercuryPlugin` then `Report` -/
def plugin {RF} (cfg : Cfg) (run : GoRes (Option (RF × Bytes))) : GoRes (Option (RF × Bytes)) :=
  if cfg.valid then run else .err "config"

/-- one `Report` call of version `v` with the reference codec -/
def stepV (v : Nat) (cfg : Cfg) (m : RefCodec.Mode) (prev : Option Bytes) (aos : List Json) : P Json := do
  match v with
  | 1 => do
    let obs ← aos.mapM asObs1
    pure (jRes (jOut jRF1) (plugin cfg (V1.report cfg (RefCodec.codec1 m) {} prev obs)))
  | 2 => do
    let obs ← aos.mapM asObs2
    pure (jRes (jOut jRF2) (plugin cfg (V2.report cfg (RefCodec.codec2 m) id prev obs)))
  | 3 => do
    let obs ← aos.mapM asObs3
    pure (jRes (jOut jRF3) (plugin cfg (V3.report cfg (RefCodec.codec3 m) id prev obs)))
  | 4 => do
    let obs ← aos.mapM asObs4
    pure (jRes (jOut jRF4) (plugin cfg (V4.report cfg (RefCodec.codec4 m) {} prev obs)))
  | _ => throw "bad mercury version"

def reportOp (v : Nat) (j : Json) : P Json := do
  let cfg ← fld j "cfg" >>= asCfg
  let m ← fld j "codec" >>= asMode
  let prev ← asPrev (fldD j "prev")
  stepV v cfg m prev (← getArr j "aos")

/-- threaded history; the JSON results are produced round by round with the same threading rule
    as `runHistory` (emitted report becomes the next `previousReport`) -/
def historyOp (j : Json) : P Json := do
  let v ← getNat j "v"
  let cfg ← fld j "cfg" >>= asCfg
  let m ← fld j "codec" >>= asMode
  let prev0 ← asPrev (fldD j "prev")
  let rounds ← getArr j "rounds"
  let run {RF In} (dec : Json → P In) (rep : Option Bytes → List In → GoRes (Option (RF × Bytes)))
      (jrf : RF → Json) : P Json := do
    let ins ← rounds.mapM fun r => do (← asArr r).mapM dec
    let res := runHistory (fun prev i => plugin cfg (rep prev i)) prev0 ins
    pure (Json.mkObj [("ok", .arr (res.map (jRes (jOut jrf))).toArray)])
  match v with
  | 1 => run asObs1 (fun p i => V1.report cfg (RefCodec.codec1 m) {} p i) jRF1
  | 2 => run asObs2 (fun p i => V2.report cfg (RefCodec.codec2 m) id p i) jRF2
  | 3 => run asObs3 (fun p i => V3.report cfg (RefCodec.codec3 m) id p i) jRF3
  | 4 => run asObs4 (fun p i => V4.report cfg (RefCodec.codec4 m) {} p i) jRF4
  | _ => throw "bad mercury version"

def asPAO1 (j : Json) : P V1.PAO := do
  let blocks ← (← asArr (fldD j "blocks")).mapM asBlock
  let cur := fldD j "cur"
  if cur.isNull then pure { ts := 0, latestBlocks := blocks }
  else do
    let b ← asBlock cur
    pure { ts := 0, latestBlocks := blocks, curNum := b.num, curHash := b.hash, curTs := b.ts, curValid := true }

end Merc

open Merc in
/-- op handlers of this area; return `none` for op names that are not handled here -/
def handleMercury (op : String) (j : Json) : Option (P Json) :=
  let med (k : List (Int × Bool) → Nat → GoRes Int) : Option (P Json) := some (do
    pure (jRes jInt (k (← asVals j) (← getNat j "f"))))
  match op with
  | "mercury.consensus.timestamp" => some (do
      let ts ← (← getArr j "ts").mapM asNat
      pure (jRes jNat (consensusTimestamp ts)))
  | "mercury.consensus.benchmark" => med consensusBenchmarkPrice
  | "mercury.consensus.bid" => med consensusBid
  | "mercury.consensus.ask" => med consensusAsk
  | "mercury.consensus.linkfee" => med consensusLinkFee
  | "mercury.consensus.nativefee" => med consensusNativeFee
  | "mercury.consensus.maxfinalizedts" => med (consensusMaxFinalizedTimestamp id)
  | "mercury.consensus.v1.maxfinalizedblocknum" => med (V1.consensusMaxFinalizedBlockNum id)
  | "mercury.consensus.v4.marketstatus" => some (do
      pure (jRes jNat (V4.consensusMarketStatus id (← asNatVals j) (← getNat j "f"))))
  | "mercury.consensus.v1.latestblock" => some (do
      let paos ← (← getArr j "paos").mapM asPAO1
      let r := V1.consensusLatestBlock {} paos (← getNat j "f")
      pure (jRes (fun (x : Bytes × Int × Nat) =>
        Json.mkObj [("hash", jBytes x.1), ("num", jInt x.2.1), ("ts", jNat x.2.2)]) r))
  | "mercury.v1.report" => some (reportOp 1 j)
  | "mercury.v2.report" => some (reportOp 2 j)
  | "mercury.v3.report" => some (reportOp 3 j)
  | "mercury.v4.report" => some (reportOp 4 j)
  | "mercury.history" => some (historyOp j)
  | _ => none
end Driver
