import Driver.JsonUtil
import DSV.LLO.Plugin
import DSV.LLO.Observe
import DSV.Go.Sha256
open Lean
namespace Driver
open DSV DSV.LLO

/-- big-endian uint32 -/
def be32 (n : Nat) : List UInt8 :=
  [UInt8.ofNat (n / 16777216 % 256), UInt8.ofNat (n / 65536 % 256), UInt8.ofNat (n / 256 % 256), UInt8.ofNat (n % 256)]

/-- `MakeChannelHash` -/
def makeChannelHash (cid : Nat) (cd : ChanDef) : List UInt8 :=
  Sha256.sum (be32 cid ++ be32 cd.format ++ be32 cd.streams.length ++
    cd.streams.flatMap (fun s => be32 s.sid ++ be32 s.agg) ++ cd.opts)

def asCfg (j : Json) : P Cfg := do
  pure { f := ← getNat j "f", version := ← getNat j "version", minInterval := ← getNat j "minInterval",
         hasPred := (fldD j "hasPred") == Json.bool true }

def asRR (j : Json) : P RetirementReport := do
  pure { version := ← getNat j "version", va := ← asVA (fldD j "va") }

def jRR (rr : RetirementReport) : Json := Json.mkObj [("version", jNat rr.version), ("va", jVA rr.va)]

/-- the attestation table of an op: `[{"bytes":hex,"rr":RR}]` -/
def asCheck (j : Json) : P (List UInt8 → Option RetirementReport) := do
  let es ← (← asArr j).mapM fun e => do pure ((← getBytes e "bytes"), (← fld e "rr" >>= asRR))
  pure fun b => (es.find? (fun e => e.1 == b)).map (·.2)

def mkEnv (check : List UInt8 → Option RetirementReport) (badOpts : List (List UInt8)) : Env :=
  { check := check, hashOf := makeChannelHash, verifyDef := fun cd => !badOpts.contains cd.opts }

/-- observations: structured `Obs`, or `{"invalid":true}` (fails to decode; ignored) -/
def asObsList (j : Json) : P (Nat × List Obs) := do
  let arr ← asArr j
  let obs ← arr.filterMapM fun e =>
    if (fldD e "invalid") == Json.bool true then pure none else some <$> asObs e
  pure (arr.length, obs)

def jReportOut : ReportOut → Json
  | .retirement rr => Json.mkObj [("kind", "retirement"), ("version", jNat rr.version), ("va", jVA rr.va)]
  | .channel r fmt stage => Json.mkObj [("kind", "channel"), ("channel", jNat r.channelID), ("format", jNat fmt),
      ("stage", .str stage), ("seqNr", jNat r.seqNr), ("validAfter", jNat r.validAfter), ("obsTs", jNat r.obsTs),
      ("specimen", .bool r.specimen), ("values", .arr (r.values.map jOptSV).toArray)]

def asNatList (j : Json) : P (List Nat) := do (← asArr j).mapM asNat

/-- `Outcome()` as the harness calls it: previous outcome passed through the codec, result decoded -/
def runOutcome (env : Env) (cfg : Cfg) (seqNr nAos : Nat) (prev : Outcome) (obs : List Obs) : GoRes Outcome :=
  if nAos < 2 * cfg.f + 1 then .err "too-few-observations"
  else if seqNr ≤ 1 then codecRoundTrip cfg (initialOutcome cfg)
  else
    match codecRoundTrip cfg prev with
    | .ok p => (outcome env cfg {} nAos p obs).bind (codecRoundTrip cfg)
    | .err _ => .err "encode-prev"
    | .panic => .panic

def runReports (cfg : Cfg) (missingFormats failChannels : List Nat) (seqNr : Nat) (o : Outcome) (strict : Bool := false) :
    List ReportOut :=
  reports cfg {} (fun r fmt => !missingFormats.contains fmt && !failChannels.contains r.channelID
    && (!strict || r.values.all Option.isSome)) seqNr o


/-- run a threaded history; returns the per-round JSON results and the retirement report of the last
    retired round (if any) -/
def runHistory (env : Env) (cfg : Cfg) (mf : List Nat) (start : Outcome) (startSeq : Nat) (rounds : List Json)
    (strict : Bool := false) : P (Array Json × Option RetirementReport) := do
  let mut cur := start
  let mut outs : Array Json := #[]
  let mut seq := startSeq
  let mut rr : Option RetirementReport := none
  for r in rounds do
    seq := seq + 1
    let (n, obs) ← asObsList (fldD r "obs")
    match (outcome env cfg {} n cur obs).bind (codecRoundTrip cfg) with
    | .ok o =>
      cur := o
      let reps := runReports cfg mf [] seq o strict
      for x in reps do
        match x with
        | .retirement r' => rr := some r'
        | _ => pure ()
      outs := outs.push (Json.mkObj [("outcome", jOutcome o), ("reports", .arr (reps.map jReportOut).toArray)])
    | .err e => outs := outs.push (Json.mkObj [("err", .str e)])
    | .panic => outs := outs.push (Json.mkObj [("panic", .bool true)])
  pure (outs, rr)

def handleLLO (op : String) (j : Json) : Option (P Json) :=
  match op with
  | "llo.hash" => some (do
      let cid ← getNat j "id"
      let cd ← fld j "def" >>= asChanDef
      pure (Json.mkObj [("ok", jBytes (makeChannelHash cid cd))]))
  | "llo.reportable" => some (do
      let cfg ← fld j "cfg" >>= asCfg
      let o ← fld j "outcome" >>= asOutcome
      let cid ← getNat j "channel"
      pure (Json.mkObj [("ok", match isReportable o cid cfg.version cfg.minInterval with
        | none => Json.str "reportable"
        | some .retired => "retired" | some .noDef => "no-def" | some .noVA => "no-va"
        | some .tooSoon => "too-soon" | some .sameSecond => "same-second")]))
  | "llo.outcome" => some (do
      let cfg ← fld j "cfg" >>= asCfg
      let seqNr ← getNat j "seqNr"
      let prev ← fld j "prev" >>= asOutcome
      let (n, obs) ← asObsList (fldD j "obs")
      let check ← asCheck (fldD j "attestations")
      let env := mkEnv check []
      pure (jRes jOutcome (runOutcome env cfg seqNr n prev obs)))
  | "llo.multi" => some (do
      -- independent Outcome calls: the plugin instance carries no state from one call to the next
      let cfg ← fld j "cfg" >>= asCfg
      let check ← asCheck (fldD j "attestations")
      let env := mkEnv check []
      let outs ← (← getArr j "calls").mapM fun c => do
        let seqNr ← getNat c "seqNr"
        let prev ← fld c "prev" >>= asOutcome
        let (n, obs) ← asObsList (fldD c "obs")
        pure (jRes jOutcome (runOutcome env cfg seqNr n prev obs))
      pure (Json.mkObj [("ok", .arr outs.toArray)]))
  | "llo.reports" => some (do
      let cfg ← fld j "cfg" >>= asCfg
      let seqNr ← getNat j "seqNr"
      let o ← fld j "outcome" >>= asOutcome
      let mf ← asNatList (fldD j "missingFormats")
      let fc ← asNatList (fldD j "failChannels")
      match codecRoundTrip cfg o with
      | .ok o' => pure (Json.mkObj [("ok", .arr ((runReports cfg mf fc seqNr o').map jReportOut).toArray)])
      | _ => pure (Json.mkObj [("err", "encode-outcome")]))
  | "llo.observe" => some (do
      let prev ← fld j "prev" >>= asOutcome
      let expected ← asDefs (fldD j "expected")
      let badOpts ← (← asArr (fldD j "badOpts")).mapM asBytes
      let env := mkEnv (fun _ => none) badOpts
      match observationVotes env prev expected with
      | none => pure (Json.mkObj [("err", "refuse")])
      | some (rm, upd) => pure (Json.mkObj [("ok", Json.mkObj [("removes", .arr (rm.map jNat).toArray), ("updates", jDefs upd)])]))
  | "llo.observation" => some (do
      -- the whole Observation() callback; the node's clock cannot be injected into the real code, so the
      -- harness reports the timestamp privately (checked against the wall clock there) and both sides print 0
      let cfg ← fld j "cfg" >>= asCfg
      let seqNr ← getNat j "seqNr"
      let prev ← fld j "prev" >>= asOutcome
      let expected ← asDefs (fldD j "expected")
      let badOpts ← (← asArr (fldD j "badOpts")).mapM asBytes
      let env := mkEnv (fun _ => none) badOpts
      let att : GoRes (List UInt8) ← (match (fldD j "attested").getObjVal? "ok" with
        | .ok b => do pure (GoRes.ok (← asBytes b))
        | .error _ => pure (GoRes.err "cache"))
      let sr : GoRes Bool ← (match (fldD j "shouldRetire").getObjVal? "ok" with
        | .ok b => do pure (GoRes.ok (← asBool b))
        | .error _ => pure (GoRes.err "cache"))
      let dsj := fldD j "ds"
      let dsErr := (fldD dsj "err") == Json.bool true
      let vals ← (← asArr (fldD dsj "vals")).mapM fun e => do pure ((← getNat e "sid"), (← fld e "v" >>= asSV))
      let vals := GoMap.ofList vals
      let dsf : List Nat → GoRes (GoMap Nat SV) := fun req =>
        if dsErr then .err "ds" else .ok (vals.filter (fun e => req.contains e.1))
      let nd : Node := Node.mk 0 att sr expected dsf
      match codecRoundTrip cfg prev with
      | .ok p =>
        let asked : Json :=
          if seqNr ≥ 2 && p.stage != stageRetired && !p.defs.isEmpty
            && (callAttested cfg p nd).isOk && (callShouldRetire nd).isOk then
            .arr ((requestedStreams p.defs).mergeSort (fun a b => decide (a ≤ b)) |>.map jNat).toArray
          else .null
        pure (match observation env cfg seqNr p nd with
          | .ok none => Json.mkObj [("ok", .null)]
          | .ok (some o) => Json.mkObj [("ok", Json.mkObj [("obs", jObs o), ("requested", asked),
              ("accepted", .bool (validateObservation env cfg seqNr false o).isNone)])]
          | .err e => Json.mkObj [("err", .str e)]
          | .panic => Json.mkObj [("panic", .bool true)])
      | _ => pure (Json.mkObj [("err", "encode-prev")]))
  | "llo.history" => some (do
      -- rounds are threaded: the outcome of round k is the previous outcome of round k+1; a failing
      -- round leaves the state unchanged (OCR3 retries the round with other inputs)
      let cfg ← fld j "cfg" >>= asCfg
      let check ← asCheck (fldD j "attestations")
      let env := mkEnv check []
      let mf ← asNatList (fldD j "missingFormats")
      let rounds ← getArr j "rounds"
      -- the plugin factory refuses configurations that `OffchainConfig.Validate` rejects
      if !cfg.valid then return Json.mkObj [("err", "factory")]
      let start : GoRes Outcome :=
        match fldD j "start" with
        | .null => codecRoundTrip cfg (initialOutcome cfg)
        | s => match asOutcome s with
          | .ok o => codecRoundTrip cfg o
          | .error _ => .err "bad-start"
      match start with
      | .ok o0 =>
        -- strictCodec: the report codec refuses a report with a missing value (as every real codec does)
        let (outs, _) ← runHistory env cfg mf o0 (← getNat j "startSeqNr") rounds ((fldD j "strictCodec") == Json.bool true)
        pure (Json.mkObj [("ok", .arr outs)])
      | _ => pure (Json.mkObj [("err", "encode-start")]))
  | "llo.handover" => some (do
      -- instance A runs first; its last retirement report is what the attestation token a77e57
      -- resolves to when instance B (the successor) checks it
      let cfgA ← fld j "cfgA" >>= asCfg
      let cfgB ← fld j "cfgB" >>= asCfg
      let envA := mkEnv (fun _ => none) []
      -- optional hand-built starting outcomes (instances that already hold many channels)
      let startOf (cfg : Cfg) (key : String) : GoRes Outcome :=
        match fldD j key with
        | .null => codecRoundTrip cfg (initialOutcome cfg)
        | s => match asOutcome s with
          | .ok o => codecRoundTrip cfg o
          | .error _ => .err "bad-start"
      let seq0 ← (match fldD j "startSeqNr" with | .null => pure 1 | _ => getNat j "startSeqNr")
      match startOf cfgA "startA", startOf cfgB "startB" with
      | .ok a0, .ok b0 =>
        let (outsA, rr) ← runHistory envA cfgA [] a0 seq0 (← getArr j "roundsA")
        let envB := mkEnv (fun b => if b == [0xA7, 0x7E, 0x57] then rr else none) []
        let (outsB, _) ← runHistory envB cfgB [] b0 seq0 (← getArr j "roundsB")
        pure (Json.mkObj [("ok", Json.mkObj [("A", .arr outsA), ("B", .arr outsB),
          ("rr", match rr with | some r => jRR r | none => .null)])])
      | _, _ => pure (Json.mkObj [("err", "encode-start")]))
  | "llo.validate" => some (do
      let cfg ← fld j "cfg" >>= asCfg
      let seqNr ← getNat j "seqNr"
      let badOpts ← (← asArr (fldD j "badOpts")).mapM asBytes
      let env := mkEnv (fun _ => none) badOpts
      let oj := fldD j "obs"
      if (fldD oj "invalid") == Json.bool true then
        -- undecodable bytes: first-round check comes before decoding
        pure (Json.mkObj [("ok", .str (if seqNr < 1 then "invalid-seqnr"
          else if seqNr == 1 then "non-empty-first-round" else "decode"))])
      else
        let o ← asObs oj
        let empty := (fldD j "emptyBytes") == Json.bool true
        pure (Json.mkObj [("ok", .str ((validateObservation env cfg seqNr empty o).getD "accepted"))]))
  | "llo.converge" => some (do
      -- correct nodes all see `target`; their votes are `observationVotes`; faulty observations are given
      let cfg ← fld j "cfg" >>= asCfg
      let target ← asDefs (fldD j "target")
      let badOpts ← (← asArr (fldD j "badOpts")).mapM asBytes
      let env := mkEnv (fun _ => none) badOpts
      let start ← fld j "start" >>= asOutcome
      match codecRoundTrip cfg start with
      | .ok o0 =>
        let mut cur := o0
        let mut outs : Array Json := #[]
        for r in (← getArr j "rounds") do
          let nh ← getNat r "nHonest"
          let ts ← getNat r "ts"
          let (nf, faulty) ← asObsList (fldD r "faulty")
          match observationVotes env cur target with
          | none => outs := outs.push (Json.mkObj [("err", "refuse")])
          | some (rm, upd) =>
            let honest : Obs := { attested := [], shouldRetire := false, ts := ts, removes := rm, updates := upd, values := [] }
            -- only observations that pass ValidateObservation reach Outcome
            let faultyOk := faulty.filter fun o => (validateObservation env cfg 11 false o).isNone
            let _ := nf
            let obs := List.replicate nh honest ++ faultyOk
            match (outcome env cfg {} (nh + faultyOk.length) cur obs).bind (codecRoundTrip cfg) with
            | .ok o =>
              cur := o
              outs := outs.push (Json.mkObj [("defs", jDefs o.defs), ("stage", .str o.stage),
                ("votes", Json.mkObj [("removes", .arr (rm.map jNat).toArray), ("updates", jDefs upd)])])
            | .err e => outs := outs.push (Json.mkObj [("err", .str e)])
            | .panic => outs := outs.push (Json.mkObj [("panic", .bool true)])
        pure (Json.mkObj [("ok", .arr outs)])
      | _ => pure (Json.mkObj [("err", "encode-start")]))
  | _ => none
end Driver
