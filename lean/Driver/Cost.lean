import Driver.JsonUtil
import DSV.Generated.Facts
import DSV.Cost.Wire
import DSV.Cost.Decimal
import DSV.Cost.Validate
import DSV.Cost.Errors
open Lean
namespace Driver
open DSV DSV.Cost DSV.LLO

/-- the nesting limit of the tree under test (extracted constant) -/
def repoLimit : Option Nat := some Facts.llo_maxTimestampedStreamValueNesting

def jOut (o : Out) : Json :=
  Json.mkObj [("res", .str o.res), ("scan", jNat o.scan), ("levels", jNat o.levels)]

/-- the decimal `1` in binary form (6 bytes) -/
def oneBytes : List UInt8 := Dec.marshalBinary ⟨1, 0⟩

/-- model cost of one member of a measured family -/
def familyCost (family : String) (n : Nat) : P Nat :=
  match family with
  -- one stream value nested n levels, decoded with the repository's limit / without any limit
  | "nested-tsv" => pure (validateCost repoLimit (singleEntry (wrapSVBytes (nestBytes n))))
  | "nested-tsv-nolimit" => pure (validateCost none (singleEntry (wrapSVBytes (nestBytes n))))
  -- n decimal stream values of 6 bytes each
  | "many-values" =>
      let e : List UInt8 := [18, 6] ++ oneBytes      -- LLOStreamValue{type 0 (omitted), value = 6 bytes}
      pure (validateCost repoLimit ⟨n * (e.length + 6), List.replicate n e⟩)
  -- one decimal whose coefficient has n magnitude bytes
  | "long-digits" => pure (validateCost repoLimit ⟨n + 16, [List.replicate (n + 9) 1]⟩)
  -- Cmp of 1e<n> with 1
  -- closed form of `cmpCost ⟨1, n⟩ ⟨1, 0⟩` (by `numDigits_pow10` / `numDigits_mul_pow10`): copy 1 digit,
  -- n+1 digits of 10^n, n+1 digits of the product, 1 digit compared.  Evaluated directly for small n.
  | "exp-gap" => if n ≤ 2000 then pure (cmpCost ⟨1, n⟩ ⟨1, 0⟩) else pure (2 * n + 4)
  -- F2: the proved lower bound (theorem `F2_witness`); evaluating `cmpCost f2Witness _` itself would
  -- materialise 10^(2^31) inside the model as well
  | "f2" => pure (f2Witness.exp.natAbs + 1)
  -- 5 definitions × n zero-aggregator streams: 5n errors of about 110 bytes, joined once / one by one
  | "verify-errors" => pure (formatOnce (List.replicate (5 * n) 110))
  | "verify-errors-nested" => pure (formatNested (List.replicate (5 * n) 110))
  | _ => throw s!"unknown family {family}"
where
  wrapSVBytes (inner : List UInt8) : List UInt8 := [8, 2, 18] ++ (varint inner.length ++ inner)

/-- ops
* `cost.sv` `{"typ":n,"value":"hex"}` → `{"ok":{"res","scan","levels"}}` : `UnmarshalProtoStreamValue` with the repository's nesting limit
* `cost.cmp` `{"a":Dec,"b":Dec}` → `{"ok":{"cmp","pow_digits","scaled_digits"}}`
* `cost.bigint` `{"d":Dec}` → `{"ok":{"digits","pow_digits"}}`
* `cost.model` `{"family":…,"n":…}` → `{"ok":{"cost":…}}` (queried by the harness for the evidence file; no implementation counterpart) -/
def handleCost (op : String) (j : Json) : Option (P Json) :=
  match op with
  | "cost.sv" => some (do
      let typ ← getNat j "typ"
      let v ← getBytes j "value"
      pure (Json.mkObj [("ok", jOut (svDecode repoLimit typ v))]))
  | "cost.cmp" => some (do
      let a ← fld j "a" >>= asDec
      let b ← fld j "b" >>= asDec
      let k := (a.exp - b.exp).natAbs
      let scaled : Int := if a.exp = b.exp then 0 else if a.exp < b.exp then (b.rescale a.exp).coef else (a.rescale b.exp).coef
      pure (Json.mkObj [("ok", Json.mkObj [("cmp", jInt (Dec.cmp a b)),
        ("pow_digits", jNat (if k = 0 then 0 else k + 1)),
        ("scaled_digits", jNat (if k = 0 then 0 else digitsOf scaled))])]))
  | "cost.bigint" => some (do
      let d ← fld j "d" >>= asDec
      let k := d.exp.natAbs
      pure (Json.mkObj [("ok", Json.mkObj [("digits", jNat (digitsOf d.bigInt)),
        ("pow_digits", jNat (if k = 0 then 0 else k + 1))])]))
  | "cost.model" => some (do
      let f ← getStr j "family"
      let n ← getNat j "n"
      let c ← familyCost f n
      pure (Json.mkObj [("ok", Json.mkObj [("cost", jNat c)])]))
  | _ => none
end Driver
