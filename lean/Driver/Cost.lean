import Driver.JsonUtil
open Lean
namespace Driver
open DSV

/-- op handlers of this area; return `none` for op names that are not handled here -/
def handleCost (op : String) (j : Json) : Option (P Json) :=
  match op with
  | _ => none
end Driver
