import Driver.JsonUtil
import DSV.EVM.Codec
import DSV.EVM.CodecDecode
open Lean
namespace Driver
open DSV DSV.LLO DSV.EVM

/-! ### JSON of the C12 ops

* report : `{"channelID":"n","validAfter":"n","obsTs":"n","specimen":bool,"values":[SV|null,…]}`
* parsed opts (field `opts`; the harness gives the real code the JSON text in `optsText` instead):
  * premium     `{"baseUSDFee":Dec,"window":"n","feedID":"hex","multiplier":"i"|null}`
  * unpacked    `{"baseUSDFee":Dec,"window":"n","feedID":"hex","abi":[[{"type":"…","mult":"i"|null},…],…]}`
  * streamlined `{"feedID":"hex"|null,"abi":[…]}`
* result of an encode op: `{"ok":{"b":"hex","d":<fields read back by the layout reader>|null}}`
-/

def asOptInt (j : Json) : P (Option Int) :=
  match j with
  | .null => pure none
  | _ => some <$> asInt j

def asEnc1 (j : Json) : P Enc1 := do
  pure { ty := ← getStr j "type", mult := ← asOptInt (fldD j "mult") }

def asABIEnc (j : Json) : P ABIEnc := do
  pure { encoders := ← (← asArr j).mapM asEnc1 }

def asABI (j : Json) : P (List ABIEnc) := do (← asArr j).mapM asABIEnc

def asEvmReport (j : Json) : P Report := do
  pure { seqNr := 0, channelID := ← getNat j "channelID", validAfter := ← getNat j "validAfter",
         obsTs := ← getNat j "obsTs", values := ← (← getArr j "values").mapM asOptSV,
         specimen := (fldD j "specimen") == Json.bool true }

def asPremiumOpts (j : Json) : P PremiumOpts := do
  pure { baseUSDFee := ← fld j "baseUSDFee" >>= asDec, window := ← getNat j "window",
         feedID := ← getBytes j "feedID", multiplier := ← asOptInt (fldD j "multiplier") }

def asUnpackedOpts (j : Json) : P UnpackedOpts := do
  pure { baseUSDFee := ← fld j "baseUSDFee" >>= asDec, window := ← getNat j "window",
         feedID := ← getBytes j "feedID", abi := ← asABI (fldD j "abi") }

def asStreamlinedOpts (j : Json) : P StreamlinedOpts := do
  let f := fldD j "feedID"
  pure { feedID := ← (if f.isNull then pure none else some <$> asBytes f), abi := ← asABI (fldD j "abi") }

def jV3Decoded (d : V3Decoded) : Json :=
  Json.mkObj [("feedID", jBytes d.feedID), ("validFrom", jNat d.validFrom), ("timestamp", jNat d.timestamp),
    ("nativeFee", jNat d.nativeFee), ("linkFee", jNat d.linkFee), ("expiresAt", jNat d.expiresAt),
    ("benchmark", jInt d.benchmark), ("bid", jInt d.bid), ("ask", jInt d.ask)]

def jUnpackedDecoded (d : UnpackedDecoded) : Json :=
  Json.mkObj [("feedID", jBytes d.feedID), ("validFrom", jNat d.validFrom), ("timestamp", jNat d.timestamp),
    ("nativeFee", jNat d.nativeFee), ("linkFee", jNat d.linkFee), ("expiresAt", jNat d.expiresAt),
    ("values", .arr (d.values.map (fun vs => Json.arr (vs.map jInt).toArray)).toArray)]

def jOptInt : Option Int → Json
  | none => .null
  | some i => jInt i

def jStreamlinedDecoded (d : StreamlinedDecoded) : Json :=
  Json.mkObj [("feedID", match d.feedID with | none => .null | some b => jBytes b),
    ("format", match d.formatChannel with | none => .null | some p => jNat p.1),
    ("channelID", match d.formatChannel with | none => .null | some p => jNat p.2),
    ("validAfter", jNat d.validAfter),
    ("values", .arr (d.values.map (fun vs => Json.arr (vs.map jOptInt).toArray)).toArray)]

def jEncoded {δ} (dec : Bytes → Option δ) (jd : δ → Json) (b : Bytes) : Json :=
  Json.mkObj [("b", jBytes b), ("d", match dec b with | none => .null | some d => jd d)]

/-- op handlers of this area; return `none` for op names that are not handled here -/
def handleEvmCodec (op : String) (j : Json) : Option (P Json) :=
  match op with
  | "evm.encode.premium" => some do
    let r ← fld j "report" >>= asEvmReport
    let o ← fld j "opts" >>= asPremiumOpts
    pure (jRes (jEncoded abiDecodeV3 jV3Decoded) (encodePremium r o))
  | "evm.encode.unpacked" => some do
    let r ← fld j "report" >>= asEvmReport
    let o ← fld j "opts" >>= asUnpackedOpts
    pure (jRes (jEncoded (abiDecodeUnpacked (unpackedLayout o.abi)) jUnpackedDecoded) (encodeUnpacked r o))
  | "evm.encode.streamlined" => some do
    let r ← fld j "report" >>= asEvmReport
    let o ← fld j "opts" >>= asStreamlinedOpts
    let format ← getNat j "format"
    pure (jRes (jEncoded (abiDecodeStreamlined o.feedID.isSome (streamlinedLayout o.abi)) jStreamlinedDecoded)
      (encodeStreamlined r format o))
  | "evm.verify.premium" => some do
    let o ← fld j "opts" >>= asPremiumOpts
    pure (jRes (fun _ => Json.bool true) (verifyPremium o (← getNat j "nStreams")))
  | "evm.verify.unpacked" => some do
    let o ← fld j "opts" >>= asUnpackedOpts
    pure (jRes (fun _ => Json.bool true) (verifyUnpacked o (← getNat j "nStreams")))
  | "evm.verify.streamlined" => some do
    let o ← fld j "opts" >>= asStreamlinedOpts
    pure (jRes (fun _ => Json.bool true) (verifyStreamlined o (← getNat j "nStreams")))
  | "evm.fee" => some do
    let price ← fld j "price" >>= asDec
    let base ← fld j "base" >>= asDec
    pure (jRes jInt (calculateFee price base))
  | "evm.timestamps" => some do
    let r ← fld j "report" >>= asEvmReport
    pure (jRes (fun p => Json.mkObj [("vas", jNat p.1), ("ots", jNat p.2)]) (extractTimestamps r))
  | _ => none
end Driver
