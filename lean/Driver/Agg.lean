import Driver.JsonUtil
import DSV.LLO.Aggregators
open Lean
namespace Driver
open DSV DSV.LLO

/-- ops `agg.median`, `agg.quote`, `agg.mode` : `{"f":n,"values":[SV|null,…]}` -/
def handleAgg (op : String) (j : Json) : Option (P Json) :=
  let run (k : List (Option SV) → Nat → Json) : P Json := do
    let f ← getNat j "f"
    let vs ← (← getArr j "values").mapM asOptSV
    pure (k vs f)
  match op with
  | "agg.median" => some (run fun vs f => jRes jSV (medianAgg vs f))
  | "agg.quote" => some (run fun vs f => jRes jSV (quoteAgg vs f))
  | "agg.mode" => some (run fun vs f => jRes jOptSV (modeAgg vs f))
  | "sv.binary" => some (do
      let v ← fld j "v" >>= asSV
      pure (Json.mkObj [("ok", jBytes (marshalSV v))]))
  | _ => none
end Driver
