import Driver.JsonUtil
import DSV.LLO.Aggregators
open Lean
namespace Driver
open DSV DSV.LLO

/-- ops `agg.median`, `agg.quote`, `agg.mode` : `{"f":n,"values":[SV|null,…]}` -/
def handleAgg (op : String) (j : Json) : Option (P Json) :=
  let run (k : List (Option SV) → Nat → Json) : P Json := do
    let f ← getNat j "f"
    let vs ← (← getArr j "values").mapM asOptSV
    pure (k vs f)
  match op with
  | "agg.median" => some (run fun vs f => jRes jSV (medianAgg vs f))
  | "agg.quote" => some (run fun vs f => jRes jSV (quoteAgg vs f))
  | "agg.mode" => some (run fun vs f => jRes jOptSV (modeAgg vs f))
  | "agg.seq" => some (do
      -- several aggregators applied one after the other to the SAME observation list (as `outcome()` does
      -- for a stream that channels aggregate in more than one way): each is a function of the list alone
      let f ← getNat j "f"
      let vs ← (← getArr j "values").mapM asOptSV
      let outs ← (← getArr j "aggs").mapM fun a => do
        match (← asStr a) with
        | "median" => pure (jRes jSV (medianAgg vs f))
        | "quote" => pure (jRes jSV (quoteAgg vs f))
        | "mode" => pure (jRes jOptSV (modeAgg vs f))
        | x => throw s!"bad aggregator {x}"
      pure (Json.mkObj [("ok", .arr outs.toArray)]))
  | "sv.binary" => some (do
      let v ← fld j "v" >>= asSV
      pure (Json.mkObj [("ok", jBytes (marshalSV v))]))
  | _ => none
end Driver
