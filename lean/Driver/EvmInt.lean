import Driver.JsonUtil
import DSV.EVM.IntEnc
open Lean
namespace Driver
open DSV DSV.EVM

/-- ops `evm.int.packed`, `evm.int.padded` : `{"type":"int24","v":"<int>"}` -/
def handleEvmInt (op : String) (j : Json) : Option (P Json) :=
  let run (k : Int → String → GoRes (List UInt8)) : P Json := do
    let v ← getInt j "v"
    let t ← getStr j "type"
    pure (jRes jBytes (k v t))
  match op with
  | "evm.int.packed" => some (run encodePacked)
  | "evm.int.padded" => some (run encodePadded)
  | "evm.int.batch" => some (do
      -- `{"calls":[{"mode":"packed|padded","type":…,"v":…}]}`: each call is a function of its own
      -- arguments only; the harness reads all results after the last call returned
      let outs ← (← getArr j "calls").mapM fun c => do
        let v ← getInt c "v"
        let t ← getStr c "type"
        let m ← getStr c "mode"
        pure (jRes jBytes (if m == "packed" then encodePacked v t else encodePadded v t))
      pure (Json.mkObj [("ok", .arr outs.toArray)]))
  | _ => none
end Driver
