import Driver.JsonUtil
import DSV.EVM.IntEnc
open Lean
namespace Driver
open DSV DSV.EVM

/-- ops `evm.int.packed`, `evm.int.padded` : `{"type":"int24","v":"<int>"}` -/
def handleEvmInt (op : String) (j : Json) : Option (P Json) :=
  let run (k : Int → String → GoRes (List UInt8)) : P Json := do
    let v ← getInt j "v"
    let t ← getStr j "type"
    pure (jRes jBytes (k v t))
  match op with
  | "evm.int.packed" => some (run encodePacked)
  | "evm.int.padded" => some (run encodePadded)
  | _ => none
end Driver
