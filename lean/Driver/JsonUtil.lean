import Lean.Data.Json
import DSV.Go.Basic
import DSV.Go.Dec
import DSV.LLO.Types
/-!
JSON conventions of the line protocol (shared by the Go harness and this driver):
* integers of any size: JSON string in decimal (`"-123"`); small counts may be JSON numbers
* bytes: lowercase hex string
* Dec: `{"c":"<int>","e":<int>}`
* SV: `null` | `{"t":"dec","d":Dec}` | `{"t":"quote","bid":Dec,"bm":Dec,"ask":Dec}` | `{"t":"tsv","at":"<nat>","v":SV}`
* result of a Go call: `{"ok":…}` | `{"err":"<class>"}` | `{"panic":true}`
-/
open Lean
namespace Driver
open DSV DSV.LLO

abbrev P := Except String

def fld (j : Json) (k : String) : P Json :=
  match j.getObjVal? k with
  | .ok v => pure v
  | .error _ => throw s!"missing field {k}"

def fldD (j : Json) (k : String) : Json := (j.getObjVal? k).toOption.getD Json.null

def asInt (j : Json) : P Int :=
  match j with
  | .str s => match s.toInt? with
    | some i => pure i
    | none => throw s!"bad int {s}"
  | .num n => if n.exponent == 0 then pure n.mantissa else throw "non-integer number"
  | _ => throw "expected integer"

def asNat (j : Json) : P Nat := do
  let i ← asInt j
  if i < 0 then throw "expected nat" else pure i.toNat

def asBool (j : Json) : P Bool :=
  match j with
  | .bool b => pure b
  | _ => throw "expected bool"

def asStr (j : Json) : P String :=
  match j with
  | .str s => pure s
  | _ => throw "expected string"

def asArr (j : Json) : P (List Json) :=
  match j with
  | .arr a => pure a.toList
  | .null => pure []
  | _ => throw "expected array"

def getInt (j : Json) (k : String) : P Int := fld j k >>= asInt
def getNat (j : Json) (k : String) : P Nat := fld j k >>= asNat
def getBool (j : Json) (k : String) : P Bool := fld j k >>= asBool
def getStr (j : Json) (k : String) : P String := fld j k >>= asStr
def getArr (j : Json) (k : String) : P (List Json) := fld j k >>= asArr

def hexVal (c : Char) : Option Nat :=
  if '0' ≤ c ∧ c ≤ '9' then some (c.toNat - '0'.toNat)
  else if 'a' ≤ c ∧ c ≤ 'f' then some (c.toNat - 'a'.toNat + 10)
  else if 'A' ≤ c ∧ c ≤ 'F' then some (c.toNat - 'A'.toNat + 10)
  else none

def hexToBytes (s : String) : P (List UInt8) :=
  let rec go : List Char → P (List UInt8)
    | [] => pure []
    | [_] => throw "odd hex"
    | a :: b :: rest => do
      match hexVal a, hexVal b with
      | some x, some y => do
        let r ← go rest
        pure (UInt8.ofNat (x * 16 + y) :: r)
      | _, _ => throw "bad hex"
  go s.toList

def hexDigit (n : Nat) : Char := if n < 10 then Char.ofNat (n + 48) else Char.ofNat (n + 87)
def bytesToHex (bs : List UInt8) : String :=
  String.ofList (bs.foldr (fun b acc => hexDigit (b.toNat / 16) :: hexDigit (b.toNat % 16) :: acc) [])

def asBytes (j : Json) : P (List UInt8) := asStr j >>= hexToBytes
def getBytes (j : Json) (k : String) : P (List UInt8) := fld j k >>= asBytes

def jInt (i : Int) : Json := .str (toString i)
def jNat (n : Nat) : Json := .str (toString n)
def jBytes (b : List UInt8) : Json := .str (bytesToHex b)

def asDec (j : Json) : P Dec := do
  let c ← getInt j "c"
  let e ← getInt j "e"
  pure ⟨c, e⟩

def jDec (d : Dec) : Json := Json.mkObj [("c", jInt d.coef), ("e", jInt d.exp)]

partial def asSV (j : Json) : P SV := do
  let t ← getStr j "t"
  match t with
  | "dec" => do pure (.dec (← fld j "d" >>= asDec))
  | "quote" => do
    pure (.quote (← fld j "bid" >>= asDec) (← fld j "bm" >>= asDec) (← fld j "ask" >>= asDec))
  | "tsv" => do
    pure (.tsv (← getNat j "at") (← fld j "v" >>= asSV))
  | _ => throw s!"bad sv type {t}"

def asOptSV (j : Json) : P (Option SV) :=
  match j with
  | .null => pure none
  | _ => some <$> asSV j

def jSV : SV → Json
  | .dec d => Json.mkObj [("t", "dec"), ("d", jDec d)]
  | .quote a b c => Json.mkObj [("t", "quote"), ("bid", jDec a), ("bm", jDec b), ("ask", jDec c)]
  | .tsv t v => Json.mkObj [("t", "tsv"), ("at", jNat t), ("v", jSV v)]

def jOptSV : Option SV → Json
  | none => .null
  | some v => jSV v

/-! ### LLO structures
* ChanDef: `{"format":n,"streams":[{"sid":n,"agg":n}],"opts":"hex"}`
* maps are arrays of entries; outputs are sorted by key (canonical), inputs keep insertion order:
  defs `[{"id":n,"def":ChanDef}]`, va `[{"id":n,"va":"nat"}]`, aggs `[{"sid":n,"agg":n,"v":SV}]`
* Outcome: `{"stage":"…","ts":"nat","defs":[…],"va":[…],"aggs":[…]}`
* Obs: `{"attested":"hex","retire":bool,"ts":"nat","removes":[n],"updates":[{"id","def"}],"values":[{"sid":n,"v":SV}]}`
-/

def asStream (j : Json) : P Stream := do pure ⟨← getNat j "sid", ← getNat j "agg"⟩
def jStream (s : Stream) : Json := Json.mkObj [("sid", jNat s.sid), ("agg", jNat s.agg)]

def asChanDef (j : Json) : P ChanDef := do
  pure ⟨← getNat j "format", ← (← getArr j "streams").mapM asStream, ← getBytes j "opts"⟩
def jChanDef (d : ChanDef) : Json :=
  Json.mkObj [("format", jNat d.format), ("streams", .arr (d.streams.map jStream).toArray), ("opts", jBytes d.opts)]

def asDefs (j : Json) : P (GoMap Nat ChanDef) := do
  let es ← (← asArr j).mapM fun e => do pure ((← getNat e "id"), (← fld e "def" >>= asChanDef))
  pure (GoMap.ofList es)
def asVA (j : Json) : P (GoMap Nat Nat) := do
  let es ← (← asArr j).mapM fun e => do pure ((← getNat e "id"), (← getNat e "va"))
  pure (GoMap.ofList es)
def asAggs (j : Json) : P (GoMap (Nat × Nat) SV) := do
  let es ← (← asArr j).mapM fun e => do pure (((← getNat e "sid"), (← getNat e "agg")), (← fld e "v" >>= asSV))
  pure (GoMap.ofList es)

def sortByKey {ν} (m : GoMap Nat ν) : GoMap Nat ν := m.mergeSort (fun a b => decide (a.1 ≤ b.1))
def sortByKey2 {ν} (m : GoMap (Nat × Nat) ν) : GoMap (Nat × Nat) ν :=
  m.mergeSort (fun a b => decide (a.1.1 < b.1.1 ∨ (a.1.1 = b.1.1 ∧ a.1.2 ≤ b.1.2)))

def jDefs (m : GoMap Nat ChanDef) : Json :=
  .arr ((sortByKey m).map fun e => Json.mkObj [("id", jNat e.1), ("def", jChanDef e.2)]).toArray
def jVA (m : GoMap Nat Nat) : Json :=
  .arr ((sortByKey m).map fun e => Json.mkObj [("id", jNat e.1), ("va", jNat e.2)]).toArray
def jAggs (m : GoMap (Nat × Nat) SV) : Json :=
  .arr ((sortByKey2 m).map fun e => Json.mkObj [("sid", jNat e.1.1), ("agg", jNat e.1.2), ("v", jSV e.2)]).toArray

def asOutcome (j : Json) : P Outcome := do
  pure { stage := ← getStr j "stage", ts := ← getNat j "ts", defs := ← asDefs (fldD j "defs"),
         va := ← asVA (fldD j "va"), aggs := ← asAggs (fldD j "aggs") }
def jOutcome (o : Outcome) : Json :=
  Json.mkObj [("stage", .str o.stage), ("ts", jNat o.ts), ("defs", jDefs o.defs), ("va", jVA o.va), ("aggs", jAggs o.aggs)]

def asObs (j : Json) : P Obs := do
  let vals ← (← asArr (fldD j "values")).mapM fun e => do pure ((← getNat e "sid"), (← fld e "v" >>= asSV))
  pure { attested := ← asBytes (fldD j "attested" |> fun x => if x.isNull then Json.str "" else x),
         shouldRetire := (fldD j "retire") == Json.bool true,
         ts := ← getNat j "ts",
         removes := ← (← asArr (fldD j "removes")).mapM asNat,
         updates := ← asDefs (fldD j "updates"),
         values := GoMap.ofList vals }
def jObs (o : Obs) : Json :=
  Json.mkObj [("attested", jBytes o.attested), ("retire", .bool o.shouldRetire), ("ts", jNat o.ts),
    ("removes", .arr ((o.removes.mergeSort (fun a b => decide (a ≤ b))).map jNat).toArray),
    ("updates", jDefs o.updates),
    ("values", .arr ((sortByKey o.values).map fun e => Json.mkObj [("sid", jNat e.1), ("v", jSV e.2)]).toArray)]

def jRes {α} (f : α → Json) : GoRes α → Json
  | .ok a => Json.mkObj [("ok", f a)]
  | .err c => Json.mkObj [("err", .str c)]
  | .panic => Json.mkObj [("panic", .bool true)]

end Driver
