import Driver.JsonUtil
import DSV.MTLS.Verify
open Lean
namespace Driver
open DSV DSV.MTLS

/-- what `x509.ParseCertificate` yields for a certificate *shape* of the harness:
    `ed25519` / `ed25519-foreign` (Ed25519 subject key `key`, self-signed / signed by another key),
    `ecdsa`, `rsa` (other key algorithms), anything else (`garbage`, `empty`, `truncated`,
    `trailing`) does not parse -/
def certOfShape (j : Json) : P (Option Cert) := do
  let shape ← getStr j "shape"
  match shape with
  | "ed25519" | "ed25519-foreign" => do
    let k ← getBytes j "key"
    pure (some ⟨.ed25519, some k⟩)
  | "ecdsa" => pure (some ⟨.ecdsa, none⟩)
  | "rsa" => pure (some ⟨.rsa, none⟩)
  | _ => pure none

/-- op `mtls.verify` : `{"keys":["hex",…],"certs":[{"shape":…,"key":"hex"},…]}` →
    `{"ok":true}` | `{"err":"no-keys|key-length|cert-count|parse|not-ed25519|invalid-key|unknown-key"}`.
    The i-th raw certificate is represented by the byte string `[i]`; `parse` looks the shape up. -/
def handleMtls (op : String) (j : Json) : Option (P Json) :=
  match op with
  | "mtls.verify" => some (do
      let keys ← (← getArr j "keys").mapM asBytes
      let certs ← (← getArr j "certs").mapM certOfShape
      let raws : List Bytes := (List.range certs.length).map fun i => [UInt8.ofNat i]
      let parse : Bytes → Option Cert := fun b =>
        match b with
        | [i] => (certs[i.toNat]?).join
        | _ => none
      pure (jRes (fun _ => Json.bool true) (constructAndVerify parse keys raws)))
  | _ => none
end Driver
