import Driver.JsonUtil
import Driver.Agg
import Driver.EvmInt
import Driver.Mercury
import Driver.EvmCodec
import Driver.Codecs
import Driver.Mtls
import Driver.LLO
import Driver.Cost
open Lean
namespace Driver

/-- all op handlers; each returns `none` when the op name is not its own -/
def handlers : List (String → Json → Option (P Json)) :=
  [handleAgg, handleEvmInt, handleMercury, handleEvmCodec, handleCodecs, handleMtls, handleLLO, handleCost]

def dispatch (op : String) (j : Json) : P Json :=
  match handlers.findSome? (fun h => h op j) with
  | some r => r
  | none => throw s!"unknown op {op}"

def handle (line : String) : String :=
  match Json.parse line with
  | .error e => (Json.mkObj [("driver-error", .str ("bad-json " ++ e))]).compress
  | .ok j =>
    match (getStr j "op") >>= (fun op => dispatch op j) with
    | .ok r => r.compress
    | .error e => (Json.mkObj [("driver-error", .str e)]).compress
end Driver
