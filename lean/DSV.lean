import DSV.Go.Basic
import DSV.Go.Dec
import DSV.LLO.Types
import DSV.LLO.Wire
import DSV.LLO.Aggregators
import DSV.Go.Bytes
import DSV.EVM.IntEnc
