import Driver
partial def loop (h : IO.FS.Stream) (out : IO.FS.Stream) : IO Unit := do
  let line ← h.getLine
  if line.isEmpty then return ()
  out.putStrLn (Driver.handle line)
  loop h out
def main : IO Unit := do
  let i ← IO.getStdin
  let o ← IO.getStdout
  loop i o
