import Lean
/-!
`#audit_ns NS` prints, for every theorem whose name starts with `NS`, one line
`AUDIT <name> : [axioms]`.  Used by /verif/bin/check to audit the property theorems.
-/
open Lean Elab Command

elab "#audit_ns " ns:ident : command => do
  let env ← getEnv
  let pre := ns.getId
  let mut names : Array Name := #[]
  for (n, ci) in env.constants.toList do
    if pre.isPrefixOf n && !n.isInternal then
      match ci with
      | .thmInfo _ => names := names.push n
      | _ => pure ()
  let sorted := names.qsort (fun a b => a.toString < b.toString)
  for n in sorted do
    let axs ← liftCoreM (collectAxioms n)
    let axs := axs.qsort (fun a b => a.toString < b.toString)
    logInfo m!"AUDIT {n} : {axs.toList}"
