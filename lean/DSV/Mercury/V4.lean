import DSV.Mercury.Common
/-!
# `mercury/v4/mercury.go`, `mercury/v4/observation.go`, `mercury/v4/aggregate_functions.go`
-/
namespace DSV.Mercury.V4
open DSV DSV.Mercury

structure Obs where
  ts : Nat
  bp : Option Int
  pricesValid : Bool
  mft : Int
  mftValid : Bool
  linkFee : Option Int
  linkFeeValid : Bool
  nativeFee : Option Int
  nativeFeeValid : Bool
  marketStatus : Nat
  marketStatusValid : Bool
  deriving Repr, DecidableEq

structure PAO where
  ts : Nat
  bp : Int := 0
  pricesValid : Bool := false
  mft : Int := 0
  mftValid : Bool := false
  linkFee : Int := 0
  linkFeeValid : Bool := false
  nativeFee : Int := 0
  nativeFeeValid : Bool := false
  marketStatus : Nat := 0
  marketStatusValid : Bool := false
  deriving Repr, DecidableEq

def parsePrices (o : Obs) (p : PAO) : Option PAO :=
  if o.pricesValid then o.bp.map fun v => { p with bp := v, pricesValid := true } else some p

def parseMft (mft : Int) (mftValid : Bool) (p : PAO) : PAO :=
  if mftValid then { p with mft := mft, mftValid := true } else p

def parseLink (fee : Option Int) (valid : Bool) (p : PAO) : Option PAO :=
  if valid then fee.map fun v => { p with linkFee := v, linkFeeValid := true } else some p

def parseNative (fee : Option Int) (valid : Bool) (p : PAO) : Option PAO :=
  if valid then fee.map fun v => { p with nativeFee := v, nativeFeeValid := true } else some p

def parseMs (o : Obs) (p : PAO) : PAO :=
  if o.marketStatusValid then { p with marketStatus := o.marketStatus, marketStatusValid := true } else p

/-- `parseAttributedObservation` after `proto.Unmarshal` succeeded (`none` = error, dropped) -/
def parse (o : Obs) : Option PAO :=
  (parsePrices o { ts := o.ts }).bind fun p =>
  (parseLink o.linkFee o.linkFeeValid (parseMft o.mft o.mftValid p)).bind fun p =>
  (parseNative o.nativeFee o.nativeFeeValid p).map (parseMs o)

def parseAll (aos : List (Option Obs)) : List PAO := aos.filterMap fun o => o.bind parse

def PAO.getMFT (p : PAO) : Int × Bool := if p.mft < -1 then (0, false) else (p.mft, p.mftValid)

/-- loop body of the second loop of `GetConsensusMarketStatus`; state = (status, count) -/
def msStep (acc : Nat × Nat) (e : Nat × Nat) : Nat × Nat :=
  if e.2 > acc.2 then (e.1, e.2)
  else if e.2 == acc.2 then (if e.1 < acc.1 then (e.1, acc.2) else acc)
  else acc

/-- `GetConsensusMarketStatus` -/
def consensusMarketStatus (σ : Sched (Nat × Nat)) (vs : List (Nat × Bool)) (f : Nat) : GoRes Nat :=
  let counts := freq (validVals vs)
  let (status, count) := (σ counts).foldl msStep (0, 0)
  if count < f + 1 then .err "too-few" else .ok status

structure RF where
  validFrom : Nat
  ts : Nat
  nativeFee : Int
  linkFee : Int
  expiresAt : Nat
  bp : Option Int
  marketStatus : Nat
  deriving Repr, DecidableEq

/-- the two map-range sites reached from `Report` -/
structure Scheds where
  mft : Sched (Int × Nat) := id
  ms : Sched (Nat × Nat) := id

def Scheds.IsSched (σ : Scheds) : Prop := Mercury.IsSched σ.mft ∧ Mercury.IsSched σ.ms

/-- a consensus market status or a joined error -/
def msOrErr (r : GoRes Nat) : GoRes (Nat × Bool) :=
  match r with
  | .ok s => .ok (s, false)
  | .err _ => .ok (0, true)
  | .panic => .panic

def buildReportFields (cfg : Cfg) (codec : Codec RF) (σ : Scheds) (prev : Option Bytes)
    (paos : List PAO) : GoRes (RF × List String) :=
  (consensusTimestamp (paos.map (·.ts))).bind fun ts =>
  (validFromTs codec.prevEnd prev ts
    (consensusMaxFinalizedTimestamp σ.mft (paos.map PAO.getMFT) cfg.f)).bind fun vf =>
  (priceOrErr (consensusBenchmarkPrice (paos.map fun p => (p.bp, p.pricesValid)) cfg.f)).bind fun bp =>
  (feeOrZero (consensusLinkFee (paos.map fun p => (p.linkFee, p.linkFeeValid)) cfg.f)).bind fun linkFee =>
  (feeOrZero (consensusNativeFee (paos.map fun p => (p.nativeFee, p.nativeFeeValid)) cfg.f)).bind fun nativeFee =>
  (msOrErr (consensusMarketStatus σ.ms (paos.map fun p => (p.marketStatus, p.marketStatusValid)) cfg.f)).bind fun ms =>
  .ok ({ validFrom := vf.1, ts, nativeFee, linkFee, expiresAt := (expiresAtOf ts cfg.window).1,
         bp := bp.1, marketStatus := ms.1 },
       tagIf vf.2 "vf" ++ tagIf bp.2 "bp" ++ tagIf (expiresAtOf ts cfg.window).2 "exp" ++ tagIf ms.2 "ms")

def validateReport (cfg : Cfg) (rf : RF) : List String :=
  tagIf (!validateBetween rf.bp cfg.min cfg.max) "bp" ++
  tagIf (!validateFee (some rf.linkFee)) "link" ++
  tagIf (!validateFee (some rf.nativeFee)) "native" ++
  tagIf (!validateValidFromTimestamp rf.ts rf.validFrom) "vf" ++
  tagIf (!validateExpiresAt rf.ts rf.expiresAt) "exp"

def report (cfg : Cfg) (codec : Codec RF) (σ : Scheds) (prev : Option Bytes)
    (aos : List (Option Obs)) : GoRes (Option (RF × Bytes)) :=
  let paos := parseAll aos
  reportCore cfg.f paos.length (buildReportFields cfg codec σ prev paos)
    (fun rf => decide (rf.ts < rf.validFrom)) (validateReport cfg) codec

end DSV.Mercury.V4
