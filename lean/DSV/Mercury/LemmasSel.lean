import DSV.Mercury.Lemmas
import DSV.Mercury.V1
import DSV.Mercury.V4
/-!
# Helper lemmas for the f+1-agreement selectors (frequency maps, argmax folds)
-/
namespace DSV.Mercury
open DSV

section freq
variable {κ : Type} [DecidableEq κ]

theorem mem_dedup {a : κ} {l : List κ} : a ∈ dedup l ↔ a ∈ l := by
  induction l with
  | nil => simp [dedup]
  | cons b l ih =>
    simp only [dedup]
    split
    · rename_i hb
      rw [ih]; constructor
      · intro h; exact List.mem_cons_of_mem _ h
      · intro h; rcases List.mem_cons.mp h with rfl | h
        · exact hb
        · exact h
    · simp [ih]

theorem nodup_dedup (l : List κ) : (dedup l).Nodup := by
  induction l with
  | nil => simp [dedup]
  | cons b l ih =>
    simp only [dedup]
    split
    · exact ih
    · rename_i hb
      rw [List.nodup_cons]; exact ⟨fun h => hb (mem_dedup.mp h), ih⟩

theorem dedup_perm {l l' : List κ} (h : l.Perm l') : (dedup l).Perm (dedup l') := by
  rw [List.perm_ext_iff_of_nodup (nodup_dedup l) (nodup_dedup l')]
  intro a; rw [mem_dedup, mem_dedup]; exact h.mem_iff

theorem mem_freq {e : κ × Nat} {l : List κ} : e ∈ freq l ↔ e.1 ∈ l ∧ e.2 = l.count e.1 := by
  simp only [freq, List.mem_map, mem_dedup]
  constructor
  · rintro ⟨k, hk, rfl⟩; exact ⟨hk, rfl⟩
  · rintro ⟨hk, hc⟩; exact ⟨e.1, hk, by rw [← hc]⟩

theorem freq_perm {l l' : List κ} (h : l.Perm l') : (freq l).Perm (freq l') := by
  unfold freq
  have hf : (fun k => (k, l.count k)) = (fun k => (k, l'.count k)) := by
    funext k; rw [h.count_eq]
  rw [hf]; exact (dedup_perm h).map _

theorem maxCount_eq (l xs : List κ) (a : Nat) :
    (∀ x ∈ xs, l.count x ≤ xs.foldl (fun a x => max a (l.count x)) a) ∧
    a ≤ xs.foldl (fun a x => max a (l.count x)) a ∧
    (xs.foldl (fun a x => max a (l.count x)) a = a ∨
      ∃ x ∈ xs, l.count x = xs.foldl (fun a x => max a (l.count x)) a) := by
  induction xs generalizing a with
  | nil => simp
  | cons y ys ih =>
    simp only [List.foldl_cons]
    obtain ⟨h1, h2, h3⟩ := ih (max a (l.count y))
    refine ⟨?_, by omega, ?_⟩
    · intro x hx
      rcases List.mem_cons.mp hx with rfl | hx
      · omega
      · exact h1 x hx
    · rcases h3 with h3 | ⟨x, hx, h3⟩
      · by_cases hc : l.count y ≤ a
        · left; rw [h3]; omega
        · right; exact ⟨y, List.mem_cons_self, by rw [h3]; omega⟩
      · right; exact ⟨x, List.mem_cons_of_mem _ hx, h3⟩

theorem V1.count_le_maxCount {l : List κ} {x : κ} (hx : x ∈ l) : l.count x ≤ V1.maxCount l :=
  (maxCount_eq l l 0).1 x hx

theorem V1.maxCount_attained {l : List κ} (h : 0 < V1.maxCount l) : ∃ x ∈ l, l.count x = V1.maxCount l := by
  rcases (maxCount_eq l l 0).2.2 with h0 | h0
  · unfold V1.maxCount at h; omega
  · exact h0

theorem V1.maxCount_perm {l l' : List κ} (h : l.Perm l') : V1.maxCount l = V1.maxCount l' := by
  unfold V1.maxCount
  have hf : (fun a x => max a (l.count x)) = (fun a x => max a (l'.count x)) := by
    funext a x; rw [h.count_eq]
  rw [hf]
  apply List.Perm.foldl_eq' h
  intro x _ y _ z; omega

end freq

/-! ## `GetConsensusMaxFinalizedTimestamp` -/

theorem mftStep_comm (f : Nat) (z : Int) (x y : Int × Nat) :
    mftStep f (mftStep f z x) y = mftStep f (mftStep f z y) x := by
  simp only [mftStep, Bool.and_eq_true, decide_eq_true_eq]
  repeat' split
  all_goals omega

theorem mft_fold_spec (f : Nat) (es : List (Int × Nat)) (init : Int) :
    init ≤ es.foldl (mftStep f) init ∧
    (es.foldl (mftStep f) init = init ∨ ∃ e ∈ es, e.2 > f ∧ e.1 = es.foldl (mftStep f) init) := by
  induction es generalizing init with
  | nil => simp
  | cons e es ih =>
    simp only [List.foldl_cons]
    obtain ⟨h1, h2⟩ := ih (mftStep f init e)
    have hstep : init ≤ mftStep f init e ∧ (mftStep f init e = init ∨ (e.2 > f ∧ e.1 = mftStep f init e)) := by
      simp only [mftStep, Bool.and_eq_true, decide_eq_true_eq]
      split
      · rename_i hc; exact ⟨by omega, Or.inr ⟨hc.1, rfl⟩⟩
      · exact ⟨by omega, Or.inl rfl⟩
    refine ⟨by omega, ?_⟩
    rcases h2 with h2 | ⟨e', he', h2⟩
    · rcases hstep.2 with h3 | h3
      · left; rw [h2, h3]
      · right; exact ⟨e, List.mem_cons_self, h3.1, by rw [h2]; exact h3.2⟩
    · right; exact ⟨e', List.mem_cons_of_mem _ he', h2⟩

/-! ## `GetConsensusMarketStatus` — the fold keeps the lexicographic best (max count, min status) -/

/-- `r` is the (largest count, then smallest status) entry among `cs` -/
def MsBest (cs : List (Nat × Nat)) (r : Nat × Nat) : Prop :=
  (∀ c ∈ cs, c.2 ≤ r.2) ∧ (∃ c ∈ cs, c.2 = r.2 ∧ c.1 = r.1) ∧ (∀ c ∈ cs, c.2 = r.2 → r.1 ≤ c.1)

theorem msStep_best (acc e : Nat × Nat) : MsBest [acc, e] (V4.msStep acc e) := by
  obtain ⟨a1, a2⟩ := acc; obtain ⟨e1, e2⟩ := e
  simp only [V4.msStep, beq_iff_eq, MsBest, List.mem_cons, List.not_mem_nil, or_false,
    forall_eq_or_imp, forall_eq, exists_eq_or_imp, exists_eq_left]
  split
  · dsimp only; omega
  · split
    · split
      · dsimp only; omega
      · dsimp only; omega
    · dsimp only; omega

theorem ms_fold_best (es : List (Nat × Nat)) (acc : Nat × Nat) :
    MsBest (acc :: es) (es.foldl V4.msStep acc) := by
  induction es generalizing acc with
  | nil =>
    refine ⟨?_, ⟨acc, by simp, rfl, rfl⟩, ?_⟩
    · intro c hc; simp only [List.mem_singleton] at hc; subst hc; exact Nat.le_refl _
    · intro c hc _; simp only [List.mem_singleton] at hc; subst hc; exact Nat.le_refl _
  | cons e es ih =>
    simp only [List.foldl_cons]
    obtain ⟨h1, ⟨c, hc, hc2, hc1⟩, h3⟩ := ih (V4.msStep acc e)
    obtain ⟨s1, ⟨d, hd, hd2, hd1⟩, s3⟩ := msStep_best acc e
    have hle : (V4.msStep acc e).2 ≤ (es.foldl V4.msStep (V4.msStep acc e)).2 := h1 _ List.mem_cons_self
    have hsub : ∀ x ∈ [acc, e], x ∈ acc :: e :: es := by
      intro x hx; simp only [List.mem_cons, List.not_mem_nil, or_false] at hx ⊢
      rcases hx with rfl | rfl <;> simp
    refine ⟨?_, ?_, ?_⟩
    · intro x hx
      simp only [List.mem_cons] at hx
      rcases hx with rfl | rfl | hx
      · have := s1 x (by simp); omega
      · have := s1 x (by simp); omega
      · exact h1 x (List.mem_cons_of_mem _ hx)
    · rcases List.mem_cons.mp hc with rfl | hc
      · exact ⟨d, hsub d hd, by omega, by omega⟩
      · exact ⟨c, by simp [hc], hc2, hc1⟩
    · intro x hx hx2
      simp only [List.mem_cons] at hx
      have key : ∀ y ∈ [acc, e], y.2 = (es.foldl V4.msStep (V4.msStep acc e)).2 →
          (es.foldl V4.msStep (V4.msStep acc e)).1 ≤ y.1 := by
        intro y hy hy2
        have h4 := s1 y hy
        have h5 := h3 (V4.msStep acc e) List.mem_cons_self (by omega)
        have h6 := s3 y hy (by omega)
        omega
      rcases hx with rfl | rfl | hx
      · exact key x (by simp) hx2
      · exact key x (by simp) hx2
      · exact h3 x (List.mem_cons_of_mem _ hx) hx2

theorem MsBest_unique {cs cs' : List (Nat × Nat)} {r r' : Nat × Nat} (hm : ∀ c, c ∈ cs ↔ c ∈ cs')
    (h : MsBest cs r) (h' : MsBest cs' r') : r = r' := by
  obtain ⟨a1, ⟨c, hc, hc2, hc1⟩, a3⟩ := h
  obtain ⟨b1, ⟨d, hd, hd2, hd1⟩, b3⟩ := h'
  have e2 : r.2 = r'.2 := by
    have := b1 c ((hm c).mp hc); have := a1 d ((hm d).mpr hd); omega
  have e1 : r.1 = r'.1 := by
    have := b3 c ((hm c).mp hc) (by omega); have := a3 d ((hm d).mpr hd) (by omega); omega
  exact Prod.ext e1 e2

/-! ## `GetConsensusLatestBlock` -/

theorem pickBlock_ok {σm : Sched (V1.Block × Nat)} (hσ : IsSched σm) {f : Nat}
    {gs : List (Int × List V1.Block)} {h : Bytes} {n : Int} {t : Nat}
    (hp : V1.pickBlock σm f gs = .ok (h, n, t)) :
    ∃ g ∈ gs, f + 1 ≤ g.2.count ⟨n, h, t⟩ := by
  induction gs with
  | nil => simp [V1.pickBlock] at hp
  | cons g rest ih =>
    simp only [V1.pickBlock] at hp
    split at hp
    · rename_i hge
      split at hp
      · rename_i b hb
        cases hp
        have hmem := List.mem_mergeSort.mp (List.mem_of_getElem? hb)
        simp only [List.mem_filterMap] at hmem
        obtain ⟨e, he, hsome⟩ := hmem
        split at hsome
        · rename_i heq
          cases hsome
          have hm := mem_freq.mp ((hσ _).mem_iff.mp he)
          simp only [beq_iff_eq] at heq
          refine ⟨g, List.mem_cons_self, ?_⟩
          have : (⟨e.1.num, e.1.hash, e.1.ts⟩ : V1.Block) = e.1 := rfl
          rw [this]; omega
        · cases hsome
      · cases hp
    · obtain ⟨g', hg', hc⟩ := ih hp
      exact ⟨g', List.mem_cons_of_mem _ hg', hc⟩

theorem mem_groupingsM {g : Int × List V1.Block} {blocks : List V1.Block}
    (h : g ∈ V1.groupingsM blocks) : g.2 = blocks.filter fun b => b.num = g.1 := by
  simp only [V1.groupingsM, List.mem_map] at h
  obtain ⟨n, _, rfl⟩ := h
  rfl

theorem count_flatMap_le {α β : Type} [DecidableEq β] (g : α → List β) (b : β) (ps : List α)
    (h : ∀ p ∈ ps, (g p).count b ≤ 1) :
    (ps.flatMap g).count b ≤ ps.countP fun p => decide (b ∈ g p) := by
  induction ps with
  | nil => simp
  | cons p ps ih =>
    rw [List.flatMap_cons, List.count_append, List.countP_cons]
    have h1 := ih (fun q hq => h q (List.mem_cons_of_mem _ hq))
    have h2 := h p List.mem_cons_self
    by_cases hb : b ∈ g p
    · simp only [hb, decide_true, if_true]; omega
    · have : (g p).count b = 0 := List.count_eq_zero.mpr hb
      simp only [hb, decide_false]; omega

/-! ## v1 parsing rejects duplicate block numbers -/

theorem checkBlocks_nodup (bs : List V1.Block) (nums : List Int) (hashes : List Bytes)
    (h : V1.checkBlocks bs nums hashes = true) :
    (bs.map (·.num)).Nodup ∧ ∀ b ∈ bs, b.num ∉ nums := by
  induction bs generalizing nums hashes with
  | nil => simp
  | cons b rest ih =>
    simp only [V1.checkBlocks] at h
    split at h
    · cases h
    · rename_i hn
      split at h
      · cases h
      · split at h
        · cases h
        · split at h
          · cases h
          · obtain ⟨h1, h2⟩ := ih _ _ h
            refine ⟨?_, ?_⟩
            · rw [List.map_cons, List.nodup_cons]
              refine ⟨?_, h1⟩
              intro hm
              obtain ⟨b', hb', heq⟩ := List.mem_map.mp hm
              exact h2 b' hb' (by rw [heq]; exact List.mem_cons_self)
            · intro b' hb'
              rcases List.mem_cons.mp hb' with rfl | hb'
              · exact hn
              · intro hc; exact h2 b' hb' (List.mem_cons_of_mem _ hc)

theorem blocksStep_nodup {acc : Option (List V1.Block)} {b : V1.Block} {r : List V1.Block}
    (h : V1.blocksStep acc b = some r) : (r.map (·.num)).Nodup := by
  cases acc with
  | none => simp [V1.blocksStep] at h
  | some cur =>
    simp only [V1.blocksStep, Option.bind_some] at h
    split at h
    · rename_i hc
      cases h
      have := (checkBlocks_nodup _ _ _ hc).1
      exact ((List.mergeSort_perm _ _).map _).nodup_iff.mpr this
    · cases h

theorem foldl_blocksStep_nodup (bs : List V1.Block) (acc : Option (List V1.Block))
    (hacc : ∀ r0, acc = some r0 → (r0.map (·.num)).Nodup) {r : List V1.Block}
    (h : bs.foldl V1.blocksStep acc = some r) : (r.map (·.num)).Nodup := by
  induction bs generalizing acc with
  | nil => exact hacc r h
  | cons b rest ih =>
    simp only [List.foldl_cons] at h
    exact ih _ (fun r0 hr0 => blocksStep_nodup hr0) h

theorem parsePrices_blocks {o : V1.Obs} {p q : V1.PAO} (h : V1.parsePrices o p = some q) :
    q.latestBlocks = p.latestBlocks ∧ q.curValid = p.curValid ∧ q.curNum = p.curNum ∧
      q.curHash = p.curHash ∧ q.curTs = p.curTs := by
  unfold V1.parsePrices at h
  split at h
  · split at h
    · cases h; simp
    · cases h
  · cases h; simp

end DSV.Mercury
