import DSV.LLO.CodecBigEndian
/-!
# Mercury on-chain config and int192 values (`mercury/onchain_config.go`, `mercury/value.go`)
Byte level: three 32-byte EVM words `<version><min><max>`; values are 24-byte two's complement.
-/
namespace DSV.Mercury
open DSV DSV.LLO

/-- `mercury.OnchainConfig` (`Min`, `Max` non-nil) -/
structure OnchainCfg where
  min : Int
  max : Int
  deriving DecidableEq, Repr, Inhabited

def onchainConfigVersion : Int := 1
def onchainConfigEncodedLength : Nat := 96
def byteWidthInt192 : Nat := 24
def errBadVersion : String := "bad-version"
def errMinGtMax : String := "min-gt-max"

/-- `StandardOnchainConfigCodec.Decode` -/
def decodeOnchain (b : List UInt8) : GoRes OnchainCfg :=
  if b.length ≠ onchainConfigEncodedLength then .err errBadLength
  else
    match deserializeSigned 32 (b.take 32) with
    | .err c => .err c
    | .panic => .panic
    | .ok v =>
      if v ≠ onchainConfigVersion then .err errBadVersion
      else
        match deserializeSigned 32 ((b.drop 32).take 32) with
        | .err c => .err c
        | .panic => .panic
        | .ok mn =>
          match deserializeSigned 32 ((b.drop 64).take 32) with
          | .err c => .err c
          | .panic => .panic
          | .ok mx =>
            if ¬ (mn ≤ mx) then .err errMinGtMax
            else .ok ⟨mn, mx⟩

/-- `StandardOnchainConfigCodec.Encode` (does not compare `Min` and `Max`) -/
def encodeOnchain (c : OnchainCfg) : GoRes (List UInt8) :=
  match serializeSigned 32 onchainConfigVersion with
  | .err e => .err e
  | .panic => .panic
  | .ok verBytes =>
    match serializeSigned 32 c.min with
    | .err e => .err e
    | .panic => .panic
    | .ok minBytes =>
      match serializeSigned 32 c.max with
      | .err e => .err e
      | .panic => .panic
      | .ok maxBytes => .ok (verBytes ++ minBytes ++ maxBytes)

/-- `EncodeValueInt192` -/
def encodeValueInt192 (i : Int) : GoRes (List UInt8) := serializeSigned byteWidthInt192 i

/-- `DecodeValueInt192` -/
def decodeValueInt192 (s : List UInt8) : GoRes Int := deserializeSigned byteWidthInt192 s

end DSV.Mercury
