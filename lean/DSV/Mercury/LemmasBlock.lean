import DSV.Mercury.LemmasSel
/-!
# `v1.Block.Less` is a strict total order; `GetConsensusLatestBlock` does not depend on the order of
# the observations nor on map iteration order
-/
namespace DSV.Mercury
open DSV

/-- sorted permutations are unique for a total, transitive, antisymmetric Bool order -/
theorem mergeSort_eq_of_perm {α : Type} (le : α → α → Bool)
    (tot : ∀ a b, (le a b || le b a) = true) (tr : ∀ a b c, le a b = true → le b c = true → le a c = true)
    (anti : ∀ a b, le a b = true → le b a = true → a = b) {l l' : List α} (h : l.Perm l') :
    l.mergeSort le = l'.mergeSort le := by
  apply List.Perm.eq_of_pairwise (le := fun a b => le a b = true)
  · intro a b _ _ h1 h2; exact anti a b h1 h2
  · exact List.pairwise_mergeSort tr tot l
  · exact List.pairwise_mergeSort tr tot l'
  · exact (List.mergeSort_perm l _).trans (h.trans (List.mergeSort_perm l' _).symm)

/-! ## byte strings -/

theorem uint8_trichotomy (a b : UInt8) : a < b ∨ a = b ∨ b < a := by
  rcases Nat.lt_trichotomy a.toNat b.toNat with h | h | h
  · exact Or.inl (UInt8.lt_iff_toNat_lt.mpr h)
  · exact Or.inr (Or.inl (UInt8.toNat_inj.mp h))
  · exact Or.inr (Or.inr (UInt8.lt_iff_toNat_lt.mpr h))

theorem bytesLt_irrefl : ∀ a : Bytes, bytesLt a a = false
  | [] => rfl
  | x :: xs => by
    simp only [bytesLt, Bool.or_eq_false_iff, decide_eq_false_iff_not, beq_self_eq_true, Bool.true_and]
    exact ⟨by intro h; exact absurd (UInt8.lt_iff_toNat_lt.mp h) (by omega), bytesLt_irrefl xs⟩

theorem bytesLt_trichotomy : ∀ a b : Bytes, bytesLt a b = true ∨ a = b ∨ bytesLt b a = true
  | [], [] => Or.inr (Or.inl rfl)
  | [], _ :: _ => Or.inl rfl
  | _ :: _, [] => Or.inr (Or.inr rfl)
  | x :: xs, y :: ys => by
    simp only [bytesLt, Bool.or_eq_true, decide_eq_true_eq, Bool.and_eq_true, beq_iff_eq, List.cons.injEq]
    rcases uint8_trichotomy x y with h | h | h
    · exact Or.inl (Or.inl h)
    · subst h
      rcases bytesLt_trichotomy xs ys with h2 | h2 | h2
      · exact Or.inl (Or.inr ⟨rfl, h2⟩)
      · exact Or.inr (Or.inl ⟨rfl, h2⟩)
      · exact Or.inr (Or.inr (Or.inr ⟨rfl, h2⟩))
    · exact Or.inr (Or.inr (Or.inl h))

theorem bytesLt_trans : ∀ a b c : Bytes, bytesLt a b = true → bytesLt b c = true → bytesLt a c = true
  | [], [], _ => by simp [bytesLt]
  | [], _ :: _, [] => by simp [bytesLt]
  | [], _ :: _, _ :: _ => by simp [bytesLt]
  | _ :: _, [], _ => by simp [bytesLt]
  | _ :: _, _ :: _, [] => by simp [bytesLt]
  | x :: xs, y :: ys, z :: zs => by
    simp only [bytesLt, Bool.or_eq_true, decide_eq_true_eq, Bool.and_eq_true, beq_iff_eq]
    intro h1 h2
    rcases h1 with h1 | ⟨rfl, h1⟩
    · rcases h2 with h2 | ⟨rfl, h2⟩
      · left
        have := UInt8.lt_iff_toNat_lt.mp h1; have := UInt8.lt_iff_toNat_lt.mp h2
        exact UInt8.lt_iff_toNat_lt.mpr (by omega)
      · exact Or.inl h1
    · rcases h2 with h2 | ⟨rfl, h2⟩
      · exact Or.inl h2
      · exact Or.inr ⟨rfl, bytesLt_trans xs ys zs h1 h2⟩

theorem bytesLt_asymm (a b : Bytes) (h : bytesLt a b = true) : bytesLt b a = false := by
  cases hba : bytesLt b a with
  | false => rfl
  | true => have := bytesLt_trans a b a h hba; rw [bytesLt_irrefl] at this; cases this

/-! ## blocks -/

theorem Block.ext' {a b : V1.Block} (h1 : a.num = b.num) (h2 : a.hash = b.hash) (h3 : a.ts = b.ts) : a = b := by
  cases a; cases b; simp_all

theorem Block.less_trichotomy (a b : V1.Block) : a.less b = true ∨ a = b ∨ b.less a = true := by
  unfold V1.Block.less
  by_cases hn : a.num = b.num
  · by_cases ht : a.ts = b.ts
    · rw [if_pos ⟨hn, ht⟩, if_pos ⟨hn.symm, ht.symm⟩]
      rcases bytesLt_trichotomy b.hash a.hash with h | h | h
      · exact Or.inl h
      · exact Or.inr (Or.inl (Block.ext' hn h.symm ht))
      · exact Or.inr (Or.inr h)
    · rw [if_neg (fun h => ht h.2), if_pos hn, if_neg (fun h => ht h.2.symm), if_pos hn.symm]
      simp only [decide_eq_true_eq]
      rcases Nat.lt_trichotomy a.ts b.ts with h | h | h
      · exact Or.inl h
      · exact absurd h ht
      · exact Or.inr (Or.inr h)
  · rw [if_neg (fun h => hn h.1), if_neg hn, if_neg (fun h => hn h.1.symm), if_neg (fun h => hn h.symm)]
    simp only [decide_eq_true_eq]
    omega

theorem Block.less_irrefl (a : V1.Block) : a.less a = false := by
  unfold V1.Block.less
  rw [if_pos ⟨rfl, rfl⟩]; exact bytesLt_irrefl _

theorem Block.less_trans (a b c : V1.Block) (h1 : a.less b = true) (h2 : b.less c = true) : a.less c = true := by
  unfold V1.Block.less at *
  by_cases hab : a.num = b.num
  · by_cases hbc : b.num = c.num
    · have hac : a.num = c.num := hab.trans hbc
      by_cases tab : a.ts = b.ts
      · by_cases tbc : b.ts = c.ts
        · rw [if_pos ⟨hab, tab⟩] at h1
          rw [if_pos ⟨hbc, tbc⟩] at h2
          rw [if_pos ⟨hac, tab.trans tbc⟩]
          exact bytesLt_trans _ _ _ h2 h1
        · rw [if_neg (fun h => tbc h.2), if_pos hbc] at h2
          rw [if_neg (fun h => tbc (tab ▸ h.2)), if_pos hac]
          simp only [decide_eq_true_eq] at h2 ⊢; omega
      · rw [if_neg (fun h => tab h.2), if_pos hab] at h1
        simp only [decide_eq_true_eq] at h1
        by_cases tbc : b.ts = c.ts
        · rw [if_neg (fun h => tab (by rw [tbc]; exact h.2)), if_pos hac]
          simp only [decide_eq_true_eq]; omega
        · rw [if_neg (fun h => tbc h.2), if_pos hbc] at h2
          simp only [decide_eq_true_eq] at h2
          rw [if_neg (fun h => by have := h.2; omega), if_pos hac]
          simp only [decide_eq_true_eq]; omega
    · rw [if_neg (fun h => hbc h.1), if_neg hbc] at h2
      simp only [decide_eq_true_eq] at h2
      have hac : ¬ a.num = c.num := by omega
      rw [if_neg (fun h => hac h.1), if_neg hac]
      simp only [decide_eq_true_eq]; omega
  · rw [if_neg (fun h => hab h.1), if_neg hab] at h1
    simp only [decide_eq_true_eq] at h1
    by_cases hbc : b.num = c.num
    · have hac : ¬ a.num = c.num := by omega
      rw [if_neg (fun h => hac h.1), if_neg hac]
      simp only [decide_eq_true_eq]; omega
    · rw [if_neg (fun h => hbc h.1), if_neg hbc] at h2
      simp only [decide_eq_true_eq] at h2
      have hac : ¬ a.num = c.num := by omega
      rw [if_neg (fun h => hac h.1), if_neg hac]
      simp only [decide_eq_true_eq]; omega

/-- `sort.Slice(usable, func(i,j) { return usable[j].Less(usable[i]) })` has one possible result -/
theorem sortDesc_perm {l l' : List V1.Block} (h : l.Perm l') : V1.sortDesc l = V1.sortDesc l' := by
  apply mergeSort_eq_of_perm (fun a b => !(a.less b)) _ _ _ h
  · intro a b
    cases hab : a.less b with
    | false => simp
    | true =>
      cases hba : b.less a with
      | false => simp
      | true =>
        have := Block.less_trans a b a hab hba
        rw [Block.less_irrefl] at this; cases this
  · intro a b c h1 h2
    simp only [Bool.not_eq_true'] at h1 h2 ⊢
    cases hac : a.less c with
    | false => rfl
    | true =>
      exfalso
      rcases Block.less_trichotomy a b with h | h | h
      · rw [h] at h1; cases h1
      · subst h; rw [hac] at h2; cases h2
      · have := Block.less_trans b a c h hac; rw [this] at h2; cases h2
  · intro a b h1 h2
    simp only [Bool.not_eq_true'] at h1 h2
    rcases Block.less_trichotomy a b with h | h | h
    · rw [h] at h1; cases h1
    · exact h
    · rw [h] at h2; cases h2

/-! ## `GetConsensusLatestBlock` -/

/-- one iteration of the loop only depends on the multiset of the group and not on the map order -/
theorem pickBlock_congr {σm σm' : Sched (V1.Block × Nat)} (hσ : IsSched σm) (hσ' : IsSched σm') (f : Nat)
    (G G' : Int → List V1.Block) (hG : ∀ n, (G n).Perm (G' n)) (keys : List Int) :
    V1.pickBlock σm f (keys.map fun n => (n, G n)) = V1.pickBlock σm' f (keys.map fun n => (n, G' n)) := by
  induction keys with
  | nil => rfl
  | cons n rest ih =>
    simp only [List.map_cons, V1.pickBlock]
    rw [V1.maxCount_perm (hG n), ih]
    have hp : (σm (freq (G n))).Perm (σm' (freq (G' n))) :=
      (hσ _).trans ((freq_perm (hG n)).trans (hσ' _).symm)
    rw [sortDesc_perm (List.Perm.filterMap _ hp)]

/-- the sorted slice of groups is determined by the blocks alone -/
theorem sorted_groupings_eq {σg : Sched (Int × List V1.Block)} (hσ : IsSched σg) (blocks : List V1.Block) :
    (σg (V1.groupingsM blocks)).mergeSort (fun a b => !decide (b.1 > a.1)) =
      ((dedup (blocks.map (·.num))).mergeSort fun a b => !decide (b > a)).map
        fun n => (n, blocks.filter fun b => b.num = n) := by
  apply List.Perm.eq_of_pairwise (le := fun a b => (!decide (b.1 > a.1)) = true)
  · intro a b ha hb h1 h2
    simp only [Bool.not_eq_true', decide_eq_false_iff_not] at h1 h2
    have ha' := mem_groupingsM ((hσ _).mem_iff.mp (List.mem_mergeSort.mp ha))
    obtain ⟨n, _, hn⟩ := List.mem_map.mp hb
    subst hn
    simp only [] at h1 h2
    have : a.1 = n := by omega
    apply Prod.ext
    · exact this
    · simp only []; rw [ha', this]
  · exact List.pairwise_mergeSort
      (fun a b c h1 h2 => by
        simp only [Bool.not_eq_true', decide_eq_false_iff_not] at h1 h2 ⊢; omega)
      (fun a b => by
        simp only [Bool.or_eq_true, Bool.not_eq_true', decide_eq_false_iff_not]; omega) _
  · rw [List.pairwise_map]
    have := List.pairwise_mergeSort (le := fun (a b : Int) => !decide (b > a))
      (fun a b c h1 h2 => by
        simp only [Bool.not_eq_true', decide_eq_false_iff_not] at h1 h2 ⊢; omega)
      (fun a b => by
        simp only [Bool.or_eq_true, Bool.not_eq_true', decide_eq_false_iff_not]; omega)
      (dedup (blocks.map (·.num)))
    exact this
  · refine (List.mergeSort_perm _ _).trans ((hσ _).trans ?_)
    unfold V1.groupingsM
    exact ((List.mergeSort_perm _ _).map _).symm

theorem allBlocks_perm {paos paos' : List V1.PAO} (h : paos.Perm paos') :
    (V1.allBlocks paos).Perm (V1.allBlocks paos') := by
  unfold V1.allBlocks
  induction h with
  | nil => exact List.Perm.refl _
  | cons x _ ih => simp only [List.flatMap_cons]; exact List.Perm.append_left _ ih
  | swap x y l =>
    simp only [List.flatMap_cons]
    rw [← List.append_assoc, ← List.append_assoc]
    exact List.Perm.append_right _ List.perm_append_comm
  | trans _ _ ih1 ih2 => exact ih1.trans ih2

theorem consensusLatestBlock_perm {σ σ' : V1.SchedsLB} (hσ : σ.IsSched) (hσ' : σ'.IsSched) (f : Nat)
    {paos paos' : List V1.PAO} (h : paos.Perm paos') :
    V1.consensusLatestBlock σ paos f = V1.consensusLatestBlock σ' paos' f := by
  unfold V1.consensusLatestBlock
  simp only []
  rw [sorted_groupings_eq hσ.1, sorted_groupings_eq hσ'.1]
  have hb := allBlocks_perm h
  have hkeys : (dedup ((V1.allBlocks paos).map (·.num))).mergeSort (fun a b => !decide (b > a)) =
      (dedup ((V1.allBlocks paos').map (·.num))).mergeSort (fun a b => !decide (b > a)) := by
    apply mergeSort_eq_of_perm _ _ _ _ (dedup_perm (hb.map _))
    · intro a b; simp only [Bool.or_eq_true, Bool.not_eq_true', decide_eq_false_iff_not]; omega
    · intro a b c h1 h2; simp only [Bool.not_eq_true', decide_eq_false_iff_not] at h1 h2 ⊢; omega
    · intro a b h1 h2; simp only [Bool.not_eq_true', decide_eq_false_iff_not] at h1 h2; omega
  rw [hkeys]
  exact pickBlock_congr hσ.2 hσ'.2 f _ _ (fun n => List.Perm.filter _ hb) _

end DSV.Mercury
