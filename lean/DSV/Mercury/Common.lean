import DSV.Go.Basic
import DSV.Go.Bytes
/-!
# `mercury/aggregate_functions.go`, `mercury/validation.go`, `mercury/value.go` — transcription

Conventions
* prices / fees are `*big.Int` → `Int`; `uint32` / `int64` values are `Nat` / `Int` with the
  wrap-around written explicitly (`wrapInt64`, `% 2^32`) exactly where the Go code does fixed-width
  arithmetic that can wrap.
* the exported `GetConsensus*` functions take a slice of interface values and only ever call one
  getter `(value, valid)` on each element, so their model takes the list of `(value, valid)` pairs.
* `sort.Slice(x, less)` → `List.mergeSort` with `le a b := !less b a`.
* `for k, v := range m` over a Go map goes through an explicit schedule argument (`Sched`, an
  arbitrary permutation of the entries); the theorems quantify over it.
* a slice index `x[i]` that Go would panic on is `.panic`.
-/
namespace DSV.Mercury
open DSV

abbrev Bytes := List UInt8

def maxUint32 : Nat := 4294967295
/-- `mercury.MaxInt192 = 1<<191 - 1` -/
def maxInt192 : Int := (2 : Int) ^ 191 - 1
def evmHashLen : Nat := 32

/-- int64 arithmetic result: wrap into `[-2^63, 2^63)` -/
def wrapInt64 (v : Int) : Int := (v + (2 : Int) ^ 63) % (2 : Int) ^ 64 - (2 : Int) ^ 63
/-- Go conversion `uint32(x)` of an int64 -/
def toUint32 (v : Int) : Nat := (v % (2 : Int) ^ 32).toNat

/-- iteration order of one `range` over a Go map: any permutation of its entries -/
abbrev Sched (α : Type) := List α → List α
def IsSched {α : Type} (σ : Sched α) : Prop := ∀ l, (σ l).Perm l

/-- distinct elements of a list (the key set of a map filled from it) -/
def dedup {κ : Type} [DecidableEq κ] : List κ → List κ
  | [] => []
  | a :: l => if a ∈ l then dedup l else a :: dedup l

/-- frequency map `for x in l { m[x]++ }` as an entry list with distinct keys -/
def freq {κ : Type} [DecidableEq κ] (l : List κ) : List (κ × Nat) :=
  (dedup l).map fun k => (k, l.count k)

def leInt (a b : Int) : Bool := decide (a ≤ b)
def leNat (a b : Nat) : Bool := decide (a ≤ b)

/-- `DecodeValueInt192`: 24 bytes big-endian two's complement, error (`none`) on any other length -/
def decodeInt192 (b : Bytes) : Option Int :=
  if b.length = 24 then some (toSigned 192 (fromBE b)) else none

/-! ## medians -/

/-- `GetConsensusTimestamp`: sorts by timestamp and indexes `len/2` (panics on an empty slice) -/
def consensusTimestamp (ts : List Nat) : GoRes Nat :=
  match (ts.mergeSort leNat)[ts.length / 2]? with
  | some t => .ok t
  | none => .panic

/-- values whose getter returned `valid = true` -/
def validVals {α : Type} (vs : List (α × Bool)) : List α :=
  vs.filterMap fun p => if p.2 then some p.1 else none

/-- `sort.Slice(x, Cmp < 0); x[len(x)/2]` -/
def medianInt (xs : List Int) : GoRes Int :=
  match (xs.mergeSort leInt)[xs.length / 2]? with
  | some v => .ok v
  | none => .panic

/-- common body of `GetConsensusBenchmarkPrice`, `GetConsensusBid`, `GetConsensusAsk` -/
def consensusPrice (vs : List (Int × Bool)) (f : Nat) : GoRes Int :=
  let valid := validVals vs
  if valid.length < f + 1 then .err "too-few" else medianInt valid

def consensusBenchmarkPrice := consensusPrice
def consensusBid := consensusPrice
def consensusAsk := consensusPrice

/-- fees that are valid and `fee.Sign() >= 0` -/
def validFees (vs : List (Int × Bool)) : List Int :=
  vs.filterMap fun p => if p.2 && decide (0 ≤ p.1) then some p.1 else none

/-- common body of `GetConsensusLinkFee`, `GetConsensusNativeFee` -/
def consensusFee (vs : List (Int × Bool)) (f : Nat) : GoRes Int :=
  let valid := validFees vs
  if valid.length < f + 1 then .err "too-few" else medianInt valid

def consensusLinkFee := consensusFee
def consensusNativeFee := consensusFee

/-! ## f+1 agreement on the max finalized timestamp -/

/-- loop body `if cnt > f && ts > maxTs { maxTs = ts }` -/
def mftStep (f : Nat) (m : Int) (e : Int × Nat) : Int :=
  if e.2 > f && decide (e.1 > m) then e.1 else m

/-- `GetConsensusMaxFinalizedTimestamp` -/
def consensusMaxFinalizedTimestamp (σ : Sched (Int × Nat)) (vs : List (Int × Bool)) (f : Nat) :
    GoRes Int :=
  let valid := validVals vs
  if valid.length < f + 1 then .err "too-few"
  else
    let maxTs := (σ (freq valid)).foldl (mftStep f) (-2)
    if maxTs < -1 then .err "no-agreement" else .ok maxTs

/-! ## validation.go — each function returns `true` when the Go function returns `nil` -/

/-- `ValidateBetween` (`answer == nil` is an error) -/
def validateBetween (answer : Option Int) (min max : Int) : Bool :=
  match answer with
  | none => false
  | some a => decide (min ≤ a) && decide (a ≤ max)

/-- `ValidateFee` -/
def validateFee (answer : Option Int) : Bool := validateBetween answer 0 maxInt192

/-- `ValidateValidFromTimestamp` -/
def validateValidFromTimestamp (obsTs validFrom : Nat) : Bool := !decide (obsTs < validFrom)

/-- `ValidateExpiresAt` -/
def validateExpiresAt (obsTs expiresAt : Nat) : Bool := !decide (obsTs > expiresAt)

/-! ## plugin configuration and the report codec (a parameter) -/

/-- what `NewMercuryPlugin` decodes from the on-chain / off-chain configuration -/
structure Cfg where
  f : Nat
  min : Int
  max : Int
  /-- `OffchainConfig.ExpirationWindow` (uint32) -/
  window : Nat
  deriving Repr, DecidableEq

/-- `NewMercuryPlugin` fails when the on-chain config does not decode (`min > max`, values outside
    int256) or the off-chain JSON does not fit its types -/
def Cfg.valid (c : Cfg) : Bool :=
  decide (c.min ≤ c.max) && decide (-(2 : Int) ^ 255 ≤ c.min) && decide (c.max < (2 : Int) ^ 255) &&
    decide (c.window ≤ maxUint32)

/-- the injected `ReportCodec`: `BuildReport`, `ObservationTimestampFromReport` (v2–v4) resp.
    `CurrentBlockNumFromReport` (v1), `MaxReportLength` (evaluated once by the factory) -/
structure Codec (RF : Type) where
  build : RF → GoRes Bytes
  prevEnd : Bytes → GoRes Int
  maxLen : Nat

/-- error class of a joined error: the (canonically ordered) list of components that failed -/
def errClass (stage : String) (tags : List String) : String := stage ++ ":" ++ ",".intercalate tags

/-- one failed component -/
def tagIf (b : Bool) (t : String) : List String := if b then [t] else []

/-- lexicographic `<` on byte strings (Go string comparison) -/
def bytesLt : Bytes → Bytes → Bool
  | [], [] => false
  | [], _ :: _ => true
  | _ :: _, [] => false
  | a :: as, b :: bs => a < b || (a == b && bytesLt as bs)

/-! ## code that is textually identical in `v2/mercury.go`, `v3/mercury.go`, `v4/mercury.go`
(the extracted comparison lists of the three `buildReportFields` are checked to be equal in
`FactsOK/C07.lean`) -/

/-- the `ValidFromTimestamp` part of `buildReportFields`: value and "an error was joined".
    `prev = some r`  : `previousReport != nil`, `r` the bytes;
    `mft`            : result of `GetConsensusMaxFinalizedTimestamp` (only evaluated when `prev = none`) -/
def validFromTs (codec : Bytes → GoRes Int) (prev : Option Bytes) (ts : Nat) (mft : GoRes Int) :
    GoRes (Nat × Bool) :=
  match prev with
  | some r =>
    match codec r with
    | .ok t =>
      if t = maxUint32 then .ok (0, true)          -- "previous observation timestamp is too large"
      else .ok (toUint32 (t + 1), false)             -- `maxFinalizedTimestamp + 1` in uint32
    | .err _ => .ok (0, true)
    | .panic => .panic
  | none =>
    match mft with
    | .ok m =>
      if m < 0 then .ok (ts, false)
      else if m ≥ maxUint32 then .ok (0, true)       -- "maxFinalizedTimestamp is too large" (no int64 overflow)
      else .ok (toUint32 (m + 1), false)
    | .err _ => .ok (0, true)
    | .panic => .panic

/-- the `ExpiresAt` part: `int64(ts) + int64(window) > MaxUint32` is an error, else `ts + window` -/
def expiresAtOf (ts window : Nat) : Nat × Bool :=
  if ts + window > maxUint32 then (0, true) else ((ts + window) % 2 ^ 32, false)

/-- "Cannot come to consensus on … fee, falling back to 0" -/
def feeOrZero (r : GoRes Int) : GoRes Int :=
  match r with
  | .ok v => .ok v
  | .err _ => .ok 0
  | .panic => .panic

/-- a consensus price or a joined error (`rf.X` stays nil) -/
def priceOrErr (r : GoRes Int) : GoRes (Option Int × Bool) :=
  match r with
  | .ok v => .ok (some v, false)
  | .err _ => .ok (none, true)
  | .panic => .panic

/-- `len(report) <= maxReportLength`, `len(report) == 0` checks at the end of `Report` -/
def checkLen {RF : Type} (maxLen : Nat) (rf : RF) (report : Bytes) : GoRes (Option (RF × Bytes)) :=
  if !decide (report.length ≤ maxLen) then .err "too-long"
  else if report.length = 0 then .err "zero-length"
  else .ok (some (rf, report))

/-- the body of `reportingPlugin.Report` after parsing — textually the same in the four versions
    (facts `mercury_vN_Report_cmps`, `mercury_vN_Report_calls`): observation count checks,
    `buildReportFields`, the overlap test, `validateReport`, `BuildReport`, the length checks.
    `ok none` = `(false, nil, nil)`; `ok (some (rf, b))` = `(true, b, nil)` with `rf` the fields
    handed to `BuildReport`. -/
def reportCore {RF : Type} (f nPaos : Nat) (built : GoRes (RF × List String)) (overlap : RF → Bool)
    (validate : RF → List String) (codec : Codec RF) : GoRes (Option (RF × Bytes)) :=
  if nPaos = 0 then .err "zero-valid"
  else if !decide (f + 1 ≤ nPaos) then .err "too-few"
  else
    match built with
    | .panic => .panic
    | .err e => .err e
    | .ok (rf, errs) =>
      if !errs.isEmpty then .err (errClass "build" errs)
      else if overlap rf then .ok none
      else
        let verrs := validate rf
        if !verrs.isEmpty then .err (errClass "validate" verrs)
        else
          match codec.build rf with
          | .panic => .panic
          | .err e => .err e
          | .ok b => checkLen codec.maxLen rf b

end DSV.Mercury
