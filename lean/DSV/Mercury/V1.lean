import DSV.Mercury.Common
/-!
# `mercury/v1/mercury.go`, `mercury/v1/observation.go`, `mercury/v1/aggregate_functions.go`,
# `mercury/v1/validation.go`
-/
namespace DSV.Mercury.V1
open DSV DSV.Mercury

/-- chainlink-common `v1.Block` (`Hash` is a Go string holding raw bytes) -/
structure Block where
  num : Int
  hash : Bytes
  ts : Nat
  deriving Repr, DecidableEq

/-- `Block.Less`: smaller number, then smaller timestamp, then LARGER hash -/
def Block.less (b b2 : Block) : Bool :=
  if b.num = b2.num ∧ b.ts = b2.ts then bytesLt b2.hash b.hash
  else if b.num = b2.num then decide (b.ts < b2.ts)
  else decide (b.num < b2.num)

/-- `sort.Slice(x, func(i,j) { return x[j].Less(x[i]) })`: descending; `le a b := !less' b a`
    with `less' a b := b.Less(a)` -/
def sortDesc (l : List Block) : List Block := l.mergeSort fun a b => !(a.less b)

/-- decoded `MercuryObservationProto` -/
structure Obs where
  ts : Nat
  bp : Option Int
  bid : Option Int
  ask : Option Int
  pricesValid : Bool
  curNum : Int
  curHash : Bytes
  curTs : Nat
  curValid : Bool
  mfbn : Int
  mfbnValid : Bool
  latestBlocks : List Block
  deriving Repr, DecidableEq

structure PAO where
  ts : Nat
  bp : Int := 0
  bid : Int := 0
  ask : Int := 0
  pricesValid : Bool := false
  curNum : Int := 0
  curHash : Bytes := []
  curTs : Nat := 0
  curValid : Bool := false
  latestBlocks : List Block := []
  mfbn : Int := 0
  mfbnValid : Bool := false
  deriving Repr, DecidableEq

def maxAllowedBlocks : Nat := 10

/-- the inner loop over `pao.LatestBlocks` with the `nums` / `hashes` sets; `true` = no error -/
def checkBlocks : List Block → List Int → List Bytes → Bool
  | [], _, _ => true
  | b :: rest, nums, hashes =>
    if b.num ∈ nums then false
    else if b.hash ∈ hashes then false
    else if b.hash.length ≠ evmHashLen then false
    else if b.num < 0 then false
    else checkBlocks rest (b.num :: nums) (b.hash :: hashes)

/-- one iteration of `for _, b := range obs.LatestBlocks`: append, check everything seen so far,
    stable sort descending (`none` = return error) -/
def blocksStep (acc : Option (List Block)) (b : Block) : Option (List Block) :=
  acc.bind fun cur =>
    let cur' := cur ++ [b]
    if checkBlocks cur' [] [] then some (sortDesc cur') else none

/-- the `if obs.PricesValid` part of `parseAttributedObservation` (`none` = return error) -/
def parsePrices (o : Obs) (p : PAO) : Option PAO :=
  if o.pricesValid then
    match o.bp, o.bid, o.ask with
    | some bp, some bid, some ask => some { p with bp, bid, ask, pricesValid := true }
    | _, _, _ => none
  else some p

/-- the `LatestBlocks` / deprecated current-block part -/
def parseBlocks (o : Obs) (p : PAO) : Option PAO :=
  if o.latestBlocks.length > 0 then
    if o.latestBlocks.length > maxAllowedBlocks then none
    else (o.latestBlocks.foldl blocksStep (some [])).map fun bs => { p with latestBlocks := bs }
  else if o.curValid then
    if o.curHash.length ≠ evmHashLen then none
    else if o.curNum < 0 then none
    else some { p with curHash := o.curHash, curNum := o.curNum, curTs := o.curTs, curValid := true }
  else some p

def parseMfbn (o : Obs) (p : PAO) : PAO :=
  if o.mfbnValid then { p with mfbn := o.mfbn, mfbnValid := true } else p

/-- `parseAttributedObservation` after `proto.Unmarshal` succeeded (`none` = error, dropped) -/
def parse (o : Obs) : Option PAO :=
  (parsePrices o { ts := o.ts }).bind fun p => (parseBlocks o p).bind fun p => some (parseMfbn o p)

def parseAll (aos : List (Option Obs)) : List PAO := aos.filterMap fun o => o.bind parse

/-- blocks one observation contributes to `groupingsM` -/
def PAO.blocks (p : PAO) : List Block :=
  if p.latestBlocks.length > 0 then p.latestBlocks
  else if p.curValid then [⟨p.curNum, p.curHash, p.curTs⟩]
  else []

/-- all blocks appended to `groupingsM`, in append order -/
def allBlocks (paos : List PAO) : List Block := paos.flatMap PAO.blocks

/-- `maxCnt` after `for _, x := range xs { m[x]++; if m[x] > maxCnt { maxCnt = m[x] } }`
    (the running maximum of running counts is the maximum of the final counts) -/
def maxCount {κ : Type} [DecidableEq κ] (xs : List κ) : Nat := xs.foldl (fun a x => max a (xs.count x)) 0

/-- the loop `for _, blocks := range groupings` of `GetConsensusLatestBlock` -/
def pickBlock (σm : Sched (Block × Nat)) (f : Nat) : List (Int × List Block) → GoRes (Bytes × Int × Nat)
  | [] => .err "no-consensus"
  | g :: rest =>
    let maxCnt := maxCount g.2
    if maxCnt ≥ f + 1 then
      let usable := (σm (freq g.2)).filterMap fun e => if e.2 == maxCnt then some e.1 else none
      match (sortDesc usable)[0]? with
      | some b => .ok (b.hash, b.num, b.ts)
      | none => .panic
    else pickBlock σm f rest

structure SchedsLB where
  groups : Sched (Int × List Block) := id
  counts : Sched (Block × Nat) := id

def SchedsLB.IsSched (σ : SchedsLB) : Prop := Mercury.IsSched σ.groups ∧ Mercury.IsSched σ.counts

/-- `groupingsM`: block number ↦ blocks with that number in append order.  Go sorts the slice of
    groups by `groupings[i][0].Num`; every group is non-empty and all its blocks carry the key, so
    the model sorts the `(key, group)` entries by key. -/
def groupingsM (blocks : List Block) : List (Int × List Block) :=
  (dedup (blocks.map (·.num))).map fun n => (n, blocks.filter fun b => b.num = n)

/-- `GetConsensusLatestBlock` -/
def consensusLatestBlock (σ : SchedsLB) (paos : List PAO) (f : Nat) : GoRes (Bytes × Int × Nat) :=
  let groupings := (σ.groups (groupingsM (allBlocks paos))).mergeSort fun a b => !decide (b.1 > a.1)
  pickBlock σ.counts f groupings

/-- `GetConsensusMaxFinalizedBlockNum` -/
def consensusMaxFinalizedBlockNum (σ : Sched (Int × Nat)) (vs : List (Int × Bool)) (f : Nat) : GoRes Int :=
  let valid := validVals vs
  if valid.length < f + 1 then .err "too-few"
  else
    let maxCnt := maxCount valid
    let nums := (σ (freq valid)).filterMap fun e => if e.2 == maxCnt then some e.1 else none
    if maxCnt < f + 1 then .err "no-agreement"
    else
      match (nums.mergeSort leInt)[0]? with
      | some n => .ok n
      | none => .panic

structure RF where
  ts : Nat
  bp : Option Int
  bid : Option Int
  ask : Option Int
  curNum : Int
  curHash : Bytes
  validFrom : Int
  curTs : Nat
  deriving Repr, DecidableEq

structure Scheds where
  mfbn : Sched (Int × Nat) := id
  lb : SchedsLB := {}

def Scheds.IsSched (σ : Scheds) : Prop := Mercury.IsSched σ.mfbn ∧ σ.lb.IsSched

/-- the `ValidFromBlockNum` part of `buildReportFields`: `maxFinalizedBlockNumber + 1` in int64.
    `mfbn` is only evaluated when there is no previous report. -/
def validFromBlock (codec : Bytes → GoRes Int) (prev : Option Bytes) (mfbn : GoRes Int) : GoRes (Int × Bool) :=
  match prev with
  | some r =>
    match codec r with
    | .ok m => .ok (wrapInt64 (m + 1), false)
    | .err _ => .ok (0, true)
    | .panic => .panic
  | none =>
    match mfbn with
    | .ok m => .ok (wrapInt64 (m + 1), false)
    | .err _ => .ok (0, true)
    | .panic => .panic

/-- the consensus block or a joined error -/
def blockOrErr (r : GoRes (Bytes × Int × Nat)) : GoRes ((Bytes × Int × Nat) × Bool) :=
  match r with
  | .ok b => .ok (b, false)
  | .err _ => .ok (([], 0, 0), true)
  | .panic => .panic

/-- `buildReportFields` -/
def buildReportFields (cfg : Cfg) (codec : Codec RF) (σ : Scheds) (prev : Option Bytes)
    (paos : List PAO) : GoRes (RF × List String) :=
  (validFromBlock codec.prevEnd prev
    (consensusMaxFinalizedBlockNum σ.mfbn (paos.map fun p => (p.mfbn, p.mfbnValid)) cfg.f)).bind fun vf =>
  (consensusTimestamp (paos.map (·.ts))).bind fun ts =>
  (priceOrErr (consensusBenchmarkPrice (paos.map fun p => (p.bp, p.pricesValid)) cfg.f)).bind fun bp =>
  (priceOrErr (consensusBid (paos.map fun p => (p.bid, p.pricesValid)) cfg.f)).bind fun bid =>
  (priceOrErr (consensusAsk (paos.map fun p => (p.ask, p.pricesValid)) cfg.f)).bind fun ask =>
  (blockOrErr (consensusLatestBlock σ.lb paos cfg.f)).bind fun blk =>
  .ok ({ ts, bp := bp.1, bid := bid.1, ask := ask.1, curNum := blk.1.2.1, curHash := blk.1.1,
         validFrom := vf.1, curTs := blk.1.2.2 },
       tagIf vf.2 "vf" ++ tagIf bp.2 "bp" ++ tagIf bid.2 "bid" ++ tagIf ask.2 "ask" ++ tagIf blk.2 "blk")

/-- `ValidateCurrentBlock` (`true` = nil) -/
def validateCurrentBlock (rf : RF) : Bool :=
  if rf.validFrom < 0 then false
  else if rf.curNum < 0 then false
  else if rf.validFrom > rf.curNum then false
  else if rf.curHash.length ≠ evmHashLen then false
  else true

def validateReport (cfg : Cfg) (rf : RF) : List String :=
  tagIf (!validateBetween rf.bp cfg.min cfg.max) "bp" ++
  tagIf (!validateBetween rf.bid cfg.min cfg.max) "bid" ++
  tagIf (!validateBetween rf.ask cfg.min cfg.max) "ask" ++
  tagIf (!validateCurrentBlock rf) "blk"

def report (cfg : Cfg) (codec : Codec RF) (σ : Scheds) (prev : Option Bytes)
    (aos : List (Option Obs)) : GoRes (Option (RF × Bytes)) :=
  let paos := parseAll aos
  reportCore cfg.f paos.length (buildReportFields cfg codec σ prev paos)
    (fun rf => decide (rf.curNum < rf.validFrom)) (validateReport cfg) codec

end DSV.Mercury.V1
