import DSV.Mercury.Common
/-!
# `mercury/v2/mercury.go`, `mercury/v2/observation.go` — `Report` and its callees
-/
namespace DSV.Mercury.V2
open DSV DSV.Mercury

/-- decoded `MercuryObservationProto`; the int192 byte fields are given as the result of
    `DecodeValueInt192` (`none` = wrong length) -/
structure Obs where
  ts : Nat
  bp : Option Int
  pricesValid : Bool
  mft : Int
  mftValid : Bool
  linkFee : Option Int
  linkFeeValid : Bool
  nativeFee : Option Int
  nativeFeeValid : Bool
  deriving Repr, DecidableEq

/-- `parsedAttributedObservation` (nil `*big.Int` of an invalid field is 0 here; it is never read) -/
structure PAO where
  ts : Nat
  bp : Int := 0
  pricesValid : Bool := false
  mft : Int := 0
  mftValid : Bool := false
  linkFee : Int := 0
  linkFeeValid : Bool := false
  nativeFee : Int := 0
  nativeFeeValid : Bool := false
  deriving Repr, DecidableEq

def parsePrices (o : Obs) (p : PAO) : Option PAO :=
  if o.pricesValid then o.bp.map fun v => { p with bp := v, pricesValid := true } else some p

def parseMft (mft : Int) (mftValid : Bool) (p : PAO) : PAO :=
  if mftValid then { p with mft := mft, mftValid := true } else p

def parseLink (fee : Option Int) (valid : Bool) (p : PAO) : Option PAO :=
  if valid then fee.map fun v => { p with linkFee := v, linkFeeValid := true } else some p

def parseNative (fee : Option Int) (valid : Bool) (p : PAO) : Option PAO :=
  if valid then fee.map fun v => { p with nativeFee := v, nativeFeeValid := true } else some p

/-- `parseAttributedObservation` after `proto.Unmarshal` succeeded (`none` = error, dropped) -/
def parse (o : Obs) : Option PAO :=
  (parsePrices o { ts := o.ts }).bind fun p =>
  (parseLink o.linkFee o.linkFeeValid (parseMft o.mft o.mftValid p)).bind fun p =>
  parseNative o.nativeFee o.nativeFeeValid p

/-- `parseAttributedObservations`; `none` entries are observations `proto.Unmarshal` rejected -/
def parseAll (aos : List (Option Obs)) : List PAO := aos.filterMap fun o => o.bind parse

/-- `GetMaxFinalizedTimestamp` (v2 has no `< -1` filter) -/
def PAO.getMFT (p : PAO) : Int × Bool := (p.mft, p.mftValid)

structure RF where
  validFrom : Nat
  ts : Nat
  nativeFee : Int
  linkFee : Int
  expiresAt : Nat
  bp : Option Int
  deriving Repr, DecidableEq

/-- `buildReportFields`: the fields and the list of joined errors -/
def buildReportFields (cfg : Cfg) (codec : Codec RF) (σ : Sched (Int × Nat)) (prev : Option Bytes)
    (paos : List PAO) : GoRes (RF × List String) :=
  (consensusTimestamp (paos.map (·.ts))).bind fun ts =>
  (validFromTs codec.prevEnd prev ts
    (consensusMaxFinalizedTimestamp σ (paos.map PAO.getMFT) cfg.f)).bind fun vf =>
  (priceOrErr (consensusBenchmarkPrice (paos.map fun p => (p.bp, p.pricesValid)) cfg.f)).bind fun bp =>
  (feeOrZero (consensusLinkFee (paos.map fun p => (p.linkFee, p.linkFeeValid)) cfg.f)).bind fun linkFee =>
  (feeOrZero (consensusNativeFee (paos.map fun p => (p.nativeFee, p.nativeFeeValid)) cfg.f)).bind fun nativeFee =>
  .ok ({ validFrom := vf.1, ts, nativeFee, linkFee, expiresAt := (expiresAtOf ts cfg.window).1, bp := bp.1 },
       tagIf vf.2 "vf" ++ tagIf bp.2 "bp" ++ tagIf (expiresAtOf ts cfg.window).2 "exp")

/-- `validateReport`: the list of failed checks -/
def validateReport (cfg : Cfg) (rf : RF) : List String :=
  tagIf (!validateBetween rf.bp cfg.min cfg.max) "bp" ++
  tagIf (!validateFee (some rf.linkFee)) "link" ++
  tagIf (!validateFee (some rf.nativeFee)) "native" ++
  tagIf (!validateValidFromTimestamp rf.ts rf.validFrom) "vf" ++
  tagIf (!validateExpiresAt rf.ts rf.expiresAt) "exp"

/-- `reportingPlugin.Report`; `ok none` = `(false, nil, nil)`, `ok (some (rf, b))` = `(true, b, nil)`
    where `rf` are the fields passed to `BuildReport` -/
def report (cfg : Cfg) (codec : Codec RF) (σ : Sched (Int × Nat)) (prev : Option Bytes)
    (aos : List (Option Obs)) : GoRes (Option (RF × Bytes)) :=
  let paos := parseAll aos
  reportCore cfg.f paos.length (buildReportFields cfg codec σ prev paos)
    (fun rf => decide (rf.ts < rf.validFrom)) (validateReport cfg) codec

end DSV.Mercury.V2
