import DSV.Props.C08
/-!
# Map-iteration-order independence of the Mercury `buildReportFields` (helper lemmas for C01)

Every `for … range m` over a Go map in the Mercury consensus code goes through a `Sched`
argument of the model.  The selectors were shown invariant under permutations of their input and
of the schedule in `Props/C08.lean` (`*_perm`); here the schedule alone varies.
-/
namespace DSV.Mercury
open DSV

theorem mft_sched_indep {σ σ' : Sched (Int × Nat)} (hσ : IsSched σ) (hσ' : IsSched σ')
    (vs : List (Int × Bool)) (f : Nat) :
    consensusMaxFinalizedTimestamp σ vs f = consensusMaxFinalizedTimestamp σ' vs f :=
  Props.C08.max_finalized_ts_perm σ σ' hσ hσ' f vs vs (List.Perm.refl _)

theorem mfbn_sched_indep {σ σ' : Sched (Int × Nat)} (hσ : IsSched σ) (hσ' : IsSched σ')
    (vs : List (Int × Bool)) (f : Nat) :
    V1.consensusMaxFinalizedBlockNum σ vs f = V1.consensusMaxFinalizedBlockNum σ' vs f :=
  Props.C08.max_finalized_blocknum_perm σ σ' hσ hσ' f vs vs (List.Perm.refl _)

theorem ms_sched_indep {σ σ' : Sched (Nat × Nat)} (hσ : IsSched σ) (hσ' : IsSched σ')
    (vs : List (Nat × Bool)) (f : Nat) :
    V4.consensusMarketStatus σ vs f = V4.consensusMarketStatus σ' vs f :=
  Props.C08.market_status_perm σ σ' hσ hσ' f vs vs (List.Perm.refl _)

theorem lb_sched_indep {σ σ' : V1.SchedsLB} (hσ : σ.IsSched) (hσ' : σ'.IsSched)
    (paos : List V1.PAO) (f : Nat) :
    V1.consensusLatestBlock σ paos f = V1.consensusLatestBlock σ' paos f :=
  consensusLatestBlock_perm hσ hσ' f (List.Perm.refl _)

theorem V1.build_sched_indep (cfg : Cfg) (codec : Codec V1.RF) {σ σ' : V1.Scheds} (hσ : σ.IsSched)
    (hσ' : σ'.IsSched) (prev : Option Bytes) (paos : List V1.PAO) :
    V1.buildReportFields cfg codec σ prev paos = V1.buildReportFields cfg codec σ' prev paos := by
  unfold V1.buildReportFields
  rw [mfbn_sched_indep hσ.1 hσ'.1, lb_sched_indep hσ.2 hσ'.2]

theorem V2.build_sched_indep (cfg : Cfg) (codec : Codec V2.RF) {σ σ' : Sched (Int × Nat)} (hσ : IsSched σ)
    (hσ' : IsSched σ') (prev : Option Bytes) (paos : List V2.PAO) :
    V2.buildReportFields cfg codec σ prev paos = V2.buildReportFields cfg codec σ' prev paos := by
  unfold V2.buildReportFields
  rw [mft_sched_indep hσ hσ']

theorem V3.build_sched_indep (cfg : Cfg) (codec : Codec V3.RF) {σ σ' : Sched (Int × Nat)} (hσ : IsSched σ)
    (hσ' : IsSched σ') (prev : Option Bytes) (paos : List V3.PAO) :
    V3.buildReportFields cfg codec σ prev paos = V3.buildReportFields cfg codec σ' prev paos := by
  unfold V3.buildReportFields
  rw [mft_sched_indep hσ hσ']

theorem V4.build_sched_indep (cfg : Cfg) (codec : Codec V4.RF) {σ σ' : V4.Scheds} (hσ : σ.IsSched)
    (hσ' : σ'.IsSched) (prev : Option Bytes) (paos : List V4.PAO) :
    V4.buildReportFields cfg codec σ prev paos = V4.buildReportFields cfg codec σ' prev paos := by
  unfold V4.buildReportFields
  rw [mft_sched_indep hσ.1 hσ'.1, ms_sched_indep hσ.2 hσ'.2]

/-- reversing the entries is a schedule (used for the non-vacuity example) -/
theorem isSched_reverse {α : Type} : IsSched (fun l : List α => l.reverse) :=
  fun l => List.reverse_perm l

theorem isSched_id {α : Type} : IsSched (id : Sched α) := fun l => List.Perm.refl l

end DSV.Mercury
