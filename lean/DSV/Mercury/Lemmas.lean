import DSV.Mercury.Common
import DSV.Lemmas.Rank
/-!
# Helper lemmas for the Mercury properties (C07, C08, C09)
-/
namespace DSV.Mercury
open DSV

/-! ## order on `Int` / `Nat` as a Bool relation -/

theorem leInt_total : Rank.Total leInt := by
  intro a b; simp only [leInt, decide_eq_true_eq]; omega
theorem leInt_trans : Rank.Trans leInt := by
  intro a b c; simp only [leInt, decide_eq_true_eq]; omega
theorem leNat_total : Rank.Total leNat := by
  intro a b; simp only [leNat, decide_eq_true_eq]; omega
theorem leNat_trans : Rank.Trans leNat := by
  intro a b c; simp only [leNat, decide_eq_true_eq]; omega

theorem sorted_mergeSort_int (l : List Int) : (l.mergeSort leInt).Pairwise (fun a b => leInt a b = true) :=
  List.pairwise_mergeSort (fun a b c => leInt_trans a b c)
    (fun a b => by have := leInt_total a b; simpa [Bool.or_eq_true] using this) l

theorem sorted_mergeSort_nat (l : List Nat) : (l.mergeSort leNat).Pairwise (fun a b => leNat a b = true) :=
  List.pairwise_mergeSort (fun a b c => leNat_trans a b c)
    (fun a b => by have := leNat_total a b; simpa [Bool.or_eq_true] using this) l

/-- two sorted permutations of integer lists are equal -/
theorem mergeSort_int_perm {l l' : List Int} (h : l.Perm l') : l.mergeSort leInt = l'.mergeSort leInt := by
  apply List.Perm.eq_of_pairwise (le := fun a b => leInt a b = true)
  · intro a b _ _ h1 h2; simp only [leInt, decide_eq_true_eq] at h1 h2; omega
  · exact sorted_mergeSort_int l
  · exact sorted_mergeSort_int l'
  · exact (List.mergeSort_perm l _).trans (h.trans (List.mergeSort_perm l' _).symm)

theorem mergeSort_nat_perm {l l' : List Nat} (h : l.Perm l') : l.mergeSort leNat = l'.mergeSort leNat := by
  apply List.Perm.eq_of_pairwise (le := fun a b => leNat a b = true)
  · intro a b _ _ h1 h2; simp only [leNat, decide_eq_true_eq] at h1 h2; omega
  · exact sorted_mergeSort_nat l
  · exact sorted_mergeSort_nat l'
  · exact (List.mergeSort_perm l _).trans (h.trans (List.mergeSort_perm l' _).symm)

/-! ## medians -/

theorem medianInt_perm {l l' : List Int} (h : l.Perm l') : medianInt l = medianInt l' := by
  unfold medianInt; rw [mergeSort_int_perm h, h.length_eq]

theorem medianInt_ok_of_ne_nil {l : List Int} (h : 0 < l.length) : ∃ v, medianInt l = .ok v := by
  unfold medianInt
  have hk : l.length / 2 < (l.mergeSort leInt).length := by rw [List.length_mergeSort]; omega
  rw [List.getElem?_eq_getElem hk]; exact ⟨_, rfl⟩

theorem medianInt_mem {l : List Int} {v : Int} (h : medianInt l = .ok v) : v ∈ l := by
  unfold medianInt at h
  split at h
  · rename_i t ht; cases h
    exact List.mem_mergeSort.mp (List.mem_of_getElem? ht)
  · cases h

/-- the rank-`len/2` element of the sorted valid values lies between two honest values as soon as
    honest values outnumber the others -/
theorem medianInt_in_honest_range {l hs bs : List Int} {v : Int} (hperm : l.Perm (hs ++ bs))
    (hmaj : bs.length < hs.length) (h : medianInt l = .ok v) :
    ∃ lo ∈ hs, ∃ hi ∈ hs, lo ≤ v ∧ v ≤ hi := by
  unfold medianInt at h
  split at h
  · rename_i t ht; cases h
    have hlen : (l.mergeSort leInt).length = l.length := List.length_mergeSort l
    have hk : (l.mergeSort leInt).length / 2 < (l.mergeSort leInt).length := by
      rw [hlen]
      have := (List.getElem?_eq_some_iff.mp ht).1
      rw [hlen] at this; exact this
    have key := Rank.median_in_honest_range leInt leInt_total leInt_trans (l.mergeSort leInt) hs bs
      ((List.mergeSort_perm l _).trans hperm) (sorted_mergeSort_int l) hmaj hk
    have hv : (l.mergeSort leInt)[(l.mergeSort leInt).length / 2] = v := by
      have h2 := (List.getElem?_eq_some_iff.mp ht).2
      simp only [hlen]; exact h2
    obtain ⟨⟨lo, hlo, h1⟩, ⟨hi, hhi, h2⟩⟩ := key
    rw [hv] at h1 h2
    simp only [leInt, decide_eq_true_eq] at h1 h2
    exact ⟨lo, hlo, hi, hhi, h1, h2⟩
  · cases h

theorem consensusTimestamp_perm {l l' : List Nat} (h : l.Perm l') :
    consensusTimestamp l = consensusTimestamp l' := by
  unfold consensusTimestamp; rw [mergeSort_nat_perm h, h.length_eq]

theorem consensusTimestamp_ok {l : List Nat} (h : 0 < l.length) : ∃ t, consensusTimestamp l = .ok t := by
  unfold consensusTimestamp
  have hk : l.length / 2 < (l.mergeSort leNat).length := by rw [List.length_mergeSort]; omega
  rw [List.getElem?_eq_getElem hk]; exact ⟨_, rfl⟩

theorem consensusTimestamp_in_honest_range {l hs bs : List Nat} {t : Nat} (hperm : l.Perm (hs ++ bs))
    (hmaj : bs.length < hs.length) (h : consensusTimestamp l = .ok t) :
    ∃ lo ∈ hs, ∃ hi ∈ hs, lo ≤ t ∧ t ≤ hi := by
  unfold consensusTimestamp at h
  split at h
  · rename_i v ht; cases h
    have hlen : (l.mergeSort leNat).length = l.length := List.length_mergeSort l
    have hk : (l.mergeSort leNat).length / 2 < (l.mergeSort leNat).length := by
      rw [hlen]
      have := (List.getElem?_eq_some_iff.mp ht).1
      rw [hlen] at this; exact this
    have key := Rank.median_in_honest_range leNat leNat_total leNat_trans (l.mergeSort leNat) hs bs
      ((List.mergeSort_perm l _).trans hperm) (sorted_mergeSort_nat l) hmaj hk
    have hv : (l.mergeSort leNat)[(l.mergeSort leNat).length / 2] = t := by
      have h2 := (List.getElem?_eq_some_iff.mp ht).2
      simp only [hlen]; exact h2
    obtain ⟨⟨lo, hlo, h1⟩, ⟨hi, hhi, h2⟩⟩ := key
    rw [hv] at h1 h2
    simp only [leNat, decide_eq_true_eq] at h1 h2
    exact ⟨lo, hlo, hi, hhi, h1, h2⟩
  · cases h

theorem consensusPrice_eq (vs : List (Int × Bool)) (f : Nat) : consensusPrice vs f =
    if (validVals vs).length < f + 1 then .err "too-few" else medianInt (validVals vs) := rfl
theorem consensusFee_eq (vs : List (Int × Bool)) (f : Nat) : consensusFee vs f =
    if (validFees vs).length < f + 1 then .err "too-few" else medianInt (validFees vs) := rfl

theorem validVals_append {α : Type} (a b : List (α × Bool)) : validVals (a ++ b) = validVals a ++ validVals b := by
  simp [validVals, List.filterMap_append]
theorem validFees_append (a b : List (Int × Bool)) : validFees (a ++ b) = validFees a ++ validFees b := by
  simp [validFees, List.filterMap_append]
theorem validVals_perm {α : Type} {a b : List (α × Bool)} (h : a.Perm b) : (validVals a).Perm (validVals b) :=
  List.Perm.filterMap _ h
theorem validFees_perm {a b : List (Int × Bool)} (h : a.Perm b) : (validFees a).Perm (validFees b) :=
  List.Perm.filterMap _ h

theorem mem_validVals {α : Type} {vs : List (α × Bool)} {x : α} : x ∈ validVals vs ↔ (x, true) ∈ vs := by
  simp only [validVals, List.mem_filterMap]
  constructor
  · rintro ⟨⟨a, b⟩, hm, h⟩
    cases b <;> simp at h
    subst h; exact hm
  · intro h; exact ⟨(x, true), h, by simp⟩

theorem mem_validFees {vs : List (Int × Bool)} {x : Int} : x ∈ validFees vs ↔ (x, true) ∈ vs ∧ 0 ≤ x := by
  simp only [validFees, List.mem_filterMap]
  constructor
  · rintro ⟨⟨a, b⟩, hm, h⟩
    cases b <;> simp at h
    obtain ⟨h0, rfl⟩ := h
    exact ⟨hm, h0⟩
  · rintro ⟨h, h0⟩; exact ⟨(x, true), h, by simp [h0]⟩

end DSV.Mercury
