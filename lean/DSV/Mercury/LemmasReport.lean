import DSV.Mercury.LemmasSel
import DSV.Mercury.V2
import DSV.Mercury.V3
import DSV.Mercury.History
import DSV.Mercury.V1
import DSV.Mercury.V4
/-!
# Decomposition lemmas for `Report` / `buildReportFields` / `validateReport`
-/
namespace DSV.Mercury
open DSV

theorem GoRes.bind_eq_ok {α β : Type} {x : GoRes α} {f : α → GoRes β} {b : β} :
    x.bind f = .ok b ↔ ∃ a, x = .ok a ∧ f a = .ok b := by
  cases x <;> simp [GoRes.bind]

theorem tagIf_nil {b : Bool} {t : String} : tagIf b t = [] ↔ b = false := by
  cases b <;> simp [tagIf]

theorem checkLen_some {RF : Type} {maxLen : Nat} {rf rf' : RF} {b b' : Bytes}
    (h : checkLen maxLen rf b = .ok (some (rf', b'))) : rf' = rf ∧ b' = b ∧ b.length ≤ maxLen ∧ 0 < b.length := by
  unfold checkLen at h
  split at h
  · cases h
  · rename_i h1
    split at h
    · cases h
    · rename_i h2
      cases h
      simp only [Bool.not_eq_true', decide_eq_false_iff_not, Decidable.not_not] at h1
      exact ⟨rfl, rfl, h1, by omega⟩

theorem checkLen_ne_none {RF : Type} {maxLen : Nat} {rf : RF} {b : Bytes} : checkLen maxLen rf b ≠ .ok none := by
  unfold checkLen; split
  · simp
  · split <;> simp

theorem priceOrErr_ok {r : GoRes Int} {p : Option Int × Bool} (h : priceOrErr r = .ok p) :
    (p.2 = false → ∃ v, r = .ok v ∧ p.1 = some v) := by
  intro hp
  cases r with
  | ok v => simp only [priceOrErr] at h; cases h; exact ⟨v, rfl, rfl⟩
  | err c => simp only [priceOrErr] at h; cases h; simp at hp
  | panic => simp [priceOrErr] at h

theorem validateBetween_true {a : Option Int} {min max : Int} (h : validateBetween a min max = true) :
    ∃ v, a = some v ∧ min ≤ v ∧ v ≤ max := by
  cases a with
  | none => simp [validateBetween] at h
  | some v =>
    simp only [validateBetween, Bool.and_eq_true, decide_eq_true_eq] at h
    exact ⟨v, rfl, h.1, h.2⟩

theorem validateFee_true {v : Int} (h : validateFee (some v) = true) : 0 ≤ v ∧ v ≤ maxInt192 := by
  obtain ⟨w, hw, h1, h2⟩ := validateBetween_true h
  cases hw; exact ⟨h1, h2⟩

theorem expiresAtOf_ok {ts window : Nat} (h : (expiresAtOf ts window).2 = false) :
    (expiresAtOf ts window).1 = ts + window ∧ ts + window ≤ maxUint32 := by
  unfold expiresAtOf at h ⊢
  split
  · rename_i hc; rw [if_pos hc] at h; simp at h
  · rename_i hc
    simp only [maxUint32] at hc ⊢
    exact ⟨by omega, by omega⟩

/-! ## `Report` -/

theorem reportCore_some {RF : Type} {f n : Nat} {built : GoRes (RF × List String)} {overlap : RF → Bool}
    {validate : RF → List String} {codec : Codec RF} {rf : RF} {b : Bytes}
    (h : reportCore f n built overlap validate codec = .ok (some (rf, b))) :
    f + 1 ≤ n ∧ built = .ok (rf, []) ∧ overlap rf = false ∧ validate rf = [] ∧ codec.build rf = .ok b ∧
    b.length ≤ codec.maxLen ∧ 0 < b.length := by
  unfold reportCore at h
  split at h
  · cases h
  · split at h
    · cases h
    · rename_i hlen
      split at h
      · cases h
      · cases h
      · rename_i rf' errs
        split at h
        · cases h
        · rename_i herrs
          split at h
          · cases h
          · rename_i hov
            simp only [] at h
            split at h
            · cases h
            · rename_i hv
              split at h
              · cases h
              · cases h
              · rename_i b' hbuild
                obtain ⟨h1, h2, h3, h4⟩ := checkLen_some h
                subst h1; subst h2
                simp only [Bool.not_eq_true', decide_eq_false_iff_not, Decidable.not_not] at hlen
                have herrs' : errs = [] := by cases errs <;> simp_all
                have hv' : validate rf = [] := by
                  cases hvv : validate rf <;> simp_all
                subst herrs'
                exact ⟨hlen, rfl, by simpa using hov, hv', hbuild, h3, h4⟩

/-- `Report` declines (`(false, nil, nil)`) exactly when the fields were built without error and
    the overlap test fires -/
theorem reportCore_none {RF : Type} {f n : Nat} {built : GoRes (RF × List String)} {overlap : RF → Bool}
    {validate : RF → List String} {codec : Codec RF} :
    reportCore f n built overlap validate codec = .ok none ↔
      n ≠ 0 ∧ f + 1 ≤ n ∧ ∃ rf, built = .ok (rf, []) ∧ overlap rf = true := by
  unfold reportCore
  constructor
  · intro h
    split at h
    · cases h
    · rename_i hn
      split at h
      · cases h
      · rename_i hlen
        simp only [Bool.not_eq_true', decide_eq_false_iff_not, Decidable.not_not] at hlen
        split at h
        · cases h
        · cases h
        · rename_i rf errs
          split at h
          · cases h
          · rename_i herrs
            have herrs' : errs = [] := by cases errs <;> simp_all
            subst herrs'
            split at h
            · rename_i hov; exact ⟨hn, hlen, rf, rfl, hov⟩
            · simp only [] at h
              split at h
              · cases h
              · split at h
                · cases h
                · cases h
                · exact absurd h checkLen_ne_none
  · rintro ⟨hn, hlen, rf, hb, hov⟩
    rw [if_neg hn, if_neg (by simpa using hlen), hb]
    simp [hov]

theorem tags_nil2 {a b : List String} (h : a ++ b = []) : a = [] ∧ b = [] := List.append_eq_nil_iff.mp h

/-! ## `buildReportFields` without joined errors: every field is the corresponding consensus value -/

theorem V2.build_ok {cfg : Cfg} {codec : Codec V2.RF} {σ : Sched (Int × Nat)} {prev : Option Bytes}
    {paos : List V2.PAO} {rf : V2.RF}
    (h : V2.buildReportFields cfg codec σ prev paos = .ok (rf, [])) :
    consensusTimestamp (paos.map (·.ts)) = .ok rf.ts ∧
    validFromTs codec.prevEnd prev rf.ts
      (consensusMaxFinalizedTimestamp σ (paos.map V2.PAO.getMFT) cfg.f) = .ok (rf.validFrom, false) ∧
    (∃ v, consensusBenchmarkPrice (paos.map fun p => (p.bp, p.pricesValid)) cfg.f = .ok v ∧ rf.bp = some v) ∧
    feeOrZero (consensusLinkFee (paos.map fun p => (p.linkFee, p.linkFeeValid)) cfg.f) = .ok rf.linkFee ∧
    feeOrZero (consensusNativeFee (paos.map fun p => (p.nativeFee, p.nativeFeeValid)) cfg.f) = .ok rf.nativeFee ∧
    rf.expiresAt = rf.ts + cfg.window ∧ rf.ts + cfg.window ≤ maxUint32 := by
  simp only [V2.buildReportFields, GoRes.bind_eq_ok] at h
  obtain ⟨ts, hts, vf, hvf, bp, hbp, link, hlink, native, hnative, heq⟩ := h
  injection heq with heq
  injection heq with hrf htags
  obtain ⟨h12, h3⟩ := tags_nil2 htags
  obtain ⟨h1, h2⟩ := tags_nil2 h12
  rw [tagIf_nil] at h1 h2 h3
  obtain ⟨v, hv, hbv⟩ := priceOrErr_ok hbp h2
  obtain ⟨he1, he2⟩ := expiresAtOf_ok h3
  subst hrf
  refine ⟨hts, ?_, ⟨v, hv, hbv⟩, hlink, hnative, he1, he2⟩
  rw [hvf]; congr 1; exact Prod.ext rfl h1

theorem V3.build_ok {cfg : Cfg} {codec : Codec V3.RF} {σ : Sched (Int × Nat)} {prev : Option Bytes}
    {paos : List V3.PAO} {rf : V3.RF}
    (h : V3.buildReportFields cfg codec σ prev paos = .ok (rf, [])) :
    consensusTimestamp (paos.map (·.ts)) = .ok rf.ts ∧
    validFromTs codec.prevEnd prev rf.ts
      (consensusMaxFinalizedTimestamp σ (paos.map V3.PAO.getMFT) cfg.f) = .ok (rf.validFrom, false) ∧
    (∃ v, consensusBenchmarkPrice (paos.map fun p => (p.bp, p.pricesValid)) cfg.f = .ok v ∧ rf.bp = some v) ∧
    (∃ v, consensusBid (paos.map fun p => (p.bid, p.pricesValid)) cfg.f = .ok v ∧ rf.bid = some v) ∧
    (∃ v, consensusAsk (paos.map fun p => (p.ask, p.pricesValid)) cfg.f = .ok v ∧ rf.ask = some v) ∧
    feeOrZero (consensusLinkFee (paos.map fun p => (p.linkFee, p.linkFeeValid)) cfg.f) = .ok rf.linkFee ∧
    feeOrZero (consensusNativeFee (paos.map fun p => (p.nativeFee, p.nativeFeeValid)) cfg.f) = .ok rf.nativeFee ∧
    rf.expiresAt = rf.ts + cfg.window ∧ rf.ts + cfg.window ≤ maxUint32 := by
  simp only [V3.buildReportFields, GoRes.bind_eq_ok] at h
  obtain ⟨ts, hts, vf, hvf, bp, hbp, bid, hbid, ask, hask, link, hlink, native, hnative, heq⟩ := h
  injection heq with heq
  injection heq with hrf htags
  obtain ⟨h1234, h5⟩ := tags_nil2 htags
  obtain ⟨h123, h4⟩ := tags_nil2 h1234
  obtain ⟨h12, h3⟩ := tags_nil2 h123
  obtain ⟨h1, h2⟩ := tags_nil2 h12
  rw [tagIf_nil] at h1 h2 h3 h4 h5
  obtain ⟨v, hv, hbv⟩ := priceOrErr_ok hbp h2
  obtain ⟨vb, hvb, hbvb⟩ := priceOrErr_ok hbid h3
  obtain ⟨va, hva, hbva⟩ := priceOrErr_ok hask h4
  obtain ⟨he1, he2⟩ := expiresAtOf_ok h5
  subst hrf
  refine ⟨hts, ?_, ⟨v, hv, hbv⟩, ⟨vb, hvb, hbvb⟩, ⟨va, hva, hbva⟩, hlink, hnative, he1, he2⟩
  rw [hvf]; congr 1; exact Prod.ext rfl h1

theorem V4.msOrErr_ok {r : GoRes Nat} {p : Nat × Bool} (h : V4.msOrErr r = .ok p) (hp : p.2 = false) :
    r = .ok p.1 := by
  cases r with
  | ok v => simp only [V4.msOrErr] at h; cases h; rfl
  | err c => simp only [V4.msOrErr] at h; cases h; simp at hp
  | panic => simp [V4.msOrErr] at h

theorem V4.build_ok {cfg : Cfg} {codec : Codec V4.RF} {σ : V4.Scheds} {prev : Option Bytes}
    {paos : List V4.PAO} {rf : V4.RF}
    (h : V4.buildReportFields cfg codec σ prev paos = .ok (rf, [])) :
    consensusTimestamp (paos.map (·.ts)) = .ok rf.ts ∧
    validFromTs codec.prevEnd prev rf.ts
      (consensusMaxFinalizedTimestamp σ.mft (paos.map V4.PAO.getMFT) cfg.f) = .ok (rf.validFrom, false) ∧
    (∃ v, consensusBenchmarkPrice (paos.map fun p => (p.bp, p.pricesValid)) cfg.f = .ok v ∧ rf.bp = some v) ∧
    feeOrZero (consensusLinkFee (paos.map fun p => (p.linkFee, p.linkFeeValid)) cfg.f) = .ok rf.linkFee ∧
    feeOrZero (consensusNativeFee (paos.map fun p => (p.nativeFee, p.nativeFeeValid)) cfg.f) = .ok rf.nativeFee ∧
    V4.consensusMarketStatus σ.ms (paos.map fun p => (p.marketStatus, p.marketStatusValid)) cfg.f = .ok rf.marketStatus ∧
    rf.expiresAt = rf.ts + cfg.window ∧ rf.ts + cfg.window ≤ maxUint32 := by
  simp only [V4.buildReportFields, GoRes.bind_eq_ok] at h
  obtain ⟨ts, hts, vf, hvf, bp, hbp, link, hlink, native, hnative, ms, hms, heq⟩ := h
  injection heq with heq
  injection heq with hrf htags
  obtain ⟨h123, h4⟩ := tags_nil2 htags
  obtain ⟨h12, h3⟩ := tags_nil2 h123
  obtain ⟨h1, h2⟩ := tags_nil2 h12
  rw [tagIf_nil] at h1 h2 h3 h4
  obtain ⟨v, hv, hbv⟩ := priceOrErr_ok hbp h2
  obtain ⟨he1, he2⟩ := expiresAtOf_ok h3
  have hms' := V4.msOrErr_ok hms h4
  subst hrf
  refine ⟨hts, ?_, ⟨v, hv, hbv⟩, hlink, hnative, hms', he1, he2⟩
  rw [hvf]; congr 1; exact Prod.ext rfl h1

theorem V1.blockOrErr_ok {r : GoRes (Bytes × Int × Nat)} {p : (Bytes × Int × Nat) × Bool}
    (h : V1.blockOrErr r = .ok p) (hp : p.2 = false) : r = .ok p.1 := by
  cases r with
  | ok v => simp only [V1.blockOrErr] at h; cases h; rfl
  | err c => simp only [V1.blockOrErr] at h; cases h; simp at hp
  | panic => simp [V1.blockOrErr] at h

theorem V1.build_ok {cfg : Cfg} {codec : Codec V1.RF} {σ : V1.Scheds} {prev : Option Bytes}
    {paos : List V1.PAO} {rf : V1.RF}
    (h : V1.buildReportFields cfg codec σ prev paos = .ok (rf, [])) :
    V1.validFromBlock codec.prevEnd prev
      (V1.consensusMaxFinalizedBlockNum σ.mfbn (paos.map fun p => (p.mfbn, p.mfbnValid)) cfg.f) =
        .ok (rf.validFrom, false) ∧
    consensusTimestamp (paos.map (·.ts)) = .ok rf.ts ∧
    (∃ v, consensusBenchmarkPrice (paos.map fun p => (p.bp, p.pricesValid)) cfg.f = .ok v ∧ rf.bp = some v) ∧
    (∃ v, consensusBid (paos.map fun p => (p.bid, p.pricesValid)) cfg.f = .ok v ∧ rf.bid = some v) ∧
    (∃ v, consensusAsk (paos.map fun p => (p.ask, p.pricesValid)) cfg.f = .ok v ∧ rf.ask = some v) ∧
    V1.consensusLatestBlock σ.lb paos cfg.f = .ok (rf.curHash, rf.curNum, rf.curTs) := by
  simp only [V1.buildReportFields, GoRes.bind_eq_ok] at h
  obtain ⟨vf, hvf, ts, hts, bp, hbp, bid, hbid, ask, hask, blk, hblk, heq⟩ := h
  injection heq with heq
  injection heq with hrf htags
  obtain ⟨h1234, h5⟩ := tags_nil2 htags
  obtain ⟨h123, h4⟩ := tags_nil2 h1234
  obtain ⟨h12, h3⟩ := tags_nil2 h123
  obtain ⟨h1, h2⟩ := tags_nil2 h12
  rw [tagIf_nil] at h1 h2 h3 h4 h5
  obtain ⟨v, hv, hbv⟩ := priceOrErr_ok hbp h2
  obtain ⟨vb, hvb, hbvb⟩ := priceOrErr_ok hbid h3
  obtain ⟨va, hva, hbva⟩ := priceOrErr_ok hask h4
  have hblk' := V1.blockOrErr_ok hblk h5
  subst hrf
  refine ⟨?_, hts, ⟨v, hv, hbv⟩, ⟨vb, hvb, hbvb⟩, ⟨va, hva, hbva⟩, hblk'⟩
  rw [hvf]; congr 1; exact Prod.ext rfl h1

/-! ## per-component medians preserve a pointwise order (v3: bid ≤ benchmark ≤ ask) -/

theorem medianInt_mono (ps : List (Int × Int)) (hp : ∀ p ∈ ps, p.1 ≤ p.2) {a b : Int}
    (ha : medianInt (ps.map (·.1)) = .ok a) (hb : medianInt (ps.map (·.2)) = .ok b) : a ≤ b := by
  unfold medianInt at ha hb
  split at ha
  · rename_i x hx
    cases ha
    split at hb
    · rename_i y hy
      cases hb
      obtain ⟨hxl, hxv⟩ := List.getElem?_eq_some_iff.mp hx
      obtain ⟨hyl, hyv⟩ := List.getElem?_eq_some_iff.mp hy
      simp only [List.length_map] at hxl hyl hxv hyv
      have := Rank.rank_mono leInt leInt_total leInt_trans ps
        (fun p hpm => by simp only [leInt, decide_eq_true_eq]; exact hp p hpm)
        ((ps.map (·.1)).mergeSort leInt) ((ps.map (·.2)).mergeSort leInt)
        (List.mergeSort_perm _ _) (List.mergeSort_perm _ _)
        (sorted_mergeSort_int _) (sorted_mergeSort_int _) (ps.length / 2) hxl hyl
      rw [hxv, hyv] at this
      simpa [leInt] using this
    · cases hb
  · cases ha

theorem validVals_map_filter {α β : Type} (l : List α) (valid : α → Bool) (g : α → β) :
    validVals (l.map fun p => (g p, valid p)) = (l.filter valid).map g := by
  induction l with
  | nil => rfl
  | cons a l ih =>
    simp only [List.map_cons, validVals, List.filterMap_cons, List.filter_cons] at ih ⊢
    cases hv : valid a <;> simp [ih]

/-- medians of two components of the same valid observations keep their pointwise order -/
theorem consensusPrice_mono {α : Type} (l : List α) (valid : α → Bool) (g1 g2 : α → Int) (f : Nat)
    (hle : ∀ p ∈ l, valid p = true → g1 p ≤ g2 p) {a b : Int}
    (ha : consensusPrice (l.map fun p => (g1 p, valid p)) f = .ok a)
    (hb : consensusPrice (l.map fun p => (g2 p, valid p)) f = .ok b) : a ≤ b := by
  rw [consensusPrice_eq] at ha hb
  split at ha
  · cases ha
  · split at hb
    · cases hb
    · rw [validVals_map_filter] at ha hb
      have h1 : (l.filter valid).map g1 = ((l.filter valid).map fun p => (g1 p, g2 p)).map (·.1) := by
        simp [List.map_map, Function.comp_def]
      have h2 : (l.filter valid).map g2 = ((l.filter valid).map fun p => (g1 p, g2 p)).map (·.2) := by
        simp [List.map_map, Function.comp_def]
      rw [h1] at ha; rw [h2] at hb
      refine medianInt_mono _ ?_ ha hb
      intro p hpm
      obtain ⟨q, hq, rfl⟩ := List.mem_map.mp hpm
      obtain ⟨hq1, hq2⟩ := List.mem_filter.mp hq
      exact hle q hq1 hq2

end DSV.Mercury
