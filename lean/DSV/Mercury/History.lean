import DSV.Mercury.Common
/-!
# Threaded multi-round histories

`runHistory step prev rounds` evaluates `Report` round after round; the report emitted in a round
(`shouldReport = true`) becomes the next round's `previousReport`; a round that declines or fails
leaves it unchanged (libocr passes the last *accepted* report).
-/
namespace DSV.Mercury
open DSV

def runHistory {In RF : Type} (step : Option Bytes → In → GoRes (Option (RF × Bytes))) :
    Option Bytes → List In → List (GoRes (Option (RF × Bytes)))
  | _, [] => []
  | prev, r :: rest =>
    let res := step prev r
    let prev' := match res with
      | .ok (some (_, b)) => some b
      | _ => prev
    res :: runHistory step prev' rest

/-- the reports emitted along a history, in order -/
def emitted {RF : Type} : List (GoRes (Option (RF × Bytes))) → List (RF × Bytes)
  | [] => []
  | .ok (some x) :: rest => x :: emitted rest
  | _ :: rest => emitted rest

end DSV.Mercury
