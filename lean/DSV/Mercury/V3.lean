import DSV.Mercury.Common
/-!
# `mercury/v3/mercury.go`, `mercury/v3/observation.go` — `Report` and its callees
-/
namespace DSV.Mercury.V3
open DSV DSV.Mercury

/-- decoded `MercuryObservationProto` (int192 byte fields as results of `DecodeValueInt192`) -/
structure Obs where
  ts : Nat
  bp : Option Int
  bid : Option Int
  ask : Option Int
  pricesValid : Bool
  mft : Int
  mftValid : Bool
  linkFee : Option Int
  linkFeeValid : Bool
  nativeFee : Option Int
  nativeFeeValid : Bool
  deriving Repr, DecidableEq

structure PAO where
  ts : Nat
  bp : Int := 0
  bid : Int := 0
  ask : Int := 0
  pricesValid : Bool := false
  mft : Int := 0
  mftValid : Bool := false
  linkFee : Int := 0
  linkFeeValid : Bool := false
  nativeFee : Int := 0
  nativeFeeValid : Bool := false
  deriving Repr, DecidableEq

/-- `validatePrices`: `true` when `bid <= mid <= ask` -/
def validatePrices (bid bp ask : Int) : Bool := !(decide (bid > bp) || decide (bp > ask))

/-- prices: all three must decode and satisfy `bid <= mid <= ask`, else the observation is dropped -/
def parsePrices (o : Obs) (p : PAO) : Option PAO :=
  if o.pricesValid then
    match o.bp, o.bid, o.ask with
    | some bp, some bid, some ask =>
      if validatePrices bid bp ask then some { p with bp, bid, ask, pricesValid := true } else none
    | _, _, _ => none
  else some p

def parseMft (mft : Int) (mftValid : Bool) (p : PAO) : PAO :=
  if mftValid then { p with mft := mft, mftValid := true } else p

def parseLink (fee : Option Int) (valid : Bool) (p : PAO) : Option PAO :=
  if valid then fee.map fun v => { p with linkFee := v, linkFeeValid := true } else some p

def parseNative (fee : Option Int) (valid : Bool) (p : PAO) : Option PAO :=
  if valid then fee.map fun v => { p with nativeFee := v, nativeFeeValid := true } else some p

/-- `parseAttributedObservation` after `proto.Unmarshal` succeeded (`none` = error, dropped) -/
def parse (o : Obs) : Option PAO :=
  (parsePrices o { ts := o.ts }).bind fun p =>
  (parseLink o.linkFee o.linkFeeValid (parseMft o.mft o.mftValid p)).bind fun p =>
  parseNative o.nativeFee o.nativeFeeValid p

def parseAll (aos : List (Option Obs)) : List PAO := aos.filterMap fun o => o.bind parse

/-- `GetMaxFinalizedTimestamp`: values below -1 are not valid -/
def PAO.getMFT (p : PAO) : Int × Bool := if p.mft < -1 then (0, false) else (p.mft, p.mftValid)

structure RF where
  validFrom : Nat
  ts : Nat
  nativeFee : Int
  linkFee : Int
  expiresAt : Nat
  bp : Option Int
  bid : Option Int
  ask : Option Int
  deriving Repr, DecidableEq

def buildReportFields (cfg : Cfg) (codec : Codec RF) (σ : Sched (Int × Nat)) (prev : Option Bytes)
    (paos : List PAO) : GoRes (RF × List String) :=
  (consensusTimestamp (paos.map (·.ts))).bind fun ts =>
  (validFromTs codec.prevEnd prev ts
    (consensusMaxFinalizedTimestamp σ (paos.map PAO.getMFT) cfg.f)).bind fun vf =>
  (priceOrErr (consensusBenchmarkPrice (paos.map fun p => (p.bp, p.pricesValid)) cfg.f)).bind fun bp =>
  (priceOrErr (consensusBid (paos.map fun p => (p.bid, p.pricesValid)) cfg.f)).bind fun bid =>
  (priceOrErr (consensusAsk (paos.map fun p => (p.ask, p.pricesValid)) cfg.f)).bind fun ask =>
  (feeOrZero (consensusLinkFee (paos.map fun p => (p.linkFee, p.linkFeeValid)) cfg.f)).bind fun linkFee =>
  (feeOrZero (consensusNativeFee (paos.map fun p => (p.nativeFee, p.nativeFeeValid)) cfg.f)).bind fun nativeFee =>
  .ok ({ validFrom := vf.1, ts, nativeFee, linkFee, expiresAt := (expiresAtOf ts cfg.window).1,
         bp := bp.1, bid := bid.1, ask := ask.1 },
       tagIf vf.2 "vf" ++ tagIf bp.2 "bp" ++ tagIf bid.2 "bid" ++ tagIf ask.2 "ask" ++
       tagIf (expiresAtOf ts cfg.window).2 "exp")

/-- `validateReport`: the list of failed checks.  `ValidateBetween(…, rf.Bid, Min, rf.BenchmarkPrice)`
    receives `rf.BenchmarkPrice` as a bound; a nil bound would panic inside `big.Int.Cmp`, which
    cannot happen here because `Report` only validates when no consensus error was joined. -/
def validateReport (cfg : Cfg) (rf : RF) : List String :=
  tagIf (!validateBetween rf.bp cfg.min cfg.max) "bp" ++
  tagIf (!validateBetween rf.bid cfg.min (rf.bp.getD 0)) "bidinv" ++
  tagIf (!validateBetween rf.ask (rf.bp.getD 0) cfg.max) "askinv" ++
  tagIf (!validateBetween rf.bid cfg.min cfg.max) "bid" ++
  tagIf (!validateBetween rf.ask cfg.min cfg.max) "ask" ++
  tagIf (!validateFee (some rf.linkFee)) "link" ++
  tagIf (!validateFee (some rf.nativeFee)) "native" ++
  tagIf (!validateValidFromTimestamp rf.ts rf.validFrom) "vf" ++
  tagIf (!validateExpiresAt rf.ts rf.expiresAt) "exp"

def report (cfg : Cfg) (codec : Codec RF) (σ : Sched (Int × Nat)) (prev : Option Bytes)
    (aos : List (Option Obs)) : GoRes (Option (RF × Bytes)) :=
  let paos := parseAll aos
  reportCore cfg.f paos.length (buildReportFields cfg codec σ prev paos)
    (fun rf => decide (rf.ts < rf.validFrom)) (validateReport cfg) codec

end DSV.Mercury.V3
