import DSV.Mercury.V1
import DSV.Mercury.V2
import DSV.Mercury.V3
import DSV.Mercury.V4
/-!
# Reference report codec used by the correspondence run

The harness injects a `ReportCodec` of its own into the real factories (the production codecs live
outside this repository); this file is its mirror.  The theorems never mention it: they quantify
over every `Codec`.

Layout (all integers big-endian):
* v2: `validFrom:4 ts:4 expiresAt:4 nativeFee:32 linkFee:32 benchmark:32`; v3 appends `bid:32 ask:32`;
  v4 appends `marketStatus:4`.  `ObservationTimestampFromReport` reads bytes 4..8 (error if shorter).
* v1: `ts:4 benchmark:32 bid:32 ask:32 currentBlockNum:8 validFromBlockNum:8 currentBlockTs:8 hashLen:2 hash`.
  `CurrentBlockNumFromReport` reads bytes 100..108 as int64 (error if shorter).
* a price is 32-byte two's complement; a nil price or one outside int256 is a `BuildReport` error.
* `mode`: `fail` → `BuildReport` returns an error; `empty` → returns an empty report; `pad` extra
  zero bytes are appended (to exercise the length checks).
-/
namespace DSV.Mercury.RefCodec
open DSV DSV.Mercury

structure Mode where
  maxLen : Nat
  pad : Nat := 0
  empty : Bool := false
  fail : Bool := false

def enc32 (v : Option Int) : GoRes Bytes :=
  match v with
  | none => .err "codec"
  | some v =>
    if -(2 : Int) ^ 255 ≤ v ∧ v < (2 : Int) ^ 255 then .ok (beBytes 32 (v % (2 : Int) ^ 256).toNat)
    else .err "codec"

def be (n : Nat) (v : Nat) : Bytes := beBytes n v
def beI64 (v : Int) : Bytes := beBytes 8 (v % (2 : Int) ^ 64).toNat

def finish (m : Mode) (body : GoRes Bytes) : GoRes Bytes :=
  if m.fail then .err "codec"
  else match body with
    | .ok b => if m.empty then .ok [] else .ok (b ++ List.replicate m.pad 0)
    | r => r

/-- bytes `[off, off+n)` as an unsigned number -/
def readBE (r : Bytes) (off n : Nat) : GoRes Nat :=
  if r.length < off + n then .err "codec-prev" else .ok (fromBE ((r.drop off).take n))

def tsFromReport (r : Bytes) : GoRes Int := (readBE r 4 4).bind fun t => .ok (t : Int)
def blockNumFromReport (r : Bytes) : GoRes Int := (readBE r 100 8).bind fun t => .ok (toSigned 64 t)

def build2 (rf : V2.RF) : GoRes Bytes := do
  let n ← enc32 (some rf.nativeFee)
  let l ← enc32 (some rf.linkFee)
  let b ← enc32 rf.bp
  pure (be 4 rf.validFrom ++ be 4 rf.ts ++ be 4 rf.expiresAt ++ n ++ l ++ b)

def build3 (rf : V3.RF) : GoRes Bytes := do
  let n ← enc32 (some rf.nativeFee)
  let l ← enc32 (some rf.linkFee)
  let b ← enc32 rf.bp
  let bid ← enc32 rf.bid
  let ask ← enc32 rf.ask
  pure (be 4 rf.validFrom ++ be 4 rf.ts ++ be 4 rf.expiresAt ++ n ++ l ++ b ++ bid ++ ask)

def build4 (rf : V4.RF) : GoRes Bytes := do
  let n ← enc32 (some rf.nativeFee)
  let l ← enc32 (some rf.linkFee)
  let b ← enc32 rf.bp
  pure (be 4 rf.validFrom ++ be 4 rf.ts ++ be 4 rf.expiresAt ++ n ++ l ++ b ++ be 4 rf.marketStatus)

def build1 (rf : V1.RF) : GoRes Bytes := do
  let b ← enc32 rf.bp
  let bid ← enc32 rf.bid
  let ask ← enc32 rf.ask
  pure (be 4 rf.ts ++ b ++ bid ++ ask ++ beI64 rf.curNum ++ beI64 rf.validFrom ++ be 8 rf.curTs ++
        be 2 rf.curHash.length ++ rf.curHash)

def codec1 (m : Mode) : Codec V1.RF := ⟨fun rf => finish m (build1 rf), blockNumFromReport, m.maxLen⟩
def codec2 (m : Mode) : Codec V2.RF := ⟨fun rf => finish m (build2 rf), tsFromReport, m.maxLen⟩
def codec3 (m : Mode) : Codec V3.RF := ⟨fun rf => finish m (build3 rf), tsFromReport, m.maxLen⟩
def codec4 (m : Mode) : Codec V4.RF := ⟨fun rf => finish m (build4 rf), tsFromReport, m.maxLen⟩

end DSV.Mercury.RefCodec
