import DSV.Mercury.LemmasReport
/-!
# Chaining of report windows along a threaded history; `validFrom` lemmas
-/
namespace DSV.Mercury
open DSV

/-- windows `(start, end)` are adjacent: each starts one past the end of its predecessor; the first
    one starts one past `t` when the history begins with a readable previous report ending at `t` -/
def ChainedFrom : Option Int → List (Int × Int) → Prop
  | _, [] => True
  | none, w :: rest => ChainedFrom (some w.2) rest
  | some t, w :: rest => w.1 = t + 1 ∧ ChainedFrom (some w.2) rest

/-- what a report's bytes say about its end, through the codec (`none` = unreadable) -/
def endOf (prevEnd : Bytes → GoRes Int) (r : Bytes) : Option Int :=
  match prevEnd r with
  | .ok t => some t
  | _ => none

theorem runHistory_chained {In RF : Type} (step : Option Bytes → In → GoRes (Option (RF × Bytes)))
    (win : RF → Int × Int) (eo : Bytes → Option Int)
    (hstep : ∀ r x rf b, step (some r) x = .ok (some (rf, b)) → ∃ t, eo r = some t ∧ (win rf).1 = t + 1)
    (hcoh : ∀ p x rf b, step p x = .ok (some (rf, b)) → eo b = some (win rf).2)
    (prev : Option Bytes) (rounds : List In) :
    ChainedFrom (prev.bind eo) ((emitted (runHistory step prev rounds)).map fun e => win e.1) := by
  induction rounds generalizing prev with
  | nil => simp [runHistory, emitted, ChainedFrom]
  | cons x rest ih =>
    simp only [runHistory]
    cases hres : step prev x with
    | panic => simp only [emitted]; exact ih prev
    | err c => simp only [emitted]; exact ih prev
    | ok o =>
      cases o with
      | none => simp only [emitted]; exact ih prev
      | some e =>
        obtain ⟨rf, b⟩ := e
        simp only [emitted, List.map_cons]
        have hb := hcoh prev x rf b hres
        have ih' := ih (some b)
        simp only [Option.bind_some, hb] at ih'
        cases hp : prev.bind eo with
        | none => exact ih'
        | some t =>
          refine ⟨?_, ih'⟩
          cases prev with
          | none => simp at hp
          | some r =>
            obtain ⟨t', ht', hw⟩ := hstep r x rf b hres
            simp only [Option.bind_some] at hp
            rw [hp] at ht'; cases ht'; exact hw

theorem mem_emitted_runHistory {In RF : Type} {step : Option Bytes → In → GoRes (Option (RF × Bytes))}
    {prev : Option Bytes} {rounds : List In} {e : RF × Bytes}
    (h : e ∈ emitted (runHistory step prev rounds)) : ∃ p x, x ∈ rounds ∧ step p x = .ok (some e) := by
  induction rounds generalizing prev with
  | nil => simp [runHistory, emitted] at h
  | cons x rest ih =>
    simp only [runHistory] at h
    cases hres : step prev x with
    | panic =>
      rw [hres] at h; simp only [emitted] at h
      obtain ⟨p, y, hy, hs⟩ := ih h; exact ⟨p, y, List.mem_cons_of_mem _ hy, hs⟩
    | err c =>
      rw [hres] at h; simp only [emitted] at h
      obtain ⟨p, y, hy, hs⟩ := ih h; exact ⟨p, y, List.mem_cons_of_mem _ hy, hs⟩
    | ok o =>
      rw [hres] at h
      cases o with
      | none =>
        simp only [emitted] at h
        obtain ⟨p, y, hy, hs⟩ := ih h; exact ⟨p, y, List.mem_cons_of_mem _ hy, hs⟩
      | some e' =>
        simp only [emitted, List.mem_cons] at h
        rcases h with rfl | h
        · exact ⟨prev, x, List.mem_cons_self, hres⟩
        · obtain ⟨p, y, hy, hs⟩ := ih h; exact ⟨p, y, List.mem_cons_of_mem _ hy, hs⟩

theorem chainedFrom_lower {t : Int} {ws : List (Int × Int)} (hne : ∀ w ∈ ws, w.1 ≤ w.2)
    (h : ChainedFrom (some t) ws) : ∀ w ∈ ws, t < w.1 := by
  induction ws generalizing t with
  | nil => simp
  | cons a rest ih =>
    obtain ⟨h1, h2⟩ := h
    intro w hw
    rcases List.mem_cons.mp hw with rfl | hw
    · omega
    · have := ih (fun w hw => hne w (List.mem_cons_of_mem _ hw)) h2 w hw
      have := hne a List.mem_cons_self
      omega

/-- adjacent non-empty windows are pairwise disjoint and ordered -/
theorem chainedFrom_disjoint {o : Option Int} {ws : List (Int × Int)} (hne : ∀ w ∈ ws, w.1 ≤ w.2)
    (h : ChainedFrom o ws) : ws.Pairwise fun a b => a.2 < b.1 := by
  induction ws generalizing o with
  | nil => exact List.Pairwise.nil
  | cons a rest ih =>
    have h2 : ChainedFrom (some a.2) rest := by
      cases o with
      | none => exact h
      | some t => exact h.2
    have hne' : ∀ w ∈ rest, w.1 ≤ w.2 := fun w hw => hne w (List.mem_cons_of_mem _ hw)
    exact List.Pairwise.cons (chainedFrom_lower hne' h2) (ih hne' h2)

/-! ## `validFrom` in v2–v4 -/

theorem toUint32_of_range {v : Int} (h0 : 0 ≤ v) (h1 : v ≤ maxUint32) : (toUint32 v : Int) = v := by
  unfold toUint32
  simp only [maxUint32] at h1
  rw [Int.toNat_of_nonneg (Int.emod_nonneg _ (by omega)), Int.emod_eq_of_lt h0 (by omega)]

theorem wrapInt64_of_range {v : Int} (h0 : -(2 : Int) ^ 63 ≤ v) (h1 : v < (2 : Int) ^ 63) : wrapInt64 v = v := by
  unfold wrapInt64
  rw [Int.emod_eq_of_lt (by omega) (by omega)]; omega

/-- previous report present: `validFrom` is its observation timestamp plus one (the codec returns
    a uint32); at `MaxUint32` an error is joined instead of wrapping to 0 -/
theorem validFromTs_prev {codec : Bytes → GoRes Int} {r : Bytes} {ts : Nat} {mft : GoRes Int} {vf : Nat}
    (hty : ∀ t, codec r = .ok t → 0 ≤ t ∧ t ≤ maxUint32)
    (h : validFromTs codec (some r) ts mft = .ok (vf, false)) :
    ∃ t, codec r = .ok t ∧ (vf : Int) = t + 1 ∧ t < maxUint32 := by
  unfold validFromTs at h
  simp only [] at h
  split at h
  · rename_i t ht
    split at h
    · cases h
    · rename_i hne
      cases h
      obtain ⟨h0, h1⟩ := hty t ht
      refine ⟨t, ht, ?_, by omega⟩
      exact toUint32_of_range (by omega) (by omega)
  · cases h
  · cases h

/-- no previous report: `validFrom` is one past the agreed max finalized timestamp, or the
    observation timestamp when the agreed value is negative; values at or above `MaxUint32` are an
    error, so `m + 1` is computed without any overflow -/
theorem validFromTs_bootstrap {codec : Bytes → GoRes Int} {ts : Nat} {mft : GoRes Int} {vf : Nat}
    (h : validFromTs codec none ts mft = .ok (vf, false)) :
    ∃ m, mft = .ok m ∧ ((m < 0 ∧ vf = ts) ∨ (0 ≤ m ∧ m < maxUint32 ∧ (vf : Int) = m + 1)) := by
  cases mft with
  | ok m =>
    refine ⟨m, rfl, ?_⟩
    simp only [validFromTs] at h
    split at h
    · rename_i hneg; cases h; exact Or.inl ⟨hneg, rfl⟩
    · split at h
      · cases h
      · rename_i h1 h2
        cases h
        simp only [maxUint32] at h2
        exact Or.inr ⟨by omega, by simp only [maxUint32]; omega,
          toUint32_of_range (by omega) (by simp only [maxUint32]; omega)⟩
  | err c => simp [validFromTs] at h
  | panic => simp [validFromTs] at h

end DSV.Mercury
