import DSV.Go.Basic
/-!
# `rpc/mtls/mtls.go` — the certificate decision function

```go
func (r *PublicKeys) VerifyPeerCertificate() func(rawCerts [][]byte, _ [][]*x509.Certificate) error {
	return func(rawCerts [][]byte, _ …) error {
		if len(rawCerts) != 1 { return fmt.Errorf("required exactly one client certificate") }
		cert, err := x509.ParseCertificate(rawCerts[0]); if err != nil { return err }
		pk, err := pubKeyFromCert(cert);                  if err != nil { return err }
		ok := r.isValidPublicKey(pk);                     if !ok { return fmt.Errorf("unknown public key …") }
		return nil } }
func pubKeyFromCert(cert) { if cert.PublicKeyAlgorithm != x509.Ed25519 { err "requires an ed25519 public key" }
                            pub, ok := cert.PublicKey.(ed25519.PublicKey); if !ok { err "invalid ed25519 public key" } }
func isValidPublicKey(pub) { RLock; for _, vpub := range r.keys { if subtle.ConstantTimeCompare(pub, vpub) == 1 { return true } }; return false }
```

`x509.ParseCertificate` is a *parameter* of the model (`parse`): an arbitrary partial function from
DER bytes to the two fields of the parsed certificate that the code looks at.
`subtle.ConstantTimeCompare(a, b) == 1` iff `a` and `b` have the same length and the same bytes,
i.e. list equality.
-/
namespace DSV.MTLS

abbrev Bytes := List UInt8
/-- an Ed25519 public key as stored in the allow-list: raw bytes -/
abbrev Key := Bytes

/-- `x509.PublicKeyAlgorithm` -/
inductive KeyAlg | rsa | dsa | ecdsa | ed25519 | unknown
  deriving DecidableEq, Repr

/-- what the code reads off a parsed `*x509.Certificate`: `PublicKeyAlgorithm` and, when the dynamic
    type of `PublicKey` is `ed25519.PublicKey`, its bytes (`none` = the type assertion fails) -/
structure Cert where
  alg : KeyAlg
  edKey : Option Key
  deriving DecidableEq, Repr

/-- `isValidPublicKey` on a given value of `r.keys` -/
def isValid (keys : List Key) (pk : Key) : Bool := keys.any (fun vpub => pk == vpub)

/-- `pubKeyFromCert` -/
def pubKeyFromCert (c : Cert) : GoRes Key :=
  if c.alg ≠ .ed25519 then .err "not-ed25519"
  else match c.edKey with
    | none => .err "invalid-key"
    | some pk => .ok pk

/-- the closure returned by `VerifyPeerCertificate`, evaluated against the value `keys` of the
    allow-list that `isValidPublicKey` reads -/
def verifyPeer (parse : Bytes → Option Cert) (keys : List Key) (rawCerts : List Bytes) : GoRes Unit :=
  match rawCerts with
  | [raw] =>                                   -- len(rawCerts) != 1 → error
    match parse raw with
    | none => .err "parse"
    | some cert =>
      match pubKeyFromCert cert with
      | .ok pk => if isValid keys pk then .ok () else .err "unknown-key"
      | .err c => .err c
      | .panic => .panic
  | _ => .err "cert-count"

/-- `ValidPublicKeysFromEd25519`: the allow-list must be non-empty and every key 32 bytes long
    (`ed25519.PublicKeySize`); the slice is stored as given -/
def validPublicKeys (keys : List Key) : GoRes (List Key) :=
  if keys.isEmpty then .err "no-keys"
  else if keys.any (fun k => k.length != 32) then .err "key-length"
  else .ok keys

/-- construct the allow-list, then run the callback once against it -/
def constructAndVerify (parse : Bytes → Option Cert) (keys : List Key) (rawCerts : List Bytes) : GoRes Unit := do
  let ks ← validPublicKeys keys
  verifyPeer parse ks rawCerts

end DSV.MTLS
