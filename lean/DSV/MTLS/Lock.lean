/-!
# `rpc/mtls/mtls.go` — the lock protocol of `PublicKeys` as a transition system

```go
type PublicKeys struct { mu sync.RWMutex; keys []ed25519.PublicKey }
func (r *PublicKeys) Keys()             { r.mu.RLock(); defer r.mu.RUnlock(); … len(r.keys) … copy(_, r.keys) }
func (r *PublicKeys) Replace(pubs)      { …copy of pubs.keys under pubs.mu.RLock…; r.mu.Lock(); defer r.mu.Unlock(); r.keys = newKeys }
func (r *PublicKeys) isValidPublicKey() { r.mu.RLock(); defer r.mu.RUnlock(); for … range r.keys … }
```

The *programs* the threads run are not written here: they are the action sequences that the fact
extractor reads off the source (`DSV.Facts.mtls_*_trace`, e.g. `["Lock","defer Unlock","write keys"]`),
turned into actions by `compile` (a `defer` runs when the function returns, last deferred first).

Semantics.  One shared memory cell `cell` (the field `keys`), one abstract `sync.RWMutex`
(`writer : Bool`, `readers : Nat`) and any number of threads, each with the rest of its program.
* `RLock` can be taken when no writer holds the mutex; `Lock` when nobody holds it.  (Go's RWMutex
  additionally makes new readers wait behind a *pending* writer; that only removes interleavings,
  so every safety property proved here holds for it as well.)
* **`read` / `write` of the cell are always enabled**: nothing in the semantics stops a thread from
  touching `keys` without the lock.  Exclusion is a property of the *programs* (`wl`), which is
  exactly why a mutation that drops or moves a lock call breaks the instantiation.
* A thread may be spawned at any time, so the number of threads is unbounded.

Ghost components (never read by `exec` to decide anything): `held` (which side of the mutex the
thread holds, determined by its past lock actions), `snap` (value of the cell when the thread last
acquired the mutex), `obs` (log of the values its `read`s returned) and `hist` (all values the cell
has held).
-/
namespace DSV.MTLS

/-- the actions that matter for the protocol -/
inductive Act | rlock | runlock | lock | unlock | read | write
  deriving DecidableEq, Repr

/-- which side of the mutex a thread currently holds -/
inductive Mode | none | r | w
  deriving DecidableEq, Repr

/-! ## from extracted strings to programs -/

/-- one extracted trace entry → (deferred?, action) -/
def parseAct (s : String) : Option (Bool × Act) :=
  if s = "RLock" then some (false, .rlock)
  else if s = "RUnlock" then some (false, .runlock)
  else if s = "Lock" then some (false, .lock)
  else if s = "Unlock" then some (false, .unlock)
  else if s = "defer RLock" then some (true, .rlock)
  else if s = "defer RUnlock" then some (true, .runlock)
  else if s = "defer Lock" then some (true, .lock)
  else if s = "defer Unlock" then some (true, .unlock)
  else if s = "read keys" then some (false, .read)
  else if s = "write keys" then some (false, .write)
  else none

/-- `acc` = body so far (reversed), `defers` = deferred calls, most recently deferred first -/
def compileAux : List String → List Act → List Act → Option (List Act)
  | [], acc, defers => some (acc.reverse ++ defers)
  | s :: rest, acc, defers =>
    match parseAct s with
    | none => none
    | some (true, a) => compileAux rest acc (a :: defers)
    | some (false, a) => compileAux rest (a :: acc) defers

/-- the program of a function: its straight-line body followed by its deferred calls (LIFO) -/
def compile (trace : List String) : Option (List Act) := compileAux trace [] []

/-! ## the well-locked predicate (decidable, checked on the extracted programs) -/

/-- `wl m p`: started while holding `m`, program `p` acquires only when it holds nothing, reads
    `keys` only while holding the read or the write side, writes `keys` only while holding the
    write side, releases only the side it holds, and holds nothing when it ends. -/
def wl : Mode → List Act → Bool
  | m, [] => m == .none
  | .none, .rlock :: p => wl .r p
  | .none, .lock :: p => wl .w p
  | .r, .runlock :: p => wl .none p
  | .w, .unlock :: p => wl .none p
  | .r, .read :: p => wl .r p
  | .w, .read :: p => wl .w p
  | .w, .write :: p => wl .w p
  | _, _ :: _ => false

/-- a function body (extracted trace) is well locked -/
def wellLocked (trace : List String) : Bool :=
  match compile trace with
  | some p => wl .none p
  | none => false

/-! ## state and steps -/

/-- one logged read: the side held when reading, the value read, and the value `keys` had when the
    thread acquired the mutex -/
structure Obs (K : Type) where
  mode : Mode
  val : K
  atLock : K

structure Thread (K : Type) where
  /-- rest of the program -/
  prog : List Act
  /-- the value a `write` stores (`newKeys` of `Replace`) -/
  arg : K
  held : Mode
  snap : K
  obs : List (Obs K)

/-- the shared part: mutex, cell, history of the cell -/
structure Shared (K : Type) where
  writer : Bool
  readers : Nat
  cell : K
  hist : List K

structure State (K : Type) where
  sh : Shared K
  threads : List (Thread K)

variable {K : Type}

/-- thread `t` performs its next action; `none` = finished or blocked on the mutex -/
def exec (sh : Shared K) (t : Thread K) : Option (Shared K × Thread K) :=
  match t.prog with
  | [] => none
  | .rlock :: p =>
    if sh.writer then none
    else some ({ sh with readers := sh.readers + 1 }, { t with prog := p, held := .r, snap := sh.cell })
  | .lock :: p =>
    if sh.writer || sh.readers != 0 then none
    else some ({ sh with writer := true }, { t with prog := p, held := .w, snap := sh.cell })
  | .runlock :: p => some ({ sh with readers := sh.readers - 1 }, { t with prog := p, held := .none })
  | .unlock :: p => some ({ sh with writer := false }, { t with prog := p, held := .none })
  | .read :: p => some (sh, { t with prog := p, obs := ⟨t.held, sh.cell, t.snap⟩ :: t.obs })
  | .write :: p => some ({ sh with cell := t.arg, hist := t.arg :: sh.hist }, { t with prog := p })

/-- a thread at the start of a well-locked program -/
def Thread.Fresh (t : Thread K) : Prop := t.held = .none ∧ wl .none t.prog = true ∧ t.obs = []

inductive Step : State K → State K → Prop
  /-- some thread (any position: any interleaving) performs its next action -/
  | act (sh sh' : Shared K) (pre post : List (Thread K)) (t t' : Thread K) :
      exec sh t = some (sh', t') → Step ⟨sh, pre ++ t :: post⟩ ⟨sh', pre ++ t' :: post⟩
  /-- a new call of some well-locked function starts -/
  | spawn (sh : Shared K) (ts : List (Thread K)) (t : Thread K) :
      t.Fresh → Step ⟨sh, ts⟩ ⟨sh, ts ++ [t]⟩

/-- nobody holds the mutex, every thread is at the start of a well-locked program -/
def Init (s : State K) : Prop :=
  s.sh.writer = false ∧ s.sh.readers = 0 ∧ s.sh.hist = [s.sh.cell] ∧ ∀ t ∈ s.threads, t.Fresh

inductive Reachable (s0 : State K) : State K → Prop
  | refl : Reachable s0 s0
  | step {s s'} : Reachable s0 s → Step s s' → Reachable s0 s'

/-! ## vocabulary of the property statements -/

/-- the next action of a thread touches `keys` -/
def Thread.nextAccess (t : Thread K) : Bool :=
  match t.prog with
  | .read :: _ => true
  | .write :: _ => true
  | _ => false

def Thread.nextWrite (t : Thread K) : Bool :=
  match t.prog with
  | .write :: _ => true
  | _ => false

/-- both threads are about to access `keys` and at least one of the accesses is a write: the two
    accesses are both enabled and unordered — a data race -/
def racing (a b : Thread K) : Prop :=
  (a.nextWrite = true ∧ b.nextAccess = true) ∨ (b.nextWrite = true ∧ a.nextAccess = true)

/-- `a` is inside a write critical section while `b` is inside any critical section (or vice versa) -/
def overlapping (a b : Thread K) : Prop :=
  (a.held = .w ∧ b.held ≠ .none) ∨ (b.held = .w ∧ a.held ≠ .none)

/-- number of `write` actions of a program -/
def writes (p : List Act) : Nat := p.count .write

end DSV.MTLS
