/-!
# C19 — cost of formatting joined errors (`errors.Join` + `Error()`)

`errors.Join(e₁ … eₙ).Error()` formats every child and concatenates the texts with newlines.

* **join once** (`errs = append(errs, e)` in the loop, `errors.Join(errs...)` after it — the shape of
  the repaired `VerifyChannelDefinitions`): every leaf text is produced and copied once.
* **join one by one** (`merr = errors.Join(merr, e)` in the loop — defect K6): the result is nested
  `n` deep; formatting level `i` first formats level `i−1` and then copies that whole text again
  into its own buffer, so the text of the early leaves is copied once per level.

Unit: one byte of error text produced or copied.  A leaf is given by the length of its text.
-/
namespace DSV.Cost

/-- `errors.Join(errs...).Error()` over leaves of the given text lengths (+1: the separator) -/
def formatOnce (ls : List Nat) : Nat := (ls.map (· + 1)).sum

/-- state while nesting: (length of the text of the error so far, cost of formatting it) -/
def nestedStep (s : Nat × Nat) (l : Nat) : Nat × Nat := (s.1 + l + 1, s.2 + (s.1 + l + 1))

/-- `merr = errors.Join(merr, eᵢ)` for every leaf in turn, then `merr.Error()`:
    `cost(i) = cost(i−1) + |text(i−1)| + lᵢ + 1` -/
def formatNested (ls : List Nat) : Nat := (ls.foldl nestedStep (0, 0)).2

end DSV.Cost
