import DSV.Go.Dec
/-!
# C19 — cost semantics of `shopspring/decimal` comparison and conversion

```go
func (d Decimal) rescale(exp int32) Decimal {
	if d.exp == exp { return Decimal{new(big.Int).Set(d.value), d.exp} }
	diff := math.Abs(float64(exp) - float64(d.exp))
	value := new(big.Int).Set(d.value)
	expScale := new(big.Int).Exp(tenInt, big.NewInt(int64(diff)), nil)      // materialises 10^|Δexp|
	if exp > d.exp { value = value.Quo(value, expScale) } else { value = value.Mul(value, expScale) }
	return Decimal{value, exp} }
func (d Decimal) Cmp(d2 Decimal) int {
	if d.exp == d2.exp { return d.value.Cmp(d2.value) }
	rd, rd2 := RescalePair(d, d2)          // the one with the LARGER exponent is rescaled to the smaller
	return rd.value.Cmp(rd2.value) }
func (d Decimal) BigInt() *big.Int { return d.rescale(0).value }
```

Unit: one decimal digit of a big integer that is read or written (a 64-bit word of `math/big`
holds fewer than 20 of them, so the number of word operations is at least a twentieth of this).
The power `10^|Δexp|` is materialised whatever the coefficient is (even for 0).
-/
namespace DSV.Cost
open DSV

/-- number of decimal digits (`1` for `0`) -/
def numDigits (n : Nat) : Nat := if n < 10 then 1 else 1 + numDigits (n / 10)
decreasing_by omega

def digitsOf (c : Int) : Nat := numDigits c.natAbs

/-- `Decimal.rescale(e)`: copy of the value; if the exponent differs, the digits of the
    materialised power `10^|e − d.exp|` (that is `|e − d.exp| + 1`, lemma `numDigits_pow10`) and the
    digits of the product / quotient -/
def rescaleCost (d : Dec) (e : Int) : Nat :=
  if e = d.exp then digitsOf d.coef
  else digitsOf d.coef + ((e - d.exp).natAbs + 1) + digitsOf (d.rescale e).coef

/-- `big.Int.Cmp`: at most the digits of the shorter operand are compared -/
def intCmpCost (x y : Int) : Nat := min (digitsOf x) (digitsOf y)

/-- `Decimal.Cmp` -/
def cmpCost (a b : Dec) : Nat :=
  if a.exp = b.exp then intCmpCost a.coef b.coef
  else if a.exp < b.exp then rescaleCost b a.exp + intCmpCost a.coef (b.rescale a.exp).coef
  else rescaleCost a b.exp + intCmpCost (a.rescale b.exp).coef b.coef

/-- `Decimal.BigInt` -/
def bigIntCost (d : Dec) : Nat := rescaleCost d 0

/-- the 6-byte decimal of finding F2: coefficient 1, exponent 2^31 − 1 -/
def f2Witness : Dec := ⟨1, 2147483647⟩

end DSV.Cost
