import DSV.LLO.Wire
/-!
# C19 — cost semantics of decoding a stream value at the byte level

`llo/stream_value.go`, `llo/observation_codec.go`:

```go
func UnmarshalProtoStreamValue(enc *LLOStreamValue) (StreamValue, error) {
	if enc == nil { return nil, ErrNilStreamValue }
	switch enc.Type { case Quote: new(Quote) | Decimal: new(Decimal) | TimestampedStreamValue: new(TSV) | default: error }
	sv.UnmarshalBinary(enc.Value) }
func (v *TimestampedStreamValue) unmarshalBinary(data []byte, depth int) error {
	t := new(LLOTimestampedStreamValue)
	proto.Unmarshal(data, t)                                   // scans data, copies every `bytes` field
	if t.StreamValue != nil && t.StreamValue.Type == TSV {
		if depth >= maxTimestampedStreamValueNesting { return error }   // the D7 repair
		inner.unmarshalBinary(t.StreamValue.Value, depth+1)     // re-parses the copied remainder
	} else { UnmarshalProtoStreamValue(t.StreamValue) } }
```

What is counted (unit: one byte touched):
* `scan`  — every byte handed to `proto.Unmarshal` or to a leaf decoder is examined once;
* `extra` — bytes copied out (`bytes` fields: every occurrence is copied; unknown fields are
  retained raw) and bytes formatted into an error message (`%v` of a byte slice: ≤ 4 characters
  per byte, +1 for the scan that the leaf decoder already did).

Protobuf wire format as implemented by protobuf-go: base-128 varints of at most 10 bytes (the
10th < 2), field numbers 1 … 2^29−1, wire types 0 (varint), 1 (8 bytes), 2 (length-delimited),
5 (4 bytes); scalar fields: last occurrence wins; message fields: occurrences are merged; a known
field number with an unexpected wire type is an unknown field.  **Outside the model:** the
deprecated group wire types 3/4 (reported as a parse error here; protobuf-go skips well-formed
groups of unknown fields) — the correspondence generators never emit them.
-/
namespace DSV.Cost
open DSV DSV.LLO

abbrev Bytes := List UInt8

/-- `protowire.ConsumeVarint`; `fuel` = bytes still allowed (10 at the start) -/
def readVarint : Nat → Bytes → Option (Nat × Bytes)
  | 0, _ => none
  | _ + 1, [] => none
  | k + 1, b :: rest =>
    if b.toNat < 128 then
      (if k = 0 ∧ 2 ≤ b.toNat then none else some (b.toNat, rest))
    else
      match readVarint k rest with
      | some (v, r) => some (b.toNat - 128 + 128 * v, r)
      | none => none

/-- one parsed field; `raw` = number of input bytes it occupies (tag included) -/
structure Field where
  num : Nat
  wt : Nat
  /-- value of a varint field (0 otherwise) -/
  val : Nat
  /-- payload of a length-delimited field (`[]` otherwise) -/
  payload : Bytes
  raw : Nat

/-- `protowire.ConsumeField` -/
def readField (b : Bytes) : Option (Field × Bytes) :=
  match readVarint 10 b with
  | none => none
  | some (tag, r) =>
    let num := tag / 8
    let wt := tag % 8
    if num = 0 ∨ 2 ^ 29 ≤ num then none
    else if wt = 0 then
      match readVarint 10 r with
      | some (v, r') => some (⟨num, 0, v, [], b.length - r'.length⟩, r')
      | none => none
    else if wt = 1 then
      if r.length < 8 then none else some (⟨num, 1, 0, [], b.length - (r.drop 8).length⟩, r.drop 8)
    else if wt = 2 then
      match readVarint 10 r with
      | some (n, r') =>
        if n ≤ r'.length then some (⟨num, 2, 0, r'.take n, b.length - (r'.drop n).length⟩, r'.drop n)
        else none
      | none => none
    else if wt = 5 then
      if r.length < 4 then none else some (⟨num, 5, 0, [], b.length - (r.drop 4).length⟩, r.drop 4)
    else none

/-- all fields of a message (`fuel` ≥ number of fields; `b.length` always suffices) -/
def parseFields : Nat → Bytes → Option (List Field)
  | _, [] => some []
  | 0, _ :: _ => none
  | k + 1, b =>
    match readField b with
    | none => none
    | some (f, r) =>
      match parseFields k r with
      | some fs => some (f :: fs)
      | none => none

def parseMsg (b : Bytes) : Option (List Field) := parseFields b.length b

/-! ## `LLOStreamValue { Type type = 1; bytes value = 2; }` -/

structure SVMsg where
  typ : Nat
  value : Bytes
  /-- bytes copied while parsing: every occurrence of `value`, every unknown field -/
  copied : Nat

def svStep (acc : SVMsg) (f : Field) : SVMsg :=
  if f.num = 1 ∧ f.wt = 0 then { acc with typ := f.val % 2 ^ 32 }
  else if f.num = 2 ∧ f.wt = 2 then { acc with value := f.payload, copied := acc.copied + f.payload.length }
  else { acc with copied := acc.copied + f.raw }

/-- parse one occurrence of the sub-message and merge it into `acc` -/
def parseSVInto (acc : SVMsg) (b : Bytes) : Option SVMsg :=
  match parseMsg b with
  | some fs => some (fs.foldl svStep acc)
  | none => none

/-! ## `LLOTimestampedStreamValue { uint64 observedAtNanoseconds = 1; LLOStreamValue streamValue = 2; }` -/

structure TSVMsg where
  /-- merged `streamValue`; `none` = field absent (`t.StreamValue == nil`) -/
  sv : Option SVMsg
  /-- unknown fields retained at this level -/
  copied : Nat

def tsvStep (acc : Option TSVMsg) (f : Field) : Option TSVMsg :=
  match acc with
  | none => none
  | some m =>
    if f.num = 1 ∧ f.wt = 0 then some m
    else if f.num = 2 ∧ f.wt = 2 then
      match parseSVInto (m.sv.getD ⟨0, [], 0⟩) f.payload with
      | some s => some { m with sv := some s }
      | none => none
    else some { m with copied := m.copied + f.raw }

def parseTSVMsg (b : Bytes) : Option TSVMsg :=
  match parseMsg b with
  | some fs => fs.foldl tsvStep (some ⟨none, 0⟩)
  | none => none

def TSVMsg.totalCopied (m : TSVMsg) : Nat :=
  m.copied + (match m.sv with | some s => s.copied | none => 0)

/-! ## `LLOStreamValueQuote { bytes bid = 1; bytes benchmark = 2; bytes ask = 3; }` -/

structure QMsg where
  bid : Bytes
  bm : Bytes
  ask : Bytes
  copied : Nat

def qStep (acc : QMsg) (f : Field) : QMsg :=
  if f.wt = 2 ∧ f.num = 1 then { acc with bid := f.payload, copied := acc.copied + f.payload.length }
  else if f.wt = 2 ∧ f.num = 2 then { acc with bm := f.payload, copied := acc.copied + f.payload.length }
  else if f.wt = 2 ∧ f.num = 3 then { acc with ask := f.payload, copied := acc.copied + f.payload.length }
  else { acc with copied := acc.copied + f.raw }

def parseQMsg (b : Bytes) : Option QMsg :=
  match parseMsg b with
  | some fs => some (fs.foldl qStep ⟨[], [], [], 0⟩)
  | none => none

/-! ## decoders with their cost -/

/-- outcome of a decode: verdict class (`"ok"` or an error class), bytes scanned, bytes copied or
    formatted, number of `unmarshalBinary` levels entered -/
structure Out where
  res : String
  scan : Nat
  extra : Nat
  levels : Nat

def Out.cost (o : Out) : Nat := o.scan + o.extra
def Out.isOk (o : Out) : Bool := o.res == "ok"

/-- sequential composition: run `k` only if `a` succeeded, add the costs -/
def Out.andThen (a : Out) (k : Unit → Out) : Out :=
  if a.isOk then
    let b := k ()
    ⟨b.res, a.scan + b.scan, a.extra + b.extra, a.levels + b.levels⟩
  else a

/-- `decimal.Decimal.UnmarshalBinary`: 4-byte exponent, then `big.Int.GobDecode` (version byte,
    `SetBytes` of the magnitude).  On error the message formats the input with `%v`. -/
def decDecode (data : Bytes) : Out :=
  if data.length < 4 then ⟨"decimal", data.length, 4 * data.length + 1, 0⟩
  else
    match data.drop 4 with
    | [] => ⟨"ok", data.length, 0, 0⟩
    | b :: _ => if b.toNat / 2 = 1 then ⟨"ok", data.length, 0, 0⟩ else ⟨"decimal", data.length, 4 * data.length + 1, 0⟩

/-- `Quote.UnmarshalBinary` -/
def quoteDecode (data : Bytes) : Out :=
  match parseQMsg data with
  | none => ⟨"proto", data.length, 0, 0⟩
  | some q =>
    (Out.mk "ok" data.length q.copied 0).andThen fun _ =>
      (decDecode q.bid).andThen fun _ => (decDecode q.bm).andThen fun _ => decDecode q.ask

/-- the non-timestamped cases of `UnmarshalProtoStreamValue` (`typ` ≠ 2) -/
def leafDecode (typ : Nat) (value : Bytes) : Out :=
  if typ = 0 then decDecode value
  else if typ = 1 then quoteDecode value
  else ⟨"unknown-type", 0, 0, 0⟩

/-- `depth >= maxTimestampedStreamValueNesting`; `limit = none` is the tree before the D7 repair -/
def limitHit (limit : Option Nat) (depth : Nat) : Bool :=
  match limit with
  | some l => decide (l ≤ depth)
  | none => false

/-- `TimestampedStreamValue.unmarshalBinary(data, depth)`.  `fuel`: any value > `data.length`
    is enough (each level is at least 4 bytes shorter). -/
def tsvDecode (limit : Option Nat) : Nat → Nat → Bytes → Out
  | 0, _, _ => ⟨"fuel", 0, 0, 0⟩
  | fuel + 1, depth, data =>
    match parseTSVMsg data with
    | none => ⟨"proto", data.length, 0, 1⟩
    | some m =>
      let here : Out := ⟨"ok", data.length, m.totalCopied, 1⟩
      match m.sv with
      | none => { here with res := "nil-stream-value" }
      | some s =>
        if s.typ = 2 then
          if limitHit limit depth then { here with res := "too-deep" }
          else here.andThen fun _ => tsvDecode limit fuel (depth + 1) s.value
        else here.andThen fun _ => leafDecode s.typ s.value

/-- `UnmarshalProtoStreamValue(&LLOStreamValue{Type: typ, Value: value})` -/
def svDecode (limit : Option Nat) (typ : Nat) (value : Bytes) : Out :=
  if typ = 2 then tsvDecode limit (value.length + 1) 0 value else leafDecode typ value

/-! ## the nested family (D7) -/

/-- a decimal wrapped in `d + 1` timestamped values -/
def nestSV : Nat → SV
  | 0 => .tsv 1 (.dec ⟨1, 0⟩)
  | d + 1 => .tsv 1 (nestSV d)

/-- its `MarshalBinary` bytes (the encoder of `DSV.LLO.Wire`, tied to the real one by op `sv.binary`) -/
def nestBytes (d : Nat) : Bytes := marshalSV (nestSV d)

end DSV.Cost
