import DSV.Cost.Wire
/-!
# C19 — cost of `Plugin.ValidateObservation` over an observation with `n` stream values

```go
observation, err := p.ObservationCodec.Decode(ao.Observation)     // proto.Unmarshal + per-entry UnmarshalProtoStreamValue
if err != nil { return fmt.Errorf("Observation decode error (got: 0x%x): %w", ao.Observation, err) }
… length checks (5, 5, 10 000) …  VerifyChannelDefinitions …
for _, streamValue := range observation.StreamValues { switch v := streamValue.(type) { case *TimestampedStreamValue: v.StreamValue.Type() … } }
```

The observation is described by what its cost depends on: its length `total` and the
`LLOStreamValue` sub-messages of its `streamValues` map entries (the stream values themselves are
decoded by the byte-level model of `DSV.Cost.Wire`).  The count limits are checked *after*
decoding, so they do not bound the decoding work; the input length does.

`validateCost` charges every entry even though the real decoder stops at the first error — an
upper estimate of the real work in the unit of `DSV.Cost.Wire` (bytes touched).
-/
namespace DSV.Cost

structure ObsShape where
  /-- `len(ao.Observation)` -/
  total : Nat
  /-- the `LLOStreamValue` sub-message bytes of every `streamValues` entry, in wire order -/
  entries : List Bytes

/-- a map entry occupies its sub-message plus at least 4 bytes (entry tag and length, key field,
    value tag and length), and the entries are disjoint parts of the observation -/
def ObsShape.WF (o : ObsShape) : Prop := (o.entries.map (fun e => e.length + 4)).sum ≤ o.total

/-- one entry: sub-message parsed in place (scan counted with the observation), `value` copied,
    `UnmarshalProtoStreamValue`, one map insert and one iteration of the validation loop -/
def entryCost (limit : Option Nat) (e : Bytes) : Nat :=
  match parseSVInto ⟨0, [], 0⟩ e with
  | none => 0
  | some s => s.copied + (svDecode limit s.typ s.value).cost + 1

def validateCost (limit : Option Nat) (o : ObsShape) : Nat :=
  o.total                                     -- proto.Unmarshal scans the observation once
  + o.total                                   -- other `bytes` fields copied, channel definitions converted and verified
  + (o.entries.map (entryCost limit)).sum     -- stream values
  + (4 * o.total + 1)                         -- error path: "0x%x" of the observation, in Decode and again in ValidateObservation

/-- the observation that carries one stream value with sub-message `e` and nothing else -/
def singleEntry (e : Bytes) : ObsShape := ⟨e.length + 4, [e]⟩

end DSV.Cost
