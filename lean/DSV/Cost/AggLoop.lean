/-!
# C19 — cost of the stream-aggregation loop of `outcome()` (defect K8)

`outcome()` walks over every mention of a (stream, aggregator) pair in the channel definitions and
runs the aggregator at most once per pair.  A successful aggregation *stores* a value, and a stored
value makes every later mention skip the pair.  A *failed* aggregation stores nothing:

* **with the attempted set** (the repaired tree: `attempted[strm]` is tested and set in front of the
  call): every pair is aggregated at most once, whether or not it succeeds;
* **without it** (defect K8): a pair whose aggregation fails is aggregated again for every mention.

Unit: one map lookup per mention, plus `c p` for one run of the aggregator of pair `p` over the
round's observations of its stream (which is where a long byzantine value is paid for).
A pair is identified by a natural number.
-/
namespace DSV.Cost.AggLoop

structure Env where
  /-- does aggregating the pair store a value in `outcome.StreamAggregates`? -/
  succ : Nat → Bool
  /-- cost of one run of the pair's aggregator over this round's observations -/
  c : Nat → Nat

structure St where
  stored : List Nat := []
  tried : List Nat := []
  cost : Nat := 0

/-- one mention of pair `p`; `memo` = the attempted set exists -/
def step (memo : Bool) (e : Env) (s : St) (p : Nat) : St :=
  if p ∈ s.stored then { s with cost := s.cost + 1 }
  else if memo = true ∧ p ∈ s.tried then { s with cost := s.cost + 1 }
  else { stored := if e.succ p then p :: s.stored else s.stored, tried := p :: s.tried, cost := s.cost + 1 + e.c p }

def run (memo : Bool) (e : Env) (mentions : List Nat) : St := mentions.foldl (step memo e) {}

end DSV.Cost.AggLoop
