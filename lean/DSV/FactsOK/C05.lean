import DSV.FactsOK.SrcC05
import DSV.Generated.Facts
import DSV.LLO.Types
/-! C05 — stage constants and the stage tests of `outcome()`, `IsReportable`, `reports()`. -/
namespace DSV.Props.C05.Facts
open DSV

theorem lifecycle_strings : Facts.llo_LifeCycleStageStaging = LLO.stageStaging ∧
    Facts.llo_LifeCycleStageProduction = LLO.stageProduction ∧ Facts.llo_LifeCycleStageRetired = LLO.stageRetired :=
  ⟨rfl, rfl, rfl⟩

theorem outcome_comparisons : Facts.llo_outcome_cmps =
    ["len(aos) < 2 * p.F + 1", "outctx.SeqNr <= 1",
     "previousOutcome.LifeCycleStage == LifeCycleStageStaging",
     "outcome.LifeCycleStage == LifeCycleStageProduction", "shouldRetireVotes > p.F",
     "outcome.LifeCycleStage == LifeCycleStageRetired", "voteCount <= p.F",
     "orderedHashes[i].ChannelID < orderedHashes[j].ChannelID",
     "bytes.Compare(orderedHashes[i].ChannelHash[:], orderedHashes[j].ChannelHash[:]) < 0",
     "voteCount <= p.F", "len(outcome.ChannelDefinitions) >= MaxOutcomeChannelDefinitionsLength",
     "v.ObservedAtNanoseconds <= prevTSV.ObservedAtNanoseconds"] := rfl

theorem reports_comparisons : Facts.llo_reports_cmps =
    ["seqNr <= 1", "outcome.LifeCycleStage == LifeCycleStageRetired",
     "outcome.LifeCycleStage != LifeCycleStageProduction"] := rfl

end DSV.Props.C05.Facts
