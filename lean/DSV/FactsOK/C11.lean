import DSV.FactsOK.SrcC11
import DSV.Generated.Facts
/-! C11 — partial-operation inventory of package `llo` as extracted from the working tree. -/
namespace DSV.Props.C11.Facts
open DSV

/-- the only explicit `panic(…)` in the package is the "should never happen" branch of
    `MakeChannelHash` (`binary.Write` to a hash never fails) -/
theorem explicit_panics : Facts.llo_explicit_panic_funcs = ["MakeChannelHash"] := rfl

/-- the only pointer dereference in `decodeObservations` is the one the model carries as `.panic` -/
theorem decodeObservations_derefs : Facts.llo_decodeObservations_derefs = ["*p.PredecessorConfigDigest"] := rfl

/-- … and `ValidateObservation` guards it -/
theorem validate_guard : Facts.llo_ValidateObservation_nilchecks = ["p.PredecessorConfigDigest == nil"] := rfl

/-- report telemetry checks for a nil stream value before calling a method on it (D4 repaired) -/
theorem telemetry_nil_guard : Facts.llo_makeReportTelemetry_nilchecks = ["v == nil"] := rfl

theorem unmarshal_nil_guard : Facts.llo_UnmarshalProtoStreamValue_nilchecks = ["enc == nil"] := rfl

theorem outcome_decode_nil_guard : Facts.llo_streamAggregatesFromProtoOutcome_nilchecks = ["d.ChannelDefinition == nil"] := rfl

theorem validate_limits : Facts.llo_ValidateObservation_cmps =
    ["outctx.SeqNr < 1",
     "len(observation.UpdateChannelDefinitions) > MaxObservationUpdateChannelDefinitionsLength",
     "len(observation.RemoveChannelIDs) > MaxObservationRemoveChannelIDsLength",
     "len(observation.StreamValues) > MaxObservationStreamValuesLength"] := rfl

end DSV.Props.C11.Facts
