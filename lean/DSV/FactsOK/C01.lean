import DSV.FactsOK.SrcC01
import DSV.Generated.Facts
/-! C01 — map-range inventory (one schedule field per site) and purity inventory, as extracted. -/
namespace DSV.Props.C01.Facts
open DSV

/-- the map ranges of `outcome()`: exactly the five sites the model's `Sched` covers
    (rmVotes, updDefs, prevVA, defsVA, defsAgg) -/
theorem outcome_mapranges : Facts.llo_outcome_mapranges =
    ["removeChannelVotesByID", "updateChannelDefinitionsByHash", "previousOutcome.ValidAfterNanoseconds",
     "outcome.ChannelDefinitions", "outcome.ChannelDefinitions"] := rfl

/-- `decodeObservations` ranges over the three maps of one observation (each key counted once) -/
theorem decodeObservations_mapranges : Facts.llo_decodeObservations_mapranges =
    ["observation.RemoveChannelIDs", "observation.UpdateChannelDefinitions", "observation.StreamValues"] := rfl

/-- `ReportableChannels` ranges over the definitions (site defsRep) and sorts the result -/
theorem reportable_mapranges : Facts.llo_ReportableChannels_mapranges = ["out.ChannelDefinitions"] := rfl

/-- `reports()` itself and the aggregators range over no map -/
theorem no_other_mapranges : Facts.llo_reports_mapranges = [] ∧ Facts.llo_ModeAggregator_mapranges = [] ∧
    Facts.llo_mostCommonType_mapranges = [] ∧ Facts.llo_MedianAggregator_mapranges = [] ∧
    Facts.llo_QuoteAggregator_mapranges = [] := ⟨rfl, rfl, rfl, rfl, rfl⟩

/-- the encoders flatten maps and sort (C10 proves canonicity of the sorted form) -/
theorem encoder_mapranges : Facts.llo_StreamAggregatesToProtoOutcome_mapranges = ["in", "aggregates"] ∧
    Facts.llo_channelDefinitionsToProtoOutcome_mapranges = ["in"] ∧
    Facts.llo_validAfterNanosecondsToProtoOutcomeSeconds_mapranges = ["in"] ∧
    Facts.llo_validAfterNanosecondsToProtoOutcomeNanoseconds_mapranges = ["in"] := ⟨rfl, rfl, rfl, rfl⟩

/-- the candidate sort breaks ties on the channel hash (D1 repaired) -/
theorem candidate_order : "bytes.Compare(orderedHashes[i].ChannelHash[:], orderedHashes[j].ChannelHash[:]) < 0" ∈ Facts.llo_outcome_cmps := by
  decide

/-- purity: no write to a receiver field or package variable and no call into time/rand/os/runtime
    inside the consensus functions — the result can only depend on the arguments -/
theorem no_hidden_state : Facts.llo_consensus_impurities = [] := rfl

/-- the Mercury reporting plugins never write to their own fields -/
theorem mercury_no_hidden_state : Facts.mercury_v1_receiver_writes = [] ∧ Facts.mercury_v2_receiver_writes = [] ∧
    Facts.mercury_v3_receiver_writes = [] ∧ Facts.mercury_v4_receiver_writes = [] := ⟨rfl, rfl, rfl, rfl⟩

end DSV.Props.C01.Facts
