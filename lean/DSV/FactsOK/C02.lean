import DSV.FactsOK.SrcC02
import DSV.Generated.Facts
/-! C02 — extracted comparison operators / median indexes of the aggregators match the model. -/
namespace DSV.Props.C02.Facts
open DSV

theorem median_comparisons : Facts.llo_MedianAggregator_cmps =
    ["timestamps[i] < timestamps[j]", "len(observations) <= f", "observations[i].Cmp(observations[j]) < 0"] := rfl
theorem median_indexes : Facts.llo_MedianAggregator_idx = ["len(timestamps) / 2", "len(observations) / 2"] := rfl
theorem quote_comparisons : Facts.llo_QuoteAggregator_cmps =
    ["len(observations) <= f", "observations[i].Benchmark.Cmp(observations[j].Benchmark) < 0",
     "observations[i].Bid.Cmp(observations[j].Bid) < 0", "observations[i].Ask.Cmp(observations[j].Ask) < 0"] := rfl
theorem quote_indexes : Facts.llo_QuoteAggregator_idx =
    ["len(observations) / 2", "len(observations) / 2", "len(observations) / 2"] := rfl
theorem quote_isValid : Facts.llo_Quote_IsValid_cmps = ["v.Bid.Cmp(v.Benchmark) <= 0", "v.Benchmark.Cmp(v.Ask) <= 0"] := rfl
theorem medianTimestamp_index : Facts.llo_medianTimestamp_idx = ["len(timestampsNanoseconds) / 2"] := rfl
theorem mostCommonType_comparisons : Facts.llo_mostCommonType_cmps =
    ["len(buckets[bucketType]) > len(largestBucket)", "len(buckets[bucketType]) == len(largestBucket)",
     "bucketType < mostCommonType"] := rfl

end DSV.Props.C02.Facts
