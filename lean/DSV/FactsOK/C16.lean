import DSV.FactsOK.SrcC16
import DSV.Generated.Facts
import DSV.LLO.CodecObs
import DSV.LLO.CodecConfig
import DSV.Mercury.ConfigOnchain
/-!
C16 — the extracted facts are the ones the wire codec models were written against: the checks
of the observation decoder, the order *assign fields, then validate* in `DecodeOffchainConfig`
(defect D5 was the opposite order), the `Validate` comparisons, the fixed lengths / versions /
word layout of the on-chain configs, the int192 width and the nesting limit.
-/
namespace DSV.Props.C16.Facts
open DSV DSV.LLO

theorem obs_decode_checks : Facts.llo_codec_obs_Decode_cmps =
    ["len(pbuf.RemoveChannelIDs) > 0", "len(pbuf.StreamValues) > 0", "pbuf.UnixTimestampNanoseconds > 0",
     "pbuf.UnixTimestampNanosecondsLegacy >= 0"] := rfl

/-- the error branches of the observation decoder (unparseable, duplicate removal id, bad value,
    negative timestamp), in source order -/
theorem obs_decode_error_branches : Facts.llo_codec_obs_Decode_errors =
    ["failed to decode observation: expected protobuf (got: 0x%x); %w",
     "failed to decode observation; duplicate channel ID in RemoveChannelIDs: %d",
     "failed to decode observation; invalid stream value for stream ID: %d; %w",
     "failed to decode observation; cannot accept negative unix timestamp: %d"] := rfl

/-- the decoded fields are assigned before `Validate` is called -/
theorem offchain_decode_steps : Facts.llo_codec_DecodeOffchainConfig_steps =
    ["assign o.ProtocolVersion", "assign o.DefaultMinReportIntervalNanoseconds", "call o.Validate"] := rfl

theorem offchain_validate : Facts.llo_OffchainConfig_Validate_cmps =
    ["c.DefaultMinReportIntervalNanoseconds != 0", "c.DefaultMinReportIntervalNanoseconds == 0"] := rfl

theorem llo_onchain_length : onchainConfigEncodedLength = Facts.llo_codec_onchainConfigEncodedLength := rfl
theorem llo_onchain_version : onchainConfigVersion = Facts.llo_codec_onchainConfigVersion := rfl
theorem llo_onchain_decode_checks : Facts.llo_codec_onchain_Decode_cmps =
    ["len(b) != onchainConfigEncodedLength", "v.Cmp(onchainConfigVersionBig) != 0", "version > math.MaxUint8"] := rfl
theorem llo_onchain_encode_checks : Facts.llo_codec_onchain_Encode_cmps = ["c.Version != onchainConfigVersion"] := rfl
theorem llo_onchain_words : Facts.llo_codec_onchain_Decode_words =
    ["bigbigendian.DeserializeSigned(32, b[:32])", "types.ConfigDigest(b[32:64])"] := rfl

theorem mercury_onchain_length : Mercury.onchainConfigEncodedLength = Facts.mercury_codec_onchainConfigEncodedLength := rfl
theorem mercury_onchain_version : Mercury.onchainConfigVersion = (Facts.mercury_codec_onchainConfigVersion : Nat) := rfl
theorem mercury_onchain_decode_checks : Facts.mercury_codec_onchain_Decode_cmps =
    ["len(b) != onchainConfigEncodedLength", "v.Cmp(onchainConfigVersionBig) != 0", "min.Cmp(max) <= 0"] := rfl
theorem mercury_onchain_decode_words : Facts.mercury_codec_onchain_Decode_words =
    ["bigbigendian.DeserializeSigned(32, b[:32])", "bigbigendian.DeserializeSigned(32, b[32:64])",
     "bigbigendian.DeserializeSigned(32, b[64:96])"] := rfl
theorem mercury_onchain_encode_words : Facts.mercury_codec_onchain_Encode_words =
    ["bigbigendian.SerializeSigned(32, onchainConfigVersionBig)", "bigbigendian.SerializeSigned(32, c.Min)",
     "bigbigendian.SerializeSigned(32, c.Max)"] := rfl

theorem int192_width : Mercury.byteWidthInt192 = Facts.mercury_codec_ByteWidthInt192 := rfl
theorem int192_calls : Facts.mercury_codec_int192_calls =
    ["bigbigendian.SerializeSigned(ByteWidthInt192, i)", "bigbigendian.DeserializeSigned(ByteWidthInt192, s)"] := rfl

theorem nesting_limit : maxTSVNesting = Facts.llo_codec_maxTimestampedStreamValueNesting := rfl
theorem nesting_check : Facts.llo_codec_TSV_unmarshalBinary_cmps =
    ["t.StreamValue.Type == LLOStreamValue_TimestampedStreamValue", "depth >= maxTimestampedStreamValueNesting"] := rfl

end DSV.Props.C16.Facts
