import DSV.FactsOK.SrcC15
import DSV.Generated.Facts
/-! C15 — extracted comparisons of `ModeAggregator` / `mostCommonType` are the ones the model transcribes. -/
namespace DSV.Props.C15.Facts
open DSV

theorem mode_comparisons : Facts.llo_ModeAggregator_cmps = ["count > modeCount", "modeCount < f + 1"] := rfl

theorem mostCommonType_comparisons : Facts.llo_mostCommonType_cmps =
    ["len(buckets[bucketType]) > len(largestBucket)", "len(buckets[bucketType]) == len(largestBucket)",
     "bucketType < mostCommonType"] := rfl

/-- `ModeAggregator` and `mostCommonType` range over no Go map (keys are sorted first) -/
theorem no_map_ranges : Facts.llo_ModeAggregator_mapranges = [] ∧ Facts.llo_mostCommonType_mapranges = [] := ⟨rfl, rfl⟩

end DSV.Props.C15.Facts
