import DSV.FactsOK.SrcC15
import DSV.Generated.Facts
/-! C15 — extracted comparisons of `ModeAggregator` / `mostCommonType` are the ones the model transcribes. -/
namespace DSV.Props.C15.Facts
open DSV

theorem mode_comparisons : Facts.llo_ModeAggregator_cmps = ["count > modeCount", "modeCount < f + 1"] := rfl

theorem mostCommonType_comparisons : Facts.llo_mostCommonType_cmps =
    ["len(buckets[bucketType]) > len(largestBucket)", "len(buckets[bucketType]) == len(largestBucket)",
     "bucketType < mostCommonType"] := rfl

/-- `ModeAggregator` and `mostCommonType` range over no Go map (keys are sorted first) -/
theorem no_map_ranges : Facts.llo_ModeAggregator_mapranges = [] ∧ Facts.llo_mostCommonType_mapranges = [] := ⟨rfl, rfl⟩

/-- `reports()` reads the aggregates in exactly one place, by stream id AND aggregator of the definition's entry
    (`channelReport` of the model; `report_values_are_outcome_aggregates`) -/
theorem reports_lookup_by_pair : Facts.llo_reports_aggregate_lookups =
    ["outcome.StreamAggregates[strm.StreamID][strm.Aggregator]"] := by decide

end DSV.Props.C15.Facts
