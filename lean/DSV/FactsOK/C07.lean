import DSV.FactsOK.SrcC07
import DSV.Generated.Facts
import DSV.Mercury.V1
import DSV.Mercury.V2
import DSV.Mercury.V3
import DSV.Mercury.V4
/-!
C07 — the validation calls, their comparison operators, the overflow check and the length checks
extracted from the working tree are the ones the model was written against.  Dropping a
`Validate*` call from a `validateReport`, weakening `<=` to `<`, removing the `MaxUint32` check …
changes an extracted list and breaks this file.
-/
namespace DSV.Props.C07.Facts
open DSV

theorem validateBetween_cmps : Facts.mercury_ValidateBetween_cmps = ["min.Cmp(answer) <= 0", "answer.Cmp(max) <= 0"] := rfl
theorem validateFee_calls : Facts.mercury_ValidateFee_calls = ["ValidateBetween(name, answer, big.NewInt(0), MaxInt192)"] := rfl
theorem maxInt192_init : Facts.mercury_MaxInt192_init = ["new(big.Int).Lsh(one, 191)", "MaxInt192.Sub(MaxInt192, one)"] := rfl
theorem validateValidFrom_cmps : Facts.mercury_ValidateValidFromTimestamp_cmps = ["observationTimestamp < validFromTimestamp"] := rfl
theorem validateExpiresAt_cmps : Facts.mercury_ValidateExpiresAt_cmps = ["observationTimestamp > expiresAt"] := rfl
theorem evmHashLen : Mercury.evmHashLen = Facts.mercury_EvmHashLen := rfl
theorem byteWidthInt192 : Facts.mercury_ByteWidthInt192 = 24 := rfl

theorem v1_validateCurrentBlock_cmps : Facts.mercury_v1_ValidateCurrentBlock_cmps =
    ["rf.ValidFromBlockNum < 0", "rf.CurrentBlockNum < 0", "rf.ValidFromBlockNum > rf.CurrentBlockNum",
     "len(rf.CurrentBlockHash) != mercury.EvmHashLen"] := rfl

theorem v1_validateReport_calls : Facts.mercury_v1_validateReport_calls =
    ["mercury.ValidateBetween(\"median benchmark price\", rf.BenchmarkPrice, rp.onchainConfig.Min, rp.onchainConfig.Max)",
     "mercury.ValidateBetween(\"median bid\", rf.Bid, rp.onchainConfig.Min, rp.onchainConfig.Max)",
     "mercury.ValidateBetween(\"median ask\", rf.Ask, rp.onchainConfig.Min, rp.onchainConfig.Max)",
     "ValidateCurrentBlock(rf)"] := rfl

theorem v2_validateReport_calls : Facts.mercury_v2_validateReport_calls =
    ["mercury.ValidateBetween(\"median benchmark price\", rf.BenchmarkPrice, rp.onchainConfig.Min, rp.onchainConfig.Max)",
     "mercury.ValidateFee(\"median link fee\", rf.LinkFee)",
     "mercury.ValidateFee(\"median native fee\", rf.NativeFee)",
     "mercury.ValidateValidFromTimestamp(rf.Timestamp, rf.ValidFromTimestamp)",
     "mercury.ValidateExpiresAt(rf.Timestamp, rf.ExpiresAt)"] := rfl

theorem v3_validateReport_calls : Facts.mercury_v3_validateReport_calls =
    ["mercury.ValidateBetween(\"median benchmark price\", rf.BenchmarkPrice, rp.onchainConfig.Min, rp.onchainConfig.Max)",
     "mercury.ValidateBetween(\"median bid invariant\", rf.Bid, rp.onchainConfig.Min, rf.BenchmarkPrice)",
     "mercury.ValidateBetween(\"median ask invariant\", rf.Ask, rf.BenchmarkPrice, rp.onchainConfig.Max)",
     "mercury.ValidateBetween(\"median bid\", rf.Bid, rp.onchainConfig.Min, rp.onchainConfig.Max)",
     "mercury.ValidateBetween(\"median ask\", rf.Ask, rp.onchainConfig.Min, rp.onchainConfig.Max)",
     "mercury.ValidateFee(\"median link fee\", rf.LinkFee)",
     "mercury.ValidateFee(\"median native fee\", rf.NativeFee)",
     "mercury.ValidateValidFromTimestamp(rf.Timestamp, rf.ValidFromTimestamp)",
     "mercury.ValidateExpiresAt(rf.Timestamp, rf.ExpiresAt)"] := rfl

/-- v4 validates exactly what v2 validates -/
theorem v4_validateReport_calls : Facts.mercury_v4_validateReport_calls = Facts.mercury_v2_validateReport_calls := rfl

/-- `Report` has the same shape in the four versions: the same calls in the same order … -/
theorem report_calls :
    Facts.mercury_v1_Report_calls =
      ["parseAttributedObservations(rp.logger, aos)", "rp.buildReportFields(ctx, previousReport, paos)",
       "rp.validateReport(rf)", "rp.reportCodec.BuildReport(ctx, rf)"] ∧
    Facts.mercury_v2_Report_calls = Facts.mercury_v1_Report_calls ∧
    Facts.mercury_v3_Report_calls = Facts.mercury_v1_Report_calls ∧
    Facts.mercury_v4_Report_calls = Facts.mercury_v1_Report_calls := ⟨rfl, rfl, rfl, rfl⟩

/-- … and the same comparisons (observation count, overlap, length checks) -/
theorem report_cmps :
    Facts.mercury_v1_Report_cmps =
      ["len(paos) == 0", "rp.f + 1 <= len(paos)", "rf.CurrentBlockNum < rf.ValidFromBlockNum",
       "len(report) <= rp.maxReportLength", "len(report) == 0"] ∧
    Facts.mercury_v2_Report_cmps =
      ["len(paos) == 0", "rp.f + 1 <= len(paos)", "rf.Timestamp < rf.ValidFromTimestamp",
       "len(report) <= rp.maxReportLength", "len(report) == 0"] ∧
    Facts.mercury_v3_Report_cmps = Facts.mercury_v2_Report_cmps ∧
    Facts.mercury_v4_Report_cmps = Facts.mercury_v2_Report_cmps := ⟨rfl, rfl, rfl, rfl⟩

/-- the uint32 checks of `buildReportFields` (v2–v4 identical) and the `ExpiresAt` assignment -/
theorem buildReportFields_cmps :
    Facts.mercury_v2_buildReportFields_cmps =
      ["maxFinalizedTimestamp == math.MaxUint32", "maxFinalizedTimestamp < 0",
       "maxFinalizedTimestamp >= math.MaxUint32",
       "int64(rf.Timestamp) + int64(rp.offchainConfig.ExpirationWindow) > math.MaxUint32"] ∧
    Facts.mercury_v3_buildReportFields_cmps = Facts.mercury_v2_buildReportFields_cmps ∧
    Facts.mercury_v4_buildReportFields_cmps = Facts.mercury_v2_buildReportFields_cmps ∧
    Facts.mercury_v1_buildReportFields_cmps = [] := ⟨rfl, rfl, rfl, rfl⟩

theorem expiresAt_assigns :
    Facts.mercury_v2_expiresAt_assigns = ["rf.Timestamp + rp.offchainConfig.ExpirationWindow"] ∧
    Facts.mercury_v3_expiresAt_assigns = Facts.mercury_v2_expiresAt_assigns ∧
    Facts.mercury_v4_expiresAt_assigns = Facts.mercury_v2_expiresAt_assigns := ⟨rfl, rfl, rfl⟩

/-- v3 drops observations whose prices claim validity but violate `bid <= mid <= ask` -/
theorem v3_validatePrices :
    Facts.mercury_v3_validatePrices_cmps = ["bid.Cmp(benchmarkPrice) > 0", "benchmarkPrice.Cmp(ask) > 0"] ∧
    Facts.mercury_v3_parse_calls = ["validatePrices(pao.Bid, pao.BenchmarkPrice, pao.Ask)"] := ⟨rfl, rfl⟩

end DSV.Props.C07.Facts
