import DSV.FactsOK.SrcC04
import DSV.Generated.Facts
/-! C04 — stage tests of `outcome()` / `reports()` and the reportability test, as extracted. -/
namespace DSV.Props.C04.Facts
open DSV

theorem promotion_and_retirement_tests : Facts.llo_outcome_cmps.take 6 =
    ["len(aos) < 2 * p.F + 1", "outctx.SeqNr <= 1",
     "previousOutcome.LifeCycleStage == LifeCycleStageStaging",
     "outcome.LifeCycleStage == LifeCycleStageProduction", "shouldRetireVotes > p.F",
     "outcome.LifeCycleStage == LifeCycleStageRetired"] := rfl

theorem reports_comparisons : Facts.llo_reports_cmps =
    ["seqNr <= 1", "outcome.LifeCycleStage == LifeCycleStageRetired",
     "outcome.LifeCycleStage != LifeCycleStageProduction"] := rfl

theorem isReportable_comparisons : Facts.llo_IsReportable_cmps =
    ["out.LifeCycleStage == LifeCycleStageRetired", "protocolVersion > 0", "obsTsNanos < validAfterNanos",
     "obsTsNanos - validAfterNanos < minReportInterval", "protocolVersion == 0",
     "validAfterSeconds >= obsTsSeconds"] := rfl

/-- the decision points of `observation()` as transcribed in `DSV/LLO/Observe.lean` -/
theorem observation_decision_points : Facts.llo_observation_ifs =
    ["outctx.SeqNr < 1", "outctx.SeqNr == 1", "obsTSNanos < 0",
     "previousOutcome.LifeCycleStage == LifeCycleStageRetired",
     "VerifyChannelDefinitions(p.ReportCodecs, previousOutcome.ChannelDefinitions); err != nil",
     "p.PredecessorConfigDigest != nil && previousOutcome.LifeCycleStage == LifeCycleStageStaging",
     "err2 != nil", "obs.ShouldRetire && p.Config.VerboseLogging",
     "VerifyChannelDefinitions(p.ReportCodecs, expectedChannelDefs); err != nil",
     "exists && prev.Equals(channelDefinition)",
     "len(obs.UpdateChannelDefinitions) >= MaxObservationUpdateChannelDefinitionsLength",
     "len(obs.UpdateChannelDefinitions) > 0", "len(obs.RemoveChannelIDs) > 0",
     "len(previousOutcome.ChannelDefinitions) == 0",
     "p.DataSource.Observe(observationCtx, obs.StreamValues, &dsOpts{…}); err != nil"] := rfl

end DSV.Props.C04.Facts
