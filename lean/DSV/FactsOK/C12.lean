import DSV.FactsOK.SrcC12
import DSV.Generated.Facts
import DSV.EVM.Codec
/-!
C12 — the facts extracted from the working tree are the ones the EVM codec model was written against:
guards (if-conditions) in source order, the fields of the report structs as the code computes them
(`validAfterSeconds + 1`, `observationTimestampSeconds + opts.ExpirationWindow`, `CalculateFee(…)`,
`….Mul(multiplier).BigInt()`), the argument order of `Schema.Pack` / `BaseSchema.Pack`, the two ABI
schemas, the 192-bit bounds, the fee formula's calls and constants.  A change to any of them breaks
this file (proved by `rfl`).
-/
namespace DSV.Props.C12.Facts
open DSV

theorem ABIEncoder_EncodePacked_conds : Facts.evm_ABIEncoder_EncodePacked_conds =
    ["len(a.encoders) != 1",
     "len(a.encoders) != 2"] := rfl

theorem ABIEncoder_EncodePadded_conds : Facts.evm_ABIEncoder_EncodePadded_conds =
    ["len(a.encoders) != 1",
     "len(a.encoders) != 2"] := rfl

theorem CalculateFee_calls : Facts.evm_CalculateFee_calls =
    ["baseUSDFee.IsZero()",
     "baseUSDFee.IsNegative()",
     "tokenPriceInUSD.IsZero()",
     "tokenPriceInUSD.IsNegative()",
     "big.NewInt(0)",
     "baseUSDFee.DivRound(tokenPriceInUSD, Precision)",
     "fee.Mul(FeeScalingFactor)",
     "fee.BigInt()"] := rfl

theorem CalculateFee_conds : Facts.evm_CalculateFee_conds =
    ["baseUSDFee.IsZero() || baseUSDFee.IsNegative() || tokenPriceInUSD.IsZero() || tokenPriceInUSD.IsNegative()"] := rfl

theorem ExtractReportValues_conds : Facts.evm_ExtractReportValues_conds =
    ["len(report.Values) != 3",
     "!is",
     "quote == nil"] := rfl

theorem ExtractTimestamps_arith : Facts.evm_ExtractTimestamps_arith =
    ["report.ValidAfterNanoseconds / 1e9",
     "report.ObservationTimestampNanoseconds / 1e9"] := rfl

theorem ExtractTimestamps_cmps : Facts.evm_ExtractTimestamps_cmps =
    ["vas > math.MaxUint32",
     "ots > math.MaxUint32"] := rfl

theorem FeeScalingFactor : Facts.evm_FeeScalingFactor = "decimal.NewFromInt(1e18)" := rfl

theorem Precision : Facts.evm_Precision = "18" := rfl

theorem ZeroBytesSentinel : Facts.evm_ZeroBytesSentinel = "\"bytes0\"" := rfl

theorem applyMultiplier_calls : Facts.evm_applyMultiplier_calls =
    ["d.Mul(a.getNormalizedMultiplier()).BigInt()"] := rfl

theorem buildHeader_conds : Facts.evm_buildHeader_conds =
    ["rf.LinkFee == nil",
     "rf.LinkFee.Cmp(zero) < 0",
     "rf.LinkFee.Cmp(maxUint192) > 0",
     "rf.NativeFee == nil",
     "rf.NativeFee.Cmp(zero) < 0",
     "rf.NativeFee.Cmp(maxUint192) > 0"] := rfl

theorem buildHeader_pack : Facts.evm_buildHeader_pack =
    ["BaseSchema.Pack",
     "rf.FeedID",
     "rf.ValidFromTimestamp",
     "rf.Timestamp",
     "rf.NativeFee",
     "rf.LinkFee",
     "rf.ExpiresAt"] := rfl

theorem buildPayload_conds : Facts.evm_buildPayload_conds =
    ["len(encoders) != len(values)",
     "values[i] == nil"] := rfl

theorem encodePacked_conds : Facts.evm_encodePacked_conds =
    ["a.Type == ZeroBytesSentinel",
     "sv == nil"] := rfl

theorem encodeUint64Packed_conds : Facts.evm_encodeUint64Packed_conds =
    ["a.Type == ZeroBytesSentinel"] := rfl

theorem extractPrice_cases : Facts.evm_extractPrice_cases =
    ["case *llo.Decimal",
     "case *llo.Quote",
     "case nil",
     "default"] := rfl

theorem getNormalizedMultiplier_calls : Facts.evm_getNormalizedMultiplier_calls =
    ["decimal.NewFromInt(1)",
     "decimal.NewFromBigInt(a.Multiplier.ToInt(), 0)"] := rfl

theorem premium_Encode_conds : Facts.evm_premium_Encode_conds =
    ["report.Specimen",
     "(&opts).Decode(cd.Opts); err != nil",
     "opts.Multiplier == nil",
     "opts.Multiplier.IsZero()"] := rfl

theorem premium_Encode_fields : Facts.evm_premium_Encode_fields =
    ["ValidFromTimestamp: validAfterSeconds + 1",
     "Timestamp: observationTimestampSeconds",
     "NativeFee: CalculateFee(nativePrice, opts.BaseUSDFee)",
     "LinkFee: CalculateFee(linkPrice, opts.BaseUSDFee)",
     "ExpiresAt: observationTimestampSeconds + opts.ExpirationWindow",
     "BenchmarkPrice: quote.Benchmark.Mul(multiplier).BigInt()",
     "Bid: quote.Bid.Mul(multiplier).BigInt()",
     "Ask: quote.Ask.Mul(multiplier).BigInt()"] := rfl

theorem premium_OptsDecode_conds : Facts.evm_premium_OptsDecode_conds =
    ["len(opts) == 0"] := rfl

theorem premium_Verify_conds : Facts.evm_premium_Verify_conds =
    ["(&opts).Decode(cd.Opts); err != nil",
     "opts.BaseUSDFee.IsNegative()",
     "opts.FeedID == (common.Hash{})",
     "len(cd.Streams) != 3"] := rfl

theorem streamlined_Encode_calls : Facts.evm_streamlined_Encode_calls =
    ["encodePackedUint32(uint32(cd.ReportFormat))",
     "encodePackedUint32(r.ChannelID)",
     "opts.FeedID.Bytes()",
     "encodePackedUint64(r.ValidAfterNanoseconds)",
     "encoder.EncodePacked(r.Values[i])"] := rfl

theorem streamlined_Encode_conds : Facts.evm_streamlined_Encode_conds =
    ["(&opts).Decode(cd.Opts); err != nil",
     "len(opts.ABI) != len(r.Values)",
     "opts.FeedID == nil"] := rfl

theorem streamlined_Verify_conds : Facts.evm_streamlined_Verify_conds =
    ["(&opts).Decode(cd.Opts); err != nil",
     "len(opts.ABI) != len(cd.Streams)"] := rfl

theorem unpacked_BaseSchema : Facts.evm_unpacked_BaseSchema =
    ["",
     "Unexpected error during abi.NewType: %s",
     "feedId",
     "bytes32",
     "validFromTimestamp",
     "uint32",
     "observationsTimestamp",
     "uint32",
     "nativeFee",
     "uint192",
     "linkFee",
     "uint192",
     "expiresAt",
     "uint32"] := rfl

theorem unpacked_Encode_conds : Facts.evm_unpacked_Encode_conds =
    ["report.Specimen",
     "len(report.Values) < 2",
     "(&opts).Decode(cd.Opts); err != nil"] := rfl

theorem unpacked_Encode_fields : Facts.evm_unpacked_Encode_fields =
    ["FeedID: opts.FeedID",
     "ValidFromTimestamp: validAfterSeconds + 1",
     "Timestamp: observationTimestampSeconds",
     "NativeFee: CalculateFee(nativePrice, opts.BaseUSDFee)",
     "LinkFee: CalculateFee(linkPrice, opts.BaseUSDFee)",
     "ExpiresAt: observationTimestampSeconds + opts.ExpirationWindow"] := rfl

theorem unpacked_Verify_conds : Facts.evm_unpacked_Verify_conds =
    ["opts.Decode(cd.Opts); err != nil",
     "opts.BaseUSDFee.IsNegative()",
     "opts.FeedID == (common.Hash{})",
     "len(cd.Streams) < 3",
     "len(opts.ABI) != len(cd.Streams) - 2"] := rfl

theorem unpacked_maxUint192 : Facts.evm_unpacked_maxUint192 = "new(big.Int).Sub(new(big.Int).Lsh(big.NewInt(1), 192), big.NewInt(1))" := rfl

theorem v3_BuildReport_checks : Facts.evm_v3_BuildReport_checks =
    ["checkInt192(\"benchmarkPrice\", rf.BenchmarkPrice)",
     "checkInt192(\"bid\", rf.Bid)",
     "checkInt192(\"ask\", rf.Ask)"] := rfl

theorem v3_BuildReport_conds : Facts.evm_v3_BuildReport_conds =
    ["rf.BenchmarkPrice == nil",
     "rf.Bid == nil",
     "rf.Ask == nil",
     "rf.LinkFee == nil",
     "rf.LinkFee.Cmp(zero) < 0",
     "rf.LinkFee.Cmp(maxUint192) > 0",
     "rf.NativeFee == nil",
     "rf.NativeFee.Cmp(zero) < 0",
     "rf.NativeFee.Cmp(maxUint192) > 0"] := rfl

theorem v3_BuildReport_pack : Facts.evm_v3_BuildReport_pack =
    ["Schema.Pack",
     "r.feedID",
     "rf.ValidFromTimestamp",
     "rf.Timestamp",
     "rf.NativeFee",
     "rf.LinkFee",
     "rf.ExpiresAt",
     "rf.BenchmarkPrice",
     "rf.Bid",
     "rf.Ask"] := rfl

theorem v3_Schema : Facts.evm_v3_Schema =
    ["",
     "Unexpected error during abi.NewType: %s",
     "feedId",
     "bytes32",
     "validFromTimestamp",
     "uint32",
     "observationsTimestamp",
     "uint32",
     "nativeFee",
     "uint192",
     "linkFee",
     "uint192",
     "expiresAt",
     "uint32",
     "benchmarkPrice",
     "int192",
     "bid",
     "int192",
     "ask",
     "int192"] := rfl

theorem v3_bounds : Facts.evm_v3_bounds =
    ["new(big.Int).Sub(new(big.Int).Lsh(big.NewInt(1), 192), big.NewInt(1))",
     "new(big.Int).Sub(new(big.Int).Lsh(big.NewInt(1), 191), big.NewInt(1))",
     "new(big.Int).Neg(new(big.Int).Lsh(big.NewInt(1), 191))"] := rfl

theorem v3_checkInt192_conds : Facts.evm_v3_checkInt192_conds =
    ["v.Cmp(minInt192) < 0 || v.Cmp(maxInt192) > 0"] := rfl

/-- the model's constants are the extracted ones -/
theorem precision_model : EVM.feePrecision = 18 ∧ Facts.evm_Precision = "18" := ⟨rfl, rfl⟩
theorem scaling_model : EVM.feeScalingFactor = ⟨10 ^ 18, 0⟩ ∧ Facts.evm_FeeScalingFactor = "decimal.NewFromInt(1e18)" :=
  ⟨by decide, rfl⟩
theorem sentinel_model : EVM.zeroBytesSentinel = "bytes0" ∧ Facts.evm_ZeroBytesSentinel = "\"bytes0\"" := ⟨rfl, rfl⟩
theorem bounds_model : EVM.maxUint192 = 2 ^ 192 - 1 ∧ EVM.maxInt192 = 2 ^ 191 - 1 ∧ EVM.minInt192 = -(2 ^ 191) :=
  ⟨rfl, rfl, rfl⟩

end DSV.Props.C12.Facts
