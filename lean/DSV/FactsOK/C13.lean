import DSV.FactsOK.SrcC13
import DSV.Generated.Facts
import DSV.EVM.IntEnc
/-!
C13 — the facts extracted from the working tree are the ones the model was written against.
A changed regex literal or comparison in `EncodePackedBigInt` / `EncodePaddedBigInt` breaks this file.
-/
namespace DSV.Props.C13.Facts
open DSV

theorem typeRegex_literal : Facts.evm_typeRegex =
    "^(u?int)(8|16|24|32|40|48|56|64|72|80|88|96|104|112|120|128|136|144|152|160|168|176|184|192|200|208|216|224|232|240|248|256)$" := rfl

/-- the alternation of the regex is exactly the model's width list -/
theorem widths_literal : EVM.widths =
    [8,16,24,32,40,48,56,64,72,80,88,96,104,112,120,128,136,144,152,160,168,176,184,192,200,208,216,224,232,240,248,256] := by
  decide

theorem packed_comparisons : Facts.evm_EncodePackedBigInt_cmps =
    ["typePrefix == \"uint\"", "value.Sign() < 0", "value.Cmp(maxSize) >= 0",
     "value.Cmp(minInt) < 0", "value.Cmp(maxInt) > 0"] := rfl

theorem padded_comparisons : Facts.evm_EncodePaddedBigInt_cmps = ["len(b) > 32", "v.Sign() < 0"] := rfl

end DSV.Props.C13.Facts
