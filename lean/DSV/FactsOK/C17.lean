import DSV.FactsOK.SrcC17
import DSV.Generated.Facts
import DSV.LLO.TextSV
/-!
C17 — the regex and format literals extracted from the working tree are the ones the text models
were written against.  Reverting the quote regex to `[0-9.]+` (defect D3), anchoring it, or changing
a `Sprintf` format breaks this file.
-/
namespace DSV.Props.C17.Facts
open DSV DSV.LLO

theorem quoteRegex_literal : Facts.llo_quoteRegex =
    "Q\\{Bid: (-?[0-9.]+), Benchmark: (-?[0-9.]+), Ask: (-?[0-9.]+)\\}" := rfl

theorem tsvRegex_literal : Facts.llo_timestampedStreamValueRegex =
    "^TSV\\{ObservedAtNanoseconds: ([0-9]+), StreamValue: (.+)\\}$" := rfl

theorem quote_format : Facts.llo_Quote_MarshalText_fmt = ["Q{Bid: %s, Benchmark: %s, Ask: %s}"] := rfl
theorem tsv_format : Facts.llo_TSV_MarshalText_fmt = ["TSV{ObservedAtNanoseconds: %d, StreamValue: %s}"] := rfl

/-- the literal pieces the model prints and matches are the pieces of the two formats -/
theorem quote_pieces : String.ofList (quotePre1 ++ ['%', 's'] ++ quotePre2 ++ ['%', 's'] ++ quotePre3 ++ ['%', 's'] ++ ['}']) =
    "Q{Bid: %s, Benchmark: %s, Ask: %s}" := by decide
theorem tsv_pieces : String.ofList (tsvPre1 ++ ['%', 'd'] ++ tsvPre2 ++ ['%', 's'] ++ ['}']) =
    "TSV{ObservedAtNanoseconds: %d, StreamValue: %s}" := by decide

theorem quote_match_count : Facts.llo_codec_Quote_UnmarshalText_cmps = ["len(matches) != 4"] := rfl
theorem tsv_match_count : Facts.llo_codec_TSV_UnmarshalText_cmps = ["len(matches) != 3"] := rfl
theorem tsv_scan : Facts.llo_codec_TSV_UnmarshalText_scan =
    ["fmt.Sscanf(timestamp, \"%d\", &v.ObservedAtNanoseconds)", "json.Unmarshal([]byte(serializedT), tSv)"] := rfl

theorem json_seqnr_check : Facts.llo_codec_json_Decode_cmps = ["d.SeqNr == 0"] := rfl
theorem json_decode_digest : Facts.llo_codec_json_Decode_digest =
    ["hex.DecodeString(d.ConfigDigest)", "types.BytesToConfigDigest(cdBytes)"] := rfl
theorem json_unpack_digest : Facts.llo_codec_json_Unpack_digest =
    ["hex.DecodeString(p.ConfigDigest)", "types.BytesToConfigDigest(cdBytes)"] := rfl

end DSV.Props.C17.Facts
