import DSV.FactsOK.SrcC18
import DSV.Generated.Facts
/-! C18 — the comparison that keeps a newer timestamped aggregate, as extracted. -/
namespace DSV.Props.C18.Facts
open DSV

/-- the last comparison of `outcome()` is `v.ObservedAtNanoseconds <= prevTSV.ObservedAtNanoseconds`
    (keep the previous value unless the new one is strictly newer) -/
theorem keep_newer : Facts.llo_outcome_cmps.getLast? = some "v.ObservedAtNanoseconds <= prevTSV.ObservedAtNanoseconds" := rfl

theorem outcome_mapranges : Facts.llo_outcome_mapranges =
    ["removeChannelVotesByID", "updateChannelDefinitionsByHash", "previousOutcome.ValidAfterNanoseconds",
     "outcome.ChannelDefinitions", "outcome.ChannelDefinitions"] := rfl

/-- the skip tests in front of the aggregator call, in source order: stored → (copy) → attempted, then the
    pair is marked attempted — the body `aggregateOneMemo` models -/
theorem aggregation_loop_shape : Facts.llo_outcome_aggregation_guards =
    ["if outcome.StreamAggregates[sid][agg]; exists { continue }",
     "if attempted[strm]; tried { continue }",
     "attempted[strm] = struct{}{}"] := by decide

end DSV.Props.C18.Facts
