import DSV.FactsOK.SrcC06
import DSV.Generated.Facts
/-! C06 — thresholds and stage tests of `outcome()` as extracted from the working tree. -/
namespace DSV.Props.C06.Facts
open DSV

/-- every comparison of `Plugin.outcome`, in source order (vote thresholds `<= p.F`, `> p.F`,
    the 2f+1 check, stage tests, the channel cap, the candidate order with its hash tie-break) -/
theorem outcome_comparisons : Facts.llo_outcome_cmps =
    ["len(aos) < 2 * p.F + 1", "outctx.SeqNr <= 1",
     "previousOutcome.LifeCycleStage == LifeCycleStageStaging",
     "outcome.LifeCycleStage == LifeCycleStageProduction", "shouldRetireVotes > p.F",
     "outcome.LifeCycleStage == LifeCycleStageRetired", "voteCount <= p.F",
     "orderedHashes[i].ChannelID < orderedHashes[j].ChannelID",
     "bytes.Compare(orderedHashes[i].ChannelHash[:], orderedHashes[j].ChannelHash[:]) < 0",
     "voteCount <= p.F", "len(outcome.ChannelDefinitions) >= MaxOutcomeChannelDefinitionsLength",
     "v.ObservedAtNanoseconds <= prevTSV.ObservedAtNanoseconds"] := rfl

theorem validate_limits : Facts.llo_ValidateObservation_cmps =
    ["outctx.SeqNr < 1",
     "len(observation.UpdateChannelDefinitions) > MaxObservationUpdateChannelDefinitionsLength",
     "len(observation.RemoveChannelIDs) > MaxObservationRemoveChannelIDsLength",
     "len(observation.StreamValues) > MaxObservationStreamValuesLength"] := rfl

theorem lifecycle_strings : Facts.llo_LifeCycleStageStaging = "staging" ∧
    Facts.llo_LifeCycleStageProduction = "production" ∧ Facts.llo_LifeCycleStageRetired = "retired" := ⟨rfl, rfl, rfl⟩

/-- the predecessor digest stored in the decoded on-chain config is a copy (array conversion of the slice,
    then the address of that local array), never a pointer into the caller's buffer: the model's `env.check`
    is a function of the attestation bytes alone because the digest it is checked against never changes -/
theorem predecessor_digest_copied : Facts.llo_onchain_decode_digest =
    ["types.ConfigDigest(b[32:64])", "&cd"] := by decide

end DSV.Props.C06.Facts
