import DSV.FactsOK.SrcC20
import DSV.Generated.Facts
import DSV.Props.C20
/-!
C20 — the lock programs and the decision-function comparisons extracted from the working tree are
the ones the theorems need.

* Every function of package `mtls` that touches `.keys` / `.mu` is one of `Keys`, `Replace`,
  `isValidPublicKey` (closed world), and each extracted action sequence is **well locked**
  (`wellLocked … = true`, by evaluation).  Dropping `RLock`, taking `Lock` after the assignment,
  or writing under the read lock makes the corresponding line below false, so this file no
  longer builds.
* `system_of_extracted_programs` instantiates the general theorems of `DSV.Props.C20` on a system
  whose threads run exactly the extracted programs.
-/
namespace DSV.Props.C20.Facts
open DSV DSV.MTLS

/-- closed world: no other function selects `.keys` or `.mu` -/
theorem guarded_field_users : Facts.mtls_guarded_field_users =
    ["PublicKeys.Keys", "PublicKeys.Replace", "PublicKeys.isValidPublicKey"] := by decide

/-- the extracted programs, compiled (deferred unlock runs last) -/
theorem replace_program : compile Facts.mtls_Replace_trace = some [.lock, .write, .unlock] := by decide
theorem keys_program : compile Facts.mtls_Keys_trace = some [.rlock, .read, .read, .runlock] := by decide
theorem isValid_program : compile Facts.mtls_isValidPublicKey_trace = some [.rlock, .read, .runlock] := by decide
/-- the copy of the *source* list in `Replace(pubs)` happens under the source's read lock -/
theorem replace_src_program : compile Facts.mtls_Replace_src_trace = some [.rlock, .read, .read, .runlock] := by decide
/-- `VerifyPeerCertificate` itself never touches the guarded fields (it calls `isValidPublicKey`) -/
theorem verify_closure_trace : Facts.mtls_VerifyPeerCertificate_trace = [] := by decide

/-- **the `wellLocked` instantiation** -/
theorem replace_wellLocked : wellLocked Facts.mtls_Replace_trace = true := by decide
theorem keys_wellLocked : wellLocked Facts.mtls_Keys_trace = true := by decide
theorem isValid_wellLocked : wellLocked Facts.mtls_isValidPublicKey_trace = true := by decide
theorem replace_src_wellLocked : wellLocked Facts.mtls_Replace_src_trace = true := by decide
/-- `r.Replace(r)`: source section followed by the destination section is still well locked -/
theorem replace_self_wellLocked :
    wellLocked (Facts.mtls_Replace_src_trace ++ Facts.mtls_Replace_trace) = true := by decide

/-- `Replace` performs exactly one write of `keys` (a single update, nothing intermediate to see),
    the two readers perform none -/
theorem replace_single_write :
    (compile Facts.mtls_Replace_trace).map writes = some 1
    ∧ (compile Facts.mtls_Keys_trace).map writes = some 0
    ∧ (compile Facts.mtls_isValidPublicKey_trace).map writes = some 0 := by decide

/-- the comparisons the decision function is modelled from -/
theorem verify_comparisons : Facts.mtls_VerifyPeerCertificate_cmps = ["len(rawCerts) != 1"] := by decide
theorem pubKeyFromCert_comparisons :
    Facts.mtls_pubKeyFromCert_cmps = ["cert.PublicKeyAlgorithm != x509.Ed25519"] := by decide
theorem isValid_comparisons :
    Facts.mtls_isValidPublicKey_cmps = ["subtle.ConstantTimeCompare(pub, vpub) == 1"] := by decide

/-- TLS 1.3 only, custom verification installed, client certificate required by the credentials -/
theorem tls_config : Facts.mtls_tlsConfig_fields =
    ["Certificates", "InsecureSkipVerify: true", "MaxVersion: tls.VersionTLS13",
     "MinVersion: tls.VersionTLS13", "VerifyPeerCertificate: pubs.VerifyPeerCertificate()"] := by decide
theorem client_auth : Facts.mtls_NewTransportSigner_assigns = ["c.ClientAuth = tls.RequireAnyClientCert"] := by decide

/-- a thread at the start of one of the extracted functions -/
def IsExtractedCall {K : Type} (t : Thread K) : Prop :=
  t.held = .none ∧ t.obs = [] ∧
    (some t.prog = compile Facts.mtls_Replace_trace ∨ some t.prog = compile Facts.mtls_Keys_trace
      ∨ some t.prog = compile Facts.mtls_isValidPublicKey_trace
      ∨ some t.prog = compile Facts.mtls_Replace_src_trace)

theorem extracted_call_fresh {K : Type} {t : Thread K} (h : IsExtractedCall t) : t.Fresh := by
  obtain ⟨hh, ho, hp⟩ := h
  refine ⟨hh, ?_, ho⟩
  rcases hp with hp | hp | hp | hp
  · rw [replace_program] at hp; rw [Option.some.inj hp]; decide
  · rw [keys_program] at hp; rw [Option.some.inj hp]; decide
  · rw [isValid_program] at hp; rw [Option.some.inj hp]; decide
  · rw [replace_src_program] at hp; rw [Option.some.inj hp]; decide

/-- **Instantiation.**  Start with any number of calls of the extracted functions and nobody
    holding the mutex; let further calls start at any time; interleave arbitrarily.  Then in every
    reachable state: mutual exclusion, no conflicting access, every read in a read section returned
    the list current at its `RLock`, and a key in both `old` and `new` is never rejected / a key in
    neither never accepted. -/
theorem system_of_extracted_programs {s0 s : State (List Key)}
    (hsh : s0.sh.writer = false ∧ s0.sh.readers = 0 ∧ s0.sh.hist = [s0.sh.cell])
    (hth : ∀ t ∈ s0.threads, IsExtractedCall t) (hr : Reachable s0 s) :
    s.threads.Pairwise (fun a b => ¬ overlapping a b)
    ∧ s.threads.Pairwise (fun a b => ¬ racing a b)
    ∧ (∀ t ∈ s.threads, ∀ o ∈ t.obs, o.mode = .r → o.val = o.atLock)
    ∧ (∀ old new k, s0.sh.cell = old → (∀ t ∈ s.threads, t.arg = new) →
        (k ∈ old → k ∈ new → ∀ t ∈ s.threads, ∀ o ∈ t.obs, isValid o.val k = true)
        ∧ (k ∉ old → k ∉ new → ∀ t ∈ s.threads, ∀ o ∈ t.obs, isValid o.val k = false)) := by
  have h0 : Init s0 := ⟨hsh.1, hsh.2.1, hsh.2.2, fun t ht => extracted_call_fresh (hth t ht)⟩
  exact ⟨(mutual_exclusion h0 hr).1, no_conflicting_access h0 hr, linearizable h0 hr,
    fun old new k ho hn => old_new h0 hr old new ho hn k⟩

end DSV.Props.C20.Facts
