import DSV.FactsOK.SrcC14
import DSV.Generated.Facts
import DSV.LLO.Plugin
/-! C14 — the protocol limits used by the model are the constants of the working tree. -/
namespace DSV.Props.C14.Facts
open DSV

/-- the defaults of the model's `Env` are the extracted constants -/
theorem limits (check : List UInt8 → Option LLO.RetirementReport) (hashOf : Nat → LLO.ChanDef → LLO.Hash)
    (verifyDef : LLO.ChanDef → Bool) :
    let env : LLO.Env := { check := check, hashOf := hashOf, verifyDef := verifyDef }
    env.maxChannels = Facts.llo_MaxOutcomeChannelDefinitionsLength ∧
    env.maxStreamsPerChannel = Facts.llo_MaxStreamsPerChannel ∧
    env.maxStreamValues = Facts.llo_MaxObservationStreamValuesLength ∧
    env.maxRemove = Facts.llo_MaxObservationRemoveChannelIDsLength ∧
    env.maxUpdate = Facts.llo_MaxObservationUpdateChannelDefinitionsLength := ⟨rfl, rfl, rfl, rfl, rfl⟩

theorem validate_limits : Facts.llo_ValidateObservation_cmps =
    ["outctx.SeqNr < 1",
     "len(observation.UpdateChannelDefinitions) > MaxObservationUpdateChannelDefinitionsLength",
     "len(observation.RemoveChannelIDs) > MaxObservationRemoveChannelIDsLength",
     "len(observation.StreamValues) > MaxObservationStreamValuesLength"] := rfl

theorem verify_comparisons : Facts.llo_VerifyChannelDefinitions_cmps =
    ["len(channelDefs) > MaxOutcomeChannelDefinitionsLength", "len(cd.Streams) > MaxStreamsPerChannel",
     "strm.Aggregator == 0", "len(uniqueStreamIDs) > MaxObservationStreamValuesLength"] := rfl

/-- the cap test in `outcome()` -/
theorem cap_test : "len(outcome.ChannelDefinitions) >= MaxOutcomeChannelDefinitionsLength" ∈ Facts.llo_outcome_cmps := by
  decide

/-- the decision points of `observation()` as transcribed in `DSV/LLO/Observe.lean` -/
theorem observation_decision_points : Facts.llo_observation_ifs =
    ["outctx.SeqNr < 1", "outctx.SeqNr == 1", "obsTSNanos < 0",
     "previousOutcome.LifeCycleStage == LifeCycleStageRetired",
     "VerifyChannelDefinitions(p.ReportCodecs, previousOutcome.ChannelDefinitions); err != nil",
     "p.PredecessorConfigDigest != nil && previousOutcome.LifeCycleStage == LifeCycleStageStaging",
     "err2 != nil", "obs.ShouldRetire && p.Config.VerboseLogging",
     "VerifyChannelDefinitions(p.ReportCodecs, expectedChannelDefs); err != nil",
     "exists && prev.Equals(channelDefinition)",
     "len(obs.UpdateChannelDefinitions) >= MaxObservationUpdateChannelDefinitionsLength",
     "len(obs.UpdateChannelDefinitions) > 0", "len(obs.RemoveChannelIDs) > 0",
     "len(previousOutcome.ChannelDefinitions) == 0",
     "p.DataSource.Observe(observationCtx, obs.StreamValues, &dsOpts{…}); err != nil"] := rfl

end DSV.Props.C14.Facts
