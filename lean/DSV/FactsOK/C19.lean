import DSV.FactsOK.SrcC19
import DSV.Generated.Facts
import DSV.Props.C19
/-!
C19 — the facts the cost theorems are instantiated with: the nesting-depth check of
`TimestampedStreamValue.unmarshalBinary` is present with limit 1, the observation size limit is
1 MiB.  Removing the depth check (or raising the limit) breaks this file.
-/
namespace DSV.Props.C19.Facts
open DSV DSV.Cost

theorem nesting_limit : Facts.llo_maxTimestampedStreamValueNesting = 1 := by decide

/-- the two comparisons of `unmarshalBinary`: "is the inner value timestamped" and the depth check -/
theorem nesting_check : Facts.llo_TSV_unmarshalBinary_cmps =
    ["t.StreamValue.Type == LLOStreamValue_TimestampedStreamValue",
     "depth >= maxTimestampedStreamValueNesting"] := by decide

theorem max_observation_length : Facts.llo_MaxObservationLength = 1048576 := by decide
theorem max_stream_values : Facts.llo_MaxObservationStreamValuesLength = 10000 := by decide

/-- K6: `VerifyChannelDefinitions` joins its errors once, after the loop — no `errors.Join` call sits
    inside a `for` statement (so `verify_error_cost_linear` is the applicable shape) -/
theorem verify_joins_once : Facts.llo_VerifyChannelDefinitions_joins_in_loops = []
    ∧ Facts.llo_VerifyChannelDefinitions_joins = ["errors.Join(errs...)"] := by decide

/-- the same for `buildPayload` of the EVM ABI-unpacked codec (second instance of K6) -/
theorem payload_joins_once : Facts.evm_buildPayload_joins_in_loops = [] := by decide

/-- K8: in `outcome()` the call of the aggregator is preceded, in the stream loop, by the test for a stored
    aggregate AND by the test-and-set of the `attempted` set — the `memo = true` loop of
    `DSV.Cost.AggLoop`, so `agg_loop_cost_linear` is the applicable shape -/
theorem aggregation_attempted_once : Facts.llo_outcome_aggregation_guards =
    ["if outcome.StreamAggregates[sid][agg]; exists { continue }",
     "if attempted[strm]; tried { continue }",
     "attempted[strm] = struct{}{}"] := by decide

/-- `decode_cost_linear` with the limit of the working tree: at most `11·|b| + 3` -/
theorem decode_cost_linear_repo (typ : Nat) (b : Bytes) :
    (svDecode (some Facts.llo_maxTimestampedStreamValueNesting) typ b).cost ≤ 11 * b.length + 3 := by
  rw [nesting_limit]; exact decode_cost_linear 1 typ b

/-- `validate_cost_linear` with the limit of the working tree: at most `18·|b| + 1`, i.e. fewer
    than 19 Mi byte-operations for the largest observation the protocol admits -/
theorem validate_cost_linear_repo (o : ObsShape) (h : o.WF) (hmax : o.total ≤ Facts.llo_MaxObservationLength) :
    validateCost (some Facts.llo_maxTimestampedStreamValueNesting) o ≤ 18 * o.total + 1
    ∧ validateCost (some Facts.llo_maxTimestampedStreamValueNesting) o ≤ 18 * 1048576 + 1 := by
  rw [nesting_limit]
  rw [max_observation_length] at hmax
  have := validate_cost_linear 1 o h
  omega

end DSV.Props.C19.Facts
