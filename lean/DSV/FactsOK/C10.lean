import DSV.FactsOK.SrcC10
import DSV.Generated.Facts
import DSV.LLO.CodecOutcome
/-!
C10 — the facts extracted from the working tree are the ones the outcome codec model was written
against: every encoder ranges over exactly one map (two nested ones for the aggregates), sorts
its output slice once with the recorded comparison, and marshals deterministically.
Dropping a `sort.Slice`, changing its `less`, or marshalling without `Deterministic` breaks this file.
-/
namespace DSV.Props.C10.Facts
open DSV DSV.LLO

theorem defs_range : Facts.llo_channelDefinitionsToProtoOutcome_mapranges = ["in"] := rfl
theorem defs_sort : Facts.llo_codec_channelDefinitionsToProtoOutcome_sorts = ["sort.Slice(out, func)"] := rfl
theorem defs_less : Facts.llo_codec_channelDefinitionsToProtoOutcome_cmps =
    ["len(in) > 0", "out[i].ChannelID < out[j].ChannelID"] := rfl

theorem aggs_range : Facts.llo_StreamAggregatesToProtoOutcome_mapranges = ["in", "aggregates"] := rfl
theorem aggs_sort : Facts.llo_codec_StreamAggregatesToProtoOutcome_sorts = ["sort.Slice(out, func)"] := rfl
theorem aggs_less : Facts.llo_codec_StreamAggregatesToProtoOutcome_cmps =
    ["len(in) > 0", "out[i].StreamID == out[j].StreamID", "out[i].Aggregator < out[j].Aggregator",
     "out[i].StreamID < out[j].StreamID"] := rfl

theorem va_v1_range : Facts.llo_validAfterNanosecondsToProtoOutcomeNanoseconds_mapranges = ["in"] := rfl
theorem va_v1_sort : Facts.llo_codec_validAfterNanosecondsToProtoOutcomeNanoseconds_sorts = ["sort.Slice(out, func)"] := rfl
theorem va_v1_less : Facts.llo_codec_validAfterNanosecondsToProtoOutcomeNanoseconds_cmps =
    ["len(in) > 0", "out[i].ChannelID < out[j].ChannelID"] := rfl

theorem va_v0_range : Facts.llo_validAfterNanosecondsToProtoOutcomeSeconds_mapranges = ["in"] := rfl
theorem va_v0_sort : Facts.llo_codec_validAfterNanosecondsToProtoOutcomeSeconds_sorts = ["sort.Slice(out, func)"] := rfl
theorem va_v0_less : Facts.llo_codec_validAfterNanosecondsToProtoOutcomeSeconds_cmps =
    ["len(in) > 0", "seconds > math.MaxUint32", "out[i].ChannelID < out[j].ChannelID"] := rfl

theorem v0_encode_checks : Facts.llo_codec_v0_Encode_cmps = ["outcome.ObservationTimestampNanoseconds > math.MaxInt64"] := rfl
theorem v0_decode_checks : Facts.llo_codec_v0_Decode_cmps = ["pbuf.ObservationTimestampNanoseconds < 0"] := rfl
theorem v1_decode_checks : Facts.llo_codec_v1_Decode_cmps = [] := rfl

theorem v0_marshal : Facts.llo_codec_v0_Encode_marshal = ["proto.MarshalOptions{Deterministic: true}.Marshal(pbuf)"] := rfl
theorem v1_marshal : Facts.llo_codec_v1_Encode_marshal = ["proto.MarshalOptions{Deterministic: true}.Marshal(pbuf)"] := rfl

/-- the nesting limit the model decodes with is the repository's constant -/
theorem nesting_limit : maxTSVNesting = Facts.llo_codec_maxTimestampedStreamValueNesting := rfl
theorem nesting_check : Facts.llo_codec_TSV_unmarshalBinary_cmps =
    ["t.StreamValue.Type == LLOStreamValue_TimestampedStreamValue", "depth >= maxTimestampedStreamValueNesting"] := rfl

/-- the error branches the decoders have: nil definition, unknown value type, nesting too deep -/
theorem decode_error_branches :
    Facts.llo_codec_channelDefinitionsFromProtoOutcome_errors = ["failed to decode outcome; nil channel definition"] ∧
    Facts.llo_codec_UnmarshalProtoStreamValue_errors = ["cannot unmarshal protobuf stream value; unknown StreamValueType %d"] ∧
    Facts.llo_codec_TSV_unmarshalBinary_errors = ["TimestampedStreamValue is nested too deeply"] := ⟨rfl, rfl, rfl⟩

/-- the model's bounds are the Go constants named in the comparisons -/
theorem bounds : maxUint32 = 2 ^ 32 - 1 ∧ maxInt64 = 2 ^ 63 - 1 := by decide

end DSV.Props.C10.Facts
