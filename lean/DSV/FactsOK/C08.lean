import DSV.FactsOK.SrcC08
import DSV.Generated.Facts
import DSV.Mercury.V1
import DSV.Mercury.V4
/-!
C08 — the thresholds, median indexes and sort comparators extracted from the working tree are the
ones the model was written against.  `< f+1` → `< f`, `len/2` → `(len-1)/2`, `cnt > f` → `cnt >= f`
… change the extracted strings and break this file.
-/
namespace DSV.Props.C08.Facts
open DSV

theorem benchmark_cmps : Facts.mercury_GetConsensusBenchmarkPrice_cmps =
    ["len(validBenchmarkPrices) < f + 1", "validBenchmarkPrices[i].Cmp(validBenchmarkPrices[j]) < 0"] := rfl
theorem benchmark_idx : Facts.mercury_GetConsensusBenchmarkPrice_idx = ["len(validBenchmarkPrices) / 2"] := rfl
theorem bid_cmps : Facts.mercury_GetConsensusBid_cmps =
    ["len(validBids) < f + 1", "validBids[i].Cmp(validBids[j]) < 0"] := rfl
theorem bid_idx : Facts.mercury_GetConsensusBid_idx = ["len(validBids) / 2"] := rfl
theorem ask_cmps : Facts.mercury_GetConsensusAsk_cmps =
    ["len(validAsks) < f + 1", "validAsks[i].Cmp(validAsks[j]) < 0"] := rfl
theorem ask_idx : Facts.mercury_GetConsensusAsk_idx = ["len(validAsks) / 2"] := rfl
theorem link_fee_cmps : Facts.mercury_GetConsensusLinkFee_cmps =
    ["fee.Sign() >= 0", "len(validLinkFees) < f + 1", "validLinkFees[i].Cmp(validLinkFees[j]) < 0"] := rfl
theorem link_fee_idx : Facts.mercury_GetConsensusLinkFee_idx = ["len(validLinkFees) / 2"] := rfl
theorem native_fee_cmps : Facts.mercury_GetConsensusNativeFee_cmps =
    ["fee.Sign() >= 0", "len(validNativeFees) < f + 1", "validNativeFees[i].Cmp(validNativeFees[j]) < 0"] := rfl
theorem native_fee_idx : Facts.mercury_GetConsensusNativeFee_idx = ["len(validNativeFees) / 2"] := rfl
theorem timestamp_cmps : Facts.mercury_GetConsensusTimestamp_cmps =
    ["paos[i].GetTimestamp() < paos[j].GetTimestamp()"] := rfl
theorem timestamp_idx : Facts.mercury_GetConsensusTimestamp_idx = ["len(paos) / 2"] := rfl
theorem max_finalized_ts_cmps : Facts.mercury_GetConsensusMaxFinalizedTimestamp_cmps =
    ["validTimestampCount < f + 1", "cnt > f", "ts > maxTs", "maxTs < -1"] := rfl
theorem latest_block_cmps : Facts.mercury_v1_GetConsensusLatestBlock_cmps =
    ["len(blocks) > 0", "groupings[i][0].Num > groupings[j][0].Num", "cnt > maxCnt", "maxCnt >= f + 1"] := rfl
theorem max_finalized_blocknum_cmps : Facts.mercury_v1_GetConsensusMaxFinalizedBlockNum_cmps =
    ["len(validPaos) < f + 1", "cnt > maxCnt", "maxCnt < f + 1", "nums[i] < nums[j]"] := rfl
theorem market_status_cmps : Facts.mercury_v4_GetConsensusMarketStatus_cmps =
    ["count > mostCommonCount", "marketStatus < mostCommonMarketStatus", "mostCommonCount < f + 1"] := rfl
/-- the limit on `LatestBlocks` and the hash length the model uses are the constants in the source -/
theorem max_allowed_blocks : Mercury.V1.maxAllowedBlocks = Facts.mercury_v1_MaxAllowedBlocks := rfl
theorem evm_hash_len : Mercury.evmHashLen = Facts.mercury_EvmHashLen := rfl
/-- v1 parsing: the block-list checks -/
theorem v1_parse_cmps : Facts.mercury_v1_parse_cmps =
    ["len(obs.LatestBlocks) > 0", "len(obs.LatestBlocks) > MaxAllowedBlocks", "len(block.Hash) != mercury.EvmHashLen",
     "block.Num < 0", "len(obs.CurrentBlockHash) != mercury.EvmHashLen", "obs.CurrentBlockNum < 0"] := rfl

end DSV.Props.C08.Facts
