import DSV.FactsOK.SrcC09
import DSV.Generated.Facts
/-!
C09 — the `validFrom` assignments, the overlap test and the bootstrap branch conditions extracted
from the working tree are the ones the model was written against.
-/
namespace DSV.Props.C09.Facts
open DSV

theorem v1_validFrom_assigns : Facts.mercury_v1_validFrom_assigns =
    ["maxFinalizedBlockNumber + 1", "maxFinalizedBlockNumber + 1"] := rfl

theorem ts_validFrom_assigns :
    Facts.mercury_v2_validFrom_assigns = ["maxFinalizedTimestamp + 1", "rf.Timestamp", "uint32(maxFinalizedTimestamp + 1)"] ∧
    Facts.mercury_v3_validFrom_assigns = Facts.mercury_v2_validFrom_assigns ∧
    Facts.mercury_v4_validFrom_assigns = Facts.mercury_v2_validFrom_assigns := ⟨rfl, rfl, rfl⟩

/-- overlap tests: strict `<` (a report whose end equals its start is still emitted) -/
theorem overlap_tests :
    Facts.mercury_v1_Report_cmps.contains "rf.CurrentBlockNum < rf.ValidFromBlockNum" = true ∧
    Facts.mercury_v2_Report_cmps.contains "rf.Timestamp < rf.ValidFromTimestamp" = true ∧
    Facts.mercury_v3_Report_cmps.contains "rf.Timestamp < rf.ValidFromTimestamp" = true ∧
    Facts.mercury_v4_Report_cmps.contains "rf.Timestamp < rf.ValidFromTimestamp" = true := by decide

theorem bootstrap_branches :
    Facts.mercury_v2_buildReportFields_cmps =
      ["maxFinalizedTimestamp == math.MaxUint32", "maxFinalizedTimestamp < 0",
       "maxFinalizedTimestamp >= math.MaxUint32",
       "int64(rf.Timestamp) + int64(rp.offchainConfig.ExpirationWindow) > math.MaxUint32"] ∧
    Facts.mercury_v3_buildReportFields_cmps = Facts.mercury_v2_buildReportFields_cmps ∧
    Facts.mercury_v4_buildReportFields_cmps = Facts.mercury_v2_buildReportFields_cmps := ⟨rfl, rfl, rfl⟩

/-- `GetMaxFinalizedTimestamp`: v2 passes the value through, v3/v4 treat values below -1 as invalid -/
theorem getMFT :
    Facts.mercury_v2_getMFT_cmps = [] ∧
    Facts.mercury_v3_getMFT_cmps = ["pao.MaxFinalizedTimestamp < -1"] ∧
    Facts.mercury_v4_getMFT_cmps = ["pao.MaxFinalizedTimestamp < -1"] := ⟨rfl, rfl, rfl⟩

theorem max_finalized_ts_cmps : Facts.mercury_GetConsensusMaxFinalizedTimestamp_cmps =
    ["validTimestampCount < f + 1", "cnt > f", "ts > maxTs", "maxTs < -1"] := rfl

end DSV.Props.C09.Facts
