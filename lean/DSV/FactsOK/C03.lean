import DSV.FactsOK.SrcC03
import DSV.Generated.Facts
/-! C03 — the reportability test and the configuration validation as extracted from the working tree. -/
namespace DSV.Props.C03.Facts
open DSV

/-- `IsReportable`: retired test, interval test in its overflow-free form, seconds test -/
theorem isReportable_comparisons : Facts.llo_IsReportable_cmps =
    ["out.LifeCycleStage == LifeCycleStageRetired", "protocolVersion > 0", "obsTsNanos < validAfterNanos",
     "obsTsNanos - validAfterNanos < minReportInterval", "protocolVersion == 0",
     "validAfterSeconds >= obsTsSeconds"] := rfl

theorem validate_comparisons : Facts.llo_OffchainConfig_Validate_cmps =
    ["c.DefaultMinReportIntervalNanoseconds != 0", "c.DefaultMinReportIntervalNanoseconds == 0"] := rfl

theorem reports_comparisons : Facts.llo_reports_cmps =
    ["seqNr <= 1", "outcome.LifeCycleStage == LifeCycleStageRetired",
     "outcome.LifeCycleStage != LifeCycleStageProduction"] := rfl

/-- map ranges of `outcome()`: the model has one schedule field per site -/
theorem outcome_mapranges : Facts.llo_outcome_mapranges =
    ["removeChannelVotesByID", "updateChannelDefinitionsByHash", "previousOutcome.ValidAfterNanoseconds",
     "outcome.ChannelDefinitions", "outcome.ChannelDefinitions"] := rfl

end DSV.Props.C03.Facts
