import DSV.Lemmas.Median
import DSV.Lemmas.Mct
import DSV.LLO.Plugin
import DSV.Lemmas.Outcome
import DSV.Lemmas.Tally
import DSV.Lemmas.AggsFun
import DSV.Props.C11
import DSV.Lemmas.OutcomeAggs
import DSV.Props.C14Observe
/-!
# C02 — LLO numeric aggregates and the outcome timestamp stay within the honest range

`values` is the list of values available for a stream: a permutation of the values `hs` supplied by
correct observers (wrapped in `some`) and arbitrary other entries `bs` (nil, any type, any
magnitude, invalid quotes).  The only hypothesis is `bs.length < hs.length` (strictly more honest
values than others) and that the correct observers report the same value type for the stream.
-/
namespace DSV.Props.C02
open DSV DSV.LLO

/-! ### helper facts about the filters (kept here because they are specific to the statement shape) -/

theorem filterMap_perm_split {α β : Type} (g : α → Option β) {xs hs bs : List α} (h : xs.Perm (hs ++ bs)) :
    (xs.filterMap g).Perm (hs.filterMap g ++ bs.filterMap g) := by
  simpa [List.filterMap_append] using h.filterMap g

theorem filterMap_all_some {α β : Type} (g : α → Option β) (p : α → β) (hs : List α)
    (h : ∀ x ∈ hs, g x = some (p x)) : hs.filterMap g = hs.map p := by
  induction hs with
  | nil => rfl
  | cons a as ih =>
    simp only [List.filterMap_cons, h a (by simp), List.map_cons]
    rw [ih (fun x hx => h x (by simp [hx]))]

/-- the decimal a correct observer's value contributes to the median: the number itself, or the
    benchmark of a quote -/
def decOf : SV → Dec
  | .dec d => d
  | .quote _ bm _ => bm
  | .tsv _ _ => ⟨0, 0⟩

/-- when the correct observers all send values of type `t0` and outnumber the rest, `t0` is the
    most common type -/
theorem mostCommon_of_majority (values : List (Option SV)) (hs : List SV) (bs : List (Option SV)) (t0 : Nat)
    (hperm : values.Perm (hs.map some ++ bs)) (hmaj : bs.length < hs.length)
    (hty : ∀ h ∈ hs, h.type = t0) (ht0 : t0 < 3) : (mostCommonType values).1 = t0 := by
  obtain ⟨hlt, _, hbest⟩ := mostCommonType_spec values
  have hcount : ∀ t, (ofType t values).length = (ofType t (hs.map some)).length + (ofType t bs).length := by
    intro t; rw [ofType_length_perm t hperm, ofType_append]; simp
  have hhs : ∀ t, (ofType t (hs.map some)).length = if t = t0 then hs.length else 0 := by
    intro t
    rw [ofType_map_some]
    split
    · rename_i h; subst h
      rw [List.filter_eq_self.mpr (by intro x hx; simp [hty x hx])]
    · rename_i h
      rw [List.filter_eq_nil_iff.mpr (by intro x hx; simp [hty x hx]; exact fun e => h e.symm)]
      rfl
  have hbs : ∀ t, (ofType t bs).length ≤ bs.length := by
    intro t; unfold ofType; exact List.length_filterMap_le _ _
  apply Classical.byContradiction
  intro hne
  have h1 := hbest t0 ht0
  have e1 := hcount t0
  have e2 := hcount (mostCommonType values).1
  have e3 := hhs t0
  have e4 := hhs (mostCommonType values).1
  have b1 := hbs t0
  have b2 := hbs (mostCommonType values).1
  simp only [if_true] at e3
  rw [if_neg hne] at e4
  omega

/-- **median (decimal / quote-benchmark values)**: the result is a decimal lying between two
    values supplied by correct observers, and it exists as soon as more than `f` correct values do -/
theorem median_dec_range (values : List (Option SV)) (f : Nat) (hs : List SV) (bs : List (Option SV)) (t0 : Nat)
    (hperm : values.Perm (hs.map some ++ bs)) (hmaj : bs.length < hs.length)
    (hty : ∀ h ∈ hs, h.type = t0) (ht0 : t0 = 0 ∨ t0 = 1) :
    (f < hs.length → ∃ r, medianAgg values f = .ok r) ∧
    ∀ r, medianAgg values f = .ok r →
      ∃ d, r = .dec d ∧ (∃ lo ∈ hs, Dec.le (decOf lo) d = true) ∧ (∃ hi ∈ hs, Dec.le d (decOf hi) = true) := by
  have hmct := mostCommon_of_majority values hs bs t0 hperm hmaj hty (by omega)
  have hobs : (values.filterMap usableDec).Perm (hs.map decOf ++ bs.filterMap usableDec) := by
    have := filterMap_perm_split usableDec hperm
    rw [List.filterMap_map, filterMap_all_some (usableDec ∘ some) decOf hs] at this
    · exact this
    · intro x hx
      have := hty x hx
      cases x with
      | dec d => rfl
      | quote a b c => rfl
      | tsv t i => simp [SV.type] at this; omega
  have hbl : (bs.filterMap usableDec).length ≤ bs.length := List.length_filterMap_le _ _
  have hlen : (values.filterMap usableDec).length = hs.length + (bs.filterMap usableDec).length := by
    simpa using hobs.length_eq
  have hagg : medianAgg values f = medianDQ values f := by
    unfold medianAgg
    have : (mostCommonType values) = ((mostCommonType values).1, (mostCommonType values).2) := rfl
    rw [this]; simp only [hmct]
    rcases ht0 with h | h <;> simp [h]
  rw [hagg]
  unfold medianDQ
  simp only
  constructor
  · intro hf
    rw [if_neg (by omega)]
    exact ⟨_, rfl⟩
  · intro r hr
    split at hr
    · cases hr
    · cases hr
      refine ⟨_, rfl, ?_⟩
      have := medianOf_honest Dec.le Dec.le_total Dec.le_trans (values.filterMap usableDec)
        (hs.map decOf) (bs.filterMap usableDec) hobs (by simp; omega)
      obtain ⟨⟨lo, hlo, h1⟩, ⟨hi, hhi, h2⟩⟩ := this
      simp only [List.mem_map] at hlo hhi
      obtain ⟨lo', hlo', rfl⟩ := hlo
      obtain ⟨hi', hhi', rfl⟩ := hhi
      exact ⟨⟨lo', hlo', h1⟩, ⟨hi', hhi', h2⟩⟩

/-- **no fresh aggregate from at most f usable values** -/
theorem median_refuses (values : List (Option SV)) (f : Nat)
    (h : (values.filterMap usableDec).length ≤ f) (hty : (mostCommonType values).1 ≠ 2) :
    ∃ e, medianAgg values f = .err e := by
  unfold medianAgg
  have : (mostCommonType values) = ((mostCommonType values).1, (mostCommonType values).2) := rfl
  rw [this]; simp only [hty, if_false]
  split
  · unfold medianDQ; simp only; rw [if_pos h]; exact ⟨_, rfl⟩
  · exact ⟨_, rfl⟩

theorem quote_refuses (values : List (Option SV)) (f : Nat)
    (h : (values.filterMap validQuote).length ≤ f) : quoteAgg values f = .err "not-enough" := by
  unfold quoteAgg; simp only; rw [if_pos h]

/-! ### timestamped median -/

/-- inner decimal of a timestamped value sent by a correct observer -/
def tsvDec : SV → Dec
  | .tsv _ (.dec d) => d
  | _ => ⟨0, 0⟩

/-- a correct observer's timestamped value: observed-at plus a decimal -/
def isTsvDec : SV → Bool
  | .tsv _ (.dec _) => true
  | _ => false

/-- **timestamped median**: value within the honest value range and observed-at within the honest
    observed-at range, whatever the other entries are -/
theorem median_tsv_range (values : List (Option SV)) (f : Nat) (hs : List SV) (bs : List (Option SV))
    (hperm : values.Perm (hs.map some ++ bs)) (hmaj : bs.length < hs.length)
    (hty : ∀ h ∈ hs, isTsvDec h = true) :
    (f < hs.length → ∃ r, medianAgg values f = .ok r) ∧
    ∀ r, medianAgg values f = .ok r →
      ∃ t d, r = .tsv t (.dec d) ∧
        (∃ lo ∈ hs, Dec.le (tsvDec lo) d = true) ∧ (∃ hi ∈ hs, Dec.le d (tsvDec hi) = true) ∧
        (∃ lo ∈ hs, tsvTime lo ≤ t) ∧ (∃ hi ∈ hs, t ≤ tsvTime hi) := by
  have hty2 : ∀ h ∈ hs, h.type = 2 := by
    intro h hh; have := hty h hh
    cases h with
    | tsv t i => rfl
    | dec d => simp [isTsvDec] at this
    | quote a b c => simp [isTsvDec] at this
  have hmct := mostCommon_of_majority values hs bs 2 hperm hmaj hty2 (by omega)
  obtain ⟨_, hbucket, _⟩ := mostCommonType_spec values
  rw [hmct] at hbucket
  -- the TSV bucket is a permutation of the honest values and the TSV-typed other entries
  have hbk : (ofType 2 values).Perm (hs ++ ofType 2 bs) := by
    have := ofType_perm 2 hperm
    rw [ofType_append, ofType_map_some, List.filter_eq_self.mpr (by intro x hx; simp [hty2 x hx])] at this
    exact this
  have hbl : (ofType 2 bs).length ≤ bs.length := by unfold ofType; exact List.length_filterMap_le _ _
  have hts : ((ofType 2 values).map tsvTime).Perm (hs.map tsvTime ++ (ofType 2 bs).map tsvTime) := by
    simpa using hbk.map tsvTime
  have hin : ∀ x ∈ hs, (usableDec ∘ tsvInner) x = some (tsvDec x) := by
    intro x hx; have := hty x hx
    cases x with
    | tsv t i => cases i <;> simp_all [isTsvDec, tsvInner, usableDec, tsvDec]
    | dec d => simp [isTsvDec] at this
    | quote a b c => simp [isTsvDec] at this
  have hvals : (((ofType 2 values).map tsvInner).filterMap usableDec).Perm
      (hs.map tsvDec ++ (ofType 2 bs).filterMap (usableDec ∘ tsvInner)) := by
    rw [List.filterMap_map]
    have := filterMap_perm_split (usableDec ∘ tsvInner) hbk
    rw [filterMap_all_some (usableDec ∘ tsvInner) tsvDec hs hin] at this
    exact this
  have hbl2 : ((ofType 2 bs).filterMap (usableDec ∘ tsvInner)).length ≤ bs.length :=
    Nat.le_trans (List.length_filterMap_le _ _) hbl
  have hlen := hvals.length_eq
  simp only [List.length_append, List.length_map] at hlen
  unfold medianAgg
  have : (mostCommonType values) = ((mostCommonType values).1, (mostCommonType values).2) := rfl
  rw [this]; simp only [hmct, hbucket, if_true]
  unfold medianDQ
  simp only
  constructor
  · intro hf
    rw [if_neg (by omega)]
    exact ⟨_, rfl⟩
  · intro r hr
    split at hr
    · rename_i mv hmv
      split at hmv
      · cases hmv
      · cases hmv; cases hr
        refine ⟨_, _, rfl, ?_⟩
        have hv := medianOf_honest Dec.le Dec.le_total Dec.le_trans _ (hs.map tsvDec) _ hvals (by simp; omega)
        have ht := medianOf_honest (fun a b => decide (a ≤ b)) natLe_total natLe_trans _ (hs.map tsvTime) _ hts
          (by simp; omega)
        obtain ⟨⟨lo, hlo, h1⟩, ⟨hi, hhi, h2⟩⟩ := hv
        obtain ⟨⟨tlo, htlo, h3⟩, ⟨thi, hthi, h4⟩⟩ := ht
        simp only [List.mem_map] at hlo hhi htlo hthi
        obtain ⟨lo', hlo', rfl⟩ := hlo
        obtain ⟨hi', hhi', rfl⟩ := hhi
        obtain ⟨tlo', htlo', rfl⟩ := htlo
        obtain ⟨thi', hthi', rfl⟩ := hthi
        simp only [decide_eq_true_eq] at h3 h4
        exact ⟨⟨lo', hlo', h1⟩, ⟨hi', hhi', h2⟩, ⟨tlo', htlo', h3⟩, ⟨thi', hthi', h4⟩⟩
    · cases hr
    · cases hr

/-! ### quote aggregate -/

def tripleOf : SV → Dec × Dec × Dec
  | .quote a b c => (a, b, c)
  | _ => (⟨0, 0⟩, ⟨0, 0⟩, ⟨0, 0⟩)

/-- a correct observer's quote: satisfies bid ≤ benchmark ≤ ask -/
def isValidQuote : SV → Bool
  | .quote a b c => quoteValid a b c
  | _ => false

/-- sorting by a projection: the projected sorted list is sorted, a permutation of the projected
    input, and the element at any index projects to the element of the projected list -/
theorem proj_sorted {T : Type} [Inhabited T] (p : T → Dec) (l : List T) (k : Nat) (hk : k < l.length) :
    ∃ (hk' : k < ((l.mergeSort (fun a b => Dec.le (p a) (p b))).map p).length),
      p ((l.mergeSort (fun a b => Dec.le (p a) (p b)))[k]!) = ((l.mergeSort (fun a b => Dec.le (p a) (p b))).map p)[k] ∧
      ((l.mergeSort (fun a b => Dec.le (p a) (p b))).map p).Pairwise (fun a b => Dec.le a b = true) ∧
      ((l.mergeSort (fun a b => Dec.le (p a) (p b))).map p).Perm (l.map p) := by
  have hl : (l.mergeSort (fun a b => Dec.le (p a) (p b))).length = l.length := List.length_mergeSort _
  refine ⟨by simp [hl, hk], ?_, ?_, ?_⟩
  · rw [getElem!_pos _ k (by omega)]; simp
  · rw [List.pairwise_map]
    exact List.pairwise_mergeSort (fun a b c => Dec.le_trans (p a) (p b) (p c))
      (fun a b => by simpa using Dec.le_total (p a) (p b)) l
  · exact (List.mergeSort_perm _ _).map p

theorem validQuote_valid {x : Option SV} {t : Dec × Dec × Dec} (h : validQuote x = some t) :
    Dec.le t.1 t.2.1 = true ∧ Dec.le t.2.1 t.2.2 = true := by
  unfold validQuote at h
  split at h
  · split at h
    · rename_i hv; cases h
      simpa [quoteValid] using hv
    · cases h
  · cases h

/-- **quote aggregate**: exists with more than `f` correct quotes; each component lies within the
    range of that component over the correct observers' quotes; and bid ≤ benchmark ≤ ask -/
theorem quote_range_ordered (values : List (Option SV)) (f : Nat) (hs : List SV) (bs : List (Option SV))
    (hperm : values.Perm (hs.map some ++ bs)) (hmaj : bs.length < hs.length)
    (hty : ∀ h ∈ hs, isValidQuote h = true) :
    (f < hs.length → ∃ r, quoteAgg values f = .ok r) ∧
    ∀ r, quoteAgg values f = .ok r →
      ∃ bid bm ask, r = .quote bid bm ask ∧ Dec.le bid bm = true ∧ Dec.le bm ask = true ∧
        (∃ lo ∈ hs, Dec.le (tripleOf lo).1 bid = true) ∧ (∃ hi ∈ hs, Dec.le bid (tripleOf hi).1 = true) ∧
        (∃ lo ∈ hs, Dec.le (tripleOf lo).2.1 bm = true) ∧ (∃ hi ∈ hs, Dec.le bm (tripleOf hi).2.1 = true) ∧
        (∃ lo ∈ hs, Dec.le (tripleOf lo).2.2 ask = true) ∧ (∃ hi ∈ hs, Dec.le ask (tripleOf hi).2.2 = true) := by
  have hin : ∀ x ∈ hs, (validQuote ∘ some) x = some (tripleOf x) := by
    intro x hx; have := hty x hx
    cases x with
    | quote a b c => simp [isValidQuote] at this; simp [validQuote, tripleOf, this]
    | dec d => simp [isValidQuote] at this
    | tsv t i => simp [isValidQuote] at this
  have hobs : (values.filterMap validQuote).Perm (hs.map tripleOf ++ bs.filterMap validQuote) := by
    have := filterMap_perm_split validQuote hperm
    rw [List.filterMap_map, filterMap_all_some (validQuote ∘ some) tripleOf hs hin] at this
    exact this
  have hbl : (bs.filterMap validQuote).length ≤ bs.length := List.length_filterMap_le _ _
  have hlen : (values.filterMap validQuote).length = hs.length + (bs.filterMap validQuote).length := by
    simpa using hobs.length_eq
  have hvalid : ∀ t ∈ values.filterMap validQuote, Dec.le t.1 t.2.1 = true ∧ Dec.le t.2.1 t.2.2 = true := by
    intro t ht
    obtain ⟨x, _, hx⟩ := List.mem_filterMap.mp ht
    exact validQuote_valid hx
  unfold quoteAgg
  simp only
  constructor
  · intro hf; rw [if_neg (by omega)]; exact ⟨_, rfl⟩
  · intro r hr
    split at hr
    · cases hr
    · rename_i hn
      cases hr
      refine ⟨_, _, _, rfl, ?_⟩
      -- abbreviations
      generalize hobsdef : values.filterMap validQuote = obs at *
      have hnpos : obs.length / 2 < obs.length := by omega
      have tot : Rank.Total Dec.le := Dec.le_total
      have tr : Rank.Trans Dec.le := Dec.le_trans
      -- benchmark
      obtain ⟨k1, e1, s1sorted, s1perm⟩ := proj_sorted (fun t : Dec × Dec × Dec => t.2.1) obs (obs.length / 2) hnpos
      have l1 : (obs.mergeSort (fun a b => Dec.le a.2.1 b.2.1)).length = obs.length := List.length_mergeSort _
      -- bid (sorting s1)
      obtain ⟨k2, e2, s2sorted, s2perm⟩ := proj_sorted (fun t : Dec × Dec × Dec => t.1)
        (obs.mergeSort (fun a b => Dec.le a.2.1 b.2.1)) (obs.length / 2) (by omega)
      have l2 : ((obs.mergeSort (fun a b => Dec.le a.2.1 b.2.1)).mergeSort (fun a b => Dec.le a.1 b.1)).length = obs.length := by
        rw [List.length_mergeSort, l1]
      -- ask (sorting s2)
      obtain ⟨k3, e3, s3sorted, s3perm⟩ := proj_sorted (fun t : Dec × Dec × Dec => t.2.2)
        ((obs.mergeSort (fun a b => Dec.le a.2.1 b.2.1)).mergeSort (fun a b => Dec.le a.1 b.1)) (obs.length / 2) (by omega)
      have p1 : ((obs.mergeSort (fun a b => Dec.le a.2.1 b.2.1)).map (fun t => t.2.1)).Perm (obs.map (fun t => t.2.1)) := s1perm
      have p2 : (((obs.mergeSort (fun a b => Dec.le a.2.1 b.2.1)).mergeSort (fun a b => Dec.le a.1 b.1)).map (fun t => t.1)).Perm
          (obs.map (fun t => t.1)) := s2perm.trans ((List.mergeSort_perm _ _).map _)
      have p3 : ((((obs.mergeSort (fun a b => Dec.le a.2.1 b.2.1)).mergeSort (fun a b => Dec.le a.1 b.1)).mergeSort
          (fun a b => Dec.le a.2.2 b.2.2)).map (fun t => t.2.2)).Perm (obs.map (fun t => t.2.2)) :=
        s3perm.trans (((List.mergeSort_perm _ _).trans (List.mergeSort_perm _ _)).map _)
      rw [e1, e2, e3]
      -- honest / other split of each projection
      have split : ∀ (q : Dec × Dec × Dec → Dec), (obs.map q).Perm ((hs.map tripleOf).map q ++ (bs.filterMap validQuote).map q) := by
        intro q; simpa using hobs.map q
      have range : ∀ (q : Dec × Dec × Dec → Dec) (s : List Dec) (hk : obs.length / 2 < s.length),
          s.Pairwise (fun a b => Dec.le a b = true) → s.Perm (obs.map q) →
          (∃ lo ∈ hs, Dec.le (q (tripleOf lo)) s[obs.length / 2] = true) ∧
          (∃ hi ∈ hs, Dec.le s[obs.length / 2] (q (tripleOf hi)) = true) := by
        intro q s hk hsorted hperm'
        have hsl : s.length = obs.length := by simpa using hperm'.length_eq
        have := Rank.median_in_honest_range Dec.le tot tr s ((hs.map tripleOf).map q) ((bs.filterMap validQuote).map q)
          (hperm'.trans (split q)) hsorted (by simp; omega) (by omega)
        simp only [hsl] at this
        obtain ⟨⟨lo, hlo, h1⟩, ⟨hi, hhi, h2⟩⟩ := this
        simp only [List.mem_map] at hlo hhi
        obtain ⟨_, ⟨lo', hlo', rfl⟩, rfl⟩ := hlo
        obtain ⟨_, ⟨hi', hhi', rfl⟩, rfl⟩ := hhi
        exact ⟨⟨lo', hlo', h1⟩, ⟨hi', hhi', h2⟩⟩
      have r1 := range (fun t => t.2.1) _ k1 s1sorted p1
      have r2 := range (fun t => t.1) _ k2 s2sorted p2
      have r3 := range (fun t => t.2.2) _ k3 s3sorted p3
      -- ordering via monotonicity of order statistics
      have o12 := Rank.rank_mono Dec.le tot tr (obs.map fun t => (t.1, t.2.1))
        (by intro p hp; obtain ⟨t, ht, rfl⟩ := List.mem_map.mp hp; exact (hvalid t ht).1)
        _ _ (by rw [List.map_map]; exact p2) (by rw [List.map_map]; exact p1)
        s2sorted s1sorted (obs.length / 2) k2 k1
      have o23 := Rank.rank_mono Dec.le tot tr (obs.map fun t => (t.2.1, t.2.2))
        (by intro p hp; obtain ⟨t, ht, rfl⟩ := List.mem_map.mp hp; exact (hvalid t ht).2)
        _ _ (by rw [List.map_map]; exact p1) (by rw [List.map_map]; exact p3)
        s1sorted s3sorted (obs.length / 2) k1 k3
      exact ⟨o12, o23, r2.1, r2.2, r1.1, r1.2, r3.1, r3.2⟩

/-- **outcome timestamp**: the median of the observation timestamps lies between two timestamps of
    correct observers whenever those outnumber the others -/
theorem outcome_ts_range (tss hts bts : List Nat) (hperm : tss.Perm (hts ++ bts)) (hmaj : bts.length < hts.length) :
    (∃ lo ∈ hts, lo ≤ medianTimestamp tss) ∧ (∃ hi ∈ hts, medianTimestamp tss ≤ hi) := by
  have := medianOf_honest (fun a b => decide (a ≤ b)) natLe_total natLe_trans tss hts bts hperm hmaj
  simpa [medianTimestamp] using this

/-- **outcome timestamp, at the level of `Outcome()`**: the timestamps that enter the median are
    exactly those of the contributing observations (`counted`: decoded, and not dropped for an
    attestation that fails to verify); if the correct observers' timestamps `hts` outnumber the others
    among them, the outcome's observation timestamp lies between two correct timestamps -/
theorem outcome_ts_honest (env : Env) (cfg : Cfg) (σ : Sched) (n : Nat) (prev o : Outcome) (obs : List Obs)
    (hobs : ∀ x ∈ obs, ObsWF env x) (h : outcome env cfg σ n prev obs = .ok o)
    (hts bts : List Nat) (hsplit : ((counted env obs).map (·.ts)).Perm (hts ++ bts))
    (hmaj : bts.length < hts.length) :
    (∃ lo ∈ hts, lo ≤ o.ts) ∧ (∃ hi ∈ hts, o.ts ≤ hi) := by
  obtain ⟨_, t, ht, _, _, hts', _⟩ := outcome_ok h
  obtain ⟨hinv, _⟩ := tally_spec env cfg obs t hobs ht
  rw [hts', hinv.tss]
  exact outcome_ts_range _ hts bts hsplit hmaj

/-- **median aggregate, at the level of `Outcome()`**: for a stream that some channel of the new
    outcome aggregates with the median, the value list handed to the aggregator is exactly what the
    contributing observations reported for the stream; if the correct observers' (same-typed decimal
    or quote) values outnumber the other entries and there are more than `f` of them, the outcome
    holds a fresh decimal aggregate for the stream lying between two correct values -/
theorem outcome_median_honest (env : Env) (cfg : Cfg) (σ : Sched) (hσ : σ.IsSched) (n : Nat) (prev o : Outcome)
    (obs : List Obs) (hvals : ∀ x ∈ obs, GoMap.WF x.values) (h : outcome env cfg σ n prev obs = .ok o)
    (sid : Nat) (href : ∃ e ∈ o.defs, (⟨sid, aggMedian⟩ : Stream) ∈ e.2.streams)
    (hs : List SV) (bs : List (Option SV)) (t0 : Nat)
    (hsplit : ((counted env obs).filterMap (obsValue sid)).Perm (hs.map some ++ bs)) (hmaj : bs.length < hs.length)
    (hty : ∀ x ∈ hs, x.type = t0) (ht0 : t0 = 0 ∨ t0 = 1) (hf : cfg.f < hs.length) :
    ∃ d, o.aggs.get? (sid, aggMedian) = some (.dec d) ∧
      (∃ lo ∈ hs, Dec.le (decOf lo) d = true) ∧ (∃ hi ∈ hs, Dec.le d (decOf hi) = true) := by
  obtain ⟨_, t, ht, _, _, _, _, _, hagg⟩ := outcome_ok h
  have hso := tally_streamObs env cfg obs t hvals ht sid
  have hnp : ∀ k, aggOneValue cfg prev t.streamObs k ≠ .panic := fun k =>
    aggOneValue_no_panic cfg prev t.streamObs k (fun r hr => C11.aggregate_never_panics _ _ _ r hr)
  have hfun := aggregateAll_fun cfg prev t.streamObs (σ.defsAgg o.defs) hnp
  rw [hagg] at hfun
  obtain ⟨_, _, hget⟩ := hfun
  -- the pair is among the processed pairs
  have hmem : (sid, aggMedian) ∈ ((σ.defsAgg o.defs).flatMap (·.2.streams)).map (fun s => (s.sid, s.agg)) := by
    obtain ⟨e, he, hs'⟩ := href
    simp only [List.mem_map, List.mem_flatMap]
    exact ⟨⟨sid, aggMedian⟩, ⟨e, (hσ.2.2.2.2.1 o.defs).mem_iff.mpr he, hs'⟩, rfl⟩
  rw [hget, if_pos hmem]
  -- the median over the collected values
  obtain ⟨hex, hrange⟩ := median_dec_range ((t.streamObs.get? sid).getD []) cfg.f hs bs t0
    (by rw [hso]; exact hsplit) hmaj hty ht0
  obtain ⟨r, hr⟩ := hex hf
  obtain ⟨d, hd, hlo, hhi⟩ := hrange r hr
  subst hd
  refine ⟨d, ?_, hlo, hhi⟩
  unfold valueOf aggOneValue aggregate
  simp only [aggMedian, if_true, hr, GoRes.bind]

/-- non-vacuity of the split hypotheses: two correct decimals, one arbitrary entry (f = 1) -/
example : ([some (SV.dec ⟨1, 0⟩), none, some (SV.dec ⟨2, 0⟩)] : List (Option SV)).Perm
      ([SV.dec ⟨1, 0⟩, SV.dec ⟨2, 0⟩].map some ++ [none]) ∧ ([none] : List (Option SV)).length < 2 ∧
    (∀ h ∈ [SV.dec ⟨1, 0⟩, SV.dec ⟨2, 0⟩], h.type = 0) := by
  refine ⟨?_, by decide, by decide⟩
  exact List.Perm.cons _ (List.Perm.swap _ _ _)

/-- **quote aggregate, at the level of `Outcome()`**: for a stream that some channel of the new
    outcome aggregates with the quote aggregator, if the correct observers' valid quotes outnumber the
    other entries reported for the stream and there are more than `f` of them, the outcome holds a
    fresh quote whose components are ordered and each lies within the range of that component over
    the correct quotes -/
theorem outcome_quote_honest (env : Env) (cfg : Cfg) (σ : Sched) (hσ : σ.IsSched) (n : Nat) (prev o : Outcome)
    (obs : List Obs) (hvals : ∀ x ∈ obs, GoMap.WF x.values) (h : outcome env cfg σ n prev obs = .ok o)
    (sid : Nat) (href : ∃ e ∈ o.defs, (⟨sid, aggQuote⟩ : Stream) ∈ e.2.streams)
    (hs : List SV) (bs : List (Option SV))
    (hsplit : ((counted env obs).filterMap (obsValue sid)).Perm (hs.map some ++ bs)) (hmaj : bs.length < hs.length)
    (hty : ∀ x ∈ hs, isValidQuote x = true) (hf : cfg.f < hs.length) :
    ∃ bid bm ask, o.aggs.get? (sid, aggQuote) = some (.quote bid bm ask) ∧
      Dec.le bid bm = true ∧ Dec.le bm ask = true ∧
      (∃ lo ∈ hs, Dec.le (tripleOf lo).1 bid = true) ∧ (∃ hi ∈ hs, Dec.le bid (tripleOf hi).1 = true) ∧
      (∃ lo ∈ hs, Dec.le (tripleOf lo).2.1 bm = true) ∧ (∃ hi ∈ hs, Dec.le bm (tripleOf hi).2.1 = true) ∧
      (∃ lo ∈ hs, Dec.le (tripleOf lo).2.2 ask = true) ∧ (∃ hi ∈ hs, Dec.le ask (tripleOf hi).2.2 = true) := by
  obtain ⟨so, hso, hget⟩ := outcome_agg_lookup env cfg σ hσ n prev o obs hvals h sid aggQuote href
  obtain ⟨hex, hrange⟩ := quote_range_ordered ((so.get? sid).getD []) cfg.f hs bs (by rw [hso]; exact hsplit) hmaj hty
  obtain ⟨r, hr⟩ := hex hf
  obtain ⟨bid, bm, ask, hd, hrest⟩ := hrange r hr
  subst hd
  refine ⟨bid, bm, ask, ?_, hrest⟩
  rw [hget]
  unfold valueOf aggOneValue aggregate
  simp [aggQuote, aggMedian, aggMode, hr, GoRes.bind]

/-- the timestamp a correct node contributes is its own clock reading (whole `observation()` model) -/
theorem honest_ts_is_clock (env : Env) (cfg : Cfg) (seqNr : Nat) (prev : Outcome) (nd : Node) (o : Obs)
    (h : observation env cfg seqNr prev nd = .ok (some o)) : (o.ts : Int) = nd.now :=
  (C14.honest_observation_shape env cfg seqNr prev nd o h).1

end DSV.Props.C02
