import DSV.LLO.CodecJson
import DSV.Lemmas.CodecJson
/-!
# C17 — JSON report codec and text forms of stream values round-trip

Property theorems only.
* text forms: **character level** with concrete models on both sides — the printer `Dec.toStr`
  (shopspring `String()`), the parser `parseDec` (shopspring `NewFromString`), the two `Sprintf`
  formats, Lean matchers for the two extracted regexes, `fmt.Sscanf("%d")` into a `uint64`, and the
  JSON text of the `{"t":…,"v":…}` envelope inside a timestamped value (strict form, escaping of
  `"` and `\`).  Nothing is left as a parameter: `text_roundtrip` is about these concrete functions.
* `JSONReportCodec`: struct level (`encoding/json` trusted for bytes ↔ the local `encode` /
  `decode` / `packed` structs); proved: the typed text envelope of every value, the hexadecimal
  config digest, the `SeqNr == 0` check.

"The same value" for a decimal means *numerically equal* (`decEqv`): `String()` drops trailing
zeros and `NewFromString` picks the shortest exponent, so `1.50` (coefficient 150, exponent −2)
comes back as coefficient 15, exponent −1.
-/
namespace DSV.Props.C17
open DSV DSV.LLO

/-! ## text forms -/

/-- decimal: printing then parsing returns a numerically equal decimal — every sign, every
    magnitude, every `int32` exponent -/
theorem text_roundtrip_decimal (d : Dec) (h : d.expOk = true) :
    ∃ d', parseDec d.toStr.toList = some d' ∧ decEqv d' d :=
  parseDec_toStr d h

/-- quote: the unanchored regex finds the three printed components (negative ones included: the
    groups are `-?[0-9.]+`) and each parses back -/
theorem text_roundtrip_quote (b m a : Dec) (hb : b.expOk = true) (hm : m.expOk = true) (ha : a.expOk = true) :
    ∃ b' m' a', untextQuote (textSV (.quote b m a)) = .ok (.quote b' m' a') ∧
      decEqv b' b ∧ decEqv m' m ∧ decEqv a' a :=
  untextQuote_text b m a hb hm ha

/-- every stream value — decimal, quote, timestamped value nested to any depth, any `uint64`
    time — parses back from its text form to the same value -/
theorem text_roundtrip (v : SV) (h : v.inRange = true) :
    ∃ v', untextSV (textSV v).length (v.type : Int) (textSV v) = .ok v' ∧ svEqv v' v :=
  untextSV_textSV v h _ (Nat.le_refl _)

/-- "numerically equal" is an equivalence that `Cmp` cannot tell apart from equality -/
theorem decEqv_iff_cmp (a b : Dec) : decEqv a b ↔ Dec.cmp a b = 0 := by
  unfold decEqv Dec.cmp Dec.lt
  simp only [decide_eq_true_eq]
  constructor
  · intro h
    rw [if_neg (by omega)]
    have hm : min b.exp a.exp = min a.exp b.exp := Int.min_comm _ _
    rw [hm, if_neg (by omega)]
  · intro h
    have hm : min b.exp a.exp = min a.exp b.exp := Int.min_comm _ _
    rw [hm] at h
    split at h
    · omega
    · split at h
      · omega
      · omega

/-- unknown types are an error, no text makes the parser panic -/
theorem untext_rejects (fuel : Nat) (t : Int) (s : List Char) :
    ((t < 0 ∨ t > 2) → untextSV fuel t s = .err errUnknownTypeText) ∧ untextSV fuel t s ≠ .panic := by
  constructor
  · intro h
    unfold untextSV
    rw [if_neg (by omega), if_neg (by omega), if_neg (by omega)]
  · induction fuel generalizing t s with
    | zero =>
      unfold untextSV
      split
      · unfold untextDec; split <;> simp
      · split
        · unfold untextQuote; split
          · simp
          · split <;> simp
        · split <;> simp
    | succ f ih =>
      unfold untextSV
      split
      · unfold untextDec; split <;> simp
      · split
        · unfold untextQuote; split
          · simp
          · split <;> simp
        · split
          · simp only
            split
            · simp
            · split
              · simp
              · split
                · simp
                · split
                  · simp
                  · simp
                  · rename_i h; exact absurd h (ih _ _)
          · simp

/-! ## the pinned tree's quote regex (no sign) — defect D3 -/

/-- the group of the *unrepaired* regex `([0-9.]+)` -/
def takeNumGroupNoSign (s : List Char) : Option (List Char × List Char) :=
  let ds := s.takeWhile isNumChar
  if ds.isEmpty then none else some (ds, s.dropWhile isNumChar)

/-- with the unrepaired group a negative bid does not match at the start of the printed text
    (and the regex has no other place to match): the pinned tree could not read back
    `Q{Bid: -2, Benchmark: 1, Ask: 2}` -/
theorem D3_witness :
    (stripPrefix quotePre1 "Q{Bid: -2, Benchmark: 1, Ask: 2}".toList).bind takeNumGroupNoSign = none := by
  decide

/-! ## JSON report codec (struct level) -/

/-- For a report whose values are all present and whose sequence number is not 0, decoding the
    encoding returns the same config digest, sequence number, channel id, validity start,
    observation timestamp, specimen flag, and numerically the same values. -/
theorem json_roundtrip (digest : List UInt8) (hd : digest.length = 32) (r : Report) (hseq : r.seqNr ≠ 0)
    (vs : List SV) (hvals : r.values = vs.map some) (hr : ∀ v ∈ vs, v.inRange = true) :
    ∃ m r' vs', jsonEncode digest r = .ok m ∧ jsonDecode m = .ok (digest, r') ∧
      r'.seqNr = r.seqNr ∧ r'.channelID = r.channelID ∧ r'.validAfter = r.validAfter ∧
      r'.obsTs = r.obsTs ∧ r'.specimen = r.specimen ∧ r'.values = vs'.map some ∧ svListEqv vs' vs := by
  obtain ⟨vs', h1, h2, h3⟩ := json_values_roundtrip vs hr
  refine ⟨{ configDigest := hexEncode digest, seqNr := r.seqNr, channelID := r.channelID, validAfter := r.validAfter,
            obsTs := r.obsTs, values := vs.map (fun v => (Int.ofNat v.type, textSV v)), specimen := r.specimen },
    { seqNr := r.seqNr, channelID := r.channelID, validAfter := r.validAfter, obsTs := r.obsTs,
      values := vs'.map some, specimen := r.specimen }, vs', ?_, ?_, rfl, rfl, rfl, rfl, rfl, rfl, h3⟩
  · unfold jsonEncode
    rw [hvals, h1]
  · unfold jsonDecode
    simp only
    rw [if_neg hseq, digestFromHex_hexEncode digest hd, h2]

/-- what the codec refuses: a missing value on encode; sequence number 0 or a config digest that is
    not 64 hex digits on decode -/
theorem json_rejects :
    (∀ digest (r : Report), none ∈ r.values → jsonEncode digest r = .err errNilValueJson) ∧
    (∀ m : JsonMsg, m.seqNr = 0 → jsonDecode m = .err errMissingSeqNr) ∧
    (∀ m : JsonMsg, m.seqNr ≠ 0 → (∀ d, hexDecode m.configDigest = some d → d.length ≠ 32) →
      jsonDecode m = .err errBadDigest) := by
  refine ⟨?_, ?_, ?_⟩
  · intro digest r h
    unfold jsonEncode
    rw [jsonEncodeValues_nil_err _ h]
  · intro m h
    unfold jsonDecode
    rw [if_pos h]
  · intro m h hbad
    unfold jsonDecode
    rw [if_neg h]
    have : digestFromHex m.configDigest = .err errBadDigest := by
      unfold digestFromHex
      cases hx : hexDecode m.configDigest with
      | none => rfl
      | some d => simp only; rw [if_pos (hbad d hx)]
    rw [this]

/-- the hexadecimal digest: 64 lower-case digits that read back to the same 32 bytes -/
theorem digest_hex_roundtrip (d : List UInt8) :
    hexDecode (hexEncode d) = some d ∧ (hexEncode d).length = 2 * d.length := by
  refine ⟨hexDecode_hexEncode d, ?_⟩
  induction d with
  | nil => rfl
  | cons b bs ih => simp only [hexEncode, List.length_cons, ih]; omega

/-- unpacking a packed (digest, sequence number, report, signatures) tuple returns the tuple -/
theorem pack_unpack (digest : List UInt8) (hd : digest.length = 32) (seqNr : Nat) (report : List UInt8)
    (sigs : List (List UInt8 × Nat)) :
    jsonUnpack (jsonPack digest seqNr report sigs) = .ok (digest, seqNr, report, sigs) := by
  unfold jsonUnpack jsonPack
  simp only
  rw [digestFromHex_hexEncode digest hd]

/-! ## non-vacuity -/

/-- a negative quote inside a timestamped value with the largest `uint64` time and an extreme
    scale satisfies the hypothesis of `text_roundtrip` -/
example : (SV.tsv 18446744073709551615 (.quote ⟨-25, -1⟩ ⟨-2, 0⟩ ⟨15, -2147483648⟩)).inRange = true := by decide

example : ∃ v', untextSV (textSV (SV.quote ⟨-2, 0⟩ ⟨1, 0⟩ ⟨2, 0⟩)).length 1 (textSV (SV.quote ⟨-2, 0⟩ ⟨1, 0⟩ ⟨2, 0⟩)) = .ok v' ∧
    svEqv v' (SV.quote ⟨-2, 0⟩ ⟨1, 0⟩ ⟨2, 0⟩) :=
  text_roundtrip _ (by decide)

end DSV.Props.C17
